(* C40 -- hand model of luna/gateware/usb/usb3/link/data.py: DataPacketReceiver, and its specification.

   The module watches a stream of 32-bit words + 4 ctrl bits + valid (USBRawSuperSpeedStream) for
     HPSTART  dw0 dw1 dw2 dw3  DPPSTART  payload words ...  (word holding the end of the) CRC32
   and presents the payload on `source` (byte-valid mask, first, last), the header on `header`, and strobes
   packet_good / packet_bad.

   The model is PROPERTY-SATISFYING: it differs from the unchanged /repo code in five places (all confirmed on the
   simulator, see findings/C40-*.json|.diff):
     (a) CHECK_CRC32 leaves to WAIT_FOR_HPSTART on a good CRC too (the code stays and reports again),
     (b) CHECK_CRC32 and (e) the CRC-failure branch of CHECK_HEADER act only on valid words,
     (c) a ctrl symbol inside the last payload word ends the packet (the code reports bad and then checks the CRC too),
     (d) an empty payload compares the received CRC32 word (the code compares the constant 0 with crc32('') = 0).

   Parametric in: the two CRC units (`crc_units`: the real ones of Model/Crc.v, or small stand-ins for the
   netlist tie), the width `lw` of data_bytes_remaining (LUNA: 11 = Signal(range(1024 + 1))), and `hd`
   (whether the header registers are tracked; hd = false is the control core, used against a netlist sliced to
   the non-header outputs). *)
From Coq Require Import NArith List Bool.
Import ListNotations.
From LunaLib Require Import Netlist Bits Machine PackN.
From LunaModel Require Import Crc.
Open Scope N_scope.

(* ---- words and bytes ------------------------------------------------------------------------------- *)
Definition DRX_HPSTART  : N := 4160486395.   (* 0xF7FBFBFB = SHP SHP SHP EPF, ctrl 1111 *)
Definition DRX_DPPSTART : N := 4150025308.   (* 0xF75C5C5C = SDP SDP SDP EPF, ctrl 1111 *)
Definition DRX_TYPE_DATA : N := 8.            (* HeaderPacketType.DATA, dw0[0:5] *)

Definition drx_bytes4 (w : N) : list N := [bits w 0 8; bits w 8 8; bits w 16 8; bits w 24 8].
Fixpoint drx_le (bs : list N) : N := match bs with [] => 0 | b :: t => b + 256 * drx_le t end.
(* the bytes of `data` whose bit in the byte-valid mask is set *)
Definition drx_sel_bytes (mask data : N) : list N :=
  (if N.testbit mask 0 then [bits data 0 8] else []) ++ (if N.testbit mask 1 then [bits data 8 8] else []) ++
  (if N.testbit mask 2 then [bits data 16 8] else []) ++ (if N.testbit mask 3 then [bits data 24 8] else []).

(* ---- CRC units: running registers as N ------------------------------------------------------------- *)
Record crc_units := {
  u16_init : N; u16_adv : N -> N -> N;        (* register, 32-bit word -> register *)
  u16_out : N -> N;                            (* the 16-bit `crc` output *)
  u32_init : N; u32_adv : N -> N -> N -> N;   (* register, number of bytes 1..4, word -> register *)
  u32_out : N -> N }.

(* the real units: HeaderPacketCRC / DataPacketPayloadCRC as modelled in Model/Crc.v (crc16hmod_step, crc32mod_step) *)
Definition drx_real_units : crc_units := {|
  u16_init := 65535;
  u16_adv := fun r w => bits2N (crc_update poly16h (N2bits 16 r) (N2bits 32 w));
  u16_out := fun r => crc_out (N2bits 16 r);
  u32_init := 4294967295;
  u32_adv := fun r k w => bits2N (crc_update poly32 (N2bits 32 r) (N2bits (N.to_nat (8 * k)) w));
  u32_out := fun r => crc_out (N2bits 32 r) |}.

(* stand-ins (2-bit xor checksums) used only for the netlist tie of the control logic; see props/C40.py *)
Definition drx_x2 (k w : N) : N :=
  N.lxor (N.lxor (if 0 <? k then bits w 0 2 else 0) (if 1 <? k then bits w 8 2 else 0))
         (N.lxor (if 2 <? k then bits w 16 2 else 0) (if 3 <? k then bits w 24 2 else 0)).
Definition drx_stub_units : crc_units := {|
  u16_init := 3; u16_adv := fun r w => N.lxor r (drx_x2 4 w); u16_out := fun r => r;
  u32_init := 3; u32_adv := fun r k w => N.lxor r (drx_x2 k w); u32_out := fun r => r |}.

(* ---- the module model -------------------------------------------------------------------------------- *)
Inductive drx_fsm := DWAIT | DDW0 | DDW1 | DDW2 | DDW3 | DCHK | DPAY | DCRC.

Record drx_state := {
  fsm : drx_fsm;
  plen : N;            (* header.dw1[16:16+lw], the part of dw1 that data_bytes_remaining is loaded from *)
  f16 : N; f5 : N;     (* header.crc16, header.crc5 *)
  xcrc5 : N;           (* expected_crc5 *)
  rem : N;             (* data_bytes_remaining *)
  first : bool;        (* source.first (registered) *)
  pword : N; pvalid : N;      (* previous_word, previous_valid *)
  c16 : N; c32 : N;    (* running CRC registers *)
  hdw0 : N; hdw1 : N; hdw2 : N; hdw3 : N;     (* header in progress (only when hd) *)
  ohdr : N             (* self.header, 128 bits = dw0 | dw1<<32 | dw2<<64 | dw3<<96 (only when hd) *)
}.

Record drx_out := { o_data : N; o_valid : N; o_first : bool; o_last : bool; o_good : bool; o_bad : bool; o_hdr : N }.

Definition drx_init (U : crc_units) : drx_state :=
  {| fsm := DWAIT; plen := 0; f16 := 0; f5 := 0; xcrc5 := 0; rem := 0; first := false; pword := 0; pvalid := 0;
     c16 := u16_init U; c32 := u32_init U; hdw0 := 0; hdw1 := 0; hdw2 := 0; hdw3 := 0; ohdr := 0 |}.

Definition drx_quiet (s : drx_state) : drx_out :=
  {| o_data := 0; o_valid := 0; o_first := first s; o_last := false; o_good := false; o_bad := false; o_hdr := ohdr s |}.

(* source.valid in RECEIVE_PAYLOAD: byte k is valid iff remaining > k and the input word is valid *)
Definition drx_mask (rem : N) (v : bool) : N := if v then (if 3 <? rem then 15 else N.ones rem) else 0.
Definition drx_nbytes (rem : N) : N := N.min rem 4.

(* CHECK_CRC32: the 32 bits that hold the CRC, from the previous and the current word *)
Definition drx_to_check (pvalid pword data : N) : N :=
  match pvalid with
  | 0  => pword                                       (* (d): empty payload -- the previous word was the CRC *)
  | 15 => data
  | 7  => bits pword 24 8 + 256 * bits data 0 24
  | 3  => bits pword 16 16 + 65536 * bits data 0 16
  | 1  => bits pword 8 24 + 16777216 * bits data 0 8
  | _  => 0
  end.

Section Model.
  Variable U : crc_units.
  Variable lw : N.
  Variable hd : bool.

  Definition gate (new old : N) : N := if hd then new else old.

  Definition drx_next (s : drx_state) (v : bool) (data ctrl : N) : drx_state * drx_out :=
    let upd f p f16' f5' x r fi pw pv a b h0 h1 h2 h3 oh :=
      {| fsm := f; plen := p; f16 := f16'; f5 := f5'; xcrc5 := x; rem := r; first := fi; pword := pw; pvalid := pv;
         c16 := a; c32 := b; hdw0 := h0; hdw1 := h1; hdw2 := h2; hdw3 := h3; ohdr := oh |} in
    let keep f a b := upd f (plen s) (f16 s) (f5 s) (xcrc5 s) (rem s) (first s) (pword s) (pvalid s) a b
                          (hdw0 s) (hdw1 s) (hdw2 s) (hdw3 s) (ohdr s) in
    match fsm s with
    | DWAIT =>      (* both CRCs are held cleared *)
        (keep (if v && (data =? DRX_HPSTART) && (ctrl =? 15) then DDW0 else DWAIT) (u16_init U) (u32_init U),
         drx_quiet s)
    | DDW0 =>
        (if v then
           upd (if bits data 0 5 =? DRX_TYPE_DATA then DDW1 else DWAIT) (plen s) (f16 s) (f5 s) (xcrc5 s) (rem s)
               (first s) (pword s) (pvalid s) (u16_adv U (c16 s) data) (c32 s)
               (gate data (hdw0 s)) (hdw1 s) (hdw2 s) (hdw3 s) (ohdr s)
         else s, drx_quiet s)
    | DDW1 =>
        (if v then
           upd DDW2 (bits data 16 lw) (f16 s) (f5 s) (xcrc5 s) (rem s) (first s) (pword s) (pvalid s)
               (u16_adv U (c16 s) data) (c32 s) (hdw0 s) (gate data (hdw1 s)) (hdw2 s) (hdw3 s) (ohdr s)
         else s, drx_quiet s)
    | DDW2 =>
        (if v then
           upd DDW3 (plen s) (f16 s) (f5 s) (xcrc5 s) (rem s) (first s) (pword s) (pvalid s)
               (u16_adv U (c16 s) data) (c32 s) (hdw0 s) (hdw1 s) (gate data (hdw2 s)) (hdw3 s) (ohdr s)
         else s, drx_quiet s)
    | DDW3 =>
        (if v then
           upd DCHK (plen s) (bits data 0 16) (bits data 27 5) (crc5_usb (bits data 16 11)) (rem s) (first s)
               (pword s) (pvalid s) (c16 s) (c32 s) (hdw0 s) (hdw1 s) (hdw2 s) (gate data (hdw3 s)) (ohdr s)
         else s, drx_quiet s)
    | DCHK =>
        let fail := negb (xcrc5 s =? f5 s) || negb (u16_out U (c16 s) =? f16 s) in
        (if v then
           if fail then keep DWAIT (c16 s) (c32 s)
           else if (data =? DRX_DPPSTART) && (ctrl =? 15) then
             upd DPAY (plen s) (f16 s) (f5 s) (xcrc5 s) (plen s) true (pword s) (pvalid s) (c16 s) (c32 s)
                 (hdw0 s) (hdw1 s) (hdw2 s) (hdw3 s)
                 (gate (hdw0 s + 4294967296 * (hdw1 s + 4294967296 * (hdw2 s + 4294967296 * hdw3 s))) (ohdr s))
           else keep DWAIT (c16 s) (c32 s)
         else s, drx_quiet s)
    | DPAY =>
        let m := drx_mask (rem s) v in
        let err := negb (N.land ctrl m =? 0) in
        (if v then
           upd (if err then DWAIT else if 4 <? rem s then DPAY else DCRC)
               (plen s) (f16 s) (f5 s) (xcrc5 s) (if 4 <? rem s then rem s - 4 else rem s) false data m (c16 s)
               (if rem s =? 0 then c32 s else u32_adv U (c32 s) (drx_nbytes (rem s)) data)
               (hdw0 s) (hdw1 s) (hdw2 s) (hdw3 s) (ohdr s)
         else s,
         {| o_data := data; o_valid := m; o_first := first s; o_last := rem s <=? 4; o_good := false;
            o_bad := v && err; o_hdr := ohdr s |})
    | DCRC =>
        let ok := drx_to_check (pvalid s) (pword s) data =? u32_out U (c32 s) in
        (if v then keep DWAIT (c16 s) (c32 s) else s,
         {| o_data := 0; o_valid := 0; o_first := first s; o_last := false; o_good := v && ok; o_bad := v && negb ok;
            o_hdr := ohdr s |})
    end.

  (* packed interface: inputs data(32) ctrl(4) valid(1); outputs s_data(32) s_valid(4) s_first s_last good bad [header(128)] *)
  Definition drx_pack (o : drx_out) : N :=
    pk 4294967296 (o_data o) (pk 16 (o_valid o) (pk 2 (b2n (o_first o)) (pk 2 (b2n (o_last o))
      (pk 2 (b2n (o_good o)) (pk 2 (b2n (o_bad o)) (if hd then o_hdr o else 0)))))).

  Definition drx_stepR (s : drx_state) (i : N) : drx_state * drx_out :=
    drx_next s (N.odd (bits i 36 1)) (bits i 0 32) (bits i 32 4).
  Definition drx_step (s : drx_state) (i : N) : drx_state * N :=
    let (s', o) := drx_stepR s i in (s', drx_pack o).
End Model.

Definition drx_unpack (w : N) : drx_out :=
  {| o_data := w mod 4294967296; o_valid := (w / 4294967296) mod 16;
     o_first := N.odd (w / 68719476736); o_last := N.odd (w / 137438953472);
     o_good := N.odd (w / 274877906944); o_bad := N.odd (w / 549755813888); o_hdr := w / 1099511627776 |}.

(* ---- observable events --------------------------------------------------------------------------------- *)
(* what a consumer sees: payload beats (the valid bytes of a source word, with first/last and the header that is
   presented at that moment) and good/bad reports *)
Inductive drx_ev :=
| Beat (hdr : N) (bytes : list N) (first last : bool)
| Report (hdr : N) (good : bool).

Definition drx_beat_bytes (e : drx_ev) : list N := match e with Beat _ bs _ _ => bs | Report _ _ => [] end.
Definition drx_is_report (e : drx_ev) : bool := match e with Beat _ _ _ _ => false | Report _ _ => true end.

Definition drx_events (o : drx_out) : list drx_ev :=
  (if o_valid o =? 0 then [] else [Beat (o_hdr o) (drx_sel_bytes (o_valid o) (o_data o)) (o_first o) (o_last o)]) ++
  (if o_good o then [Report (o_hdr o) true] else []) ++ (if o_bad o then [Report (o_hdr o) false] else []).

Fixpoint drx_runR (U : crc_units) (lw : N) (hd : bool) (s : drx_state) (ins : list N) : list drx_out :=
  match ins with
  | [] => []
  | i :: t => let (s', o) := drx_stepR U lw hd s i in o :: drx_runR U lw hd s' t
  end.

(* the valid words (data, ctrl) of an input history: everything the specification looks at *)
Definition drx_vwords (ins : list N) : list (N * N) :=
  flat_map (fun i => if N.odd (bits i 36 1) then [(bits i 0 32, bits i 32 4)] else []) ins.

(* ---- specification: a parser over the VALID words only --------------------------------------------------
   It accumulates the words of the packet in progress and decides declaratively on the accumulated lists:
     header good  :=  h16 [dw0;dw1;dw2] = dw3[0:16]  /\  crc5 dw3[16:27] = dw3[27:32]
     payload      :=  the first L bytes of the words following DPPSTART,  L = dw1[16:16+lw]
     CRC field    :=  the 4 bytes that follow the payload in that byte stream
     good         :=  c32 payload = CRC field  (and no ctrl symbol sits on a payload byte: that is reported bad at once)
   h16 / c32 are the reference CRCs (crc16_hdr / crc32_usb for the real units). *)
Inductive drx_sp :=
| SIdle
| SHdr (ws : list N)                       (* 0..3 header words collected after HPSTART *)
| SChk (ws : list N)                       (* 4 header words collected; the next word decides *)
| SPay (ws : list N) (acc : list (N * N)). (* header accepted, payload words so far *)

Section Spec.
  Variable h16 : list N -> N.
  Variable c32 : list N -> N.
  Variable lw : N.

  Definition sp_hdr_ok (ws : list N) : bool :=
    let dw3 := nth 3 ws 0 in
    (h16 (firstn 3 ws) =? bits dw3 0 16) && (crc5_usb (bits dw3 16 11) =? bits dw3 27 5).
  Definition sp_len (ws : list N) : N := bits (nth 1 ws 0) 16 lw.
  Definition sp_hdr (ws : list N) : N :=
    nth 0 ws 0 + 4294967296 * (nth 1 ws 0 + 4294967296 * (nth 2 ws 0 + 4294967296 * nth 3 ws 0)).
  (* is word number k (from 0) after DPPSTART still a payload word?  Words 0 .. ceil(L/4)-1 are; an empty payload
     still takes one word (which holds its CRC) *)
  Definition sp_more (L k : N) : bool := (4 * k <? L) || ((L =? 0) && (k =? 0)).

  Definition sp_step (s : drx_sp) (w : N * N) : drx_sp * list drx_ev :=
    match s with
    | SIdle => (if (fst w =? DRX_HPSTART) && (snd w =? 15) then SHdr [] else SIdle, [])
    | SHdr ws =>
        match ws with
        | [] => (if bits (fst w) 0 5 =? DRX_TYPE_DATA then SHdr [fst w] else SIdle, [])
        | [_; _; _] => (SChk (ws ++ [fst w]), [])
        | _ => (SHdr (ws ++ [fst w]), [])
        end
    | SChk ws =>
        (if sp_hdr_ok ws && (fst w =? DRX_DPPSTART) && (snd w =? 15) then SPay ws [] else SIdle, [])
    | SPay ws acc =>
        let L := sp_len ws in
        let k := N.of_nat (length acc) in
        if sp_more L k then
          let nb := N.min (L - 4 * k) 4 in                        (* payload bytes in this word *)
          let beat := if nb =? 0 then []
                      else [Beat (sp_hdr ws) (firstn (N.to_nat nb) (drx_bytes4 (fst w))) (k =? 0) (L - 4 * k <=? 4)] in
          if N.land (snd w) (N.ones nb) =? 0 then
            (SPay ws (acc ++ [w]), beat)
          else (SIdle, beat ++ [Report (sp_hdr ws) false])
        else
          let bs := flat_map drx_bytes4 (map fst (acc ++ [w])) in      (* all bytes of the words after DPPSTART *)
          (SIdle, [Report (sp_hdr ws)
                     (c32 (firstn (N.to_nat L) bs) =? drx_le (firstn 4 (skipn (N.to_nat L) bs)))])
    end.

  (* vocabulary for the per-packet statements (used in theorems only, not by sp_step) *)
  Definition sp_nwords (L : N) : N := if L =? 0 then 1 else (L + 3) / 4.     (* words that hold payload bytes *)
  Definition sp_pbytes (body : list (N * N)) : list N := flat_map drx_bytes4 (map fst body).
  (* CRC32 verdict of a packet with header ws whose words after DPPSTART are `body` *)
  Definition sp_verdict (ws : list N) (body : list (N * N)) : bool :=
    let L := N.to_nat (sp_len ws) in
    c32 (firstn L (sp_pbytes body)) =? drx_le (firstn 4 (skipn L (sp_pbytes body))).
  (* the payload beats of payload words number k, k+1, ... *)
  Fixpoint sp_beats (ws : list N) (k : N) (pay : list (N * N)) : list drx_ev :=
    match pay with
    | [] => []
    | w :: t =>
        let r := sp_len ws - 4 * k in
        (if N.min r 4 =? 0 then []
         else [Beat (sp_hdr ws) (firstn (N.to_nat (N.min r 4)) (drx_bytes4 (fst w))) (k =? 0) (r <=? 4)])
        ++ sp_beats ws (k + 1) t
    end.
  (* no ctrl symbol on a payload byte of payload word number k, k+1, ... *)
  Fixpoint sp_clean (ws : list N) (k : N) (pay : list (N * N)) : bool :=
    match pay with
    | [] => true
    | w :: t => (N.land (snd w) (N.ones (N.min (sp_len ws - 4 * k) 4)) =? 0) && sp_clean ws (k + 1) t
    end.

  Fixpoint sp_run (s : drx_sp) (ws : list (N * N)) : list drx_ev :=
    match ws with
    | [] => []
    | w :: t => let (s', e) := sp_step s w in e ++ sp_run s' t
    end.
  Fixpoint sp_state_after (s : drx_sp) (ws : list (N * N)) : drx_sp :=
    match ws with
    | [] => s
    | w :: t => sp_state_after (fst (sp_step s w)) t
    end.
End Spec.

(* ---- state packing for lock-step obligations -------------------------------------------------------------- *)
Definition drx_fsm_code (f : drx_fsm) : N :=
  match f with DWAIT => 0 | DDW0 => 1 | DDW1 => 2 | DDW2 => 3 | DDW3 => 4 | DCHK => 5 | DPAY => 6 | DCRC => 7 end.
Definition drx_fsm_of (n : N) : drx_fsm :=
  match n with 0 => DWAIT | 1 => DDW0 | 2 => DDW1 | 3 => DDW2 | 4 => DDW3 | 5 => DCHK | 6 => DPAY | _ => DCRC end.

Definition W32 : N := 4294967296.
Definition drx_enc (s : drx_state) : N :=
  pk 8 (drx_fsm_code (fsm s)) (pk 65536 (plen s) (pk 65536 (f16 s) (pk 32 (f5 s) (pk 32 (xcrc5 s) (pk 65536 (rem s)
  (pk 2 (b2n (first s)) (pk W32 (pword s) (pk 16 (pvalid s) (pk W32 (c16 s) (pk W32 (c32 s)
  (pk W32 (hdw0 s) (pk W32 (hdw1 s) (pk W32 (hdw2 s) (pk W32 (hdw3 s) (ohdr s))))))))))))))).
(* (shifts and masks rather than / and mod: the decoder runs inside the reachability computations) *)
Definition drx_dec (n : N) : drx_state :=
  let n1 := N.shiftr n 3 in let n2 := N.shiftr n1 16 in let n3 := N.shiftr n2 16 in let n4 := N.shiftr n3 5 in
  let n5 := N.shiftr n4 5 in let n6 := N.shiftr n5 16 in let n7 := N.shiftr n6 1 in let n8 := N.shiftr n7 32 in
  let n9 := N.shiftr n8 4 in let n10 := N.shiftr n9 32 in let n11 := N.shiftr n10 32 in let n12 := N.shiftr n11 32 in
  let n13 := N.shiftr n12 32 in let n14 := N.shiftr n13 32 in let n15 := N.shiftr n14 32 in
  {| fsm := drx_fsm_of (N.land n 7); plen := N.land n1 65535; f16 := N.land n2 65535; f5 := N.land n3 31;
     xcrc5 := N.land n4 31; rem := N.land n5 65535; first := N.odd n6; pword := N.land n7 4294967295;
     pvalid := N.land n8 15; c16 := N.land n9 4294967295; c32 := N.land n10 4294967295;
     hdw0 := N.land n11 4294967295; hdw1 := N.land n12 4294967295; hdw2 := N.land n13 4294967295;
     hdw3 := N.land n14 4294967295; ohdr := n15 |}.

Definition drx_wf (s : drx_state) : Prop :=
  plen s < 65536 /\ f16 s < 65536 /\ f5 s < 32 /\ xcrc5 s < 32 /\ rem s < 65536 /\ pword s < W32 /\ pvalid s < 16 /\
  c16 s < W32 /\ c32 s < W32 /\ hdw0 s < W32 /\ hdw1 s < W32 /\ hdw2 s < W32 /\ hdw3 s < W32.

(* units whose registers stay below 2^32 (needed for the packing only) *)
Definition units_bounded (U : crc_units) : Prop :=
  u16_init U < W32 /\ u32_init U < W32 /\ (forall r w, r < W32 -> u16_adv U r w < W32) /\
  (forall r k w, r < W32 -> u32_adv U r k w < W32).

(* ---- the specification as a runtime oracle ----------------------------------------------------------------
   Monitor over (input word, output word) pairs of the implementation.  Its state is nothing but the history of valid
   input words (packed into one N, sentinel 1); in every cycle the events read off the output word must equal the
   events the specification parser emits for this cycle's word after that history (none for an invalid word). *)
Definition W37 : N := 137438953472.
Fixpoint drx_hist_dec (fuel : nat) (m : N) (acc : list (N * N)) : list (N * N) :=
  match fuel with
  | O => acc
  | S f => if m <=? 1 then acc
           else drx_hist_dec f (N.shiftr m 37) ((bits m 0 32, bits m 32 4) :: acc)
  end.
Definition drx_hist (m : N) : list (N * N) := drx_hist_dec (N.to_nat (N.size m)) m [].

Definition drx_ev_eqb (a b : drx_ev) : bool :=
  match a, b with
  | Beat h bs f l, Beat h' bs' f' l' => (h =? h') && list_eqb bs bs' && Bool.eqb f f' && Bool.eqb l l'
  | Report h g, Report h' g' => (h =? h') && Bool.eqb g g'
  | _, _ => false
  end.
Fixpoint drx_evs_eqb (a b : list drx_ev) : bool :=
  match a, b with
  | [], [] => true
  | x :: a', y :: b' => drx_ev_eqb x y && drx_evs_eqb a' b'
  | _, _ => false
  end.
Definition drx_ev_nohdr (e : drx_ev) : drx_ev :=
  match e with Beat _ b f l => Beat 0 b f l | Report _ g => Report 0 g end.

Definition drx_spec_mon (h16 c32 : list N -> N) (lw : N) (hd : bool) (m i o : N) : option (N * bool) :=
  let got := drx_events (drx_unpack o) in
  if N.odd (bits i 36 1) then
    let w := (bits i 0 32, bits i 32 4) in
    let e := snd (sp_step h16 c32 lw (sp_state_after h16 c32 lw SIdle (drx_hist m)) w) in
    let e' := if hd then e else map drx_ev_nohdr e in
    Some (N.shiftl m 37 + bits i 0 37, drx_evs_eqb got e')
  else Some (m, drx_evs_eqb got []).

(* state-dependent input alphabets for the lock-step obligations: one word list per FSM state of the model *)
Definition drx_alpha (aw a0 a1 a2 a3 ac ap ar : list N) (s : drx_state) : list N :=
  match fsm s with
  | DWAIT => aw | DDW0 => a0 | DDW1 => a1 | DDW2 => a2 | DDW3 => a3 | DCHK => ac | DPAY => ap | DCRC => ar
  end.
