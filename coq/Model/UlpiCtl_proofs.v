(* C24 -- proofs about the control translator + register window model (Model/UlpiCtl.v), for EVERY history of
   DIR / NXT / bus_idle / control inputs (no assumption on the PHY's timing, aborts at any point):
     sys_inv_run        link and PHY stay in step (invariant)
     cw_writes_correct  every committed PHY write is (address, value requested for that address when the request was accepted)
     cw_only_ctrl_regs  no other PHY register is ever written
     cw_converged       whenever the translator is quiescent the PHY's registers equal the requested settings
     cw_starts_write    if the requested settings differ from the shadow and the bus is available, a write starts at once
     cw_write_latency   with DIR low and a PHY acknowledging at once, a started write is committed 4 cycles later and
                        reported done in the 5th
   + packing lemmas for the lock-step obligation.                                                     *)
From Coq Require Import NArith ZArith List Bool Lia ZifyBool ZifyN.
Import ListNotations.
From LunaLib Require Import Netlist Machine.
From LunaModel Require Import UlpiCtl.
Open Scope N_scope.
Ltac Zify.zify_post_hook ::= Z.div_mod_to_equations.

Definition tracked (a : N) : Prop := a = FUNC_CTRL \/ a = OTG_CTRL.
Definition shadows_ok (s : cw_state) (p : phy) : Prop := c_cur4 s = q_r4 p /\ c_cur10 s = q_r10 p.

(* the write in flight is the one recorded by the ghost *)
Definition inflight (s : cw_state) (gq : option (N * N)) : Prop :=
  tracked (w_caddr s) /\ gq = Some (w_caddr s, w_cwrite s).

Definition sys_inv (s : cw_state) (p : phy) (gq : option (N * N)) : Prop :=
  q_other p = false /\
  match w_fsm s with
  | W_IDLE =>
      q_ph p = QIdle /\ w_stop s = false /\ w_dout s = 0 /\
      (if w_done s then
         inflight s gq /\
         (w_caddr s = FUNC_CTRL -> q_r4 p = w_cwrite s /\ c_cur10 s = q_r10 p) /\
         (w_caddr s = OTG_CTRL -> q_r10 p = w_cwrite s /\ c_cur4 s = q_r4 p)
       else shadows_ok s p)
  | W_START =>
      q_ph p = QIdle /\ w_stop s = false /\ w_done s = false /\ inflight s gq /\ shadows_ok s p /\
      (w_dout s = 0 \/ q_pdir p = true)
  | W_SEND =>
      q_ph p = QIdle /\ w_stop s = false /\ w_done s = false /\ inflight s gq /\ shadows_ok s p /\
      w_dout s = 128 + w_caddr s /\ q_pdir p = false
  | W_HOLD =>
      q_ph p = QW1 /\ w_stop s = false /\ w_done s = false /\ inflight s gq /\ shadows_ok s p /\
      q_addr p = w_caddr s /\ w_dout s = w_cwrite s
  | W_STOPPING =>
      q_ph p = QW2 /\ w_stop s = true /\ w_done s = false /\ inflight s gq /\ shadows_ok s p /\
      q_addr p = w_caddr s /\ q_data p = w_cwrite s /\ w_dout s = 0
  end.

Lemma sys_inv_init : sys_inv cw_init phy_init None.
Proof. split; [reflexivity|]. cbn. repeat split; reflexivity. Qed.

Lemma tracked_cmd : forall a, tracked a -> is_regw_b (128 + a) = true /\ (128 + a) mod 64 = a /\ is_txcmd_b (128 + a) = false.
Proof. intros a [->| ->]; vm_compute; repeat split. Qed.

Lemma select_tracked : forall s f g a v, cw_select s f g = Some (a, v) -> tracked a.
Proof.
  intros s f g a v. unfold cw_select.
  destruct (negb (c_cur4 s =? f)); [intro H; inversion H; left; reflexivity|].
  destruct (negb (c_cur10 s =? g)); [intro H; inversion H; right; reflexivity | discriminate].
Qed.

Ltac inv_simpl :=
  cbn [w_fsm w_dout w_oreq w_stop w_done w_caddr w_cwrite c_cur4 c_cur10 c_busy
       q_ph q_pdir q_addr q_data q_r4 q_r10 q_other fst snd andb orb negb] in *.

(* one step: the invariant is preserved, and a commit in this cycle is exactly the write recorded by the ghost *)
Lemma sys_inv_step : forall s p gq i, sys_inv s p gq ->
  sys_inv (fst (cw_step s i)) (phy_step p (ki_dir i) (ki_nxt i) (w_dout s) (w_stop s)) (ghost_next gq s i) /\
  (forall a d, phy_commit p (ki_dir i) (w_stop s) = Some (a, d) -> tracked a /\ gq = Some (a, d)).
Proof.
  intros s p gq i [Hoth H].
  unfold cw_step, ghost_next, accepts_request, phy_commit. cbn [fst].
  set (f := ki_func i). set (g := ki_otg i). set (idle := ki_idle i). set (dir := ki_dir i). set (nxt := ki_nxt i).
  clearbody f g idle dir nxt.
  destruct s as [fsm dout oreq stop done caddr cwrite cur4 cur10 busy].
  destruct p as [ph pdir pa pd r4 r10 other].
  unfold sys_inv, inflight, shadows_ok in *. inv_simpl. subst other.
  destruct fsm; inv_simpl.
  - (* IDLE *)
    destruct H as (-> & -> & -> & H).
    split; [|intros a d E; discriminate].
    unfold cw_next, phy_step. inv_simpl.
    change (is_regw_b 0) with false. change (is_txcmd_b 0) with false.
    destruct done.
    + (* completion cycle: the shadow of the written register is updated; no request is accepted *)
      destruct H as ((Ht & Hg) & H4 & H10).
      destruct (cw_select _ f g) as [[a v]|]; inv_simpl;
        (destruct Ht as [-> | ->];
         [ destruct (H4 eq_refl) as [E4 E10]; change (FUNC_CTRL =? FUNC_CTRL) with true; change (FUNC_CTRL =? OTG_CTRL) with false
         | destruct (H10 eq_refl) as [E10 E4]; change (OTG_CTRL =? FUNC_CTRL) with false; change (OTG_CTRL =? OTG_CTRL) with true ]);
        destruct dir, nxt, pdir; inv_simpl; repeat split; auto.
    + (* plain idle: possibly accept a request *)
      destruct H as [E4 E10].
      destruct (cw_select _ f g) as [[a v]|] eqn:Sel; inv_simpl.
      * pose proof (select_tracked _ _ _ _ _ Sel) as Ht.
        destruct idle, dir, nxt, pdir; inv_simpl; repeat split; auto.
      * destruct dir, nxt, pdir; inv_simpl; repeat split; auto.
  - (* START *)
    destruct H as (-> & -> & -> & (Ht & Hg) & (E4 & E10) & Hd).
    split; [|intros a d E; discriminate].
    unfold cw_next, phy_step. inv_simpl.
    destruct Hd as [-> | ->].
    + change (is_regw_b 0) with false. change (is_txcmd_b 0) with false.
      destruct dir, nxt, pdir; inv_simpl; repeat split; auto.
    + destruct dir, nxt; inv_simpl; repeat split; auto.
  - (* SEND *)
    destruct H as (-> & -> & -> & (Ht & Hg) & (E4 & E10) & -> & ->).
    split; [|intros a d E; discriminate].
    destruct (tracked_cmd caddr Ht) as (Hr & Hm & Hx).
    unfold cw_next, phy_step. inv_simpl. rewrite Hr, Hm.
    destruct dir, nxt; inv_simpl; repeat split; auto.
  - (* HOLD *)
    destruct H as (-> & -> & -> & (Ht & Hg) & (E4 & E10) & -> & ->).
    split; [|intros a d E; discriminate].
    unfold cw_next, phy_step. inv_simpl.
    destruct dir, nxt; inv_simpl; repeat split; auto.
  - (* STOPPING *)
    destruct H as (-> & -> & -> & (Ht & Hg) & (E4 & E10) & -> & -> & ->).
    unfold cw_next, phy_step. inv_simpl.
    destruct dir; inv_simpl.
    + split; [repeat split; auto | intros a d E; discriminate].
    + split.
      * destruct Ht as [-> | ->];
          [ change (FUNC_CTRL =? FUNC_CTRL) with true; change (FUNC_CTRL =? OTG_CTRL) with false
          | change (OTG_CTRL =? FUNC_CTRL) with false; change (OTG_CTRL =? OTG_CTRL) with true ];
          inv_simpl; repeat split; auto; try (left; reflexivity); try (right; reflexivity);
          try (unfold FUNC_CTRL, OTG_CTRL in *; congruence).
      * intros a d E. inversion E; subst. split; assumption.
Qed.

(* ------------------------------ runs ------------------------------------------------------------ *)
(* the system with the ghost "most recently accepted request" *)
Definition gsys_step (x : cw_state * phy * option (N * N)) (i : N) : cw_state * phy * option (N * N) :=
  let '(s, p, gq) := x in
  (fst (cw_step s i), phy_step p (ki_dir i) (ki_nxt i) (w_dout s) (w_stop s), ghost_next gq s i).
Definition gsys_run (tr : list N) : cw_state * phy * option (N * N) := fold_left gsys_step tr (cw_init, phy_init, None).

Lemma gsys_run_snoc : forall tr i, gsys_run (tr ++ [i]) = gsys_step (gsys_run tr) i.
Proof. intros. unfold gsys_run. rewrite fold_left_app. reflexivity. Qed.

Lemma gsys_sys : forall tr x, fst (fold_left gsys_step tr x) = sys_run (fst x) tr.
Proof.
  induction tr as [|i t IH]; intros [[s p] gq]; [reflexivity|].
  cbn [fold_left sys_run]. rewrite IH. reflexivity.
Qed.

Theorem sys_inv_run : forall tr, let '(s, p, gq) := gsys_run tr in sys_inv s p gq.
Proof.
  intro tr. induction tr as [|i t IH] using rev_ind.
  - exact sys_inv_init.
  - rewrite gsys_run_snoc. destruct (gsys_run t) as [[s p] gq]. cbn [gsys_step].
    apply (sys_inv_step s p gq i IH).
Qed.

(* the value of an accepted request is the value requested for its register in that cycle *)
Lemma accepts_value : forall s i a v, accepts_request s i = Some (a, v) -> requested_of a i = Some v.
Proof.
  intros s i a v. unfold accepts_request, cw_select, requested_of.
  destruct (w_fsm s); try discriminate.
  destruct (negb (c_cur4 s =? ki_func i)).
  - destruct (negb (w_done s) && ki_idle i); [|discriminate]. intro H; inversion H; subst. reflexivity.
  - destruct (negb (c_cur10 s =? ki_otg i)); [|discriminate].
    destruct (negb (w_done s) && ki_idle i); [|discriminate]. intro H; inversion H; subst. reflexivity.
Qed.

(* (S1) after any history tr, a write the PHY commits in the next cycle i is the most recently accepted request:
        a tracked register, with the value that was requested for it when the request was accepted *)
Theorem cw_writes_correct : forall tr i a d,
  let '(s, p, gq) := gsys_run tr in
  phy_commit p (ki_dir i) (w_stop s) = Some (a, d) ->
  (a = FUNC_CTRL \/ a = OTG_CTRL) /\ gq = Some (a, d).
Proof.
  intros tr i a d. pose proof (sys_inv_run tr) as H. destruct (gsys_run tr) as [[s p] gq].
  intro E. exact (proj2 (sys_inv_step s p gq i H) a d E).
Qed.

Theorem cw_only_ctrl_regs : forall tr, q_other (snd (sys_run sys_init tr)) = false.
Proof.
  intro tr. pose proof (sys_inv_run tr) as H. pose proof (gsys_sys tr (cw_init, phy_init, None)) as E.
  unfold gsys_run in H. destruct (fold_left gsys_step tr (cw_init, phy_init, None)) as [[s p] gq].
  cbn [fst] in E. unfold sys_init. rewrite <- E. exact (proj1 H).
Qed.

(* (S2/S3) convergence: whenever the translator is quiescent w.r.t. the current control inputs, the PHY's Function
        Control and OTG Control registers hold exactly the requested values *)
Theorem cw_converged : forall tr i,
  let (s, p) := sys_run sys_init tr in
  quiescent s i = true -> q_r4 p = ki_func i /\ q_r10 p = ki_otg i.
Proof.
  intros tr i. pose proof (sys_inv_run tr) as H. pose proof (gsys_sys tr (cw_init, phy_init, None)) as E.
  unfold gsys_run in H. destruct (fold_left gsys_step tr (cw_init, phy_init, None)) as [[s p] gq].
  cbn [fst] in E. unfold sys_init. rewrite <- E.
  unfold quiescent, cw_select. destruct H as [_ H].
  destruct (w_fsm s); try discriminate.
  destruct H as (_ & _ & _ & H). destruct (w_done s); [discriminate|]. destruct H as [E4 E10].
  destruct (c_cur4 s =? ki_func i) eqn:A; [|discriminate].
  destruct (c_cur10 s =? ki_otg i) eqn:B; [|discriminate].
  apply N.eqb_eq in A, B. intros _. split; congruence.
Qed.

(* ... and if it is not quiescent only because the settings differ, a write starts in this very cycle *)
Theorem cw_starts_write : forall s i, w_fsm s = W_IDLE -> w_done s = false -> ki_idle i = true ->
  cw_select s (ki_func i) (ki_otg i) <> None -> w_fsm (fst (cw_step s i)) = W_START.
Proof.
  intros s i Hf Hd Hi Hs. unfold cw_step, cw_next. cbn [fst]. rewrite Hf, Hd, Hi.
  destruct (cw_select s (ki_func i) (ki_otg i)) as [[a v]|]; [reflexivity | contradiction].
Qed.

(* latency of an undisturbed write: DIR low, the PHY sees the command for one cycle and then acknowledges
   command and data in consecutive cycles: committed in the 5th cycle, reported done after it *)
Definition fsm_next (f : wfsm) (dir nxt : bool) : wfsm :=
  match f with
  | W_IDLE => W_IDLE
  | W_START => if dir then W_START else W_SEND
  | W_SEND => if dir then W_START else if nxt then W_HOLD else W_SEND
  | W_HOLD => if dir then W_START else if nxt then W_STOPPING else W_HOLD
  | W_STOPPING => if dir then W_START else W_IDLE
  end.

Lemma cw_busy_step : forall s i, w_fsm s <> W_IDLE ->
  let s' := fst (cw_step s i) in
  w_fsm s' = fsm_next (w_fsm s) (ki_dir i) (ki_nxt i) /\ w_caddr s' = w_caddr s /\ w_cwrite s' = w_cwrite s /\
  w_done s' = match w_fsm s with W_STOPPING => negb (ki_dir i) | _ => false end.
Proof.
  intros s i H. unfold cw_step, cw_next. cbn [fst].
  destruct s as [fsm dout oreq stop done caddr cwrite cur4 cur10 busy]. inv_simpl.
  destruct fsm; [contradiction| | | |]; destruct (ki_dir i), (ki_nxt i); inv_simpl; repeat split.
Qed.

Lemma sys_step_inv : forall s p gq i, sys_inv s p gq ->
  let (s', p') := sys_step (s, p) i in sys_inv s' p' (ghost_next gq s i).
Proof. intros s p gq i H. cbn [sys_step]. exact (proj1 (sys_inv_step s p gq i H)). Qed.

Theorem cw_write_latency : forall s p gq i1 i2 i3 i4 i5, sys_inv s p gq -> w_fsm s = W_START ->
  ki_dir i1 = false -> ki_dir i2 = false -> ki_dir i3 = false -> ki_dir i4 = false -> ki_dir i5 = false ->
  ki_nxt i2 = false -> ki_nxt i3 = true -> ki_nxt i4 = true ->
  let (s', p') := sys_run (s, p) [i1; i2; i3; i4; i5] in
  w_fsm s' = W_IDLE /\ w_done s' = true /\
  (w_caddr s = FUNC_CTRL -> q_r4 p' = w_cwrite s) /\ (w_caddr s = OTG_CTRL -> q_r10 p' = w_cwrite s).
Proof.
  intros s p gq i1 i2 i3 i4 i5 H0 Hf D1 D2 D3 D4 D5 N2 N3 N4.
  cbn [sys_run fold_left].
  (* step 1 *)
  pose proof (sys_step_inv s p gq i1 H0) as H1. destruct (sys_step (s, p) i1) as [s1 p1] eqn:E1.
  assert (S1 : s1 = fst (cw_step s i1)) by (cbn [sys_step] in E1; inversion E1; reflexivity).
  destruct (cw_busy_step s i1 ltac:(rewrite Hf; discriminate)) as (F1 & A1 & W1 & _).
  rewrite <- S1, Hf, D1 in F1. rewrite <- S1 in A1, W1. cbn [fsm_next] in F1.
  (* step 2 *)
  pose proof (sys_step_inv s1 p1 _ i2 H1) as H2. destruct (sys_step (s1, p1) i2) as [s2 p2] eqn:E2.
  assert (S2 : s2 = fst (cw_step s1 i2)) by (cbn [sys_step] in E2; inversion E2; reflexivity).
  destruct (cw_busy_step s1 i2 ltac:(rewrite F1; discriminate)) as (F2 & A2 & W2 & _).
  rewrite <- S2, F1, D2, N2 in F2. rewrite <- S2 in A2, W2. cbn [fsm_next] in F2.
  (* step 3 *)
  pose proof (sys_step_inv s2 p2 _ i3 H2) as H3. destruct (sys_step (s2, p2) i3) as [s3 p3] eqn:E3.
  assert (S3 : s3 = fst (cw_step s2 i3)) by (cbn [sys_step] in E3; inversion E3; reflexivity).
  destruct (cw_busy_step s2 i3 ltac:(rewrite F2; discriminate)) as (F3 & A3 & W3 & _).
  rewrite <- S3, F2, D3, N3 in F3. rewrite <- S3 in A3, W3. cbn [fsm_next] in F3.
  (* step 4 *)
  pose proof (sys_step_inv s3 p3 _ i4 H3) as H4. destruct (sys_step (s3, p3) i4) as [s4 p4] eqn:E4.
  assert (S4 : s4 = fst (cw_step s3 i4)) by (cbn [sys_step] in E4; inversion E4; reflexivity).
  destruct (cw_busy_step s3 i4 ltac:(rewrite F3; discriminate)) as (F4 & A4 & W4 & _).
  rewrite <- S4, F3, D4, N4 in F4. rewrite <- S4 in A4, W4. cbn [fsm_next] in F4.
  (* step 5 *)
  pose proof (sys_step_inv s4 p4 _ i5 H4) as H5. destruct (sys_step (s4, p4) i5) as [s5 p5] eqn:E5.
  assert (S5 : s5 = fst (cw_step s4 i5)) by (cbn [sys_step] in E5; inversion E5; reflexivity).
  destruct (cw_busy_step s4 i5 ltac:(rewrite F4; discriminate)) as (F5 & A5 & W5 & Dn).
  rewrite <- S5, F4, D5 in F5. rewrite <- S5 in A5, W5, Dn. rewrite F4, D5 in Dn. cbn [fsm_next negb] in F5, Dn.
  destruct H5 as [_ H5]. rewrite F5 in H5. destruct H5 as (_ & _ & _ & H5). rewrite Dn in H5.
  destruct H5 as (_ & R4 & R10).
  assert (EA : w_caddr s5 = w_caddr s) by congruence.
  assert (EW : w_cwrite s5 = w_cwrite s) by congruence.
  rewrite EA, EW in R4, R10.
  repeat split; [exact F5 | exact Dn | intro C; exact (proj1 (R4 C)) | intro C; exact (proj1 (R10 C))].
Qed.

(* ------------------------------ packing ----------------------------------------------------------- *)
Lemma kb_testbit_div : forall x k, N.testbit x k = ((x / 2 ^ k) mod 2 =? 1).
Proof.
  intros. rewrite N.testbit_odd, N.shiftr_div_pow2.
  set (y := x / 2 ^ k). rewrite (N.div_mod' y 2) at 1. rewrite N.add_comm, N.odd_add_mul_2.
  assert (y mod 2 < 2) by (apply N.mod_lt; discriminate).
  assert (y mod 2 = 0 \/ y mod 2 = 1) as [E|E] by lia; rewrite E; reflexivity.
Qed.
Lemma kb_bits_div : forall x lo w, bits x lo w = (x / 2 ^ lo) mod 2 ^ w.
Proof. intros. unfold bits. rewrite N.land_ones, N.shiftr_div_pow2. reflexivity. Qed.

Lemma ki_func_lt : forall i, ki_func i < 256.
Proof.
  intro i. unfold ki_func. rewrite !kb_bits_div.
  change (2 ^ 2) with 4. change (2 ^ 1) with 2.
  pose proof (N.mod_lt (i / 2 ^ 3) 4). pose proof (N.mod_lt (i / 2 ^ 5) 2). pose proof (N.mod_lt (i / 2 ^ 6) 4).
  pose proof (N.mod_lt (i / 2 ^ 8) 2). lia.
Qed.
Lemma ki_otg_lt : forall i, ki_otg i < 256.
Proof.
  intro i. unfold ki_otg. rewrite !kb_bits_div. change (2 ^ 1) with 2.
  pose proof (N.mod_lt (i / 2 ^ 9) 2). pose proof (N.mod_lt (i / 2 ^ 10) 2). pose proof (N.mod_lt (i / 2 ^ 11) 2).
  pose proof (N.mod_lt (i / 2 ^ 12) 2). pose proof (N.mod_lt (i / 2 ^ 13) 2). pose proof (N.mod_lt (i / 2 ^ 14) 2). lia.
Qed.

Lemma cw_wf_init : cw_wf cw_init.
Proof. repeat split. Qed.

Lemma cw_wf_step : forall s i, cw_wf s -> cw_wf (fst (cw_step s i)).
Proof.
  intros s i (Hd & Ha & Hw & H4). pose proof (ki_func_lt i) as Hf. pose proof (ki_otg_lt i) as Hg.
  unfold cw_step, cw_next, cw_select, cw_wf. cbn [fst].
  destruct s as [fsm dout oreq stop done caddr cwrite cur4 cur10 busy]. inv_simpl.
  assert (H4' : (if done && (caddr =? FUNC_CTRL) then cwrite else cur4) < 256)
    by (destruct (done && (caddr =? FUNC_CTRL)); assumption).
  destruct fsm; inv_simpl.
  - destruct (negb (cur4 =? ki_func i)); [|destruct (negb (cur10 =? ki_otg i))]; inv_simpl;
      unfold FUNC_CTRL, OTG_CTRL; repeat split; try lia; try assumption.
  - destruct (ki_dir i); inv_simpl; repeat split; try lia; try assumption.
  - destruct (ki_dir i), (ki_nxt i); inv_simpl; repeat split; try lia; try assumption.
  - destruct (ki_dir i), (ki_nxt i); inv_simpl; repeat split; try lia; try assumption.
  - destruct (ki_dir i); inv_simpl; repeat split; try lia; try assumption.
Qed.

Lemma cw_dec_enc : forall s, cw_wf s -> cw_dec (cw_enc s) = s.
Proof.
  intros [fsm dout oreq stop done caddr cwrite cur4 cur10 busy] (Hd & Ha & Hw & H4). inv_simpl.
  unfold cw_dec, cw_enc. inv_simpl. rewrite !kb_testbit_div.
  change (2 ^ 3) with 8. change (2 ^ 4) with 16. change (2 ^ 5) with 32. change (2 ^ 6) with 64.
  set (R3 := cur4 + 256 * cur10). set (R2 := cwrite + 256 * R3). set (R1 := caddr + 256 * R2). set (R0 := dout + 256 * R1).
  set (low := wfsm_code fsm + 8 * b2n oreq + 16 * b2n stop + 32 * b2n done + 64 * b2n busy).
  assert (Hlow : low < 128) by (unfold low; destruct fsm, oreq, stop, done, busy; cbn; lia).
  assert (E0 : (low + 128 * R0) / 128 = R0) by lia.
  assert (Em : (low + 128 * R0) mod 8 = wfsm_code fsm) by (unfold low; destruct fsm, oreq, stop, done, busy; cbn [wfsm_code b2n]; lia).
  rewrite E0, Em.
  assert (E1 : R0 / 256 = R1) by (unfold R0; lia).
  assert (E2 : R1 / 256 = R2) by (unfold R1; lia).
  assert (E3 : R2 / 256 = R3) by (unfold R2; lia).
  rewrite E1, E2, E3.
  f_equal.
  - destruct fsm; reflexivity.
  - unfold R0; lia.
  - unfold low; destruct fsm, oreq, stop, done, busy; cbn [wfsm_code b2n]; lia.
  - unfold low; destruct fsm, oreq, stop, done, busy; cbn [wfsm_code b2n]; lia.
  - unfold low; destruct fsm, oreq, stop, done, busy; cbn [wfsm_code b2n]; lia.
  - unfold R1; lia.
  - unfold R2; lia.
  - unfold R3; lia.
  - unfold R3; lia.
  - unfold low; destruct fsm, oreq, stop, done, busy; cbn [wfsm_code b2n]; lia.
Qed.
