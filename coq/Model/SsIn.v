(* C46 -- hand model of luna/gateware/usb/usb3/endpoints/stream.py: SuperSpeedStreamInEndpoint
   (the property-satisfying behaviour, see findings/C46-*.diff), and its specification: a referee
   (observer automaton) that judges the endpoint's interface trace from the outside -- stream side,
   host side (ACK transaction packets in, data packets / ZLPs / NRDY / ERDY requests out).
   One list element = one "ss" clock cycle.

   Input word (59 bits, LSB first):
     [0..3]  stream.valid   [4] stream.last   [5..36] stream.payload   [37] interface.tx.ready
     [38] handshakes_in.ack_received  [39..45] handshakes_in.endpoint_number  [46] handshakes_in.retry_required
     [47..51] handshakes_in.next_sequence  [52..56] handshakes_in.number_of_packets
     [57] handshakes_out.ready  [58] handshakes_out.done
   Output word (70 bits):
     [0] stream.ready  [1..4] tx.valid  [5] tx.first  [6] tx.last  [7..38] tx.payload  [39] tx_zlp
     [40..50] tx_length  [51..55] tx_sequence_number  [56..59] tx_endpoint_number  [60] tx_direction
     [61] handshakes_out.send_nrdy  [62] handshakes_out.send_erdy  [63..69] handshakes_out.endpoint_number

   Parameters: mps = max_packet_size in bytes (a multiple of 4, 4 <= mps <= 1024), ep = endpoint number,
   sb = SEQUENCE_NUMBER_BITS (5 in LUNA). *)
From Coq Require Import NArith List Bool.
Import ListNotations.
From LunaLib Require Import Netlist Machine.
Open Scope N_scope.

(* ------------------------------------------------------------------------------------------ *)
(* 1. Interface words                                                                          *)
Definition i_valid (i : N) : N := bits i 0 4.
Definition i_last (i : N) : bool := N.testbit i 4.
Definition i_payload (i : N) : N := bits i 5 32.
Definition i_txready (i : N) : bool := N.testbit i 37.
Definition i_ack (i : N) : bool := N.testbit i 38.
Definition i_hep (i : N) : N := bits i 39 7.
Definition i_retry (i : N) : bool := N.testbit i 46.
Definition i_nseq (i : N) : N := bits i 47 5.
Definition i_nump (i : N) : N := bits i 52 5.
Definition i_hsready (i : N) : bool := N.testbit i 57.
Definition i_hsdone (i : N) : bool := N.testbit i 58.

Record ss_out := {
  o_ready : bool; o_valid : N; o_first : bool; o_last : bool; o_payload : N; o_zlp : bool;
  o_length : N; o_seq : N; o_ep : N; o_dir : bool; o_nrdy : bool; o_erdy : bool; o_hoep : N }.

Definition pack_out (o : ss_out) : N :=
  b2n (o_ready o) + 2 * o_valid o + 32 * b2n (o_first o) + 64 * b2n (o_last o) + 128 * o_payload o +
  2 ^ 39 * b2n (o_zlp o) + 2 ^ 40 * o_length o + 2 ^ 51 * o_seq o + 2 ^ 56 * o_ep o + 2 ^ 60 * b2n (o_dir o) +
  2 ^ 61 * b2n (o_nrdy o) + 2 ^ 62 * b2n (o_erdy o) + 2 ^ 63 * o_hoep o.

Definition unpack_out (w : N) : ss_out :=
  {| o_ready := N.testbit w 0; o_valid := bits w 1 4; o_first := N.testbit w 5; o_last := N.testbit w 6;
     o_payload := bits w 7 32; o_zlp := N.testbit w 39; o_length := bits w 40 11; o_seq := bits w 51 5;
     o_ep := bits w 56 4; o_dir := N.testbit w 60; o_nrdy := N.testbit w 61; o_erdy := N.testbit w 62;
     o_hoep := bits w 63 7 |}.

(* number of bytes announced by a stream valid mask (the stream contract allows 0001, 0011, 0111, 1111) *)
Definition nbytes (v : N) : N :=
  match v with 1 => 1 | 3 => 2 | 7 => 3 | 15 => 4 | _ => 0 end.
(* valid mask of a word carrying n bytes *)
Definition vmask (n : N) : N := 2 ^ n - 1.

(* ------------------------------------------------------------------------------------------ *)
(* 2. The endpoint machine.
   A packet buffer is modelled by the words written to it (in order), its byte fill count and its
   "stream ended in this buffer" flag.  The two buffers are kept as "the one being sent" (rb) and
   "the one being filled" (wb); LUNA's ping_pong_toggle flip is the swap of the two.               *)
Inductive ss_fsm := WAIT_FOR_DATA | REQUEST_IN_TOKEN | WAIT_TO_SEND | SEND_PACKET | WAIT_FOR_ACK.

Record buf := { b_words : list N; b_fill : N; b_ended : bool }.
Definition buf_empty : buf := {| b_words := []; b_fill := 0; b_ended := false |}.

Record ss_state := {
  s_fsm : ss_fsm;
  s_seq : N;                (* sequence_number *)
  s_rb : buf;               (* read buffer: the packet being sent / awaiting its ACK *)
  s_wb : buf;               (* write buffer: the packet being collected from the stream *)
  s_pos : N;                (* send_position (words); an 11-bit counter here (LUNA: bits_for(max_packet_size)) *)
  s_lpz : bool;             (* last_packet_was_zlp *)
  s_erdy : bool;            (* erdy_required *)
  s_ov : N; s_of : bool; s_ol : bool; s_op : N   (* registered tx stream: valid, first, last, payload *)
}.

Definition ss_init : ss_state :=
  {| s_fsm := WAIT_FOR_DATA; s_seq := 0; s_rb := buf_empty; s_wb := buf_empty; s_pos := 0;
     s_lpz := false; s_erdy := false; s_ov := 0; s_of := false; s_ol := false; s_op := 0 |}.

Section Endpoint.
  Variables (mps ep sb : N).

  Definition wb_ready (b : buf) : bool := (b_fill b + 4 <=? mps) && negb (b_ended b).
  (* the stream word of this cycle is written *)
  Definition wr_en (st : ss_state) (i : N) : bool := negb (i_valid i =? 0) && wb_ready (s_wb st).
  Definition wb_after (st : ss_state) (i : N) : buf :=
    let b := s_wb st in
    if wr_en st i then
      {| b_words := firstn (N.to_nat (b_fill b / 4)) (b_words b) ++ [i_payload i];   (* written at address fill >> 2 *)
         b_fill := b_fill b + nbytes (i_valid i);
         b_ended := b_ended b || i_last i |}
    else b.
  (* the stream word of this cycle ends the packet being collected *)
  Definition completing (st : ss_state) (i : N) : bool :=
    N.testbit (i_valid i) 0 && ((mps <=? b_fill (s_wb st) + 4) || i_last i).

  Definition to_us (i : N) : bool := i_ack i && (i_hep i =? ep).
  Definition is_in (i : N) : bool := negb (i_nump i =? 0).
  Definition in_token (i : N) : bool := to_us i && is_in i.
  Definition next_seq (st : ss_state) : N := (s_seq st + 1) mod 2 ^ sb.
  Definition advancing (st : ss_state) (i : N) : bool := i_nseq i =? next_seq st.
  Definition is_retry (st : ss_state) (i : N) : bool := i_retry i || negb (advancing st i).
  Definition follow_zlp (st : ss_state) : bool := (b_fill (s_rb st) =? mps) && b_ended (s_rb st).
  Definition last_word (st : ss_state) : bool := b_fill (s_rb st) <=? (s_pos st + 1) * 4.
  Definition tx_free (st : ss_state) (i : N) : bool := (s_ov st =? 0) || i_txready i.

  Definition set_fill (b : buf) (f : N) : buf := {| b_words := b_words b; b_fill := f; b_ended := b_ended b |}.
  Definition set_ended (b : buf) (e : bool) : buf := {| b_words := b_words b; b_fill := b_fill b; b_ended := e |}.
  (* what the acknowledged read buffer looks like afterwards *)
  Definition acked (b : buf) : buf := {| b_words := []; b_fill := 0; b_ended := b_ended b |}.

  Definition upd (st : ss_state) (f : ss_fsm) (sq : N) (rb wb : buf) (pos : N) (lpz erdy : bool)
             (ov : N) (ofi ol : bool) (op : N) : ss_state :=
    {| s_fsm := f; s_seq := sq; s_rb := rb; s_wb := wb; s_pos := pos; s_lpz := lpz; s_erdy := erdy;
       s_ov := ov; s_of := ofi; s_ol := ol; s_op := op |}.

  Definition ss_next (st : ss_state) (i : N) : ss_state :=
    let wb' := wb_after st i in
    let rb := s_rb st in
    match s_fsm st with
    | WAIT_FOR_DATA =>
        let erdy' := s_erdy st || in_token i in
        if completing st i then
          upd st (if erdy' then REQUEST_IN_TOKEN else WAIT_TO_SEND) (s_seq st)
              wb' {| b_words := []; b_fill := b_fill rb; b_ended := false |}
              (s_pos st) (s_lpz st) erdy' (s_ov st) (s_of st) (s_ol st) (s_op st)
        else upd st WAIT_FOR_DATA (s_seq st) rb wb' (s_pos st) (s_lpz st) erdy' (s_ov st) (s_of st) (s_ol st) (s_op st)
    | REQUEST_IN_TOKEN =>
        if i_hsready i then
          upd st WAIT_TO_SEND (s_seq st) rb wb' (s_pos st) (s_lpz st) false (s_ov st) (s_of st) (s_ol st) (s_op st)
        else upd st REQUEST_IN_TOKEN (s_seq st) rb wb' (s_pos st) (s_lpz st) (s_erdy st) (s_ov st) (s_of st) (s_ol st) (s_op st)
    | WAIT_TO_SEND =>
        if in_token i then
          if b_fill rb =? 0 then
            upd st WAIT_FOR_ACK (s_seq st) (set_ended rb false) wb' (s_pos st) true (s_erdy st)
                (s_ov st) (s_of st) (s_ol st) (s_op st)
          else upd st SEND_PACKET (s_seq st) rb wb' (s_pos st) false (s_erdy st) (s_ov st) (s_of st) (s_ol st) (s_op st)
        else upd st WAIT_TO_SEND (s_seq st) rb wb' (s_pos st) (s_lpz st) (s_erdy st) (s_ov st) (s_of st) (s_ol st) (s_op st)
    | SEND_PACKET =>
        if tx_free st i then
          upd st (if last_word st then WAIT_FOR_ACK else SEND_PACKET) (s_seq st) rb wb' ((s_pos st + 1) mod 2048)
              (s_lpz st) (s_erdy st)
              (if last_word st then vmask (if b_fill rb mod 4 =? 0 then 4 else b_fill rb mod 4) else 15)
              (s_pos st =? 0) (last_word st) (nth (N.to_nat (s_pos st)) (b_words rb) 0)
        else upd st SEND_PACKET (s_seq st) rb wb' (s_pos st) (s_lpz st) (s_erdy st) (s_ov st) (s_of st) (s_ol st) (s_op st)
    | WAIT_FOR_ACK =>
        let ov' := if tx_free st i then 0 else s_ov st in
        if to_us i then
          if is_retry st i then
            upd st (if s_lpz st then WAIT_FOR_ACK else SEND_PACKET) (s_seq st) rb wb' 0 (s_lpz st) (s_erdy st)
                ov' (s_of st) (s_ol st) (s_op st)
          else if follow_zlp st then
            if is_in i then
              upd st WAIT_FOR_ACK (next_seq st) (set_ended (acked rb) false) wb' 0 true (s_erdy st)
                  ov' (s_of st) (s_ol st) (s_op st)
            else upd st WAIT_TO_SEND (next_seq st) (acked rb) wb' 0 (s_lpz st) (s_erdy st) ov' (s_of st) (s_ol st) (s_op st)
          else if negb (wb_ready (s_wb st)) || completing st i then
            upd st (if is_in i then SEND_PACKET else WAIT_TO_SEND) (next_seq st) wb' buf_empty 0
                (if is_in i then false else s_lpz st) (s_erdy st) ov' (s_of st) (s_ol st) (s_op st)
          else
            upd st WAIT_FOR_DATA (next_seq st) (acked rb) wb' 0 (s_lpz st) (s_erdy st || is_in i)
                ov' (s_of st) (s_ol st) (s_op st)
        else upd st WAIT_FOR_ACK (s_seq st) rb wb' 0 (s_lpz st) (s_erdy st) ov' (s_of st) (s_ol st) (s_op st)
    end.

  (* combinational outputs of the cycle *)
  Definition acked_now (st : ss_state) (i : N) : bool :=
    match s_fsm st with WAIT_FOR_ACK => to_us i && negb (is_retry st i) | _ => false end.
  Definition zlp_now (st : ss_state) (i : N) : bool :=
    match s_fsm st with
    | WAIT_TO_SEND => in_token i && (b_fill (s_rb st) =? 0)
    | WAIT_FOR_ACK => to_us i && (if is_retry st i then s_lpz st else follow_zlp st && is_in i)
    | _ => false
    end.
  Definition nrdy_now (st : ss_state) (i : N) : bool :=
    match s_fsm st with
    | WAIT_FOR_DATA => in_token i
    | WAIT_FOR_ACK => acked_now st i && negb (follow_zlp st) &&
                      negb (negb (wb_ready (s_wb st)) || completing st i) && is_in i
    | _ => false
    end.

  Definition ss_outputs (st : ss_state) (i : N) : ss_out :=
    {| o_ready := wb_ready (s_wb st);
       o_valid := s_ov st; o_first := s_of st; o_last := s_ol st; o_payload := s_op st;
       o_zlp := zlp_now st i;
       o_length := b_fill (s_rb st);
       o_seq := if acked_now st i && follow_zlp st && is_in i then next_seq st else s_seq st;
       o_ep := ep mod 16; o_dir := true;
       o_nrdy := nrdy_now st i;
       o_erdy := match s_fsm st with REQUEST_IN_TOKEN => true | _ => false end;
       o_hoep := ep mod 128 |}.

  Definition ss_step (st : ss_state) (i : N) : ss_state * N := (ss_next st i, pack_out (ss_outputs st i)).
End Endpoint.

(* ------------------------------------------------------------------------------------------ *)
(* 3. The specification: a referee watching the interface.

   What has been accepted from the stream and is not yet acknowledged by the host is a list of items:
   W w n = a word of which the n low bytes are data (n = 4 except for the last word of a transfer),
   E = "the transfer ended here" (a word with stream.last was accepted).                           *)
Inductive item := W (w n : N) | E.

(* The next packet the host must get: the first mps bytes, or everything up to the end of the transfer
   if that comes first (a short packet -- zero-length when the transfer ended on a packet boundary).
   None = not determined yet (fewer than mps bytes and no end of transfer in sight).
   Result: the words of the packet and what stays behind.                                        *)
Fixpoint take_pkt (room : N) (l : list item) : option (list item * list item) :=
  if room =? 0 then Some ([], l) else
  match l with
  | [] => None
  | E :: t => Some ([], t)
  | W w n :: t => if n <=? room then
                    match take_pkt (room - n) t with
                    | Some (p, r) => Some (W w n :: p, r)
                    | None => None
                    end
                  else None
  end.

Fixpoint pkt_bytes (p : list item) : N :=
  match p with [] => 0 | W _ n :: t => n + pkt_bytes t | E :: t => pkt_bytes t end.

(* the n low bytes of a word *)
Definition low_bytes (n w : N) : N := w mod 2 ^ (8 * n).

Record ref_state := {
  r_pend : list item;             (* accepted from the stream, not yet acknowledged *)
  r_exp : N;                      (* sequence number the next new packet must carry *)
  r_out : bool;                   (* a packet with number r_exp has been sent and awaits its ACK *)
  r_req : option N;               (* an IN request is unanswered since that many cycles *)
  r_fly : option (bool * list item);   (* data packet in flight: (no word accepted yet, words still to be accepted) *)
  r_nrdy : bool;                  (* the host has been told NRDY and polls again only after an ERDY *)
  r_gen : bool                    (* the transaction packet generator is busy with a request *)
}.

Definition ref_init : ref_state :=
  {| r_pend := []; r_exp := 0; r_out := false; r_req := None; r_fly := None; r_nrdy := false; r_gen := false |}.

Section Referee.
  Variables (mps ep sb : N).

  Definition r_to_us (i : N) : bool := i_ack i && (i_hep i =? ep).
  Definition stream_ok (i : N) : bool :=
    let v := i_valid i in
    (v =? 0) || (v =? 15) || (((v =? 1) || (v =? 3) || (v =? 7)) && i_last i).

  Definition set_ref (pend : list item) (exp : N) (out : bool) (req : option N) (fly : option (bool * list item))
             (nrdy gen : bool) : ref_state :=
    {| r_pend := pend; r_exp := exp; r_out := out; r_req := req; r_fly := fly; r_nrdy := nrdy; r_gen := gen |}.

  (* ---- phase 1: the environment's move (host and generator inputs of this cycle).
     None = the environment broke its contract. ---- *)
  Definition env_phase (r : ref_state) (i : N) : option ref_state :=
    (* the stream producer: masks 0001/0011/0111 only together with last *)
    if negb (stream_ok i) then None
    (* the generator: ready exactly when idle; done only while busy *)
    else if negb (Bool.eqb (i_hsready i) (negb (r_gen r))) then None
    else if i_hsdone i && negb (r_gen r) then None
    else if r_to_us i then
      (* the host talks to this endpoint only when no request of its is unanswered, no data packet is in
         flight, it has not been told NRDY (without ERDY since), and no NRDY/ERDY is still on its way *)
      match r_req r, r_fly r with
      | None, None =>
          if r_nrdy r || r_gen r then None
          else if r_out r then
            if i_retry i || negb (i_nseq i =? (r_exp r + 1) mod 2 ^ sb)
            then (* retry: the packet r_exp is requested again *)
                 Some (set_ref (r_pend r) (r_exp r) true (Some 0) None false false)
            else (* acknowledgement of packet r_exp; with NumP > 0 also the request for the next one *)
              match take_pkt mps (r_pend r) with
              | Some (_, rest) =>
                  Some (set_ref rest ((r_exp r + 1) mod 2 ^ sb) false
                                (if i_nump i =? 0 then None else Some 0) None false false)
              | None => None    (* cannot happen: what was sent was determined *)
              end
          else if i_nump i =? 0 then None     (* an ACK that acknowledges nothing and requests nothing *)
          else Some (set_ref (r_pend r) (r_exp r) false (Some 0) None false false)
      | _, _ => None
      end
    else Some r.

  (* ---- phase 2: the endpoint's move (outputs of this cycle) is judged. ---- *)
  Definition nxt (r : ref_state) : option (list item * list item) := take_pkt mps (r_pend r).
  Definition is_some {A} (x : option A) : bool := match x with Some _ => true | None => false end.

  (* transaction packets that result from the strobes: the generator takes a request only while it is
     ready, ERDY before NRDY (C45) *)
  Definition erdy_acc (i : N) (o : ss_out) : bool := o_erdy o && i_hsready i.
  Definition nrdy_acc (i : N) (o : ss_out) : bool := o_nrdy o && i_hsready i && negb (o_erdy o).
  (* a data packet starts: tx.valid rises while none is in flight *)
  Definition starts (r : ref_state) (o : ss_out) : bool :=
    match r_fly r with None => negb (o_valid o =? 0) | Some _ => false end.
  Definition answered (r : ref_state) (i : N) (o : ss_out) : bool := o_zlp o || nrdy_acc i o || starts r o.
  Definition hdr_ok (r : ref_state) (o : ss_out) : bool :=
    (o_seq o =? r_exp r) && (o_ep o =? ep mod 16) && o_dir o.

  (* the data packet in flight during this cycle *)
  Definition fly_now (r : ref_state) (o : ss_out) : option (bool * list item) :=
    match r_fly r with
    | Some f => Some f
    | None => if o_valid o =? 0 then None
              else match nxt r with Some (p, _) => Some (true, p) | None => Some (true, []) end
    end.

  (* a data packet may start only as the answer to an IN request, and must be the next packet *)
  Definition ck_start (r : ref_state) (o : ss_out) : bool :=
    if starts r o then
      is_some (r_req r) &&
      match nxt r with
      | Some (p, _) => negb (pkt_bytes p =? 0) && (o_length o =? pkt_bytes p) && hdr_ok r o
      | None => false
      end
    else true.
  (* every cycle of a data packet offers its current word: mask, data bytes, first/last flags *)
  Definition ck_word (r : ref_state) (o : ss_out) : bool :=
    match fly_now r o with
    | None => true
    | Some (f, W x n :: ws) =>
        (o_valid o =? vmask n) && (low_bytes n (o_payload o) =? low_bytes n x) &&
        Bool.eqb (o_first o) f && Bool.eqb (o_last o) (match ws with [] => true | _ => false end)
    | Some (_, _) => false
    end.
  (* a ZLP is the answer to an IN request when the transfer ended on a packet boundary *)
  Definition ck_zlp (r : ref_state) (o : ss_out) : bool :=
    if o_zlp o then
      is_some (r_req r) && negb (is_some (r_fly r)) && (o_valid o =? 0) &&
      match nxt r with Some ([], _) => hdr_ok r o | _ => false end
    else true.
  (* NRDY is the answer to an IN request when no packet is held *)
  Definition ck_nrdy (r : ref_state) (i : N) (o : ss_out) : bool :=
    if nrdy_acc i o then is_some (r_req r) && negb (is_some (nxt r)) && (o_hoep o =? ep mod 128) else true.
  (* ERDY only after an NRDY, once, and only when a packet is held ... *)
  Definition ck_erdy (r : ref_state) (i : N) (o : ss_out) : bool :=
    if erdy_acc i o then r_nrdy r && is_some (nxt r) && (o_hoep o =? ep mod 128) else true.
  (* ... and then without delay (as soon as the generator can take it) *)
  Definition ck_erdy_live (r : ref_state) (i : N) (o : ss_out) : bool :=
    if r_nrdy r && is_some (nxt r) && i_hsready i then o_erdy o else true.
  (* one answer at a time *)
  Definition ck_one (r : ref_state) (i : N) (o : ss_out) : bool :=
    negb (o_zlp o && nrdy_acc i o) && negb (o_zlp o && starts r o) && negb (nrdy_acc i o && starts r o).
  (* an IN request is answered at once (ZLP, NRDY) or by a data packet whose first word is offered two
     cycles later *)
  Definition ck_deadline (r : ref_state) (i : N) (o : ss_out) : bool :=
    match r_req r with
    | Some k => answered r i o || (k <? 2)
    | None => true
    end.

  Definition accepted_items (i : N) (o : ss_out) : list item :=
    if negb (i_valid i =? 0) && o_ready o
    then W (i_payload i) (nbytes (i_valid i)) :: (if i_last i then [E] else [])
    else [].

  Definition judge (r : ref_state) (i : N) (o : ss_out) : ref_state * bool :=
    (set_ref (r_pend r ++ accepted_items i o) (r_exp r)
             (r_out r || o_zlp o || starts r o)
             (if answered r i o then None else match r_req r with Some k => Some (k + 1) | None => None end)
             (match fly_now r o with
              | Some (f, w :: ws) =>
                  if i_txready i then match ws with [] => None | _ => Some (false, ws) end else Some (f, w :: ws)
              | _ => None
              end)
             ((r_nrdy r || nrdy_acc i o) && negb (erdy_acc i o))
             (if erdy_acc i o || nrdy_acc i o then true else r_gen r && negb (i_hsdone i)),
     ck_start r o && ck_word r o && ck_zlp r o && ck_nrdy r i o && ck_erdy r i o && ck_erdy_live r i o &&
     ck_one r i o && ck_deadline r i o).

  Definition ref_step (r : ref_state) (i : N) (o : ss_out) : option (ref_state * bool) :=
    match env_phase r i with
    | None => None
    | Some r1 => Some (judge r1 i o)
    end.
End Referee.

(* a typed observer over the run of a typed machine with record outputs *)
Section Accept.
  Context {S R O : Type}.
  Variable next : S -> N -> S.
  Variable outp : S -> N -> O.
  Variable mon : R -> N -> O -> option (R * bool).
  Fixpoint accepts (s : S) (r : R) (tr : list N) : bool :=
    match tr with
    | [] => true
    | i :: t => match mon r i (outp s i) with
                | None => true
                | Some (r', ok) => ok && accepts (next s i) r' t
                end
    end.
End Accept.

(* ---- what acceptance by the referee means for the data: exactly once, in order ---- *)
(* the data bytes of a word item, lowest byte first *)
Definition word_bytes (w n : N) : list N :=
  map (fun k => (w / 2 ^ (8 * N.of_nat k)) mod 256) (seq 0 (N.to_nat n)).
Fixpoint items_bytes (l : list item) : list N :=
  match l with
  | [] => []
  | W w n :: t => word_bytes w n ++ items_bytes t
  | E :: t => items_bytes t
  end.


Section Delivered.
  Variables (mps ep sb : N).

  (* the packet the host acknowledges in this cycle, if it does *)
  Definition acked_pkt (r : ref_state) (i : N) : option (list item) :=
    match env_phase mps ep sb r i with
    | Some _ =>
        if r_to_us ep i && r_out r && negb (i_retry i || negb (i_nseq i =? (r_exp r + 1) mod 2 ^ sb))
        then match take_pkt mps (r_pend r) with Some (p, _) => Some p | None => None end
        else None
    | None => None
    end.

  (* the packets acknowledged, in order, and the stream items accepted, along a judged trace *)
  Fixpoint acked_log (r : ref_state) (ios : list (N * N)) : list (list item) :=
    match ios with
    | [] => []
    | (i, o) :: t =>
        match ref_step mps ep sb r i (unpack_out o) with
        | Some (r', _) => (match acked_pkt r i with Some p => [p] | None => [] end) ++ acked_log r' t
        | None => []
        end
    end.
  Definition stream_log (ios : list (N * N)) : list item :=
    flat_map (fun io => accepted_items (fst io) (unpack_out (snd io))) ios.

End Delivered.

(* the referee over a recorded interface trace (packed input word, packed output word per cycle) *)
Fixpoint ref_accepts_io (mps ep sb : N) (r : ref_state) (ios : list (N * N)) : bool :=
  match ios with
  | [] => true
  | (i, o) :: t => match ref_step mps ep sb r i (unpack_out o) with
                   | None => true
                   | Some (r', ok) => ok && ref_accepts_io mps ep sb r' t
                   end
  end.

(* the referee's state after a recorded trace; None = the environment broke its contract (or the referee
   rejected) on the way -- used to show that the contract is satisfiable and what the referee has seen *)
Fixpoint ref_run_io (mps ep sb : N) (r : ref_state) (ios : list (N * N)) : option ref_state :=
  match ios with
  | [] => Some r
  | (i, o) :: t => match ref_step mps ep sb r i (unpack_out o) with
                   | Some (r', true) => ref_run_io mps ep sb r' t
                   | _ => None
                   end
  end.

(* ------------------------------------------------------------------------------------------ *)
(* 4. Packed forms (for the harness: monitors and lock-step models work on N-coded states).
   Fields are bit fields (shift / mask only: these run inside vm_compute for every explored step).  *)

(* field x (< 2^w) in front of rest *)
Definition pkb (w x rest : N) : N := N.lor x (N.shiftl rest w).
Definition lo (w v : N) : N := N.land v (N.ones w).
Definition hi (w v : N) : N := N.shiftr v w.

Fixpoint packr (w : N) (l : list N) (rest : N) : N :=
  match l with [] => rest | x :: t => pkb w x (packr w t rest) end.
Fixpoint unpackr (w : N) (k : nat) (n : N) : list N * N :=
  match k with
  | O => ([], n)
  | S k' => let (l, r) := unpackr w k' (hi w n) in (lo w n :: l, r)
  end.
(* a list of w-bit fields with its length (< 2^16) in front, followed by rest *)
Definition enc_list (w : N) (l : list N) (rest : N) : N := pkb 16 (N.of_nat (length l)) (packr w l rest).
Definition dec_list (w : N) (n : N) : list N * N := unpackr w (N.to_nat (lo 16 n)) (hi 16 n).

(* items: 3 bits (0 = E, n + 1 for a word with n bytes) + 32 bits of data *)
Definition item_code (it : item) : N := match it with E => 0 | W w n => pkb 3 (n + 1) w end.
Definition item_of (c : N) : item := if lo 3 c =? 0 then E else W (hi 3 c) (lo 3 c - 1).
Definition IW : N := 35.

Definition ref_enc (r : ref_state) : N :=
  pkb 5 (r_exp r) (pkb 1 (b2n (r_out r)) (pkb 3 (match r_req r with None => 0 | Some k => k + 1 end)
  (pkb 1 (b2n (r_nrdy r)) (pkb 1 (b2n (r_gen r))
  (pkb 2 (match r_fly r with None => 0 | Some (f, _) => 1 + 2 * b2n f end)
  (enc_list IW (map item_code (match r_fly r with None => [] | Some (_, l) => l end))
  (enc_list IW (map item_code (r_pend r)) 0))))))).

Definition ref_dec (x : N) : ref_state :=
  let x1 := hi 5 x in let x2 := hi 1 x1 in let x3 := hi 3 x2 in let x4 := hi 1 x3 in let x5 := hi 1 x4 in
  let x6 := hi 2 x5 in
  let (fl, x7) := dec_list IW x6 in
  let (pe, _) := dec_list IW x7 in
  {| r_pend := map item_of pe; r_exp := lo 5 x; r_out := N.odd x1;
     r_req := (let c := lo 3 x2 in if c =? 0 then None else Some (c - 1));
     r_fly := (let c := lo 2 x5 in if c =? 0 then None else Some (N.testbit c 1, map item_of fl));
     r_nrdy := N.odd x3; r_gen := N.odd x4 |}.

(* the referee as an N-coded monitor over packed input/output words *)
Definition ref_monN (mps ep sb : N) (m i o : N) : option (N * bool) :=
  match ref_step mps ep sb (ref_dec m) i (unpack_out o) with
  | Some (r', ok) => Some (ref_enc r', ok)
  | None => None
  end.

(* diagnostics for the harness: how many cycles of a recorded trace the monitor judges before the
   environment contract is broken (None) or the trace ends, and how many packets it saw acknowledged *)
Fixpoint mon_progress (mon : N -> N -> N -> option (N * bool)) (m : N) (ios : list (N * N)) (k : N) : N :=
  match ios with
  | [] => k
  | (i, o) :: t => match mon m i o with
                   | None => k
                   | Some (m', _) => mon_progress mon m' t (N.succ k)
                   end
  end.

(* ---- the endpoint model, N-coded ---- *)
Definition fsm_code (f : ss_fsm) : N :=
  match f with WAIT_FOR_DATA => 0 | REQUEST_IN_TOKEN => 1 | WAIT_TO_SEND => 2 | SEND_PACKET => 3 | WAIT_FOR_ACK => 4 end.
Definition fsm_of (c : N) : ss_fsm :=
  match c with 0 => WAIT_FOR_DATA | 1 => REQUEST_IN_TOKEN | 2 => WAIT_TO_SEND | 3 => SEND_PACKET | _ => WAIT_FOR_ACK end.

Definition ss_enc (st : ss_state) : N :=
  pkb 3 (fsm_code (s_fsm st)) (pkb 5 (s_seq st) (pkb 11 (s_pos st) (pkb 1 (b2n (s_lpz st)) (pkb 1 (b2n (s_erdy st))
  (pkb 4 (s_ov st) (pkb 1 (b2n (s_of st)) (pkb 1 (b2n (s_ol st)) (pkb 32 (s_op st)
  (pkb 11 (b_fill (s_rb st)) (pkb 1 (b2n (b_ended (s_rb st)))
  (pkb 11 (b_fill (s_wb st)) (pkb 1 (b2n (b_ended (s_wb st)))
  (enc_list 32 (b_words (s_rb st)) (enc_list 32 (b_words (s_wb st)) 0)))))))))))))).

Definition ss_dec (x : N) : ss_state :=
  let x1 := hi 3 x in let x2 := hi 5 x1 in let x3 := hi 11 x2 in let x4 := hi 1 x3 in let x5 := hi 1 x4 in
  let x6 := hi 4 x5 in let x7 := hi 1 x6 in let x8 := hi 1 x7 in let x9 := hi 32 x8 in let x10 := hi 11 x9 in
  let x11 := hi 1 x10 in let x12 := hi 11 x11 in let x13 := hi 1 x12 in
  let (rw, x14) := dec_list 32 x13 in
  let (ww, _) := dec_list 32 x14 in
  {| s_fsm := fsm_of (lo 3 x); s_seq := lo 5 x1; s_pos := lo 11 x2; s_lpz := N.odd x3; s_erdy := N.odd x4;
     s_ov := lo 4 x5; s_of := N.odd x6; s_ol := N.odd x7; s_op := lo 32 x8;
     s_rb := {| b_words := rw; b_fill := lo 11 x9; b_ended := N.odd x10 |};
     s_wb := {| b_words := ww; b_fill := lo 11 x11; b_ended := N.odd x12 |} |}.

(* ---- input alphabet of the R tie (depends on the model state: only inputs the contract allows in that
   state, and both values of an input only where the module can look at it) ---- *)
Definition mk_in (valid : N) (last : bool) (payload : N) (txready ack : bool) (hep : N) (retry : bool)
           (nseq nump : N) (hsready hsdone : bool) : N :=
  valid + 16 * b2n last + 32 * payload + 2 ^ 37 * b2n txready + 2 ^ 38 * b2n ack + 2 ^ 39 * hep +
  2 ^ 46 * b2n retry + 2 ^ 47 * nseq + 2 ^ 52 * nump + 2 ^ 57 * b2n hsready + 2 ^ 58 * b2n hsdone.

Definition PA : N := 287454020.     (* 0x11223344 *)
Definition PB : N := 2864434397.    (* 0xAABBCCDD *)

(* stream side: (valid, last, payload).
   profile 0 ("control"): every valid mask, payload word 0;
   profile 1 ("data"): full words only, the payload word tells the position it is written to;
   profile 2: every valid mask and position-telling payload words;
   profile 3 ("control, light"): masks 1111 and 0011 only, payload word 0 *)
Definition alpha_stream (prof : N) (st : ss_state) : list (N * bool * N) :=
  let p := match prof with 0 | 3 => 0 | _ => if b_fill (s_wb st) =? 0 then PA else PB end in
  match prof with
  | 1 => [(0, false, 0); (15, false, p); (15, true, p)]
  | 3 => [(0, false, 0); (15, false, 0); (15, true, 0); (3, true, 0)]
  | _ => [(0, false, 0); (15, false, p); (15, true, p); (1, true, p); (3, true, p); (7, true, p)]
  end.

(* host side: (ack, hep, retry, nseq, nump) *)
Definition alpha_host (prof ep sb : N) (st : ss_state) : list (bool * N * bool * N * N) :=
  let none := (false, 0, false, 0, 0) in
  let foreign := (true, ep + 1, false, 0, 1) in
  let sq := s_seq st in
  let nx := (sq + 1) mod 2 ^ sb in
  match prof with
  | 1 => match s_fsm st with
         | WAIT_FOR_DATA | WAIT_TO_SEND => [none; (true, ep, false, sq, 1)]
         | REQUEST_IN_TOKEN | SEND_PACKET => [none]
         | WAIT_FOR_ACK => [none; (true, ep, false, nx, 0); (true, ep, false, nx, 1); (true, ep, true, sq, 1)]
         end
  | _ => match s_fsm st with
         | WAIT_FOR_DATA | WAIT_TO_SEND => [none; foreign; (true, ep, false, sq, 1)]
         | REQUEST_IN_TOKEN | SEND_PACKET => [none; foreign]
         | WAIT_FOR_ACK => [none; foreign; (true, ep, false, nx, 0); (true, ep, false, nx, 1);
                            (true, ep, true, sq, 1); (true, ep, false, (sq + 2) mod 2 ^ sb, 1)]
         end
  end.

Definition alpha_misc (st : ss_state) : list (bool * bool * bool) :=   (* tx_ready, hs_ready, hs_done *)
  match s_fsm st with
  | REQUEST_IN_TOKEN => [(true, true, false); (true, false, false); (true, false, true)]
  | SEND_PACKET | WAIT_FOR_ACK => [(true, true, false); (false, true, false)]
  | _ => [(true, true, false)]
  end.

Definition ss_alpha (prof ep sb : N) (st : ss_state) : list N :=
  flat_map (fun s => match s with (v, l, p) =>
    flat_map (fun h => match h with (a, hep, r, ns, np) =>
      map (fun m => match m with (txr, hr, hd) => mk_in v l p txr a hep r ns np hr hd end) (alpha_misc st)
    end) (alpha_host prof ep sb st) end) (alpha_stream prof st).
