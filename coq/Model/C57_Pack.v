(* C57 -- a self-delimiting pairing N * N -> N (linear in the operands' sizes, no bounds needed), used to pack the
   structured state of specification observers (several unbounded byte queues at once) into the single N the
   run-time oracle machinery (Machine.first_bad) carries.

     npair a b = ((b * 2^s + a) * 2^t + s) * 2^(t+1) + 2^t      with s = N.size a, t = N.size s

   read from the least significant end: t zeros and a one (t in unary), s in t bits, a in s bits, then b. *)
From Coq Require Import NArith List Bool Lia.
Import ListNotations.
Open Scope N_scope.

Fixpoint ctz_pos (p : positive) : N :=
  match p with xO q => N.succ (ctz_pos q) | _ => 0 end.
Definition ctz (n : N) : N := match n with 0 => 0 | Npos p => ctz_pos p end.

(* written with shifts and masks (linear time in the VM); the arithmetic reading is npair_arith / nunpair_arith *)
Definition npair (a b : N) : N :=
  let s := N.size a in let t := N.size s in
  N.shiftl (N.shiftl (N.shiftl b s + a) t + s) (t + 1) + N.shiftl 1 t.

Definition nunpair (m : N) : N * N :=
  let t := ctz m in
  let m1 := N.shiftr m (t + 1) in
  let s := N.land m1 (N.ones t) in
  let m2 := N.shiftr m1 t in
  (N.land m2 (N.ones s), N.shiftr m2 s).

Lemma npair_arith : forall a b,
  npair a b = let s := N.size a in let t := N.size s in ((b * 2 ^ s + a) * 2 ^ t + s) * 2 ^ (t + 1) + 2 ^ t.
Proof. intros. unfold npair. cbv zeta. rewrite !N.shiftl_mul_pow2, N.mul_1_l. reflexivity. Qed.

Lemma nunpair_arith : forall m,
  nunpair m = let t := ctz m in let m1 := m / 2 ^ (t + 1) in let s := m1 mod 2 ^ t in let m2 := m1 / 2 ^ t in
              (m2 mod 2 ^ s, m2 / 2 ^ s).
Proof. intros. unfold nunpair. cbv zeta. rewrite !N.shiftr_div_pow2, !N.land_ones. reflexivity. Qed.

Lemma ctz_double : forall n, n <> 0 -> ctz (2 * n) = N.succ (ctz n).
Proof. intros [|p] H; [contradiction | reflexivity]. Qed.

Lemma ctz_odd : forall k, ctz (2 * k + 1) = 0.
Proof. intros [|p]; reflexivity. Qed.

Lemma ctz_pow2_odd : forall t k, ctz (2 ^ t * (2 * k + 1)) = t.
Proof.
  intro t. induction t as [|t IH] using N.peano_ind; intro k.
  - rewrite N.pow_0_r, N.mul_1_l. apply ctz_odd.
  - rewrite N.pow_succ_r', <- N.mul_assoc, ctz_double.
    + rewrite IH. reflexivity.
    + assert (0 < 2 ^ t) by (apply N.neq_0_lt_0, N.pow_nonzero; lia). nia.
Qed.

Lemma pow2_pos : forall n, 0 < 2 ^ n.
Proof. intro n. apply N.neq_0_lt_0, N.pow_nonzero. lia. Qed.

Theorem nunpair_npair : forall a b, nunpair (npair a b) = (a, b).
Proof.
  intros a b. rewrite nunpair_arith, npair_arith. cbv zeta.
  set (s := N.size a). set (t := N.size s).
  assert (Ha : a < 2 ^ s) by apply N.size_gt.
  assert (Hs : s < 2 ^ t) by apply N.size_gt.
  pose proof (pow2_pos s) as Ps. pose proof (pow2_pos t) as Pt.
  set (X := (b * 2 ^ s + a) * 2 ^ t + s).
  assert (E : X * 2 ^ (t + 1) + 2 ^ t = 2 ^ t * (2 * X + 1)).
  { rewrite N.pow_add_r, N.pow_1_r. lia. }
  rewrite E, ctz_pow2_odd.
  assert (E1 : 2 ^ t * (2 * X + 1) / 2 ^ (t + 1) = X).
  { rewrite N.pow_add_r, N.pow_1_r. symmetry. apply (N.div_unique _ _ _ (2 ^ t)); lia. }
  rewrite E1. unfold X.
  assert (E2 : ((b * 2 ^ s + a) * 2 ^ t + s) mod 2 ^ t = s).
  { symmetry. apply (N.mod_unique _ _ (b * 2 ^ s + a)); lia. }
  assert (E3 : ((b * 2 ^ s + a) * 2 ^ t + s) / 2 ^ t = b * 2 ^ s + a).
  { symmetry. apply (N.div_unique _ _ _ s); lia. }
  rewrite E2, E3. f_equal.
  - symmetry. apply (N.mod_unique _ _ b); lia.
  - symmetry. apply (N.div_unique _ _ _ a); lia.
Qed.

(* fixed-length lists of arbitrary numbers *)
Fixpoint lenc (l : list N) : N :=
  match l with [] => 0 | x :: t => npair x (lenc t) end.
Fixpoint ldec (k : nat) (m : N) : list N :=
  match k with O => [] | S k' => let (x, r) := nunpair m in x :: ldec k' r end.

Theorem ldec_lenc : forall l, ldec (length l) (lenc l) = l.
Proof.
  induction l as [|x l IH]; [reflexivity|]. cbn [length lenc ldec]. rewrite nunpair_npair, IH. reflexivity.
Qed.
