(* C32 -- proofs about the CTCSkipRemover model: it refines the symbol FIFO (simulation relation,
   induction over the trace, every W >= 1), the FIFO conserves the non-SKP symbol stream, and the
   packing lemmas needed by the lock-step obligations. *)
From Coq Require Import NArith ZArith List Bool Arith Lia.
Import ListNotations.
From LunaLib Require Import Netlist Machine SymWord.
From LunaModel Require Import SkipRemover.
Open Scope nat_scope.

(* ---------------------------------------------------------------------------------------- *)
(* keep *)
Lemma keep_length : forall l, length (keep l) <= length l.
Proof. intros. apply filter_length_le'. Qed.

Lemma keep_ok : forall l, Forall sym_ok l -> Forall sym_ok (keep l).
Proof. intros. apply Forall_filter. assumption. Qed.

Lemma keep_in_stream : forall ins,
  keep (in_stream ins) = concat (map (fun i => if iv i then keep (isyms i) else []) ins).
Proof.
  intros ins. unfold in_stream, keep. rewrite <- concat_filter_map, map_map. f_equal.
  apply map_ext. intros i. destruct (iv i); reflexivity.
Qed.

Lemma keep_no_skp : forall l, ~ In SKP (keep l).
Proof. intros l H. apply filter_In in H. destruct H as [_ H]. rewrite N.eqb_refl in H. discriminate. Qed.

(* ---------------------------------------------------------------------------------------- *)
Section Refinement.
  Variable W : nat.
  Hypothesis HW : 1 <= W.

  Lemma cwidth_big : 2 * W < 2 ^ cwidth W.
  Proof.
    unfold cwidth. replace (Nat.log2 (2 * W) + 1) with (S (Nat.log2 (2 * W))) by lia.
    apply Nat.log2_spec. lia.
  Qed.

  (* simulation relation between the shift-register model and the FIFO *)
  Definition Inv (st : ctc_state) (q : list N) : Prop :=
    length (buf st) = 2 * W /\ fill st = length q /\ length q < 2 * W /\
    skipn (2 * W - fill st) (buf st) = q.

  Definition in_ok (i : ctc_in) : Prop := ir i = true /\ length (isyms i) = W.

  Lemma Inv_init : Inv (ctc_init W) [].
  Proof.
    unfold Inv, ctc_init. cbn [buf fill length]. rewrite repeat_length. repeat split; try lia.
    rewrite Nat.sub_0_r. apply skipn_all2. rewrite repeat_length. lia.
  Qed.

  Lemma sim_step : forall st q i, Inv st q -> in_ok i ->
    Inv (ctc_next W st i) (fst (sp_step W q i)) /\ snd (ctc_step W st i) = snd (sp_step W q i).
  Proof.
    intros [b n] q i (Hb & Hn & Hq & Hs) (Hr & Hl). cbn [buf fill] in *.
    pose proof cwidth_big as HC.
    pose proof (keep_length (isyms i)) as Hk. rewrite Hl in Hk.
    unfold ctc_step, ctc_next, sp_step, ctc_out_valid, ctc_in_ready, ctc_out_word, Inv.
    cbn [buf fill fst snd]. rewrite Hr, andb_true_r. rewrite <- Hn.
    assert (Hrdy : (n <=? 2 * W) = true) by (apply Nat.leb_le; lia). rewrite Hrdy, andb_true_r.
    set (kept := keep (isyms i)) in *. set (k := length kept) in *.
    destruct (W <=? n) eqn:EW; [apply Nat.leb_le in EW | apply Nat.leb_gt in EW].
    - (* a word leaves this cycle *)
      assert (Hlt : (n <? 2 * W) = true) by (apply Nat.ltb_lt; lia). rewrite Hlt. cbn [andb].
      split; [|rewrite Hs; reflexivity].
      destruct (iv i).
      + rewrite Nat.mod_small by lia.
        rewrite skipn_length, !app_length, skipn_length. fold k. rewrite Hb, <- Hn.
        repeat split; try lia.
        rewrite skipn_skipn, skipn_app, Hb.
        replace (k + (2 * W - (n + k - W)) - 2 * W) with 0 by lia. rewrite skipn_O.
        f_equal. rewrite <- Hs, skipn_skipn. f_equal. lia.
      + rewrite app_nil_r, skipn_length, <- Hn. repeat split; try lia.
        rewrite <- Hs, skipn_skipn. f_equal. lia.
    - (* fewer than W symbols queued: nothing leaves *)
      cbn [andb]. split; [|reflexivity].
      destruct (iv i).
      + rewrite Nat.mod_small by lia.
        rewrite skipn_length, !app_length. fold k. rewrite Hb, <- Hn.
        repeat split; try lia.
        rewrite skipn_skipn, skipn_app, Hb.
        replace (k + (2 * W - (n + k)) - 2 * W) with 0 by lia. rewrite skipn_O.
        f_equal. rewrite <- Hs. f_equal. lia.
      + rewrite app_nil_r. repeat split; try lia. exact Hs.
  Qed.

  Lemma sim_run : forall ins st q, Inv st q -> Forall in_ok ins ->
    trun (ctc_step W) st ins = trun (sp_step W) q ins /\
    Inv (tstate (ctc_step W) st ins) (tstate (sp_step W) q ins).
  Proof.
    induction ins as [|i t IH]; intros st q HI HA; [split; [reflexivity | exact HI]|].
    inversion HA as [|? ? Hi Ht]; subst.
    destruct (sim_step st q i HI Hi) as [HI' Ho]. cbn [trun tstate].
    destruct (ctc_step W st i) as [st' o] eqn:E1. destruct (sp_step W q i) as [q' o'] eqn:E2.
    cbn [fst snd] in *. subst o'.
    assert (Est : st' = ctc_next W st i) by (unfold ctc_step in E1; inversion E1; reflexivity).
    rewrite <- Est in HI'. destruct (IH st' q' HI' Ht) as [H1 H2]. rewrite H1. split; [reflexivity | exact H2].
  Qed.

  (* The model is trace-equivalent to the FIFO specification when the downstream is always ready. *)
  Theorem ctc_refines_fifo : forall ins, Forall in_ok ins ->
    trun (ctc_step W) (ctc_init W) ins = trun (sp_step W) [] ins.
  Proof. intros ins H. apply (sim_run ins _ _ Inv_init H). Qed.

  (* ---- the FIFO conserves the stream ---- *)
  Lemma out_stream_cons : forall o l,
    out_stream (o :: l) = match o with Some w => w | None => [] end ++ out_stream l.
  Proof. reflexivity. Qed.

  Lemma sp_conservation : forall ins q,
    out_stream (trun (sp_step W) q ins) ++ tstate (sp_step W) q ins
    = q ++ concat (map (fun i => if iv i then keep (isyms i) else []) ins).
  Proof.
    induction ins as [|i t IH]; intros q; [cbn; rewrite app_nil_r; reflexivity|].
    cbn [trun tstate map concat]. destruct (sp_step W q i) as [q' o] eqn:E.
    unfold sp_step in E. inversion E; subst; clear E. cbn [fst].
    rewrite out_stream_cons, <- app_assoc, IH.
    destruct (W <=? length q).
    - rewrite !app_assoc, firstn_skipn. reflexivity.
    - cbn [app]. rewrite app_assoc. reflexivity.
  Qed.

  Definition word_ok (o : option (list N)) : Prop :=
    match o with Some w => length w = W /\ Forall sym_ok w | None => True end.

  Lemma sp_words_ok : forall ins q, Forall sym_ok q -> Forall (fun i => Forall sym_ok (isyms i)) ins ->
    Forall word_ok (trun (sp_step W) q ins).
  Proof.
    induction ins as [|i t IH]; intros q Hq HA; [constructor|].
    inversion HA as [|? ? Hi Ht]; subst. cbn [trun]. unfold sp_step at 1.
    assert (Hadd : Forall sym_ok (if iv i then keep (isyms i) else [])).
    { destruct (iv i); [apply keep_ok; exact Hi | constructor]. }
    destruct (W <=? length q) eqn:E.
    - apply Nat.leb_le in E. constructor.
      + split; [apply firstn_length_le; exact E | apply Forall_firstn; exact Hq].
      + apply IH; [|exact Ht]. apply Forall_app. split; [apply Forall_skipn; exact Hq | exact Hadd].
    - constructor; [exact I|]. apply IH; [|exact Ht]. apply Forall_app. split; assumption.
  Qed.

  (* The property on the typed model: the symbols that left, followed by the (fewer than 2W) symbols still
     queued, are exactly the input symbols with every SKP removed; every word that leaves is full. *)
  Theorem ctc_stream : forall ins, Forall in_ok ins ->
    let outs := trun (ctc_step W) (ctc_init W) ins in
    exists pending, length pending < 2 * W /\
      out_stream outs ++ pending = keep (in_stream ins) /\
      Forall (fun o => match o with Some w => length w = W | None => True end) outs.
  Proof.
    intros ins H outs. subst outs. destruct (sim_run ins _ _ Inv_init H) as [HR HI]. rewrite HR.
    exists (tstate (sp_step W) [] ins). destruct HI as (_ & _ & Hlen & _). split; [exact Hlen|]. split.
    - rewrite sp_conservation, keep_in_stream. reflexivity.
    - clear. generalize (@nil N). induction ins as [|i t IH]; intros q; [constructor|].
      cbn [trun]. unfold sp_step at 1. destruct (W <=? length q) eqn:E.
      + constructor; [apply firstn_length_le; apply Nat.leb_le; exact E | apply IH].
      + constructor; [exact I | apply IH].
  Qed.
End Refinement.

(* ---------------------------------------------------------------------------------------- *)
(* The packed machine                                                                        *)
Lemma ctc_mrun : forall W tr st,
  run (ctc_mstep W) st tr = map (ctc_eout W) (trun (ctc_step W) st (map (ctc_din W) tr)).
Proof. intros. unfold ctc_mstep. apply (run_packed (ctc_step W) (ctc_din W) (ctc_eout W)). Qed.

Definition ready_bit (W : nat) (i : N) : Prop := N.testbit i (9 * N.of_nat W + 1) = true.

Lemma din_ok : forall W tr, Forall (ready_bit W) tr -> Forall (in_ok W) (map (ctc_din W) tr).
Proof.
  intros W tr H. apply Forall_map. eapply Forall_impl; [|exact H]. intros i Hi.
  unfold in_ok, ctc_din. cbn [ir isyms]. split; [exact Hi | apply syms_of_length].
Qed.

Lemma din_sym_ok : forall W tr, Forall (fun i => Forall sym_ok (isyms i)) (map (ctc_din W) tr).
Proof. intros W tr. apply Forall_map. apply Forall_forall. intros i _. apply syms_of_ok. Qed.

(* packed machine = packed FIFO specification *)
Theorem ctc_packed_refines : forall W, 1 <= W -> forall tr, Forall (ready_bit W) tr ->
  run (ctc_mstep W) (ctc_init W) tr = map (ctc_eout W) (trun (sp_step W) [] (map (ctc_din W) tr)).
Proof. intros W HW tr H. rewrite ctc_mrun, (ctc_refines_fifo W HW) by (apply din_ok; exact H). reflexivity. Qed.

(* decoding an encoded output word gives the word back *)
Lemma dout_eout : forall W o, word_ok W o -> ctc_dout W (ctc_eout W o) = o.
Proof.
  intros W [w|] H; [|reflexivity]. destruct H as [Hl Hs]. unfold ctc_dout, ctc_eout, NW.
  pose proof (data_of_bound w) as Hd. pose proof (ctrl_of_bound w) as Hc. rewrite Hl in Hd, Hc.
  set (n := N.of_nat W) in *.
  assert (P8 : (2 ^ (8 * n) <> 0)%N) by (apply N.pow_nonzero; discriminate).
  assert (P1 : (2 ^ n <> 0)%N) by (apply N.pow_nonzero; discriminate).
  (* x = d + (c + 2^n) * 2^(8n) *)
  assert (Ex : (data_of w + N.shiftl (ctrl_of w) (8 * n) + N.shiftl 1 (9 * n)
               = data_of w + N.shiftl (ctrl_of w + N.shiftl 1 n) (8 * n))%N).
  { rewrite !N.shiftl_mul_pow2. replace (9 * n)%N with (n + 8 * n)%N by lia. rewrite N.pow_add_r. lia. }
  rewrite Ex.
  assert (Elow : bits (data_of w + N.shiftl (ctrl_of w + N.shiftl 1 n) (8 * n)) 0 (8 * n) = data_of w)
    by (apply low_field; exact Hd).
  assert (Ehigh : bits (data_of w + N.shiftl (ctrl_of w + N.shiftl 1 n) (8 * n)) (8 * n) n = ctrl_of w).
  { unfold bits. rewrite high_part by exact Hd. rewrite <- (N.shiftr_0_r (ctrl_of w + N.shiftl 1 n)).
    apply (low_field (ctrl_of w) 1 n). exact Hc. }
  assert (Ebit : N.testbit (data_of w + N.shiftl (ctrl_of w + N.shiftl 1 n) (8 * n)) (9 * n) = true).
  { replace (9 * n)%N with (n + 8 * n)%N by lia. rewrite <- N.shiftr_spec by apply N.le_0_l.
    rewrite high_part by exact Hd.
    replace (N.testbit (ctrl_of w + N.shiftl 1 n) n)
      with (N.testbit (N.shiftr (ctrl_of w + N.shiftl 1 n) n) 0)
      by (rewrite N.shiftr_spec by apply N.le_0_l; reflexivity).
    rewrite high_part by exact Hc. reflexivity. }
  rewrite Ebit, Elow, Ehigh. rewrite <- Hl. rewrite syms_of_data_ctrl by exact Hs. reflexivity.
Qed.

Lemma dout_norm : forall W o, ctc_dout W (ctc_norm W o) = ctc_dout W o.
Proof.
  intros W o. unfold ctc_norm, ctc_dout. destruct (N.testbit o (9 * NW W)) eqn:E; [rewrite E; reflexivity|].
  rewrite N.bits_0. reflexivity.
Qed.

(* The property on the packed machine that the lock-step obligations tie to the netlist:
   for every W >= 1 and every input history with source.ready = 1, the symbols of the valid output words,
   in order, followed by fewer than 2W symbols still buffered, are exactly the symbols of the valid input
   words with every SKP removed. *)
Theorem ctc_packed_stream : forall W, 1 <= W -> forall tr, Forall (ready_bit W) tr ->
  exists pending, length pending < 2 * W /\
    out_stream (map (ctc_dout W) (run (ctc_mstep W) (ctc_init W) tr)) ++ pending
    = keep (in_stream (map (ctc_din W) tr)).
Proof.
  intros W HW tr H.
  destruct (ctc_stream W HW (map (ctc_din W) tr) (din_ok W tr H)) as (p & Hp & He & _).
  exists p. split; [exact Hp|]. rewrite <- He. f_equal. f_equal.
  rewrite ctc_mrun, map_map. rewrite (ctc_refines_fifo W HW) by (apply din_ok; exact H).
  pose proof (sp_words_ok W (map (ctc_din W) tr) [] (Forall_nil _) (din_sym_ok W tr)) as Hw.
  induction Hw as [|o l Ho Hl IH]; [reflexivity|]. cbn [map]. rewrite dout_eout by exact Ho. rewrite IH. reflexivity.
Qed.

(* ---------------------------------------------------------------------------------------- *)
(* packing lemmas for lock-step obligations *)
Definition ctc_wf (W : nat) (st : ctc_state) : Prop :=
  length (buf st) = 2 * W /\ Forall sym_ok (buf st) /\ fill st < 2 ^ cwidth W.

Lemma ctc_wf_init : forall W, ctc_wf W (ctc_init W).
Proof.
  intros W. unfold ctc_wf, ctc_init. cbn [buf fill]. rewrite repeat_length. repeat split.
  - apply Forall_forall. intros x Hx. apply repeat_spec in Hx. subst. unfold sym_ok. lia.
  - apply Nat.lt_le_trans with (1 := Nat.lt_0_1). clear. induction (cwidth W); simpl; lia.
Qed.

Lemma ctc_dec_enc : forall W, cwidth W <= 8 -> forall st, ctc_wf W st -> ctc_dec W (ctc_enc st) = st.
Proof.
  intros W HC [b n] (Hl & Hs & Hn). cbn [buf fill] in *. unfold ctc_dec, ctc_enc. cbn [buf fill].
  assert (Hn8 : (N.of_nat n < 2 ^ 8)%N).
  { assert (2 ^ cwidth W <= 2 ^ 8) by (apply Nat.pow_le_mono_r; lia). change (2 ^ 8) with 256 in *.
    change (2 ^ 8)%N with 256%N. lia. }
  f_equal.
  - rewrite lor_high by exact Hn8. rewrite <- Hl. apply unpack9_pack9. exact Hs.
  - change 255%N with (N.ones 8). rewrite lor_low by exact Hn8. apply Nat2N.id.
Qed.

Lemma ctc_wf_step : forall W st i, ctc_wf W st -> ctc_wf W (fst (ctc_mstep W st i)).
Proof.
  intros W [b n] i (Hl & Hs & Hn). unfold ctc_mstep, ctc_step. cbn [fst]. unfold ctc_next, ctc_wf.
  cbn [buf fill] in *.
  pose proof (syms_of_ok W (bits i 0 (8 * NW W)) (bits i (8 * NW W) (NW W))) as Hin.
  set (d := ctc_din W i). assert (Hd : Forall sym_ok (isyms d)) by exact Hin.
  assert (Hpos : 0 < 2 ^ cwidth W) by (clear; induction (cwidth W); simpl; lia).
  destruct (iv d && ctc_in_ready W {| buf := b; fill := n |}).
  - repeat split.
    + rewrite skipn_length, app_length. lia.
    + apply Forall_skipn. apply Forall_app. split; [exact Hs | apply keep_ok; exact Hd].
    + apply Nat.mod_upper_bound. lia.
  - repeat split; try assumption.
    destruct (ctc_out_valid W {| buf := b; fill := n |} && ir d); cbn [fill]; lia.
Qed.

Lemma ctc_cw4 : cwidth 4 <= 8.
Proof. vm_compute. repeat constructor. Qed.
