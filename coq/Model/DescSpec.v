(* C09 -- specification of the GET_DESCRIPTOR handlers (luna/gateware/usb/usb2/descriptor.py), shared by the
   block-ROM handler (Model/DescBlock.v) and the block-RAM-free handler (Model/DescDist.v).

   Three layers, none of which mentions any implementation state:

   (1) respond c mps value wLength sp   -- what ONE IN transaction of the data stage must carry: the handler is
       started with (wValue, wLength, start_position sp) and must answer with the bytes
          desc[sp .. sp + min(mps, wLength - sp))        (clipped at the end of the descriptor; [] = zero-length packet)
       or with STALL when the collection has no descriptor (type = wValue[15:8], index = wValue[7:0]).

   (2) data_stage   -- what the HOST sees: it reads packets at offsets 0, mps, 2 mps, ... (StandardRequestHandler
       adds max_packet_size to its 11-bit start_position on every ACK) until a packet shorter than mps arrives or
       wLength bytes have arrived (or the device STALLs).  DescSpec_proofs.data_stage_respond proves that, for a
       responder that answers as in (1), the concatenated packets are the first min(wLength, len) bytes of the
       descriptor, all packets but the last are full, and the last one is short -- a zero-length packet exactly
       when the total is a multiple of mps below wLength.

   (3) s_step   -- the cycle-level specification machine at the handler's ports: idle until `start`; after an
       implementation-defined latency (parameter `lat`, not part of the property) either pulse `stall` for one cycle,
       or pulse valid & last & ~first for one cycle (the zero-length-packet convention of USBInStreamInterface /
       USBDataPacketGenerator), or present the bytes one per beat, each held until tx.ready, `first` on the first
       and `last` on the last beat; then idle again.

   One cycle's packed input word :  value[16] | length[16] | start | start_position[11] | tx.ready
   One cycle's packed output word:  tx.valid | tx.first | tx.last | tx.payload[8] | stall *)
From Coq Require Import NArith List Bool.
Import ListNotations.
From LunaLib Require Import Netlist Bits Machine.
Open Scope N_scope.

(* ---------------------------------------------------------------------------------------------------------- *)
(* descriptor collections: type number |-> (index |-> bytes); what DeviceDescriptorCollection iterates over,
   grouped by type and sorted the way generate_rom_content sorts it *)
Definition desc := list N.
Definition dcoll := list (N * list (N * desc)).

Definition nlen {A : Type} (l : list A) : N := N.of_nat (length l).

Fixpoint assoc {A : Type} (k : N) (l : list (N * A)) : option A :=
  match l with
  | [] => None
  | (k', v) :: r => if k' =? k then Some v else assoc k r
  end.

Definition find_desc (c : dcoll) (ty ix : N) : option desc :=
  match assoc ty c with Some idxs => assoc ix idxs | None => None end.

Definition v_type (value : N) : N := bits value 8 8.
Definition v_index (value : N) : N := bits value 0 8.

(* ---------------------------------------------------------------------------------------------------------- *)
(* (1) one IN transaction *)
Inductive response := RStall | RData (bytes : list N).

Definition respond (c : dcoll) (mps value wlen sp : N) : response :=
  match find_desc c (v_type value) (v_index value) with
  | None => RStall
  | Some d => RData (firstn (N.to_nat (N.min mps (wlen - sp))) (skipn (N.to_nat sp) d))
  end.

(* ---------------------------------------------------------------------------------------------------------- *)
(* (2) the data stage as the host drives it.  resp : start_position -> response.
   Result: the packets received, and whether the stage was ended by a STALL.  `offsets` lists the start positions
   the host causes the device to use (the handler-level environment assumption is stated about them). *)
Definition sp_next (mps sp : N) : N := (sp + mps) mod 2048.        (* Signal(11) start_position + max_packet_size *)

Fixpoint data_stage (fuel : nat) (resp : N -> response) (mps wlen sp got : N) : list (list N) * bool :=
  match fuel with
  | O => ([], false)
  | S f =>
      match resp sp with
      | RStall => ([], true)
      | RData p =>
          let got' := got + nlen p in
          if (nlen p <? mps) || (wlen <=? got') then ([p], false)
          else let (ps, st) := data_stage f resp mps wlen (sp_next mps sp) got' in (p :: ps, st)
      end
  end.

Fixpoint offsets (fuel : nat) (resp : N -> response) (mps wlen sp got : N) : list N :=
  match fuel with
  | O => []
  | S f =>
      sp :: match resp sp with
            | RStall => []
            | RData p =>
                let got' := got + nlen p in
                if (nlen p <? mps) || (wlen <=? got') then []
                else offsets f resp mps wlen (sp_next mps sp) got'
            end
  end.

(* ---------------------------------------------------------------------------------------------------------- *)
(* (3) the cycle-level specification machine *)
Definition i_value (i : N) : N := bits i 0 16.
Definition i_wlen (i : N) : N := bits i 16 16.
Definition i_start (i : N) : bool := N.testbit i 32.
Definition i_sp (i : N) : N := bits i 33 11.
Definition i_ready (i : N) : bool := N.testbit i 44.
Definition mk_in (value wlen : N) (start : bool) (sp : N) (ready : bool) : N :=
  value + N.shiftl wlen 16 + N.shiftl (b2n start) 32 + N.shiftl sp 33 + N.shiftl (b2n ready) 44.

Definition o_quiet : N := 0.
Definition o_stall : N := 2048.
Definition o_zlp : N := 5.                                         (* valid + last, no first, payload 0 *)
Definition o_beat (b : N) (first last : bool) : N := 1 + 2 * b2n first + 4 * b2n last + 8 * b.

Record dreq := { q_value : N; q_wlen : N; q_sp : N }.
Definition req_of (i : N) : dreq := {| q_value := i_value i; q_wlen := i_wlen i; q_sp := i_sp i |}.

Inductive sstate :=
  | SIdle
  | SWait (k : N) (q : dreq)                     (* k more silent cycles before the response to q begins *)
  | SSend (bs : list N) (first : bool) (q : dreq). (* bytes still to be sent; the head is on the stream now *)

Section Spec.
  Variable resp : dreq -> response.       (* what to answer *)
  Variable lat : dreq -> N.               (* cycles from `start` to the first cycle of the answer (implementation-defined) *)
  Variable req_ok : dreq -> bool.         (* requests the environment may make *)

  Definition send (bs : list N) (first : bool) (q : dreq) (i : N) : sstate * N :=
    match bs with
    | [] => (SIdle, o_quiet)
    | b :: rest =>
        let last := match rest with [] => true | _ => false end in
        ((if i_ready i then (if last then SIdle else SSend rest false q) else SSend bs first q),
         o_beat b first last)
    end.

  Definition deliver (q : dreq) (i : N) : sstate * N :=
    match resp q with
    | RStall => (SIdle, o_stall)
    | RData [] => (SIdle, o_zlp)
    | RData bs => send bs true q i
    end.

  Definition wait (k : N) (q : dreq) (i : N) : sstate * N :=
    if k =? 0 then deliver q i else (SWait (k - 1) q, o_quiet).

  Definition s_step (s : sstate) (i : N) : sstate * N :=
    match s with
    | SIdle => if i_start i then wait (lat (req_of i)) (req_of i) i else (SIdle, o_quiet)
    | SWait k q => wait k q i
    | SSend bs first q => send bs first q i
    end.

  (* Environment: a request is made only while the handler is idle, is one the host may make (req_ok), and
     value / length / start_position are held (and start is low) until the answer is complete. *)
  Definition held (q : dreq) (i : N) : bool :=
    (i_value i =? q_value q) && (i_wlen i =? q_wlen q) && (i_sp i =? q_sp q) && negb (i_start i).

  Definition s_env (s : sstate) (i : N) : bool :=
    match s with
    | SIdle => if i_start i then req_ok (req_of i) else true
    | SWait _ q => held q i
    | SSend _ _ q => held q i
    end.
End Spec.

(* the responder and the legal requests, for a collection *)
Definition resp_of (c : dcoll) (mps : N) (q : dreq) : response := respond c mps (q_value q) (q_wlen q) (q_sp q).

(* the host only continues a data stage while fewer than wLength bytes have arrived and all earlier packets were
   full, so  start_position < wLength  and  start_position <= len(descriptor) *)
Definition req_legal (c : dcoll) (q : dreq) : bool :=
  (q_sp q <? q_wlen q) &&
  match find_desc c (v_type (q_value q)) (v_index (q_value q)) with
  | Some d => q_sp q <=? nlen d
  | None => true
  end.

(* ---------------------------------------------------------------------------------------------------------- *)
(* runtime oracle over simulator traces (tie.cmon): the specification machine as a monitor.  Monitor states are
   indices into nothing -- the monitor keeps the sstate itself, so it is run through `spec_check` below rather than
   through an N-coded monitor. *)
Section Oracle.
  Variable resp : dreq -> response.
  Variable lat : dreq -> N.
  Variable req_ok : dreq -> bool.
  (* first cycle at which the recorded outputs differ from the specification (0 = none, k+1 = cycle k);
     stops silently when the environment assumption is broken *)
  Fixpoint spec_check (k : N) (s : sstate) (ins outs : list N) : N :=
    match ins, outs with
    | i :: ti, o :: to =>
        if s_env req_ok s i then
          let (s', o') := s_step resp lat s i in
          if o =? o' then spec_check (N.succ k) s' ti to else N.succ k
        else 0
    | _, _ => 0
    end.
End Oracle.

(* packet-level reading of a recorded (input, output) trace, the way USBDataPacketGenerator consumes the stream:
   a byte is taken when valid & ready; `last` closes the packet; valid & last & ~first outside a packet is a
   zero-length packet; a stall pulse is reported as a separate event *)
Inductive dev_event := EvPacket (bytes : list N) | EvStall.

Fixpoint events (cur : option (list N)) (ios : list (N * N)) : list dev_event :=
  match ios with
  | [] => []
  | (i, o) :: t =>
      let valid := N.testbit o 0 in let first := N.testbit o 1 in let last := N.testbit o 2 in
      let payload := bits o 3 8 in let stall := N.testbit o 11 in
      if stall then EvStall :: events None t
      else match cur with
           | None =>
               if valid && first then
                 if i_ready i then (if last then EvPacket [payload] :: events None t else events (Some [payload]) t)
                 else events None t
               else if valid && last then EvPacket [] :: events None t
               else events None t
           | Some acc =>
               if valid && i_ready i then
                 (if last then EvPacket (acc ++ [payload]) :: events None t else events (Some (acc ++ [payload])) t)
               else events cur t
           end
  end.

Fixpoint bytes_eqb (a b : list N) : bool :=
  match a, b with
  | [], [] => true
  | x :: a', y :: b' => (x =? y) && bytes_eqb a' b'
  | _, _ => false
  end.
Definition ev_eqb (a b : dev_event) : bool :=
  match a, b with
  | EvStall, EvStall => true
  | EvPacket x, EvPacket y => bytes_eqb x y
  | _, _ => false
  end.
Fixpoint evs_eqb (a b : list dev_event) : bool :=
  match a, b with
  | [], [] => true
  | x :: a', y :: b' => ev_eqb x y && evs_eqb a' b'
  | _, _ => false
  end.

(* what the requests of a recorded trace must be answered with, one event per start strobe *)
Definition expected_events (c : dcoll) (mps : N) (ios : list (N * N)) : list dev_event :=
  flat_map (fun io => let i := fst io in
                      if i_start i then
                        [match respond c mps (i_value i) (i_wlen i) (i_sp i) with
                         | RStall => EvStall | RData bs => EvPacket bs end]
                      else []) ios.

(* packet-level oracle over a recorded trace whose requests all ran to completion: 0 = the device's packets / stalls
   are exactly the specified ones, 1 = not *)
Definition events_code (c : dcoll) (mps : N) (ins outs : list N) : N :=
  let ios := combine ins outs in
  if evs_eqb (events None ios) (expected_events c mps ios) then 0 else 1.

(* the host side of the end-to-end oracle: packets received for one GET_DESCRIPTOR (value, wLength) and whether the
   data stage ended in a STALL, against data_stage over `respond` *)
Fixpoint pkts_eqb (a b : list (list N)) : bool :=
  match a, b with
  | [], [] => true
  | x :: a', y :: b' => bytes_eqb x y && pkts_eqb a' b'
  | _, _ => false
  end.
Definition stage_code (c : dcoll) (mps value wlen : N) (pkts : list (list N)) (stalled : bool) : N :=
  let (ps, st) := data_stage 4096 (respond c mps value wlen) mps wlen 0 0 in
  if pkts_eqb pkts ps && Bool.eqb stalled st then 0 else 1.
