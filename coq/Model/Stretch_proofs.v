From Coq Require Import NArith Arith List Bool Lia.
Import ListNotations.
From LunaLib Require Import Netlist Bits Machine.
From LunaModel Require Import Stretch.

Definition pad (w : nat) (past : list bool) : list bool := firstn w (past ++ repeat false w).

Lemma existsb_repeat_false : forall k, existsb id (repeat false k) = false.
Proof. induction k; simpl; auto. Qed.

Lemma existsb_pad : forall w past, existsb id (pad w past) = existsb id (firstn w past).
Proof.
  intros. unfold pad. rewrite firstn_app, existsb_app.
  assert (H : existsb id (firstn (w - length past) (repeat false w)) = false).
  { generalize (w - length past)%nat as k. intro k. revert k.
    induction w as [|w IH]; intros k; destruct k; simpl; auto. }
  rewrite H, orb_false_r. reflexivity.
Qed.

Lemma pad_cons : forall w x past, firstn w (x :: pad w past) = pad w (x :: past).
Proof.
  intros w x past. unfold pad. destruct w as [|w]; [reflexivity|].
  change ((x :: past) ++ repeat false (S w)) with (x :: (past ++ repeat false (S w))).
  rewrite !firstn_cons. f_equal. rewrite firstn_firstn. rewrite Nat.min_l by lia. reflexivity.
Qed.

Lemma pad_length : forall w past, length (pad w past) = w.
Proof. intros. unfold pad. rewrite firstn_length, app_length, repeat_length. lia. Qed.

Lemma pad_nil : forall w, pad w [] = repeat false w.
Proof. intros. unfold pad. simpl. rewrite firstn_all2; [reflexivity | rewrite repeat_length; lia]. Qed.

(* The model meets the specification for every stretch length, both delay modes, every history. *)
Theorem stretch_model_spec : forall n delay, (1 <= n)%nat -> forall ins past,
  stretch_run n delay (pad (sr_width n delay) past) ins = spec_trace n delay past ins.
Proof.
  intros n delay Hn. induction ins as [|s t IH]; intros past; [reflexivity|].
  cbn [stretch_run spec_trace].
  destruct n as [|[|n']]; [lia| |].
  - (* n = 1 *) unfold stretch_step, spec_out. cbn [sr_width] in *. f_equal.
    change (pad 0 past) with (pad 0 (s :: past)). apply IH.
  - set (n := S (S n')) in *.
    assert (Hstep : stretch_step n delay (pad (sr_width n delay) past) s =
            (pad (sr_width n delay) (s :: past), spec_out n delay past s)).
    { unfold stretch_step, spec_out. subst n. cbv iota. f_equal.
      - apply pad_cons.
      - destruct delay.
        + rewrite existsb_pad. reflexivity.
        + rewrite existsb_pad. unfold sr_width. replace (S (S n') - 1)%nat with (S n') by lia.
          reflexivity. }
    rewrite Hstep. f_equal. apply IH.
Qed.

Corollary stretch_from_reset : forall n delay, (1 <= n)%nat -> forall ins,
  stretch_run n delay (sr_init n delay) ins = spec_trace n delay [] ins.
Proof. intros. unfold sr_init. rewrite <- pad_nil. apply stretch_model_spec; assumption. Qed.

(* packing facts for the lock-step obligation *)
Definition stretch_wf n delay (sr : list bool) : Prop := length sr = sr_width n delay.

Lemma stretch_dec_enc : forall n delay sr, stretch_wf n delay sr ->
  stretch_dec n delay (stretch_enc sr) = sr.
Proof. intros n delay sr H. unfold stretch_dec, stretch_enc. rewrite <- H. apply N2bits_bits2N. Qed.

Lemma stretch_wf_step : forall n delay sr i, stretch_wf n delay sr ->
  stretch_wf n delay (fst (stretch_mstep n delay sr i)).
Proof.
  intros n delay sr i H. unfold stretch_wf, stretch_mstep in *.
  destruct (stretch_step n delay sr (N.odd i)) as [sr' o] eqn:E. cbn [fst].
  unfold stretch_step in E. destruct n as [|[|n']].
  - inversion E; subst. destruct delay; reflexivity.
  - inversion E; subst. exact H.
  - inversion E; subst. rewrite firstn_length. cbn [length]. rewrite H.
    apply Nat.min_l. lia.
Qed.

Lemma stretch_mrun : forall n delay ins sr,
  run (stretch_mstep n delay) sr ins = map b2n (stretch_run n delay sr (map N.odd ins)).
Proof.
  induction ins as [|i t IH]; intros sr; [reflexivity|].
  cbn [run map stretch_run]. unfold stretch_mstep at 1.
  destruct (stretch_step n delay sr (N.odd i)) as [sr' o]. cbn [map]. rewrite IH. reflexivity.
Qed.
