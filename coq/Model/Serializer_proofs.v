(* C27 -- proofs about the StreamSerializer model/specification of Model/Serializer.v. *)
From Coq Require Import NArith ZArith Arith List Bool Lia ZifyBool ZifyN.
Import ListNotations.
From LunaLib Require Import Netlist Bits Machine.
From LunaModel Require Import ConstGen ConstGen_proofs Serializer.
Open Scope N_scope.

Lemma ser_dec_enc : forall posw st, ser_wf posw st -> ser_dec posw (ser_enc posw st) = st.
Proof.
  intros posw [f p s] Hp. unfold ser_wf in Hp. unfold ser_dec, ser_enc. cbn [s_fsm s_pos s_sent] in *.
  set (fn := match f with S_IDLE => 0 | S_STREAMING => 1 | S_DONE => 2 end).
  assert (Hf : fn < 2 ^ 2) by (subst fn; destruct f; vm_compute; reflexivity).
  rewrite (unpair_lo 2 fn _ Hf), (unpair_hi 2 fn _ Hf).
  rewrite (unpair_lo _ p _ Hp), (unpair_hi _ p _ Hp).
  subst fn. destruct f; reflexivity.
Qed.

Lemma ser_wf_step : forall n dw mlw posw, ser_okb n posw = true ->
  forall st i, ser_wf posw st -> ser_wf posw (fst (ser_step n dw mlw posw st i)).
Proof.
  intros n dw mlw posw Hok st i H. unfold ser_wf in *. unfold ser_step, ser_next. cbn [fst].
  unfold ser_okb in Hok.
  destruct (s_fsm st); cbn [s_pos].
  - unfold ser_sp_eff. destruct (N.of_nat n <=? r_sp n dw posw (s_req n dw mlw posw i)); [lia | apply bits_lt].
  - destruct (s_ready n dw mlw posw i); [|exact H].
    destruct (ser_last n dw mlw posw st (s_req n dw mlw posw i)); cbn [s_pos]; [exact H | apply trunc_lt].
  - exact H.
Qed.

Lemma ser_wf_init : forall posw, ser_wf posw ser_init.
Proof. intros. unfold ser_wf, ser_init. cbn [s_pos]. apply pow2_pos. Qed.

Section SerRefine.
  Variable n : nat.
  Variables dw mlw posw : N.
  Hypothesis Hok : ser_okb n posw = true.

  Local Notation Nn := (N.of_nat n).

  Definition srel (st : ser_state) (s : ss_state) : Prop :=
    match s_fsm st, s with
    | S_IDLE, SsIdle => True
    | S_STREAMING, SsSend bs r =>
        s_pos st < Nn /\ r_sp n dw posw r <= s_pos st /\ s_sent st = s_pos st - r_sp n dw posw r /\
        s_sent st < r_ml n dw mlw posw r /\ r_ml n dw mlw posw r < 2 ^ mlw /\
        bs = beats 1 1 (r_ml n dw mlw posw r) (skipn (N.to_nat (s_pos st)) (r_data n dw r)) (s_sent st)
                   (s_pos st =? r_sp n dw posw r)
    | S_DONE, SsDone => True
    | _, _ => False
    end.

  Lemma r_data_length : forall r, length (r_data n dw r) = n.
  Proof. intros. unfold r_data. rewrite map_length, seq_length. reflexivity. Qed.

  Lemma srel_step : forall st s i, srel st s -> ss_env n dw mlw posw s i = true ->
    ser_out n dw mlw posw st i = ss_out dw s /\ srel (ser_next n dw mlw posw st i) (ss_next n dw mlw posw s i).
  Proof.
    intros [f pos sent] s i HR HE. unfold ser_okb in Hok.
    unfold srel in HR. cbn [s_fsm s_pos s_sent] in HR.
    destruct f, s as [ | bs r | ]; try contradiction.
    - (* IDLE *)
      unfold ser_out, ser_next, ss_out, ss_next. cbn [s_fsm s_pos s_sent].
      split; [reflexivity|]. unfold ss_env in HE.
      set (r := s_req n dw mlw posw i) in *.
      destruct (s_start i && (0 <? r_ml n dw mlw posw r)) eqn:ES; [|exact I].
      unfold srel. cbn [s_fsm s_pos s_sent].
      assert (Heff : ser_sp_eff n dw posw r = r_sp n dw posw r).
      { unfold ser_sp_eff. destruct (N.leb_spec Nn (r_sp n dw posw r)); [lia | reflexivity]. }
      rewrite Heff, N.eqb_refl.
      assert (Hmlb : r_ml n dw mlw posw r < 2 ^ mlw) by apply bits_lt.
      repeat split; try reflexivity; try lia.
    - (* STREAMING *)
      destruct HR as (Hpos & Hsple & Hsent & Hlt & Hmlb & Hbs).
      unfold ss_env in HE. apply N.eqb_eq in HE.
      set (p := N.to_nat pos) in *.
      assert (Hp : (p < length (r_data n dw r))%nat) by (rewrite r_data_length; lia).
      rewrite (skipn_cons_nth _ p Hp) in Hbs.
      rewrite beats_cons in Hbs. cbv zeta in Hbs. fold (ends (r_data n dw r) p) in Hbs.
      rewrite (ends_spec _ p Hp), r_data_length in Hbs.
      assert (Hends : Nat.eqb (S p) n = (pos =? Nn - 1)).
      { destruct (Nat.eqb_spec (S p) n), (N.eqb_spec pos (Nn - 1)); try reflexivity; lia. }
      rewrite Hends in Hbs.
      assert (Hlast : ser_last n dw mlw posw {| s_fsm := S_STREAMING; s_pos := pos; s_sent := sent |} r
                      = (pos =? Nn - 1) || (r_ml n dw mlw posw r <=? sent + 1)).
      { unfold ser_last. cbn [s_pos s_sent]. f_equal. lia. }
      split.
      + subst bs. unfold ser_out, ss_out. cbn [s_fsm b_first b_last b_payload]. rewrite HE, Hlast.
        unfold ser_first. cbn [s_pos]. fold p. reflexivity.
      + subst bs. unfold ser_next, ss_next. cbn [s_fsm]. rewrite HE, Hlast.
        destruct (s_ready n dw mlw posw i) eqn:ER.
        * destruct (pos =? Nn - 1) eqn:ED, (r_ml n dw mlw posw r <=? sent + 1) eqn:EM; cbn [orb];
            try (unfold srel; cbn [s_fsm]; exact I).
          assert (Hrest : skipn (S p) (r_data n dw r) <> []).
          { intro E. pose proof (skipn_length (S p) (r_data n dw r)) as HLn. rewrite E, r_data_length in HLn.
            simpl in HLn. lia. }
          pose proof (beats_nonempty 1 1 (r_ml n dw mlw posw r) _ (sent + 1) false Hrest) as Hne.
          destruct (beats 1 1 (r_ml n dw mlw posw r) (skipn (S p) (r_data n dw r)) (sent + 1) false) as [|b' bs'] eqn:EB;
            [congruence|].
          unfold srel. cbn [s_fsm s_pos s_sent].
          assert (Hp1 : trunc posw (pos + 1) = pos + 1) by (apply trunc_small; lia).
          assert (Hs1 : trunc mlw (sent + 1) = sent + 1) by (apply trunc_small; lia).
          rewrite Hp1, Hs1. replace (N.to_nat (pos + 1)) with (S p) by lia.
          assert (E2 : (pos + 1 =? r_sp n dw posw r) = false) by lia. rewrite E2.
          repeat split; try reflexivity; try lia. symmetry; exact EB.
        * unfold srel. cbn [s_fsm s_pos s_sent]. repeat split; try reflexivity; try lia.
          fold p. rewrite (skipn_cons_nth _ p Hp), beats_cons. cbv zeta.
          fold (ends (r_data n dw r) p). rewrite (ends_spec _ p Hp), r_data_length, Hends. reflexivity.
    - split; [reflexivity | exact I].
  Qed.

  Theorem ser_refines : forall tr st s, srel st s ->
    env_ok ss_state (ss_step n dw mlw posw) (ss_env n dw mlw posw) s tr = true ->
    run (ser_step n dw mlw posw) st tr = run (ss_step n dw mlw posw) s tr.
  Proof.
    induction tr as [|i t IH]; intros st s HR HE; [reflexivity|].
    cbn [env_ok] in HE. apply andb_true_iff in HE as [HE1 HE2].
    destruct (srel_step st s i HR HE1) as [Ho Hn].
    cbn [run ser_step ss_step]. cbn [ss_step fst] in HE2. rewrite Ho. f_equal. apply IH; assumption.
  Qed.

  Corollary ser_from_reset : forall tr,
    env_ok ss_state (ss_step n dw mlw posw) (ss_env n dw mlw posw) SsIdle tr = true ->
    run (ser_step n dw mlw posw) ser_init tr = run (ss_step n dw mlw posw) SsIdle tr.
  Proof. intros tr HE. apply ser_refines; [exact I | exact HE]. Qed.
End SerRefine.
