(* C36 -- hand models of luna/gateware/usb/usb3/link/transmitter.py: RawPacketTransmitter and of its header round-trip
   partner luna/gateware/usb/usb3/link/receiver.py: RawHeaderPacketReceiver, and the wire-format specification.
   (The data round-trip partner DataPacketReceiver is Model/DataRx.v, property C40.)

   Words are 32 data bits + 4 ctrl bits (one ctrl bit per byte, byte 0 = least significant, first on the wire).
   The CRC units are a parameter (`crc_units` of Model/DataRx.v: the real units, or stand-ins for the netlist tie). *)
From Coq Require Import NArith List Bool.
Import ListNotations.
From LunaLib Require Import Netlist Bits Machine PackN.
From LunaModel Require Import Crc DataRx.
Open Scope N_scope.

(* ---- symbols and framing words ------------------------------------------------------------------------ *)
Definition SYM_SHP : N := 251. Definition SYM_SDP : N := 92. Definition SYM_END : N := 253.
Definition SYM_EDB : N := 124. Definition SYM_EPF : N := 247.
Definition RTX_HPSTART  : N * N := (4160486395, 15).   (* SHP SHP SHP EPF *)
Definition RTX_DPPSTART : N * N := (4150025308, 15).   (* SDP SDP SDP EPF *)
Definition RTX_DPPEND   : N * N := (4160617981, 15).   (* END END END EPF *)
Definition RTX_DPPABORT : N * N := (4152130684, 15).   (* EDB EDB EDB EPF *)

(* ---- the transmitter model ------------------------------------------------------------------------------ *)
Inductive rtx_fsm := TIDLE | THP | TDW0 | TDW1 | TDW2 | TDW3 | TSDP | TPAY | TLAST | TCRC | TFIN | TABORT.

Record rtx_state := {
  tf : rtx_fsm;
  th0 : N; th1 : N; th2 : N; thl : N;    (* latched header: dw0 dw1 dw2 and the 32 bits of link-layer fields *)
  tpw : N; tpv : N;                      (* pipelined_data_word / pipelined_data_valid *)
  tzlp : bool;                           (* packet_is_zlp *)
  t16 : N; t32 : N                       (* CRC registers *)
}.

Record rtx_in := { i_hdr : N;            (* header: dw0 | dw1<<32 | dw2<<64 | link fields<<96 *)
                   i_gen : bool; i_ddata : N; i_dvalid : N; i_dlast : bool; i_ready : bool }.
Record rtx_out := { x_valid : bool; x_data : N; x_ctrl : N; x_done : bool; x_dready : bool }.

(* the fourth header word: CRC-16 of dw0..dw2, the 11 link-control bits of the header, their CRC-5 *)
Definition rtx_dw3 (crc16 lf : N) : N := crc16 + 65536 * bits lf 16 11 + 134217728 * crc5_usb (bits lf 16 11).

(* SEND_LAST_WORD / SEND_CRC / FINISH_DPP by the byte-valid mask of the last payload word *)
Definition rtx_last_word (pv pw crc : N) : N :=
  match pv with
  | 7 => bits pw 0 24 + 16777216 * bits crc 0 8
  | 3 => bits pw 0 16 + 65536 * bits crc 0 16
  | 1 => bits pw 0 8 + 256 * bits crc 0 24
  | _ => pw
  end.
Definition rtx_crc_word (pv crc : N) : N * N :=
  match pv with
  | 15 => (crc, 0)
  | 7 => (bits crc 8 24 + 16777216 * SYM_END, 8)
  | 3 => (bits crc 16 16 + 65536 * (SYM_END + 256 * SYM_END), 12)
  | 1 => (bits crc 24 8 + 256 * (SYM_END + 256 * (SYM_END + 256 * SYM_END)), 14)
  | _ => (0, 0)
  end.
Definition rtx_fin_word (pv : N) : N * N :=
  match pv with
  | 15 => RTX_DPPEND
  | 7 => (SYM_END + 256 * (SYM_END + 256 * SYM_EPF), 7)
  | 3 => (SYM_END + 256 * SYM_EPF, 3)
  | 1 => (SYM_EPF, 1)
  | _ => (0, 0)
  end.

Definition rtx_nbytes (v : N) : N :=
  if v =? 15 then 4 else if v =? 7 then 3 else if v =? 3 then 2 else if v =? 1 then 1 else 0.

Section Tx.
  Variable U : crc_units.

  Definition rtx_init : rtx_state :=
    {| tf := TIDLE; th0 := 0; th1 := 0; th2 := 0; thl := 0; tpw := 0; tpv := 0; tzlp := false;
       t16 := u16_init U; t32 := u32_init U |}.

  Definition rtx_next (s : rtx_state) (i : rtx_in) : rtx_state * rtx_out :=
    let mk f h0 h1 h2 hl pw pv z a b :=
      {| tf := f; th0 := h0; th1 := h1; th2 := h2; thl := hl; tpw := pw; tpv := pv; tzlp := z; t16 := a; t32 := b |} in
    let out v d c dn dr := {| x_valid := v; x_data := d; x_ctrl := c; x_done := dn; x_dready := dr |} in
    (* the CRC-32 follows every accepted data_sink word (it is held cleared in IDLE) *)
    let adv32 (dr : bool) := if dr && negb (rtx_nbytes (i_dvalid i) =? 0)
                             then u32_adv U (t32 s) (rtx_nbytes (i_dvalid i)) (i_ddata i) else t32 s in
    let go f := mk f (th0 s) (th1 s) (th2 s) (thl s) (tpw s) (tpv s) (tzlp s) (t16 s) (adv32 false) in
    let r := i_ready i in
    match tf s with
    | TIDLE =>
        (if i_gen i
         then mk THP (bits (i_hdr i) 0 32) (bits (i_hdr i) 32 32) (bits (i_hdr i) 64 32) (bits (i_hdr i) 96 32)
                 (tpw s) (tpv s) (tzlp s) (u16_init U) (u32_init U)
         else mk TIDLE (th0 s) (th1 s) (th2 s) (thl s) (tpw s) (tpv s) (tzlp s) (u16_init U) (u32_init U),
         out false 0 0 false false)
    | THP => (go (if r then TDW0 else THP), out true (fst RTX_HPSTART) (snd RTX_HPSTART) false false)
    | TDW0 =>
        (mk (if r then TDW1 else TDW0) (th0 s) (th1 s) (th2 s) (thl s) (tpw s) (tpv s) (tzlp s)
            (if r then u16_adv U (t16 s) (th0 s) else t16 s) (adv32 false), out true (th0 s) 0 false false)
    | TDW1 =>
        (mk (if r then TDW2 else TDW1) (th0 s) (th1 s) (th2 s) (thl s) (tpw s) (tpv s) (tzlp s)
            (if r then u16_adv U (t16 s) (th1 s) else t16 s) (adv32 false), out true (th1 s) 0 false false)
    | TDW2 =>
        (mk (if r then TDW3 else TDW2) (th0 s) (th1 s) (th2 s) (thl s) (tpw s) (tpv s) (tzlp s)
            (if r then u16_adv U (t16 s) (th2 s) else t16 s) (adv32 false), out true (th2 s) 0 false false)
    | TDW3 =>
        let isdata := bits (th0 s) 0 4 =? 8 in
        (mk (if r then (if isdata then TSDP else TIDLE) else TDW3) (th0 s) (th1 s) (th2 s) (thl s) (tpw s) (tpv s)
            (if r && isdata then (i_dvalid i =? 0) else tzlp s) (t16 s) (adv32 false),
         out true (rtx_dw3 (u16_out U (t16 s)) (thl s)) 0 (r && negb isdata) false)
    | TSDP =>
        let delayed := N.odd (bits (thl s) 25 1) in
        let take := r && negb delayed && negb (tzlp s) in
        (if r then
           if delayed then go TABORT
           else if tzlp s then mk TCRC (th0 s) (th1 s) (th2 s) (thl s) (tpw s) 15 (tzlp s) (t16 s) (adv32 false)
           else mk (if i_dlast i then TLAST else TPAY) (th0 s) (th1 s) (th2 s) (thl s) (i_ddata i) (i_dvalid i) (tzlp s)
                   (t16 s) (adv32 true)
         else go TSDP,
         out true (fst RTX_DPPSTART) (snd RTX_DPPSTART) false take)
    | TPAY =>
        (if r then mk (if i_dlast i then TLAST else TPAY) (th0 s) (th1 s) (th2 s) (thl s) (i_ddata i) (i_dvalid i) (tzlp s)
                      (t16 s) (adv32 true)
         else go TPAY, out true (tpw s) 0 false r)
    | TLAST => (go (if r then TCRC else TLAST), out true (rtx_last_word (tpv s) (tpw s) (u32_out U (t32 s))) 0 false false)
    | TCRC => (go (if r then TFIN else TCRC),
               out true (fst (rtx_crc_word (tpv s) (u32_out U (t32 s)))) (snd (rtx_crc_word (tpv s) (u32_out U (t32 s)))) false false)
    | TFIN => (go (if r then TIDLE else TFIN), out true (fst (rtx_fin_word (tpv s))) (snd (rtx_fin_word (tpv s))) r false)
    | TABORT => (go (if r then TIDLE else TABORT), out true (fst RTX_DPPABORT) (snd RTX_DPPABORT) r false)
    end.

  (* packed interface: inputs hdr(128) generate(1) d_data(32) d_valid(4) d_last(1) ready(1);
     outputs valid(1) data(32) ctrl(4) done(1) d_ready(1) *)
  Definition rtx_decode (i : N) : rtx_in :=
    {| i_hdr := bits i 0 128; i_gen := N.odd (bits i 128 1); i_ddata := bits i 129 32; i_dvalid := bits i 161 4;
       i_dlast := N.odd (bits i 165 1); i_ready := N.odd (bits i 166 1) |}.
  Definition rtx_pack (o : rtx_out) : N :=
    pk 2 (b2n (x_valid o)) (pk 4294967296 (x_data o) (pk 16 (x_ctrl o) (pk 2 (b2n (x_done o)) (b2n (x_dready o))))).
  Definition rtx_step (s : rtx_state) (i : N) : rtx_state * N :=
    let (s', o) := rtx_next s (rtx_decode i) in (s', rtx_pack o).
End Tx.

(* ---- wire format: the specification -------------------------------------------------------------------- *)
(* A header as given to the transmitter: dw0 dw1 dw2 and the link-layer fields word lf (only its bits 16..26 =
   sequence number, reserved, hub depth, delayed, deferred matter; the CRC fields are computed).
   A payload as presented on data_sink: beats (word, byte-valid mask).                                        *)
Record rtx_pkt := { p_dw0 : N; p_dw1 : N; p_dw2 : N; p_lf : N; p_beats : list (N * N) }.

Section Wire.
  Variable h16 : list N -> N.
  Variable c32 : list N -> N.

  Definition p_is_data (p : rtx_pkt) : bool := bits (p_dw0 p) 0 4 =? 8.
  Definition p_delayed (p : rtx_pkt) : bool := N.odd (bits (p_lf p) 25 1).
  Definition beat_bytes (b : N * N) : list N := firstn (N.to_nat (rtx_nbytes (snd b))) (drx_bytes4 (fst b)).
  Definition p_payload (p : rtx_pkt) : list N := flat_map beat_bytes (p_beats p).

  Definition wire_header (p : rtx_pkt) : list (N * N) :=
    [RTX_HPSTART; (p_dw0 p, 0); (p_dw1 p, 0); (p_dw2 p, 0);
     (rtx_dw3 (h16 [p_dw0 p; p_dw1 p; p_dw2 p]) (p_lf p), 0)].

  (* symbols (byte, ctrl bit) -> words of four, the last one zero-padded *)
  Definition sym_word (g : list (N * bool)) : N * N := (drx_le (map fst g), bits2N (map snd g)).
  Fixpoint words_of_syms (syms : list (N * bool)) : list (N * N) :=
    match syms with
    | [] => []
    | a :: t1 =>
      match t1 with
      | [] => [sym_word [a]]
      | b :: t2 =>
        match t2 with
        | [] => [sym_word [a; b]]
        | c :: t3 =>
          match t3 with
          | [] => [sym_word [a; b; c]]
          | d :: t4 => sym_word [a; b; c; d] :: words_of_syms t4
          end
        end
      end
    end.

  (* the Data Packet Payload: payload bytes, CRC-32 right after the last byte, END END END EPF, zero padding *)
  Definition wire_dpp (payload : list N) : list (N * N) :=
    RTX_DPPSTART ::
    words_of_syms (map (fun b => (b, false)) (payload ++ drx_bytes4 (c32 payload))
                   ++ [(SYM_END, true); (SYM_END, true); (SYM_END, true); (SYM_EPF, true)]).

  Definition wire (p : rtx_pkt) : list (N * N) :=
    wire_header p ++
    (if p_is_data p then (if p_delayed p then [RTX_DPPSTART; RTX_DPPABORT] else wire_dpp (p_payload p)) else []).

  (* data_sink stream contract: full words, then one last word with 1..4 leading bytes valid (no beats = ZLP) *)
  Fixpoint beats_ok (bs : list (N * N)) : bool :=
    match bs with
    | [] => true
    | [b] => negb (rtx_nbytes (snd b) =? 0) && (fst b <? 4294967296)
    | b :: t => (snd b =? 15) && (fst b <? 4294967296) && beats_ok t
    end.
End Wire.

(* ---- the closed loop: transmitter + a data_sink producer + an arbitrary source.ready pattern -----------------
   The producer presents the head of the remaining beats (valid = its mask, last = it is the final beat) and drops it
   when data_sink.ready is high; generate is pulsed (with the header) in the first cycle only. *)
Definition rtx_hdr_word (p : rtx_pkt) : N :=
  p_dw0 p + 4294967296 * (p_dw1 p + 4294967296 * (p_dw2 p + 4294967296 * p_lf p)).

Definition rtx_env_in (p : rtx_pkt) (gen : bool) (bs : list (N * N)) (ready : bool) : rtx_in :=
  {| i_hdr := rtx_hdr_word p; i_gen := gen;
     i_ddata := match bs with b :: _ => fst b | [] => 0 end;
     i_dvalid := match bs with b :: _ => snd b | [] => 0 end;
     i_dlast := match bs with [_] => true | _ => false end;
     i_ready := ready |}.

Fixpoint rtx_loop (U : crc_units) (p : rtx_pkt) (s : rtx_state) (bs : list (N * N)) (gen : bool) (rdys : list bool)
  : list rtx_out :=
  match rdys with
  | [] => []
  | r :: t =>
      let (s', o) := rtx_next U s (rtx_env_in p gen bs r) in
      o :: rtx_loop U p s' (if x_dready o then tl bs else bs) false t
  end.

(* what is observed per cycle: source.valid, the word (data, ctrl), done *)
Definition rtx_obs := (bool * (N * N) * bool)%type.
Definition rtx_obs_of (o : rtx_out) : rtx_obs := (x_valid o, (x_data o, x_ctrl o), x_done o).
Definition rtx_idle_obs : rtx_obs := (false, (0, 0), false).

(* the specification of the source side: the words `ws` are presented one after the other, each held until
   source.ready; `done` accompanies the acceptance of the last word; afterwards the unit is idle *)
Fixpoint wire_run (ws : list (N * N)) (rdys : list bool) : list rtx_obs :=
  match rdys with
  | [] => []
  | r :: t =>
      match ws with
      | [] => rtx_idle_obs :: wire_run [] t
      | w :: ws' => (true, w, r && match ws' with [] => true | _ => false end) :: wire_run (if r then ws' else ws) t
      end
  end.

(* remaining data_sink beats at the end of a closed-loop run *)
Fixpoint rtx_loop_rest (U : crc_units) (p : rtx_pkt) (s : rtx_state) (bs : list (N * N)) (gen : bool) (rdys : list bool)
  : list (N * N) :=
  match rdys with
  | [] => bs
  | r :: t =>
      let (s', o) := rtx_next U s (rtx_env_in p gen bs r) in
      rtx_loop_rest U p s' (if x_dready o then tl bs else bs) false t
  end.

(* observations on an output history *)
Definition rtx_accepted (rdys : list bool) (outs : list rtx_out) : list (N * N) :=
  flat_map (fun ro => if fst ro && x_valid (snd ro) then [(x_data (snd ro), x_ctrl (snd ro))] else []) (combine rdys outs).
Definition rtx_count (f : rtx_out -> bool) (outs : list rtx_out) : nat := length (filter f outs).

(* ---- RawHeaderPacketReceiver ------------------------------------------------------------------------------ *)
Inductive rhr_fsm := RWAIT | RDW0 | RDW1 | RDW2 | RDW3 | RCHK.
Record rhr_state := { rf : rhr_fsm; rp0 : N; rp1 : N; rp2 : N; rp3 : N; rx5 : N; r16 : N;
                      rnew : bool; rout : N (* packet output, 128 bits *) }.
Record rhr_out := { y_new : bool; y_bad : bool; y_badseq : bool; y_packet : N }.

Section HdrRx.
  Variable U : crc_units.
  Definition rhr_init : rhr_state :=
    {| rf := RWAIT; rp0 := 0; rp1 := 0; rp2 := 0; rp3 := 0; rx5 := 0; r16 := u16_init U; rnew := false; rout := 0 |}.

  (* inputs: valid, data, ctrl, expected_sequence *)
  Definition rhr_next (s : rhr_state) (v : bool) (data ctrl eseq : N) : rhr_state * rhr_out :=
    let mk f a b c d x k n o := {| rf := f; rp0 := a; rp1 := b; rp2 := c; rp3 := d; rx5 := x; r16 := k; rnew := n; rout := o |} in
    let quiet := {| y_new := rnew s; y_bad := false; y_badseq := false; y_packet := rout s |} in
    match rf s with
    | RWAIT => (mk (if v && (data =? fst RTX_HPSTART) && (ctrl =? 15) then RDW0 else RWAIT)
                   (rp0 s) (rp1 s) (rp2 s) (rp3 s) (rx5 s) (u16_init U) false (rout s), quiet)
    | RDW0 => (if v then mk RDW1 data (rp1 s) (rp2 s) (rp3 s) (rx5 s) (u16_adv U (r16 s) data) false (rout s)
               else mk RDW0 (rp0 s) (rp1 s) (rp2 s) (rp3 s) (rx5 s) (r16 s) false (rout s), quiet)
    | RDW1 => (if v then mk RDW2 (rp0 s) data (rp2 s) (rp3 s) (rx5 s) (u16_adv U (r16 s) data) false (rout s)
               else mk RDW1 (rp0 s) (rp1 s) (rp2 s) (rp3 s) (rx5 s) (r16 s) false (rout s), quiet)
    | RDW2 => (if v then mk RDW3 (rp0 s) (rp1 s) data (rp3 s) (rx5 s) (u16_adv U (r16 s) data) false (rout s)
               else mk RDW2 (rp0 s) (rp1 s) (rp2 s) (rp3 s) (rx5 s) (r16 s) false (rout s), quiet)
    | RDW3 => (if v then mk RCHK (rp0 s) (rp1 s) (rp2 s) data (crc5_usb (bits data 16 11)) (r16 s) false (rout s)
               else mk RDW3 (rp0 s) (rp1 s) (rp2 s) (rp3 s) (rx5 s) (r16 s) false (rout s), quiet)
    | RCHK =>
        let bad := negb (rx5 s =? bits (rp3 s) 27 5) || negb (u16_out U (r16 s) =? bits (rp3 s) 0 16) in
        let badseq := negb bad && negb (bits (rp3 s) 16 3 =? eseq) in
        let ok := negb bad && negb badseq in
        (mk RWAIT (rp0 s) (rp1 s) (rp2 s) (rp3 s) (rx5 s) (r16 s) ok
            (if ok then rp0 s + 4294967296 * (rp1 s + 4294967296 * (rp2 s + 4294967296 * rp3 s)) else rout s),
         {| y_new := rnew s; y_bad := bad; y_badseq := badseq; y_packet := rout s |})
    end.

  (* packed: inputs data(32) ctrl(4) valid(1) expected_sequence(3); outputs new_packet bad_packet bad_sequence packet(128) *)
  Definition rhr_pack (o : rhr_out) : N :=
    pk 2 (b2n (y_new o)) (pk 2 (b2n (y_bad o)) (pk 2 (b2n (y_badseq o)) (y_packet o))).
  Definition rhr_step (s : rhr_state) (i : N) : rhr_state * N :=
    let (s', o) := rhr_next s (N.odd (bits i 36 1)) (bits i 0 32) (bits i 32 4) (bits i 37 3) in (s', rhr_pack o).

  (* run over (valid, data, ctrl) words with a fixed expected sequence number *)
  Fixpoint rhr_run (s : rhr_state) (eseq : N) (ws : list (bool * (N * N))) : list rhr_out :=
    match ws with
    | [] => []
    | (v, (d, c)) :: t => let (s', o) := rhr_next s v d c eseq in o :: rhr_run s' eseq t
    end.
  Fixpoint rhr_state_after (s : rhr_state) (eseq : N) (ws : list (bool * (N * N))) : rhr_state :=
    match ws with
    | [] => s
    | (v, (d, c)) :: t => rhr_state_after (fst (rhr_next s v d c eseq)) eseq t
    end.
End HdrRx.

(* ---- state packing for the lock-step obligations ------------------------------------------------------------- *)
Definition rtx_fsm_code (f : rtx_fsm) : N :=
  match f with TIDLE => 0 | THP => 1 | TDW0 => 2 | TDW1 => 3 | TDW2 => 4 | TDW3 => 5 | TSDP => 6 | TPAY => 7
             | TLAST => 8 | TCRC => 9 | TFIN => 10 | TABORT => 11 end.
Definition rtx_fsm_of (n : N) : rtx_fsm :=
  match n with 0 => TIDLE | 1 => THP | 2 => TDW0 | 3 => TDW1 | 4 => TDW2 | 5 => TDW3 | 6 => TSDP | 7 => TPAY
             | 8 => TLAST | 9 => TCRC | 10 => TFIN | _ => TABORT end.
Definition rtx_enc (s : rtx_state) : N :=
  pk 16 (rtx_fsm_code (tf s)) (pk W32 (th0 s) (pk W32 (th1 s) (pk W32 (th2 s) (pk W32 (thl s) (pk W32 (tpw s)
  (pk 16 (tpv s) (pk 2 (b2n (tzlp s)) (pk W32 (t16 s) (t32 s))))))))).
Definition rtx_dec (n : N) : rtx_state :=
  let n1 := N.shiftr n 4 in let n2 := N.shiftr n1 32 in let n3 := N.shiftr n2 32 in let n4 := N.shiftr n3 32 in
  let n5 := N.shiftr n4 32 in let n6 := N.shiftr n5 32 in let n7 := N.shiftr n6 4 in let n8 := N.shiftr n7 1 in
  let n9 := N.shiftr n8 32 in
  {| tf := rtx_fsm_of (N.land n 15); th0 := N.land n1 4294967295; th1 := N.land n2 4294967295;
     th2 := N.land n3 4294967295; thl := N.land n4 4294967295; tpw := N.land n5 4294967295; tpv := N.land n6 15;
     tzlp := N.odd n7; t16 := N.land n8 4294967295; t32 := n9 |}.
Definition rtx_wf (s : rtx_state) : Prop :=
  th0 s < W32 /\ th1 s < W32 /\ th2 s < W32 /\ thl s < W32 /\ tpw s < W32 /\ tpv s < 16 /\ t16 s < W32.

Definition rhr_fsm_code (f : rhr_fsm) : N :=
  match f with RWAIT => 0 | RDW0 => 1 | RDW1 => 2 | RDW2 => 3 | RDW3 => 4 | RCHK => 5 end.
Definition rhr_fsm_of (n : N) : rhr_fsm :=
  match n with 0 => RWAIT | 1 => RDW0 | 2 => RDW1 | 3 => RDW2 | 4 => RDW3 | _ => RCHK end.
Definition rhr_enc (s : rhr_state) : N :=
  pk 8 (rhr_fsm_code (rf s)) (pk W32 (rp0 s) (pk W32 (rp1 s) (pk W32 (rp2 s) (pk W32 (rp3 s) (pk 32 (rx5 s)
  (pk W32 (r16 s) (pk 2 (b2n (rnew s)) (rout s)))))))).
Definition rhr_dec (n : N) : rhr_state :=
  let n1 := N.shiftr n 3 in let n2 := N.shiftr n1 32 in let n3 := N.shiftr n2 32 in let n4 := N.shiftr n3 32 in
  let n5 := N.shiftr n4 32 in let n6 := N.shiftr n5 5 in let n7 := N.shiftr n6 32 in let n8 := N.shiftr n7 1 in
  {| rf := rhr_fsm_of (N.land n 7); rp0 := N.land n1 4294967295; rp1 := N.land n2 4294967295;
     rp2 := N.land n3 4294967295; rp3 := N.land n4 4294967295; rx5 := N.land n5 31; r16 := N.land n6 4294967295;
     rnew := N.odd n7; rout := n8 |}.
Definition rhr_wf (s : rhr_state) : Prop :=
  rp0 s < W32 /\ rp1 s < W32 /\ rp2 s < W32 /\ rp3 s < W32 /\ rx5 s < 32 /\ r16 s < W32.

(* state-dependent alphabets for the transmitter's lock-step obligation: IDLE / header states / START_DPP + payload / tail *)
Definition rtx_alpha (aidle ahdr adw3 apay atail : list N) (s : rtx_state) : list N :=
  match tf s with
  | TIDLE => aidle
  | THP | TDW0 | TDW1 | TDW2 => ahdr
  | TDW3 => adw3
  | TSDP | TPAY => apay
  | TLAST | TCRC | TFIN | TABORT => atail
  end.
Definition rhr_alpha (aw a0 a1 a2 a3 ac : list N) (s : rhr_state) : list N :=
  match rf s with RWAIT => aw | RDW0 => a0 | RDW1 => a1 | RDW2 => a2 | RDW3 => a3 | RCHK => ac end.

(* ---- the wire specification as a runtime oracle on (input, output) traces of the transmitter -----------------
   Monitor state: 0 while idle; otherwise the history (sentinel 1) of the packed (input | output << 167) words of the
   current transaction, starting with the generate cycle.  Each cycle it recomputes from that history
     - the header (inputs of the generate cycle) and the beats the unit has accepted (cycles with data_sink.ready),
     - k = number of words accepted on `source` so far,
   and demands: valid = 1, (data, ctrl) = word k of `wire` for that header and those beats, and done = ready & "this is
   the last word" (known once the packet is complete: no payload expected, or the beat marked last was accepted).
   The monitor gives up (environment assumption broken) when an accepted beat violates the stream contract. *)
Definition RTX_B : N := 2 ^ 206.
Fixpoint rtx_hist_dec (fuel : nat) (m : N) (acc : list N) : list N :=
  match fuel with
  | O => acc
  | S f => if m <=? 1 then acc else rtx_hist_dec f (N.shiftr m 206) (N.land m (N.ones 206) :: acc)
  end.
Definition rtx_hist (m : N) : list N := rtx_hist_dec (N.to_nat (N.size m)) m [].

Definition rtx_io_in (w : N) : rtx_in := rtx_decode w.
Definition rtx_io_valid (w : N) : bool := N.odd (bits w 167 1).
Definition rtx_io_word (w : N) : N * N := (bits w 168 32, bits w 200 4).
Definition rtx_io_done (w : N) : bool := N.odd (bits w 204 1).
Definition rtx_io_dready (w : N) : bool := N.odd (bits w 205 1).

Fixpoint rtx_beats_contract (bs : list (N * N * bool)) : bool :=     (* (data, mask, last) of the accepted beats *)
  match bs with
  | [] => true
  | (_, v, l) :: t =>
      if l then negb (rtx_nbytes v =? 0) && match t with [] => true | _ => false end
      else (v =? 15) && rtx_beats_contract t
  end.

Definition rtx_spec_mon (h16 c32 : list N -> N) (m i o : N) : option (N * bool) :=
  let w := i + N.shiftl o 167 in
  match m with
  | 0 =>
      let quiet := negb (rtx_io_valid w) && negb (rtx_io_done w) && negb (rtx_io_dready w) in
      Some (if i_gen (rtx_io_in w) then RTX_B + w else 0, quiet)
  | _ =>
      let hs := rtx_hist m in                       (* generate cycle first *)
      let cyc := tl hs ++ [w] in                    (* the cycles after it, including this one *)
      let g := rtx_io_in (hd 0 hs) in
      let acc := filter rtx_io_dready cyc in
      let beats3 := map (fun c => (i_ddata (rtx_io_in c), i_dvalid (rtx_io_in c), i_dlast (rtx_io_in c))) acc in
      if negb (rtx_beats_contract beats3) then None
      else
        let p := {| p_dw0 := bits (i_hdr g) 0 32; p_dw1 := bits (i_hdr g) 32 32; p_dw2 := bits (i_hdr g) 64 32;
                    p_lf := bits (i_hdr g) 96 32; p_beats := map (fun b => (fst (fst b), snd (fst b))) beats3 |} in
        let ws := wire h16 c32 p in
        let took := filter (fun c => rtx_io_valid c && i_ready (rtx_io_in c)) (tl hs) in
        let k := length took in
        (* the cycle in which the fourth header word was accepted decides "zero-length packet" *)
        let zlp := match nth_error (filter (fun c => rtx_io_valid c && i_ready (rtx_io_in c)) cyc) 4 with
                   | Some c => i_dvalid (rtx_io_in c) =? 0
                   | None => false
                   end in
        let complete := negb (p_is_data p) || p_delayed p || zlp || existsb (fun b => snd b) beats3 in
        let last_word := complete && Nat.eqb (S k) (length ws) in
        let r := i_ready (rtx_io_in w) in
        let ok := rtx_io_valid w &&
                  (let e := nth k ws (0, 0) in (fst (rtx_io_word w) =? fst e) && (snd (rtx_io_word w) =? snd e)) &&
                  Bool.eqb (rtx_io_done w) (r && last_word) in
        Some (if r && last_word then 0 else m * RTX_B + w, ok)
  end.

(* ---- transmitter -> DataPacketReceiver, as wired for the round-trip targets: the receiver watches the words the
   transmitter's consumer accepts (sink.valid = source.valid & source.ready).  Packed outputs: the transmitter's
   (39 bits), then the receiver's (s_data s_valid s_first s_last good bad header). *)
Definition rt_step (U : crc_units) (lw : N) (s : rtx_state * drx_state) (i : N) : (rtx_state * drx_state) * N :=
  let x := rtx_decode i in
  let (s1, o1) := rtx_next U (fst s) x in
  let (s2, o2) := drx_next U lw true (snd s) (x_valid o1 && i_ready x) (x_data o1) (x_ctrl o1) in
  ((s1, s2), rtx_pack o1 + N.shiftl (drx_pack true o2) 39).
