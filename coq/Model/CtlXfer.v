(* C07 / C10 -- interface-event-level hand model of the USB2 control endpoint of LUNA:
     luna/gateware/usb/usb2/control.py   USBControlEndpoint (stage FSM, _handle_setup_reset, PING answers)
     luna/gateware/usb/request/standard.py StandardRequestHandler (request FSM, per-request registers)
     luna/gateware/usb/request/control.py  handle_register_write_request / handle_simple_data_request
     luna/gateware/usb/usb2/request.py     USBRequestHandlerMultiplexer (one handler + fallback) and
                                           StallOnlyRequestHandler (the fallback)
   exactly as USBControlEndpoint.elaborate wires them together.  "Interface-event level": the inputs of the
   machine are the signals that cross LUNA's own interfaces -- the token detector's report
   (EndpointInterface.tokenizer), the SETUP decoder's report (SetupPacket record + its ACK request), the data
   receiver's rx_ready_for_response, the handshake detector's ack, and the output side of the two data sources the
   request handler owns (GET_DESCRIPTOR handler: stall / tx stream; StreamSerializer of the two small constant
   answers: tx stream).  The producers of these signals are the subjects of C01, C02/C04, C06 and C09.

   The model is the PROPERTY-SATISFYING behaviour.  It differs from the code as found in three places
   (candidate patch findings/C07-fresh-setup.diff; replays findings/C07-*.json, findings/C10-*.json):
     (a) StandardRequestHandler re-dispatches on setup.received in EVERY state and resets start_position,
         tx_data_pid and expecting_ack there (as found: only in IDLE, so an abandoned transfer leaves the handler in
         the old request's state and the next SETUP is answered by the old request's logic);
     (b) _handle_setup_reset is gated by endpoint_targeted (as found: a SETUP token for another endpoint resets
         the stage FSM);
     (c) CLEAR_FEATURE with recipient <> ENDPOINT or feature <> ENDPOINT_HALT is dispatched to UNHANDLED
         (as found: STALLed in the status stage but the state is kept and the next ACK pulses clear_endpoint_halt).
   A fourth place is a parameter (`gate`, see below): handle_register_write_request as found, or with the candidate
   repair of C08.

   Parameters: EP endpoint number, mps max_packet_size, spw width of the descriptor handler's start_position,
   skip the handler's skiplist as a predicate on the input word, gate (C08 repair present).

   Packed input word (first port = least significant):
     bit 0 tokenizer.new_token   1 ready_for_response   2 is_in   3 is_out   4 is_setup   5 is_ping   6..9 endpoint
     10 setup.received   11 is_in_request   12..13 type   14..18 recipient   19..26 request   27..42 value
     43..58 index   59..74 length   75 setup decoder's ack   76 rx_ready_for_response   77 handshakes_in.ack
     78 descriptor handler stall   79..81 its tx valid/first/last   82..84 serializer tx valid/first/last
   Packed output word: see cx_pack. *)
From Coq Require Import NArith List Bool.
Import ListNotations.
From LunaLib Require Import Netlist PackN.
Open Scope N_scope.

(* ---------------------------------------------------------------------------------------------- *)
(* inputs *)
Definition i_new (i : N) : bool := N.testbit i 0.
Definition i_rfr (i : N) : bool := N.testbit i 1.
Definition i_in (i : N) : bool := N.testbit i 2.
Definition i_out (i : N) : bool := N.testbit i 3.
Definition i_setup (i : N) : bool := N.testbit i 4.
Definition i_ping (i : N) : bool := N.testbit i 5.
Definition i_ep (i : N) : N := bits i 6 4.
Definition i_rcv (i : N) : bool := N.testbit i 10.
Definition i_dirin (i : N) : bool := N.testbit i 11.
Definition i_type (i : N) : N := bits i 12 2.
Definition i_rcpt (i : N) : N := bits i 14 5.
Definition i_req (i : N) : N := bits i 19 8.
Definition i_value (i : N) : N := bits i 27 16.
Definition i_index (i : N) : N := bits i 43 16.
Definition i_len (i : N) : N := bits i 59 16.
Definition i_sack (i : N) : bool := N.testbit i 75.
Definition i_rxrfr (i : N) : bool := N.testbit i 76.
Definition i_ack (i : N) : bool := N.testbit i 77.
Definition i_dstall (i : N) : bool := N.testbit i 78.
Definition i_dv (i : N) : bool := N.testbit i 79.
Definition i_df (i : N) : bool := N.testbit i 80.
Definition i_dl (i : N) : bool := N.testbit i 81.
Definition i_sv (i : N) : bool := N.testbit i 82.
Definition i_sf (i : N) : bool := N.testbit i 83.
Definition i_sl (i : N) : bool := N.testbit i 84.

(* the eight setup bytes (bits 11..74 of the input word) *)
Definition i_fields (i : N) : N := bits i 11 64.
Definition i_std (i : N) : bool := i_type i =? 0.                    (* USBRequestType.STANDARD *)
Definition i_haslen (i : N) : bool := negb (i_len i =? 0).
(* CLEAR_FEATURE's stall_condition: not (recipient = ENDPOINT and feature selector = ENDPOINT_HALT) *)
Definition cf_unsupp (i : N) : bool := negb (i_rcpt i =? 2) || negb (i_value i =? 0).

(* ---------------------------------------------------------------------------------------------- *)
(* state *)
Inductive cstage := CSetup | CDataIn | CDataOut | CStatusIn | CStatusOut.
Inductive hstate := HIdle | HGetStatus | HClearFeature | HSetAddress | HSetConfig | HGetDescriptor
                  | HGetConfig | HUnhandled.
Record cx_state := { x_ctl : cstage; x_h : hstate; x_pid : bool (* tx_data_pid *);
                     x_ea : bool (* expecting_ack *); x_sp : N (* start_position *);
                     x_wa : bool; x_wc : bool (* the expecting_ack registers of the SET_ADDRESS / SET_CONFIGURATION
                                                 states; only with the C08 repair, see `gate` *) }.
Definition cx_init : cx_state :=
  {| x_ctl := CSetup; x_h := HIdle; x_pid := true; x_ea := false; x_sp := 0; x_wa := false; x_wc := false |}.

(* outputs *)
Record cx_out := {
  o_dr : bool;      (* request handler's data_requested *)
  o_sr : bool;      (* status_requested *)
  o_ack : bool; o_nak : bool; o_stall : bool;        (* EndpointInterface.handshakes_out *)
  o_txv : bool; o_txf : bool; o_txl : bool;          (* EndpointInterface.tx valid / first / last *)
  o_pid : N;        (* tx_pid_toggle (2 bits) *)
  o_ac : bool; o_na : N;                             (* address_changed, new_address (7) *)
  o_cc : bool; o_nc : N;                             (* config_changed, new_config (8) *)
  o_halt : N;       (* clear_endpoint_halt_out: enable + 2 * direction + 4 * number *)
  o_ds : bool;      (* descriptor handler's start *)
  o_ss : bool;      (* serializer's start *)
  o_sp : N }.       (* descriptor handler's start_position *)

(* what one request handler drives towards the multiplexer *)
Record h_out := { h_ack : bool; h_stall : bool; h_txv : bool; h_txf : bool; h_txl : bool; h_pid : bool;
                  h_ac : bool; h_na : N; h_cc : bool; h_nc : N; h_halt : N }.
Definition h_quiet (pid : bool) : h_out :=
  {| h_ack := false; h_stall := false; h_txv := false; h_txf := false; h_txl := false; h_pid := pid;
     h_ac := false; h_na := 0; h_cc := false; h_nc := 0; h_halt := 0 |}.

Section CtlXfer.
  Variables EP mps spw : N.
  Variable skip : N -> bool.
  (* gate = false: handle_register_write_request as found -- ANY host ACK commits a pending SET_ADDRESS /
     SET_CONFIGURATION (C08's finding; C07 / C10 do not depend on it).  gate = true: with the candidate repair of
     C08 (findings/C08-ack-any-endpoint.diff) -- a per-state flag is set with the status ZLP, cleared by any new
     token or SETUP packet, and only an ACK arriving while it is set (and not together with a SETUP packet) commits.
     All theorems hold for both values; the check ties the netlist to the variant the tree implements. *)
  Variable gate : bool.

  Definition i_tgt (i : N) : bool := i_ep i =? EP.                   (* endpoint_targeted *)

  (* --- USBControlEndpoint: the stage FSM ------------------------------------------------------ *)
  Definition setup_reset (i : N) : bool := i_new i && i_setup i && i_tgt i.          (* (b): gated *)

  Definition ctl_dr (c : cstage) (i : N) : bool :=
    match c with CDataIn => i_rfr i && i_tgt i && i_in i | _ => false end.
  Definition ctl_sr (c : cstage) (i : N) : bool :=
    match c with
    | CStatusIn => i_rfr i && i_tgt i && i_in i
    | CStatusOut => i_rxrfr i && i_tgt i && i_out i
    | _ => false
    end.
  (* PING answered with ACK in the OUT data stage and the OUT status stage [USB2.0: 8.5.1] *)
  Definition ctl_ping (c : cstage) (i : N) : bool :=
    match c with CDataOut | CStatusOut => i_tgt i && i_rfr i && i_ping i | _ => false end.

  Definition ctl_next (c : cstage) (i : N) : cstage :=
    match c with
    | CSetup =>
        if i_rcv i && i_tgt i
        then (if i_haslen i then (if i_dirin i then CDataIn else CDataOut) else CStatusIn)
        else CSetup
    | CDataIn =>
        if i_tgt i && i_new i && (i_out i || i_ping i) then CStatusOut
        else if setup_reset i then CSetup else CDataIn
    | CDataOut =>
        if i_tgt i && i_new i && i_in i then CStatusIn
        else if setup_reset i then CSetup else CDataOut
    | CStatusIn => if setup_reset i then CSetup else CStatusIn
    | CStatusOut => if setup_reset i then CSetup else CStatusOut
    end.

  (* --- StandardRequestHandler (inside `with m.If(setup.type == STANDARD)`) ---------------------- *)
  Definition dispatch (i : N) : hstate :=
    let r := i_req i in
    if r =? 0 then HGetStatus
    else if r =? 1 then (if cf_unsupp i then HUnhandled else HClearFeature)              (* (c) *)
    else if r =? 5 then HSetAddress
    else if r =? 9 then HSetConfig
    else if r =? 6 then HGetDescriptor
    else if r =? 8 then HGetConfig
    else HUnhandled.

  (* the state's own transition, before the new-SETUP rule *)
  (* cm = the pending register write is committed in this cycle *)
  Definition h_own_next (h : hstate) (i : N) (dr sr cm : bool) : hstate :=
    match h with
    | HIdle => HIdle
    | HGetStatus | HGetConfig => if sr then HIdle else h
    | HClearFeature => if i_ack i then HIdle else h
    | HSetAddress | HSetConfig => if cm then HIdle else h
    | HGetDescriptor => if sr || i_dstall i then HIdle else h
    | HUnhandled => if dr || sr then HIdle else h
    end.

  (* (a): setup.received re-dispatches from every state *)
  Definition h_next (h : hstate) (i : N) (dr sr cm : bool) : hstate :=
    if i_rcv i then (if skip i then HIdle else dispatch i) else h_own_next h i dr sr cm.
  (* the flag of the SET_ADDRESS (resp. SET_CONFIGURATION) state; `here` = the handler is in that state *)
  Definition w_next (here w : bool) (i : N) (sr cm : bool) : bool :=
    if gate && here
    then (if i_rcv i then false else if cm then false else if sr then true else if i_new i then false else w)
    else w.
  Definition commit (h : hstate) (wa wc : bool) (i : N) : bool :=
    let w := match h with HSetAddress => wa | HSetConfig => wc | _ => false end in
    i_ack i && (negb gate || (w && negb (i_rcv i))).

  Definition h_pid_next (h : hstate) (pid ea : bool) (i : N) : bool :=
    if i_rcv i then true else
    match h with
    | HIdle => true
    | HGetDescriptor => if i_ack i && ea then negb pid else pid
    | _ => pid
    end.
  Definition h_ea_next (h : hstate) (ea : bool) (i : N) (dr : bool) : bool :=
    if i_rcv i then false else
    match h with
    | HGetDescriptor => if i_dstall i then false else if i_ack i && ea then false else if dr then true else ea
    | _ => ea
    end.
  Definition h_sp_next (h : hstate) (ea : bool) (sp : N) (i : N) : N :=
    if i_rcv i then 0 else
    match h with
    | HIdle => 0
    | HGetDescriptor => if i_ack i && ea then (sp + mps) mod 2 ^ spw else sp
    | _ => sp
    end.

  Definition h_outputs (h : hstate) (pid : bool) (i : N) (dr sr cm : bool) : h_out :=
    let q := h_quiet pid in
    match h with
    | HIdle => q
    | HGetStatus | HGetConfig =>
        {| h_ack := sr; h_stall := false; h_txv := i_sv i; h_txf := i_sf i; h_txl := i_sl i; h_pid := pid;
           h_ac := false; h_na := 0; h_cc := false; h_nc := 0; h_halt := 0 |}
    | HClearFeature =>
        {| h_ack := false; h_stall := sr && cf_unsupp i; h_txv := sr && negb (cf_unsupp i); h_txf := false;
           h_txl := sr && negb (cf_unsupp i); h_pid := pid; h_ac := false; h_na := 0; h_cc := false; h_nc := 0;
           h_halt := if i_ack i then 1 + 2 * bits (i_index i) 7 1 + 4 * bits (i_index i) 0 4 else 0 |}
    | HSetAddress =>
        {| h_ack := false; h_stall := false; h_txv := sr; h_txf := false; h_txl := sr; h_pid := pid;
           h_ac := cm; h_na := if cm then bits (i_value i) 0 7 else 0; h_cc := false; h_nc := 0;
           h_halt := 0 |}
    | HSetConfig =>
        {| h_ack := false; h_stall := false; h_txv := sr; h_txf := false; h_txl := sr; h_pid := pid;
           h_ac := false; h_na := 0; h_cc := cm; h_nc := if cm then bits (i_value i) 0 8 else 0;
           h_halt := 0 |}
    | HGetDescriptor =>
        {| h_ack := sr; h_stall := i_dstall i; h_txv := i_dv i; h_txf := i_df i; h_txl := i_dl i; h_pid := pid;
           h_ac := false; h_na := 0; h_cc := false; h_nc := 0; h_halt := 0 |}
    | HUnhandled =>
        {| h_ack := false; h_stall := dr || sr; h_txv := false; h_txf := false; h_txl := false; h_pid := pid;
           h_ac := false; h_na := 0; h_cc := false; h_nc := 0; h_halt := 0 |}
    end.
  Definition h_dstart (h : hstate) (dr : bool) : bool := match h with HGetDescriptor => dr | _ => false end.
  Definition h_sstart (h : hstate) (dr : bool) : bool :=
    match h with HGetStatus | HGetConfig => dr | _ => false end.

  (* StallOnlyRequestHandler, the multiplexer's fallback *)
  Definition fb_outputs (dr sr : bool) : h_out :=
    {| h_ack := false; h_stall := dr || sr; h_txv := false; h_txf := false; h_txl := false; h_pid := true;
       h_ac := false; h_na := 0; h_cc := false; h_nc := 0; h_halt := 0 |}.

  (* interface.claim *)
  Definition claimed (i : N) : bool := i_std i && negb (skip i).

  (* --- one clock cycle of the whole control endpoint -------------------------------------------- *)
  Definition cx_step (s : cx_state) (i : N) : cx_state * cx_out :=
    let dr := ctl_dr (x_ctl s) i in
    let sr := ctl_sr (x_ctl s) i in
    let std := i_std i in
    let cm := commit (x_h s) (x_wa s) (x_wc s) i in
    let ho := if claimed i then h_outputs (x_h s) (x_pid s) i dr sr cm else fb_outputs dr sr in
    ({| x_ctl := ctl_next (x_ctl s) i;
        x_h := if std then h_next (x_h s) i dr sr cm else x_h s;
        x_pid := if std then h_pid_next (x_h s) (x_pid s) (x_ea s) i else x_pid s;
        x_ea := if std then h_ea_next (x_h s) (x_ea s) i dr else x_ea s;
        x_sp := if std then h_sp_next (x_h s) (x_ea s) (x_sp s) i else x_sp s;
        x_wa := if std then w_next (match x_h s with HSetAddress => true | _ => false end) (x_wa s) i sr cm else x_wa s;
        x_wc := if std then w_next (match x_h s with HSetConfig => true | _ => false end) (x_wc s) i sr cm else x_wc s |},
     {| o_dr := dr; o_sr := sr;
        o_ack := i_sack i || h_ack ho || ctl_ping (x_ctl s) i;
        o_nak := false;
        o_stall := h_stall ho;
        o_txv := h_txv ho; o_txf := h_txf ho; o_txl := h_txl ho;
        o_pid := b2n (h_pid ho);
        o_ac := h_ac ho; o_na := h_na ho; o_cc := h_cc ho; o_nc := h_nc ho; o_halt := h_halt ho;
        o_ds := std && h_dstart (x_h s) dr;
        o_ss := std && h_sstart (x_h s) dr;
        o_sp := x_sp s |}).
End CtlXfer.

(* generic run with structured outputs *)
Section XRun.
  Context {S O : Type}.
  Variable step : S -> N -> S * O.
  Fixpoint xrun (st : S) (ins : list N) : list O :=
    match ins with
    | [] => []
    | i :: t => let (s', o) := step st i in o :: xrun s' t
    end.
  Fixpoint xstate (st : S) (ins : list N) : S :=
    match ins with
    | [] => st
    | i :: t => xstate (fst (step st i)) t
    end.
End XRun.

(* ---------------------------------------------------------------------------------------------- *)
(* packing, for the lock-step obligations against the regenerated netlist *)
Definition cx_pack (o : cx_out) : N :=
  pk 2 (b2n (o_dr o)) (pk 2 (b2n (o_sr o)) (pk 2 (b2n (o_ack o)) (pk 2 (b2n (o_nak o)) (pk 2 (b2n (o_stall o))
  (pk 2 (b2n (o_txv o)) (pk 2 (b2n (o_txf o)) (pk 2 (b2n (o_txl o)) (pk 4 (o_pid o)
  (pk 2 (b2n (o_ac o)) (pk 128 (o_na o) (pk 2 (b2n (o_cc o)) (pk 256 (o_nc o) (pk 64 (o_halt o)
  (pk 2 (b2n (o_ds o)) (pk 2 (b2n (o_ss o)) (o_sp o)))))))))))))))).

Definition nb (x : N) : bool := negb (x =? 0).
Definition cx_unpack (w : N) : cx_out :=
  let d0 := w in let d1 := d0 / 2 in let d2 := d1 / 2 in let d3 := d2 / 2 in let d4 := d3 / 2 in
  let d5 := d4 / 2 in let d6 := d5 / 2 in let d7 := d6 / 2 in let d8 := d7 / 2 in let d9 := d8 / 4 in
  let d10 := d9 / 2 in let d11 := d10 / 128 in let d12 := d11 / 2 in let d13 := d12 / 256 in
  let d14 := d13 / 64 in let d15 := d14 / 2 in let d16 := d15 / 2 in
  {| o_dr := nb (d0 mod 2); o_sr := nb (d1 mod 2); o_ack := nb (d2 mod 2); o_nak := nb (d3 mod 2);
     o_stall := nb (d4 mod 2); o_txv := nb (d5 mod 2); o_txf := nb (d6 mod 2); o_txl := nb (d7 mod 2);
     o_pid := d8 mod 4; o_ac := nb (d9 mod 2); o_na := d10 mod 128; o_cc := nb (d11 mod 2);
     o_nc := d12 mod 256; o_halt := d13 mod 64; o_ds := nb (d14 mod 2); o_ss := nb (d15 mod 2); o_sp := d16 |}.

Definition cx_stepN (EP mps spw : N) (skip : N -> bool) (gate : bool) (s : cx_state) (i : N) : cx_state * N :=
  let (s', o) := cx_step EP mps spw skip gate s i in (s', cx_pack o).

Definition cs_code (c : cstage) : N :=
  match c with CSetup => 0 | CDataIn => 1 | CDataOut => 2 | CStatusIn => 3 | CStatusOut => 4 end.
Definition cs_of (n : N) : cstage :=
  match n with 0 => CSetup | 1 => CDataIn | 2 => CDataOut | 3 => CStatusIn | _ => CStatusOut end.
Definition hs_code (h : hstate) : N :=
  match h with HIdle => 0 | HGetStatus => 1 | HClearFeature => 2 | HSetAddress => 3 | HSetConfig => 4
             | HGetDescriptor => 5 | HGetConfig => 6 | HUnhandled => 7 end.
Definition hs_of (n : N) : hstate :=
  match n with 0 => HIdle | 1 => HGetStatus | 2 => HClearFeature | 3 => HSetAddress | 4 => HSetConfig
             | 5 => HGetDescriptor | 6 => HGetConfig | _ => HUnhandled end.
Definition cx_enc (s : cx_state) : N :=
  pk 8 (cs_code (x_ctl s)) (pk 8 (hs_code (x_h s)) (pk 2 (b2n (x_pid s)) (pk 2 (b2n (x_ea s))
     (pk 2 (b2n (x_wa s)) (pk 2 (b2n (x_wc s)) (x_sp s)))))).
Definition cx_dec (n : N) : cx_state :=
  {| x_ctl := cs_of (n mod 8); x_h := hs_of ((n / 8) mod 8); x_pid := nb ((n / 8 / 8) mod 2);
     x_ea := nb ((n / 8 / 8 / 2) mod 2); x_wa := nb ((n / 8 / 8 / 2 / 2) mod 2);
     x_wc := nb ((n / 8 / 8 / 2 / 2 / 2) mod 2); x_sp := n / 8 / 8 / 2 / 2 / 2 / 2 |}.

(* the skiplists of the tie configurations *)
Definition skip_none (i : N) : bool := false.
Definition skip_req (r : N) (i : N) : bool := i_req i =? r.

(* ============================================================================================== *)
(* Specification (C07).  It never mentions the state of the model: it is written over the history of
   interface events.

   Environment (what the producers of the events guarantee; C01 / C06):
     - tokenizer.endpoint is a register of the token detector, 0 after reset, written together with new_token:
       it differs from its value in the previous cycle only in cycles with new_token;
     - the token kind flags decode one 4-bit PID: at most one of is_in / is_out / is_setup / is_ping is high;
     - setup.received is reported at most once per SETUP token, after it and before any other token, and not
       in a cycle with new_token (the decoder arms on a SETUP token and disarms on any token or report).     *)
Record env_st := { e_ls : bool;     (* the last token was a SETUP and no SETUP packet has been reported since *)
                   e_ep : N }.      (* tokenizer.endpoint in the previous cycle *)
Definition cx_env0 : env_st := {| e_ls := false; e_ep := 0 |}.
Definition onehot (i : N) : bool :=
  match b2n (i_in i) + b2n (i_out i) + b2n (i_setup i) + b2n (i_ping i) with 0 | 1 => true | _ => false end.
Definition cx_env_ok (e : env_st) (i : N) : bool :=
  (i_new i || (i_ep i =? e_ep e)) && (negb (i_rcv i) || (e_ls e && negb (i_new i))) && onehot i.
Definition cx_env_next (e : env_st) (i : N) : env_st :=
  {| e_ls := if i_new i then i_setup i else if i_rcv i then false else e_ls e; e_ep := i_ep i |}.
Fixpoint cx_env_trace (e : env_st) (tr : list N) : bool :=
  match tr with
  | [] => true
  | i :: t => cx_env_ok e i && cx_env_trace (cx_env_next e i) t
  end.

(* The control transfer in progress, as a function of the history:
     s_cur = the input word (hence the eight setup bytes) of the last SETUP packet reported for this endpoint,
             unless a SETUP token for this endpoint has arrived since (then: none -- the old transfer is over, the
             new one has not been decoded yet);
     s_adv = a token of the direction opposite to the data stage has arrived for this endpoint since. *)
Record sp_st := { s_cur : option N; s_adv : bool }.
Definition sp0 : sp_st := {| s_cur := None; s_adv := false |}.

Inductive phase := PSetup | PData (dev_to_host : bool) | PStatus (dev_to_host : bool).
(* [USB2.0: 8.5.3]: no data stage -> IN status stage; otherwise the status stage has the direction opposite
   to the data stage and begins with the first token of that direction *)
Definition phase_of (s : sp_st) : phase :=
  match s_cur s with
  | None => PSetup
  | Some f => if i_haslen f then (if s_adv s then PStatus (negb (i_dirin f)) else PData (i_dirin f))
              else PStatus true
  end.

Section Spec.
  Variable EP : N.
  Let tgt (i : N) : bool := i_ep i =? EP.

  Definition sp_next (s : sp_st) (i : N) : sp_st :=
    if i_new i && tgt i && i_setup i then {| s_cur := None; s_adv := false |}
    else if i_rcv i && tgt i then {| s_cur := Some i; s_adv := false |}
    else match s_cur s with
         | Some f =>
             if i_new i && tgt i && i_haslen f && (if i_dirin f then i_out i || i_ping i else i_in i)
             then {| s_cur := Some f; s_adv := true |} else s
         | None => s
         end.

  (* the moments at which the endpoint may answer the host *)
  Definition in_opp (i : N) : bool := i_rfr i && tgt i && i_in i.       (* an IN token, inter-packet delay over *)
  Definition out_opp (i : N) : bool := i_rxrfr i && tgt i && i_out i.   (* an OUT data packet, delay over *)
  Definition ping_opp (i : N) : bool := tgt i && i_rfr i && i_ping i.   (* a PING token, delay over *)

  (* what the endpoint asks of its request handler / answers itself, cycle by cycle *)
  Definition sp_dr (s : sp_st) (i : N) : bool :=
    match phase_of s with PData true => in_opp i | _ => false end.
  Definition sp_sr (s : sp_st) (i : N) : bool :=
    match phase_of s with PStatus true => in_opp i | PStatus false => out_opp i | _ => false end.
  Definition sp_ping (s : sp_st) (i : N) : bool :=
    match phase_of s with PData false | PStatus false => ping_opp i | _ => false end.

  Fixpoint sp_state (s : sp_st) (tr : list N) : sp_st :=
    match tr with [] => s | i :: t => sp_state (sp_next s i) t end.
  Fixpoint sp_run (s : sp_st) (tr : list N) : list (bool * bool * bool) :=
    match tr with
    | [] => []
    | i :: t => (sp_dr s i, sp_sr s i, sp_ping s i) :: sp_run (sp_next s i) t
    end.

  (* the stage a freshly decoded SETUP packet puts the endpoint in *)
  Definition stage_of (i : N) : cstage :=
    if i_haslen i then (if i_dirin i then CDataIn else CDataOut) else CStatusIn.
End Spec.

(* What the specification demands of the outputs of one cycle, given the transfer in progress:
   - the request handler is asked for data / status exactly at the opportunities of the current phase;
   - every answer has a cause: the data sources are started only by data_requested; the transmit stream carries
     only a data source's stream or a status-stage ZLP; a STALL answers a request for data / status (or passes on
     the descriptor handler's verdict); an ACK is the SETUP decoder's, a status-stage answer or a PING answer; NAK
     is never requested; address / configuration / endpoint-halt strobes fire only with a host ACK. *)
Definition cyc_ok (EP : N) (s : sp_st) (i : N) (o : cx_out) : Prop :=
  o_dr o = sp_dr EP s i /\ o_sr o = sp_sr EP s i /\
  (o_ds o = true \/ o_ss o = true -> o_dr o = true) /\
  (o_txv o = true -> o_sr o = true \/ i_dv i = true \/ i_sv i = true) /\
  (o_stall o = true -> o_dr o = true \/ o_sr o = true \/ i_dstall i = true) /\
  (o_ack o = true -> i_sack i = true \/ o_sr o = true \/ sp_ping EP s i = true) /\
  (i_sack i = true \/ sp_ping EP s i = true -> o_ack o = true) /\
  o_nak o = false /\
  (o_ac o = true \/ o_cc o = true \/ o_halt o <> 0 -> i_ack i = true).

Fixpoint holds_along (EP : N) (s : sp_st) (tr : list N) (outs : list cx_out) : Prop :=
  match tr, outs with
  | [], [] => True
  | i :: t, o :: u => cyc_ok EP s i o /\ holds_along EP (sp_next EP s i) t u
  | _, _ => False
  end.

(* history reading of the specification state: events of one cycle *)
Definition ev_stok (EP i : N) : bool := i_new i && (i_ep i =? EP) && i_setup i.          (* SETUP token for us *)
Definition ev_acc (EP i : N) : bool := negb (ev_stok EP i) && i_rcv i && (i_ep i =? EP).  (* SETUP packet for us *)
Definition ev_opp (EP f i : N) : bool :=                       (* token of the direction opposite to f's data stage *)
  i_new i && (i_ep i =? EP) && i_haslen f && (if i_dirin f then i_out i || i_ping i else i_in i).

(* output words compared up to start_position while the descriptor handler is not started (the register is
   only read by the descriptor handler, when started) *)
Definition out_obs (o : cx_out) : cx_out :=
  {| o_dr := o_dr o; o_sr := o_sr o; o_ack := o_ack o; o_nak := o_nak o; o_stall := o_stall o; o_txv := o_txv o;
     o_txf := o_txf o; o_txl := o_txl o; o_pid := o_pid o; o_ac := o_ac o; o_na := o_na o; o_cc := o_cc o;
     o_nc := o_nc o; o_halt := o_halt o; o_ds := o_ds o; o_ss := o_ss o; o_sp := if o_ds o then o_sp o else 0 |}.

(* ---- the first answer of a fresh transfer --------------------------------------------------------------
   Requests by what LUNA's control endpoint is meant to do with them (one StandardRequestHandler with skiplist
   `skip`, fallback StallOnlyRequestHandler):
     RData   GET_STATUS, GET_CONFIGURATION: a small constant answer from the serializer, status stage ACKed
     RDesc   GET_DESCRIPTOR: data from the descriptor handler (or its STALL), status stage ACKed
     RWrite  SET_ADDRESS, SET_CONFIGURATION, CLEAR_FEATURE(ENDPOINT_HALT) to an endpoint: status-stage ZLP
     RUnsup  every other standard request: STALL
     RNone   not a standard request, or skiplisted: nobody claims it, the fallback STALLs                    *)
Inductive rclass := RData | RDesc | RWrite | RUnsup | RNone.
Definition rclass_of (skip : N -> bool) (f : N) : rclass :=
  if negb (i_std f) || skip f then RNone else
  let r := i_req f in
  if (r =? 0) || (r =? 8) then RData
  else if r =? 6 then RDesc
  else if (r =? 5) || (r =? 9) || ((r =? 1) && (i_rcpt f =? 2) && (i_value f =? 0)) then RWrite
  else RUnsup.

Definition impb (a b : bool) : bool := negb a || b.
(* o answers a request for data (o_dr) or status (o_sr) of a fresh transfer of class c *)
Definition first_answer_ok (c : rclass) (i : N) (o : cx_out) : bool :=
  let zlp := o_txv o && o_txl o && negb (o_txf o) in
  let no_ack := impb (o_ack o) (i_sack i) in
  let no_start := negb (o_ds o) && negb (o_ss o) in
  match c with
  | RData =>
      if o_dr o then o_ss o && negb (o_ds o) && negb (o_stall o) && no_ack && Bool.eqb (o_txv o) (i_sv i)
      else o_ack o && negb (o_stall o) && no_start
  | RDesc =>
      if o_dr o then o_ds o && negb (o_ss o) && Bool.eqb (o_stall o) (i_dstall i) && no_ack
                     && Bool.eqb (o_txv o) (i_dv i) && (o_sp o =? 0) && (o_pid o =? 1)
      else o_ack o && Bool.eqb (o_stall o) (i_dstall i) && no_start
  | RWrite =>
      if o_dr o then negb (o_txv o) && negb (o_stall o) && no_ack && no_start
      else zlp && (o_pid o =? 1) && negb (o_stall o) && no_ack && no_start
  | RUnsup | RNone => o_stall o && negb (o_txv o) && no_ack && no_start
  end.

Definition same_fieldsb (f i : N) : bool :=
  Bool.eqb (i_dirin f) (i_dirin i) && (i_type f =? i_type i) && (i_rcpt f =? i_rcpt i) && (i_req f =? i_req i) &&
  (i_value f =? i_value i) && (i_index f =? i_index i) && (i_len f =? i_len i).

(* fresh = a SETUP packet for this endpoint has been decoded and since then: its fields are still presented, no
   further SETUP packet was reported, no host ACK and no descriptor STALL arrived, and the request handler
   has not been asked for data or status yet *)
Definition fr_next (EP : N) (s : sp_st) (fr : bool) (i : N) : bool :=
  if ev_stok EP i then false
  else if ev_acc EP i then true
  else match s_cur s with
       | Some f => fr && same_fieldsb f i && negb (i_rcv i) && negb (i_ack i) && negb (i_dstall i)
                   && negb (sp_dr EP s i || sp_sr EP s i)
       | None => false
       end.
(* the check of one cycle *)
Definition fr_ok (EP : N) (skip : N -> bool) (s : sp_st) (fr : bool) (i : N) (o : cx_out) : bool :=
  match s_cur s with
  | Some f => impb (fr && same_fieldsb f i && negb (i_rcv i) && (o_dr o || o_sr o))
                   (first_answer_ok (rclass_of skip f) i o)
  | None => true
  end.
Fixpoint fresh_along (EP : N) (skip : N -> bool) (s : sp_st) (fr : bool) (tr : list N) (outs : list cx_out) : bool :=
  match tr, outs with
  | i :: t, o :: u => fr_ok EP skip s fr i o && fresh_along EP skip (sp_next EP s i) (fr_next EP s fr i) t u
  | _, _ => true
  end.

(* executable form of cyc_ok (proved equivalent: CtlXfer_proofs.cyc_okb_iff) *)
Definition cyc_okb (EP : N) (s : sp_st) (i : N) (o : cx_out) : bool :=
  Bool.eqb (o_dr o) (sp_dr EP s i) && Bool.eqb (o_sr o) (sp_sr EP s i) &&
  impb (o_ds o || o_ss o) (o_dr o) &&
  impb (o_txv o) (o_sr o || i_dv i || i_sv i) &&
  impb (o_stall o) (o_dr o || o_sr o || i_dstall i) &&
  impb (o_ack o) (i_sack i || o_sr o || sp_ping EP s i) &&
  impb (i_sack i || sp_ping EP s i) (o_ack o) &&
  negb (o_nak o) &&
  impb (o_ac o || o_cc o || negb (o_halt o =? 0)) (i_ack i).

(* The specification as an observer of (input word, packed output word) pairs, for the runtime oracle over
   simulator traces of the real module: None = the environment assumption is broken from here on. *)
Record mon_st := { m_e : env_st; m_s : sp_st; m_fr : bool }.
Definition mon0 : mon_st := {| m_e := cx_env0; m_s := sp0; m_fr := false |}.
Definition mon_enc (m : mon_st) : N :=
  pk 2 (b2n (e_ls (m_e m))) (pk 16 (e_ep (m_e m)) (pk 2 (b2n (s_adv (m_s m))) (pk 2 (b2n (m_fr m))
     (match s_cur (m_s m) with None => 0 | Some f => 1 + 2 * f end)))).
Definition mon_dec (n : N) : mon_st :=
  let r := n / 2 / 16 / 2 / 2 in
  {| m_e := {| e_ls := nb (n mod 2); e_ep := (n / 2) mod 16 |};
     m_s := {| s_cur := if r =? 0 then None else Some ((r - 1) / 2); s_adv := nb ((n / 2 / 16) mod 2) |};
     m_fr := nb ((n / 2 / 16 / 2) mod 2) |}.
Definition cx_mon (EP : N) (skip : N -> bool) (m i o : N) : option (N * bool) :=
  let st := mon_dec m in
  if cx_env_ok (m_e st) i then
    let ou := cx_unpack o in
    Some (mon_enc {| m_e := cx_env_next (m_e st) i; m_s := sp_next EP (m_s st) i;
                     m_fr := fr_next EP (m_s st) (m_fr st) i |},
          cyc_okb EP (m_s st) i ou && fr_ok EP skip (m_s st) (m_fr st) i ou)
  else None.

(* two input words that differ at most in what the token detector / data receiver report about the CURRENT
   token: new_token, ready_for_response, the kind flags, rx_ready_for_response *)
Definition same_but_token (i j : N) : Prop :=
  i_ep i = i_ep j /\ i_rcv i = i_rcv j /\ i_dirin i = i_dirin j /\ i_type i = i_type j /\ i_rcpt i = i_rcpt j /\
  i_req i = i_req j /\ i_value i = i_value j /\ i_index i = i_index j /\ i_len i = i_len j /\
  i_sack i = i_sack j /\ i_ack i = i_ack j /\
  i_dstall i = i_dstall j /\ i_dv i = i_dv j /\ i_df i = i_df j /\ i_dl i = i_dl j /\
  i_sv i = i_sv j /\ i_sf i = i_sf j /\ i_sl i = i_sl j.
