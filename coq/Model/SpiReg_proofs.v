(* C51 -- proofs about the SPI register interface model (Model/SpiReg.v). *)
From Coq Require Import NArith ZArith List Bool Lia ZifyBool ZifyN Arith.
Import ListNotations.
From LunaLib Require Import Netlist Bits Machine.
From LunaModel Require Import SpiReg.
Open Scope N_scope.
Ltac Zify.zify_post_hook ::= Z.div_mod_to_equations.

(* ------------------------------------------------------------------------------------------ *)
(* packing                                                                                     *)
(* ------------------------------------------------------------------------------------------ *)
Lemma lo_hi' : forall k a b, a < k -> (a + k * b) mod k = a /\ (a + k * b) / k = b.
Proof.
  intros k a b H. assert (k <> 0) by lia. rewrite (N.mul_comm k b).
  rewrite N.mod_add, N.div_add by assumption. rewrite N.mod_small, N.div_small by assumption. split; lia.
Qed.

Lemma unpack_pack : forall fs, Forall (fun f => snd f < 2 ^ fst f) fs ->
  unpack_fields (map fst fs) (pack_fields fs) = map snd fs.
Proof.
  induction fs as [|[w v] fs IH]; intros H; [reflexivity|].
  inversion H as [|? ? Hv Ht]; subst. cbn [map fst snd pack_fields unpack_fields] in *.
  destruct (lo_hi' (2 ^ w) v (pack_fields fs) Hv) as [E1 E2]. rewrite E1, E2, IH by exact Ht. reflexivity.
Qed.

Lemma b2n_lt2 : forall b, b2n b < 2 ^ 1.
Proof. intros []; cbn; lia. Qed.
Lemma b2n_eqb1 : forall b, (b2n b =? 1) = b.
Proof. intros []; reflexivity. Qed.
Lemma fsm_of_code : forall f, fsm_of (fsm_code f) = f.
Proof. intros []; reflexivity. Qed.
Lemma fsm_code_lt : forall f, fsm_code f < 2 ^ 3.
Proof. intros []; cbn; lia. Qed.

Lemma bits2N_lt_len : forall l n, length l = n -> bits2N l < 2 ^ N.of_nat n.
Proof. intros l n <-. apply bits2N_bound. Qed.

Lemma r_dec_enc : forall c st, r_wf c st -> r_dec c (r_enc c st) = st.
Proof.
  intros c [f p k cc cw wc cm wr so rs] (Hk & L1 & L2 & L3 & L4 & L5 & HF).
  cbn [fsm past_sck cnt ccmd cword wcomplete command wrecv sdo regs] in *.
  unfold r_dec, r_enc.
  assert (Hw : r_widths c = map fst (r_fields c
            {| fsm := f; past_sck := p; cnt := k; ccmd := cc; cword := cw; wcomplete := wc; command := cm;
               wrecv := wr; sdo := so; regs := rs |})).
  { unfold r_widths, r_fields. cbn [fsm past_sck cnt ccmd cword wcomplete command wrecv sdo regs map app fst].
    repeat f_equal. rewrite map_map. cbn [fst]. rewrite <- L5. clear.
    induction rs as [|x rs IH]; [reflexivity|]. cbn [length repeat map]. rewrite IH. reflexivity. }
  rewrite Hw, unpack_pack.
  - unfold r_fields. cbn [fsm past_sck cnt ccmd cword wcomplete command wrecv sdo regs map app snd nth skipn].
    rewrite fsm_of_code, !b2n_eqb1. rewrite map_map. cbn [snd]. rewrite map_id.
    rewrite <- L1 at 1. rewrite <- L2 at 1. rewrite <- L3 at 1. rewrite <- L4 at 1.
    rewrite !N2bits_bits2N. reflexivity.
  - unfold r_fields. cbn [fsm past_sck cnt ccmd cword wcomplete command wrecv sdo regs app].
    repeat (apply Forall_cons; cbn [fst snd];
            [first [apply fsm_code_lt | apply b2n_lt2 | exact Hk | apply bits2N_lt_len; assumption]|]).
    apply Forall_map. cbn [fst snd]. exact HF.
Qed.

Section WfStep.
  Variable c : r_cfg.
  Hypothesis Hr : (1 <=? rsz c)%nat = true.

  Lemma shift_len : forall (l : list bool) b n, (1 <= n)%nat -> length l = n -> length (tl l ++ [b]) = n.
  Proof. intros [|x l] b n Hn H; cbn [length tl app] in *; [lia|]. rewrite app_length. cbn [length]. lia. Qed.

  Lemma of_msb_lt : forall l, length l = rsz c -> of_msb l < 2 ^ N.of_nat (rsz c).
  Proof. intros l H. unfold of_msb. apply bits2N_lt_len. rewrite rev_length. exact H. Qed.

  Lemma to_msb_length : forall w v, length (to_msb w v) = w.
  Proof. intros. unfold to_msb. rewrite rev_length. apply N2bits_length. Qed.

  Lemma regs_next_wf : forall st, r_wf c st ->
    length (regs_next c st) = length (rw c) /\ Forall (fun v => v < 2 ^ N.of_nat (rsz c)) (regs_next c st).
  Proof.
    intros st (Hk & L1 & L2 & L3 & L4 & L5 & HF). unfold regs_next. split.
    - rewrite map_length, combine_length. lia.
    - apply Forall_map. apply Forall_forall. intros [a v] Hin. cbn [fst snd].
      destruct (strobe st a); [apply of_msb_lt; exact L4|].
      apply in_combine_r in Hin. rewrite Forall_forall in HF. apply HF. exact Hin.
  Qed.

  Lemma r_wf_step : forall st i, r_wf c st -> r_wf c (fst (r_step c st i)).
  Proof.
    intros st i H. pose proof (regs_next_wf st H) as [R1 R2].
    destruct H as (Hk & L1 & L2 & L3 & L4 & L5 & HF). pose proof (proj1 (Nat.leb_le _ _) Hr) as Hr'.
    assert (P2 : 0 < 2 ^ cnt_w c) by (apply N.neq_0_lt_0, N.pow_nonzero; lia).
    assert (M : (cnt st + 1) mod 2 ^ cnt_w c < 2 ^ cnt_w c) by (apply N.mod_lt; lia).
    assert (C1 : forall b, length (tl (ccmd st) ++ [b]) = csz c) by (intro b; apply shift_len; [unfold csz; lia | exact L1]).
    assert (C2 : forall b, length (tl (cword st) ++ [b]) = rsz c) by (intro b; apply shift_len; [lia | exact L2]).
    cbn [r_step fst]. unfold r_next, r_wf.
    destruct (fsm st); cbn [fsm past_sck cnt ccmd cword wcomplete command wrecv sdo regs].
    - repeat split; assumption.
    - repeat split; assumption.
    - destruct (cnt st <? N.of_nat (csz c)); cbn [fsm past_sck cnt ccmd cword wcomplete command wrecv sdo regs].
      + destruct (past_sck st && negb (i_sck i)); repeat split; try assumption; apply C1.
      + repeat split; assumption.
    - repeat split; assumption.
    - repeat split; try assumption. unfold word_to_send. apply to_msb_length.
    - destruct (cnt st <? N.of_nat (rsz c)); cbn [fsm past_sck cnt ccmd cword wcomplete command wrecv sdo regs].
      + destruct (past_sck st && negb (i_sck i)); repeat split; try assumption; apply C2.
      + repeat split; assumption.
  Qed.

  Lemma r_wf_init : r_wf c (r_init c).
  Proof.
    unfold r_wf, r_init. cbn [fsm past_sck cnt ccmd cword wcomplete command wrecv sdo regs].
    rewrite !repeat_length. repeat split; try reflexivity.
    - apply N.neq_0_lt_0, N.pow_nonzero; lia.
    - apply Forall_forall. intros x Hx. apply repeat_spec in Hx. subst.
      apply N.neq_0_lt_0, N.pow_nonzero; lia.
  Qed.
End WfStep.

(* ------------------------------------------------------------------------------------------ *)
(* Register transactions                                                                        *)
(* ------------------------------------------------------------------------------------------ *)
Definition inp (sck sdi cs : bool) : N := b2n sck + 2 * b2n sdi + 4 * b2n cs.
Lemma inp_sck : forall a b d, i_sck (inp a b d) = a. Proof. intros [] [] []; reflexivity. Qed.
Lemma inp_sdi : forall a b d, i_sdi (inp a b d) = b. Proof. intros [] [] []; reflexivity. Qed.
Lemma inp_cs : forall a b d, i_cs (inp a b d) = d. Proof. intros [] [] []; reflexivity. Qed.

(* one clock pulse carrying bit b: sck high for hi+1 cycles, then low for lo+1 cycles (the first low cycle is
   the falling edge on which the device samples sdi); chip select held *)
Definition pulse_hi (b : bool) (hi : nat) : list N := repeat (inp true b true) (S hi).
Definition pulse_lo (b : bool) (lo : nat) : list N := repeat (inp false b true) lo.
Definition bit_pulse (p : bool * nat * nat) : list N :=
  match p with (b, hi, lo) => pulse_hi b hi ++ inp false b true :: pulse_lo b lo end.
Definition pulses (ps : list (bool * nat * nat)) : list N := flat_map bit_pulse ps.
Definition bit_of (p : bool * nat * nat) : bool := fst (fst p).
Definition select (n : nat) : list N := repeat (inp false false true) (S n).
Definition deselect (n : nat) : list N := repeat (inp false false false) n.

Section Transactions.
  Variable c : r_cfg.

  Notation rstate := (run_state (r_step c)).

  (* number of cycles of a run in which the write strobe of the register at address a is high *)
  Fixpoint strobes (a : N) (st : r_state) (tr : list N) : nat :=
    match tr with
    | [] => 0%nat
    | i :: t => ((if strobe st a then 1 else 0) + strobes a (r_next c st i) t)%nat
    end.

  Lemma strobes_app : forall a x y st, strobes a st (x ++ y) = (strobes a st x + strobes a (rstate st x) y)%nat.
  Proof.
    induction x as [|i x IH]; intros y st; [reflexivity|].
    cbn [app strobes run_state r_step fst]. rewrite IH. lia.
  Qed.

  Lemma rstate_app : forall x y st, rstate st (x ++ y) = rstate (rstate st x) y.
  Proof. intros. apply run_state_app. Qed.

  Lemma map_snd_combine : forall (A B : Type) (l : list A) (r : list B), length l = length r ->
    map snd (combine l r) = r.
  Proof.
    induction l as [|x l IH]; intros [|y r] H; cbn in *; try lia; [reflexivity|].
    f_equal. apply IH. lia.
  Qed.

  (* "quiet": no word has just completed; then nothing is written and no strobe is high *)
  Definition quiet (R : list N) (st : r_state) : Prop := wcomplete st = false /\ regs st = R.

  Lemma quiet_regs_next : forall R st, length R = length (rw c) -> quiet R st -> regs_next c st = R.
  Proof.
    intros R st HL [Hw HR]. unfold regs_next.
    assert (E : forall av : N * N, (if strobe st (fst av) then of_msb (wrecv st) else snd av) = snd av).
    { intros av. unfold strobe. rewrite Hw, andb_false_r. reflexivity. }
    rewrite (map_ext _ _ E). rewrite map_snd_combine; [exact HR | rewrite HR; symmetry; exact HL].
  Qed.

  Lemma quiet_strobe : forall R st a, quiet R st -> strobe st a = false.
  Proof. intros R st a [Hw _]. unfold strobe. rewrite Hw, andb_false_r. reflexivity. Qed.

  (* running a constant input while an invariant that implies quietness is preserved *)
  Lemma hold_inv : forall (P : r_state -> Prop) R a i,
    (forall s, P s -> quiet R s) -> (forall s, P s -> P (r_next c s i)) ->
    forall n st, P st -> P (rstate st (repeat i n)) /\ strobes a st (repeat i n) = 0%nat.
  Proof.
    intros P R a i HQ HS. induction n as [|n IH]; intros st H; [split; [exact H | reflexivity]|].
    cbn [repeat run_state r_step fst strobes]. destruct (IH _ (HS _ H)) as [A B].
    rewrite (quiet_strobe R st a (HQ _ H)), B. split; [exact A | reflexivity].
  Qed.

  Lemma cnt_fits : forall n, (n <= Nat.max (rsz c) (csz c))%nat -> N.of_nat n mod 2 ^ cnt_w c = N.of_nat n.
  Proof.
    intros n H. apply N.mod_small. unfold cnt_w.
    pose proof (N.size_gt (N.of_nat (Nat.max (rsz c) (csz c)))) as G. lia.
  Qed.

  Section WithR.
  Variable R : list N.
  Hypothesis HR : length R = length (rw c).

  (* ---- phase predicates ---- *)
  Definition IdleP (st : r_state) : Prop :=
    fsm st = IDLE /\ past_sck st = false /\ quiet R st.
  Definition CmdP (p : bool) (k : nat) (l : list bool) (st : r_state) : Prop :=
    fsm st = RECV_CMD /\ past_sck st = p /\ cnt st = N.of_nat k /\ ccmd st = l /\ quiet R st.
  Definition DatP (cmdv : list bool) (p : bool) (k : nat) (w : list bool) (st : r_state) : Prop :=
    fsm st = SHIFT_DATA /\ past_sck st = p /\ cnt st = N.of_nat k /\ cword st = w /\ command st = cmdv /\ quiet R st.

  Ltac open_state st :=
    destruct st as [f p k cc cw wc cm wr so rs];
    cbn [fsm past_sck cnt ccmd cword wcomplete command wrecv sdo regs] in *.

  (* one cycle in RECV_CMD with chip select held *)
  Lemma cmd_cycle : forall p k l st sck b, CmdP p k l st -> (k < csz c)%nat ->
    CmdP sck (if p && negb sck then S k else k) (if p && negb sck then tl l ++ [b] else l)
         (r_next c st (inp sck b true)).
  Proof.
    intros p k l st sck b (Hf & Hp & Hk & Hl & HQ) Hlt.
    pose proof (quiet_regs_next R st HR HQ) as HRn. destruct HQ as [Hw HRg].
    unfold CmdP, quiet, r_next. rewrite Hf, Hk, Hp, Hl, inp_sck, inp_sdi, inp_cs.
    assert (E : (N.of_nat k <? N.of_nat (csz c)) = true) by (apply N.ltb_lt; lia). rewrite E.
    cbn [fsm past_sck cnt ccmd cword wcomplete command wrecv sdo regs]. rewrite HRn.
    repeat split; try reflexivity.
    destruct (p && negb sck); [|reflexivity].
    replace (N.of_nat k + 1) with (N.of_nat (S k)) by lia. apply cnt_fits. lia.
  Qed.

  Lemma CmdP_quiet : forall p k l s, CmdP p k l s -> quiet R s.
  Proof. intros p k l s H. apply H. Qed.
  Lemma DatP_quiet : forall v p k w s, DatP v p k w s -> quiet R s.
  Proof. intros v p k w s H. apply H. Qed.

  (* a whole pulse while the command is incomplete *)
  Lemma cmd_pulse_hi : forall a b hi k l st, CmdP false k l st -> (k < csz c)%nat ->
    CmdP true k l (rstate st (pulse_hi b hi)) /\ strobes a st (pulse_hi b hi) = 0%nat.
  Proof.
    intros a b hi k l st H Hlt. unfold pulse_hi. cbn [repeat run_state r_step fst strobes].
    rewrite (quiet_strobe R st a (CmdP_quiet _ _ _ _ H)).
    pose proof (cmd_cycle false k l st true b H Hlt) as H1. cbn [andb negb] in H1.
    apply (hold_inv (CmdP true k l) R a (inp true b true)); [apply CmdP_quiet | | exact H1].
    intros s Hs. pose proof (cmd_cycle true k l s true b Hs Hlt) as H2. cbn [andb negb] in H2. exact H2.
  Qed.

  Lemma cmd_pulse_lo : forall a b lo k l st, CmdP false k l st -> (k < csz c)%nat ->
    CmdP false k l (rstate st (pulse_lo b lo)) /\ strobes a st (pulse_lo b lo) = 0%nat.
  Proof.
    intros a b lo k l st H Hlt. unfold pulse_lo.
    apply (hold_inv (CmdP false k l) R a (inp false b true)); [apply CmdP_quiet | | exact H].
    intros s Hs. pose proof (cmd_cycle false k l s false b Hs Hlt) as H2. cbn [andb negb] in H2. exact H2.
  Qed.

  Lemma cmd_edge : forall a b k l st, CmdP true k l st -> (k < csz c)%nat ->
    CmdP false (S k) (tl l ++ [b]) (rstate st [inp false b true]) /\ strobes a st [inp false b true] = 0%nat.
  Proof.
    intros a b k l st H Hlt. cbn [run_state r_step fst strobes].
    rewrite (quiet_strobe R st a (CmdP_quiet _ _ _ _ H)).
    pose proof (cmd_cycle true k l st false b H Hlt) as H2. cbn [andb negb] in H2. split; [exact H2 | reflexivity].
  Qed.

  Lemma cmd_pulse : forall a b hi lo k l st, CmdP false k l st -> (S k < csz c)%nat ->
    CmdP false (S k) (tl l ++ [b]) (rstate st (bit_pulse (b, hi, lo))) /\ strobes a st (bit_pulse (b, hi, lo)) = 0%nat.
  Proof.
    intros a b hi lo k l st H Hlt. unfold bit_pulse.
    change (inp false b true :: pulse_lo b lo) with ([inp false b true] ++ pulse_lo b lo).
    rewrite !rstate_app, !strobes_app.
    destruct (cmd_pulse_hi a b hi k l st H) as [A1 B1]; [lia|].
    destruct (cmd_edge a b k l _ A1) as [A2 B2]; [lia|].
    destruct (cmd_pulse_lo a b lo (S k) (tl l ++ [b]) _ A2 Hlt) as [A3 B3].
    rewrite B1, B2, B3. split; [exact A3 | reflexivity].
  Qed.

  (* shifting a list of bits through a register *)
  Fixpoint shift_bits (l : list bool) (bs : list bool) : list bool :=
    match bs with [] => l | b :: t => shift_bits (tl l ++ [b]) t end.

  Lemma cmd_pulses : forall a ps k l st, CmdP false k l st -> (k + length ps < csz c)%nat ->
    CmdP false (k + length ps) (shift_bits l (map bit_of ps)) (rstate st (pulses ps)) /\
    strobes a st (pulses ps) = 0%nat.
  Proof.
    induction ps as [|[[b hi] lo] ps IH]; intros k l st H Hlt.
    - cbn [pulses flat_map length map shift_bits run_state strobes]. rewrite Nat.add_0_r. split; [exact H | reflexivity].
    - cbn [pulses flat_map length map shift_bits bit_of fst] in *. rewrite rstate_app, strobes_app.
      destruct (cmd_pulse a b hi lo k l st H) as [A1 B1]; [lia|].
      destruct (IH (S k) (tl l ++ [b]) _ A1) as [A2 B2]; [lia|].
      fold (pulses ps). rewrite B1, B2. replace (k + S (length ps))%nat with (S k + length ps)%nat by lia.
      split; [exact A2 | reflexivity].
  Qed.

  (* ---- wait states between command and data ---- *)
  Definition rdval (cmdv : list bool) : N := read_value c (of_msb (tl cmdv)) R.
  Definition w0 (cmdv : list bool) : list bool := to_msb (rsz c) (rdval cmdv).

  Lemma after_cmd : forall a p l st i1 i2 i3, CmdP p (csz c) l st ->
    DatP l (i_sck i3) 0 (w0 l) (rstate st [i1; i2; i3]) /\ strobes a st [i1; i2; i3] = 0%nat.
  Proof.
    intros a p l st i1 i2 i3 (Hf & Hp & Hk & Hl & HQ).
    pose proof (quiet_regs_next R st HR HQ) as HRn. pose proof (quiet_strobe R st a HQ) as HS0.
    cbn [run_state r_step fst strobes]. rewrite HS0.
    (* cycle 1: RECV_CMD with a full command -> PROCESSING *)
    set (s1 := r_next c st i1).
    assert (H1 : fsm s1 = PROCESSING /\ command s1 = l /\ cnt s1 = 0 /\ quiet R s1).
    { unfold s1, r_next, quiet. rewrite Hf, Hk, Hl, N.ltb_irrefl.
      cbn [fsm past_sck cnt ccmd cword wcomplete command wrecv sdo regs]. rewrite HRn. repeat split. }
    destruct H1 as (F1 & C1 & K1 & Q1).
    pose proof (quiet_regs_next R s1 HR Q1) as HRn1. rewrite (quiet_strobe R s1 a Q1).
    (* cycle 2: PROCESSING -> LATCH_OUTPUT *)
    set (s2 := r_next c s1 i2).
    assert (H2 : fsm s2 = LATCH_OUTPUT /\ command s2 = l /\ cnt s2 = 0 /\ quiet R s2).
    { unfold s2, r_next, quiet. rewrite F1.
      cbn [fsm past_sck cnt ccmd cword wcomplete command wrecv sdo regs]. rewrite HRn1. repeat split; assumption. }
    destruct H2 as (F2 & C2 & K2 & Q2).
    pose proof (quiet_regs_next R s2 HR Q2) as HRn2. rewrite (quiet_strobe R s2 a Q2).
    (* cycle 3: LATCH_OUTPUT -> SHIFT_DATA *)
    split; [|reflexivity].
    unfold DatP, quiet, r_next. rewrite F2.
    cbn [fsm past_sck cnt ccmd cword wcomplete command wrecv sdo regs]. rewrite HRn2.
    repeat split; try assumption.
    unfold word_to_send, w0, rdval, address. rewrite C2. destruct Q2 as [_ E]. rewrite E. reflexivity.
  Qed.

  (* ---- data phase ---- *)
  Lemma dat_cycle : forall v p k w st sck b, DatP v p k w st -> (k < rsz c)%nat ->
    DatP v sck (if p && negb sck then S k else k) (if p && negb sck then tl w ++ [b] else w)
         (r_next c st (inp sck b true)) /\
    sdo (r_next c st (inp sck b true)) = hd false w.
  Proof.
    intros v p k w st sck b (Hf & Hp & Hk & Hl & Hc & HQ) Hlt.
    pose proof (quiet_regs_next R st HR HQ) as HRn. destruct HQ as [Hw HRg].
    unfold DatP, quiet, r_next. rewrite Hf, Hk, Hp, Hl, inp_sck, inp_sdi, inp_cs.
    assert (E : (N.of_nat k <? N.of_nat (rsz c)) = true) by (apply N.ltb_lt; lia). rewrite E.
    cbn [fsm past_sck cnt ccmd cword wcomplete command wrecv sdo regs]. rewrite HRn.
    repeat split; try reflexivity; try assumption.
    destruct (p && negb sck); [|reflexivity].
    replace (N.of_nat k + 1) with (N.of_nat (S k)) by lia. apply cnt_fits. lia.
  Qed.

  Lemma dat_pulse_hi : forall a b hi v k w st, DatP v false k w st -> (k < rsz c)%nat ->
    DatP v true k w (rstate st (pulse_hi b hi)) /\ strobes a st (pulse_hi b hi) = 0%nat /\
    sdo (rstate st (pulse_hi b hi)) = hd false w.
  Proof.
    intros a b hi v k w st H Hlt. unfold pulse_hi. cbn [repeat run_state r_step fst strobes].
    rewrite (quiet_strobe R st a (DatP_quiet _ _ _ _ _ H)).
    destruct (dat_cycle v false k w st true b H Hlt) as [H1 S1]. cbn [andb negb] in H1.
    pose (P := fun s => DatP v true k w s /\ sdo s = hd false w).
    destruct (hold_inv P R a (inp true b true)) with (n := hi) (st := r_next c st (inp true b true)) as [[A1 A2] B].
    - intros s [Hs _]. exact (DatP_quiet _ _ _ _ _ Hs).
    - intros s [Hs _]. destruct (dat_cycle v true k w s true b Hs Hlt) as [H2 S2]. cbn [andb negb] in H2. split; assumption.
    - split; assumption.
    - split; [exact A1 | split; [rewrite B; reflexivity | exact A2]].
  Qed.

  Lemma dat_pulse_lo : forall a b lo v k w st, DatP v false k w st -> (k < rsz c)%nat ->
    DatP v false k w (rstate st (pulse_lo b lo)) /\ strobes a st (pulse_lo b lo) = 0%nat.
  Proof.
    intros a b lo v k w st H Hlt. unfold pulse_lo.
    apply (hold_inv (DatP v false k w) R a (inp false b true)); [apply DatP_quiet | | exact H].
    intros s Hs. destruct (dat_cycle v false k w s false b Hs Hlt) as [H2 _]. cbn [andb negb] in H2. exact H2.
  Qed.

  Lemma dat_edge : forall a b v k w st, DatP v true k w st -> (k < rsz c)%nat ->
    DatP v false (S k) (tl w ++ [b]) (rstate st [inp false b true]) /\ strobes a st [inp false b true] = 0%nat.
  Proof.
    intros a b v k w st H Hlt. cbn [run_state r_step fst strobes].
    rewrite (quiet_strobe R st a (DatP_quiet _ _ _ _ _ H)).
    destruct (dat_cycle v true k w st false b H Hlt) as [H2 _]. cbn [andb negb] in H2. split; [exact H2 | reflexivity].
  Qed.

  Lemma dat_pulse : forall a b hi lo v k w st, DatP v false k w st -> (S k < rsz c)%nat ->
    DatP v false (S k) (tl w ++ [b]) (rstate st (bit_pulse (b, hi, lo))) /\ strobes a st (bit_pulse (b, hi, lo)) = 0%nat.
  Proof.
    intros a b hi lo v k w st H Hlt. unfold bit_pulse.
    change (inp false b true :: pulse_lo b lo) with ([inp false b true] ++ pulse_lo b lo).
    rewrite !rstate_app, !strobes_app.
    destruct (dat_pulse_hi a b hi v k w st H) as (A1 & B1 & _); [lia|].
    destruct (dat_edge a b v k w _ A1) as [A2 B2]; [lia|].
    destruct (dat_pulse_lo a b lo v (S k) (tl w ++ [b]) _ A2 Hlt) as [A3 B3].
    rewrite B1, B2, B3. split; [exact A3 | reflexivity].
  Qed.

  Lemma dat_pulses : forall a ps v k w st, DatP v false k w st -> (k + length ps < rsz c)%nat ->
    DatP v false (k + length ps) (shift_bits w (map bit_of ps)) (rstate st (pulses ps)) /\
    strobes a st (pulses ps) = 0%nat.
  Proof.
    induction ps as [|[[b hi] lo] ps IH]; intros v k w st H Hlt.
    - cbn [pulses flat_map length map shift_bits run_state strobes]. rewrite Nat.add_0_r. split; [exact H | reflexivity].
    - cbn [pulses flat_map length map shift_bits bit_of fst] in *. rewrite rstate_app, strobes_app.
      destruct (dat_pulse a b hi lo v k w st H) as [A1 B1]; [lia|].
      destruct (IH v (S k) (tl w ++ [b]) _ A1) as [A2 B2]; [lia|].
      fold (pulses ps). rewrite B1, B2. replace (k + S (length ps))%nat with (S k + length ps)%nat by lia.
      split; [exact A2 | reflexivity].
  Qed.

  (* ---- completion ---- *)
  (* the register file after a completed transaction with command cmdv (write flag first) and data dat *)
  Definition reg_update (cmdv dat : list bool) : list N :=
    map (fun av => if hd false cmdv && (of_msb (tl cmdv) =? fst av) then of_msb dat else snd av)
        (combine (rw c) R).
  Definition strobe_expected (cmdv : list bool) (a : N) : nat :=
    if hd false cmdv && (of_msb (tl cmdv) =? a) then 1%nat else 0%nat.

  Lemma reg_update_length : forall cmdv dat, length (reg_update cmdv dat) = length (rw c).
  Proof. intros. unfold reg_update. rewrite map_length, combine_length. lia. Qed.

  (* the cycle in which all register_size bits have been counted: the word completes, whatever the pins do *)
  Lemma complete_cycle : forall a v p w st i, DatP v p (rsz c) w st ->
    (fsm (r_next c st i) = STALL /\ past_sck (r_next c st i) = i_sck i /\ wcomplete (r_next c st i) = true /\
     wrecv (r_next c st i) = w /\ command (r_next c st i) = v /\ regs (r_next c st i) = R) /\
    strobe st a = false.
  Proof.
    intros a v p w st i (Hf & Hp & Hk & Hl & Hc & HQ).
    pose proof (quiet_regs_next R st HR HQ) as HRn. split; [|exact (quiet_strobe R st a HQ)].
    unfold r_next. rewrite Hf, Hk, Hl, N.ltb_irrefl.
    cbn [fsm past_sck cnt ccmd cword wcomplete command wrecv sdo regs]. rewrite HRn. repeat split. exact Hc.
  Qed.

  (* the following cycle: the write strobe of the addressed register (if it is a write) and the update *)
  Lemma strobe_cycle : forall a v w st i,
    fsm st = STALL -> wcomplete st = true -> wrecv st = w -> command st = v -> regs st = R ->
    (fsm (r_next c st i) = (if i_cs i then STALL else IDLE) /\ past_sck (r_next c st i) = i_sck i /\
     quiet (reg_update v w) (r_next c st i)) /\
    (if strobe st a then 1 else 0)%nat = strobe_expected v a.
  Proof.
    intros a v w st i Hf Hw Hr Hc HRg. split.
    - unfold r_next, quiet. rewrite Hf. cbn [fsm past_sck cnt ccmd cword wcomplete command wrecv sdo regs].
      repeat split. unfold regs_next, reg_update, strobe, is_write, address. rewrite Hw, Hr, Hc, HRg.
      apply map_ext. intros av. rewrite andb_true_r. reflexivity.
    - unfold strobe, strobe_expected, is_write, address. rewrite Hw, Hc, andb_true_r. reflexivity.
  Qed.
  End WithR.

  (* ---- resting states (for any register file) ---- *)
  Definition StallP (R : list N) (st : r_state) : Prop := fsm st = STALL /\ past_sck st = false /\ quiet R st.

  Lemma stall_hold : forall R a b n st, length R = length (rw c) -> StallP R st ->
    StallP R (rstate st (pulse_lo b n)) /\ strobes a st (pulse_lo b n) = 0%nat.
  Proof.
    intros R a b n st HR H. unfold pulse_lo.
    apply (hold_inv (StallP R) R a (inp false b true)); [intros s Hs; apply Hs | | exact H].
    intros s (Hf & Hp & HQ). pose proof (quiet_regs_next R s HR HQ) as HRn.
    unfold StallP, quiet, r_next. rewrite Hf, inp_sck, inp_cs.
    cbn [fsm past_sck cnt ccmd cword wcomplete command wrecv sdo regs]. rewrite HRn. repeat split.
  Qed.

  Lemma idle_hold : forall R a n st, length R = length (rw c) -> IdleP R st ->
    IdleP R (rstate st (deselect n)) /\ strobes a st (deselect n) = 0%nat.
  Proof.
    intros R a n st HR H. unfold deselect.
    apply (hold_inv (IdleP R) R a (inp false false false)); [intros s Hs; apply Hs | | exact H].
    intros s (Hf & Hp & HQ). pose proof (quiet_regs_next R s HR HQ) as HRn.
    unfold IdleP, quiet, r_next. rewrite Hf, inp_sck, inp_cs.
    cbn [fsm past_sck cnt ccmd cword wcomplete command wrecv sdo regs]. rewrite HRn. repeat split.
  Qed.

  Lemma stall_release : forall R a st, length R = length (rw c) -> StallP R st ->
    IdleP R (r_next c st (inp false false false)) /\ strobe st a = false.
  Proof.
    intros R a st HR (Hf & Hp & HQ). pose proof (quiet_regs_next R st HR HQ) as HRn.
    split; [|exact (quiet_strobe R st a HQ)].
    unfold IdleP, quiet, r_next. rewrite Hf, inp_sck, inp_cs.
    cbn [fsm past_sck cnt ccmd cword wcomplete command wrecv sdo regs]. rewrite HRn. repeat split.
  Qed.

  (* chip select released while a command or a data word is incomplete: back to IDLE, nothing written *)
  Lemma cmd_abort : forall R a k l st, length R = length (rw c) -> CmdP R false k l st -> (k < csz c)%nat ->
    IdleP R (r_next c st (inp false false false)) /\ strobe st a = false.
  Proof.
    intros R a k l st HR (Hf & Hp & Hk & Hl & HQ) Hlt. pose proof (quiet_regs_next R st HR HQ) as HRn.
    split; [|exact (quiet_strobe R st a HQ)].
    unfold IdleP, quiet, r_next. rewrite Hf, Hk, Hp, inp_sck, inp_cs.
    assert (E : (N.of_nat k <? N.of_nat (csz c)) = true) by (apply N.ltb_lt; lia). rewrite E.
    cbn [fsm past_sck cnt ccmd cword wcomplete command wrecv sdo regs andb]. rewrite HRn. repeat split.
  Qed.

  Lemma dat_abort : forall R a v k w st, length R = length (rw c) -> DatP R v false k w st -> (k < rsz c)%nat ->
    IdleP R (r_next c st (inp false false false)) /\ strobe st a = false.
  Proof.
    intros R a v k w st HR (Hf & Hp & Hk & Hl & Hc & HQ) Hlt. pose proof (quiet_regs_next R st HR HQ) as HRn.
    split; [|exact (quiet_strobe R st a HQ)].
    unfold IdleP, quiet, r_next. rewrite Hf, Hk, Hp, inp_sck, inp_cs.
    assert (E : (N.of_nat k <? N.of_nat (rsz c)) = true) by (apply N.ltb_lt; lia). rewrite E.
    cbn [fsm past_sck cnt ccmd cword wcomplete command wrecv sdo regs andb]. rewrite HRn. repeat split.
  Qed.

  (* chip select asserted from IDLE *)
  Lemma idle_select : forall R a n st, length R = length (rw c) -> IdleP R st ->
    CmdP R false 0 (ccmd st) (rstate st (select n)) /\ strobes a st (select n) = 0%nat.
  Proof.
    intros R a n st HR (Hf & Hp & HQ). pose proof (quiet_regs_next R st HR HQ) as HRn.
    unfold select. cbn [repeat run_state r_step fst strobes]. rewrite (quiet_strobe R st a HQ).
    assert (H1 : CmdP R false 0 (ccmd st) (r_next c st (inp false false true))).
    { unfold CmdP, quiet, r_next. rewrite Hf, inp_sck, inp_cs.
      cbn [fsm past_sck cnt ccmd cword wcomplete command wrecv sdo regs]. rewrite HRn. repeat split. }
    apply (hold_inv (CmdP R false 0 (ccmd st)) R a (inp false false true)); [apply CmdP_quiet | | exact H1].
    intros s Hs. pose proof (cmd_cycle R HR false 0 (ccmd st) s false false Hs) as H2.
    cbn [andb negb] in H2. apply H2. unfold csz. lia.
  Qed.

  (* ---- shifting facts ---- *)
  Lemma shift_bits_app : forall bs l x, shift_bits l (bs ++ x) = shift_bits (shift_bits l bs) x.
  Proof. induction bs as [|b bs IH]; intros l x; [reflexivity|]. cbn [app shift_bits]. apply IH. Qed.

  Lemma shift_bits_length : forall bs l, (1 <= length l)%nat -> length (shift_bits l bs) = length l.
  Proof.
    induction bs as [|b bs IH]; intros l H; [reflexivity|]. cbn [shift_bits].
    assert (E : length (tl l ++ [b]) = length l) by (destruct l; cbn [length tl app] in *; [lia | rewrite app_length; cbn [length]; lia]).
    rewrite IH; [exact E | lia].
  Qed.

  (* after as many bits as the register is long, the register holds exactly those bits *)
  Lemma shift_bits_skipn : forall bs l, (length bs <= length l)%nat ->
    shift_bits l bs = skipn (length bs) l ++ bs.
  Proof.
    induction bs as [|b bs IH]; intros l H; [cbn; rewrite app_nil_r; reflexivity|].
    cbn [shift_bits length] in *. destruct l as [|x l]; [cbn in H; lia|]. cbn [tl length skipn] in *.
    rewrite IH by (rewrite app_length; cbn [length]; lia).
    rewrite skipn_app. replace (length bs - length l)%nat with 0%nat by lia. cbn [skipn].
    rewrite <- app_assoc. reflexivity.
  Qed.

  Lemma shift_bits_full : forall bs l, length bs = length l -> shift_bits l bs = bs.
  Proof. intros bs l H. rewrite shift_bits_skipn by lia. rewrite H, skipn_all. reflexivity. Qed.

  Lemma hd_shift_bits : forall bs l, (length bs < length l)%nat ->
    hd false (shift_bits l bs) = nth (length bs) l false.
  Proof.
    intros bs l H. rewrite shift_bits_skipn by lia.
    pose proof (firstn_skipn (length bs) l) as E.
    destruct (skipn (length bs) l) as [|x r] eqn:Es.
    - assert (L : length (skipn (length bs) l) = 0%nat) by (rewrite Es; reflexivity).
      rewrite skipn_length in L. lia.
    - cbn [app hd]. rewrite <- E. rewrite app_nth2 by (rewrite firstn_length; lia).
      rewrite firstn_length. replace (length bs - Nat.min (length bs) (length l))%nat with 0%nat by lia. reflexivity.
  Qed.
End Transactions.

(* ------------------------------------------------------------------------------------------ *)
(* Whole transactions                                                                          *)
(* ------------------------------------------------------------------------------------------ *)
Section TransactionTheorems.
  Variable c : r_cfg.
  Hypothesis Hrsz : (1 <= rsz c)%nat.
  Variable R : list N.
  Hypothesis HR : length R = length (rw c).

  Notation rstate := (run_state (r_step c)).

  Lemma chain : forall a (Q Q' : r_state -> Prop) st x y,
    (Q (rstate st x) /\ strobes c a st x = 0%nat) ->
    (forall s, Q s -> Q' (rstate s y) /\ strobes c a s y = 0%nat) ->
    Q' (rstate st (x ++ y)) /\ strobes c a st (x ++ y) = 0%nat.
  Proof.
    intros a Q Q' st x y [H1 S1] H2. rewrite rstate_app, strobes_app. destruct (H2 _ H1) as [H3 S3].
    rewrite S1, S3. split; [exact H3 | reflexivity].
  Qed.

  (* the part of a transaction up to the falling edge of the last command bit *)
  Definition cmd_part (n0 : nat) (cinit : list (bool * nat * nat)) (bl : bool) (hil : nat) : list N :=
    select n0 ++ pulses cinit ++ pulse_hi bl hil ++ [inp false bl true].

  Lemma to_cmd_full : forall a st n0 cinit bl hil, IdleP R st -> length (ccmd st) = csz c -> length cinit = asz c ->
    CmdP R false (csz c) (map bit_of cinit ++ [bl]) (rstate st (cmd_part n0 cinit bl hil)) /\
    strobes c a st (cmd_part n0 cinit bl hil) = 0%nat.
  Proof.
    intros a st n0 cinit bl hil HI HL HC. unfold cmd_part.
    assert (Ecmd : tl (shift_bits (ccmd st) (map bit_of cinit)) ++ [bl] = map bit_of cinit ++ [bl]).
    { change (tl (shift_bits (ccmd st) (map bit_of cinit)) ++ [bl])
        with (shift_bits (shift_bits (ccmd st) (map bit_of cinit)) [bl]).
      rewrite <- shift_bits_app. apply shift_bits_full. rewrite app_length, map_length. cbn [length]. unfold csz in HL. lia. }
    apply (chain a (CmdP R false 0 (ccmd st))); [apply idle_select; assumption|].
    intros s1 H1.
    apply (chain a (CmdP R false (asz c) (shift_bits (ccmd st) (map bit_of cinit)))).
    { destruct (cmd_pulses c R HR a cinit 0 (ccmd st) s1 H1) as [A B]; [unfold csz; lia|].
      rewrite HC in A. cbn [Nat.add] in A. split; assumption. }
    intros s2 H2.
    apply (chain a (CmdP R true (asz c) (shift_bits (ccmd st) (map bit_of cinit)))).
    { apply cmd_pulse_hi; [exact HR | exact H2 | unfold csz; lia]. }
    intros s3 H3.
    destruct (cmd_edge c R HR a bl (asz c) _ s3 H3) as [A B]; [unfold csz; lia|].
    rewrite Ecmd in A. split; [exact A | exact B].
  Qed.

  (* ... and up to the end of the wait states: the value of the addressed register has been latched *)
  Definition head_part (n0 : nat) (cinit : list (bool * nat * nat)) (bl : bool) (hil g : nat) : list N :=
    select n0 ++ pulses cinit ++ bit_pulse (bl, hil, (3 + g)%nat).

  Lemma head_part_eq : forall n0 cinit bl hil g,
    head_part n0 cinit bl hil g = cmd_part n0 cinit bl hil ++ repeat (inp false bl true) 3 ++ pulse_lo bl g.
  Proof.
    intros. unfold head_part, cmd_part, bit_pulse, pulse_lo. cbn [repeat Nat.add app].
    rewrite <- !app_assoc. cbn [app]. reflexivity.
  Qed.

  Lemma to_data : forall a st n0 cinit bl hil g, IdleP R st -> length (ccmd st) = csz c -> length cinit = asz c ->
    let cmdv := map bit_of cinit ++ [bl] in
    DatP R cmdv false 0 (w0 c R cmdv) (rstate st (head_part n0 cinit bl hil g)) /\
    strobes c a st (head_part n0 cinit bl hil g) = 0%nat.
  Proof.
    intros a st n0 cinit bl hil g HI HL HC cmdv. rewrite head_part_eq.
    apply (chain a (CmdP R false (csz c) cmdv)); [apply to_cmd_full; assumption|].
    intros s1 H1.
    apply (chain a (DatP R cmdv false 0 (w0 c R cmdv))).
    { cbn [repeat]. pose proof (after_cmd c R HR a false cmdv s1 (inp false bl true) (inp false bl true) (inp false bl true) H1) as [A B].
      rewrite inp_sck in A. split; assumption. }
    intros s2 H2. apply dat_pulse_lo; [exact HR | exact H2 | lia].
  Qed.

  (* ... followed by k < register_size complete data pulses *)
  Lemma to_data_k : forall a st n0 cinit bl hil g dpre, IdleP R st -> length (ccmd st) = csz c ->
    length cinit = asz c -> (length dpre < rsz c)%nat ->
    let cmdv := map bit_of cinit ++ [bl] in
    DatP R cmdv false (length dpre) (shift_bits (w0 c R cmdv) (map bit_of dpre))
         (rstate st (head_part n0 cinit bl hil g ++ pulses dpre)) /\
    strobes c a st (head_part n0 cinit bl hil g ++ pulses dpre) = 0%nat.
  Proof.
    intros a st n0 cinit bl hil g dpre HI HL HC HD cmdv.
    apply (chain a (DatP R cmdv false 0 (w0 c R cmdv))); [apply to_data; assumption|].
    intros s1 H1. destruct (dat_pulses c R HR a dpre cmdv 0 _ s1 H1) as [A B]; [lia|].
    cbn [Nat.add] in A. split; assumption.
  Qed.

  Lemma w0_length : forall cmdv, length (w0 c R cmdv) = rsz c.
  Proof. intros. unfold w0. apply to_msb_length. Qed.

  (* READ-BACK: when the clock pulse of data bit k has been high (i.e. by the falling edge that ends it), sdo
     shows bit k -- most significant first -- of the value the addressed register had when it was latched. *)
  Theorem txn_read_back : forall st n0 cinit bl hil g dpre bk hik, IdleP R st -> length (ccmd st) = csz c ->
    length cinit = asz c -> (length dpre < rsz c)%nat ->
    let cmdv := map bit_of cinit ++ [bl] in
    sdo (rstate st (head_part n0 cinit bl hil g ++ pulses dpre ++ pulse_hi bk hik)) =
      nth (length dpre) (to_msb (rsz c) (read_value c (of_msb (tl cmdv)) R)) false.
  Proof.
    intros st n0 cinit bl hil g dpre bk hik HI HL HC HD cmdv.
    rewrite app_assoc, rstate_app.
    destruct (to_data_k 0 st n0 cinit bl hil g dpre HI HL HC HD) as [A _]. fold cmdv in A.
    destruct (dat_pulse_hi c R HR 0 bk hik cmdv _ _ _ A HD) as (_ & _ & S).
    rewrite S. rewrite hd_shift_bits by (rewrite map_length, w0_length; exact HD).
    rewrite map_length. reflexivity.
  Qed.

  (* COMPLETE TRANSACTION: all register_size data bits are clocked, then chip select is released. *)
  Definition tail_part (dl : bool) (hidl lol n1 : nat) : list N :=
    pulse_hi dl hidl ++ [inp false dl true] ++ pulse_lo dl lol ++ deselect (2 + n1)%nat.

  Lemma finish : forall a cmdv dat st dl lol n1, DatP R cmdv false (rsz c) dat st ->
    IdleP (reg_update c R cmdv dat) (rstate st (pulse_lo dl lol ++ deselect (2 + n1)%nat)) /\
    strobes c a st (pulse_lo dl lol ++ deselect (2 + n1)%nat) = strobe_expected cmdv a.
  Proof.
    intros a cmdv dat st dl lol n1 H.
    pose proof (reg_update_length c R HR cmdv dat) as HL'.
    set (R' := reg_update c R cmdv dat) in *.
    destruct lol as [|[|m]].
    - (* chip select released right after the last falling edge *)
      change (pulse_lo dl 0 ++ deselect (2 + n1)%nat) with (inp false false false :: inp false false false :: deselect n1).
      cbn [run_state r_step fst strobes].
      destruct (complete_cycle c R HR a cmdv false dat st (inp false false false) H) as [(F1 & P1 & W1 & V1 & C1 & G1) S1].
      destruct (strobe_cycle c R a cmdv dat _ (inp false false false) F1 W1 V1 C1 G1) as [(F2 & P2 & Q2) S2].
      rewrite inp_cs in F2. rewrite inp_sck in P2. rewrite S1, S2.
      destruct (idle_hold c R' a n1 _ HL' (conj F2 (conj P2 Q2))) as [A B].
      rewrite B. split; [exact A | lia].
    - change (pulse_lo dl 1 ++ deselect (2 + n1)%nat) with (inp false dl true :: inp false false false :: deselect (S n1)).
      cbn [run_state r_step fst strobes].
      destruct (complete_cycle c R HR a cmdv false dat st (inp false dl true) H) as [(F1 & P1 & W1 & V1 & C1 & G1) S1].
      destruct (strobe_cycle c R a cmdv dat _ (inp false false false) F1 W1 V1 C1 G1) as [(F2 & P2 & Q2) S2].
      rewrite inp_cs in F2. rewrite inp_sck in P2. rewrite S1, S2.
      destruct (idle_hold c R' a (S n1) _ HL' (conj F2 (conj P2 Q2))) as [A B].
      rewrite B. split; [exact A | lia].
    - (* chip select held for a while after the word: STALL until it is released *)
      change (pulse_lo dl (S (S m))) with (inp false dl true :: inp false dl true :: pulse_lo dl m).
      cbn [app run_state r_step fst strobes].
      destruct (complete_cycle c R HR a cmdv false dat st (inp false dl true) H) as [(F1 & P1 & W1 & V1 & C1 & G1) S1].
      destruct (strobe_cycle c R a cmdv dat _ (inp false dl true) F1 W1 V1 C1 G1) as [(F2 & P2 & Q2) S2].
      rewrite inp_cs in F2. rewrite inp_sck in P2. rewrite S1, S2.
      rewrite rstate_app, strobes_app.
      destruct (stall_hold c R' a dl m _ HL' (conj F2 (conj P2 Q2))) as [A B]. rewrite B.
      change (deselect (2 + n1)%nat) with (inp false false false :: deselect (S n1)).
      cbn [run_state r_step fst strobes].
      destruct (stall_release c R' a _ HL' A) as [A2 B2]. rewrite B2.
      destruct (idle_hold c R' a (S n1) _ HL' A2) as [A3 B3]. rewrite B3. split; [exact A3 | lia].
  Qed.

  Theorem txn_complete : forall a st n0 cinit bl hil g dinit dl hidl lol n1,
    IdleP R st -> length (ccmd st) = csz c -> length cinit = asz c -> S (length dinit) = rsz c ->
    let cmdv := map bit_of cinit ++ [bl] in
    let dat := map bit_of dinit ++ [dl] in
    let tr := head_part n0 cinit bl hil g ++ pulses dinit ++ tail_part dl hidl lol n1 in
    IdleP (reg_update c R cmdv dat) (rstate st tr) /\ strobes c a st tr = strobe_expected cmdv a.
  Proof.
    intros a st n0 cinit bl hil g dinit dl hidl lol n1 HI HL HC HD cmdv dat tr. unfold tr, tail_part.
    rewrite app_assoc. rewrite rstate_app, strobes_app.
    destruct (to_data_k a st n0 cinit bl hil g dinit HI HL HC) as [A B]; [lia|]. fold cmdv in A. rewrite B.
    rewrite rstate_app, strobes_app.
    destruct (dat_pulse_hi c R HR a dl hidl cmdv _ _ _ A) as (A1 & B1 & _); [lia|]. rewrite B1.
    change ([inp false dl true] ++ pulse_lo dl lol ++ deselect (2 + n1)%nat)
      with ([inp false dl true] ++ (pulse_lo dl lol ++ deselect (2 + n1)%nat)).
    rewrite rstate_app, strobes_app.
    destruct (dat_edge c R HR a dl cmdv _ _ _ A1) as [A2 B2]; [lia|]. rewrite B2.
    assert (Edat : tl (shift_bits (w0 c R cmdv) (map bit_of dinit)) ++ [dl] = dat).
    { change (tl (shift_bits (w0 c R cmdv) (map bit_of dinit)) ++ [dl])
        with (shift_bits (shift_bits (w0 c R cmdv) (map bit_of dinit)) [dl]).
      rewrite <- shift_bits_app. apply shift_bits_full. unfold dat.
      rewrite app_length, map_length, w0_length. cbn [length]. lia. }
    rewrite Edat, HD in A2.
    destruct (finish a cmdv dat _ dl lol n1 A2) as [A3 B3]. rewrite B3. split; [exact A3 | lia].
  Qed.

  (* ABORT: chip select released after any number of complete clock pulses short of a whole transaction
     -- during the command, or after fewer than register_size data bits: nothing is written, no strobe *)
  Theorem txn_abort_in_command : forall a st n0 cpre n1, IdleP R st -> (length cpre <= asz c)%nat ->
    let tr := select n0 ++ pulses cpre ++ deselect (S n1) in
    IdleP R (rstate st tr) /\ strobes c a st tr = 0%nat.
  Proof.
    intros a st n0 cpre n1 HI HC tr. unfold tr.
    apply (chain a (CmdP R false 0 (ccmd st))); [apply idle_select; assumption|].
    intros s1 H1.
    apply (chain a (CmdP R false (length cpre) (shift_bits (ccmd st) (map bit_of cpre)))).
    { destruct (cmd_pulses c R HR a cpre 0 (ccmd st) s1 H1) as [A B]; [unfold csz; lia|].
      cbn [Nat.add] in A. split; assumption. }
    intros s2 H2. cbn [deselect repeat run_state r_step fst strobes].
    destruct (cmd_abort c R a _ _ s2 HR H2) as [A B]; [unfold csz; lia|]. rewrite B.
    destruct (idle_hold c R a n1 _ HR A) as [A2 B2]. fold (deselect n1). rewrite B2. split; [exact A2 | reflexivity].
  Qed.

  Theorem txn_abort_in_data : forall a st n0 cinit bl hil g dpre n1, IdleP R st -> length (ccmd st) = csz c ->
    length cinit = asz c -> (length dpre < rsz c)%nat ->
    let tr := head_part n0 cinit bl hil g ++ pulses dpre ++ deselect (S n1) in
    IdleP R (rstate st tr) /\ strobes c a st tr = 0%nat.
  Proof.
    intros a st n0 cinit bl hil g dpre n1 HI HL HC HD tr. unfold tr. rewrite app_assoc.
    set (cmdv := map bit_of cinit ++ [bl]).
    apply (chain a (DatP R cmdv false (length dpre) (shift_bits (w0 c R cmdv) (map bit_of dpre)))).
    { apply to_data_k; assumption. }
    intros s2 H2. cbn [deselect repeat run_state r_step fst strobes].
    destruct (dat_abort c R a _ _ _ s2 HR H2 HD) as [A B]. rewrite B.
    destruct (idle_hold c R a n1 _ HR A) as [A2 B2]. fold (deselect n1). rewrite B2. split; [exact A2 | reflexivity].
  Qed.
End TransactionTheorems.

(* ------------------------------------------------------------------------------------------ *)
(* General safety, no assumption on the pins at all: as long as the interface is never in SHIFT_DATA with all  *)
(* register_size bits counted, no register changes and no write strobe fires.                                  *)
(* ------------------------------------------------------------------------------------------ *)
Section Safety.
  Variable c : r_cfg.
  Definition full (st : r_state) : bool :=
    match fsm st with SHIFT_DATA => negb (cnt st <? N.of_nat (rsz c)) | _ => false end.
  Fixpoint never_full (st : r_state) (tr : list N) : bool :=
    match tr with [] => true | i :: t => negb (full st) && never_full (r_next c st i) t end.

  Lemma safe_step : forall R st i, length R = length (rw c) -> quiet R st -> full st = false ->
    quiet R (r_next c st i).
  Proof.
    intros R st i HR HQ HF. pose proof (quiet_regs_next c R st HR HQ) as HRn.
    unfold quiet, r_next, full in *. destruct (fsm st);
      cbn [fsm past_sck cnt ccmd cword wcomplete command wrecv sdo regs]; try (split; [reflexivity | exact HRn]).
    - destruct (cnt st <? N.of_nat (csz c)); cbn [wcomplete regs]; split; (reflexivity || exact HRn).
    - destruct (cnt st <? N.of_nat (rsz c)); [|discriminate]. cbn [wcomplete regs]. split; [reflexivity | exact HRn].
  Qed.

  Theorem no_write_unless_full : forall R a tr st, length R = length (rw c) -> quiet R st -> never_full st tr = true ->
    quiet R (run_state (r_step c) st tr) /\ strobes c a st tr = 0%nat.
  Proof.
    intros R a. induction tr as [|i t IH]; intros st HR HQ HN; [split; [exact HQ | reflexivity]|].
    cbn [never_full] in HN. apply andb_true_iff in HN as [H1 H2]. apply negb_true_iff in H1.
    cbn [run_state r_step fst strobes]. rewrite (quiet_strobe R st a HQ).
    apply IH; [exact HR | apply safe_step; assumption | exact H2].
  Qed.
End Safety.

(* a read transaction (write flag 0) leaves every register as it was *)
Lemma reg_update_read : forall c R cmdv dat, length R = length (rw c) -> hd false cmdv = false ->
  reg_update c R cmdv dat = R.
Proof.
  intros c R cmdv dat HR H. unfold reg_update. rewrite H. cbn [andb].
  rewrite (map_ext _ snd) by reflexivity. apply map_snd_combine. symmetry. exact HR.
Qed.

(* from reset, one cycle with chip select low brings the interface to IDLE (the premise of the theorems) *)
Lemma idle_after_reset : forall c, IdleP (repeat 0 (length (rw c))) (r_next c (r_init c) (inp false false false)) /\
  length (ccmd (r_next c (r_init c) (inp false false false))) = csz c.
Proof.
  intros c. unfold IdleP, quiet, r_next, r_init.
  cbn [fsm past_sck cnt ccmd cword wcomplete command wrecv sdo regs]. rewrite inp_cs, inp_sck.
  cbn [fsm past_sck cnt ccmd cword wcomplete command wrecv sdo regs]. repeat split.
  - unfold regs_next. cbn [regs wcomplete]. 
    assert (E : forall av : N * N, (if strobe {| fsm := STALL; past_sck := false; cnt := 0; ccmd := repeat false (csz c);
                  cword := repeat false (rsz c); wcomplete := false; command := repeat false (csz c);
                  wrecv := repeat false (rsz c); sdo := false; regs := repeat 0 (length (rw c)) |} (fst av)
                then of_msb (repeat false (rsz c)) else snd av) = snd av).
    { intros av. unfold strobe. cbn [wcomplete]. rewrite andb_false_r. reflexivity. }
    rewrite (map_ext _ _ E). apply map_snd_combine. rewrite repeat_length. reflexivity.
  - apply repeat_length.
Qed.

(* the output of the last cycle of a run is the output function of the state reached before it *)
Lemma run_last : forall (S : Type) (step : S -> N -> S * N) tr st i d,
  last (run step st (tr ++ [i])) d = snd (step (run_state step st tr) i).
Proof.
  intros S step. induction tr as [|j t IH]; intros st i d.
  - cbn [app run run_state]. destruct (step st i) as [s' o]. reflexivity.
  - cbn [app run run_state]. destruct (step st j) as [s' o] eqn:E. cbn [fst].
    specialize (IH s' i d). destruct (run step s' (t ++ [i])) as [|x r] eqn:Er.
    + exfalso. pose proof (run_length step (t ++ [i]) s') as L. rewrite Er, app_length in L. cbn in L. lia.
    + change (last (o :: x :: r) d) with (last (x :: r) d). exact IH.
Qed.
