(* C31 -- hand model of luna/gateware/usb/usb3/physical/scrambling.py: Scrambler / Descrambler,
   on top of the bit-serial LFSR reference of Model/Crc.v (lfsr_bits). *)
From Coq Require Import NArith List Bool.
Import ListNotations.
From LunaLib Require Import Netlist Bits Affine Machine.
From LunaModel Require Import Crc.
Open Scope N_scope.

Definition COM : N := 188.   (* K28.5 = 0xBC *)

(* keystream word (4 bytes, byte i in bits 8i..8i+7) and register after one word (32 shifts) *)
Definition ks_word (reg : list bool) : N := bits2N (snd (lfsr_bits 32 reg)).
Definition lfsr_next (reg : list bool) : list bool := fst (lfsr_bits 32 reg).

(* a word on the stream: 32 data bits + 4 control flags *)
Definition byte_of (data : N) (i : N) : N := bits data (8 * i) 8.
Definition is_ctrl (ctrl : N) (i : N) : bool := N.odd (bits ctrl i 1).

(* per-symbol XOR: data symbols only, control symbols pass *)
Definition xor_byte (enable : bool) (ks data ctrl : N) (i : N) : N :=
  if enable && negb (is_ctrl ctrl i) then N.lxor (byte_of data i) (byte_of ks i) else byte_of data i.
Definition xor_word (enable : bool) (ks data ctrl : N) : N :=
  xor_byte enable ks data ctrl 0 + N.shiftl (xor_byte enable ks data ctrl 1) 8 +
  N.shiftl (xor_byte enable ks data ctrl 2) 16 + N.shiftl (xor_byte enable ks data ctrl 3) 24.

Definition com_first (data ctrl : N) : bool := N.eqb (byte_of data 0) COM && is_ctrl ctrl 0.

(* ---- word-level (pure) scrambling of the sequence of transferred words ---------------------- *)
Section Words.
  Variable init : list bool.     (* restart value of the LFSR *)
  Variable enable : bool.
  Fixpoint scramble_words (reg : list bool) (ws : list (N * N)) : list (N * N) :=
    match ws with
    | [] => []
    | (d, c) :: t =>
        (xor_word enable (ks_word reg) d c, c) ::
        scramble_words (if com_first d c then init else lfsr_next reg) t
    end.
End Words.

(* ---- cycle-level module model --------------------------------------------------------------
   inputs : clear(1) enable(1) hold(1) sink_data(32) sink_ctrl(4) sink_valid(1) source_ready(1)
   outputs: source_data(32) source_ctrl(4) source_valid(1) sink_ready(1)                        *)
Section Cycle.
  Variable init : list bool.
  Definition scr_step (reg : list bool) (i : N) : list bool * N :=
    let clear := N.odd (bits i 0 1) in let enable := N.odd (bits i 1 1) in
    let hold := N.odd (bits i 2 1) in
    let data := bits i 3 32 in let ctrl := bits i 35 4 in
    let valid := N.odd (bits i 39 1) in let ready := N.odd (bits i 40 1) in
    let comma := valid && com_first data ctrl in
    let reg' := if clear || comma then init
                else if valid && ready && negb hold then lfsr_next reg else reg in
    (reg', xor_word enable (ks_word reg) data ctrl + N.shiftl ctrl 32 + N.shiftl (b2n valid) 36
           + N.shiftl (b2n ready) 37).
End Cycle.

Definition lfsr_init (v : N) : list bool := N2bits 16 v.

(* ---- specification as a runtime monitor over implementation traces (monitor state = packed
   reference LFSR register): in every transferring cycle the word handed over must be the
   reference scrambling of the offered word; the reference register follows the word-level rule. *)
Definition scr_mon (init : N) (m i o : N) : option (N * bool) :=
  let clear := N.odd (bits i 0 1) in let enable := N.odd (bits i 1 1) in
  let hold := N.odd (bits i 2 1) in
  let data := bits i 3 32 in let ctrl := bits i 35 4 in
  let valid := N.odd (bits i 39 1) in let ready := N.odd (bits i 40 1) in
  let xfer := valid && ready && negb hold in
  if clear || (valid && com_first data ctrl && negb xfer) then None
  else
    let reg := N2bits 16 m in
    if xfer then
      Some (bits2N (if com_first data ctrl then lfsr_init init else lfsr_next reg),
            N.eqb (bits o 0 32) (xor_word enable (ks_word reg) data ctrl) && N.eqb (bits o 32 4) ctrl)
    else Some (m, true).
