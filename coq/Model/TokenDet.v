(* C01 -- hand model of luna/gateware/usb/usb2/packet.py: USBTokenDetector (the token/SOF parser; its
   inter-packet timer `ready_for_response` is the subject of C05 and is not part of this model),
   parametric in `filt` = the constructor flag filter_by_address, and its specification.

   Packed ports.  inputs : rx_active (bit 0), rx_valid (bit 1), rx_data (bits 2..9), address (bits 10..16)
                  outputs: new_token (bit 0), pid (1..4), address (5..11), endpoint (12..15),
                           new_frame (bit 16), frame (17..27)       -- all six are registers.

   The UTMI receive side (d_act / d_val / d_dat, the packetiser pk_next / pk_done, pid_byte, valid_pid)
   is shared with the handshake detector's model (Model/Handshake.v).                                *)
From Coq Require Import NArith List Bool.
Import ListNotations.
From LunaLib Require Import Netlist Bits Machine.
From LunaModel Require Import Crc Handshake.
Open Scope N_scope.

Definition t_address (i : N) : N := bits i 10 7.      (* the device address input of this cycle *)

(* the six output registers *)
Record tok_regs := { t_new_token : bool; t_pid : N; t_addr : N; t_ep : N; t_new_frame : bool; t_frame : N }.
Definition regs_init : tok_regs :=
  {| t_new_token := false; t_pid := 0; t_addr := 0; t_ep := 0; t_new_frame := false; t_frame := 0 |}.
Definition regs_out (r : tok_regs) : N :=
  b2n (t_new_token r) + 2 * (t_pid r + 16 * (t_addr r + 128 * (t_ep r + 16 * (b2n (t_new_frame r) + 2 * t_frame r)))).

(* ============================== specification ================================================ *)
(* PIDs (USB 2.0 table 8-1); on the wire a PID p is the byte pid_byte p = p + 16 * (15 - p). *)
Definition PID_OUT : N := 1.
Definition PID_IN : N := 9.
Definition PID_SETUP : N := 13.
Definition PID_PING : N := 4.
Definition PID_SOF : N := 5.
Definition token_pids : list N := [PID_OUT; PID_IN; PID_SETUP; PID_PING].

(* the two bytes after the PID: 11 payload bits (address[7] endpoint[4], or the frame number), 5 CRC bits *)
Definition tok_payload (b0 b1 : N) : N := b0 + 256 * (b1 mod 8).
Definition tok_crc (b1 : N) : N := b1 / 8.

(* what a complete packet (its byte list) means to a device whose address is `addr` *)
Inductive tok_event :=
| EvNone                          (* not a well-formed token: no effect *)
| EvSof (frame : N)               (* well-formed start of frame *)
| EvToken (pid addr ep : N)       (* well-formed IN/OUT/SETUP/PING for this device *)
| EvForeign.                      (* well-formed IN/OUT/SETUP/PING for another address *)

Definition classify (filt : bool) (addr : N) (pkt : list N) : tok_event :=
  match pkt with
  | [p; b0; b1] =>
      let v := tok_payload b0 b1 in
      if negb (crc5_usb v =? tok_crc b1) then EvNone
      else if p =? pid_byte PID_SOF then EvSof v
      else match find (fun q => p =? pid_byte q) token_pids with
           | Some q => if negb filt || (v mod 128 =? addr) then EvToken q (v mod 128) (v / 128) else EvForeign
           | None => EvNone
           end
  | _ => EvNone
  end.

(* effect of an event on the output registers; strobes last one cycle.  A token for another address
   clears the reported pid (so that following data packets are not attributed to the last own token). *)
Definition apply_event (e : tok_event) (r : tok_regs) : tok_regs :=
  match e with
  | EvNone => {| t_new_token := false; t_pid := t_pid r; t_addr := t_addr r; t_ep := t_ep r;
                 t_new_frame := false; t_frame := t_frame r |}
  | EvSof f => {| t_new_token := false; t_pid := t_pid r; t_addr := t_addr r; t_ep := t_ep r;
                  t_new_frame := true; t_frame := f |}
  | EvToken p a e => {| t_new_token := true; t_pid := p; t_addr := a; t_ep := e;
                        t_new_frame := false; t_frame := t_frame r |}
  | EvForeign => {| t_new_token := false; t_pid := 0; t_addr := t_addr r; t_ep := t_ep r;
                    t_new_frame := false; t_frame := t_frame r |}
  end.

(* The specification machine.  State: the bytes of the packet in progress (None between packets;
   Handshake.pk_next: a packet is a maximal run of rx_active cycles, its bytes are rx_data in the
   rx_valid cycles of the run other than the run's first cycle) and the output registers.
   In the cycle in which rx_active falls (pk_done) the completed byte list is classified against the
   device address presented in that cycle; the registers show the result from the next cycle on. *)
Definition tok_event_of (filt : bool) (p : option (list N)) (i : N) : tok_event :=
  match pk_done p i with Some pkt => classify filt (t_address i) pkt | None => EvNone end.

Definition tsp_state := (option (list N) * tok_regs)%type.
Definition tsp_step (filt : bool) (s : tsp_state) (i : N) : tsp_state * N :=
  let (p, r) := s in
  ((pk_next p i, apply_event (tok_event_of filt p i) r), regs_out r).
Definition tsp_init : tsp_state := (None, regs_init).

(* closed forms, for reading the specification: the packet in progress after a history, as a
   function of the history alone ... *)
Definition cur_pkt (h : list N) : option (list N) := fold_left pk_next h None.
(* ... = the bytes of the maximal all-rx_active suffix of the history (proved in TokenDet_proofs) *)
Fixpoint active_prefix (rh : list N) : list N :=          (* rh: newest cycle first *)
  match rh with [] => [] | i :: t => if d_act i then i :: active_prefix t else [] end.
Definition run_cycles (h : list N) : list N := rev (active_prefix (rev h)).   (* oldest first *)
Definition run_bytes (cycles : list N) : list N := map d_dat (filter d_val (tl cycles)).
Definition pkt_in_progress (h : list N) : option (list N) :=
  match run_cycles h with [] => None | c => Some (run_bytes c) end.

(* the registers after a history *)
Definition regs_after (filt : bool) (h : list N) : tok_regs := snd (run_state (tsp_step filt) tsp_init h).

(* ============================== the module ==================================================== *)
Inductive td_fsm := T_IDLE | T_READ_PID | T_READ_TOKEN_0 | T_IRRELEVANT | T_READ_TOKEN_1 | T_TOKEN_COMPLETE.
Record td_state := { td_f : td_fsm; td_cpid : N (* current_pid, 4 bits *); td_data : N (* token_data, 11 bits *);
                     td_regs : tok_regs }.
Definition td_init : td_state := {| td_f := T_IDLE; td_cpid := 0; td_data := 0; td_regs := regs_init |}.

(* READ_PID: (is_normal_token | is_ping_token) & is_valid_pid *)
Definition accept_pid (d : N) : bool := ((bits d 0 2 =? 1) || (bits d 0 4 =? 4)) && valid_pid d.

Definition td_step (filt : bool) (s : td_state) (i : N) : td_state * N :=
  let act := d_act i in let val := d_val i in let d := d_dat i in
  let r := td_regs s in
  let r0 := apply_event EvNone r in                     (* strobes fall unless set *)
  let mk f p t rr := {| td_f := f; td_cpid := p; td_data := t; td_regs := rr |} in
  let cp := td_cpid s in let td := td_data s in
  (match td_f s with
   | T_IDLE => mk (if act then T_READ_PID else T_IDLE) cp td r0
   | T_READ_PID =>
       if negb act then mk T_IDLE cp td r0
       else if val then
         if accept_pid d then mk T_READ_TOKEN_0 (bits d 0 4) td r0 else mk T_IRRELEVANT cp td r0
       else mk T_READ_PID cp td r0
   | T_READ_TOKEN_0 =>
       if negb act then mk T_IDLE cp td r0
       else if val then mk T_READ_TOKEN_1 cp d r0              (* token_data <= rx_data *)
       else mk T_READ_TOKEN_0 cp td r0
   | T_READ_TOKEN_1 =>
       if negb act then mk T_IDLE cp td r0
       else if val then
         let v := bits td 0 8 + 256 * bits d 0 3 in          (* Cat(token_data[0:8], rx_data[0:3]) *)
         if bits d 3 5 =? crc5_usb v then mk T_TOKEN_COMPLETE cp v r0   (* token_data[8:] <= rx_data *)
         else mk T_IRRELEVANT cp td r0
       else mk T_READ_TOKEN_1 cp td r0
   | T_TOKEN_COMPLETE =>
       if negb act then
         if cp =? 5 then mk T_IDLE cp td (apply_event (EvSof td) r)
         else if negb filt || (bits td 0 7 =? t_address i)
              then mk T_IDLE cp td (apply_event (EvToken cp (bits td 0 7) (bits td 7 4)) r)
              else mk T_IDLE cp td (apply_event EvForeign r)
       else if val then mk T_IRRELEVANT cp td r0
       else mk T_TOKEN_COMPLETE cp td r0
   | T_IRRELEVANT => mk (if act then T_IRRELEVANT else T_IDLE) cp td r0
   end, regs_out r).

(* ---- packing, for lock-step obligations (every field is below 2^11) ---- *)
Definition td_fsm_code (f : td_fsm) : N :=
  match f with T_IDLE => 0 | T_READ_PID => 1 | T_READ_TOKEN_0 => 2 | T_IRRELEVANT => 3
             | T_READ_TOKEN_1 => 4 | T_TOKEN_COMPLETE => 5 end.
Definition td_fsm_of (c : N) : td_fsm :=
  match c with 0 => T_IDLE | 1 => T_READ_PID | 2 => T_READ_TOKEN_0 | 3 => T_IRRELEVANT
             | 4 => T_READ_TOKEN_1 | _ => T_TOKEN_COMPLETE end.
Definition td_fields (s : td_state) : list N :=
  let r := td_regs s in
  [td_fsm_code (td_f s); td_cpid s; td_data s; b2n (t_new_token r); t_pid r; t_addr r; t_ep r;
   b2n (t_new_frame r); t_frame r].
Definition td_of_fields (l : list N) : td_state :=
  match l with
  | [f; cp; td; nt; p; a; e; nf; fr] =>
      {| td_f := td_fsm_of f; td_cpid := cp; td_data := td;
         td_regs := {| t_new_token := N.odd nt; t_pid := p; t_addr := a; t_ep := e;
                       t_new_frame := N.odd nf; t_frame := fr |} |}
  | _ => td_init
  end.
From LunaLib Require Import PackN.
Definition td_enc (s : td_state) : N := pack 2048 (td_fields s).
(* = PackN.unpack 2048, with masks and shifts (fast under vm_compute on wide numbers) *)
Fixpoint unpack11 (k : nat) (n : N) : list N :=
  match k with O => [] | S k' => N.land n 2047 :: unpack11 k' (N.shiftr n 11) end.
Definition td_dec (m : N) : td_state := td_of_fields (unpack11 9 m).
Definition regs_ok (r : tok_regs) : Prop := t_pid r < 16 /\ t_addr r < 128 /\ t_ep r < 16 /\ t_frame r < 2048.
Definition td_wf (s : td_state) : Prop := td_cpid s < 16 /\ td_data s < 2048 /\ regs_ok (td_regs s).

(* ---- the specification machine packed into N, so that it can run as a monitor (runtime oracle) over
   recorded traces of the implementation: byte list l as the base-256 numeral 1 l_0 l_1 ... ---- *)
Definition bytes_enc (l : list N) : N := fold_left (fun a b => a * 256 + b) l 1.
Fixpoint bytes_dec_aux (fuel : nat) (n : N) (acc : list N) : list N :=
  match fuel with
  | O => acc
  | S f => if n <=? 1 then acc else bytes_dec_aux f (N.shiftr n 8) (N.land n 255 :: acc)
  end.
Definition bytes_dec (n : N) : list N := bytes_dec_aux (N.to_nat (N.size n)) n [].
Definition regs_enc (r : tok_regs) : N :=
  pack 2048 [b2n (t_new_token r); t_pid r; t_addr r; t_ep r; b2n (t_new_frame r); t_frame r].
Definition regs_dec (m : N) : tok_regs :=
  match unpack11 6 m with
  | [nt; p; a; e; nf; fr] => {| t_new_token := N.odd nt; t_pid := p; t_addr := a; t_ep := e;
                                t_new_frame := N.odd nf; t_frame := fr |}
  | _ => regs_init
  end.
(* 66 bits of registers below, packet (0 = none, else bytes_enc) above *)
Definition tsp_enc (s : tsp_state) : N :=
  regs_enc (snd s) + 2 ^ 66 * match fst s with None => 0 | Some l => bytes_enc l end.
Definition tsp_dec (m : N) : tsp_state :=
  (match N.shiftr m 66 with 0 => None | n => Some (bytes_dec n) end, regs_dec (N.land m (N.ones 66))).

(* ---- single-packet stimuli for exhaustive sweeps of the regenerated netlist from reset ---- *)
Definition rx_cyc (act val dat addr : N) : N := act + 2 * val + 4 * dat + 1024 * addr.
(* a three-byte packet with the device address held at `addr`, then two idle cycles *)
Definition tok_trace (pid b0 b1 addr : N) : list N :=
  [rx_cyc 1 0 0 addr; rx_cyc 1 1 pid addr; rx_cyc 1 1 b0 addr; rx_cyc 1 1 b1 addr; rx_cyc 0 0 0 addr; rx_cyc 0 0 0 addr].
(* sweep index x -> trace.  `off` is added to the token's own address to form the device address
   (0: the token is for this device; otherwise it is foreign). *)
(* (a) all 2^16 byte pairs after the PID *)
Definition sweep_pairs (pid off : N) (x : N) : list N :=
  let b0 := N.land x 255 in let b1 := N.shiftr x 8 in
  tok_trace pid b0 b1 (N.land (b0 + off) 127).
(* (b) all 2^11 payloads, each with its correct CRC5 xor one of 8 error masks (mask 0 = well-formed) *)
Definition crc_masks : list N := [0; 1; 2; 4; 8; 16; 31; 21].
Definition sweep_payloads (pid off : N) (x : N) : list N :=
  let v := N.land x 2047 in let m := nth (N.to_nat (N.shiftr x 11)) crc_masks 0 in
  let b0 := N.land v 255 in let b1 := N.shiftr v 8 + 8 * N.lxor (crc5_usb v) m in
  tok_trace pid b0 b1 (N.land (b0 + off) 127).
Definition sweep_eq (gstep : N -> N -> N * N) (ginit : N) (filt : bool) (w : nat) (mk : N -> list N) : bool :=
  forall_bits w (fun x => list_eqb (run gstep ginit (mk x)) (run (td_step filt) td_init (mk x))).
