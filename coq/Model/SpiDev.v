(* C50 -- hand model of luna/gateware/interface/spi.py: SPIDeviceInterface, parametric in word_size,
   clock_polarity, clock_phase, msb_first, cs_idles_high, and its specification.

   The model is the PROPERTY-SATISFYING behaviour: the bit counter restarts at 0 when a word completes.
   The code as it stands only clears bit_count while chip select is inactive and otherwise lets the
   Signal(range(word_size)) wrap at 2^width; the two agree iff word_size is a power of two.  `d_step` takes a
   flag `fixed` so that the as-is behaviour (fixed = false) can be exhibited and refuted (Properties/C50.v).

   Words are lists of booleans, index 0 = bit 0 (least significant).
   Packed ports (first = least significant):
     in : sck(1) sdi(1) cs(1) word_out(ws)       out: word_in(ws) word_complete(1) word_accepted(1) sdo(1)   *)
From Coq Require Import NArith List Bool.
Import ListNotations.
From LunaLib Require Import Netlist Bits Machine.
Open Scope N_scope.

(* ------------------------------------------------------------------------------------------ *)
(* What both the model and the specification read off the pins in one cycle                    *)
(* ------------------------------------------------------------------------------------------ *)
Record spi_cfg := { ws : nat; cpol : bool; cpha : bool; msb : bool; csh : bool }.

Definition in_sck (i : N) : bool := N.testbit i 0.
Definition in_sdi (i : N) : bool := N.testbit i 1.
Definition in_cs (i : N) : bool := N.testbit i 2.
Definition in_wout (c : spi_cfg) (i : N) : list bool := N2bits (ws c) (N.shiftr i 3).

(* serial clock after polarity correction; `prev` is its value in the previous cycle (0 after reset) *)
Definition sclk (c : spi_cfg) (i : N) : bool := xorb (in_sck i) (cpol c).
Definition leading (c : spi_cfg) (prev : bool) (i : N) : bool := negb prev && sclk c i.
Definition trailing (c : spi_cfg) (prev : bool) (i : N) : bool := prev && negb (sclk c i).
Definition sample_edge (c : spi_cfg) (prev : bool) (i : N) : bool :=
  if cpha c then trailing c prev i else leading c prev i.
Definition output_edge (c : spi_cfg) (prev : bool) (i : N) : bool :=
  if cpha c then leading c prev i else trailing c prev i.
Definition selected (c : spi_cfg) (i : N) : bool := xorb (in_cs i) (csh c).

Definition spi_pack (c : spi_cfg) (word_in : list bool) (complete accepted sdo : bool) : N :=
  bits2N word_in + 2 ^ N.of_nat (ws c) * (b2n complete + 2 * b2n accepted + 4 * b2n sdo).

(* ------------------------------------------------------------------------------------------ *)
(* Specification machine                                                                       *)
(* ------------------------------------------------------------------------------------------ *)
(* Receive: `s_acc` = the bits sampled so far for the current word, newest first; cleared whenever chip select
   is inactive.  The sample edge that brings it to word_size bits completes the word: the word is flagged on
   word_accepted in the next cycle and presented on word_in with word_complete one cycle after that, once; the
   collection restarts empty.
   Transmit: `s_load` = the word most recently latched from word_out (while chip select is inactive, and at
   every word completion), `s_sent` = number of output edges since.  The (j+1)-th output edge after a latch puts
   bit ws-1-j of the latched word on sdo (msb_first; its bit j otherwise); further output edges without a new
   latch repeat the last bit. *)
Record sp_state := { s_clk : bool; s_acc : list bool; s_pend : option (list bool);
                     s_win : list bool; s_wc : bool;
                     s_load : list bool; s_sent : nat; s_sdo : bool }.

(* the word (index 0 = bit 0) formed by ws sampled bits given newest first *)
Definition word_bits (c : spi_cfg) (newest_first : list bool) : list bool :=
  if msb c then newest_first else rev newest_first.

Definition tx_bit (c : spi_cfg) (w : list bool) (j : nat) : bool :=
  if msb c then nth (ws c - 1 - j) w false else nth (Nat.min j (ws c - 1)) w false.

Definition is_some {A} (o : option A) : bool := match o with Some _ => true | None => false end.

Definition sp_init (c : spi_cfg) : sp_state :=
  {| s_clk := false; s_acc := []; s_pend := None; s_win := repeat false (ws c); s_wc := false;
     s_load := repeat false (ws c); s_sent := O; s_sdo := false |}.

Definition sp_next (c : spi_cfg) (st : sp_state) (i : N) : sp_state :=
  let sel := selected c i in
  let smp := sel && sample_edge c (s_clk st) i in
  let out := sel && output_edge c (s_clk st) i in
  let completes := smp && Nat.eqb (S (length (s_acc st))) (ws c) in
  let latch := negb sel || completes in
  {| s_clk := sclk c i;
     s_acc := if negb sel || completes then [] else if smp then in_sdi i :: s_acc st else s_acc st;
     s_pend := if completes then Some (word_bits c (in_sdi i :: s_acc st)) else None;
     s_win := match s_pend st with Some w => w | None => s_win st end;
     s_wc := is_some (s_pend st);
     s_load := if latch then in_wout c i else s_load st;
     s_sent := if latch then O else if out then S (s_sent st) else s_sent st;
     s_sdo := if out then tx_bit c (s_load st) (s_sent st) else s_sdo st |}.

Definition sp_out (c : spi_cfg) (st : sp_state) : N :=
  spi_pack c (s_win st) (s_wc st) (is_some (s_pend st)) (s_sdo st).
Definition sp_step (c : spi_cfg) (st : sp_state) (i : N) : sp_state * N := (sp_next c st i, sp_out c st).

(* ------------------------------------------------------------------------------------------ *)
(* Code-shaped model                                                                           *)
(* ------------------------------------------------------------------------------------------ *)
Record d_state := { d_clk : bool; d_cnt : N; d_tx : list bool; d_rx : list bool;
                    d_win : list bool; d_wc : bool; d_wa : bool; d_sdo : bool }.

(* width of Signal(range(0, word_size)) *)
Definition cnt_width (c : spi_cfg) : N := N.size (N.of_nat (ws c) - 1).

(* current_rx.eq(Cat(sdi, current_rx[:-1]))  /  current_rx.eq(Cat(current_rx[1:], sdi)) *)
Definition shift_in (c : spi_cfg) (sdi : bool) (rx : list bool) : list bool :=
  if msb c then sdi :: removelast rx else tl rx ++ [sdi].
(* Cat(current_tx[1:], sdo).eq(current_tx)  /  Cat(sdo, current_tx[:-1]).eq(current_tx) *)
Definition shift_out (c : spi_cfg) (tx : list bool) : list bool :=
  if msb c then hd false tx :: removelast tx else tl tx ++ [last tx false].
Definition out_bit (c : spi_cfg) (tx : list bool) : bool :=
  if msb c then last tx false else hd false tx.

Definition d_init (c : spi_cfg) : d_state :=
  {| d_clk := false; d_cnt := 0; d_tx := repeat false (ws c); d_rx := repeat false (ws c);
     d_win := repeat false (ws c); d_wc := false; d_wa := false; d_sdo := false |}.

Definition d_next (fixed : bool) (c : spi_cfg) (st : d_state) (i : N) : d_state :=
  let sel := selected c i in
  let smp := sample_edge c (d_clk st) i in
  let out := output_edge c (d_clk st) i in
  let completing := d_cnt st + 1 =? N.of_nat (ws c) in
  let cnt1 := (d_cnt st + 1) mod 2 ^ cnt_width c in
  {| d_clk := sclk c i;
     d_win := if d_wa st then d_rx st else d_win st;
     d_wc := d_wa st;
     d_wa := sel && smp && completing;
     d_cnt := if sel then
                if smp then (if completing && fixed then 0 else cnt1) else d_cnt st
              else 0;
     d_rx := if sel && smp then shift_in c (in_sdi i) (d_rx st) else d_rx st;
     d_tx := if sel then
               if smp && completing then in_wout c i
               else if out then shift_out c (d_tx st) else d_tx st
             else in_wout c i;
     d_sdo := if sel && out then out_bit c (d_tx st) else d_sdo st |}.

Definition d_out (c : spi_cfg) (st : d_state) : N := spi_pack c (d_win st) (d_wc st) (d_wa st) (d_sdo st).
Definition d_step (fixed : bool) (c : spi_cfg) (st : d_state) (i : N) : d_state * N :=
  (d_next fixed c st i, d_out c st).

(* packing for lock-step obligations: clk wc wa sdo | tx(ws) | rx(ws) | win(ws) | cnt *)
Definition d_enc (c : spi_cfg) (st : d_state) : N :=
  let k := 2 ^ N.of_nat (ws c) in
  (b2n (d_clk st) + 2 * b2n (d_wc st) + 4 * b2n (d_wa st) + 8 * b2n (d_sdo st))
  + 16 * (bits2N (d_tx st) + k * (bits2N (d_rx st) + k * (bits2N (d_win st) + k * d_cnt st))).
Definition d_dec (c : spi_cfg) (m : N) : d_state :=
  let k := 2 ^ N.of_nat (ws c) in
  let r := m / 16 in
  {| d_clk := m mod 2 =? 1; d_wc := (m / 2) mod 2 =? 1; d_wa := (m / 4) mod 2 =? 1; d_sdo := (m / 8) mod 2 =? 1;
     d_tx := N2bits (ws c) (r mod k); d_rx := N2bits (ws c) ((r / k) mod k);
     d_win := N2bits (ws c) ((r / k / k) mod k); d_cnt := r / k / k / k |}.
Definition d_wf (c : spi_cfg) (st : d_state) : Prop :=
  length (d_tx st) = ws c /\ length (d_rx st) = ws c /\ length (d_win st) = ws c.
