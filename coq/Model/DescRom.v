(* C09 -- Gallina re-implementation of GetDescriptorHandlerBlock.generate_rom_content
   (luna/gateware/usb/usb2/descriptor.py): the 32-bit-word ROM image that holds

     [ type table:   one word per type number 0..max_type:  (number of indexes << 16) | byte address of index table,
                     0 for types that have no descriptor ]
     [ index tables: per type (ascending), per index (ascending): (descriptor length << 16) | byte address of data ]
     [ data:         each descriptor's bytes, big-endian in its words, zero-padded to a multiple of 4 ]

   together with the other three values the Python function returns: the longest descriptor, the largest type
   number, and the index map {type << 8 | index |-> position in the type's index table} that is non-empty iff some
   type's indexes are not exactly 0..n-1.

   The Python function is compared with rom_of / max_desc_len / max_type / index_map on random collections on
   every run of the check (props/C09.py, `rom_layout`); the lemmas about it are in DescRom_proofs.v. *)
From Coq Require Import NArith List Bool.
Import ListNotations.
From LunaLib Require Import Netlist Bits Machine.
From LunaModel Require Import DescSpec.
Open Scope N_scope.

Definition entry (hi lo : N) : N := hi * 65536 + lo.               (* struct.pack(">HH", hi, lo) read back as ">I" *)
Definition be32 (b0 b1 b2 b3 : N) : N := b0 * 16777216 + b1 * 65536 + b2 * 256 + b3.

Fixpoint words_of_bytes (bs : list N) : list N :=
  match bs with
  | [] => []
  | [b0] => [be32 b0 0 0 0]
  | [b0; b1] => [be32 b0 b1 0 0]
  | [b0; b1; b2] => [be32 b0 b1 b2 0]
  | b0 :: b1 :: b2 :: b3 :: rest => be32 b0 b1 b2 b3 :: words_of_bytes rest
  end.

Definition nseq (n : nat) : list N := map N.of_nat (seq 0 n).

Definition max_type (c : dcoll) : N := fold_right (fun p m => N.max (fst p) m) 0 c.
Definition ntypes (c : dcoll) : N := max_type c + 1.

(* descriptors in ROM order (types ascending, indexes ascending) *)
Definition all_descs (c : dcoll) : list desc := flat_map (fun p => map snd (snd p)) c.
Definition nentries (c : dcoll) : N := nlen (all_descs c).

(* number of index-table entries in front of type t's table *)
Fixpoint entries_before (t : N) (c : dcoll) : N :=
  match c with
  | [] => 0
  | (ty, idxs) :: r => if ty =? t then 0 else nlen idxs + entries_before t r
  end.

Definition table_addr (c : dcoll) (t : N) : N := 4 * (ntypes c + entries_before t c).

Definition type_entry (c : dcoll) (t : N) : N :=
  match assoc t c with
  | Some idxs => entry (nlen idxs) (table_addr c t)
  | None => 0
  end.

Definition padded (d : desc) : N := 4 * ((nlen d + 3) / 4).        (* _align_to_element_size(len) * ELEMENT_SIZE *)

Fixpoint index_entries (ds : list desc) (addr : N) : list N :=
  match ds with
  | [] => []
  | d :: r => entry (nlen d) addr :: index_entries r (addr + padded d)
  end.

Definition data_base (c : dcoll) : N := 4 * (ntypes c + nentries c).

Definition rom_of (c : dcoll) : list N :=
  map (type_entry c) (nseq (N.to_nat (ntypes c)))
  ++ index_entries (all_descs c) (data_base c)
  ++ flat_map words_of_bytes (all_descs c).

Definition max_desc_len (c : dcoll) : N := fold_right (fun d m => N.max (nlen d) m) 0 (all_descs c).

(* "if max(indexes.keys()) != len(indexes) - 1: indirect_idx = True" *)
Definition max_key {A : Type} (l : list (N * A)) : N := fold_right (fun p m => N.max (fst p) m) 0 l.
Definition indirect (c : dcoll) : bool := existsb (fun p => negb (max_key (snd p) =? nlen (snd p) - 1)) c.

Fixpoint number_from {A : Type} (k : N) (l : list A) : list (N * A) :=
  match l with [] => [] | x :: r => (k, x) :: number_from (k + 1) r end.

(* index_map[index | (type_number << 8)] = i *)
Definition group_map (ty : N) (idxs : list (N * desc)) : list (N * N) :=
  map (fun p => (fst (snd p) + 256 * ty, fst p)) (number_from 0 idxs).
Definition index_map (c : dcoll) : list (N * N) :=
  if indirect c then flat_map (fun p => group_map (fst p) (snd p)) c else [].

(* ---- reading the image the way the gateware does ---- *)
Definition rom_read (rom : list N) (a : N) : N := nth (N.to_nat a) rom 0.
Definition e_hi (w : N) : N := bits w 16 16.
Definition e_lo (w : N) : N := bits w 0 16.
Definition byte_lane (w lane : N) : N := bits w (8 * (3 - lane)) 8.      (* word_select(~lane, 8) *)
Definition rom_byte (rom : list N) (a : N) : N := byte_lane (rom_read rom (a / 4)) (a mod 4).

(* ---- the collections the construction is defined (and proved) for ---- *)
Fixpoint increasing {A : Type} (lo : N) (l : list (N * A)) : bool :=      (* keys strictly increasing, all >= lo *)
  match l with
  | [] => true
  | (k, _) :: r => (lo <=? k) && increasing (k + 1) r
  end.

Definition group_okb (p : N * list (N * desc)) : bool :=
  increasing 0 (snd p) && (1 <=? nlen (snd p)) && (nlen (snd p) <=? 255) && (max_key (snd p) <? 256)
  && forallb (fun e => forallb (fun b => b <? 256) (snd e)) (snd p).

Definition coll_okb (c : dcoll) : bool :=
  increasing 0 c && (1 <=? nlen c) && (max_type c <? 256) && forallb group_okb c
  && (4 * nlen (rom_of c) <? 65536).

(* grouping and sorting of the raw (type, index, bytes) triples a DeviceDescriptorCollection yields, the way
   generate_rom_content builds its nested dict (later entries replace earlier ones) and sorts it *)
Fixpoint insert {A : Type} (k : N) (v : A) (l : list (N * A)) : list (N * A) :=
  match l with
  | [] => [(k, v)]
  | (k', v') :: r => if k <? k' then (k, v) :: l else if k =? k' then (k, v) :: r else (k', v') :: insert k v r
  end.

Definition add_desc (c : dcoll) (t : N * N * desc) : dcoll :=
  let '(ty, ix, d) := t in
  insert ty (insert ix d (match assoc ty c with Some idxs => idxs | None => [] end)) c.

Definition coll_of_triples (ts : list (N * N * desc)) : dcoll := fold_left add_desc ts [].
