(* C09 -- proofs about the GET_DESCRIPTOR handler multiplexer (Model/DescMux.v):
   (a) mx_step is compositional in its handlers' outputs; the ghost register does not influence outputs; packing lemmas;
   (b) mux_spec: the mux over the two handlers' SPECIFICATION machines (fixed collection cF behind the block-ROM
       handler, runtime collection cR behind the distributed handler, disjoint keys) is the C09 specification machine
       of the union collection: every request is answered by exactly one handler's stream, or by one stall pulse when
       neither has the descriptor -- whatever the previous request was;
   (c) mux_refines: hence the code-shaped model (bk_step and ds_step under the mux) equals that specification. *)
From Coq Require Import NArith ZArith Arith List Bool Lia ZifyBool ZifyN.
Import ListNotations.
From LunaLib Require Import Netlist Bits Machine.
From LunaModel Require Import ConstGen ConstGen_proofs DescSpec DescSpec_proofs DescRom DescRom_proofs DescCommon
                              DescBlock DescBlock_proofs DescDist DescDist_proofs DescMux.
Open Scope N_scope.
Ltac Zify.zify_post_hook ::= Z.div_mod_to_equations.

(* ---------------------------------------------------------------------------------------------------------- *)
(* (a) composition *)
Lemma mx_run_ext : forall (A B A' B' : Type) (sa : A -> N -> A * N) (sb : B -> N -> B * N)
    (sa' : A' -> N -> A' * N) (sb' : B' -> N -> B' * N) tr a b a' b' l0 l1,
  run sa a tr = run sa' a' tr -> run sb b tr = run sb' b' tr ->
  run (mx_step sa sb) (a, b, (l0, l1)) tr = run (mx_step sa' sb') (a', b', (l0, l1)) tr.
Proof.
  induction tr as [|i t IH]; intros a b a' b' l0 l1 Ha Hb; [reflexivity|].
  cbn [run] in *. unfold mx_step at 1 3.
  destruct (sa a i) as [a1 o0], (sa' a' i) as [a1' o0'], (sb b i) as [b1 o1], (sb' b' i) as [b1' o1'].
  inversion Ha; subst. inversion Hb; subst. f_equal. apply IH; assumption.
Qed.

Lemma mxm_run : forall c tr s g,
  run (mxm_step c) (s, g) tr =
  run (mx_step (bk_step (block_cfg (x_fixed c) (x_mps c))) (ds_step (dist_gens (x_runtime c)) (x_mps c))) s tr.
Proof.
  induction tr as [|i t IH]; intros s g; [reflexivity|].
  cbn [run]. unfold mxm_step at 1.
  destruct (mx_step _ _ s i) as [s' o]. f_equal. apply IH.
Qed.

Lemma gens_enc_lt : forall gs ss, Forall2 gen_wf gs ss -> gens_enc gs ss < 2 ^ (64 * nlen gs).
Proof.
  induction 1 as [|g s gs ss Hw _ IH]; [cbn; lia|].
  cbn [gens_enc]. change (gen_enc g s + N.shiftl (gens_enc gs ss) 64) with (ConstGen.pair 64 (gen_enc g s) (gens_enc gs ss)).
  replace (64 * nlen (g :: gs)) with (64 + 64 * nlen gs) by (unfold nlen; cbn [length]; lia).
  apply pair_lt; [apply gen_enc_lt; exact Hw | exact IH].
Qed.

Lemma mxm_dec_enc : forall c st, mxm_wf c st -> mxm_dec c (mxm_enc c st) = st.
Proof.
  intros c [[[a b] [l0 l1]] g] (Ha & Hb & Hg). unfold mxm_dec, mxm_enc.
  set (gens := dist_gens (x_runtime c)) in *. set (W := 1 + 64 * nlen gens).
  set (lo := b2n l0 + 2 * b2n l1 + 4 * g).
  assert (Hlo : lo < 2 ^ 47) by (subst lo; change (2 ^ 47) with (4 * 2 ^ 45); destruct l0, l1; cbn [b2n]; lia).
  assert (Hds : ds_enc gens b < 2 ^ W).
  { unfold ds_enc, W. pose proof (gens_enc_lt gens (d_gens b) Hb) as H. rewrite N.pow_add_r. change (2 ^ 1) with 2.
    destruct (d_zlp b); cbn [b2n]; lia. }
  rewrite (unpair_lo 47 lo _ Hlo), (unpair_hi 47 lo _ Hlo), (unpair_lo W _ _ Hds), (unpair_hi W _ _ Hds).
  rewrite bk_dec_enc by exact Ha. rewrite ds_dec_enc by exact Hb.
  assert (E0 : N.testbit lo 0 = l0).
  { subst lo. rewrite N.bit0_odd. replace (b2n l0 + 2 * b2n l1 + 4 * g) with (b2n l0 + 2 * (b2n l1 + 2 * g)) by lia. apply odd_b2n. }
  assert (E1 : N.testbit lo 1 = l1).
  { subst lo. change 1 with (N.succ 0). rewrite N.testbit_succ_r_div2 by lia.
    replace (b2n l0 + 2 * b2n l1 + 4 * g) with (b2n l0 + 2 * (b2n l1 + 2 * g)) by lia.
    rewrite div2_b2n, N.bit0_odd. apply odd_b2n. }
  assert (E2 : N.shiftr lo 2 = g).
  { subst lo. rewrite N.shiftr_div_pow2. change (2 ^ 2) with 4. destruct l0, l1; cbn [b2n]; lia. }
  rewrite E0, E1, E2. reflexivity.
Qed.

Lemma mxm_wf_step : forall c st i, mxm_wf c st -> mxm_wf c (fst (mxm_step c st i)).
Proof.
  intros c [[[a b] [l0 l1]] g] i (Ha & Hb & Hg). unfold mxm_step, mx_step.
  pose proof (bk_wf_step (block_cfg (x_fixed c) (x_mps c)) a i Ha) as Ha'.
  pose proof (ds_wf_step (dist_gens (x_runtime c)) (x_mps c) b i Hb) as Hb'.
  destruct (bk_step _ a i) as [a' o0]. destruct (ds_step _ _ b i) as [b' o1]. cbn [fst] in *.
  split; [exact Ha' | split; [exact Hb'|]]. destruct (i_start i); [apply trunc_lt | exact Hg].
Qed.

Lemma mxm_wf_init : forall c, gens_okb (dist_gens (x_runtime c)) = true -> mxm_wf c (mxm_init c).
Proof.
  intros c H. unfold mxm_wf, mxm_init. split; [apply bk_wf_init | split; [apply ds_wf_init; exact H | apply pow2_pos]].
Qed.

(* ---------------------------------------------------------------------------------------------------------- *)
(* (b) the mux over the two specification machines *)
Definition o_ok (o : N) : Prop := o = 0 \/ o = 2048 \/ (o < 2048 /\ o_validb o = true).
Definition qof (s : sstate) : option dreq := match s with SIdle => None | SWait _ q => Some q | SSend _ _ q => Some q end.
Definition wfs (s : sstate) : Prop := match s with SSend bs _ _ => Forall (fun b => b < 256) bs | _ => True end.
Definition resp_ok (resp : dreq -> response) : Prop := forall q bs, resp q = RData bs -> Forall (fun b => b < 256) bs.

Lemma small_no_stall : forall o, o < 2048 -> o_stallb o = false.
Proof. intros o H. unfold o_stallb. rewrite N.testbit_eqb. change (2 ^ 11) with 2048. rewrite N.div_small by exact H. reflexivity. Qed.

Lemma o_beat_ok : forall b f l, b < 256 -> o_beat b f l < 2048 /\ o_validb (o_beat b f l) = true.
Proof.
  intros b f l H. split; [unfold o_beat; destruct f, l; cbn [b2n]; lia|].
  unfold o_validb, o_beat. rewrite N.bit0_odd.
  replace (1 + 2 * b2n f + 4 * b2n l + 8 * b) with (1 + 2 * (b2n f + 2 * b2n l + 4 * b)) by lia.
  rewrite N.odd_add_mul_2. reflexivity.
Qed.

Lemma send_facts : forall bs f q i, Forall (fun b => b < 256) bs ->
  o_ok (snd (send bs f q i)) /\ wfs (fst (send bs f q i)) /\ o_stallb (snd (send bs f q i)) = false /\
  (fst (send bs f q i) = SIdle \/ qof (fst (send bs f q i)) = Some q).
Proof.
  intros bs f q i H. destruct bs as [|b rest]; cbn [send fst snd].
  - split; [left; reflexivity|]. split; [exact I|]. split; [reflexivity | left; reflexivity].
  - inversion H as [|? ? Hb Hr]; subst. destruct (o_beat_ok b f (match rest with [] => true | _ :: _ => false end) Hb) as [H1 H2].
    split; [right; right; split; assumption|]. split; [|split; [apply small_no_stall; exact H1|]].
    + destruct (i_ready i); [destruct rest; cbn [wfs]; [exact I | exact Hr] | cbn [wfs]; exact H].
    + destruct (i_ready i); [destruct rest; [left; reflexivity | right; reflexivity] | right; reflexivity].
Qed.

Lemma step_facts : forall resp lat s i, resp_ok resp -> wfs s -> (s = SIdle -> i_start i = false \/ 1 <= lat (req_of i)) ->
  o_ok (snd (s_step resp lat s i)) /\ wfs (fst (s_step resp lat s i)) /\
  (o_stallb (snd (s_step resp lat s i)) = true ->
     fst (s_step resp lat s i) = SIdle /\ forall q, qof s = Some q -> resp q = RStall) /\
  (forall q, qof s = Some q -> fst (s_step resp lat s i) = SIdle \/ qof (fst (s_step resp lat s i)) = Some q).
Proof.
  intros resp lat s i Hr Hw Hidle.
  assert (Hwait : forall k q, (k =? 0) = false ->
            wait resp k q i = (SWait (k - 1) q, o_quiet)) by (intros k q E; unfold wait; rewrite E; reflexivity).
  assert (Hdel : forall q, o_ok (snd (deliver resp q i)) /\ wfs (fst (deliver resp q i)) /\
            (o_stallb (snd (deliver resp q i)) = true -> fst (deliver resp q i) = SIdle /\ resp q = RStall) /\
            (fst (deliver resp q i) = SIdle \/ qof (fst (deliver resp q i)) = Some q)).
  { intros q. unfold deliver. destruct (resp q) as [|bs] eqn:E.
    - cbn [fst snd]. repeat split; try (right; left; reflexivity); try exact I; left; reflexivity.
    - destruct bs as [|b rest].
      + cbn [fst snd]. split; [right; right; split; [vm_compute; reflexivity | reflexivity]|].
        split; [exact I|]. split; [intro H; vm_compute in H; discriminate | left; reflexivity].
      + destruct (send_facts (b :: rest) true q i (Hr q _ E)) as (S1 & S2 & S3 & S4).
        split; [exact S1|]. split; [exact S2|]. split; [intro H; congruence | exact S4]. }
  destruct s as [|k q|bs f q]; cbn [s_step qof].
  - destruct (i_start i) eqn:Es.
    + destruct (Hidle eq_refl) as [H|H]; [discriminate|].
      rewrite Hwait by (destruct (N.eqb_spec (lat (req_of i)) 0); [lia | reflexivity]). cbn [fst snd].
      repeat split; try (left; reflexivity); try exact I; try discriminate; try (intro H0; vm_compute in H0; discriminate).
    + cbn [fst snd]. repeat split; try (left; reflexivity); try exact I; try discriminate; try (intro H0; vm_compute in H0; discriminate).
  - unfold wait. destruct (k =? 0).
    + destruct (Hdel q) as (D1 & D2 & D3 & D4). split; [exact D1|]. split; [exact D2|]. split.
      * intro H. destruct (D3 H) as [E1 E2]. split; [exact E1|]. intros q' Hq. inversion Hq; subst. exact E2.
      * intros q' Hq. inversion Hq; subst. exact D4.
    + cbn [fst snd]. split; [left; reflexivity|]. split; [exact I|]. split; [intro H; vm_compute in H; discriminate|].
      intros q' Hq. right. exact Hq.
  - destruct (send_facts bs f q i Hw) as (S1 & S2 & S3 & S4). split; [exact S1|]. split; [exact S2|].
    split; [intro H; congruence|]. intros q' Hq. inversion Hq; subst. exact S4.
Qed.

Lemma step_same : forall r1 l1 r2 l2 s i q, qof s = Some q -> r1 q = r2 q -> s_step r1 l1 s i = s_step r2 l2 s i.
Proof.
  intros r1 l1 r2 l2 s i q Hq Hr. destruct s as [|k q'|bs f q']; [discriminate | | reflexivity].
  inversion Hq; subst. cbn [s_step]. unfold wait, deliver. rewrite Hr. reflexivity.
Qed.

(* mux algebra *)
Lemma trunc11_small : forall o, o < 2048 -> trunc 11 o = o.
Proof. intros. apply trunc_small. exact H. Qed.

Lemma mx_tx_left : forall o, o_ok o -> mx_tx o 0 = trunc 11 o.
Proof. intros o _. unfold mx_tx. change (o_validb 0) with false. cbn [andb]. change (bits 0 0 3) with 0. apply N.lor_0_r. Qed.

Lemma mx_tx_right : forall o0 o, (o0 = 0 \/ o0 = 2048) -> o_ok o -> mx_tx o0 o = trunc 11 o.
Proof.
  intros o0 o H0 Ho. unfold mx_tx.
  assert (E0 : o_validb o0 = false /\ bits o0 0 3 = 0 /\ trunc 11 o0 = 0) by (destruct H0; subst; vm_compute; repeat split).
  destruct E0 as (E1 & E2 & E3). rewrite E1, E2, E3. cbn [negb]. rewrite andb_true_r.
  destruct (o_validb o) eqn:Ev; [reflexivity|].
  destruct Ho as [-> | [-> | [_ H]]]; [reflexivity | reflexivity | congruence].
Qed.

Lemma mx_out_start : forall o0 o1 l0 l1 i, i_start i = true -> o_stallb o0 = false -> mx_out o0 o1 l0 l1 i = mx_tx o0 o1.
Proof.
  intros o0 o1 l0 l1 i Hs Ho. unfold mx_out, mx_stall, mx_stalled. rewrite Hs, Ho. cbn [negb orb]. rewrite andb_false_r. cbn [andb].
  apply N.add_0_r.
Qed.

Lemma out_rebuild : forall o, o_ok o -> trunc 11 o + (if o_stallb o then 2048 else 0) = o.
Proof.
  intros o [-> | [-> | [H _]]]; [reflexivity | reflexivity|].
  rewrite small_no_stall, trunc11_small by exact H. lia.
Qed.

Lemma Forall_firstn_skipn : forall (P : N -> Prop) l n m, Forall P l -> Forall P (firstn n (skipn m l)).
Proof.
  intros P l n m H.
  assert (Hs : Forall P (skipn m l)).
  { revert l H. induction m as [|m IH]; intros l H; [exact H|]. destruct l as [|y l]; [constructor|].
    inversion H; subst. cbn [skipn]. apply IH. assumption. }
  revert Hs. generalize (skipn m l). clear. intros l. revert l. induction n as [|n IH]; intros l H; [constructor|].
  destruct l as [|y l]; [constructor|]. inversion H; subst. cbn [firstn]. constructor; [assumption | apply IH; assumption].
Qed.

Section MuxSpec.
  Variables cF cR : dcoll.
  Variable mps : N.
  Hypothesis Hdis : disjoint_keys cF cR.
  Hypothesis HbF : forall ty ix d, find_desc cF ty ix = Some d -> bytes_ok d.
  Hypothesis HbR : forall ty ix d, find_desc cR ty ix = Some d -> bytes_ok d.

  Local Notation respB := (resp_of cF mps).
  Local Notation latB := (bk_lat cF).
  Local Notation respD := (resp_of cR mps).
  Local Notation latD := (ds_lat cR).
  Local Notation respU := (resp_mux cF cR mps).
  Local Notation latU := (mx_lat cF cR).
  Local Notation SB := (s_step respB latB).
  Local Notation SD := (s_step respD latD).
  Local Notation SU := (s_step respU latU).
  Local Notation fF := (DescCommon.fd cF).
  Local Notation fR := (DescCommon.fd cR).

  Lemma respB_ok : resp_ok respB.
  Proof.
    intros q bs H. unfold resp_of, respond in H. destruct (find_desc cF _ _) as [d|] eqn:E; [|discriminate].
    inversion H; subst. apply Forall_firstn_skipn. apply (HbF _ _ _ E).
  Qed.
  Lemma respD_ok : resp_ok respD.
  Proof.
    intros q bs H. unfold resp_of, respond in H. destruct (find_desc cR _ _) as [d|] eqn:E; [|discriminate].
    inversion H; subst. apply Forall_firstn_skipn. apply (HbR _ _ _ E).
  Qed.

  Lemma respU_B : forall q, fR q = None -> respU q = respB q.
  Proof.
    intros q H. unfold resp_mux, fd2, find2, resp_of, respond. unfold DescCommon.fd in H. rewrite H.
    destruct (find_desc cF _ _); reflexivity.
  Qed.
  Lemma respU_D : forall q, fF q = None -> respU q = respD q.
  Proof.
    intros q H. unfold resp_mux, fd2, find2, resp_of, respond. unfold DescCommon.fd in H. rewrite H. reflexivity.
  Qed.
  Lemma respU_ok : resp_ok respU.
  Proof.
    intros q bs H. destruct (fF q) as [d|] eqn:E.
    - assert (ER : fR q = None) by (apply Hdis; unfold DescCommon.fd in E; rewrite E; discriminate).
      rewrite (respU_B q ER) in H. exact (respB_ok q bs H).
    - rewrite (respU_D q E) in H. exact (respD_ok q bs H).
  Qed.

  Lemma latB_pos : forall q, 1 <= latB q.
  Proof. intros q. unfold bk_lat. destruct (_ <? _); [lia|]. destruct (find_desc _ _ _); lia. Qed.

  Definition trailB (s : sstate) : Prop :=
    match s with SIdle => True | SWait _ q => fF q = None | SSend _ _ _ => False end.

  Lemma trail_step : forall s i, trailB s -> (s = SIdle -> i_start i = false) ->
    (snd (SB s i) = 0 \/ snd (SB s i) = 2048) /\ trailB (fst (SB s i)) /\
    (fst (SB s i) = SIdle \/ (s <> SIdle /\ qof (fst (SB s i)) = qof s)).
  Proof.
    intros s i Ht Hs. destruct s as [|k q|bs f q]; [| |contradiction]; cbn [s_step].
    - rewrite (Hs eq_refl). cbn [fst snd]. repeat split; left; reflexivity.
    - cbn [trailB] in Ht. unfold wait. destruct (k =? 0).
      + unfold deliver, resp_of, respond. unfold DescCommon.fd in Ht. rewrite Ht. cbn [fst snd].
        split; [right; reflexivity|]. split; [exact I | left; reflexivity].
      + cbn [fst snd trailB qof]. split; [left; reflexivity|]. split; [exact Ht|]. right. split; [discriminate | reflexivity].
  Qed.

  Definition inv (sU sB sD : sstate) (l0 l1 : bool) : Prop :=
    (sU = SIdle /\ sD = SIdle /\ trailB sB /\ (sB = SIdle -> l0 && l1 = false) /\ (sB <> SIdle -> l1 = false))
    \/ (sU <> SIdle /\ sB = sU /\ sD = SIdle /\ (exists q, qof sU = Some q /\ fR q = None) /\ l0 = false /\ l1 = true)
    \/ (sU <> SIdle /\ sD = sU /\ trailB sB /\
        (exists q, qof sU = Some q /\ fF q = None /\ fR q <> None /\ (sB = SIdle \/ qof sB = Some q)) /\ l1 = false).

  Lemma held_start : forall q i, held q i = true -> i_start i = false.
  Proof. intros q i H. apply (held_fields q i H). Qed.

  Lemma env_start_false : forall ok s i, s <> SIdle -> s_env ok s i = true -> i_start i = false.
  Proof. intros ok s i Hs H. destruct s as [|k q|bs f q]; [congruence | |]; apply (held_start q i H). Qed.

  Lemma mux_step : forall sU sB sD l0 l1 i, inv sU sB sD l0 l1 -> wfs sU -> wfs sB -> wfs sD ->
    s_env (legal_mux cF cR) sU i = true -> s_env (req_legal cF) sB i = true -> s_env (req_legal cR) sD i = true ->
    let o0 := snd (SB sB i) in let o1 := snd (SD sD i) in let ms := mx_stall o0 o1 l0 l1 i in
    mx_out o0 o1 l0 l1 i = snd (SU sU i) /\
    inv (fst (SU sU i)) (fst (SB sB i)) (fst (SD sD i)) (mx_latch o0 l0 ms i) (mx_latch o1 l1 ms i) /\
    wfs (fst (SU sU i)) /\ wfs (fst (SB sB i)) /\ wfs (fst (SD sD i)).
  Proof.
    intros sU sB sD l0 l1 i HI WU WB WD EU EB ED o0 o1 ms.
    destruct HI as [(-> & -> & Ht & Hl1 & Hl2) | [(HnU & -> & -> & (q & Hq & HqR) & -> & ->) | (HnU & -> & Ht & (q & Hq & HqF & HqR & HqB) & ->)]].
    - (* idle, possibly with the ROM handler still about to stall *)
      destruct (i_start i) eqn:Es.
      + (* a new request: only when the ROM handler is idle as well *)
        assert (sB = SIdle) as -> by (destruct sB as [|k q|bs f q]; [reflexivity | | ]; cbn [s_env] in EB; rewrite (held_start _ _ EB) in Es; discriminate).
        subst o0 o1 ms. cbn [s_step]. rewrite Es. set (q := req_of i).
        assert (EwB : wait respB (latB q) q i = (SWait (latB q - 1) q, o_quiet)).
        { unfold wait. pose proof (latB_pos q). destruct (N.eqb_spec (latB q) 0); [lia | reflexivity]. }
        rewrite EwB. cbn [fst snd].
        destruct (fR q) as [d|] eqn:ER.
        * (* a runtime descriptor *)
          assert (EF : fF q = None).
          { destruct (fF q) eqn:E; [|reflexivity]. exfalso. assert (fR q = None) by (apply Hdis; unfold DescCommon.fd in E; rewrite E; discriminate). congruence. }
          assert (Elat : latU q = latD q) by (unfold mx_lat; unfold DescCommon.fd in ER; rewrite ER; reflexivity).
          assert (Epos : (latD q =? 0) = false) by (unfold ds_lat; unfold DescCommon.fd in ER; rewrite ER; destruct (_ <=? _); reflexivity).
          unfold wait. rewrite Elat, Epos. cbn [fst snd]. unfold o_quiet.
          split; [rewrite (mx_out_start 0 0 l0 l1 i Es eq_refl); reflexivity|]. split; [|repeat split; exact I].
          right. right. split; [discriminate|]. split; [reflexivity|]. split; [exact EF|].
          split; [exists q; split; [reflexivity|]; split; [exact EF|]; split; [congruence | right; reflexivity]|].
          unfold mx_latch, mx_stall, mx_stalled. rewrite Es. change (o_stallb 0) with false. cbn. reflexivity.
        * (* a ROM descriptor, or none at all: the distributed handler stalls at once and is latched *)
          assert (Elat : latU q = latB q) by (unfold mx_lat; unfold DescCommon.fd in ER; rewrite ER; reflexivity).
          assert (ElD : latD q = 0) by (unfold ds_lat; unfold DescCommon.fd in ER; rewrite ER; reflexivity).
          assert (EwD : wait respD (latD q) q i = (SIdle, o_stall)).
          { unfold wait. rewrite ElD. change (0 =? 0) with true. cbv iota. unfold deliver, resp_of, respond.
            unfold DescCommon.fd in ER. rewrite ER. reflexivity. }
          assert (EwU : wait respU (latU q) q i = (SWait (latB q - 1) q, o_quiet)).
          { rewrite Elat. unfold wait. pose proof (latB_pos q). destruct (N.eqb_spec (latB q) 0); [lia | reflexivity]. }
          rewrite EwD.
          rewrite EwU. cbn [fst snd]. unfold o_quiet, o_stall.
          split; [rewrite (mx_out_start 0 2048 l0 l1 i Es eq_refl); reflexivity|]. split; [|repeat split; exact I].
          right. left. split; [discriminate|]. split; [reflexivity|]. split; [reflexivity|].
          split; [exists q; split; [reflexivity | exact ER]|].
          unfold mx_latch, mx_stall, mx_stalled. rewrite Es. change (o_stallb 0) with false. change (o_stallb 2048) with true.
          destruct l0, l1; split; reflexivity.
      + (* no request *)
        destruct (trail_step sB i Ht (fun _ => Es)) as (Ho0 & Ht' & Hq').
        destruct (step_facts respB latB sB i respB_ok WB (fun _ => or_intror (latB_pos (req_of i)))) as (_ & WB' & _).
        assert (Hcase : (snd (SB sB i) = 0 /\ l0 && l1 = false) \/ l1 = false).
        { destruct sB as [|k q|bs f q]; [left | right; apply Hl2; discriminate | contradiction].
          split; [cbn [s_step]; rewrite Es; reflexivity | apply Hl1; reflexivity]. }
        subst o0 o1 ms. cbn [s_step]. rewrite Es. cbn [fst snd]. unfold o_quiet.
        remember (snd (SB sB i)) as o0 eqn:Eo0. remember (fst (SB sB i)) as sB' eqn:EsB'.
        assert (Eo : mx_tx o0 0 = 0) by (destruct Ho0 as [-> | ->]; vm_compute; reflexivity).
        assert (Est : mx_stall o0 0 l0 l1 i = false).
        { unfold mx_stall, mx_stalled. rewrite Es. change (o_stallb 0) with false. cbn [negb orb]. rewrite !andb_true_r.
          destruct Hcase as [[-> H] | ->]; [exact H | apply andb_false_r]. }
        split; [unfold mx_out; rewrite Eo, Est; reflexivity|]. split; [|split; [exact I | split; [exact WB' | exact I]]].
        left. split; [reflexivity|]. split; [reflexivity|]. split; [exact Ht'|].
        unfold mx_latch. rewrite Est, Es. change (o_stallb 0) with false. cbn [andb orb negb]. rewrite andb_true_r.
        split.
        * intros _. destruct Hcase as [[-> H] | ->]; [exact H | apply andb_false_r].
        * intros NE. destruct Hq' as [E'|[NB _]]; [congruence|]. apply Hl2. exact NB.
    - (* the ROM handler answers (or is about to stall for an absent descriptor) *)
      pose proof (env_start_false _ _ _ HnU EU) as Es.
      assert (Esame : SU sU i = SB sU i) by (apply (step_same _ _ _ _ _ _ q Hq); apply respU_B; exact HqR).
      destruct (step_facts respB latB sU i respB_ok WB (fun _ => or_intror (latB_pos (req_of i)))) as (Ook & WB' & Hst & Hqn).
      subst o0 o1 ms. rewrite Esame. cbn [s_step]. rewrite Es. cbn [fst snd]. unfold o_quiet.
      set (o := snd (SB sU i)) in *. set (s' := fst (SB sU i)) in *.
      assert (Ems : mx_stall o 0 false true i = o_stallb o).
      { unfold mx_stall, mx_stalled. rewrite Es. change (o_stallb 0) with false. cbn. rewrite orb_false_r, andb_true_r. reflexivity. }
      split; [unfold mx_out; rewrite Ems, (mx_tx_left o Ook); apply out_rebuild; exact Ook|].
      split; [|split; [exact WB' | split; [exact WB' | exact I]]].
      unfold mx_latch. rewrite Ems, Es. change (o_stallb 0) with false. cbn [andb orb negb].
      replace (o_stallb o && negb (o_stallb o)) with false by (destruct (o_stallb o); reflexivity).
      destruct (Hqn q Hq) as [E'|E'].
      + left. rewrite E'. split; [reflexivity|]. split; [reflexivity|]. split; [exact I|].
        split; [intros _; destruct (o_stallb o); reflexivity | intros NE; congruence].
      + right. left. split; [intro E0; rewrite E0 in E'; discriminate|]. split; [reflexivity|]. split; [reflexivity|].
        split; [exists q; split; assumption|]. split; [destruct (o_stallb o); reflexivity|].
        destruct (o_stallb o) eqn:Eo; [|reflexivity]. destruct (Hst eq_refl) as [E0 _]. fold s' in E0. rewrite E0 in E'. discriminate.
    - (* the distributed handler answers; the ROM handler stalls on the side *)
      pose proof (env_start_false _ _ _ HnU EU) as Es.
      assert (Esame : SU sU i = SD sU i) by (apply (step_same _ _ _ _ _ _ q Hq); apply respU_D; exact HqF).
      assert (LD : sU = SIdle -> i_start i = false \/ 1 <= latD (req_of i)) by (intros E0; congruence).
      destruct (step_facts respD latD sU i respD_ok WD LD) as (Ook & WD' & Hst & Hqn).
      destruct (trail_step sB i Ht (fun _ => Es)) as (Ho0 & Ht' & Hq').
      destruct (step_facts respB latB sB i respB_ok WB (fun _ => or_intror (latB_pos (req_of i)))) as (_ & WB' & _).
      subst o0 o1 ms. rewrite Esame.
      set (o := snd (SD sU i)) in *. set (s' := fst (SD sU i)) in *. set (o0 := snd (SB sB i)) in *.
      assert (Eno : o_stallb o = false).
      { destruct (o_stallb o) eqn:Eo; [|reflexivity]. destruct (Hst eq_refl) as [_ E2]. specialize (E2 q Hq).
        unfold resp_of, respond in E2. unfold DescCommon.fd in HqR. destruct (find_desc cR _ _); [discriminate | congruence]. }
      assert (Ems : mx_stall o0 o l0 false i = false).
      { unfold mx_stall, mx_stalled. rewrite Eno. cbn. apply andb_false_r. }
      split.
      { unfold mx_out. rewrite Ems, (mx_tx_right o0 o Ho0 Ook), N.add_0_r.
        pose proof (out_rebuild o Ook) as H. rewrite Eno, N.add_0_r in H. exact H. }
      split; [|split; [exact WD' | split; [exact WB' | exact WD']]].
      unfold mx_latch. rewrite Ems, Es, Eno. cbn [andb orb negb].
      assert (HqB' : fst (SB sB i) = SIdle \/ qof (fst (SB sB i)) = Some q).
      { destruct Hq' as [E'|[NB E']]; [left; exact E'|]. right. rewrite E'. destruct HqB as [E0|E0]; [congruence | exact E0]. }
      destruct (Hqn q Hq) as [E'|E'].
      + left. fold s'. rewrite E'. split; [reflexivity|]. split; [reflexivity|]. split; [exact Ht'|].
        split; [intros _; apply andb_false_r | intros _; reflexivity].
      + right. right. fold s'. split; [intro E0; rewrite E0 in E'; discriminate|]. split; [reflexivity|]. split; [exact Ht'|].
        split; [exists q; repeat split; assumption | reflexivity].
  Qed.

  Theorem mux_spec_from : forall tr sU sB sD l0 l1, inv sU sB sD l0 l1 -> wfs sU -> wfs sB -> wfs sD ->
    env_ok sstate SU (s_env (legal_mux cF cR)) sU tr = true ->
    env_ok sstate SB (s_env (req_legal cF)) sB tr = true ->
    env_ok sstate SD (s_env (req_legal cR)) sD tr = true ->
    run (mx_step SB SD) (sB, sD, (l0, l1)) tr = run SU sU tr.
  Proof.
    induction tr as [|i t IH]; intros sU sB sD l0 l1 HI WU WB WD EU EB ED; [reflexivity|].
    cbn [env_ok] in EU, EB, ED.
    apply andb_true_iff in EU as [EU1 EU2]. apply andb_true_iff in EB as [EB1 EB2]. apply andb_true_iff in ED as [ED1 ED2].
    destruct (mux_step sU sB sD l0 l1 i HI WU WB WD EU1 EB1 ED1) as (Ho & HI' & WU' & WB' & WD').
    cbn [run]. unfold mx_step at 1.
    destruct (SB sB i) as [sB' o0]. destruct (SD sD i) as [sD' o1]. destruct (SU sU i) as [sU' oU]. cbn [fst snd] in *.
    rewrite Ho. f_equal. apply IH; assumption.
  Qed.
End MuxSpec.

(* ---------------------------------------------------------------------------------------------------------- *)
(* (c) the code-shaped model under the mux *)
Definition disjointb (cF cR : dcoll) : bool :=
  forallb (fun p => forallb (fun e => match find_desc cR (fst p) (fst e) with None => true | Some _ => false end) (snd p)) cF.

Lemma disjointb_sound : forall cF cR, disjointb cF cR = true -> disjoint_keys cF cR.
Proof.
  intros cF cR H ty ix Hne. unfold find_desc in Hne at 1.
  destruct (assoc ty cF) as [idxs|] eqn:Ea; [|congruence].
  destruct (assoc ix idxs) as [d|] eqn:Ei; [|congruence].
  apply assoc_in in Ea. apply assoc_in in Ei. unfold disjointb in H. rewrite forallb_forall in H.
  specialize (H _ Ea). cbn [fst snd] in H. rewrite forallb_forall in H. specialize (H _ Ei). cbn [fst] in H.
  destruct (find_desc cR ty ix); [discriminate | reflexivity].
Qed.

Lemma coll_bytes_ok : forall c, coll_okb c = true -> forall ty ix d, find_desc c ty ix = Some d -> bytes_ok d.
Proof.
  intros c Hc ty ix d H. pose proof (coll_ok_facts c Hc) as F. unfold find_desc in H.
  destruct (assoc ty c) as [idxs|] eqn:Ea; [|discriminate].
  destruct (cf_group c F ty idxs Ea) as (_ & _ & _ & _ & Hb & _). apply assoc_in in H. apply (Hb _ H).
Qed.

(* The GET_DESCRIPTOR multiplexer (repaired stall latching) over the block-ROM handler for the fixed descriptors and
   the distributed handler for the runtime descriptors answers every legal request sequence exactly as the C09
   specification machine of the union collection does: an existing descriptor is never stalled whatever the previous
   request was, an absent one is stalled without data, and the data come from exactly one handler. *)
Theorem mux_refines : forall cF cR mps, coll_okb cF = true -> coll_okb cR = true -> dist_okb cR = true ->
  disjointb cF cR = true -> 1 <= mps /\ mps < 65536 -> forall tr,
  env_ok sstate (s_step (resp_mux cF cR mps) (mx_lat cF cR)) (s_env (legal_mux cF cR)) SIdle tr = true ->
  env_ok sstate (s_step (resp_of cF mps) (bk_lat cF)) (s_env (req_legal cF)) SIdle tr = true ->
  env_ok sstate (s_step (resp_of cR mps) (ds_lat cR)) (s_env (req_legal cR)) SIdle tr = true ->
  let c := {| x_fixed := cF; x_runtime := cR; x_mps := mps |} in
  run (mxm_step c) (mxm_init c) tr = run (s_step (resp_mux cF cR mps) (mx_lat cF cR)) SIdle tr.
Proof.
  intros cF cR mps HF HR HD Hdj Hm tr EU EB ED c. unfold mxm_init. rewrite mxm_run. cbn [x_fixed x_runtime x_mps c].
  rewrite (mx_run_ext _ _ _ _ _ _ (s_step (resp_of cF mps) (bk_lat cF)) (s_step (resp_of cR mps) (ds_lat cR)) tr
             bk_init (ds_init (dist_gens cR)) SIdle SIdle false false
             (block_refines cF mps HF Hm tr EB) (proj1 (dist_refines cR mps HR HD Hm tr ED))).
  apply (mux_spec_from cF cR mps (disjointb_sound _ _ Hdj) (coll_bytes_ok cF HF) (coll_bytes_ok cR HR)); try exact I; try assumption.
  left. repeat split; try reflexivity.
Qed.

(* resp_mux / legal_mux are the C09 responder / legality of ANY collection whose lookup is the union of the two *)
Lemma resp_mux_union : forall cF cR cU mps, (forall ty ix, find_desc cU ty ix = find2 cF cR ty ix) ->
  forall q, resp_mux cF cR mps q = resp_of cU mps q /\ legal_mux cF cR q = req_legal cU q.
Proof.
  intros cF cR cU mps H q. unfold resp_mux, legal_mux, fd2, resp_of, respond, req_legal. rewrite H. split; reflexivity.
Qed.
