(* C37 / C38 -- hand model of luna/gateware/usb/usb3/link/receiver.py
     RawHeaderPacketReceiver   (hunt for HPSTART, collect four words, check CRC-5 / CRC-16 / sequence number)
     HeaderPacketReceiver      (header buffers, LGOOD / LCRD / LBAD / LRTY / keepalive / LXU bookkeeping
                                around a LinkCommandGenerator)
   and the specification they are proved against.  One list element = one "ss" clock cycle.

   Reading guide
     1. link-command / header wire constants
     2. sp_state / sp_mon          the SPECIFICATION of the bookkeeping: a small abstract machine (a FIFO of
                                   accepted headers, numbers of LGOODs / LCRDs owed, the partner's credits)
                                   that OBSERVES inputs and outputs of every cycle and says whether they are
                                   allowed.  It never looks at the model's state.
     3. hdr_ok / rs_*              the SPECIFICATION of header acceptance: a header packet is the four valid
                                   words that follow an HPSTART word; it is good iff the standard CRC-5 and
                                   CRC-16 (Model/Crc.v) match.
     4. core / core_step           the code-shaped MODEL of HeaderPacketReceiver's bookkeeping, parametric in the
                                   buffer count n (pointer width pw, counter width cw) and sequence width sw
     5. raw / raw_step             the code-shaped MODEL of RawHeaderPacketReceiver
     6. hr_step                    their composition = HeaderPacketReceiver
     7. packed forms for the ties

   The model describes the PROPERTY-SATISFYING behaviour.  It differs from the gateware as found in the tree when
   it was written in how a disable / USB reset is handled (C38, findings/C38-*.diff): the model (and the patched
   gateware) hold the bookkeeping in its pre-advertisement state in EVERY cycle in which `enable` is low or
   `usb_reset` is high, whatever the dispatcher was doing; the gateware as found does so only on a falling edge of
   `enable` that happens to be seen in DISPATCH_COMMAND.  While `enable` is high and `usb_reset` low in every
   cycle (C37's setting) the two agree. *)
From Coq Require Import NArith List Bool.
Import ListNotations.
From LunaLib Require Import Netlist Bits Machine ListMem PackN.
From LunaModel Require Import Crc.
Open Scope N_scope.

(* ------------------------------------------------------------------------------------------ *)
(* 1. Constants                                                                                *)
Definition LGOOD : N := 0.   Definition LCRD : N := 1.   Definition LRTY : N := 2.   Definition LBAD : N := 3.
Definition LXU : N := 6.     Definition LUP : N := 8.    Definition LDN : N := 11.
Definition LC_START : N := 0xf7fefefe.      (* SLC SLC SLC EPF, ctrl = 1111 *)
Definition HP_START : N := 0xf7fbfbfb.      (* SHP SHP SHP EPF, ctrl = 1111 *)

(* the 16-bit link command word (subtype[0..3], reserved[4..6] = 0, command[7..10], CRC-5[11..15]) and
   the 32-bit data word that carries it twice *)
Definition lc_word (cmd sub : N) : N := let w := sub + 128 * cmd in w + 2048 * crc5_usb w.
Definition lc_data (cmd sub : N) : N := let w := lc_word cmd sub in w + 65536 * w.

Definition inc (w x : N) : N := (x + 1) mod 2 ^ w.
Definition dec (w x : N) : N := (x + 2 ^ w - 1) mod 2 ^ w.

(* counter with enqueue / dequeue strobes (acks_to_send, credits_to_issue, buffers_filled) *)
Definition updown (w x : N) (up dn : bool) : N :=
  if up && negb dn then inc w x else if dn && negb up then dec w x else x.

(* ------------------------------------------------------------------------------------------ *)
(* Interface of the bookkeeping part: one record per cycle.
   i_new / i_bad / i_badseq / i_pkt come from the raw receiver (new_packet, bad_packet, bad_sequence, packet). *)
Record cin := {
  i_en : bool; i_rst : bool; i_qrdy : bool; i_retry_rx : bool; i_retry_req : bool;
  i_keep : bool; i_rej : bool; i_srdy : bool;
  i_new : bool; i_bad : bool; i_badseq : bool; i_pkt : N }.

Record cout := {
  o_qvalid : bool; o_qhdr : N;                       (* queue.valid, queue.header *)
  o_svalid : bool; o_sdata : N; o_sctrl : N;         (* source (link commands) *)
  o_recov : bool; o_sent : bool; o_lrty : bool;      (* recovery_required, link_command_sent, lrty_pending *)
  o_exp : N }.                                       (* expected sequence number (to the raw receiver) *)

Definition restart (i : cin) : bool := negb (i_en i) || i_rst i.

(* ------------------------------------------------------------------------------------------ *)
(* 2. SPECIFICATION of the bookkeeping                                                          *)
Record sp_state := {
  s_exp : N;            (* sequence number the next accepted header carries *)
  s_ign : bool;         (* a corrupted header was seen and the partner has not retried yet *)
  s_q : list N;         (* accepted headers not yet taken by the protocol layer, oldest first *)
  s_ackowed : N;        (* LGOODs owed (the sequence-number advertisement included) *)
  s_nextack : N;        (* the sequence number the next LGOOD must carry *)
  s_credowed : N;       (* LCRDs owed = buffers freed (or never advertised) *)
  s_nextcred : N;       (* index (A = 0, B = 1, ...) the next LCRD must carry *)
  s_partner : N;        (* credits the partner holds: LCRDs sent minus headers accepted *)
  s_adv : bool;         (* the advertisement LGOOD has been sent since the link came up *)
  s_lbadowed : bool }.  (* an LBAD is owed *)

Section Spec.
  Variables n sw : N.    (* buffer count, width of sequence numbers *)
  Variable downstream : bool.

  (* state at (re)entry to U0 with next expected sequence number e: one LGOOD (e - 1) and n LCRDs are owed *)
  Definition sp_fresh (e : N) : sp_state :=
    {| s_exp := e; s_ign := false; s_q := []; s_ackowed := 1; s_nextack := dec sw e;
       s_credowed := n; s_nextcred := 0; s_partner := 0; s_adv := false; s_lbadowed := false |}.

  (* a header is ACCEPTED in a cycle iff the raw receiver reports a good, in-sequence header, no corrupted
     header is outstanding and the link is up *)
  Definition sp_accept (g : sp_state) (i : cin) : bool := i_new i && negb (s_ign g) && negb (restart i).
  Definition sp_badev (g : sp_state) (i : cin) : bool := i_bad i && negb (s_ign g).

  (* what the link partner is assumed to do: it sends a header only while it holds a credit, and never has more
     than n headers un-acknowledged *)
  Definition sp_env (g : sp_state) (i : cin) : bool :=
    negb (sp_accept g i) || ((0 <? s_partner g) && (s_ackowed g <? n)).

  (* link command completed in this cycle, if any: the command word is on the bus and taken *)
  Definition completed (i : cin) (o : cout) : option (N * N) :=
    if o_svalid o && i_srdy i && (o_sctrl o =? 0) then Some (bits (o_sdata o) 7 4, bits (o_sdata o) 0 4) else None.

  Definition keepalive_cmd : N := if downstream then LDN else LUP.

  (* is the completed command allowed, and well-formed? *)
  Definition sp_cmd_ok (g : sp_state) (o : cout) (c : N * N) : bool :=
    let (cmd, sub) := c in
    (o_sdata o =? lc_data cmd sub) &&
    (if cmd =? LGOOD then (0 <? s_ackowed g) && (sub =? s_nextack g)
     else if cmd =? LCRD then s_adv g && (0 <? s_credowed g) && (sub =? s_nextcred g)
     else if cmd =? LBAD then s_adv g && s_lbadowed g && (sub =? 0)
     else if (cmd =? LRTY) || (cmd =? LXU) || (cmd =? keepalive_cmd) then s_adv g && (sub =? 0)
     else false).

  Definition sp_check (g : sp_state) (i : cin) (o : cout) : bool :=
    (* the queue offers exactly the oldest accepted header that was not yet taken *)
    (match s_q g with
     | [] => negb (o_qvalid o)
     | h :: _ => o_qvalid o && (o_qhdr o =? h)
     end) &&
    (o_exp o =? s_exp g) &&
    (match completed i o with None => true | Some c => sp_cmd_ok g o c end).

  Definition sp_next (g : sp_state) (i : cin) (o : cout) : sp_state :=
    if restart i then sp_fresh (if i_rst i then 0 else s_exp g) else
    let acc := sp_accept g i in
    let take := o_qvalid o && i_qrdy i in
    let c := completed i o in
    let is c' := match c with Some (cmd, _) => cmd =? c' | None => false end in
    {| s_exp := if acc then inc sw (s_exp g) else s_exp g;
       s_ign := if i_retry_rx i then false else if sp_badev g i then true else s_ign g;
       s_q := (if take then tl (s_q g) else s_q g) ++ (if acc then [i_pkt i] else []);
       s_ackowed := s_ackowed g + b2n acc - b2n (is LGOOD);
       s_nextack := if is LGOOD then inc sw (s_nextack g) else s_nextack g;
       s_credowed := s_credowed g + b2n take - b2n (is LCRD);
       s_nextcred := if is LCRD then (s_nextcred g + 1) mod n else s_nextcred g;
       s_partner := s_partner g + b2n (is LCRD) - b2n acc;
       s_adv := s_adv g || is LGOOD;
       s_lbadowed := if is LBAD then false else if sp_badev g i then true else s_lbadowed g |}.

  (* the monitor: None = the partner broke its assumptions, Some (g', ok) otherwise *)
  Definition sp_mon (g : sp_state) (i : cin) (o : cout) : option (sp_state * bool) :=
    if sp_env g i then Some (sp_next g i o, sp_check g i o) else None.

  (* a whole trace is accepted (vacuously from the point where the partner misbehaves) *)
  Fixpoint sp_accepts (g : sp_state) (ios : list (cin * cout)) : bool :=
    match ios with
    | [] => true
    | (i, o) :: t => match sp_mon g i o with
                     | None => true
                     | Some (g', ok) => ok && sp_accepts g' t
                     end
    end.
End Spec.

(* ------------------------------------------------------------------------------------------ *)
(* 3. SPECIFICATION of header acceptance (raw receiver)                                          *)
(* a word on the sink: (valid, data, ctrl) *)
Record word := { w_valid : bool; w_data : N; w_ctrl : N }.
Definition is_hpstart (w : word) : bool := w_valid w && (w_data w =? HP_START) && (w_ctrl w =? 15).

(* the link control word of a header: fields of DW3 *)
Definition dw3_crc16 (d : N) : N := bits d 0 16.
Definition dw3_seq (d : N) : N := bits d 16 3.
Definition dw3_crc5 (d : N) : N := bits d 27 5.
(* both CRCs of the four words of a header are the standard ones *)
Definition hdr_crc_ok (dw0 dw1 dw2 dw3 : N) : bool :=
  (dw3_crc5 dw3 =? crc5_usb (bits dw3 16 11)) && (dw3_crc16 dw3 =? crc16_hdr [dw0; dw1; dw2]).
(* the header as one number, in the bit order of HeaderPacket (dw0, dw1, dw2, link control word) *)
Definition hdr_pack (dw0 dw1 dw2 dw3 : N) : N :=
  dw0 + N.shiftl dw1 32 + N.shiftl dw2 64 + N.shiftl dw3 96.

(* the parser of the specification: None = hunting for HPSTART, Some ws = ws collected so far (newest first);
   after the fourth word the verdict is known and the parser hunts again from the cycle after next *)
Inductive rs_state := RS_HUNT | RS_COLLECT (ws : list N) | RS_VERDICT (dw0 dw1 dw2 dw3 : N).
Definition rs_next (p : rs_state) (w : word) : rs_state :=
  match p with
  | RS_HUNT => if is_hpstart w then RS_COLLECT [] else RS_HUNT
  | RS_COLLECT ws =>
      if w_valid w then
        match ws with
        | [d2; d1; d0] => RS_VERDICT d0 d1 d2 (w_data w)
        | _ => RS_COLLECT (w_data w :: ws)
        end
      else p
  | RS_VERDICT _ _ _ _ => RS_HUNT
  end.

(* ------------------------------------------------------------------------------------------ *)
(* 4. MODEL of the bookkeeping                                                                  *)
Inductive dfsm := DISPATCH | SEND_ACKS | ISSUE_CREDITS | SEND_LBAD | SEND_LRTY | SEND_KEEPALIVE | SEND_LXU.
Inductive gfsm := G_IDLE | G_HDR | G_CMD.

Record core := {
  acks : N; credits : N; filled : N; rd : N; wr : N; bufs : list N;
  expd : N; nack : N; ncred : N;
  lbad : bool; lrty : bool; keep : bool; lxu : bool; ign : bool;
  fsm : dfsm; gen : gfsm; lcmd : N; lsub : N }.

Definition dfsm_eqb (a b : dfsm) : bool :=
  match a, b with
  | DISPATCH, DISPATCH | SEND_ACKS, SEND_ACKS | ISSUE_CREDITS, ISSUE_CREDITS | SEND_LBAD, SEND_LBAD
  | SEND_LRTY, SEND_LRTY | SEND_KEEPALIVE, SEND_KEEPALIVE | SEND_LXU, SEND_LXU => true
  | _, _ => false
  end.

Section Core.
  Variables n pw cw sw : N.   (* buffer count; widths of the buffer pointers, of the counters, of sequence numbers *)
  Variable downstream : bool.

  Definition core_fresh (e : N) (b : list N) (x : bool) : core :=
    {| acks := 1; credits := n mod 2 ^ cw; filled := 0; rd := 0; wr := 0; bufs := b;
       expd := e; nack := dec sw e; ncred := 0;
       lbad := false; lrty := false; keep := false; lxu := x; ign := false;
       fsm := DISPATCH; gen := G_IDLE; lcmd := 0; lsub := 0 |}.
  Definition core_init : core := core_fresh 0 (repeat 0 (N.to_nat n)) false.

  (* command and subtype the dispatcher asks the generator for *)
  Definition req_cmd (s : core) : N * N :=
    match fsm s with
    | DISPATCH => (0, 0)
    | SEND_ACKS => (LGOOD, nack s mod 16)
    | ISSUE_CREDITS => (LCRD, ncred s mod 16)
    | SEND_LBAD => (LBAD, 0)
    | SEND_LRTY => (LRTY, 0)
    | SEND_KEEPALIVE => (keepalive_cmd downstream, 0)
    | SEND_LXU => (LXU, 0)
    end.
  Definition generate (s : core) : bool := match fsm s with DISPATCH => false | _ => true end.
  Definition done (s : core) (i : cin) : bool := match gen s with G_CMD => i_srdy i | _ => false end.
  Definition accept (s : core) (i : cin) : bool := i_new i && negb (ign s) && negb (restart i).
  Definition badev (s : core) (i : cin) : bool := i_bad i && negb (ign s).
  Definition qvalid (s : core) : bool := 0 <? filled s.
  Definition consume (s : core) (i : cin) : bool := qvalid s && i_qrdy i.
  Definition in_state (s : core) (f : dfsm) : bool := dfsm_eqb (fsm s) f.

  (* Array index: an out-of-range index selects the last element (only possible when n is not a power of two) *)
  Definition bidx (x : N) : nat := N.to_nat (N.min x (n - 1)).

  Definition core_out (s : core) (i : cin) : cout :=
    {| o_qvalid := qvalid s; o_qhdr := nth (bidx (rd s)) (bufs s) 0;
       o_svalid := match gen s with G_IDLE => false | _ => true end;
       o_sdata := match gen s with G_IDLE => 0 | G_HDR => LC_START | G_CMD => lc_data (lcmd s) (lsub s) end;
       o_sctrl := match gen s with G_HDR => 15 | _ => 0 end;
       o_recov := i_badseq i && negb (ign s); o_sent := done s i; o_lrty := lrty s; o_exp := expd s |}.

  (* the dispatcher *)
  Definition fsm_next (s : core) (i : cin) : dfsm :=
    if restart i then DISPATCH else
    match fsm s with
    | DISPATCH =>
        if lrty s then SEND_LRTY
        else if negb (acks s =? 0) then SEND_ACKS
        else if negb (credits s =? 0) then ISSUE_CREDITS
        else if lbad s then SEND_LBAD
        else if lxu s then SEND_LXU
        else if keep s then SEND_KEEPALIVE
        else DISPATCH
    | SEND_ACKS => if done s i && (acks s =? 1) then DISPATCH else SEND_ACKS
    | ISSUE_CREDITS => if done s i && (credits s =? 1) then DISPATCH else ISSUE_CREDITS
    | f => if done s i then DISPATCH else f
    end.

  (* the link command generator (held in reset while the link is down) *)
  Definition gen_next (s : core) (i : cin) : gfsm :=
    if restart i then G_IDLE else
    match gen s with
    | G_IDLE => if generate s then G_HDR else G_IDLE
    | G_HDR => if i_srdy i then G_CMD else G_HDR
    | G_CMD => if i_srdy i then G_IDLE else G_CMD
    end.
  Definition latch (s : core) (i : cin) : bool :=
    match gen s with G_IDLE => generate s | _ => false end.

  Definition core_step (s : core) (i : cin) : core :=
    let r := restart i in
    let acc := accept s i in
    let dn := done s i in
    let e' := if i_rst i then 0 else if acc then inc sw (expd s) else expd s in
    {| acks := if r then 1 else updown cw (acks s) acc (in_state s SEND_ACKS && dn);
       credits := if r then n mod 2 ^ cw else updown cw (credits s) (consume s i) (in_state s ISSUE_CREDITS && dn);
       filled := if r then 0 else updown cw (filled s) acc (consume s i);
       rd := if r then 0 else if consume s i then inc pw (rd s) else rd s;
       wr := if r then 0 else if acc then inc pw (wr s) else wr s;
       bufs := if acc then upd (bidx (wr s)) (i_pkt i) (bufs s) else bufs s;
       expd := e';
       nack := if r then dec sw e' else if in_state s SEND_ACKS && dn then inc sw (nack s) else nack s;
       ncred := if r then 0 else if in_state s ISSUE_CREDITS && dn then inc pw (ncred s) else ncred s;
       lbad := if r then false else if in_state s SEND_LBAD && dn then false else if badev s i then true else lbad s;
       lrty := if r then false else if in_state s SEND_LRTY && dn then false else if i_retry_req i then true else lrty s;
       keep := if r then false else if in_state s SEND_KEEPALIVE && dn then false else if i_keep i then true else keep s;
       lxu := if in_state s SEND_LXU && dn then false else if i_rej i then true else lxu s;
       ign := if r then false else if i_retry_rx i then false else if badev s i then true else ign s;
       fsm := fsm_next s i; gen := gen_next s i;
       lcmd := if r then 0 else if latch s i then fst (req_cmd s) else lcmd s;
       lsub := if r then 0 else if latch s i then snd (req_cmd s) else lsub s |}.

  (* traces of the typed model *)
  Fixpoint core_run (s : core) (ins : list cin) : list cout :=
    match ins with
    | [] => []
    | i :: t => core_out s i :: core_run (core_step s i) t
    end.
End Core.

(* ------------------------------------------------------------------------------------------ *)
(* 5. MODEL of the raw receiver                                                                 *)
Inductive rfsm := WAIT_HPSTART | RECV (k : nat) (* k = 0..3 *) | CHECK.
Record raw := {
  r_fsm : rfsm;
  r_dw0 : N; r_dw1 : N; r_dw2 : N; r_dw3 : N;    (* packet under reception *)
  r_crc : list bool;                             (* CRC-16 register *)
  r_crc5 : N;                                    (* pipelined expected CRC-5 *)
  r_new : bool;                                  (* new_packet (registered) *)
  r_pkt : N }.                                   (* packet output register *)

Definition raw_init : raw :=
  {| r_fsm := WAIT_HPSTART; r_dw0 := 0; r_dw1 := 0; r_dw2 := 0; r_dw3 := 0; r_crc := reg_init 16;
     r_crc5 := 0; r_new := false; r_pkt := 0 |}.

Definition raw_crc_bad (r : raw) : bool :=
  negb (r_crc5 r =? dw3_crc5 (r_dw3 r)) || negb (crc_out (r_crc r) =? dw3_crc16 (r_dw3 r)).
Definition raw_in_check (r : raw) : bool := match r_fsm r with CHECK => true | _ => false end.
(* outputs (Moore, given the expected sequence number): bad_packet, bad_sequence; new_packet / packet are registers *)
Definition raw_bad (r : raw) : bool := raw_in_check r && raw_crc_bad r.
Definition raw_badseq (r : raw) (e : N) : bool :=
  raw_in_check r && negb (raw_crc_bad r) && negb (dw3_seq (r_dw3 r) =? e).
Definition raw_good (r : raw) (e : N) : bool :=
  raw_in_check r && negb (raw_crc_bad r) && (dw3_seq (r_dw3 r) =? e).

Definition raw_step (r : raw) (w : word) (e : N) : raw :=
  let v := w_valid w in let d := w_data w in
  let take (k : nat) := match r_fsm r with RECV k' => Nat.eqb k k' && v | _ => false end in
  {| r_fsm := match r_fsm r with
              | WAIT_HPSTART => if is_hpstart w then RECV 0 else WAIT_HPSTART
              | RECV 3 => if v then CHECK else RECV 3
              | RECV k => if v then RECV (S k) else RECV k
              | CHECK => WAIT_HPSTART
              end;
     r_dw0 := if take 0%nat then d else r_dw0 r;
     r_dw1 := if take 1%nat then d else r_dw1 r;
     r_dw2 := if take 2%nat then d else r_dw2 r;
     r_dw3 := if take 3%nat then d else r_dw3 r;
     r_crc := match r_fsm r with
              | WAIT_HPSTART => reg_init 16
              | RECV 3 | CHECK => r_crc r
              | RECV _ => if v then crc_update poly16h (r_crc r) (N2bits 32 d) else r_crc r
              end;
     r_crc5 := if take 3%nat then crc5_usb (bits d 16 11) else r_crc5 r;
     r_new := raw_good r e;
     r_pkt := if raw_good r e then hdr_pack (r_dw0 r) (r_dw1 r) (r_dw2 r) (r_dw3 r) else r_pkt r |}.

(* ------------------------------------------------------------------------------------------ *)
(* 6. HeaderPacketReceiver = raw receiver + bookkeeping                                          *)
Record hin := {
  h_en : bool; h_rst : bool; h_qrdy : bool; h_retry_rx : bool; h_retry_req : bool;
  h_keep : bool; h_rej : bool; h_srdy : bool; h_sink : word }.

Section Full.
  Variables n pw cw sw : N.
  Variable downstream : bool.

  Definition hr_state : Type := raw * core.
  Definition hr_init : hr_state := (raw_init, core_init n cw sw).

  (* what the bookkeeping sees in a cycle *)
  Definition hr_cin (r : raw) (c : core) (i : hin) : cin :=
    {| i_en := h_en i; i_rst := h_rst i; i_qrdy := h_qrdy i; i_retry_rx := h_retry_rx i;
       i_retry_req := h_retry_req i; i_keep := h_keep i; i_rej := h_rej i; i_srdy := h_srdy i;
       i_new := r_new r; i_bad := raw_bad r; i_badseq := raw_badseq r (expd c); i_pkt := r_pkt r |}.

  Definition hr_step (st : hr_state) (i : hin) : hr_state * cout :=
    let (r, c) := st in
    let ci := hr_cin r c i in
    ((raw_step r (h_sink i) (expd c), core_step n pw cw sw downstream c ci), core_out n c ci).
End Full.

(* ------------------------------------------------------------------------------------------ *)
(* 7. Packed forms                                                                              *)
(* output word: queue.valid, queue.header (hw bits), source.valid, source.data (32), source.ctrl (4),
   recovery_required, link_command_sent, lrty_pending, expected sequence (3) *)
Definition pack_cout (hw : N) (o : cout) : N :=
  b2n (o_qvalid o) + 2 * (o_qhdr o + 2 ^ hw * (b2n (o_svalid o) + 2 * (o_sdata o + 2 ^ 32 * (o_sctrl o + 16 *
  (b2n (o_recov o) + 2 * (b2n (o_sent o) + 2 * (b2n (o_lrty o) + 2 * o_exp o))))))).
Definition unpack_cout (hw : N) (x : N) : cout :=
  {| o_qvalid := N.testbit x 0; o_qhdr := bits x 1 hw; o_svalid := N.testbit x (1 + hw);
     o_sdata := bits x (2 + hw) 32; o_sctrl := bits x (34 + hw) 4; o_recov := N.testbit x (38 + hw);
     o_sent := N.testbit x (39 + hw); o_lrty := N.testbit x (40 + hw); o_exp := bits x (41 + hw) 3 |}.

(* (a) bookkeeping with the raw receiver's strobes as free inputs (the "stub" targets): input word
   enable, usb_reset, queue.ready, retry_received, retry_required, keepalive_required, reject_power_state,
   source.ready, new_packet, bad_packet, bad_sequence, packet (hw bits) *)
Definition cin_of (hw : N) (x : N) : cin :=
  {| i_en := N.testbit x 0; i_rst := N.testbit x 1; i_qrdy := N.testbit x 2; i_retry_rx := N.testbit x 3;
     i_retry_req := N.testbit x 4; i_keep := N.testbit x 5; i_rej := N.testbit x 6; i_srdy := N.testbit x 7;
     i_new := N.testbit x 8; i_bad := N.testbit x 9; i_badseq := N.testbit x 10; i_pkt := bits x 11 hw |}.

Definition core_mstep (n pw cw sw : N) (down : bool) (hw : N) (s : core) (x : N) : core * N :=
  let i := cin_of hw x in (core_step n pw cw sw down s i, pack_cout hw (core_out n s i)).

(* (b) the complete HeaderPacketReceiver: input word = the eight controls, sink.valid, sink.data (32), sink.ctrl (4);
   output word = pack_cout 128 plus packet_received and bad_packet_received on top *)
Definition hin_of (x : N) : hin :=
  {| h_en := N.testbit x 0; h_rst := N.testbit x 1; h_qrdy := N.testbit x 2; h_retry_rx := N.testbit x 3;
     h_retry_req := N.testbit x 4; h_keep := N.testbit x 5; h_rej := N.testbit x 6; h_srdy := N.testbit x 7;
     h_sink := {| w_valid := N.testbit x 8; w_data := bits x 9 32; w_ctrl := bits x 41 4 |} |}.
Definition cin_of_hin (e : N) (new bad badseq : bool) (pkt : N) (i : hin) : cin :=
  {| i_en := h_en i; i_rst := h_rst i; i_qrdy := h_qrdy i; i_retry_rx := h_retry_rx i;
     i_retry_req := h_retry_req i; i_keep := h_keep i; i_rej := h_rej i; i_srdy := h_srdy i;
     i_new := new; i_bad := bad; i_badseq := badseq; i_pkt := pkt |}.

Definition hr_mstep (n pw cw sw : N) (down : bool) (st : hr_state) (x : N) : hr_state * N :=
  let (st', o) := hr_step n pw cw sw down st (hin_of x) in
  (st', pack_cout 128 o + 2 ^ 172 * (b2n (r_new (fst st)) + 2 * b2n (raw_bad (fst st)))).

(* (c) the raw receiver alone: input word sink.valid, sink.data (32), sink.ctrl (4), expected_sequence (3);
   output word new_packet, bad_packet, bad_sequence, packet (128) *)
Definition raw_mstep (r : raw) (x : N) : raw * N :=
  let w := {| w_valid := N.testbit x 0; w_data := bits x 1 32; w_ctrl := bits x 33 4 |} in
  let e := bits x 37 3 in
  (raw_step r w e, b2n (r_new r) + 2 * (b2n (raw_bad r) + 2 * (b2n (raw_badseq r e) + 2 * r_pkt r))).

(* the specification monitor on packed words (runtime oracle / R-monitor).  Monitor state = sp_state packed. *)
Definition dfsm_code (f : dfsm) : N :=
  match f with DISPATCH => 0 | SEND_ACKS => 1 | ISSUE_CREDITS => 2 | SEND_LBAD => 3 | SEND_LRTY => 4
             | SEND_KEEPALIVE => 5 | SEND_LXU => 6 end.
Definition dfsm_of (c : N) : dfsm :=
  match c with 0 => DISPATCH | 1 => SEND_ACKS | 2 => ISSUE_CREDITS | 3 => SEND_LBAD | 4 => SEND_LRTY
             | 5 => SEND_KEEPALIVE | _ => SEND_LXU end.
Definition gfsm_code (g : gfsm) : N := match g with G_IDLE => 0 | G_HDR => 1 | G_CMD => 2 end.
Definition gfsm_of (c : N) : gfsm := match c with 0 => G_IDLE | 1 => G_HDR | _ => G_CMD end.
Definition n2b (x : N) : bool := x =? 1.

(* state packing: every numeric field and every buffered header in its own W-bit slot (all must be < 2^W) *)
Fixpoint packb (W : N) (l : list N) : N :=
  match l with [] => 0 | x :: t => x + N.shiftl (packb W t) W end.
Fixpoint unpackb (W : N) (k : nat) (m : N) : list N :=
  match k with O => [] | S k' => N.land m (N.ones W) :: unpackb W k' (N.shiftr m W) end.

Definition core_nums (s : core) : list N :=
  [acks s; credits s; filled s; rd s; wr s; expd s; nack s; ncred s; lcmd s; lsub s;
   b2n (lbad s); b2n (lrty s); b2n (keep s); b2n (lxu s); b2n (ign s); dfsm_code (fsm s); gfsm_code (gen s)]
  ++ bufs s.
Definition core_enc (W : N) (s : core) : N := packb W (core_nums s).
Definition core_dec (W : N) (nb : nat) (m : N) : core :=
  let l := unpackb W (17 + nb) m in
  let f k := nth k l 0 in
  {| acks := f 0%nat; credits := f 1%nat; filled := f 2%nat; rd := f 3%nat; wr := f 4%nat; bufs := skipn 17 l;
     expd := f 5%nat; nack := f 6%nat; ncred := f 7%nat;
     lbad := n2b (f 10%nat); lrty := n2b (f 11%nat); keep := n2b (f 12%nat); lxu := n2b (f 13%nat);
     ign := n2b (f 14%nat); fsm := dfsm_of (f 15%nat); gen := gfsm_of (f 16%nat);
     lcmd := f 8%nat; lsub := f 9%nat |}.
Definition core_wf (W : N) (nb : nat) (s : core) : Prop :=
  length (bufs s) = nb /\ Forall (fun x => x < 2 ^ W) (core_nums s).

Definition sp_nums (g : sp_state) : list N :=
  [s_exp g; b2n (s_ign g); s_ackowed g; s_nextack g; s_credowed g; s_nextcred g; s_partner g;
   b2n (s_adv g); b2n (s_lbadowed g); N.of_nat (length (s_q g))] ++ s_q g.
Definition sp_enc (W : N) (g : sp_state) : N := packb W (sp_nums g).
Definition sp_dec (W : N) (m : N) : sp_state :=
  let h := unpackb W 10 m in
  let f k := nth k h 0 in
  let l := unpackb W (10 + N.to_nat (f 9%nat)) m in
  {| s_exp := f 0%nat; s_ign := n2b (f 1%nat); s_q := skipn 10 l; s_ackowed := f 2%nat; s_nextack := f 3%nat;
     s_credowed := f 4%nat; s_nextcred := f 5%nat; s_partner := f 6%nat; s_adv := n2b (f 7%nat);
     s_lbadowed := n2b (f 8%nat) |}.
Definition sp_monN (n sw : N) (down : bool) (W : N) (ci : N -> cin) (co : N -> cout) (m i o : N) : option (N * bool) :=
  match sp_mon n sw down (sp_dec W m) (ci i) (co o) with
  | None => None
  | Some (g, ok) => Some (sp_enc W g, ok)
  end.

(* ------------------------------------------------------------------------------------------ *)
(* 8. The specification at the level of the sink: header parser + verdict + bookkeeping monitor  *)
(* the raw receiver as the specification describes it: the parser, plus the one-cycle delay of new_packet and the
   holding register of the last accepted header *)
Record rsx := { x_p : rs_state; x_new : bool; x_pkt : N }.
Definition rsx_init : rsx := {| x_p := RS_HUNT; x_new := false; x_pkt := 0 |}.
Definition rsx_bad (x : rsx) : bool :=
  match x_p x with RS_VERDICT d0 d1 d2 d3 => negb (hdr_crc_ok d0 d1 d2 d3) | _ => false end.
Definition rsx_good (x : rsx) (e : N) : bool :=
  match x_p x with RS_VERDICT d0 d1 d2 d3 => hdr_crc_ok d0 d1 d2 d3 && (dw3_seq d3 =? e) | _ => false end.
Definition rsx_badseq (x : rsx) (e : N) : bool :=
  match x_p x with RS_VERDICT d0 d1 d2 d3 => hdr_crc_ok d0 d1 d2 d3 && negb (dw3_seq d3 =? e) | _ => false end.
Definition rsx_step (x : rsx) (w : word) (e : N) : rsx :=
  {| x_p := rs_next (x_p x) w; x_new := rsx_good x e;
     x_pkt := match x_p x with
              | RS_VERDICT d0 d1 d2 d3 => if rsx_good x e then hdr_pack d0 d1 d2 d3 else x_pkt x
              | _ => x_pkt x
              end |}.

(* events the bookkeeping specification is fed with, derived from the sink history by the parser *)
Definition spec_cin (x : rsx) (e : N) (i : hin) : cin :=
  cin_of_hin e (x_new x) (rsx_bad x) (rsx_badseq x e) (x_pkt x) i.

Section FullSpec.
  Variables n sw : N.
  Variable downstream : bool.
  (* monitor of the complete receiver: state = (parser, bookkeeping specification); the sequence number a header is
     compared with is the SPECIFICATION's expected number *)
  Definition hs_mon (st : rsx * sp_state) (i : hin) (o : cout) : option ((rsx * sp_state) * bool) :=
    let (x, g) := st in
    let ci := spec_cin x (s_exp g) i in
    match sp_mon n sw downstream g ci o with
    | None => None
    | Some (g', ok) => Some ((rsx_step x (h_sink i) (s_exp g), g'), ok)
    end.
  Fixpoint hs_accepts (st : rsx * sp_state) (ios : list (hin * cout)) : bool :=
    match ios with
    | [] => true
    | (i, o) :: t => match hs_mon st i o with
                     | None => true
                     | Some (st', ok) => ok && hs_accepts st' t
                     end
    end.
End FullSpec.

(* ------------------------------------------------------------------------------------------ *)
(* 9. Environments, alphabets and packed monitors for the ties                                   *)
(* the partner's rules, read off the model state (partner credits = n - buffered - credits still to issue) *)
Definition core_env (n hw : N) (s : core) (x : N) : bool :=
  let i := cin_of hw x in
  negb (i_new i && negb (ign s) && negb (restart i)) || ((filled s + credits s <? n) && (acks s <? n)).

(* all words that have the bits of `fixed` set plus any subset of the bit positions `free` *)
Fixpoint subsets (free : list N) : list N :=
  match free with
  | [] => [0]
  | b :: t => let l := subsets t in l ++ map (fun x => x + 2 ^ b) l
  end.
Definition alpha_of (fixed : N) (free : list N) : list N := map (fun x => x + fixed) (subsets free).

Definition rs_nums (p : rs_state) : list N :=
  match p with
  | RS_HUNT => [0; 0; 0; 0; 0; 0]
  | RS_COLLECT ws => [1; N.of_nat (length ws); nth 0 ws 0; nth 1 ws 0; nth 2 ws 0; 0]
  | RS_VERDICT d0 d1 d2 d3 => [2; 0; d0; d1; d2; d3]
  end.
Definition rs_of_nums (l : list N) : rs_state :=
  let f k := nth k l 0 in
  match f 0%nat with
  | 0 => RS_HUNT
  | 1 => RS_COLLECT (firstn (N.to_nat (f 1%nat)) [f 2%nat; f 3%nat; f 4%nat])
  | _ => RS_VERDICT (f 2%nat) (f 3%nat) (f 4%nat) (f 5%nat)
  end.
Definition hs_enc (W : N) (st : rsx * sp_state) : N :=
  packb W (rs_nums (x_p (fst st)) ++ [b2n (x_new (fst st)); x_pkt (fst st)] ++ sp_nums (snd st)).
Definition hs_dec (W : N) (m : N) : rsx * sp_state :=
  let l := unpackb W 8 m in
  ({| x_p := rs_of_nums l; x_new := n2b (nth 6 l 0); x_pkt := nth 7 l 0 |},
   sp_dec W (N.shiftr m (8 * W))).

(* full-target output word: pack_cout 128 plus packet_received / bad_packet_received on top *)
Definition hs_monN (n sw : N) (down : bool) (W : N) (m i o : N) : option (N * bool) :=
  let st := hs_dec W m in
  match hs_mon n sw down st (hin_of i) (unpack_cout 128 o) with
  | None => None
  | Some (st', ok) =>
      Some (hs_enc W st', ok && Bool.eqb (N.testbit o 172) (x_new (fst st)) && Bool.eqb (N.testbit o 173) (rsx_bad (fst st)))
  end.

(* raw receiver alone: the specification's parser as a monitor of (sink, expected) -> (new, bad, bad_sequence, packet) *)
Definition rsx_monN (W : N) (m i o : N) : option (N * bool) :=
  let l := unpackb W 8 m in
  let x := {| x_p := rs_of_nums l; x_new := n2b (nth 6 l 0); x_pkt := nth 7 l 0 |} in
  let w := {| w_valid := N.testbit i 0; w_data := bits i 1 32; w_ctrl := bits i 33 4 |} in
  let e := bits i 37 3 in
  let x' := rsx_step x w e in
  Some (packb W (rs_nums (x_p x') ++ [b2n (x_new x'); x_pkt x']),
        o =? b2n (x_new x) + 2 * (b2n (rsx_bad x) + 2 * (b2n (rsx_badseq x e) + 2 * x_pkt x))).

(* ------------------------------------------------------------------------------------------ *)
(* 10. Histories (for the statement "each accepted header is offered exactly once and in order")   *)
Section Hist.
  Variables n sw : N.
  Variable down : bool.
  (* a run the monitor accepts without the partner ever breaking its rules: final state, headers accepted (in order),
     headers handed to the protocol layer (in order) *)
  Fixpoint sp_run (g : sp_state) (ios : list (cin * cout)) : option (sp_state * list N * list N) :=
    match ios with
    | [] => Some (g, [], [])
    | (i, o) :: t =>
        match sp_mon n sw down g i o with
        | Some (g', true) =>
            match sp_run g' t with
            | Some (gf, a, d) => Some (gf, (if sp_accept g i then [i_pkt i] else []) ++ a,
                                          (if o_qvalid o && i_qrdy i then [o_qhdr o] else []) ++ d)
            | None => None
            end
        | _ => None
        end
    end.

End Hist.
