(* C38 -- proofs: whatever the receiver was doing, one cycle with the link down leaves the bookkeeping in the fresh
   state, from which every continuation satisfies the specification of Model/HdrRx.v started afresh (advertisement
   LGOOD (e - 1) first, n credits owed starting at A, empty queue, not ignoring). *)
From Coq Require Import NArith ZArith List Bool Lia.
Import ListNotations.
From LunaLib Require Import Netlist Machine.
From LunaModel Require Import Crc HdrRx HdrRx_proofs HdrRxReentry.
Open Scope N_scope.
Unset Lia Cache.

Section Reentry.
  Variables n pw cw sw : N.
  Variable down : bool.
  Hypothesis Hn : n = 2 ^ pw.
  Hypothesis Hcw : n < 2 ^ cw.
  Hypothesis Hpw4 : pw <= 4.
  Hypothesis Hsw4 : sw <= 4.

  Notation step := (core_step n pw cw sw down).

  (* the next expected sequence number survives a disable and is zeroed by a USB reset *)
  Definition seq_after (s : core) (i : cin) : N := if i_rst i then 0 else expd s.

  (* ANY state (no invariant assumed beyond the shape of the buffer array and the width of the sequence register):
     in particular every dispatcher state, mid-command generator states, pending LBAD / LRTY / keepalive, any counters *)
  Theorem reentry_meets_spec : forall (s : core) (i : cin) (ins : list cin),
    length (bufs s) = N.to_nat n -> expd s < 2 ^ sw -> restart i = true ->
    sp_accepts n sw down (sp_fresh n sw (seq_after s i)) (core_ios n pw cw sw down (step s i) ins) = true.
  Proof.
    intros s i ins Hl He Hr. rewrite (restart_is_fresh n pw cw sw down s i Hr).
    eapply core_refines; try eassumption.
    eapply inv_fresh; try eassumption.
    unfold seq_after. pose proof (pow2_gt0 sw). destruct (i_rst i); lia.
  Qed.

  (* specification-level reading of "begins by sending one LGOOD advertising the last received sequence number":
     until the advertisement has gone out, the only command the specification lets complete is LGOOD (nextack),
     and after a re-entry nextack = e - 1 *)
  Theorem first_command_is_advertisement : forall g i o cmd sub,
    s_adv g = false -> sp_check down g i o = true -> completed i o = Some (cmd, sub) ->
    cmd = LGOOD /\ sub = s_nextack g.
  Proof.
    intros g i o cmd sub Ha Hc Hcomp. unfold sp_check in Hc. rewrite Hcomp in Hc.
    apply andb_true_iff in Hc as [_ Hc]. unfold sp_cmd_ok in Hc. rewrite Ha in Hc.
    apply andb_true_iff in Hc as [_ Hc].
    destruct (cmd =? LGOOD) eqn:E.
    - apply N.eqb_eq in E. apply andb_true_iff in Hc as [_ Hs]. apply N.eqb_eq in Hs. auto.
    - destruct (cmd =? LCRD); [discriminate Hc|]. destruct (cmd =? LBAD); [discriminate Hc|].
      destruct ((cmd =? LRTY) || (cmd =? LXU) || (cmd =? keepalive_cmd down)); discriminate Hc.
  Qed.
End Reentry.

(* The advertisement really is produced (LUNA's configuration: four buffers, 3-bit sequence numbers): for every
   dispatcher state x generator state x expected sequence number, with counters, pending flags and latches in an
   arbitrary non-fresh condition, one cycle with the link down followed by quiet cycles yields exactly
   LGOOD (e - 1), LCRD A, B, C, D and nothing else. *)
Definition crash_state (f : dfsm) (g : gfsm) (e : N) : core :=
  {| acks := 3; credits := 2; filled := 2; rd := 1; wr := 3; bufs := [11; 22; 33; 44];
     expd := e; nack := 5; ncred := 2; lbad := true; lrty := true; keep := true; lxu := false; ign := true;
     fsm := f; gen := g; lcmd := LCRD; lsub := 2 |}.
Definition reentry_commands (f : dfsm) (g : gfsm) (e : N) (rst : bool) : list (N * N) :=
  let down_cycle := {| i_en := rst; i_rst := rst; i_qrdy := true; i_retry_rx := false; i_retry_req := true;
                       i_keep := true; i_rej := false; i_srdy := false; i_new := true; i_bad := false;
                       i_badseq := false; i_pkt := 99 |} in
  commands (core_ios 4 2 3 3 false (core_step 4 2 3 3 false (crash_state f g e) down_cycle) (repeat quiet 24)).

Theorem crash_point_sweep :
  forallb (fun f => forallb (fun g => forallb (fun e =>
     list_eqb_pairs (reentry_commands f g e false) (advertisement 4 3 e) &&
     list_eqb_pairs (reentry_commands f g e true) (advertisement 4 3 0))
   [0; 1; 2; 3; 4; 5; 6; 7]) all_gfsm) all_dfsm = true.
Proof. vm_compute. reflexivity. Qed.
