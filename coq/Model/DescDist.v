(* C09 -- hand model of luna/gateware/usb/usb2/descriptor.py: GetDescriptorHandlerDistributed (the block-RAM-free
   GET_DESCRIPTOR handler): one USBDescriptorStreamGenerator (= ConstantStreamGenerator, byte-wide, 16-bit
   max_length; model: Model/ConstGen.v, proved in C27) per descriptor, all fed the same start position and length
   limit, the one selected by `value` connected to the tx stream and started through a registered start strobe.

   This is the PROPERTY-SATISFYING behaviour: a request whose start position lies at or beyond the end of the
   descriptor (the previous packet ended the descriptor on a packet boundary), or for which nothing of wLength
   remains, is answered with a one-cycle zero-length-packet pulse (valid & last & ~first) and the generator is not
   started.  The unchanged /repo instead starts the generator at a clamped / truncated position
   (findings/C09-dist-zlp.json, .diff): it re-sends descriptor data when the length is a power of two, and otherwise holds
   a ZLP-shaped beat until `ready`, which USBDataPacketGenerator never gives -- the device then repeats ZLPs.

   Ports as in Model/DescSpec.v. *)
From Coq Require Import NArith List Bool.
Import ListNotations.
From LunaLib Require Import Netlist Bits Machine.
From LunaModel Require Import ConstGen DescSpec DescRom.
Open Scope N_scope.

(* one generator: the wValue that selects it and its constant bytes *)
Definition dgen := (N * desc)%type.
Definition gen_cfg (d : desc) : cg_cfg := cfg_of_bytes d 1 false (Some 16).

(* generators the model is defined for: bytes, at least one of them (a ConstantStreamGenerator of no data does not
   elaborate), fewer than 2048 (start_position has 11 bits) *)
Definition gen_okb (g : dgen) : bool :=
  forallb (fun b => b <? 256) (snd g) && (1 <=? nlen (snd g)) && (nlen (snd g) <? 2048).
Definition gens_okb (gs : list dgen) : bool := forallb gen_okb gs.

(* packed input word of a ConstantStreamGenerator (see ConstGen.v): start | start_position | max_length | ready *)
Definition cg_in (c : cg_cfg) (start : bool) (sp ml : N) (ready : bool) : N :=
  b2n start + N.shiftl (trunc (c_spw c) sp) 1 + N.shiftl (trunc (c_mlw c) ml) (1 + c_spw c)
  + N.shiftl (b2n ready) (1 + c_spw c + c_mlw c).

Record ds_state := { d_zlp : bool;                         (* send_zlp *)
                     d_gens : list (bool * cg_state) }.    (* per generator: registered start strobe, generator state *)

Section Dist.
  Variable gens : list dgen.
  Variable mps : N.

  (* length = (words_remaining <= max packet) ? words_remaining : max packet, words_remaining signed(17) -- combinational *)
  Definition ds_len (i : N) : N :=
    if i_wlen i <? i_sp i then trunc 16 (i_wlen i + 65536 - i_sp i)
    else if i_wlen i - i_sp i <=? mps then i_wlen i - i_sp i else trunc 16 mps.

  Definition past_end (d : desc) (i : N) : bool := (nlen d <=? i_sp i) || (ds_len i =? 0).

  (* one generator's cycle: its input word, its step, its start register *)
  Definition gen_step (g : dgen) (s : bool * cg_state) (i : N) : (bool * cg_state) * N :=
    let c := gen_cfg (snd g) in
    let sel := fst g =? i_value i in
    let gi := cg_in c (fst s) (i_sp i) (ds_len i) (sel && i_ready i) in
    let (st', o) := cg_step c (snd s) gi in
    ((if sel then i_start i && negb (past_end (snd g) i) else fst s, st'), o).

  Fixpoint gens_next (gs : list dgen) (ss : list (bool * cg_state)) (i : N) : list (bool * cg_state) :=
    match gs, ss with
    | g :: gs', s :: ss' => fst (gen_step g s i) :: gens_next gs' ss' i
    | _, _ => []
    end.

  (* output word of the generator the Switch connects to tx (the first whose key matches), if any *)
  Fixpoint sel_out (gs : list dgen) (ss : list (bool * cg_state)) (i : N) : option N :=
    match gs, ss with
    | g :: gs', s :: ss' => if fst g =? i_value i then Some (snd (gen_step g s i)) else sel_out gs' ss' i
    | _, _ => None
    end.

  Fixpoint sel_desc (gs : list dgen) (value : N) : option desc :=
    match gs with
    | [] => None
    | g :: gs' => if fst g =? value then Some (snd g) else sel_desc gs' value
    end.

  Definition ds_out (st : ds_state) (i : N) : N :=
    match sel_out gens (d_gens st) i with
    | Some o => N.lor (trunc 11 o) (if d_zlp st then 5 else 0)            (* valid|first|last|payload of the generator *)
    | None => (if d_zlp st then 5 else 0) + (if i_start i then 2048 else 0) (* Default: stall = start *)
    end.

  Definition ds_next (st : ds_state) (i : N) : ds_state :=
    {| d_zlp := match sel_desc gens (i_value i) with
                | Some d => i_start i && past_end d i
                | None => false
                end;
       d_gens := gens_next gens (d_gens st) i |}.

  Definition ds_step (st : ds_state) (i : N) : ds_state * N := (ds_next st i, ds_out st i).
  Definition ds_init : ds_state :=
    {| d_zlp := false; d_gens := map (fun g => (false, cg_init (gen_cfg (snd g)))) gens |}.

  (* ---- the environment assumption of the lock-step obligation, stated on the model state (it is implied by the
     specification-level assumption s_env, lemma dist_env_ok): while a generator is started or streaming, its
     descriptor stays selected, start stays low and start_position / the length limit are held; a zero-length packet
     is not overlapped with a new request; a request is legal (start_position < wLength, <= len(descriptor)). ---- *)
  Definition gen_env (g : dgen) (s : bool * cg_state) (i : N) : bool :=
    match g_fsm (snd s) with
    | STREAMING => (fst g =? i_value i) && negb (i_start i) && (i_sp i + g_sent (snd s) =? g_pos (snd s))
                   && (ds_len i =? g_ml (snd s))
    | _ => if fst s then (fst g =? i_value i) && negb (i_start i) else true
    end.
  Fixpoint gens_env (gs : list dgen) (ss : list (bool * cg_state)) (i : N) : bool :=
    match gs, ss with
    | g :: gs', s :: ss' => gen_env g s i && gens_env gs' ss' i
    | _, _ => true
    end.
  Definition ds_env (st : ds_state) (i : N) : bool :=
    gens_env gens (d_gens st) i
    && (if d_zlp st then negb (i_start i) else true)
    && (if i_start i
        then (i_sp i <? i_wlen i) && match sel_desc gens (i_value i) with Some d => i_sp i <=? nlen d | None => true end
        else true).

  (* ---- packing of the model state for lock-step obligations: one 64-bit field per generator ---- *)
  Definition gen_enc (g : dgen) (s : bool * cg_state) : N := b2n (fst s) + 2 * cg_enc (gen_cfg (snd g)) (snd s).
  Definition gen_dec (g : dgen) (m : N) : bool * cg_state := (N.odd m, cg_dec (gen_cfg (snd g)) (N.div2 m)).
  Fixpoint gens_enc (gs : list dgen) (ss : list (bool * cg_state)) : N :=
    match gs, ss with
    | g :: gs', s :: ss' => gen_enc g s + N.shiftl (gens_enc gs' ss') 64
    | _, _ => 0
    end.
  Fixpoint gens_dec (gs : list dgen) (m : N) : list (bool * cg_state) :=
    match gs with
    | [] => []
    | g :: gs' => gen_dec g (trunc 64 m) :: gens_dec gs' (N.shiftr m 64)
    end.
  Definition ds_enc (st : ds_state) : N := b2n (d_zlp st) + 2 * gens_enc gens (d_gens st).
  Definition ds_dec (m : N) : ds_state := {| d_zlp := N.odd m; d_gens := gens_dec gens (N.div2 m) |}.

  Definition gen_wf (g : dgen) (s : bool * cg_state) : Prop :=
    cg_wf (gen_cfg (snd g)) (snd s) /\ g_rd (snd s) < 256 /\ gen_okb g = true.
  Definition ds_wf (st : ds_state) : Prop := Forall2 gen_wf gens (d_gens st).
End Dist.

(* ---- how the constructor derives the generators from the collection (one per descriptor) ---- *)
Definition dist_gens (c : dcoll) : list dgen :=
  flat_map (fun p => map (fun e => (fst e + 256 * fst p, snd e)) (snd p)) c.

(* implementation-defined latency of the distributed handler *)
Definition ds_lat (c : dcoll) (q : dreq) : N :=
  match find_desc c (v_type (q_value q)) (v_index (q_value q)) with
  | None => 0
  | Some d => if nlen d <=? q_sp q then 1 else 2
  end.
