(* C25 -- the cycle-level receive front end (GwPhy.rxf: synchronisers, clock/data recovery, NRZI decoder, packet
   detector, bit-stuff remover, shifter, up to the FIFO write ports) on an ideally (4x) sampled line, at any phase,
   performs exactly the steps of the symbol-level machine GwPhy.rxb, one per line symbol. *)
From Coq Require Import NArith ZArith List Bool Lia Arith ZifyBool ZifyN.
Import ListNotations.
From LunaLib Require Import Netlist Machine.
From LunaModel Require Import GwPhyCodec GwPhyCodec_proofs GwPhy GwPhyRxB_proofs.
Open Scope N_scope.
Ltac Zify.zify_post_hook ::= Z.div_mod_to_equations.

(* ================================================================================================ *)
(* 1. splitting the front end into clock recovery and the rest                                      *)
(* ================================================================================================ *)
Record rxd := { d_nz : rxnz; d_det : N; d_bs : rxbs; d_sh : rxsh; d_past : bool; d_err : bool }.
Definition rxd_of (s : rxf) : rxd :=
  {| d_nz := f_nz s; d_det := f_det s; d_bs := f_bs s; d_sh := f_sh s; d_past := f_past s; d_err := f_err s |}.
Definition mkF (k : cdr) (d : rxd) : rxf :=
  {| f_cdr := k; f_nz := d_nz d; f_det := d_det d; f_bs := d_bs d; f_sh := d_sh d; f_past := d_past d; f_err := d_err d |}.

Definition rxd_next (d : rxd) (valid dj dk : bool) : rxd :=
  let z := d_nz d in let b := d_bs d in
  let st := det_start (d_det d) (z_valid z) (z_data z) (z_se0 z) in
  let en := det_end (d_det d) (z_valid z) (z_se0 z) in
  let act := det_active (d_det d) (z_valid z) (z_se0 z) in
  {| d_nz := rxnz_next z valid dj dk;
     d_det := det_next (d_det d) (z_valid z) (z_data z) (z_se0 z);
     d_bs := rxbs_next b (z_valid z) (z_data z);
     d_sh := rxsh_next 8 (d_sh d) en (negb (b_stall b) && d_past d) (b_data b);
     d_past := act;
     d_err := if st then false else if b_error b && d_past d then true else d_err d |}.

(* FIFO write events and the error flag shown by a state *)
Definition rxd_events (d : rxd) : list rxev :=
  let z := d_nz d in
  (if det_start (d_det d) (z_valid z) (z_data z) (z_se0 z) then [EvStart] else []) ++
  (if r_put (d_sh d) then [EvByte (rev8 (r_reg (d_sh d) mod 256))] else []) ++
  (if det_end (d_det d) (z_valid z) (z_se0 z) then [EvEnd] else []).

Lemma mkF_rxd_of : forall s, mkF (f_cdr s) (rxd_of s) = s.
Proof. intros []; reflexivity. Qed.

Lemma rxf_next_split : forall k d dp dn,
  rxf_next (mkF k d) dp dn = mkF (cdr_next k dp dn) (rxd_next d (k_valid k) (k_dj k) (k_dk k)).
Proof. intros k [z q b sh p e] dp dn. reflexivity. Qed.

Lemma rev8_lt : forall x, rev8 x < 256.
Proof.
  intro x. unfold rev8.
  destruct (N.testbit x 7), (N.testbit x 6), (N.testbit x 5), (N.testbit x 4),
           (N.testbit x 3), (N.testbit x 2), (N.testbit x 1), (N.testbit x 0); cbn; lia.
Qed.

Lemma testbit_b2n : forall x n, b2n (N.testbit x n) = (x / 2 ^ n) mod 2.
Proof. intros. rewrite <- N.testbit_spec'. destruct (N.testbit x n); reflexivity. Qed.

Lemma out_fields : forall (a c d e f g : bool) r, r < 256 ->
  let o := b2n a + 2 * r + 512 * b2n c + 1024 * b2n d + 2048 * b2n e + 4096 * b2n f + 8192 * b2n g in
  N.testbit o 0 = a /\ bits o 1 8 = r /\ N.testbit o 9 = c /\ N.testbit o 10 = d /\ N.testbit o 11 = e /\ N.testbit o 12 = f.
Proof.
  intros a c d e f g r Hr o.
  assert (T : forall n v, (o / 2 ^ n) mod 2 = b2n v -> N.testbit o n = v).
  { intros n v H. rewrite <- testbit_b2n in H. destruct (N.testbit o n), v; cbn in H; congruence. }
  subst o. repeat split.
  - apply T. change (2 ^ 0) with 1. destruct a, c, d, e, f, g; unfold b2n; lia.
  - unfold bits. rewrite N.shiftr_div_pow2, N.land_ones. change (2 ^ 1) with 2. change (2 ^ 8) with 256.
    destruct a, c, d, e, f, g; unfold b2n; lia.
  - apply T. change (2 ^ 9) with 512. destruct a, c, d, e, f, g; unfold b2n; lia.
  - apply T. change (2 ^ 10) with 1024. destruct a, c, d, e, f, g; unfold b2n; lia.
  - apply T. change (2 ^ 11) with 2048. destruct a, c, d, e, f, g; unfold b2n; lia.
  - apply T. change (2 ^ 12) with 4096. destruct a, c, d, e, f, g; unfold b2n; lia.
Qed.

Lemma rxf_out_obs : forall k d,
  rxf_events (rxf_out (mkF k d)) = rxd_events d /\ rxf_err_of (rxf_out (mkF k d)) = d_err d.
Proof.
  intros k [z q b sh p e]. unfold rxf_out, rxf_events, rxf_err_of, rxd_events, mkF.
  cbn [f_cdr f_nz f_det f_bs f_sh f_past f_err d_nz d_det d_bs d_sh d_past d_err].
  set (st := det_start q (z_valid z) (z_data z) (z_se0 z)). set (en := det_end q (z_valid z) (z_se0 z)).
  destruct (out_fields (r_put sh) (st || en) en st e (k_valid k) (rev8 (r_reg sh mod 256)) (rev8_lt _))
    as (F0 & F1 & F9 & F10 & F11 & F12).
  rewrite F0, F1, F9, F10, F11, F12. split; [|reflexivity].
  destruct st, en; reflexivity.
Qed.

(* ================================================================================================ *)
(* 2. one bit time (four cycles) of the locked clock recovery and of the rest                        *)
(* ================================================================================================ *)
Definition locked_cdr (sk sk1 : sym) : cdr :=
  {| k_p0 := sym_dp sk1; k_p1 := sym_dp sk1; k_n0 := sym_dn sk1; k_n1 := sym_dn sk1;
     k_fsm := cdr_of_sym sk; k_phase := 2; k_valid := true;
     k_se0 := cdrst_eqb (cdr_of_sym sk) Cd0; k_se1 := cdrst_eqb (cdr_of_sym sk) Cd1;
     k_dj := sym_dj sk; k_dk := sym_dk sk |}.

Lemma cdr_macro : forall sk sk1 sk2,
  let k1 := cdr_next (locked_cdr sk sk1) (sym_dp sk1) (sym_dn sk1) in
  let k2 := cdr_next k1 (sym_dp sk1) (sym_dn sk1) in
  let k3 := cdr_next k2 (sym_dp sk2) (sym_dn sk2) in
  let k4 := cdr_next k3 (sym_dp sk2) (sym_dn sk2) in
  k_valid k1 = false /\ k_valid k2 = false /\ k_valid k3 = false /\ k4 = locked_cdr sk1 sk2.
Proof. intros sk sk1 sk2. destruct sk, sk1, sk2; repeat split; reflexivity. Qed.

(* the rest at rest, in the condition described by the symbol-level state b (zd zs bd: stale register contents) *)
Definition mkQ (b : rxb) (zd zs bd : bool) : rxd :=
  {| d_nz := {| z_last := a_last b; z_data := zd; z_se0 := zs; z_valid := false |};
     d_det := a_det b;
     d_bs := {| b_cnt := a_cnt b; b_data := bd; b_stall := true; b_error := false |};
     d_sh := {| r_reg := a_reg b; r_put := false |};
     d_past := N.eqb (a_det b) 6;
     d_err := a_err b |}.

(* the four cycles one by one *)
Lemma det_idle : forall q d z,
  det_start q false d z = false /\ det_end q false z = false /\ det_active q false z = N.eqb q 6 /\ det_next q false d z = q.
Proof.
  intros. unfold det_start, det_end, det_active, det_next. cbn [andb negb].
  rewrite !andb_false_r. cbn [andb negb]. rewrite andb_true_r. auto.
Qed.

Definition mkD (z : rxnz) (q : N) (bs : rxbs) (sh : rxsh) (p e : bool) : rxd :=
  {| d_nz := z; d_det := q; d_bs := bs; d_sh := sh; d_past := p; d_err := e |}.

(* cycle 0: the strobe is visible; the NRZI decoder takes the symbol *)
Lemma rxd_step0 : forall b zd zs bd dj dk,
  rxd_next (mkQ b zd zs bd) true dj dk =
  mkD {| z_last := dk; z_data := negb (xorb dk (a_last b)); z_se0 := negb dj && negb dk; z_valid := true |}
      (a_det b) {| b_cnt := a_cnt b; b_data := zd; b_stall := true; b_error := false |}
      {| r_reg := a_reg b; r_put := false |} (N.eqb (a_det b) 6) (a_err b)
  /\ rxd_events (mkQ b zd zs bd) = [].
Proof.
  intros b zd zs bd dj dk. unfold rxd_next, rxd_events, mkQ, mkD.
  cbn [d_nz d_det d_bs d_sh d_past d_err z_last z_data z_se0 z_valid b_cnt b_data b_stall b_error r_reg r_put].
  destruct (det_idle (a_det b) zd zs) as (E1 & E2 & E3 & E4). rewrite E1, E2, E3, E4.
  unfold rxnz_next, rxbs_next, rxsh_next. cbn [z_last b_cnt b_data b_stall b_error r_reg r_put negb andb orb].
  rewrite !andb_false_r. cbn [orb app]. split; reflexivity.
Qed.

(* cycle 1: decoded bit visible; detector and remover move; start / end events *)
Lemma rxd_step1 : forall dk data se0 q c zd r e v j k, v = false ->
  let d1 := mkD {| z_last := dk; z_data := data; z_se0 := se0; z_valid := true |} q
                {| b_cnt := c; b_data := zd; b_stall := true; b_error := false |} {| r_reg := r; r_put := false |}
                (N.eqb q 6) e in
  let st := det_start q true data se0 in
  let en := det_end q true se0 in
  let drop := N.eqb c 6 in
  rxd_next d1 v j k =
  mkD {| z_last := dk; z_data := data; z_se0 := se0; z_valid := false |} (det_next q true data se0)
      {| b_cnt := if drop then 0 else if data then c + 1 else 0; b_data := data; b_stall := drop; b_error := drop && data |}
      {| r_reg := if en then 1 else r; r_put := false |} (det_active q true se0) (if st then false else e)
  /\ rxd_events d1 = (if st then [EvStart] else []) ++ (if en then [EvEnd] else []).
Proof.
  intros dk data se0 q c zd r e v j k ->. cbv zeta. unfold rxd_next, rxd_events, mkD.
  cbn [d_nz d_det d_bs d_sh d_past d_err z_last z_data z_se0 z_valid b_cnt b_data b_stall b_error r_reg r_put].
  unfold rxnz_next, rxbs_next, rxsh_next. cbn [z_last z_data z_se0 b_cnt b_data b_stall b_error r_reg r_put negb andb orb].
  rewrite !andb_true_r, !andb_false_r, !orb_false_r. cbn [app]. split; reflexivity.
Qed.

(* cycle 2: the remover's registers are visible; the shifter takes the bit *)
Lemma rxd_step2 : forall dk data se0 q' c' stall err r past e v j k, v = false ->
  let d2 := mkD {| z_last := dk; z_data := data; z_se0 := se0; z_valid := false |} q'
                {| b_cnt := c'; b_data := data; b_stall := stall; b_error := err |} {| r_reg := r; r_put := false |} past e in
  let shift := negb stall && past in
  rxd_next d2 v j k =
  mkD {| z_last := dk; z_data := data; z_se0 := se0; z_valid := false |} q'
      {| b_cnt := c'; b_data := data; b_stall := true; b_error := false |}
      {| r_reg := if shift then (if N.testbit r 8 then b2n data + 2 else b2n data + 2 * (r mod 2 ^ 8)) else r;
         r_put := N.testbit r (8 - 1) && negb (N.testbit r 8) && shift |}
      (N.eqb q' 6) (if err && past then true else e)
  /\ rxd_events d2 = [].
Proof.
  intros dk data se0 q' c' stall err r past e v j k ->. cbv zeta. unfold rxd_next, rxd_events, mkD.
  cbn [d_nz d_det d_bs d_sh d_past d_err z_last z_data z_se0 z_valid b_cnt b_data b_stall b_error r_reg r_put].
  destruct (det_idle q' data se0) as (E1 & E2 & E3 & E4). rewrite E1, E2, E3, E4.
  unfold rxnz_next, rxbs_next, rxsh_next. cbn [z_last z_data z_se0 b_cnt b_data b_stall b_error r_reg r_put negb andb orb].
  rewrite !andb_false_r. cbn [orb app]. split; reflexivity.
Qed.

(* cycle 3: a completed byte is written *)
Lemma rxd_step3 : forall dk data se0 q' c' r' put e v j k, v = false ->
  let d3 := mkD {| z_last := dk; z_data := data; z_se0 := se0; z_valid := false |} q'
                {| b_cnt := c'; b_data := data; b_stall := true; b_error := false |} {| r_reg := r'; r_put := put |}
                (N.eqb q' 6) e in
  rxd_next d3 v j k =
  mkD {| z_last := dk; z_data := data; z_se0 := se0; z_valid := false |} q'
      {| b_cnt := c'; b_data := data; b_stall := true; b_error := false |} {| r_reg := r'; r_put := false |} (N.eqb q' 6) e
  /\ rxd_events d3 = if put then [EvByte (rev8 (r' mod 256))] else [].
Proof.
  intros dk data se0 q' c' r' put e v j k ->. cbv zeta. unfold rxd_next, rxd_events, mkD.
  cbn [d_nz d_det d_bs d_sh d_past d_err z_last z_data z_se0 z_valid b_cnt b_data b_stall b_error r_reg r_put].
  destruct (det_idle q' data se0) as (E1 & E2 & E3 & E4). rewrite E1, E2, E3, E4.
  unfold rxnz_next, rxbs_next, rxsh_next. cbn [z_last z_data z_se0 b_cnt b_data b_stall b_error r_reg r_put negb andb orb].
  rewrite !andb_false_r. cbn [orb app]. split; [reflexivity|]. destruct put; reflexivity.
Qed.

Lemma rxd_macro : forall b zd zs bd y v1 j1 k1 v2 j2 k2 v3 j3 k3,
  v1 = false -> v2 = false -> v3 = false ->
  let d0 := mkQ b zd zs bd in
  let d1 := rxd_next d0 true (sym_dj y) (sym_dk y) in
  let d2 := rxd_next d1 v1 j1 k1 in
  let d3 := rxd_next d2 v2 j2 k2 in
  let d4 := rxd_next d3 v3 j3 k3 in
  (exists zd' zs' bd', d4 = mkQ (fst (rxb_step b y)) zd' zs' bd') /\
  rxd_events d0 ++ rxd_events d1 ++ rxd_events d2 ++ rxd_events d3 = snd (rxb_step b y) /\
  d_err d0 = a_err b /\ d_err d1 = a_err b /\
  (d_err d2 = a_err b \/ d_err d2 = a_err (fst (rxb_step b y))) /\
  (d_err d3 = a_err b \/ d_err d3 = a_err (fst (rxb_step b y))) /\
  rxd_events d0 = [] /\ rxd_events d2 = [] /\ (rxd_events d3 = [] \/ exists v, rxd_events d3 = [EvByte v]).
Proof.
  intros b zd zs bd y v1 j1 k1 v2 j2 k2 v3 j3 k3 H1 H2 H3. cbv zeta.
  destruct (rxd_step0 b zd zs bd (sym_dj y) (sym_dk y)) as [S0 V0]. rewrite S0, V0.
  set (dk := sym_dk y). set (data := negb (xorb dk (a_last b))). set (se0 := negb (sym_dj y) && negb dk).
  destruct (rxd_step1 dk data se0 (a_det b) (a_cnt b) zd (a_reg b) (a_err b) v1 j1 k1 H1) as [S1 V1]. cbv zeta in S1, V1.
  rewrite S1, V1.
  match goal with |- context [rxd_next (mkD ?z ?q {| b_cnt := ?c; b_data := ?d; b_stall := ?st; b_error := ?er |} {| r_reg := ?r; r_put := false |} ?p ?e) v2 j2 k2] =>
    destruct (rxd_step2 dk data se0 q c st er r p e v2 j2 k2 H2) as [S2 V2] end. cbv zeta in S2, V2.
  rewrite S2, V2.
  match goal with |- context [rxd_next (mkD ?z ?q {| b_cnt := ?c; b_data := ?d; b_stall := true; b_error := false |} {| r_reg := ?r; r_put := ?pt |} ?p ?e) v3 j3 k3] =>
    destruct (rxd_step3 dk data se0 q c r pt e v3 j3 k3 H3) as [S3 V3] end. cbv zeta in S3, V3.
  rewrite S3, V3. clear S0 V0 S1 V1 S2 V2 S3 V3.
  match goal with |- _ /\ _ /\ _ /\ _ /\ _ /\ _ /\ _ /\ _ /\ ?G =>
    assert (HG : G) by (match goal with |- context [if ?p then [EvByte ?v] else []] => destruct p; [right; exists v; reflexivity | left; reflexivity] end) end.
  cut (forall (P1 P2 P3 P4 P5 P6 : Prop), (P1 /\ P2 /\ P3 /\ P4 /\ P5 /\ P6) -> True); [intros _|auto].
  match goal with |- ?A /\ ?B /\ ?C /\ ?D /\ ?E /\ ?F /\ _ => cut (A /\ B /\ C /\ D /\ E /\ F);
    [intros (Q1 & Q2 & Q3 & Q4 & Q5 & Q6); repeat split; auto|] end.
  clear HG.
  destruct b as [l q c r e]. unfold rxb_step, mkQ, mkD. cbn [a_last a_det a_cnt a_reg a_err fst snd d_err].
  fold dk. cbn [a_last] in data. fold data. fold se0.
  unfold det_start, det_end, det_active, det_next.
  change (2 ^ 8) with 256. change (8 - 1) with 7.
  destruct (N.eqb q 6) eqn:E6; destruct (N.eqb q 5) eqn:E5;
    try (apply N.eqb_eq in E6; apply N.eqb_eq in E5; subst; discriminate).
  - (* packet active *)
    cbn [andb negb orb]. destruct se0; cbn [andb negb orb app];
      destruct (N.eqb c 6); cbn [andb negb orb app]; rewrite ?andb_false_r, ?andb_true_r; cbn [app];
      (split; [do 3 eexists; reflexivity|]); repeat split; auto;
      try (destruct data; cbn [andb]; auto; fail);
      try (destruct (N.testbit r 7 && negb (N.testbit r 8)); reflexivity).
  - (* last SYNC bit expected *)
    cbn [andb negb orb]. destruct se0, data; cbn [andb negb orb app];
      destruct (N.eqb c 6); cbn [andb negb orb app]; rewrite ?andb_false_r, ?andb_true_r; cbn [app];
      (split; [do 3 eexists; reflexivity|]); repeat split; auto.
  - cbn [andb negb orb]. destruct (N.eqb c 6); cbn [andb negb orb app]; rewrite ?andb_false_r, ?andb_true_r; cbn [app];
      (split; [do 3 eexists; reflexivity|]); repeat split; auto.
Qed.

(* ================================================================================================ *)
(* 3. one bit time of the complete front end                                                        *)
(* ================================================================================================ *)
Lemma line_word_bits : forall s, nb (bits (line_word s) 0 1) = sym_dp s /\ nb (bits (line_word s) 1 1) = sym_dn s.
Proof. destruct s; split; reflexivity. Qed.

Lemma rxf_step_split : forall k d y,
  rxf_step (mkF k d) (line_word y) =
  (mkF (cdr_next k (sym_dp y) (sym_dn y)) (rxd_next d (k_valid k) (k_dj k) (k_dk k)), rxf_out (mkF k d)).
Proof.
  intros k d y. unfold rxf_step. destruct (line_word_bits y) as [-> ->]. rewrite rxf_next_split. reflexivity.
Qed.

Definition locked (sk sk1 : sym) (b : rxb) (zd zs bd : bool) : rxf := mkF (locked_cdr sk sk1) (mkQ b zd zs bd).

Lemma rxf_macro : forall sk sk1 sk2 b zd zs bd,
  let inp := map line_word [sk1; sk1; sk2; sk2] in
  let s := locked sk sk1 b zd zs bd in
  (exists zd' zs' bd', run_state rxf_step s inp = locked sk1 sk2 (fst (rxb_step b sk)) zd' zs' bd') /\
  flat_map rxf_events (run rxf_step s inp) = snd (rxb_step b sk) /\
  Forall (fun o => rxf_err_of o = a_err b \/ rxf_err_of o = a_err (fst (rxb_step b sk))) (run rxf_step s inp) /\
  Forall (fun o => In EvEnd (rxf_events o) \/ In EvStart (rxf_events o) -> rxf_err_of o = a_err b) (run rxf_step s inp).
Proof.
  intros sk sk1 sk2 b zd zs bd. cbv zeta. unfold locked.
  destruct (cdr_macro sk sk1 sk2) as (V1 & V2 & V3 & K4). cbv zeta in V1, V2, V3, K4.
  set (k0 := locked_cdr sk sk1) in *.
  set (k1 := cdr_next k0 (sym_dp sk1) (sym_dn sk1)) in *.
  set (k2 := cdr_next k1 (sym_dp sk1) (sym_dn sk1)) in *.
  set (k3 := cdr_next k2 (sym_dp sk2) (sym_dn sk2)) in *.
  pose proof (rxd_macro b zd zs bd sk (k_valid k1) (k_dj k1) (k_dk k1) (k_valid k2) (k_dj k2) (k_dk k2)
                (k_valid k3) (k_dj k3) (k_dk k3) V1 V2 V3) as M. cbv zeta in M.
  set (d0 := mkQ b zd zs bd) in *.
  set (d1 := rxd_next d0 true (sym_dj sk) (sym_dk sk)) in *.
  set (d2 := rxd_next d1 (k_valid k1) (k_dj k1) (k_dk k1)) in *.
  set (d3 := rxd_next d2 (k_valid k2) (k_dj k2) (k_dk k2)) in *.
  destruct M as ((zd' & zs' & bd' & M4) & ME & E0 & E1 & E2 & E3 & N0 & N2 & N3).
  cbn [map run run_state].
  rewrite (rxf_step_split k0 d0 sk1). cbn [fst snd].
  change (k_valid k0) with true. change (k_dj k0) with (sym_dj sk). change (k_dk k0) with (sym_dk sk). fold k1 d1.
  rewrite (rxf_step_split k1 d1 sk1). cbn [fst snd]. fold k2 d2.
  rewrite (rxf_step_split k2 d2 sk2). cbn [fst snd]. fold k3 d3.
  rewrite (rxf_step_split k3 d3 sk2). cbn [fst snd].
  split; [|split; [|split]].
  - exists zd', zs', bd'. rewrite M4, K4. reflexivity.
  - cbn [flat_map]. rewrite !(proj1 (rxf_out_obs _ _)), app_nil_r, <- ME. reflexivity.
  - constructor; [rewrite (proj2 (rxf_out_obs _ _)); left; exact E0|].
    constructor; [rewrite (proj2 (rxf_out_obs _ _)); left; exact E1|].
    constructor; [rewrite (proj2 (rxf_out_obs _ _)); exact E2|].
    constructor; [rewrite (proj2 (rxf_out_obs _ _)); exact E3|]. constructor.
  - constructor; [rewrite (proj1 (rxf_out_obs _ _)), N0; intros [[]|[]]|].
    constructor; [rewrite (proj2 (rxf_out_obs _ _)); intros _; exact E1|].
    constructor; [rewrite (proj1 (rxf_out_obs _ _)), N2; intros [[]|[]]|].
    constructor; [|constructor]. rewrite (proj1 (rxf_out_obs _ _)).
    destruct N3 as [-> | [v ->]]; intros [H|H]; cbn in H; try contradiction; destruct H as [H|[]]; discriminate H.
Qed.

(* ================================================================================================ *)
(* 4. any ideally sampled symbol sequence                                                           *)
(* ================================================================================================ *)
(* samples consumed between the strobe of sk and the strobe of the last-but-one symbol: two more samples of the next
   symbol, then two of the one after, ...; and the symbols whose strobes are processed meanwhile *)
Fixpoint blocks (sk1 : sym) (rest : list sym) : list sym :=
  match rest with [] => [] | s2 :: rest' => [sk1; sk1; s2; s2] ++ blocks s2 rest' end.
Fixpoint toks (sk sk1 : sym) (rest : list sym) : list sym :=
  match rest with [] => [] | s2 :: rest' => sk :: toks sk1 s2 rest' end.
Fixpoint last2 (sk sk1 : sym) (rest : list sym) : sym * sym :=
  match rest with [] => (sk, sk1) | s2 :: rest' => last2 sk1 s2 rest' end.

Lemma run_app' : forall a b (s : rxf), run rxf_step s (a ++ b) = run rxf_step s a ++ run rxf_step (run_state rxf_step s a) b.
Proof. intros. apply run_app. Qed.

Lemma rxf_sim : forall rest sk sk1 b zd zs bd,
  let inp := map line_word (blocks sk1 rest) in
  let s := locked sk sk1 b zd zs bd in
  let b' := fst (rxb_run b (toks sk sk1 rest)) in
  (exists zd' zs' bd', run_state rxf_step s inp = locked (fst (last2 sk sk1 rest)) (snd (last2 sk sk1 rest)) b' zd' zs' bd') /\
  flat_map rxf_events (run rxf_step s inp) = snd (rxb_run b (toks sk sk1 rest)) /\
  (a_err b = false -> Forall (fun e => e = false) (rxb_errs b (toks sk sk1 rest)) ->
   Forall (fun o => rxf_err_of o = false) (run rxf_step s inp)).
Proof.
  induction rest as [|s2 rest IH]; intros sk sk1 b zd zs bd; cbv zeta.
  - cbn [blocks toks last2 map run run_state rxb_run rxb_errs fst snd flat_map].
    split; [exists zd, zs, bd; reflexivity | split; [reflexivity | intros; constructor]].
  - cbn [blocks toks last2]. rewrite map_app, run_app', run_state_app.
    destruct (rxf_macro sk sk1 s2 b zd zs bd) as ((zd1 & zs1 & bd1 & M1) & M2 & M3 & _). cbv zeta in M1, M2, M3.
    change (map line_word [sk1; sk1; s2; s2]) with (map line_word [sk1; sk1; s2; s2]) in *.
    rewrite M1. cbn [rxb_run rxb_errs].
    destruct (rxb_step b sk) as [b1 e1] eqn:Eb. cbn [fst snd] in *.
    specialize (IH sk1 s2 b1 zd1 zs1 bd1). cbv zeta in IH. destruct IH as ((zd' & zs' & bd' & I1) & I2 & I3).
    destruct (rxb_run b1 (toks sk1 s2 rest)) as [b2 e2] eqn:Er. cbn [fst snd] in *.
    split; [|split].
    + exists zd', zs', bd'. exact I1.
    + rewrite flat_map_app, M2, I2. reflexivity.
    + intros He Hf. inversion Hf as [|? ? Hf1 Hf2]; subst. apply Forall_app. split.
      * eapply Forall_impl; [|exact M3]. cbv beta. intros o [H|H]; rewrite H; [exact He | exact Hf1].
      * apply I3; assumption.
Qed.

Lemma last_cons' : forall A (l : list A) x d, last (x :: l) d = last l x.
Proof. induction l as [|y l IH]; intros; [reflexivity|]. change (last (x :: y :: l) d) with (last (y :: l) d). rewrite (IH y d), (IH y x). reflexivity. Qed.

Lemma rep4_blocks : forall rest sk1,
  rep4 (sk1 :: rest) = [sk1; sk1] ++ blocks sk1 rest ++ [last rest sk1; last rest sk1].
Proof.
  induction rest as [|s2 rest IH]; intro sk1; [reflexivity|].
  change (rep4 (sk1 :: s2 :: rest)) with ([sk1; sk1; sk1; sk1] ++ rep4 (s2 :: rest)). rewrite IH, last_cons'.
  cbn [blocks app]. reflexivity.
Qed.

(* whenever a symbol produces the end-of-packet event, the error flag is already set *)
Fixpoint end_err (b : rxb) (tk : list sym) : Prop :=
  match tk with
  | [] => True
  | y :: t => (In EvEnd (snd (rxb_step b y)) -> a_err b = true) /\ end_err (fst (rxb_step b y)) t
  end.

Lemma rxf_sim_end : forall rest sk sk1 b zd zs bd, end_err b (toks sk sk1 rest) ->
  Forall (fun o => In EvEnd (rxf_events o) -> rxf_err_of o = true)
         (run rxf_step (locked sk sk1 b zd zs bd) (map line_word (blocks sk1 rest))).
Proof.
  induction rest as [|s2 rest IH]; intros sk sk1 b zd zs bd HE; [constructor|].
  cbn [blocks toks end_err] in *. destruct HE as [HE1 HE2]. rewrite map_app, run_app'.
  destruct (rxf_macro sk sk1 s2 b zd zs bd) as ((zd1 & zs1 & bd1 & M1) & M2 & _ & M4). cbv zeta in M1, M2, M4.
  apply Forall_app. split.
  - rewrite Forall_forall in M4 |- *. intros o Ho Hend. rewrite (M4 o Ho (or_introl Hend)). apply HE1.
    rewrite <- M2. apply in_flat_map. exists o. split; assumption.
  - rewrite M1. apply IH. exact HE2.
Qed.

(* ================================================================================================ *)
(* 5. locking onto the first symbol of a packet after any amount of idle                            *)
(* ================================================================================================ *)
Definition idle_state (pre : nat) : rxf := run_state rxf_step rxf_init (repeat (line_word SJ) pre).
Definition acq_inp : list N := map line_word [SK; SK; SK; SK; SJ; SJ].

Definition cdr_eqb (a b : cdr) : bool :=
  Bool.eqb (k_p0 a) (k_p0 b) && Bool.eqb (k_p1 a) (k_p1 b) && Bool.eqb (k_n0 a) (k_n0 b) && Bool.eqb (k_n1 a) (k_n1 b) &&
  cdrst_eqb (k_fsm a) (k_fsm b) && N.eqb (k_phase a) (k_phase b) && Bool.eqb (k_valid a) (k_valid b) &&
  Bool.eqb (k_se0 a) (k_se0 b) && Bool.eqb (k_se1 a) (k_se1 b) && Bool.eqb (k_dj a) (k_dj b) && Bool.eqb (k_dk a) (k_dk b).

(* acquisition from one idle state: no events, no error, and the locked condition with an idle symbol-level state *)
Definition acq_ok (s : rxf) : bool :=
  let outs := run rxf_step s acq_inp in
  let s' := run_state rxf_step s acq_inp in
  forallb (fun o => match rxf_events o with [] => true | _ => false end && negb (rxf_err_of o)) outs &&
  existsb (fun c => rxf_simb s' SK SJ (rxb_idle_c c)) [0; 1; 2; 3; 4; 5; 6].
Definition idle_quiet (s : rxf) (n : nat) : bool :=
  forallb (fun o => match rxf_events o with [] => true | _ => false end && negb (rxf_err_of o))
          (run rxf_step s (repeat (line_word SJ) n)).

Lemma idle_period : idle_state 40 = idle_state 12.
Proof. vm_compute. reflexivity. Qed.
Lemma idle_quiet_40 : idle_quiet rxf_init 40 = true.
Proof. vm_compute. reflexivity. Qed.
Lemma acq_all : forallb (fun pre => acq_ok (idle_state pre)) (seq 7 33) = true.
Proof. vm_compute. reflexivity. Qed.

Definition quiet_o (o : N) : Prop := rxf_events o = [] /\ rxf_err_of o = false.

Lemma quiet_forallb : forall l,
  forallb (fun o => match rxf_events o with [] => true | _ => false end && negb (rxf_err_of o)) l = true -> Forall quiet_o l.
Proof.
  intros l H. rewrite forallb_forall in H. apply Forall_forall. intros o Ho. specialize (H o Ho).
  apply andb_true_iff in H as [H1 H2]. split.
  - destruct (rxf_events o); [reflexivity | discriminate].
  - destruct (rxf_err_of o); [discriminate | reflexivity].
Qed.

Lemma idle_state_add : forall a b, idle_state (a + b) = run_state rxf_step (idle_state a) (repeat (line_word SJ) b).
Proof. intros. unfold idle_state. rewrite repeat_app, run_state_app. reflexivity. Qed.

Lemma idle_run_add : forall a b,
  run rxf_step rxf_init (repeat (line_word SJ) (a + b)) =
  run rxf_step rxf_init (repeat (line_word SJ) a) ++ run rxf_step (idle_state a) (repeat (line_word SJ) b).
Proof. intros. rewrite repeat_app, run_app'. reflexivity. Qed.

Lemma idle_reduce : forall pre, (40 <= pre)%nat -> idle_state pre = idle_state (pre - 28).
Proof.
  intros pre H. replace pre with (40 + (pre - 40))%nat at 1 by lia. replace (pre - 28)%nat with (12 + (pre - 40))%nat by lia.
  rewrite !idle_state_add, idle_period. reflexivity.
Qed.

Lemma idle_always_quiet : forall pre, Forall quiet_o (run rxf_step rxf_init (repeat (line_word SJ) pre)).
Proof.
  intro pre. induction pre as [pre IH] using lt_wf_ind.
  destruct (Nat.lt_ge_cases pre 40) as [Hlt | Hge].
  - pose proof (quiet_forallb _ idle_quiet_40) as H40. unfold idle_quiet in H40.
    replace 40%nat with (pre + (40 - pre))%nat in H40 by lia. rewrite idle_run_add in H40.
    apply Forall_app in H40. tauto.
  - replace pre with (40 + (pre - 40))%nat by lia. rewrite idle_run_add. apply Forall_app. split.
    + apply (quiet_forallb _ idle_quiet_40).
    + rewrite idle_period. specialize (IH (12 + (pre - 40))%nat ltac:(lia)). rewrite idle_run_add in IH.
      apply Forall_app in IH. tauto.
Qed.

Lemma acq_always : forall pre, (7 <= pre)%nat -> acq_ok (idle_state pre) = true.
Proof.
  intro pre. induction pre as [pre IH] using lt_wf_ind. intro H7.
  destruct (Nat.lt_ge_cases pre 40) as [Hlt | Hge].
  - pose proof acq_all as HA. rewrite forallb_forall in HA. apply HA. apply in_seq. lia.
  - rewrite (idle_reduce pre Hge). apply IH; lia.
Qed.

Lemma cdrst_eqb_eq : forall a b, cdrst_eqb a b = true -> a = b.
Proof. intros [] []; cbn; congruence. Qed.

Lemma simb_locked : forall s sk sk1 b, rxf_simb s sk sk1 b = true -> exists zd zs bd, s = locked sk sk1 b zd zs bd.
Proof.
  intros [[p0 p1 n0 n1 fsm ph v s0 s1 dj dk] [zl zdta zse zv] det [cnt bdta bst berr] [reg put] past err] sk sk1 b H.
  unfold rxf_simb in H.
  cbn [f_cdr f_nz f_det f_bs f_sh f_past f_err k_p0 k_p1 k_n0 k_n1 k_fsm k_phase k_valid k_se0 k_se1 k_dj k_dk
       z_last z_data z_se0 z_valid b_cnt b_data b_stall b_error r_reg r_put] in H.
  repeat match type of H with (_ && _ = true) => apply andb_true_iff in H; let H' := fresh "C" in destruct H as [H H'] end.
  repeat match goal with
         | X : Bool.eqb _ _ = true |- _ => apply eqb_prop in X
         | X : cdrst_eqb _ _ = true |- _ => apply cdrst_eqb_eq in X
         | X : N.eqb _ _ = true |- _ => apply N.eqb_eq in X
         | X : negb _ = true |- _ => apply negb_true_iff in X
         end.
  subst. exists zdta, zse, bdta. reflexivity.
Qed.

(* after at least seven idle samples: everything was quiet, and six samples into a packet (K K K K J J) the front end is
   locked, its symbol-level state idle *)
Lemma rx_acquire : forall pre, (7 <= pre)%nat ->
  let inp := repeat (line_word SJ) pre ++ acq_inp in
  Forall quiet_o (run rxf_step rxf_init inp) /\
  exists c zd zs bd, c <= 6 /\ run_state rxf_step rxf_init inp = locked SK SJ (rxb_idle_c c) zd zs bd.
Proof.
  intros pre H7 inp. subst inp. rewrite run_app', run_state_app. fold (idle_state pre).
  pose proof (acq_always pre H7) as HA. unfold acq_ok in HA. apply andb_true_iff in HA as [HA1 HA2]. split.
  - apply Forall_app. split; [apply idle_always_quiet | apply quiet_forallb; exact HA1].
  - apply existsb_exists in HA2. destruct HA2 as (c & Hc & Hs).
    destruct (simb_locked _ _ _ _ Hs) as (zd & zs & bd & E). exists c, zd, zs, bd. split; [|exact E].
    cbn [In] in Hc. repeat (destruct Hc as [<- | Hc]; [lia|]). contradiction.
Qed.

(* ================================================================================================ *)
(* 6. the receive theorems at cycle level                                                           *)
(* ================================================================================================ *)
Lemma toks_app2 : forall A sk sk1 x y, toks sk sk1 (A ++ [x; y]) = sk :: sk1 :: A.
Proof.
  induction A as [|a A IH]; intros; [reflexivity|]. cbn [app toks]. rewrite IH. reflexivity.
Qed.

Lemma rep4_snoc : forall A (l : list A) x, rep4 (l ++ [x]) = rep4 l ++ [x; x; x; x].
Proof. intros. unfold rep4. rewrite flat_map_app. reflexivity. Qed.

Lemma last_snoc2 : forall A (l : list A) x y d, last (l ++ [x; y]) d = y.
Proof. induction l as [|a l IH]; intros; [reflexivity|]. cbn [app]. rewrite last_cons'. apply IH. Qed.

(* the line  sk sk1 A J  followed by two more idle samples = six samples, then the blocks of  A J J *)
Lemma line_blocks : forall A sk sk1,
  rep4 (sk :: sk1 :: A ++ [SJ]) ++ [SJ; SJ] = [sk; sk; sk; sk; sk1; sk1] ++ blocks sk1 (A ++ [SJ; SJ]).
Proof.
  intros A sk sk1.
  pose proof (rep4_blocks (A ++ [SJ; SJ]) sk1) as H. rewrite last_snoc2 in H.
  replace (sk1 :: A ++ [SJ; SJ]) with ((sk1 :: A ++ [SJ]) ++ [SJ]) in H by (cbn [app]; rewrite <- app_assoc; reflexivity).
  rewrite rep4_snoc in H.
  change (rep4 (sk :: sk1 :: A ++ [SJ])) with ([sk; sk; sk; sk] ++ rep4 (sk1 :: A ++ [SJ])).
  rewrite <- app_assoc.
  change ([sk; sk; sk; sk; sk1; sk1] ++ blocks sk1 (A ++ [SJ; SJ])) with ([sk; sk; sk; sk] ++ ([sk1; sk1] ++ blocks sk1 (A ++ [SJ; SJ]))).
  f_equal.
  apply (app_inv_tail [SJ; SJ]). rewrite <- !app_assoc. cbn [app] in H |- *. exact H.
Qed.

Lemma map_repeat_rx : forall A B (f : A -> B) x k, map f (repeat x k) = repeat (f x) k.
Proof. induction k as [|k IH]; [reflexivity|]. cbn [repeat map]. rewrite IH. reflexivity. Qed.

Lemma quiet_events : forall l, Forall quiet_o l -> flat_map rxf_events l = [] /\ Forall (fun o => rxf_err_of o = false) l.
Proof.
  induction 1 as [|o l [H1 H2] Hl [IH1 IH2]]; [split; [reflexivity | constructor]|].
  cbn [flat_map]. rewrite H1, IH1. split; [reflexivity | constructor; assumption].
Qed.

(* general form: after >= 7 idle samples, the symbols  K J A J  sampled four times each and two more idle samples:
   the FIFO writes are the events of the symbol-level machine over  K J A  from an idle state *)
Lemma rx_line_run : forall pre A, (7 <= pre)%nat ->
  let line := repeat SJ pre ++ rep4 (SK :: SJ :: A ++ [SJ]) ++ [SJ; SJ] in
  let outs := run rxf_step rxf_init (map line_word line) in
  exists c, c <= 6 /\
  flat_map rxf_events outs = snd (rxb_run (rxb_idle_c c) (SK :: SJ :: A)) /\
  (Forall (fun e => e = false) (rxb_errs (rxb_idle_c c) (SK :: SJ :: A)) -> Forall (fun o => rxf_err_of o = false) outs) /\
  (end_err (rxb_idle_c c) (SK :: SJ :: A) -> Forall (fun o => In EvEnd (rxf_events o) -> rxf_err_of o = true) outs).
Proof.
  intros pre A H7 line outs. subst outs line.
  rewrite line_blocks, map_app, map_repeat_rx, map_app.
  change (map line_word [SK; SK; SK; SK; SJ; SJ]) with acq_inp. rewrite app_assoc, run_app'.
  destruct (rx_acquire pre H7) as (Q & c & zd & zs & bd & Hc & E). cbv zeta in Q, E. rewrite E.
  destruct (quiet_events _ Q) as [Q1 Q2].
  destruct (rxf_sim (A ++ [SJ; SJ]) SK SJ (rxb_idle_c c) zd zs bd) as (_ & S2 & S3). cbv zeta in S2, S3.
  rewrite toks_app2 in S2, S3.
  exists c. split; [exact Hc|]. split; [|split].
  - rewrite flat_map_app, Q1, S2. reflexivity.
  - intro Hf. apply Forall_app. split; [exact Q2 | apply S3; [reflexivity | exact Hf]].
  - intro He. apply Forall_app. split.
    + eapply Forall_impl; [|exact Q]. intros o [Ho _] Hin. rewrite Ho in Hin. contradiction.
    + apply rxf_sim_end. rewrite toks_app2. exact He.
Qed.

Lemma frame_shape : forall bs, exists fr, frame bs = SK :: SJ :: fr.
Proof. intro bs. unfold frame, frame_bits, sync_bits. cbn [app nrzi flip]. eexists. reflexivity. Qed.

(* Receive theorem: a correctly encoded packet on an ideally (4x) sampled line, starting at ANY sampling phase after
   at least seven idle samples, with the line idle again afterwards, makes the front end write exactly
   start flag, the bytes in order, end flag into its FIFOs -- and the error flag is never raised. *)
Theorem rx_frame_cycles : forall pre bs m, (7 <= pre)%nat -> Forall (fun b => b < 256) bs ->
  let line := repeat SJ pre ++ rep4 (frame bs ++ repeat SJ (S m)) ++ [SJ; SJ] in
  let outs := run rxf_step rxf_init (map line_word line) in
  flat_map rxf_events outs = EvStart :: map EvByte bs ++ [EvEnd] /\
  Forall (fun o => rxf_err_of o = false) outs.
Proof.
  intros pre bs m H7 Hbs line outs. subst outs line.
  destruct (frame_shape bs) as [fr Efr].
  assert (EL : frame bs ++ repeat SJ (S m) = SK :: SJ :: (fr ++ repeat SJ m) ++ [SJ]).
  { rewrite Efr. cbn [app]. f_equal. f_equal. rewrite <- app_assoc. f_equal.
    clear. induction m as [|m IH]; [reflexivity|]. cbn [repeat app] in *. f_equal. exact IH. }
  rewrite EL.
  destruct (rx_line_run pre (fr ++ repeat SJ m) H7) as (c & Hc & R1 & R2 & _). cbv zeta in R1, R2.
  assert (ET : SK :: SJ :: fr ++ repeat SJ m = frame bs ++ repeat SJ m) by (rewrite Efr; reflexivity).
  rewrite ET in R1, R2.
  assert (Hidle : rxb_idle (rxb_idle_c c)) by (unfold rxb_idle, rxb_idle_c; cbn; auto).
  destruct (rxb_frame (rxb_idle_c c) bs m Hidle Hbs) as (F1 & F2 & _).
  split; [rewrite R1; exact F1 | apply R2; exact F2].
Qed.

(* ---- violations ---- *)
Lemma rxb_run_cons_snd : forall b y t, snd (rxb_run b (y :: t)) = snd (rxb_step b y) ++ snd (rxb_run (fst (rxb_step b y)) t).
Proof. intros. cbn [rxb_run]. destruct (rxb_step b y) as [b1 e1]. cbn [fst snd]. destruct (rxb_run b1 t). reflexivity. Qed.

Lemma end_err_app : forall l1 l2 b, end_err b l1 -> end_err (fst (rxb_run b l1)) l2 -> end_err b (l1 ++ l2).
Proof.
  induction l1 as [|y l1 IH]; intros l2 b H1 H2; [exact H2|].
  cbn [app end_err rxb_run] in *. destruct H1 as [H1 H1']. split; [exact H1|].
  destruct (rxb_step b y) as [b1 e1]. cbn [fst snd] in *. apply IH; [exact H1'|].
  destruct (rxb_run b1 l1) as [b2 e2]. exact H2.
Qed.

Lemma no_end_jk : forall l b, Forall (fun y => y = SJ \/ y = SK) l -> end_err b l.
Proof.
  induction l as [|y l IH]; intros b Hl; [exact I|]. inversion Hl as [|? ? Hy Hl']; subst. cbn [end_err]. split; [|apply IH; exact Hl'].
  intro Hin. exfalso. unfold rxb_step in Hin. cbn [snd] in Hin.
  assert (Hs : negb (sym_dj y) && negb (sym_dk y) = false) by (destruct Hy as [-> | ->]; reflexivity).
  rewrite Hs in Hin. unfold det_end in Hin. rewrite andb_false_r in Hin.
  apply in_app_or in Hin. destruct Hin as [Hin | Hin].
  - destruct (det_start _ _ _ _); cbn in Hin; [destruct Hin as [Hin|[]]; discriminate | contradiction].
  - apply in_app_or in Hin. destruct Hin as [Hin | Hin]; [|contradiction].
    match type of Hin with In _ (if ?c then _ else _) => destruct c end; cbn in Hin; [destruct Hin as [Hin|[]]; discriminate | contradiction].
Qed.

Definition det_low (b : rxb) : Prop := a_det b = 0 \/ (a_det b = 1 /\ a_last b = true).

Lemma no_end_low : forall l b, det_low b -> Forall (fun y => y = S0 \/ y = SJ) l -> end_err b l.
Proof.
  induction l as [|y l IH]; intros b Hb Hl; [exact I|]. inversion Hl as [|? ? Hy Hl']; subst. cbn [end_err]. split.
  - intro Hin. exfalso. unfold rxb_step in Hin. cbn [snd] in Hin. unfold det_end in Hin.
    assert (E6 : N.eqb (a_det b) 6 = false) by (destruct Hb as [-> | [-> _]]; reflexivity).
    rewrite E6 in Hin. cbn [andb] in Hin.
    apply in_app_or in Hin. destruct Hin as [Hin | Hin].
    + unfold det_start in Hin. assert (E5 : N.eqb (a_det b) 5 = false) by (destruct Hb as [-> | [-> _]]; reflexivity).
      rewrite E5 in Hin. cbn in Hin. contradiction.
    + apply in_app_or in Hin. destruct Hin as [Hin | Hin]; [|contradiction].
      unfold det_active in Hin. rewrite E6 in Hin. cbn [andb] in Hin. rewrite !andb_false_r in Hin. cbn in Hin. contradiction.
  - apply IH; [|exact Hl']. unfold rxb_step, det_low. cbn [fst a_det a_last]. unfold det_next.
    destruct Hb as [Hd | [Hd Hlast]]; rewrite Hd; cbn [N.eqb].
    + destruct Hy as [-> | ->]; cbn [sym_dj sym_dk negb andb orb xorb].
      * left. rewrite orb_true_r. reflexivity.
      * destruct (a_last b); cbn [negb xorb orb]; [left; reflexivity | right; split; reflexivity].
    + destruct Hy as [-> | ->]; cbn [sym_dj sym_dk negb andb orb xorb]; [left; rewrite orb_true_r; reflexivity|].
      rewrite Hlast. cbn [negb xorb orb]. left. reflexivity.
Qed.

(* Receive theorem for bit-stuffing violations: when a packet whose payload contains seven consecutive ones
   (SYNC's last one counted) arrives on an ideally sampled line, the front end does write an end flag, and in every
   cycle in which it writes an end flag the error flag is up. *)
Theorem rx_violation_cycles : forall pre l m, (7 <= pre)%nat -> (7 <= max_ones 1 l)%nat ->
  let line := repeat SJ pre ++ rep4 ((nrzi SJ (sync_bits ++ l) ++ eop) ++ repeat SJ (S m)) ++ [SJ; SJ] in
  let outs := run rxf_step rxf_init (map line_word line) in
  (exists o, In o outs /\ In EvEnd (rxf_events o)) /\
  Forall (fun o => In EvEnd (rxf_events o) -> rxf_err_of o = true) outs.
Proof.
  intros pre l m H7 Hm line outs. subst outs line.
  set (body := nrzi SJ (sync_bits ++ l)).
  assert (Hshape : exists fr, body = SK :: SJ :: fr) by (subst body; unfold sync_bits; cbn [app nrzi flip]; eexists; reflexivity).
  destruct Hshape as [fr Efr].
  assert (EL : (body ++ eop) ++ repeat SJ (S m) = SK :: SJ :: ((fr ++ eop) ++ repeat SJ m) ++ [SJ]).
  { rewrite Efr. cbn [app]. f_equal. f_equal. rewrite <- !app_assoc. f_equal. f_equal.
    clear. induction m as [|m IH]; [reflexivity|]. cbn [repeat app] in *. f_equal. exact IH. }
  rewrite EL.
  destruct (rx_line_run pre ((fr ++ eop) ++ repeat SJ m) H7) as (c & Hc & R1 & _ & R3). cbv zeta in R1, R3.
  assert (ET : SK :: SJ :: (fr ++ eop) ++ repeat SJ m = body ++ eop ++ repeat SJ m) by (rewrite Efr, <- app_assoc; reflexivity).
  rewrite ET in R1, R3.
  assert (Hidle : rxb_idle (rxb_idle_c c)) by (unfold rxb_idle, rxb_idle_c; cbn; auto).
  pose proof (rxb_violation (rxb_idle_c c) l Hidle Hm) as V. cbv zeta in V. destruct V as (V1 & V2 & _). fold body in V1, V2.
  set (b1 := fst (rxb_run (rxb_idle_c c) body)) in *.
  split.
  - (* the end event is among the writes *)
    assert (Hin : In EvEnd (snd (rxb_run (rxb_idle_c c) (body ++ eop ++ repeat SJ m)))).
    { rewrite rxb_run_app. cbn [snd]. apply in_or_app. right. fold b1. unfold eop. cbn [app].
      rewrite rxb_run_cons_snd, V2. left. reflexivity. }
    rewrite <- R1 in Hin. apply in_flat_map in Hin. exact Hin.
  - apply R3. apply end_err_app.
    + apply no_end_jk. subst body. apply nrzi_jk_rx. left. reflexivity.
    + fold b1. change (eop ++ repeat SJ m) with (S0 :: ([S0; SJ] ++ repeat SJ m)).
      change (end_err b1 (S0 :: [S0; SJ] ++ repeat SJ m)) with
        ((In EvEnd (snd (rxb_step b1 S0)) -> a_err b1 = true) /\ end_err (fst (rxb_step b1 S0)) ([S0; SJ] ++ repeat SJ m)).
      split; [intros _; exact V1|].
      apply no_end_low.
      * unfold rxb_step, det_low. cbn [fst a_det a_last sym_dj sym_dk]. unfold det_next. cbn [negb andb orb].
        left. destruct (N.eqb (a_det b1) 6); [reflexivity|]. destruct (N.eqb (a_det b1) 5); [reflexivity|].
        rewrite orb_true_r. reflexivity.
      * apply Forall_app. split.
        -- constructor; [left; reflexivity|]. constructor; [right; reflexivity | constructor].
        -- apply Forall_forall. intros y Hy. apply repeat_spec in Hy. right. exact Hy.
Qed.
