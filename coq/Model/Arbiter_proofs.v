(* C26 -- proofs about the stream arbiter model/specification of Model/Arbiter.v. *)
From Coq Require Import NArith Arith List Bool Lia.
Import ListNotations.
From LunaLib Require Import Netlist Bits Machine.
From LunaModel Require Import Arbiter.
Open Scope N_scope.

(* ---------------------------------------------------------------------------------------------- *)
(* list helpers *)
Lemma fold_rev_find : forall (A : Type) (p : nat -> bool) (f : nat -> A) l d,
  fold_left (fun acc k => if p k then f k else acc) (rev l) d =
  match find p l with Some k => f k | None => d end.
Proof.
  induction l as [|a l IH]; intros d; simpl; [reflexivity|].
  rewrite fold_left_app. simpl. rewrite IH. destruct (p a); reflexivity.
Qed.

Lemma existsb_find : forall (p : nat -> bool) l,
  existsb p l = match find p l with Some _ => true | None => false end.
Proof. induction l as [|a l IH]; simpl; [reflexivity|]. destruct (p a); simpl; auto. Qed.

Lemma find_seq_first : forall (p : nat -> bool) m a k,
  (a <= k < a + m)%nat -> p k = true -> (forall j, (a <= j < k)%nat -> p j = false) ->
  find p (seq a m) = Some k.
Proof.
  induction m as [|m IH]; intros a k Hk Hp Hlow; [lia|]. simpl.
  destruct (Nat.eq_dec a k) as [->|Hne].
  - rewrite Hp. reflexivity.
  - rewrite (Hlow a) by lia. apply IH; [lia | exact Hp | intros j Hj; apply Hlow; lia].
Qed.

Lemma find_seq_least : forall (p : nat -> bool) m a k,
  find p (seq a m) = Some k -> forall j, (a <= j < k)%nat -> p j = false.
Proof.
  induction m as [|m IH]; intros a k H j Hj; simpl in H; [discriminate|].
  destruct (p a) eqn:E.
  - inversion H; subst. lia.
  - destruct (Nat.eq_dec j a) as [->|Hne]; [exact E|]. apply (IH (S a) k H). lia.
Qed.

Lemma nth_map_seq : forall (f : nat -> bool) m k, (k < m)%nat -> nth k (map f (seq 0 m)) false = f k.
Proof.
  intros f m k Hk. rewrite (nth_indep _ false (f 0%nat)) by (rewrite map_length, seq_length; exact Hk).
  rewrite map_nth. rewrite seq_nth by exact Hk. reflexivity.
Qed.

Lemma flat_map_nil : forall (A B : Type) (f : A -> list B) l,
  (forall x, In x l -> f x = []) -> flat_map f l = [].
Proof. induction l as [|a l IH]; intros H; simpl; [reflexivity|].
  rewrite (H a) by (left; reflexivity). apply IH. intros x Hx. apply H. right. exact Hx. Qed.

Lemma flat_map_ext_in' : forall (A B : Type) (f g : A -> list B) l,
  (forall x, In x l -> f x = g x) -> flat_map f l = flat_map g l.
Proof. induction l as [|a l IH]; intros H; simpl; [reflexivity|].
  rewrite (H a) by (left; reflexivity). f_equal. apply IH. intros x Hx. apply H. right. exact Hx. Qed.

(* a flat_map over 0..m-1 whose body can fire only at index j *)
Lemma flat_map_single : forall (B : Type) (c : nat -> bool) (g : nat -> B) m j, (j < m)%nat ->
  flat_map (fun k => if Nat.eqb k j && c k then [g k] else []) (seq 0 m) = if c j then [g j] else [].
Proof.
  intros B c g m j Hj.
  replace m with (j + S (m - j - 1))%nat by lia.
  rewrite seq_app, flat_map_app. change (0 + j)%nat with j. cbn [seq flat_map]. rewrite Nat.eqb_refl. cbn [andb].
  rewrite flat_map_nil.
  2:{ intros x Hx. apply in_seq in Hx. assert (E : Nat.eqb x j = false) by (apply Nat.eqb_neq; lia).
      rewrite E. reflexivity. }
  rewrite flat_map_nil.
  2:{ intros x Hx. apply in_seq in Hx. assert (E : Nat.eqb x j = false) by (apply Nat.eqb_neq; lia).
      rewrite E. reflexivity. }
  cbn [app]. destruct (c j); reflexivity.
Qed.

(* ---------------------------------------------------------------------------------------------- *)
(* bit helpers for (un)packing *)
Lemma testbit_bits : forall x lo w j, N.testbit (bits x lo w) j = N.testbit x (j + lo) && (j <? w).
Proof.
  intros. unfold bits. rewrite N.land_spec, N.shiftr_spec'. f_equal.
  destruct (N.ltb_spec j w); [apply N.ones_spec_low | apply N.ones_spec_high]; assumption.
Qed.

Lemma testbit_bits2N : forall l k, N.testbit (bits2N l) (N.of_nat k) = nth k l false.
Proof.
  induction l as [|b t IH]; intros k.
  - destruct k; simpl; reflexivity.
  - cbn [bits2N]. destruct k as [|k].
    + cbn [nth N.of_nat]. destruct b.
      * replace (1 + 2 * bits2N t) with (2 * bits2N t + 1) by lia. apply N.testbit_odd_0.
      * rewrite N.add_0_l. apply N.testbit_even_0.
    + rewrite Nat2N.inj_succ. cbn [nth]. rewrite <- IH. destruct b.
      * replace (1 + 2 * bits2N t) with (2 * bits2N t + 1) by lia. apply N.testbit_odd_succ. lia.
      * rewrite N.add_0_l. apply N.testbit_even_succ. lia.
Qed.

Lemma testbit_b2n : forall b j, N.testbit (b2n b) j = b && (j =? 0).
Proof.
  intros [|] j; simpl.
  - destruct j; reflexivity.
  - destruct j; reflexivity.
Qed.

Section Proofs.
  Variable n : nat.
  Variable bw : N.

  (* ------------------------------------------------------------------------------------------ *)
  (* properties of the specification (the clauses of C26) *)

  Lemma first_valid_some : forall i k, first_valid n bw i = Some k -> (k < n)%nat /\ svalid bw i k = true.
  Proof.
    intros i k H. unfold first_valid in H. apply find_some in H. destruct H as [Hin Hv].
    apply in_seq in Hin. split; [lia | exact Hv].
  Qed.

  Lemma sp_next_lt : forall own i, (own < n)%nat -> (sp_next n bw own i < n)%nat.
  Proof.
    intros own i H. unfold sp_next. destruct (svalid bw i own); [exact H|].
    destruct (first_valid n bw i) as [k|] eqn:E; [|exact H].
    apply first_valid_some in E. tauto.
  Qed.

  (* never switches while the selected input holds valid *)
  Lemma sp_hold : forall own i, svalid bw i own = true -> sp_next n bw own i = own.
  Proof. intros own i H. unfold sp_next. rewrite H. reflexivity. Qed.

  (* when the selected input is not valid, the lowest-numbered valid input is selected next *)
  Lemma sp_priority : forall own i k, svalid bw i own = false ->
    (k < n)%nat -> svalid bw i k = true -> (forall j, (j < k)%nat -> svalid bw i j = false) ->
    sp_next n bw own i = k.
  Proof.
    intros own i k Hown Hk Hv Hlow. unfold sp_next. rewrite Hown. unfold first_valid.
    rewrite (find_seq_first (svalid bw i) n 0 k); [reflexivity | lia | exact Hv |].
    intros j Hj. apply Hlow. lia.
  Qed.

  (* ... and nothing changes when no input is valid *)
  Lemma sp_stay : forall own i, (forall k, (k < n)%nat -> svalid bw i k = false) -> sp_next n bw own i = own.
  Proof.
    intros own i H. unfold sp_next. destruct (svalid bw i own); [reflexivity|].
    destruct (first_valid n bw i) as [k|] eqn:E; [|reflexivity].
    apply first_valid_some in E. destruct E as [Hk Hv]. rewrite (H k Hk) in Hv. discriminate.
  Qed.

  (* idle exactly when no input offers data *)
  Lemma sp_idle_iff : forall own i,
    o_idle (sp_view n bw own i) = true <-> (forall k, (k < n)%nat -> svalid bw i k = false).
  Proof.
    intros own i. cbn [sp_view o_idle]. rewrite negb_true_iff. split.
    - intros H k Hk. destruct (svalid bw i k) eqn:E; [|reflexivity].
      assert (X : existsb (svalid bw i) (seq 0 n) = true).
      { apply existsb_exists. exists k. split; [apply in_seq; lia | exact E]. }
      rewrite X in H. discriminate.
    - intros H. destruct (existsb (svalid bw i) (seq 0 n)) eqn:E; [|reflexivity].
      apply existsb_exists in E. destruct E as [k [Hin Hv]]. apply in_seq in Hin.
      rewrite H in Hv by lia. discriminate.
  Qed.

  (* ready is passed back to the selected input only *)
  Lemma sp_ready : forall own i k, (k < n)%nat ->
    nth k (o_ready (sp_view n bw own i)) false = Nat.eqb k own && src_ready n bw i.
  Proof. intros own i k Hk. cbn [sp_view o_ready]. apply nth_map_seq. exact Hk. Qed.

  (* the output carries the selected input's block, unmodified *)
  Lemma sp_forward : forall own i, o_src (sp_view n bw own i) = sink bw i own.
  Proof. reflexivity. Qed.

  (* per cycle: the words accepted from the producers are exactly the words delivered to the consumer *)
  Lemma sp_cycle_exactly_once : forall own i, (own < n)%nat ->
    accepted n bw (own, i, sp_view n bw own i) = delivered n bw (own, i, sp_view n bw own i).
  Proof.
    intros own i Hown. unfold accepted, delivered. cbn [sp_view o_src].
    transitivity (flat_map (fun k => if Nat.eqb k own && (svalid bw i k && src_ready n bw i)
                                     then [(k, sink bw i k)] else []) (seq 0 n)).
    - apply flat_map_ext_in'. intros k Hk. apply in_seq in Hk.
      rewrite (sp_ready own i k) by lia.
      destruct (svalid bw i k), (Nat.eqb k own), (src_ready n bw i); reflexivity.
    - rewrite (flat_map_single _ (fun k => svalid bw i k && src_ready n bw i) (fun k => (k, sink bw i k)) n own Hown).
      reflexivity.
  Qed.

  Theorem sp_exactly_once : forall tr own, (own < n)%nat ->
    flat_map (accepted n bw) (sp_cycles n bw own tr) = flat_map (delivered n bw) (sp_cycles n bw own tr).
  Proof.
    induction tr as [|i t IH]; intros own H; [reflexivity|].
    cbn [sp_cycles flat_map]. rewrite sp_cycle_exactly_once by exact H.
    rewrite IH by (apply sp_next_lt; exact H). reflexivity.
  Qed.

  (* bursts are never interleaved: while the owner holds valid, it stays the owner, and every word
     delivered (= accepted) during that time is its own *)
  Theorem sp_burst_owner : forall burst own,
    Forall (fun i => svalid bw i own = true) burst ->
    Forall (fun c => fst (fst c) = own) (sp_cycles n bw own burst) /\
    run_state (sp_step n bw) own burst = own.
  Proof.
    induction burst as [|i t IH]; intros own H; [split; [constructor | reflexivity]|].
    inversion H as [|? ? Hi Ht]; subst. cbn [sp_cycles run_state sp_step fst].
    rewrite (sp_hold own i Hi). destruct (IH own Ht) as [IH1 IH2].
    split; [constructor; [reflexivity | exact IH1] | exact IH2].
  Qed.

  Lemma delivered_tag : forall cs own, Forall (fun c : nat * N * arb_out => fst (fst c) = own) cs ->
    Forall (fun w => fst w = own) (flat_map (delivered n bw) cs).
  Proof.
    induction cs as [|[[o i] v] cs IH]; intros own H; [constructor|].
    apply Forall_cons_iff in H. destruct H as [Hc Hcs].
    cbn [flat_map]. apply Forall_app. split; [|apply IH; exact Hcs].
    unfold delivered. cbn [fst] in Hc. subst o.
    destruct (N.odd (o_src v) && src_ready n bw i); constructor; [reflexivity | constructor].
  Qed.

  Lemma sp_cycles_app : forall a b own,
    sp_cycles n bw own (a ++ b) = sp_cycles n bw own a ++ sp_cycles n bw (run_state (sp_step n bw) own a) b.
  Proof. induction a as [|i t IH]; intros b own; [reflexivity|].
    cbn [app sp_cycles run_state sp_step fst]. rewrite IH. reflexivity. Qed.

  Theorem sp_no_interleave : forall pre burst post own0 k,
    (own0 < n)%nat -> run_state (sp_step n bw) own0 pre = k ->
    Forall (fun i => svalid bw i k = true) burst ->
    sp_cycles n bw own0 (pre ++ burst ++ post) =
      sp_cycles n bw own0 pre ++ sp_cycles n bw k burst ++ sp_cycles n bw k post /\
    Forall (fun w => fst w = k) (flat_map (accepted n bw) (sp_cycles n bw k burst)) /\
    Forall (fun w => fst w = k) (flat_map (delivered n bw) (sp_cycles n bw k burst)).
  Proof.
    intros pre burst post own0 k H0 Hk Hb.
    assert (Hkn : (k < n)%nat).
    { subst k. clear Hb. revert own0 H0. induction pre as [|i t IH]; intros own0 H0; [exact H0|].
      cbn [run_state sp_step fst]. apply IH. apply sp_next_lt. exact H0. }
    destruct (sp_burst_owner burst k Hb) as [B1 B2].
    split; [|split].
    - rewrite sp_cycles_app, Hk, sp_cycles_app, B2. reflexivity.
    - rewrite sp_exactly_once by exact Hkn. apply delivered_tag. exact B1.
    - apply delivered_tag. exact B1.
  Qed.

  (* the output run of the specification is the packed view of its structured run *)
  Lemma sp_run_cycles : forall tr own,
    run (sp_step n bw) own tr = map (fun c => pack_out n bw (snd c)) (sp_cycles n bw own tr).
  Proof. induction tr as [|i t IH]; intros own; [reflexivity|].
    cbn [run sp_step sp_cycles map snd]. rewrite IH. reflexivity. Qed.

  (* ------------------------------------------------------------------------------------------ *)
  (* the code-shaped model refines the specification *)

  Lemma arb_src_rel : forall own i, (own < n)%nat -> arb_src n bw (N.of_nat own) i = sink bw i own.
  Proof.
    intros own i H. unfold arb_src. rewrite Nat2N.id.
    destruct (N.ltb_spec (N.of_nat own) (N.of_nat n)); [reflexivity | lia].
  Qed.

  Lemma arb_next_rel : forall own i, (own < n)%nat ->
    arb_next n bw (N.of_nat own) i = N.of_nat (sp_next n bw own i).
  Proof.
    intros own i H. unfold arb_next, sp_next. rewrite arb_src_rel by exact H.
    fold (svalid bw i own). destruct (svalid bw i own); [reflexivity|].
    rewrite (fold_rev_find N (svalid bw i) N.of_nat). unfold first_valid.
    destruct (find (svalid bw i) (seq 0 n)); reflexivity.
  Qed.

  Lemma arb_idle_rel : forall own i, (own < n)%nat ->
    arb_idle n bw (N.of_nat own) i = negb (existsb (svalid bw i) (seq 0 n)).
  Proof.
    intros own i H. unfold arb_idle. rewrite arb_src_rel by exact H. fold (svalid bw i own).
    destruct (svalid bw i own) eqn:E.
    - assert (X : existsb (svalid bw i) (seq 0 n) = true).
      { apply existsb_exists. exists own. split; [apply in_seq; lia | exact E]. }
      rewrite X. reflexivity.
    - rewrite (fold_rev_find bool (svalid bw i) (fun _ => false)). rewrite existsb_find.
      destruct (find (svalid bw i) (seq 0 n)); reflexivity.
  Qed.

  Lemma arb_view_rel : forall own i, (own < n)%nat ->
    arb_view n bw (N.of_nat own) i = sp_view n bw own i.
  Proof.
    intros own i H. unfold arb_view, sp_view. rewrite arb_src_rel, arb_idle_rel by exact H. f_equal.
    apply map_ext. intros k. f_equal.
    destruct (Nat.eqb_spec k own) as [->|Hne]; [apply N.eqb_refl | apply N.eqb_neq; lia].
  Qed.

  Theorem arb_refines : forall tr own, (own < n)%nat ->
    run (arb_step n bw) (N.of_nat own) tr = run (sp_step n bw) own tr.
  Proof.
    induction tr as [|i t IH]; intros own H; [reflexivity|].
    cbn [run arb_step sp_step]. rewrite arb_view_rel, arb_next_rel by exact H.
    f_equal. apply IH. apply sp_next_lt. exact H.
  Qed.

  Corollary arb_from_reset : (1 <= n)%nat -> forall tr,
    run (arb_step n bw) 0 tr = run (sp_step n bw) 0%nat tr.
  Proof. intros Hn tr. apply (arb_refines tr 0%nat). lia. Qed.

  (* ------------------------------------------------------------------------------------------ *)
  (* the packed output word determines the structured view (so nothing is hidden by packing) *)
  Theorem unpack_view : forall own i, let o := pack_out n bw (sp_view n bw own i) in
    out_src bw o = sink bw i own /\
    (forall k, (k < n)%nat -> out_ready bw o k = Nat.eqb k own && src_ready n bw i) /\
    out_idle n bw o = o_idle (sp_view n bw own i).
  Proof.
    intros own i o. subst o. unfold pack_out.
    set (v := sp_view n bw own i).
    assert (Hlen : length (o_ready v) = n) by (cbn; rewrite map_length, seq_length; reflexivity).
    assert (Hsrc : forall j, N.testbit (o_src v) j = N.testbit (sink bw i own) j) by reflexivity.
    assert (Hhi : forall j, bw <= j -> N.testbit (o_src v) j = false).
    { intros j Hj. rewrite Hsrc. unfold sink. rewrite testbit_bits.
      destruct (N.ltb_spec j bw); [lia | apply andb_false_r]. }
    split; [|split].
    - apply N.bits_inj. intros j. unfold out_src. rewrite testbit_bits, N.add_0_r.
      rewrite !N.lor_spec. destruct (N.ltb_spec j bw) as [Hj|Hj].
      + rewrite !N.shiftl_spec_low by lia. rewrite !orb_false_r, andb_true_r. apply Hsrc.
      + rewrite andb_false_r. unfold sink. rewrite testbit_bits.
        destruct (N.ltb_spec j bw); [lia | symmetry; apply andb_false_r].
    - intros k Hk. unfold out_ready. rewrite !N.lor_spec. rewrite Hhi by lia.
      rewrite N.shiftl_spec_high' by lia. rewrite (N.shiftl_spec_low _ (bw + N.of_nat n)) by lia.
      replace (bw + N.of_nat k - bw) with (N.of_nat k) by lia.
      rewrite testbit_bits2N, orb_false_r. cbn [orb]. apply sp_ready. exact Hk.
    - unfold out_idle. rewrite !N.lor_spec. rewrite Hhi by lia.
      rewrite !N.shiftl_spec_high' by lia.
      replace (bw + N.of_nat n - bw) with (N.of_nat n) by lia.
      rewrite testbit_bits2N. rewrite nth_overflow by lia.
      replace (bw + N.of_nat n - (bw + N.of_nat n)) with 0 by lia.
      rewrite testbit_b2n. cbn [orb]. rewrite N.eqb_refl, andb_true_r. reflexivity.
  Qed.

  Lemma unpack_valid : forall own i, 0 < bw ->
    out_valid (pack_out n bw (sp_view n bw own i)) = svalid bw i own.
  Proof.
    intros own i Hb. unfold out_valid, pack_out. rewrite !N.lor_spec.
    rewrite !N.shiftl_spec_low by lia. rewrite !orb_false_r. cbn [sp_view o_src].
    unfold svalid. apply N.bit0_odd.
  Qed.
End Proofs.
