(* C27 -- proofs about the constant stream generator model/specification of Model/ConstGen.v. *)
From Coq Require Import NArith ZArith Arith List Bool Lia ZifyBool ZifyN.
Import ListNotations.
From LunaLib Require Import Netlist Bits Machine.
From LunaModel Require Import ConstGen.
Open Scope N_scope.

(* ---------------------------------------------------------------------------------------------- *)
(* bit-vector helpers *)
Lemma trunc_mod : forall w x, trunc w x = x mod 2 ^ w.
Proof. intros. unfold trunc. apply N.land_ones. Qed.

Lemma pow2_pos : forall w, 0 < 2 ^ w.
Proof. intros. apply N.neq_0_lt_0, N.pow_nonzero. discriminate. Qed.

Lemma trunc_lt : forall w x, trunc w x < 2 ^ w.
Proof. intros. rewrite trunc_mod. apply N.mod_lt. pose proof (pow2_pos w). lia. Qed.

Lemma trunc_small : forall w x, x < 2 ^ w -> trunc w x = x.
Proof. intros. rewrite trunc_mod. apply N.mod_small. assumption. Qed.

Lemma bits_lt : forall x lo w, bits x lo w < 2 ^ w.
Proof. intros. unfold bits. apply (trunc_lt w (N.shiftr x lo)). Qed.

Lemma unpair_lo : forall w a b, a < 2 ^ w -> trunc w (pair w a b) = a.
Proof.
  intros w a b H. unfold pair. rewrite trunc_mod, N.shiftl_mul_pow2.
  rewrite N.mod_add by (pose proof (pow2_pos w); lia). apply N.mod_small. exact H.
Qed.

Lemma unpair_hi : forall w a b, a < 2 ^ w -> N.shiftr (pair w a b) w = b.
Proof.
  intros w a b H. unfold pair. rewrite N.shiftr_div_pow2, N.shiftl_mul_pow2.
  rewrite N.div_add by (pose proof (pow2_pos w); lia). rewrite N.div_small by exact H. reflexivity.
Qed.

(* ---------------------------------------------------------------------------------------------- *)
(* packing of the model state *)
Lemma cg_dec_enc : forall c st, cg_wf c st -> cg_dec c (cg_enc c st) = st.
Proof.
  intros c [f p s m r] (Hp & Hs & Hm). unfold cg_dec, cg_enc. cbn [g_fsm g_pos g_sent g_ml g_rd] in *.
  set (fn := match f with IDLE => 0 | STREAMING => 1 | DONE => 2 end).
  assert (Hf : fn < 2 ^ 2) by (subst fn; destruct f; vm_compute; reflexivity).
  rewrite (unpair_lo 2 fn _ Hf), (unpair_hi 2 fn _ Hf).
  rewrite (unpair_lo _ p _ Hp), (unpair_hi _ p _ Hp).
  rewrite (unpair_lo _ s _ Hs), (unpair_hi _ s _ Hs).
  rewrite (unpair_lo _ m _ Hm), (unpair_hi _ m _ Hm).
  subst fn. destruct f; reflexivity.
Qed.

Lemma cg_wf_step : forall c, cfg_okb c = true -> forall st i, cg_wf c st -> cg_wf c (fst (cg_step c st i)).
Proof.
  intros c Hc st i (Hp & Hs & Hm). unfold cg_step, cg_next, cg_wf. cbn [fst].
  unfold cfg_okb in Hc. 
  assert (HL : nwords c - 1 < 2 ^ c_posw c) by (unfold nwords; lia).
  assert (H0 : 0 < 2 ^ c_mlw c) by apply pow2_pos.
  destruct (g_fsm st); cbn [g_pos g_sent g_ml].
  - split; [|split].
    + unfold sp_eff. destruct (c_dlen c <=? i_sp c i); [exact HL | apply trunc_lt].
    + exact H0.
    + unfold i_ml. destruct (c_hasml c); [apply bits_lt | exact H0].
  - destruct (i_ready c i); [destruct (on_last c st)|]; cbn [g_pos g_sent g_ml]; try (split; [|split]; assumption).
    split; [apply trunc_lt | split; [|exact Hm]].
    destruct (c_hasml c); [apply trunc_lt | exact H0].
  - split; [|split]; assumption.
Qed.

Lemma cg_wf_init : forall c, cg_wf c (cg_init c).
Proof. intros c. unfold cg_wf, cg_init. cbn. repeat split; apply pow2_pos. Qed.

(* ---------------------------------------------------------------------------------------------- *)
(* list helpers *)
Lemma skipn_cons_nth : forall (l : list N) p, (p < length l)%nat -> skipn p l = nth p l 0 :: skipn (S p) l.
Proof.
  induction l as [|a l IH]; intros p H; simpl in H; [lia|].
  destruct p as [|p]; [reflexivity|]. simpl. apply IH. lia.
Qed.

Definition ends (l : list N) (p : nat) : bool := match skipn (S p) l with [] => true | _ :: _ => false end.

Lemma ends_spec : forall l p, (p < length l)%nat -> ends l p = Nat.eqb (S p) (length l).
Proof.
  intros l p H. unfold ends. pose proof (skipn_length (S p) l) as HL.
  destruct (skipn (S p) l); simpl in HL; destruct (Nat.eqb_spec (S p) (length l)); try reflexivity; lia.
Qed.

Lemma beats_cons : forall bpw lwb ml w rest sent first,
  beats bpw lwb ml (w :: rest) sent first =
  let data_ends := match rest with [] => true | _ => false end in
  let final := data_ends || (ml <=? sent + bpw) in
  {| b_payload := w; b_first := first; b_last := final;
     b_bytes := if final then N.min (if data_ends then lwb else bpw) (ml - sent) else bpw |}
  :: (if final then [] else beats bpw lwb ml rest (sent + bpw) false).
Proof. reflexivity. Qed.

Lemma beats_nonempty : forall bpw lwb ml ws sent first, ws <> [] -> beats bpw lwb ml ws sent first <> [].
Proof. intros bpw lwb ml [|w rest] sent first H; [congruence|]. rewrite beats_cons. cbv zeta. discriminate. Qed.

Lemma testbit_ones : forall n j, N.testbit (N.ones n) j = (j <? n).
Proof. intros. destruct (N.ltb_spec j n); [apply N.ones_spec_low | apply N.ones_spec_high]; assumption. Qed.

Lemma land_ones_ones : forall a b, N.land (N.ones a) (N.ones b) = N.ones (N.min a b).
Proof.
  intros. apply N.bits_inj. intros j. rewrite N.land_spec, !testbit_ones.
  destruct (N.ltb_spec j a), (N.ltb_spec j b), (N.ltb_spec j (N.min a b)); try reflexivity; lia.
Qed.

Lemma ones_lt : forall a b, a <= b -> N.ones a < 2 ^ b.
Proof.
  intros a b H. rewrite N.ones_equiv. pose proof (pow2_pos a).
  assert (2 ^ a <= 2 ^ b) by (apply N.pow_le_mono_r; lia). lia.
Qed.

Lemma cfg_facts : forall c, cfg_okb c = true ->
  1 <= nwords c /\ nwords c <= 2 ^ c_posw c /\ 1 <= c_bpw c /\ 1 <= c_lwb c /\ c_lwb c <= c_bpw c /\
  (c_vw c = 1 \/ c_vw c = c_bpw c) /\ c_dlen c = (nwords c - 1) * c_bpw c + c_lwb c /\
  c_dlen c <= 2 ^ c_spw c /\ (c_hasml c = true -> c_bpw c < 2 ^ c_mlw c).
Proof. intros c Hc. unfold cfg_okb in Hc. unfold nwords. destruct (c_hasml c); cbn [negb orb] in Hc; repeat split; try lia; discriminate. Qed.

(* ---------------------------------------------------------------------------------------------- *)
(* the model refines the specification machine (variant with max_length, as used throughout LUNA) *)
Section Refine.
  Variable c : cg_cfg.
  Hypothesis Hc : cfg_okb c = true.
  Hypothesis Hml : c_hasml c = true.

  Local Notation L := (nwords c).

  Definition rel (st : cg_state) (s : sp_state) : Prop :=
    match g_fsm st, s with
    | IDLE, SpIdle ml => g_ml st = ml
    | STREAMING, SpSend bs ml sp =>
        g_ml st = ml /\ g_pos st < L /\ sp <= g_pos st /\ g_sent st = (g_pos st - sp) * c_bpw c /\
        g_sent st < ml /\ ml < 2 ^ c_mlw c /\ g_rd st = rom c (g_pos st) /\
        bs = beats (c_bpw c) (c_lwb c) ml (skipn (N.to_nat (g_pos st)) (c_words c)) (g_sent st) (g_pos st =? sp)
    | DONE, SpDone ml => g_ml st = ml
    | _, _ => False
    end.

  Lemma rel_init : rel (cg_init c) (sp_init).
  Proof. reflexivity. Qed.

  Lemma rel_step : forall st s i, rel st s -> sp_env c s i = true ->
    cg_out c st i = sp_out c s /\ rel (cg_next c st i) (sp_next c s i).
  Proof.
    intros [f pos sent ml rd] s i HR HE.
    destruct (cfg_facts c Hc) as (HL1 & HL2 & Hb & Hl1 & Hl2 & Hv & Hd & Hsp & Hbm0).
    pose proof (Hbm0 Hml) as Hbm.
    unfold rel in HR. cbn [g_fsm g_pos g_sent g_ml g_rd] in HR.
    destruct f, s as [ml0 | bs ml0 sp | ml0]; try contradiction.
    - (* IDLE *)
      subst ml0. unfold cg_out, cg_next, sp_out, sp_next. cbn [g_fsm g_pos g_sent g_ml g_rd].
      split; [reflexivity|].
      unfold sp_env in HE.
      destruct (i_start i && (0 <? i_ml c i)) eqn:ES.
      + unfold rel. cbn [g_fsm g_pos g_sent g_ml g_rd]. rewrite Hml.
        assert (Hsp_in : i_sp c i < L) by lia.
        assert (Heff : sp_eff c i = i_sp c i).
        { unfold sp_eff. destruct (N.leb_spec (c_dlen c) (i_sp c i)) as [H|H]; [nia|].
          apply trunc_small. lia. }
        rewrite Heff. rewrite N.eqb_refl.
        assert (Hmlb : i_ml c i < 2 ^ c_mlw c) by (unfold i_ml; rewrite Hml; apply bits_lt).
        repeat split; try reflexivity; try lia.
      + unfold rel. cbn [g_fsm g_ml]. rewrite Hml. reflexivity.
    - (* STREAMING *)
      destruct HR as (-> & Hpos & Hsple & Hsent & Hlt & Hmlb & Hrd & Hbs). subst rd.
      unfold sp_env in HE. apply N.eqb_eq in HE.
      set (p := N.to_nat pos) in *.
      assert (Hp : (p < length (c_words c))%nat) by (unfold nwords in Hpos; lia).
      rewrite (skipn_cons_nth _ p Hp) in Hbs. fold (rom c pos) in Hbs.
      rewrite beats_cons in Hbs. cbv zeta in Hbs. fold (ends (c_words c) p) in Hbs.
      rewrite (ends_spec _ p Hp) in Hbs.
      assert (Hends : Nat.eqb (S p) (length (c_words c)) = (pos =? L - 1)).
      { unfold nwords. destruct (Nat.eqb_spec (S p) (length (c_words c))), (N.eqb_spec pos (N.of_nat (length (c_words c)) - 1)); try reflexivity; lia. }
      rewrite Hends in Hbs.
      assert (Hlast : on_last c {| g_fsm := STREAMING; g_pos := pos; g_sent := sent; g_ml := ml0; g_rd := rom c pos |}
                      = (pos =? L - 1) || (ml0 <=? sent + c_bpw c)).
      { unfold on_last, e_data, e_max, mlv, bps. cbn [g_pos g_sent g_ml]. rewrite Hml. reflexivity. }
      split.
      + (* outputs *)
        subst bs. unfold cg_out, sp_out. cbn [g_fsm g_ml g_rd b_bytes b_first b_last b_payload].
        rewrite Hlast. unfold on_first. cbn [g_pos]. rewrite HE. f_equal.
        unfold g_valid, vmask. rewrite Hlast, Hml.
        destruct (c_vw c =? 1) eqn:EV; [reflexivity|].
        assert (Hvw : c_vw c = c_bpw c) by lia.
        unfold e_data, e_max, mlv, bps, v_data, v_max. cbn [g_pos g_sent g_ml]. rewrite Hml.
        destruct (pos =? L - 1) eqn:ED, (ml0 <=? sent + c_bpw c) eqn:EM; cbn [orb andb].
        * assert (Hleft : trunc (N.size (c_bpw c)) (ml0 - sent) = ml0 - sent).
          { apply trunc_small. pose proof (N.size_gt (c_bpw c)). lia. }
          rewrite Hleft.
          assert (E1 : (1 <=? ml0 - sent) && (ml0 - sent <=? c_bpw c) = true) by lia. rewrite E1.
          rewrite trunc_small by (apply ones_lt; lia). apply land_ones_ones.
        * f_equal. lia.
        * assert (Hleft : trunc (N.size (c_bpw c)) (ml0 - sent) = ml0 - sent).
          { apply trunc_small. pose proof (N.size_gt (c_bpw c)). lia. }
          rewrite Hleft.
          assert (E1 : (1 <=? ml0 - sent) && (ml0 - sent <=? c_bpw c) = true) by lia. rewrite E1.
          rewrite trunc_small by (apply ones_lt; lia). f_equal. lia.
        * rewrite Hvw. reflexivity.
      + (* next state *)
        subst bs. unfold cg_next, sp_next. cbn [g_fsm]. rewrite Hlast.
        destruct (i_ready c i) eqn:ER.
        * destruct (pos =? L - 1) eqn:ED, (ml0 <=? sent + c_bpw c) eqn:EM; cbn [orb];
            try (unfold rel; cbn [g_fsm g_ml]; reflexivity).
          (* not the final word: advance *)
          assert (Hrest : skipn (S p) (c_words c) <> []).
          { intro E. pose proof (skipn_length (S p) (c_words c)) as HLn. rewrite E in HLn. simpl in HLn.
            unfold nwords in ED. lia. }
          pose proof (beats_nonempty (c_bpw c) (c_lwb c) ml0 _ (sent + c_bpw c) false Hrest) as Hne.
          destruct (beats (c_bpw c) (c_lwb c) ml0 (skipn (S p) (c_words c)) (sent + c_bpw c) false) as [|b' bs'] eqn:EB; [congruence|].
          unfold rel. cbn [g_fsm g_pos g_sent g_ml g_rd]. rewrite Hml.
          assert (Hp1 : trunc (c_posw c) (pos + 1) = pos + 1) by (apply trunc_small; lia).
          assert (Hs1 : trunc (c_mlw c) (sent + c_bpw c) = sent + c_bpw c) by (apply trunc_small; lia).
          rewrite Hp1, Hs1.
          replace (N.to_nat (pos + 1)) with (S p) by lia.
          assert (E2 : (pos + 1 =? sp) = false) by lia. rewrite E2.
          repeat split; try reflexivity; try lia; try nia.
          symmetry; exact EB.
        * unfold rel. cbn [g_fsm g_pos g_sent g_ml g_rd].
          repeat split; try reflexivity; try lia.
          fold p. rewrite (skipn_cons_nth _ p Hp). fold (rom c pos). rewrite beats_cons. cbv zeta.
          fold (ends (c_words c) p). rewrite (ends_spec _ p Hp), Hends. reflexivity.
    - (* DONE *)
      subst ml0. split; reflexivity.
  Qed.

  Theorem cg_refines : forall tr st s, rel st s ->
    env_ok sp_state (sp_step c) (sp_env c) s tr = true ->
    run (cg_step c) st tr = run (sp_step c) s tr.
  Proof.
    induction tr as [|i t IH]; intros st s HR HE; [reflexivity|].
    cbn [env_ok] in HE. apply andb_true_iff in HE as [HE1 HE2].
    destruct (rel_step st s i HR HE1) as [Ho Hn].
    cbn [run cg_step sp_step]. cbn [sp_step fst] in HE2. rewrite Ho. f_equal. apply IH; assumption.
  Qed.

  Corollary cg_from_reset : forall tr,
    env_ok sp_state (sp_step c) (sp_env c) (sp_init) tr = true ->
    run (cg_step c) (cg_init c) tr = run (sp_step c) (sp_init) tr.
  Proof. intros tr HE. apply cg_refines; [apply rel_init | exact HE]. Qed.
End Refine.

(* ---------------------------------------------------------------------------------------------- *)
(* What the answer to a request looks like (closed-form facts about `beats`, independent of any machine) *)
Definition total_bytes (bs : list beat) : N := fold_right (fun b acc => b_bytes b + acc) 0 bs.

Section Answer.
  Variables bpw lwb ml : N.
  Hypothesis Hb : 1 <= bpw.
  Hypothesis Hl : 1 <= lwb /\ lwb <= bpw.

  (* bytes present in a non-empty suffix ws of the data: full words, except lwb bytes in the last one *)
  Definition avail (ws : list N) : N := (N.of_nat (length ws) - 1) * bpw + lwb.

  (* the payloads are, in order, a prefix of the remaining data *)
  Lemma beats_payloads : forall ws sent first,
    map b_payload (beats bpw lwb ml ws sent first) = firstn (length (beats bpw lwb ml ws sent first)) ws.
  Proof.
    induction ws as [|w rest IH]; intros sent first; [reflexivity|].
    rewrite beats_cons. cbv zeta.
    destruct ((match rest with [] => true | _ :: _ => false end) || (ml <=? sent + bpw)).
    - reflexivity.
    - cbn [map length firstn b_payload]. rewrite IH. reflexivity.
  Qed.

  (* the byte counts add up to the budget or to the data that is there, whichever is less *)
  Lemma beats_total : forall ws sent first, ws <> [] -> sent < ml ->
    total_bytes (beats bpw lwb ml ws sent first) = N.min (ml - sent) (avail ws).
  Proof.
    induction ws as [|w rest IH]; intros sent first Hne Hlt; [congruence|].
    rewrite beats_cons. cbv zeta. destruct rest as [|w2 rest'].
    - cbn [orb total_bytes fold_right b_bytes]. unfold avail. cbn [length]. lia.
    - cbn [orb]. destruct (N.leb_spec ml (sent + bpw)) as [H|H].
      + cbn [total_bytes fold_right b_bytes]. unfold avail. cbn [length]. nia.
      + cbn [total_bytes fold_right b_bytes]. fold (total_bytes (beats bpw lwb ml (w2 :: rest') (sent + bpw) false)).
        rewrite IH by (try discriminate; lia). unfold avail. cbn [length]. nia.
  Qed.

  (* every word but the final one is full and not marked last; the final one is marked last and carries 1..bpw bytes *)
  Lemma beats_shape : forall ws sent first, ws <> [] -> sent < ml ->
    exists init fin, beats bpw lwb ml ws sent first = init ++ [fin] /\
      Forall (fun b => b_last b = false /\ b_bytes b = bpw) init /\
      b_last fin = true /\ 1 <= b_bytes fin /\ b_bytes fin <= bpw.
  Proof.
    induction ws as [|w rest IH]; intros sent first Hne Hlt; [congruence|].
    rewrite beats_cons. cbv zeta.
    destruct ((match rest with [] => true | _ :: _ => false end) || (ml <=? sent + bpw)) eqn:EF.
    - eexists [], _. split; [reflexivity|]. split; [constructor|]. cbn [b_last b_bytes].
      split; [reflexivity|]. destruct rest; lia.
    - apply orb_false_iff in EF as [E1 E2]. destruct rest as [|w2 rest']; [discriminate|].
      destruct (IH (sent + bpw) false) as (init & fin & E & HF & H1 & H2 & H3); [discriminate | lia |].
      eexists (_ :: init), fin. split; [rewrite E; reflexivity|].
      split; [constructor; [split; reflexivity | exact HF] | repeat split; assumption].
  Qed.

  (* `first` marks the first word only *)
  Lemma beats_first_false : forall ws sent, Forall (fun b => b_first b = false) (beats bpw lwb ml ws sent false).
  Proof.
    induction ws as [|w rest IH]; intros sent; [constructor|].
    rewrite beats_cons. cbv zeta. constructor; [reflexivity|].
    destruct ((match rest with [] => true | _ :: _ => false end) || (ml <=? sent + bpw)); [constructor | apply IH].
  Qed.

  Lemma beats_first : forall ws sent first, ws <> [] ->
    exists b tl, beats bpw lwb ml ws sent first = b :: tl /\ b_first b = first /\ Forall (fun b => b_first b = false) tl.
  Proof.
    intros [|w rest] sent first Hne; [congruence|]. rewrite beats_cons. cbv zeta.
    eexists _, _. split; [reflexivity|]. split; [reflexivity|].
    destruct ((match rest with [] => true | _ :: _ => false end) || (ml <=? sent + bpw)); [constructor | apply beats_first_false].
  Qed.
End Answer.

(* ---------------------------------------------------------------------------------------------- *)
(* The answer of a well-formed generator to a request that starts within the data *)
Theorem answer_spec : forall c, cfg_okb c = true -> forall sp ml, sp < nwords c -> 0 < ml ->
  let a := answer c sp ml in
  (* the words are the data from the start position onward, in order *)
  map b_payload a = firstn (length a) (skipn (N.to_nat sp) (c_words c)) /\
  (* as many bytes as the limit allows, or as there are *)
  total_bytes a = N.min ml (c_dlen c - sp * c_bpw c) /\
  (* all words full except possibly the final one; `last` on exactly the final word *)
  (exists init fin, a = init ++ [fin] /\
     Forall (fun b => b_last b = false /\ b_bytes b = c_bpw c) init /\
     b_last fin = true /\ 1 <= b_bytes fin /\ b_bytes fin <= c_bpw c) /\
  (* `first` on exactly the first word *)
  (exists b tl, a = b :: tl /\ b_first b = true /\ Forall (fun b => b_first b = false) tl).
Proof.
  intros c Hc sp ml Hsp Hml a. subst a. unfold answer.
  destruct (cfg_facts c Hc) as (HL1 & HL2 & Hb & Hl1 & Hl2 & Hv & Hd & Hspw & Hbm).
  set (ws := skipn (N.to_nat sp) (c_words c)).
  assert (Hlen : length ws = (length (c_words c) - N.to_nat sp)%nat) by apply skipn_length.
  assert (Hne : ws <> []).
  { intro E. rewrite E in Hlen. simpl in Hlen. unfold nwords in Hsp. lia. }
  split; [apply beats_payloads|]. split; [|split].
  - rewrite beats_total by (try assumption; try lia). rewrite N.sub_0_r. f_equal.
    unfold avail. rewrite Hlen, Hd. unfold nwords in *. nia.
  - apply beats_shape; try assumption; lia.
  - apply beats_first. exact Hne.
Qed.

(* a request with a zero length limit is ignored: nothing is emitted, not even `done` *)
Lemma zero_limit_ignored : forall c ml0 i, i_ml c i = 0 ->
  sp_next c (SpIdle ml0) i = SpIdle 0 /\ sp_out c (SpIdle ml0) = pack_quiet c false ml0.
Proof.
  intros c ml0 i H. unfold sp_next. rewrite H. rewrite andb_false_r. split; reflexivity.
Qed.

(* ---------------------------------------------------------------------------------------------- *)
(* Byte-wide generators (USB2 descriptors): the answer is literally the requested slice of the bytes *)
Lemma total_bytes_app : forall a b, total_bytes (a ++ b) = total_bytes a + total_bytes b.
Proof. induction a as [|x a IH]; intros b; [reflexivity|]. cbn [app total_bytes fold_right].
  fold (total_bytes (a ++ b)). fold (total_bytes a). rewrite IH. lia. Qed.

Lemma total_bytes_ones : forall l, Forall (fun b => b_bytes b = 1) l -> total_bytes l = N.of_nat (length l).
Proof.
  induction l as [|x l IH]; intros H; [reflexivity|]. apply Forall_cons_iff in H. destruct H as [Hx Hl].
  cbn [total_bytes fold_right length]. fold (total_bytes l). rewrite IH by exact Hl. rewrite Hx. lia.
Qed.

Theorem answer_bytewide : forall c, cfg_okb c = true -> c_bpw c = 1 -> forall sp ml, sp < nwords c -> 0 < ml ->
  map b_payload (answer c sp ml) =
  firstn (N.to_nat (N.min ml (nwords c - sp))) (skipn (N.to_nat sp) (c_words c)).
Proof.
  intros c Hc Hb1 sp ml Hsp Hml.
  destruct (answer_spec c Hc sp ml Hsp Hml) as (P1 & P2 & (init & fin & E & HF & _ & F1 & F2) & _).
  destruct (cfg_facts c Hc) as (HL1 & HL2 & Hb & Hl1 & Hl2 & Hv & Hd & Hspw & Hbm).
  rewrite P1. f_equal.
  assert (Hall : Forall (fun b => b_bytes b = 1) (answer c sp ml)).
  { rewrite E. apply Forall_app. split.
    - eapply Forall_impl; [|exact HF]. intros b [_ Hbb]. rewrite Hbb. exact Hb1.
    - constructor; [lia | constructor]. }
  pose proof (total_bytes_ones _ Hall) as T. rewrite P2 in T. nia.
Qed.

Lemma chunks_one : forall data, chunks (length data) 1 data = map (fun b => [b]) data.
Proof. induction data as [|b t IH]; [reflexivity|]. cbn [length chunks firstn skipn map]. rewrite IH. reflexivity. Qed.

Lemma cfg_of_bytes_bytewide_words : forall data mlw, c_words (cfg_of_bytes data 1 false mlw) = data.
Proof.
  intros. unfold cfg_of_bytes. cbn [c_words]. rewrite chunks_one, map_map.
  rewrite <- (map_id data) at 2. apply map_ext. intros b. cbn [word_le]. lia.
Qed.
