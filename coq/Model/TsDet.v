(* C43 (part 1) -- hand model of luna/gateware/usb/usb3/link/ordered_sets.py: TSBurstDetector,
   parametric in the ordered set (list of 32-bit words, L = its length >= 2), the ctrl flags of its
   first word, the burst threshold (sets_in_burst) and include_config.

   Input word (37 bits): [0] sink.valid  [1..32] sink.data  [33..36] sink.ctrl
   Output word:          [0] detected  [1] hot_reset  [2] loopback_requested  [3] scrambling_disabled
                         (the three config outputs exist only with include_config)

   The model is the PROPERTY-SATISFYING behaviour: a valid word that is not the first word of a
   set, received while waiting for a first word, clears the count of consecutive sets.  The code in
   /repo keeps the count there (so sets separated by an idle gap and arbitrary other data are
   counted as consecutive); see findings/C43-consecutive.*                                      *)
From Coq Require Import NArith List Bool Arith.
Import ListNotations.
From LunaLib Require Import Netlist Machine.
Open Scope N_scope.

(* lax = false is the property-satisfying detector; lax = true is the behaviour of the code in /repo
   (kept only so that its failure can be stated: TsDet_proofs.ts_lax_refuted) *)
Record ts_cfg := { set_data : list N; fctrl : N; thr : nat; inc_cfg : bool; lax : bool }.
Definition set_len (c : ts_cfg) : nat := length (set_data c).

Definition i_valid (i : N) : bool := N.testbit i 0.
Definition i_data (i : N) : N := bits i 1 32.
Definition i_ctrl (i : N) : N := bits i 33 4.
Definition word := (N * N)%type.                         (* (data, ctrl) of one valid cycle *)
Definition i_word (i : N) : word := (i_data i, i_ctrl i).

Definition o_detected (o : N) : bool := N.testbit o 0.
Definition o_hot_reset (o : N) : bool := N.testbit o 1.
Definition o_loopback (o : N) : bool := N.testbit o 2.
Definition o_noscramble (o : N) : bool := N.testbit o 3.

(* Is w a well-formed k-th word of the ordered set?  Word 0 carries the configured ctrl flags, all
   others are data symbols; with include_config the two low symbols of word 1 (reserved symbol and
   link-configuration symbol of a TS1/TS2) are not compared. *)
Definition CFG_MASK : N := 4294901760.                   (* 0xffff0000 *)
Definition word_ok (c : ts_cfg) (k : nat) (w : word) : bool :=
  (snd w =? (match k with O => fctrl c | _ => 0 end)) &&
  ((if (k =? 1)%nat && inc_cfg c then N.land (fst w) CFG_MASK else fst w) =? nth k (set_data c) 0).
(* link configuration bits: symbol 5 = bits 8..15 of word 1 *)
Definition w_hot_reset (w : word) : bool := N.testbit (fst w) 8.
Definition w_loopback (w : word) : bool := N.testbit (fst w) 10.
Definition w_noscramble (w : word) : bool := N.testbit (fst w) 11.

(* ---- the code-shaped machine ---- *)
Inductive ts_fsm := NONE | WAIT | DET (k : nat).         (* DET k = "k_DETECTED", 1 <= k <= L *)
Record ts_state := { fsm : ts_fsm; count : nat; det : bool; hr : bool; lb : bool; sd : bool }.
Definition ts_init : ts_state :=
  {| fsm := NONE; count := 0; det := false; hr := false; lb := false; sd := false |}.

Section Det.
  Variable c : ts_cfg.
  Let L := set_len c.

  Definition ts_next (st : ts_state) (i : N) : ts_state :=
    let v := i_valid i in let w := i_word i in
    match fsm st with
    | NONE => {| fsm := WAIT; count := 0; det := false; hr := hr st; lb := lb st; sd := sd st |}
    | WAIT =>
        if v then
          if word_ok c 0 w
          then {| fsm := DET 1; count := count st; det := false; hr := hr st; lb := lb st; sd := sd st |}
          else {| fsm := WAIT; count := if lax c then count st else 0; det := false;
                  hr := hr st; lb := lb st; sd := sd st |}
        else {| fsm := WAIT; count := count st; det := false; hr := hr st; lb := lb st; sd := sd st |}
    | DET k =>
        if (L <=? k)%nat then
          (* last word seen: count the set (report and restart the count at the threshold),
             and look at this cycle's word at once *)
          let full := (S (count st) =? thr c)%nat in
          {| fsm := if v then (if word_ok c 0 w then DET 1 else NONE) else WAIT;
             count := if full then O else S (count st);
             det := full; hr := hr st; lb := lb st; sd := sd st |}
        else
          if v then
            if word_ok c k w then
              let latch := (k =? 1)%nat && inc_cfg c in
              {| fsm := DET (S k); count := count st; det := false;
                 hr := if latch then w_hot_reset w else hr st;
                 lb := if latch then w_loopback w else lb st;
                 sd := if latch then w_noscramble w else sd st |}
            else {| fsm := NONE; count := count st; det := false; hr := hr st; lb := lb st; sd := sd st |}
          else {| fsm := DET k; count := count st; det := false; hr := hr st; lb := lb st; sd := sd st |}
    end.

  Definition ts_out (st : ts_state) : N :=
    b2n (det st) + 2 * b2n (hr st) + 4 * b2n (lb st) + 8 * b2n (sd st).

  Definition ts_step (st : ts_state) (i : N) : ts_state * N := (ts_next st i, ts_out st).

  (* ---- specification, part 1 (soundness: "never reports on other data", "consecutive", "once
     for every n sets", "reports their configuration bits"), as a checker of observed traces.

     tail_ok m ws: the m most recent valid words (ws is most-recent-first) are, oldest first,
     words number ... L-2, L-1, 0, 1, ..., (m-1) mod L of well-formed sets; so tail_ok (n*L) ws
     says that the last n*L valid words are n back-to-back well-formed ordered sets.             *)
  Fixpoint tail_ok (m : nat) (ws : list word) : bool :=
    match m, ws with
    | O, _ => true
    | S m', w :: ws' => word_ok c (m' mod L) w && tail_ok m' ws'
    | S _, [] => false
    end.

  (* the reported configuration bits are those of word 1 of the most recent set *)
  Definition cfg_ok (ws : list word) (o : N) : bool :=
    if inc_cfg c then
      match nth_error ws (L - 2) with
      | Some w => eqb (o_hot_reset o) (w_hot_reset w) && eqb (o_loopback o) (w_loopback w) &&
                  eqb (o_noscramble o) (w_noscramble w)
      | None => false
      end
    else true.

  Definition push (prev : option N) (ws : list word) : list word :=
    match prev with Some j => if i_valid j then i_word j :: ws else ws | None => ws end.

  (* sound ws prev ios: ws = the valid words received since the last report up to two cycles ago,
     prev = the input word of the previous cycle.  Whenever `detected` is high, the words in ws must
     end with thr complete back-to-back sets -- words received in invalid cycles do not count (idle
     gaps are allowed), every other valid word does -- and the config outputs must be those of the
     last set.  The epoch then restarts, so no set is used for two reports.                      *)
  Fixpoint sound (ws : list word) (prev : option N) (ios : list (N * N)) : bool :=
    match ios with
    | [] => true
    | (i, o) :: t =>
        if o_detected o
        then tail_ok (thr c * L) ws && cfg_ok ws o && sound (push prev []) (Some i) t
        else sound (push prev ws) (Some i) t
    end.

  (* ---- specification, part 2 (completeness): what a clean burst looks like on the input.
     set_seg k ins: ins carries words k, k+1, ..., L-1 of one well-formed set, each preceded by any
     number of invalid cycles (idle gaps; the data lines are arbitrary in them);
     burst_of m ins: m such sets back to back. ---- *)
  Inductive set_seg : nat -> list N -> Prop :=
  | seg_done : set_seg L []
  | seg_gap : forall k i rest, (k < L)%nat -> i_valid i = false -> set_seg k rest -> set_seg k (i :: rest)
  | seg_word : forall k i rest, (k < L)%nat -> i_valid i = true -> word_ok c k (i_word i) = true ->
               set_seg (S k) rest -> set_seg k (i :: rest).
  Inductive burst_of : nat -> list N -> Prop :=
  | burst_nil : burst_of O []
  | burst_cons : forall m s rest, set_seg O s -> burst_of m rest -> burst_of (S m) (s ++ rest).
End Det.

(* ---- packing of the model state for the tie ---- *)
Definition fsm_code (f : ts_fsm) : N :=
  match f with NONE => 0 | WAIT => 1 | DET k => N.of_nat k + 1 end.
Definition fsm_of (x : N) : ts_fsm :=
  if x =? 0 then NONE else if x =? 1 then WAIT else DET (N.to_nat (x - 1)).
Definition ts_enc (st : ts_state) : N :=
  b2n (det st) + 2 * (b2n (hr st) + 2 * (b2n (lb st) + 2 * (b2n (sd st) + 2 * (fsm_code (fsm st) + 16 * N.of_nat (count st))))).
Definition ts_dec (m : N) : ts_state :=
  {| det := N.odd m; hr := N.odd (m / 2); lb := N.odd (m / 4); sd := N.odd (m / 8);
     fsm := fsm_of ((m / 16) mod 16); count := N.to_nat (m / 256) |}.
Definition ts_wf (L : nat) (st : ts_state) : Prop :=
  match fsm st with DET k => (1 <= k <= L)%nat | _ => True end.
