(* C34 -- proofs about the word-aligner model (every W >= 1, every criteria, unbounded traces):
   which offset is chosen, what word is presented, and that while the offset is unchanged the output words
   are a contiguous regrouping of the input symbol stream; plus packing lemmas for the lock-step tie. *)
From Coq Require Import NArith ZArith List Bool Arith Lia.
Import ListNotations.
From LunaLib Require Import Netlist Machine SymWord.
From LunaModel Require Import Aligner.
Open Scope nat_scope.

Section AlignerProofs.
  Variable W : nat.
  Variable crit : list N -> bool.

  (* ---- offset selection ---- *)
  Lemma last_match_some : forall cat n j, last_match W crit cat n = Some j ->
    j < n /\ crit (window W j cat) = true /\ (forall j', j < j' < n -> crit (window W j' cat) = false).
  Proof.
    intros cat. induction n as [|n IH]; intros j H; [discriminate|]. cbn [last_match] in H.
    destruct (crit (window W n cat)) eqn:E.
    - inversion H; subst. repeat split; [lia | exact E | intros; lia].
    - destruct (IH j H) as (H1 & H2 & H3). repeat split; [lia | exact H2|].
      intros j' Hj. destruct (Nat.eq_dec j' n) as [->|]; [exact E | apply H3; lia].
  Qed.

  Lemma last_match_none : forall cat n, last_match W crit cat n = None ->
    forall j, j < n -> crit (window W j cat) = false.
  Proof.
    intros cat. induction n as [|n IH]; intros H j Hj; [lia|]. cbn [last_match] in H.
    destruct (crit (window W n cat)) eqn:E; [discriminate|].
    destruct (Nat.eq_dec j n) as [->|]; [exact E | apply IH; [exact H | lia]].
  Qed.

  Lemma last_match_found : forall cat n j, j < n -> crit (window W j cat) = true ->
    (forall j', j < j' < n -> crit (window W j' cat) = false) -> last_match W crit cat n = Some j.
  Proof.
    intros cat. induction n as [|n IH]; intros j Hj Hc Hn; [lia|]. cbn [last_match].
    destruct (Nat.eq_dec j n) as [->|Hne]; [rewrite Hc; reflexivity|].
    rewrite (Hn n) by lia. apply IH; [lia | exact Hc | intros; apply Hn; lia].
  Qed.

  Lemma last_match_missing : forall cat n, (forall j, j < n -> crit (window W j cat) = false) ->
    last_match W crit cat n = None.
  Proof.
    intros cat. induction n as [|n IH]; intros H; [reflexivity|]. cbn [last_match].
    rewrite (H n) by lia. apply IH. intros; apply H; lia.
  Qed.

  (* A valid word whose concatenation with the previous word meets the criteria at offset j (and at no higher
     offset) is presented as exactly that window, and j becomes the offset. *)
  Theorem al_match_word : forall st i j, av i = true -> j < W ->
    crit (window W j (prev st ++ asyms i)) = true ->
    (forall j', j < j' < W -> crit (window W j' (prev st ++ asyms i)) = false) ->
    al_result W crit st i = {| rv := true; rword := window W j (prev st ++ asyms i); roff := j |} /\
    shift (al_next W crit st i) = j.
  Proof.
    intros st i j Hv Hj Hc Hn. unfold al_next, al_result, al_offset. cbn [shift]. rewrite Hv.
    rewrite (last_match_found _ _ _ Hj Hc Hn). split; reflexivity.
  Qed.

  (* No window meets the criteria: the offset is kept. *)
  Theorem al_no_match : forall st i, av i = true ->
    (forall j, j < W -> crit (window W j (prev st ++ asyms i)) = false) ->
    al_result W crit st i = {| rv := true; rword := window W (shift st) (prev st ++ asyms i); roff := shift st |} /\
    shift (al_next W crit st i) = shift st.
  Proof.
    intros st i Hv Hn. unfold al_next, al_result, al_offset. cbn [shift]. rewrite Hv.
    rewrite (last_match_missing _ _ Hn). split; reflexivity.
  Qed.

  (* Invalid words change nothing but the valid flag. *)
  Theorem al_invalid : forall st i, av i = false ->
    rv (al_result W crit st i) = false /\ roff (al_result W crit st i) = shift st /\
    prev (al_next W crit st i) = prev st /\ shift (al_next W crit st i) = shift st.
  Proof. intros st i Hv. unfold al_next, al_result, al_offset. cbn. rewrite Hv. repeat split. Qed.

  (* the offset is always below W *)
  Lemma al_offset_lt : forall st i, shift st < W -> al_offset W crit st i < W.
  Proof.
    intros st i H. unfold al_offset. destruct (av i); [|exact H].
    destruct (last_match W crit (prev st ++ asyms i) W) as [j|] eqn:E; [|exact H].
    apply last_match_some in E. tauto.
  Qed.

  (* ---- outputs are the registered results ---- *)
  Theorem al_outputs_are_results : forall ins st x,
    trun (al_step W crit) st (ins ++ [x]) = oreg st :: al_results W crit st ins.
  Proof.
    induction ins as [|i t IH]; intros st x; [reflexivity|].
    cbn [app trun al_results]. unfold al_step at 1. rewrite IH. reflexivity.
  Qed.

  (* ---- regrouping ---- *)
  Lemma window_split : forall s P C R, length P = W -> length C = W -> s <= W ->
    skipn s (P ++ C ++ R) = window W s (P ++ C) ++ skipn s (C ++ R).
  Proof.
    intros s P C R HP HC Hs. unfold window.
    rewrite !skipn_app, HP, HC. replace (s - W) with 0 by lia. rewrite !skipn_O.
    rewrite firstn_app, skipn_length, HP. replace (W - (W - s)) with s by lia.
    rewrite (firstn_all2 (skipn s P)) by (rewrite skipn_length; lia).
    rewrite <- !app_assoc. f_equal. rewrite app_assoc, firstn_skipn. reflexivity.
  Qed.

  Lemma window_length : forall s P C, length P = W -> length C = W -> s <= W ->
    length (window W s (P ++ C)) = W.
  Proof. intros. unfold window. rewrite firstn_length, skipn_length, app_length. lia. Qed.

  Lemma al_out_stream_cons : forall r l,
    al_out_stream (r :: l) = (if rv r then rword r else []) ++ al_out_stream l.
  Proof. reflexivity. Qed.
  Lemma al_in_stream_cons : forall i l,
    al_in_stream (i :: l) = (if av i then asyms i else []) ++ al_in_stream l.
  Proof. reflexivity. Qed.
  Lemma al_nvalid_cons : forall i l, al_nvalid (i :: l) = (if av i then 1 else 0) + al_nvalid l.
  Proof. intros. unfold al_nvalid. cbn [filter]. destruct (av i); reflexivity. Qed.
  Lemma al_result_word : forall st i,
    rword (al_result W crit st i) = window W (roff (al_result W crit st i)) (prev st ++ asyms i).
  Proof. reflexivity. Qed.

  (* While alignment_offset stays s, the valid output words, concatenated, are the symbol stream
     "held previous word, then the valid input words" with its first s symbols dropped, cut after the last
     complete word: a contiguous segment, nothing lost, duplicated or reordered. *)
  Theorem al_regroup : forall s ins st, length (prev st) = W -> s <= W ->
    Forall (fun i => length (asyms i) = W) ins ->
    Forall (fun r => roff r = s) (al_results W crit st ins) ->
    al_out_stream (al_results W crit st ins)
    = firstn (W * al_nvalid ins) (skipn s (prev st ++ al_in_stream ins)).
  Proof.
    intros s. induction ins as [|i t IH]; intros st HP Hs HL HR.
    - cbn. rewrite Nat.mul_0_r. reflexivity.
    - apply Forall_cons_iff in HL. destruct HL as [Hi Ht]. cbn [al_results] in HR.
      apply Forall_cons_iff in HR. destruct HR as [Hr Hrt].
      cbn [al_results]. rewrite al_out_stream_cons, al_in_stream_cons, al_nvalid_cons.
      rewrite al_result_word, Hr.
      assert (HP' : length (prev (al_next W crit st i)) = W) by (cbn [al_next prev]; destruct (av i); assumption).
      rewrite (IH _ HP' Hs Ht Hrt). cbn [al_result rv al_next prev].
      destruct (av i).
      + (* a valid word *)
        rewrite (window_split s (prev st) (asyms i)) by assumption.
        replace (W * (1 + al_nvalid t)) with (length (window W s (prev st ++ asyms i)) + W * al_nvalid t)
          by (rewrite window_length by assumption; lia).
        rewrite firstn_app_2. reflexivity.
      + (* an invalid word contributes nothing and leaves the held word in place *)
        reflexivity.
  Qed.
End AlignerProofs.

(* ---------------------------------------------------------------------------------------- *)
(* word comparison *)
Lemma word_eqb_eq : forall a b, word_eqb a b = true <-> a = b.
Proof. intros. unfold word_eqb. apply list_eqb_eq. Qed.

(* The first sentence of the property for the COM criteria: a valid word that completes COM COM COM COM at
   offset j of (previous ++ current), not followed by a fifth COM-window, is presented as the whole word
   COM^4 with alignment_offset j; and as long as the offset then stays j, everything that follows is the
   input stream regrouped at that offset. *)
Theorem al_align_on_com : forall st i mid j,
  length (prev st) = 4 -> length (asyms i) = 4 -> Forall (fun i => length (asyms i) = 4) mid ->
  av i = true -> j < 4 ->
  window 4 j (prev st ++ asyms i) = [COM; COM; COM; COM] ->
  (forall j', j < j' < 4 -> window 4 j' (prev st ++ asyms i) <> [COM; COM; COM; COM]) ->
  Forall (fun r => roff r = j) (al_results 4 crit_com (al_next 4 crit_com st i) mid) ->
  al_results 4 crit_com st (i :: mid)
    = {| rv := true; rword := [COM; COM; COM; COM]; roff := j |} :: al_results 4 crit_com (al_next 4 crit_com st i) mid
  /\ al_out_stream (al_results 4 crit_com st (i :: mid))
     = firstn (4 * S (al_nvalid mid)) (skipn j (prev st ++ asyms i ++ al_in_stream mid)).
Proof.
  intros st i mid j HP Hi Hmid Hv Hj Hw Hno Hoff.
  assert (Hc : crit_com (window 4 j (prev st ++ asyms i)) = true) by (unfold crit_com; apply word_eqb_eq; exact Hw).
  assert (Hn : forall j', j < j' < 4 -> crit_com (window 4 j' (prev st ++ asyms i)) = false).
  { intros j' Hj'. unfold crit_com. destruct (word_eqb _ _) eqn:E; [|reflexivity].
    apply word_eqb_eq in E. exfalso. exact (Hno j' Hj' E). }
  destruct (al_match_word 4 crit_com st i j Hv Hj Hc Hn) as [Hres Hsh]. split.
  - cbn [al_results]. rewrite Hres, Hw. reflexivity.
  - rewrite (al_regroup 4 crit_com j (i :: mid) st HP) ; [| lia | constructor; assumption |].
    + unfold al_nvalid, al_in_stream. cbn [filter map concat]. rewrite Hv. reflexivity.
    + cbn [al_results]. constructor; [rewrite Hres; reflexivity | exact Hoff].
Qed.

(* ---------------------------------------------------------------------------------------- *)
(* the packed machine *)
Lemma al_mrun : forall W crit tr st,
  run (al_mstep W crit) st tr = map (al_eout W) (trun (al_step W crit) st (map (al_din W) tr)).
Proof. intros. unfold al_mstep. apply (run_packed (al_step W crit) (al_din W) (al_eout W)). Qed.

Lemma al_din_len : forall W tr, Forall (fun i => length (asyms i) = W) (map (al_din W) tr).
Proof. intros. apply Forall_map. apply Forall_forall. intros i _. apply syms_of_length. Qed.

(* packing lemmas for lock-step obligations *)
Definition al_wf (W : nat) (st : al_state) : Prop :=
  length (prev st) = W /\ Forall sym_ok (prev st) /\
  length (rword (oreg st)) = W /\ Forall sym_ok (rword (oreg st)) /\
  shift st < W /\ roff (oreg st) < W.

Lemma al_wf_init : forall W, 1 <= W -> al_wf W (al_init W).
Proof.
  intros W HW. unfold al_wf, al_init. cbn. rewrite !repeat_length.
  assert (Forall sym_ok (repeat 0%N W)).
  { apply Forall_forall. intros x Hx. apply repeat_spec in Hx. subst. unfold sym_ok. lia. }
  repeat split; try assumption; lia.
Qed.

Lemma al_dec_enc : forall W, W <= 512 -> forall st, al_wf W st -> al_dec W (al_enc st) = st.
Proof.
  intros W HW [p s [v w o]] (Hp & Hps & Hw & Hws & Hs & Ho). cbn [prev shift oreg rv rword roff] in *.
  unfold al_dec, al_enc. cbn [prev shift oreg rv rword roff].
  set (L := p ++ w ++ [N.of_nat s; N.of_nat o; b2n v]).
  assert (HL : length L = 2 * W + 3) by (unfold L; rewrite !app_length; cbn [length]; lia).
  assert (HLok : Forall sym_ok L).
  { unfold L. apply Forall_app. split; [exact Hps|]. apply Forall_app. split; [exact Hws|].
    constructor; [unfold sym_ok; lia|]. constructor; [unfold sym_ok; lia|].
    constructor; [destruct v; unfold sym_ok; cbn; lia | constructor]. }
  rewrite <- HL, (unpack9_pack9 L HLok).
  assert (E1 : firstn W L = p).
  { unfold L. rewrite firstn_app, Hp, Nat.sub_diag, firstn_O, app_nil_r. apply firstn_all2. lia. }
  assert (E2 : skipn W L = w ++ [N.of_nat s; N.of_nat o; b2n v]).
  { unfold L. rewrite skipn_app, Hp, Nat.sub_diag, skipn_O. rewrite skipn_all2 by lia. reflexivity. }
  assert (E3 : firstn W (skipn W L) = w).
  { rewrite E2, firstn_app, Hw, Nat.sub_diag, firstn_O, app_nil_r. apply firstn_all2. lia. }
  assert (N0 : nth (2 * W) L 0%N = N.of_nat s).
  { unfold L. rewrite app_nth2 by lia. rewrite app_nth2 by lia. rewrite Hp, Hw.
    replace (2 * W - W - W) with 0 by lia. reflexivity. }
  assert (N1 : nth (2 * W + 1) L 0%N = N.of_nat o).
  { unfold L. rewrite app_nth2 by lia. rewrite app_nth2 by lia. rewrite Hp, Hw.
    replace (2 * W + 1 - W - W) with 1 by lia. reflexivity. }
  assert (N2 : nth (2 * W + 2) L 0%N = b2n v).
  { unfold L. rewrite app_nth2 by lia. rewrite app_nth2 by lia. rewrite Hp, Hw.
    replace (2 * W + 2 - W - W) with 2 by lia. reflexivity. }
  rewrite E1, E3, N0, N1, N2, !Nat2N.id. f_equal. f_equal. destruct v; reflexivity.
Qed.

Lemma al_wf_step : forall W crit st i, al_wf W st -> al_wf W (fst (al_mstep W crit st i)).
Proof.
  intros W crit st i (Hp & Hps & Hw & Hws & Hs & Ho). unfold al_mstep, al_step. cbn [fst].
  set (d := al_din W i).
  assert (Hd : length (asyms d) = W) by apply syms_of_length.
  assert (Hdo : Forall sym_ok (asyms d)) by apply syms_of_ok.
  pose proof (al_offset_lt W crit st d Hs) as Hoff.
  unfold al_wf, al_next, al_result. cbn [prev shift oreg rword roff].
  repeat split; try assumption.
  - destruct (av d); assumption.
  - destruct (av d); assumption.
  - apply window_length; try assumption; lia.
  - unfold window. apply Forall_firstn, Forall_skipn, Forall_app. split; assumption.
Qed.

Lemma al_w4 : 4 <= 512. Proof. lia. Qed.
Lemma al_w4' : 1 <= 4. Proof. lia. Qed.
