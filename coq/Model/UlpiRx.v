(* C22 -- ULPI receive translation: hand models of luna/gateware/interface/ulpi.py
     * ULPIRxEventDecoder (stand-alone module), and
     * the receive path of UTMITranslator (rx_active / rx_valid / rx_data registers + the event decoder),
   and the specification "the UTMI receive stream reports exactly the PHY's packet bytes; RxActive follows
   the PHY's RxCmds and DIR; line state / VBUS flags equal the most recent RxCmd".

   The receive-path model is the PROPERTY-SATISFYING behaviour (see findings/C22-*.diff):
     - RxActive is taken from the RxCmd in the cycle the RxCmd is on the bus (the code in /repo goes through the
       registered rx_start/rx_stop strobes, one cycle later, and loses a data byte that follows the RxCmd at once);
     - RxCmds are sampled unless a register READ is in progress (the code in /repo also ignores them while a
       register WRITE is pending or in progress).  UTMITranslator never reads, so here: always.

   Port packing (see props/C22.py).
   Decoder target.  inputs : data_i[8] 0..7, dir 8, nxt 9, register_operation_in_progress 10
                    outputs: last_rx_command[8] 0..7, line_state[2] 8..9, vbus_valid 10, session_valid 11,
                             session_end 12, rx_active 13, rx_error 14, host_disconnect 15, id_digital 16,
                             rx_start 17, rx_stop 18
   Translator target. inputs : data_i[8] 0..7, nxt 8, dir 9, (transmit / control inputs above)
                    outputs: rx_active 0, rx_valid 1, rx_data[8] 2..9   -- the UTMI receive word read by the
                             packet models (Handshake.d_act / d_val / d_dat) --
                             line_state[2] 10..11, vbus_valid 12, session_valid 13, session_end 14, rx_error 15,
                             host_disconnect 16, id_digital 17, last_rx_command[8] 18..25                      *)
From Coq Require Import NArith List Bool.
Import ListNotations.
From LunaLib Require Import Netlist Machine.
From LunaModel Require Import Handshake.
Open Scope N_scope.

(* ---- RxCmd fields (ULPI 1.1 table 3.8.1.2), packed as the status outputs: line_state[2], vbus_valid,
        session_valid, session_end, rx_error, host_disconnect, id_digital (8 bits) ---- *)
Definition rxcmd_active (c : N) : bool := N.testbit c 4.
Definition rxcmd_status (c : N) : N :=
  bits c 0 2 + 4 * b2n (bits c 2 2 =? 3) + 8 * b2n (bits c 2 2 =? 2) + 16 * b2n (bits c 2 2 =? 0)
  + 32 * b2n (bits c 4 2 =? 3) + 64 * b2n (bits c 4 2 =? 2) + 128 * b2n (N.testbit c 6).

(* ================================ ULPIRxEventDecoder ============================================ *)
Definition di_data (i : N) : N := bits i 0 8.
Definition di_dir (i : N) : bool := N.testbit i 8.
Definition di_nxt (i : N) : bool := N.testbit i 9.
Definition di_regop (i : N) : bool := N.testbit i 10.

Record dec_state := { e_dd : bool (* direction_delayed *); e_last : N (* last_rx_command *);
                      e_start : bool; e_stop : bool }.
Definition dec_init : dec_state := {| e_dd := false; e_last := 0; e_start := false; e_stop := false |}.

(* an RxCmd is on the bus: DIR high for more than one cycle, NXT low, no register operation *)
Definition rxcmd_now (pd dir nxt regop : bool) : bool := pd && dir && negb nxt && negb regop.

Definition dec_out (s : dec_state) : N :=
  e_last s + 256 * (bits (rxcmd_status (e_last s)) 0 5)
  + 8192 * b2n (rxcmd_active (e_last s)) + 16384 * (bits (rxcmd_status (e_last s)) 5 3)
  + 131072 * b2n (e_start s) + 262144 * b2n (e_stop s).

Definition dec_step (s : dec_state) (i : N) : dec_state * N :=
  let sample := rxcmd_now (e_dd s) (di_dir i) (di_nxt i) (di_regop i) in
  let a := rxcmd_active (e_last s) in let a' := rxcmd_active (di_data i) in
  ({| e_dd := di_dir i;
      e_last := if sample then di_data i else e_last s;
      e_start := sample && negb a && a';
      e_stop := sample && a && negb a' |}, dec_out s).

(* decoder specification: the most recent RxCmd of a history (0 before the first one) *)
Fixpoint last_rxcmd (pd : bool) (last : N) (h : list N) : N :=
  match h with
  | [] => last
  | i :: t => last_rxcmd (di_dir i)
                (if rxcmd_now pd (di_dir i) (di_nxt i) (di_regop i) then di_data i else last) t
  end.

Definition dec_enc (s : dec_state) : N :=
  b2n (e_dd s) + 2 * b2n (e_start s) + 4 * b2n (e_stop s) + 8 * e_last s.
Definition dec_dec (m : N) : dec_state :=
  {| e_dd := N.testbit m 0; e_start := N.testbit m 1; e_stop := N.testbit m 2; e_last := m / 8 |}.
Definition dec_wf (s : dec_state) : Prop := e_last s < 256.

(* ================================ receive path of UTMITranslator ================================ *)
Definition ri_data (i : N) : N := bits i 0 8.
Definition ri_nxt (i : N) : bool := N.testbit i 8.
Definition ri_dir (i : N) : bool := N.testbit i 9.

Record rx_state := { r_pd : bool (* past_dir = direction_delayed *); r_act : bool; r_val : bool; r_dat : N;
                     r_last : N }.
Definition rx_init : rx_state := {| r_pd := false; r_act := false; r_val := false; r_dat := 0; r_last := 0 |}.

Definition rx_out (s : rx_state) : N :=
  b2n (r_act s) + 2 * b2n (r_val s) + 4 * r_dat s + 1024 * rxcmd_status (r_last s) + 262144 * r_last s.

Definition rx_step (s : rx_state) (i : N) : rx_state * N :=
  let dir := ri_dir i in let nxt := ri_nxt i in
  let cmd := rxcmd_now (r_pd s) dir nxt false in
  let a' := rxcmd_active (ri_data i) in
  ({| r_pd := dir;
      r_act := if negb dir || (cmd && negb a') then false
               else if (negb (r_pd s) && dir && nxt) || (cmd && a') then true
               else r_act s;
      r_val := nxt && r_act s;
      r_dat := ri_data i;
      r_last := if cmd then ri_data i else r_last s |}, rx_out s).

(* ---- specification, PHY side ------------------------------------------------------------------ *)
(* What the PHY presented, read off DIR / NXT / DATA alone.  State: DIR of the previous cycle and the bytes of
   the receive in progress.  A receive starts when DIR rises together with NXT, or with an RxCmd whose
   RxActive bit is set; it ends when DIR falls or with an RxCmd whose RxActive bit is clear; its bytes are
   DATA in the cycles with DIR and NXT high after the start.  (RxCmds and turn-around cycles carry no data.) *)
Definition phy_next (st : bool * option (list N)) (i : N) : bool * option (list N) :=
  let (pd, cur) := st in
  let dir := ri_dir i in let nxt := ri_nxt i in
  let cmd := rxcmd_now pd dir nxt false in let a' := rxcmd_active (ri_data i) in
  (dir,
   match cur with
   | Some l => if negb dir || (cmd && negb a') then None
               else if dir && nxt then Some (l ++ [ri_data i]) else Some l
   | None => if dir && ((negb pd && nxt) || (cmd && a')) then Some [] else None
   end).
Definition phy_done (st : bool * option (list N)) (i : N) : option (list N) :=
  match snd st, snd (phy_next st i) with
  | Some l, None => Some l
  | _, _ => None
  end.
Fixpoint phy_packets (st : bool * option (list N)) (h : list N) : list (list N) :=
  match h with
  | [] => []
  | i :: t => match phy_done st i with
              | Some l => l :: phy_packets (phy_next st i) t
              | None => phy_packets (phy_next st i) t
              end
  end.
Definition phy0 : bool * option (list N) := (false, None).

(* the most recent RxCmd (translator: no register reads) *)
Fixpoint phy_last_rxcmd (pd : bool) (last : N) (h : list N) : N :=
  match h with
  | [] => last
  | i :: t => phy_last_rxcmd (ri_dir i) (if rxcmd_now pd (ri_dir i) (ri_nxt i) false then ri_data i else last) t
  end.

(* ULPI bus turn-around: in the cycle in which DIR falls NXT is low (the PHY has released the bus; it cannot
   be presenting data).  The only assumption on the PHY. *)
Fixpoint turnaround_ok (pd : bool) (h : list N) : bool :=
  match h with
  | [] => true
  | i :: t => negb (pd && negb (ri_dir i) && ri_nxt i) && turnaround_ok (ri_dir i) t
  end.

(* ---- specification, UTMI side: Handshake.packets_from (a packet is a maximal rx_active run; its bytes are
        rx_data in the rx_valid cycles of the run other than its first) applied to the output words ---- *)
Definition utmi_packets (outs : list N) : list (list N) := packets_from None outs.

(* status outputs / last RxCmd of an output word *)
Definition o_status (o : N) : N := bits o 10 8.
Definition o_lastcmd (o : N) : N := bits o 18 8.
Definition o_active (o : N) : bool := N.testbit o 0.

(* packing for the lock-step obligations *)
Definition rx_enc (s : rx_state) : N :=
  b2n (r_pd s) + 2 * b2n (r_act s) + 4 * b2n (r_val s) + 8 * r_dat s + 2048 * r_last s.
Definition rx_dec (m : N) : rx_state :=
  {| r_pd := N.testbit m 0; r_act := N.testbit m 1; r_val := N.testbit m 2; r_dat := bits m 3 8;
     r_last := m / 2048 |}.
Definition rx_wf (s : rx_state) : Prop := r_dat s < 256 /\ r_last s < 256.
