(* C25 -- packing lemmas for the tie obligations (dec (enc s) = s, well-formedness preserved). *)
From Coq Require Import NArith ZArith List Bool Lia ZifyBool ZifyN.
Import ListNotations.
From LunaLib Require Import Netlist PackN.
From LunaModel Require Import GwPhyCodec GwPhy GwPhyTie.
Open Scope N_scope.
Ltac Zify.zify_post_hook ::= Z.div_mod_to_equations.

Lemma bN_lt2 : forall b, bN b < 2.
Proof. destruct b; cbn; lia. Qed.
Lemma n2b_bN : forall b, n2b (bN b) = b.
Proof. destruct b; reflexivity. Qed.
Lemma txfsm_code_lt : forall f, txfsm_code f < 4.
Proof. destruct f; cbn; lia. Qed.
Lemma txfsm_of_code : forall f, txfsm_of (txfsm_code f) = f.
Proof. destruct f; reflexivity. Qed.
Lemma nz_code_lt : forall q, nz_code q < 6.
Proof. destruct q; cbn; lia. Qed.
Lemma nz_of_code : forall q, nz_of (nz_code q) = q.
Proof. destruct q; reflexivity. Qed.

Ltac pk_side := first [ assumption | apply bN_lt2 | apply txfsm_code_lt | apply nz_code_lt | lia ].
Ltac unpk := repeat first [ rewrite pk_div by pk_side | rewrite pk_mod by pk_side ].

Lemma txu_dec_enc : forall u rest, txu_wf u -> txu_dec (txu_enc u rest) = (u, rest).
Proof.
  intros [f sp gr [rg ps gt] bs] rest (Hsp & Hgr & Hrg & Hps & Hbs). cbn [u_fsm u_sp u_gray u_sh u_bs sh_reg sh_pos sh_get] in *.
  unfold txu_dec, txu_enc. cbn [u_fsm u_sp u_gray u_sh u_bs sh_reg sh_pos sh_get].
  assert (Hbs8 : bs < 8) by lia.
  unpk. rewrite txfsm_of_code, n2b_bN. reflexivity.
Qed.

Lemma txio_dec_enc : forall c rest, c_ctr c < 4 -> txio_dec (txio_enc c rest) = (c, rest).
Proof.
  intros [d0 d1 d2 e0 e1 e2 nz p n oe ct] rest H. cbn [c_ctr] in H.
  unfold txio_dec, txio_enc. cbn [c_d0 c_d1 c_d2 c_e0 c_e1 c_e2 c_nz c_p c_n c_oe c_ctr].
  unpk. rewrite nz_of_code, !n2b_bN. reflexivity.
Qed.

Lemma txg_dec_enc : forall s, txg_wf s -> txg_dec (txg_enc s) = s.
Proof.
  intros [[u c] li] [Hu Hc]. cbn [fst snd x_u x_io] in *. unfold txg_dec, txg_enc. cbn [fst snd x_u x_io].
  rewrite (txu_dec_enc u _ Hu). rewrite (txio_dec_enc c _ Hc). reflexivity.
Qed.

Lemma txsh_next_wf : forall s data en cl, sh_reg s < 256 -> sh_pos s < 256 ->
  sh_reg (txsh_next 8 s data en cl) < 256 /\ sh_pos (txsh_next 8 s data en cl) < 256.
Proof.
  intros [rg ps gt] data en cl Hr Hp. unfold txsh_next. cbn [sh_reg sh_pos sh_get txsh_empty] in *.
  assert (data mod 2 ^ 8 < 256) by (apply N.mod_lt; discriminate).
  assert (rg / 2 < 256) by (apply N.div_lt_upper_bound; lia).
  assert (ps / 2 < 256) by (apply N.div_lt_upper_bound; lia).
  change (2 ^ (8 - 1)) with 128.
  destruct cl, en; destruct (txsh_empty {| sh_reg := rg; sh_pos := ps; sh_get := gt |}); split; lia.
Qed.

Lemma txbs_next_le : forall c d, c <= 6 -> txbs_next c d <= 6.
Proof.
  intros c d H. unfold txbs_next. destruct (N.eqb c 6) eqn:E; [lia|]. apply N.eqb_neq in E. destruct d; lia.
Qed.

Lemma txu_next_wf : forall u data oe, txu_wf u -> txu_wf (txu_next 8 u data oe).
Proof.
  intros u data oe (Hsp & Hgr & Hrg & Hps & Hbs).
  pose proof (txsh_next_wf (u_sh u) data (negb (u_stall u)) (N.testbit (u_sp u) 1) Hrg Hps) as [H1 H2].
  pose proof (txbs_next_le (u_bs u) (txsh_data (u_sh u)) Hbs) as H3.
  assert (Hsp2 : u_sp u / 2 < 256) by (apply N.div_lt_upper_bound; lia).
  unfold txu_next, txu_wf.
  destruct (u_fsm u); repeat match goal with |- context [if ?b then _ else _] => destruct b end;
    cbn [u_fsm u_sp u_gray u_sh u_bs]; repeat split; try assumption; try lia.
Qed.

Lemma txg_wf_step : forall s i, txg_wf s -> txg_wf (fst (txg_step 8 s i)).
Proof.
  intros [[u c] li] i [Hu Hc]. cbn [fst snd x_u x_io] in *.
  unfold txg_step, tx_step. cbn [fst snd x_u x_io]. split; cbn [fst snd x_u x_io].
  - destruct (nb (bits i 12 1)); [apply txu_next_wf; exact Hu | exact Hu].
  - destruct (nb (bits i 11 1)); [|exact Hc]. unfold txio_next. destruct (nz_out (c_nz c)) as [[? ?] ?].
    cbn [c_ctr]. apply N.mod_lt. discriminate.
Qed.

Lemma txg_wf_init : txg_wf txg_init.
Proof. unfold txg_wf, txu_wf; cbn. repeat split; lia. Qed.

(* ---- component machines ---- *)
Lemma cdr_code_lt : forall q, cdr_code q < 5.
Proof. destruct q; cbn; lia. Qed.
Lemma cdr_of_code_code : forall q, cdr_of_code (cdr_code q) = q.
Proof. destruct q; reflexivity. Qed.
Ltac pk_side2 := first [ assumption | apply bN_lt2 | apply cdr_code_lt | apply nz_code_lt | lia ].
Ltac unpk2 := repeat first [ rewrite pk_div by pk_side2 | rewrite pk_mod by pk_side2 ].

Lemma cdr_dec_enc : forall s, cdr_wf s -> cdr_dec (cdr_enc s) = s.
Proof.
  intros [p0 p1 n0 n1 f ph v s0 s1 dj dk] H. unfold cdr_wf in H. cbn [k_phase] in H.
  unfold cdr_dec, cdr_enc. cbn [k_p0 k_p1 k_n0 k_n1 k_fsm k_phase k_valid k_se0 k_se1 k_dj k_dk].
  unpk2. rewrite cdr_of_code_code, !n2b_bN. reflexivity.
Qed.
Lemma cdr_wf_step : forall s i, cdr_wf s -> cdr_wf (fst (cdr_mstep s i)).
Proof.
  intros s i H. unfold cdr_mstep, cdr_next, cdr_wf. cbn [fst k_phase].
  destruct (cdrst_eqb (k_fsm s) CdT); [lia | apply N.mod_lt; discriminate].
Qed.
Lemma cdr_wf_init : cdr_wf cdr_init.
Proof. unfold cdr_wf; cbn; lia. Qed.

Lemma rxnz_dec_enc : forall s, True -> rxnz_dec (rxnz_enc s) = s.
Proof.
  intros [l d z v] _. unfold rxnz_dec, rxnz_enc, pk. cbn [z_last z_data z_se0 z_valid].
  destruct l, d, z, v; reflexivity.
Qed.

Lemma rxbs_dec_enc : forall s, True -> rxbs_dec (rxbs_enc s) = s.
Proof.
  intros [c d st e] _. unfold rxbs_dec, rxbs_enc, pk. cbn [b_cnt b_data b_stall b_error].
  destruct d, st, e; unfold bN;
    match goal with |- context [?t mod 2] =>
      let E0 := fresh in let E1 := fresh in let E2 := fresh in let E3 := fresh in
      assert (E0 : t mod 2 = t mod 2) by reflexivity end.
  all: match goal with |- {| b_cnt := ?t / 8; b_data := n2b (?t mod 2); b_stall := n2b ((?t / 2) mod 2); b_error := n2b ((?t / 4) mod 2) |} = _ =>
      let a := fresh in let b := fresh in let c' := fresh in let d' := fresh in
      assert (a : t / 8 = c) by lia;
      first [assert (b : t mod 2 = 0) by lia | assert (b : t mod 2 = 1) by lia];
      first [assert (c' : (t / 2) mod 2 = 0) by lia | assert (c' : (t / 2) mod 2 = 1) by lia];
      first [assert (d' : (t / 4) mod 2 = 0) by lia | assert (d' : (t / 4) mod 2 = 1) by lia];
      rewrite a, b, c', d' end; reflexivity.
Qed.

Lemma rxsh_dec_enc : forall s, True -> rxsh_dec (rxsh_enc s) = s.
Proof.
  intros [r p] _. unfold rxsh_dec, rxsh_enc. cbn [r_reg r_put].
  rewrite pk_mod, pk_div by apply bN_lt2. rewrite n2b_bN. reflexivity.
Qed.

Lemma txsh_dec_enc : forall W s, txsh_wf W s -> txsh_dec W (txsh_enc W s) = s.
Proof.
  intros W [r p g] H. unfold txsh_wf in H. cbn [sh_reg] in H. unfold txsh_dec, txsh_enc. cbn [sh_reg sh_pos sh_get].
  rewrite (pk_mod 2), (pk_div 2) by apply bN_lt2. rewrite pk_mod, pk_div by exact H. rewrite n2b_bN. reflexivity.
Qed.
Lemma txsh_wf_step : forall W s i, txsh_wf W s -> txsh_wf W (fst (txsh_mstep W s i)).
Proof.
  intros W [r p g] i H. unfold txsh_wf in *. cbn [sh_reg] in H. unfold txsh_mstep, txsh_next. cbn [fst sh_reg sh_pos sh_get].
  assert (P : 0 < 2 ^ W) by (apply N.neq_0_lt_0, N.pow_nonzero; discriminate).
  assert (bits i 0 W mod 2 ^ W < 2 ^ W) by (apply N.mod_lt; lia).
  assert (r / 2 <= r) by (apply N.div_le_upper_bound; lia).
  destruct (nb (bits i (W + 1) 1)); [exact P|].
  destruct (nb (bits i W 1)); [|exact H].
  destruct (txsh_empty _); lia.
Qed.
Lemma txsh_wf_init : forall W, txsh_wf W txsh_init.
Proof. intro W. unfold txsh_wf. cbn. apply N.neq_0_lt_0, N.pow_nonzero; discriminate. Qed.

Lemma txbs_dec_enc : forall s, True -> txbs_dec (txbs_enc s) = s.
Proof.
  intros [c d] _. unfold txbs_dec, txbs_enc. cbn [fst snd].
  rewrite pk_mod, pk_div by apply bN_lt2. rewrite n2b_bN. reflexivity.
Qed.

Lemma txnz_dec_enc : forall s, True -> txnz_dec (txnz_enc s) = s.
Proof.
  intros [q [[p n] oe]] _. unfold txnz_dec, txnz_enc, pk. cbn [fst snd].
  destruct q, p, n, oe; reflexivity.
Qed.

(* ---- facts used by the per-run corollaries ---- *)
From LunaLib Require Import Machine.

(* the ghost input copy does not influence the transmit machine *)
Lemma run_txg : forall tr s g, run (txg_step 8) (s, g) tr = run (tx_step 8) s tr.
Proof.
  induction tr as [|i tr IH]; intros s g; [reflexivity|]. cbn [run]. unfold txg_step at 1. cbn [fst].
  destruct (tx_step 8 s i) as [s' o]. rewrite IH. reflexivity.
Qed.

Definition opmode_ok (i o : N) : bool := match opmode_mon 0 i o with Some (_, ok) => ok | None => true end.

(* the model meets the operating-mode clause in every state, for every input word *)
Lemma tx_step_opmode : forall s i, opmode_ok i (snd (tx_step 8 s i)) = true.
Proof.
  intros s i. unfold opmode_ok, opmode_mon, tx_step. cbn [snd].
  set (data := bits i 0 8). set (v := bits i 8 1). set (mode := bits i 9 2).
  assert (Hv : v = 0 \/ v = 1).
  { subst v. unfold bits. rewrite N.land_ones. change (2 ^ 1) with 2. pose proof (N.mod_lt (N.shiftr i 8) 2 ltac:(discriminate)). lia. }
  assert (Hm : mode = 0 \/ mode = 1 \/ mode = 2 \/ mode = 3).
  { subst mode. unfold bits. rewrite N.land_ones. change (2 ^ 2) with 4. pose proof (N.mod_lt (N.shiftr i 9) 4 ltac:(discriminate)). lia. }
  assert (Hd0 : bits i 0 1 = b2n (bit0 data)).
  { assert (E1 : bits i 0 1 = i mod 2) by (unfold bits; rewrite N.shiftr_0_r, N.land_ones; reflexivity).
    assert (E2 : bit0 data = N.testbit i 0).
    { subst data. unfold bit0, bits. rewrite N.shiftr_0_r, N.land_ones, <- N.bit0_odd. apply N.mod_pow2_bits_low. lia. }
    rewrite E1, E2, <- N.bit0_mod. destruct (N.testbit i 0); reflexivity. }
  destruct Hm as [-> | [-> | [-> | ->]]]; cbn [N.eqb orb].
  - (* normal *)
    unfold tx_out. set (oe := c_oe (x_io s)).
    assert (E : bits (b2n (c_p (x_io s)) + 2 * b2n (c_n (x_io s)) + 4 * b2n oe + 8 * b2n oe + 16 * b2n (u_ready (x_u s) (true && nb v))) 2 1
              = bits (b2n (c_p (x_io s)) + 2 * b2n (c_n (x_io s)) + 4 * b2n oe + 8 * b2n oe + 16 * b2n (u_ready (x_u s) (true && nb v))) 3 1).
    { destruct (c_p (x_io s)), (c_n (x_io s)), oe, (u_ready (x_u s) (true && nb v)); reflexivity. }
    cbn [Pos.eqb]. rewrite E, N.eqb_refl. reflexivity.
  - reflexivity.
  - (* bit-stuffing and NRZI disabled *)
    rewrite Hd0. destruct Hv as [Ev | Ev]; rewrite Ev; unfold nb; cbn [N.eqb negb]; destruct (bit0 data); reflexivity.
  - reflexivity.
Qed.

Lemma run_opmode : forall tr s, Forall2 (fun i o => opmode_ok i o = true) tr (run (tx_step 8) s tr).
Proof.
  induction tr as [|i tr IH]; intro s; [constructor|]. cbn [run].
  pose proof (tx_step_opmode s i) as H. destruct (tx_step 8 s i) as [s' o]. constructor; [exact H | apply IH].
Qed.
