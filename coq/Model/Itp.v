(* C47 -- hand model of luna/gateware/usb/usb3/protocol/timestamp.py: TimestampPacketReceiver,
   parametric in the declared widths wb / wd of its two output registers (the property needs
   wb >= 14 and wd >= 13; the width is a parameter because a too-narrow declaration is exactly
   the defect this property is about).

   Input word  (one per "ss" clock cycle):  bit 0 = header_sink.valid, bits 1..32 = header.dw0.
   Output word: bit 0 = header_sink.ready, bit 1 = update_received,
                bits 2..17  = bus_interval_counter (zero-extended to 16 bits),
                bits 18..33 = delta               (zero-extended to 16 bits).               *)
From Coq Require Import NArith List Bool.
Import ListNotations.
From LunaLib Require Import Netlist Machine.
Open Scope N_scope.

(* ---- the header fields an Isochronous Timestamp Packet carries in DW0 (USB 3.2 section 8.7) ---- *)
Definition ITP_TYPE : N := 12.                          (* HeaderPacketType.ISOCHRONOUS_TIMESTAMP *)
Definition in_valid (i : N) : bool := N.odd i.
Definition in_dw0 (i : N) : N := bits i 1 32.
Definition is_itp (i : N) : bool := in_valid i && (bits (in_dw0 i) 0 5 =? ITP_TYPE).
Definition f_counter (i : N) : N := bits (in_dw0 i) 5 14.    (* dw0[5:19]  bus interval counter *)
Definition f_delta (i : N) : N := bits (in_dw0 i) 19 13.     (* dw0[19:32] delta                *)

Definition pack_out (ready update : bool) (counter delta : N) : N :=
  b2n ready + 2 * b2n update + 4 * counter + 262144 * delta.     (* 262144 = 2^18 *)
Definition o_ready (o : N) : bool := N.odd o.
Definition o_update (o : N) : bool := N.odd (o / 2).
Definition o_counter (o : N) : N := (o / 4) mod 65536.
Definition o_delta (o : N) : N := o / 262144.

(* ---- the code-shaped machine ---- *)
Record itp_state := { upd : bool; bic : N; dlt : N }.
Definition itp_init : itp_state := {| upd := false; bic := 0; dlt := 0 |}.

Section Itp.
  Variables wb wd : N.      (* declared widths of bus_interval_counter / delta *)

  Definition itp_next (st : itp_state) (i : N) : itp_state :=
    if is_itp i
    then {| upd := true; bic := trunc wb (f_counter i); dlt := trunc wd (f_delta i) |}
    else {| upd := false; bic := bic st; dlt := dlt st |}.

  Definition itp_out (st : itp_state) (i : N) : N :=
    pack_out (is_itp i) (upd st) (bic st) (dlt st).

  Definition itp_step (st : itp_state) (i : N) : itp_state * N := (itp_next st i, itp_out st i).
End Itp.

(* ---- specification, without any machine state: what is reported in a cycle is a function of
   the words seen in earlier cycles (hist = earlier input words, most recent first).
     ready   : the word offered now is a timestamp packet (it is consumed at this clock edge);
     update  : the word of the previous cycle was a timestamp packet;
     counter : the full 14-bit field of the most recent timestamp packet (0 before the first);
     delta   : the full 13-bit field of the most recent timestamp packet (0 before the first). *)
Definition spec_out (hist : list N) (i : N) : N :=
  pack_out (is_itp i)
           (match hist with j :: _ => is_itp j | [] => false end)
           (match find is_itp hist with Some j => f_counter j | None => 0 end)
           (match find is_itp hist with Some j => f_delta j | None => 0 end).

Fixpoint spec_trace (hist : list N) (ins : list N) : list N :=
  match ins with
  | [] => []
  | i :: t => spec_out hist i :: spec_trace (i :: hist) t
  end.

(* ---- packing of the model state, for the certified-reachability tie ---- *)
Definition itp_enc (st : itp_state) : N := b2n (upd st) + 2 * bic st + 32768 * dlt st.   (* 2^15 *)
Definition itp_dec (m : N) : itp_state :=
  {| upd := N.odd m; bic := (m / 2) mod 16384; dlt := m / 32768 |}.
Definition itp_wf (st : itp_state) : Prop := bic st < 16384.

(* ---- representative input words for the tie (see props/C47.py): every packet type the protocol
   layer routes plus two near-misses of the ITP type code, valid and not valid, and for the two
   fields: all-zero, all-one, both alternating patterns and a walking one through all 27 bits. *)
Definition mk_in (valid : bool) (ty counter delta : N) : N :=
  b2n valid + 2 * (ty + 32 * counter + 524288 * delta).             (* 524288 = 2^19 *)
Definition walking (n : nat) : list N := map (fun k => N.shiftl 1 (N.of_nat k)) (seq 0 n).
Definition itp_fields : list (N * N) :=
  [(0, 0); (16383, 8191); (10922, 2730); (5461, 5461); (16383, 0); (0, 8191)]
  ++ map (fun c => (c, 0)) (walking 14) ++ map (fun d => (0, d)) (walking 13).
Definition itp_types : list N := [12; 4; 8; 0; 13; 28].
Definition itp_alpha : list N :=
  flat_map (fun v => flat_map (fun ty => map (fun cd => mk_in v ty (fst cd) (snd cd)) itp_fields)
                              itp_types) [true; false].
