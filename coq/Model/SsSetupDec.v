(* C48 (part 1) -- hand model and specification of
     luna/gateware/usb/usb3/application/request.py : SuperSpeedSetupDecoder.

   One cycle's packed input word :  sink.valid(4) first(1) last(1) data(32) header_in.setup(1) rx_good(1) rx_bad(1)
   One cycle's packed output word:  packet = recipient(5) type(2) is_in_request(1) request(8) value(16) index(16)
                                    length(16)  [= the eight setup bytes, little endian]  then received(1).

   The model has a switch `fixed`:
     sd_step false  is the code as it stands in /repo (three-state FSM);
     sd_step true   is the property-satisfying behaviour (candidate patches findings/C48-short-setup-packet.diff
                    and findings/C48-abort-on-first-word.diff): a first word that is also the last word, or that
                    comes with rx_bad (packet aborted in that very cycle), does not start a setup parse; a partial
                    or non-last second word abandons the parse, and so does rx_good or rx_bad while the second
                    word is awaited or delivered.
   The code as it stands waits in PARSE_SECOND across packet boundaries when a good setup-flagged packet of
   4..7 bytes arrives: it then glues the first word of a LATER packet onto the stale first word (reporting a
   setup packet nobody sent) or drops a genuine setup packet. *)
From Coq Require Import NArith List Bool.
Import ListNotations.
From LunaLib Require Import Netlist Machine.
Open Scope N_scope.

(* ---- reading one cycle's input word ---- *)
Definition sd_v (i : N) : N := bits i 0 4.
Definition sd_first (i : N) : bool := N.odd (bits i 4 1).
Definition sd_last (i : N) : bool := N.odd (bits i 5 1).
Definition sd_data (i : N) : N := bits i 6 32.
Definition sd_setup (i : N) : bool := N.odd (bits i 38 1).
Definition sd_good (i : N) : bool := N.odd (bits i 39 1).
Definition sd_bad (i : N) : bool := N.odd (bits i 40 1).
Definition sd_full (i : N) : bool := sd_v i =? 15.          (* sink.valid.all() *)
Definition sd_word (i : N) : bool := negb (sd_v i =? 0).    (* sink.valid.any(): a word is delivered *)

Definition sd_pack_out (out : N) (rcv : bool) : N := out + N.shiftl (b2n rcv) 64.

(* =====================  MODEL (code-shaped)  ===================== *)
Inductive sd_fsm := WaitFirst | ParseSecond | WaitValid.
Record sd_st := { d_fsm : sd_fsm; d_w0 : N; d_w1 : N;    (* local `packet` capture: two 32-bit words *)
                  d_out : N; d_rcv : bool }.             (* self.packet (64 bits) and its received strobe *)

Definition sd_init : sd_st := {| d_fsm := WaitFirst; d_w0 := 0; d_w1 := 0; d_out := 0; d_rcv := false |}.

Section Decoder.
  Variable fixed : bool.

  Definition sd_next (st : sd_st) (i : N) : sd_st :=
    match d_fsm st with
    | WaitFirst =>
        if sd_full i && sd_first i && sd_setup i && (if fixed then negb (sd_last i) && negb (sd_bad i) else true)
        then {| d_fsm := ParseSecond; d_w0 := sd_data i; d_w1 := d_w1 st; d_out := d_out st; d_rcv := false |}
        else {| d_fsm := WaitFirst; d_w0 := d_w0 st; d_w1 := d_w1 st; d_out := d_out st; d_rcv := false |}
    | ParseSecond =>
        let looks := if fixed then sd_word i else sd_full i in
        let take := looks && sd_full i && sd_last i in
        let nxt := if looks then (if take then WaitValid else WaitFirst) else ParseSecond in
        let nxt := if sd_bad i || (fixed && sd_good i) then WaitFirst else nxt in
        {| d_fsm := nxt; d_w0 := d_w0 st; d_w1 := if take then sd_data i else d_w1 st;
           d_out := d_out st; d_rcv := false |}
    | WaitValid =>
        if sd_good i
        then {| d_fsm := WaitFirst; d_w0 := d_w0 st; d_w1 := d_w1 st;
                d_out := d_w0 st + 2 ^ 32 * d_w1 st; d_rcv := true |}
        else {| d_fsm := if sd_bad i then WaitFirst else WaitValid; d_w0 := d_w0 st; d_w1 := d_w1 st;
                d_out := d_out st; d_rcv := false |}
    end.

  Definition sd_step (st : sd_st) (i : N) : sd_st * N := (sd_next st i, sd_pack_out (d_out st) (d_rcv st)).
End Decoder.

(* =====================  SPECIFICATION  =====================
   A machine that merely accumulates the words of the packet being delivered -- (data, valid mask) pairs, the
   header's setup flag sampled with the first word -- and decides, when the packet is reported good, with a
   declarative predicate on the complete word list. *)
Definition is_setup_packet (flag : bool) (ws : list (N * N)) : option N :=
  match ws with
  | [(d0, v0); (d1, v1)] => if flag && (v0 =? 15) && (v1 =? 15) then Some (d0 + 2 ^ 32 * d1) else None
  | _ => None
  end.

Record ssd_st := { s_cur : option (bool * list (N * N)); s_out : N; s_rcv : bool }.
Definition ssd_init : ssd_st := {| s_cur := None; s_out := 0; s_rcv := false |}.

Definition ssd_next (s : ssd_st) (i : N) : ssd_st :=
  let cur1 :=
    if sd_word i then
      if sd_first i then Some (sd_setup i, [(sd_data i, sd_v i)])
      else match s_cur s with Some (f, ws) => Some (f, ws ++ [(sd_data i, sd_v i)]) | None => None end
    else s_cur s in
  if sd_good i then
    match cur1 with
    | Some (f, ws) =>
        match is_setup_packet f ws with
        | Some p => {| s_cur := None; s_out := p; s_rcv := true |}
        | None => {| s_cur := None; s_out := s_out s; s_rcv := false |}
        end
    | None => {| s_cur := None; s_out := s_out s; s_rcv := false |}
    end
  else if sd_bad i then {| s_cur := None; s_out := s_out s; s_rcv := false |}
  else {| s_cur := cur1; s_out := s_out s; s_rcv := false |}.

Definition ssd_step (s : ssd_st) (i : N) : ssd_st * N := (ssd_next s i, sd_pack_out (s_out s) (s_rcv s)).

(* ---- environment: data packets as the link layer's DataPacketReceiver delivers them.
   Between packets (E0) a packet may start (first word: `first`, full unless it is also the last) or a verdict
   may arrive for a packet without payload; inside a packet (EIn) words continue (no `first`; full unless last)
   or the packet is aborted by rx_bad; after the last word (EAwait) nothing but the verdict arrives.
   rx_good never shares a cycle with a word and never coincides with rx_bad.  rx_bad MAY share a cycle with a
   word of the packet (the receiver aborts a packet on a K-symbol in the payload by strobing packet_bad in the
   very cycle it presents that word -- first, middle or last): the packet ends there, aborted. *)
Inductive sd_est := E0 | EIn | EAwait.
Definition sd_env_core (e : sd_est) (i : N) : option sd_est :=
  let w := sd_word i in let strobe := sd_good i || sd_bad i in
  match e with
  | E0 => if w then (if sd_first i then (if sd_last i then Some EAwait else if sd_full i then Some EIn else None)
                     else None)
          else Some E0
  | EIn => if w then (if sd_first i then None
                      else if sd_last i then Some EAwait else if sd_full i then Some EIn else None)
           else if sd_good i then None else if sd_bad i then Some E0 else Some EIn
  | EAwait => if w then None else if strobe then Some E0 else Some EAwait
  end.
(* without a verdict in the cycle of a word *)
Definition sd_env_plain (e : sd_est) (i : N) : option sd_est :=
  if (sd_word i && (sd_good i || sd_bad i)) || (sd_good i && sd_bad i) then None else sd_env_core e i.
Definition sd_env_next (e : sd_est) (i : N) : option sd_est :=
  if (sd_word i && sd_good i) || (sd_good i && sd_bad i) then None
  else if sd_word i && sd_bad i
       then match sd_env_core e i with Some _ => Some E0 | None => None end     (* a legal word, and the abort *)
       else sd_env_core e i.
Fixpoint sd_env_ok (e : sd_est) (tr : list N) : bool :=
  match tr with
  | [] => true
  | i :: t => match sd_env_next e i with Some e' => sd_env_ok e' t | None => false end
  end.

(* ---- packing for the lock-step obligation ---- *)
Definition sd_enc (st : sd_st) : N :=
  (match d_fsm st with WaitFirst => 0 | ParseSecond => 1 | WaitValid => 2 end)
  + 4 * (b2n (d_rcv st) + 2 * (d_w0 st + 2 ^ 32 * (d_w1 st + 2 ^ 32 * d_out st))).
Definition sd_dec (m : N) : sd_st :=
  let a := N.shiftr m 2 in let b := N.shiftr a 1 in let c := N.shiftr b 32 in
  {| d_fsm := match N.land m 3 with 0 => WaitFirst | 1 => ParseSecond | _ => WaitValid end;
     d_rcv := N.odd a; d_w0 := N.land b (N.ones 32); d_w1 := N.land c (N.ones 32); d_out := N.shiftr c 32 |}.
Definition sd_wf (st : sd_st) : Prop := d_w0 st < 2 ^ 32 /\ d_w1 st < 2 ^ 32.

(* the model paired with the environment tracker, so that the lock-step obligation can be restricted to
   environment-respecting histories (its counterexamples are then violations of the property itself) *)
Definition sd_est_code (e : sd_est) : N := match e with E0 => 0 | EIn => 1 | EAwait => 2 end.
Definition sd_est_of (n : N) : sd_est := match n with 0 => E0 | 1 => EIn | _ => EAwait end.
Definition sde_st := (sd_st * sd_est)%type.
Definition sde_step (fixed : bool) (s : sde_st) (i : N) : sde_st * N :=
  ((sd_next fixed (fst s) i, match sd_env_next (snd s) i with Some e' => e' | None => snd s end),
   sd_pack_out (d_out (fst s)) (d_rcv (fst s))).
Definition sde_env (s : sde_st) (i : N) : bool :=
  match sd_env_next (snd s) i with Some _ => true | None => false end.
Definition sde_enc (s : sde_st) : N := sd_est_code (snd s) + 4 * sd_enc (fst s).
Definition sde_dec (m : N) : sde_st := (sd_dec (N.shiftr m 2), sd_est_of (N.land m 3)).
Definition sde_wf (s : sde_st) : Prop := sd_wf (fst s).

(* input alphabet for the lock-step obligation: every combination of the control bits and valid masks
   {0000, 0011, 1111} with each of the given data words *)
Definition sd_in (v : N) (first last : bool) (data : N) (setup good bad : bool) : N :=
  v + N.shiftl (b2n first) 4 + N.shiftl (b2n last) 5 + N.shiftl data 6 + N.shiftl (b2n setup) 38
  + N.shiftl (b2n good) 39 + N.shiftl (b2n bad) 40.
Definition sd_alphabet (datas : list N) (vs : list N) : list N :=
  flat_map (fun d => flat_map (fun v => flat_map (fun c =>
    [sd_in v (N.testbit c 0) (N.testbit c 1) d (N.testbit c 2) (N.testbit c 3) (N.testbit c 4)])
    (range_bits 5)) vs) datas.

(* ---- the specification as a monitor over simulator traces (runtime oracle).  The specification state is
   packed with the word list cut after three words (longer packets are all alike: not a setup packet). *)
Definition sd_word_enc (w : N * N) : N := fst w + 2 ^ 32 * snd w.           (* 36 bits *)
Definition sd_word_dec (n : N) : N * N := (n mod 2 ^ 32, n / 2 ^ 32).
Definition sd_mon_enc (e : sd_est) (s : ssd_st) : N :=
  let '(some, f, ws) := match s_cur s with Some (f, ws) => (true, f, firstn 3 ws) | None => (false, false, []) end in
  sd_est_code e + 4 * (b2n some + 2 * (b2n f + 2 * (N.of_nat (length ws) + 4 * (
    sd_word_enc (nth 0 ws (0, 0)) + 2 ^ 36 * (sd_word_enc (nth 1 ws (0, 0)) + 2 ^ 36 * (sd_word_enc (nth 2 ws (0, 0))
    + 2 ^ 36 * (b2n (s_rcv s) + 2 * s_out s))))))).
Definition sd_mon_dec (m : N) : sd_est * ssd_st :=
  let a := m / 4 in let b := a / 2 in let c := b / 2 in let d := c / 4 in
  let d1 := d / 2 ^ 36 in let d2 := d1 / 2 ^ 36 in let d3 := d2 / 2 ^ 36 in
  let ws := firstn (N.to_nat (c mod 4)) [sd_word_dec (d mod 2 ^ 36); sd_word_dec (d1 mod 2 ^ 36); sd_word_dec (d2 mod 2 ^ 36)] in
  (sd_est_of (m mod 4),
   {| s_cur := if N.odd (a mod 2) then Some (N.odd (b mod 2), ws) else None;
      s_rcv := N.odd (d3 mod 2); s_out := d3 / 2 |}).
Definition sd_mon (m i o : N) : option (N * bool) :=
  let (e, s) := sd_mon_dec m in
  match sd_env_next e i with
  | None => None
  | Some e' => let (s', o') := ssd_step s i in Some (sd_mon_enc e' s', N.eqb o o')
  end.

(* ---- composed scenario: the real DataPacketReceiver feeding the decoder.  The target's output word carries the
   decoder's input interface as driven by the receiver, followed by the decoder's outputs:
     source.valid(4) first(1) last(1) data(32) header.setup(1) packet_good(1) packet_bad(1) | packet(64) received(1)
   so the referee "a setup request is reported iff a good setup-flagged 8-byte data packet was received, with exactly
   its bytes" is the same specification, read off the interface the real receiver drives.  Unlike sd_mon, a cycle in
   which the receiver leaves the environment sd_env_next is a FAILURE here: the composition also validates the
   environment assumption against the real upstream module. *)
Definition sdc_mon (m i o : N) : option (N * bool) :=
  let ii := bits o 0 41 in let oo := N.shiftr o 41 in
  let (e, s) := sd_mon_dec m in
  match sd_env_next e ii with
  | None => Some (m, false)
  | Some e' => let (s', o') := ssd_step s ii in Some (sd_mon_enc e' s', N.eqb oo o')
  end.
