(* C09 -- layout lemmas about the ROM image rom_of (Model/DescRom.v): walking the image the way
   GetDescriptorHandlerBlock does (type table -> index table -> data bytes) finds, for every well-formed
   collection, exactly the descriptor find_desc names, and reports "absent" for every other (type, index). *)
From Coq Require Import NArith ZArith Arith List Bool Lia ZifyBool ZifyN.
Import ListNotations.
From LunaLib Require Import Netlist Bits Machine.
From LunaModel Require Import DescSpec DescSpec_proofs DescRom.
Open Scope N_scope.
Ltac Zify.zify_post_hook ::= Z.div_mod_to_equations.

(* ---------------------------------------------------------------------------------------------------------- *)
(* bit-vector helpers *)
Lemma bits_spec : forall x lo w, bits x lo w = (x / 2 ^ lo) mod 2 ^ w.
Proof. intros. unfold bits. rewrite N.land_ones, N.shiftr_div_pow2. reflexivity. Qed.

Lemma trunc_spec : forall w x, trunc w x = x mod 2 ^ w.
Proof. intros. unfold trunc. apply N.land_ones. Qed.

Lemma pow2_pos : forall w, 0 < 2 ^ w.
Proof. intros. apply N.neq_0_lt_0, N.pow_nonzero. discriminate. Qed.

Lemma trunc_small : forall w x, x < 2 ^ w -> trunc w x = x.
Proof. intros. rewrite trunc_spec. apply N.mod_small. assumption. Qed.

Lemma trunc_lt : forall w x, trunc w x < 2 ^ w.
Proof. intros. rewrite trunc_spec. apply N.mod_lt. pose proof (pow2_pos w). lia. Qed.

Lemma bits_lt : forall x lo w, bits x lo w < 2 ^ w.
Proof. intros. rewrite bits_spec. apply N.mod_lt. pose proof (pow2_pos w). lia. Qed.

Lemma e_hi_entry : forall hi lo, hi < 65536 -> lo < 65536 -> e_hi (entry hi lo) = hi.
Proof.
  intros hi lo Hh Hl. unfold e_hi, entry. rewrite bits_spec.
  change (2 ^ 16) with 65536. lia.
Qed.

Lemma e_lo_entry : forall hi lo, lo < 65536 -> e_lo (entry hi lo) = lo.
Proof.
  intros hi lo Hl. unfold e_lo, entry. rewrite bits_spec.
  change (2 ^ 0) with 1. change (2 ^ 16) with 65536. lia.
Qed.

(* the word pointer the gateware extracts: data.bit_select(2, aw) of an entry whose low half is 4*a *)
Lemma ptr_entry : forall hi a aw, a < 2 ^ aw -> aw <= 14 -> bits (entry hi (4 * a)) 2 aw = a.
Proof.
  intros hi a aw Ha Haw. unfold entry. rewrite bits_spec. change (2 ^ 2) with 4.
  replace ((hi * 65536 + 4 * a) / 4) with (hi * 16384 + a) by lia.
  assert (E : 16384 = 2 ^ (14 - aw) * 2 ^ aw).
  { rewrite <- N.pow_add_r. replace (14 - aw + aw) with 14 by lia. reflexivity. }
  rewrite E. rewrite N.mul_assoc, N.add_comm, N.mod_add by (pose proof (pow2_pos aw); lia).
  apply N.mod_small. exact Ha.
Qed.

Lemma byte_lane_be32 : forall b0 b1 b2 b3, b0 < 256 -> b1 < 256 -> b2 < 256 -> b3 < 256 ->
  byte_lane (be32 b0 b1 b2 b3) 0 = b0 /\ byte_lane (be32 b0 b1 b2 b3) 1 = b1 /\
  byte_lane (be32 b0 b1 b2 b3) 2 = b2 /\ byte_lane (be32 b0 b1 b2 b3) 3 = b3.
Proof.
  intros. unfold byte_lane, be32. rewrite !bits_spec.
  change (2 ^ (8 * (3 - 0))) with 16777216. change (2 ^ (8 * (3 - 1))) with 65536.
  change (2 ^ (8 * (3 - 2))) with 256. change (2 ^ (8 * (3 - 3))) with 1. change (2 ^ 8) with 256.
  repeat split; lia.
Qed.

(* ---------------------------------------------------------------------------------------------------------- *)
(* association lists with increasing keys *)
Lemma assoc_app : forall (A : Type) k (a b : list (N * A)),
  assoc k (a ++ b) = match assoc k a with Some v => Some v | None => assoc k b end.
Proof.
  induction a as [|[k' v] a IH]; intros b; [reflexivity|].
  cbn [app assoc]. destruct (k' =? k); [reflexivity | apply IH].
Qed.

Lemma increasing_weaken : forall (A : Type) (l : list (N * A)) lo lo', lo' <= lo -> increasing lo l = true -> increasing lo' l = true.
Proof.
  intros A [|[k v] r] lo lo' H; cbn [increasing]; [reflexivity|]. intro E.
  apply andb_true_iff in E as [E1 E2]. rewrite E2, andb_true_r. lia.
Qed.

Lemma increasing_assoc_below : forall (A : Type) (l : list (N * A)) lo k, increasing lo l = true -> k < lo -> assoc k l = None.
Proof.
  induction l as [|[k' v] r IH]; intros lo k H Hk; [reflexivity|].
  cbn [increasing] in H. apply andb_true_iff in H as [H1 H2]. cbn [assoc].
  destruct (N.eqb_spec k' k); [lia|]. apply (IH (k' + 1)); [exact H2 | lia].
Qed.

Lemma increasing_keys_ge : forall (A : Type) (l : list (N * A)) lo, increasing lo l = true -> Forall (fun p => lo <= fst p) l.
Proof.
  induction l as [|[k v] r IH]; intros lo H; [constructor|].
  cbn [increasing] in H. apply andb_true_iff in H as [H1 H2]. constructor; [cbn; lia|].
  eapply Forall_impl; [|apply (IH (k + 1) H2)]. cbn. intros; lia.
Qed.

Lemma max_key_ge : forall (A : Type) (l : list (N * A)), Forall (fun p => fst p <= max_key l) l.
Proof.
  induction l as [|[k v] r IH]; [constructor|]. unfold max_key in *. cbn [fold_right fst].
  constructor; [cbn; lia|]. eapply Forall_impl; [|exact IH]. cbn. intros; lia.
Qed.

(* ---------------------------------------------------------------------------------------------------------- *)
(* lists: nth through map / seq / number_from *)
Lemma nth_nseq : forall n i, (i < n)%nat -> nth i (nseq n) 0 = N.of_nat i.
Proof.
  intros n i H. unfold nseq. rewrite (nth_indep _ 0 (N.of_nat 0)) by (rewrite map_length, seq_length; exact H).
  rewrite map_nth, seq_nth by exact H. reflexivity.
Qed.

Lemma nth_map_in : forall (A B : Type) (f : A -> B) l i da db, (i < length l)%nat -> nth i (map f l) db = f (nth i l da).
Proof.
  intros A B f l i da db H. rewrite (nth_indep _ db (f da)) by (rewrite map_length; exact H). apply map_nth.
Qed.

(* ---------------------------------------------------------------------------------------------------------- *)
(* words_of_bytes *)
Lemma words_length_bound : forall n d, (length d <= n)%nat -> nlen (words_of_bytes d) = (nlen d + 3) / 4.
Proof.
  induction n as [|n IH]; intros d H.
  - destruct d; [reflexivity | cbn in H; lia].
  - destruct d as [|b0 [|b1 [|b2 [|b3 rest]]]]; try reflexivity.
    cbn [words_of_bytes]. unfold nlen in *. cbn [length].
    assert (Hr : (length rest <= n)%nat) by (cbn [length] in H; lia).
    specialize (IH rest Hr). lia.
Qed.

Lemma words_length : forall d, nlen (words_of_bytes d) = (nlen d + 3) / 4.
Proof. intros d. apply (words_length_bound (length d)). lia. Qed.

Lemma padded_words : forall d, padded d = 4 * nlen (words_of_bytes d).
Proof. intros. unfold padded. rewrite words_length. reflexivity. Qed.

Definition bytes_ok (d : desc) : Prop := Forall (fun b => b < 256) d.

Lemma words_byte_bound : forall n d k, (length d <= n)%nat -> bytes_ok d -> (k < length d)%nat ->
  byte_lane (nth (k / 4) (words_of_bytes d) 0) (N.of_nat (k mod 4)) = nth k d 0.
Proof.
  induction n as [|n IH]; intros d k H Hb Hk; [lia|].
  destruct d as [|b0 [|b1 [|b2 [|b3 rest]]]]; cbn [length] in *; try lia.
  - (* one byte *)
    assert (k = 0)%nat by lia. subst k. inversion Hb as [|? ? H0 _]; subst.
    cbn [words_of_bytes Nat.div Nat.modulo nth]. change (0 / 4)%nat with 0%nat. change (0 mod 4)%nat with 0%nat.
    cbn [nth N.of_nat]. apply (byte_lane_be32 b0 0 0 0); lia.
  - inversion Hb as [|? ? H0 Hb1]; subst. inversion Hb1 as [|? ? H1 _]; subst.
    pose proof (byte_lane_be32 b0 b1 0 0 H0 H1 ltac:(lia) ltac:(lia)) as (E0 & E1 & _).
    cbn [words_of_bytes].
    destruct k as [|[|k]]; [exact E0 | exact E1 | lia].
  - inversion Hb as [|? ? H0 Hb1]; subst. inversion Hb1 as [|? ? H1 Hb2]; subst. inversion Hb2 as [|? ? H2 _]; subst.
    pose proof (byte_lane_be32 b0 b1 b2 0 H0 H1 H2 ltac:(lia)) as (E0 & E1 & E2 & _).
    cbn [words_of_bytes].
    destruct k as [|[|[|k]]]; [exact E0 | exact E1 | exact E2 | lia].
  - inversion Hb as [|? ? H0 Hb1]; subst. inversion Hb1 as [|? ? H1 Hb2]; subst.
    inversion Hb2 as [|? ? H2 Hb3]; subst. inversion Hb3 as [|? ? H3 Hb4]; subst.
    pose proof (byte_lane_be32 b0 b1 b2 b3 H0 H1 H2 H3) as (E0 & E1 & E2 & E3).
    cbn [words_of_bytes].
    destruct k as [|[|[|[|k]]]]; [exact E0 | exact E1 | exact E2 | exact E3 |].
    replace (S (S (S (S k))) / 4)%nat with (S (k / 4)) by (apply (Nat.div_unique _ 4 _ (k mod 4)); [apply Nat.mod_upper_bound; lia | pose proof (Nat.div_mod k 4); lia]).
    replace (S (S (S (S k))) mod 4)%nat with (k mod 4)%nat
      by (apply (Nat.mod_unique _ 4 (S (k / 4))); [apply Nat.mod_upper_bound; lia | pose proof (Nat.div_mod k 4); lia]).
    cbn [nth]. apply IH; [lia | exact Hb4 | lia].
Qed.

Lemma words_byte : forall d k, bytes_ok d -> (k < length d)%nat ->
  byte_lane (nth (k / 4) (words_of_bytes d) 0) (N.of_nat (k mod 4)) = nth k d 0.
Proof. intros d k. apply (words_byte_bound (length d)). lia. Qed.

(* ---------------------------------------------------------------------------------------------------------- *)
(* the three regions of the image *)
Definition wsum (ds : list desc) : N := nlen (flat_map words_of_bytes ds).

Lemma wsum_cons : forall d r, wsum (d :: r) = nlen (words_of_bytes d) + wsum r.
Proof. intros. unfold wsum. cbn [flat_map]. apply nlen_app. Qed.

Lemma index_entries_length : forall ds a, length (index_entries ds a) = length ds.
Proof. induction ds as [|d r IH]; intros a; [reflexivity|]. cbn [index_entries length]. rewrite IH. reflexivity. Qed.

Lemma index_entries_nth : forall ds w0 g, (g < length ds)%nat ->
  nth g (index_entries ds (4 * w0)) 0 = entry (nlen (nth g ds [])) (4 * (w0 + wsum (firstn g ds))).
Proof.
  induction ds as [|d r IH]; intros w0 g H; [cbn in H; lia|].
  destruct g as [|g].
  - cbn [index_entries nth firstn]. unfold wsum. cbn [flat_map]. change (nlen (@nil N)) with 0. rewrite N.add_0_r. reflexivity.
  - cbn [index_entries nth firstn]. rewrite padded_words, <- N.mul_add_distr_l.
    rewrite IH by (cbn [length] in H; lia). rewrite wsum_cons. f_equal. lia.
Qed.

Lemma data_words_nth : forall ds g j, (g < length ds)%nat -> (j < length (words_of_bytes (nth g ds [])))%nat ->
  nth (N.to_nat (wsum (firstn g ds)) + j) (flat_map words_of_bytes ds) 0 = nth j (words_of_bytes (nth g ds [])) 0.
Proof.
  induction ds as [|d r IH]; intros g j H Hj; [cbn in H; lia|].
  destruct g as [|g].
  - cbn [firstn nth] in *. unfold wsum. cbn [flat_map]. change (N.to_nat (nlen (@nil N))) with 0%nat.
    cbn [Nat.add]. apply app_nth1. exact Hj.
  - cbn [firstn nth] in *. rewrite wsum_cons. cbn [flat_map].
    rewrite app_nth2 by (unfold nlen; lia).
    replace (N.to_nat (nlen (words_of_bytes d) + wsum (firstn g r)) + j - length (words_of_bytes d))%nat
      with (N.to_nat (wsum (firstn g r)) + j)%nat by (unfold nlen; lia).
    apply IH; [cbn [length] in H; lia | exact Hj].
Qed.

Lemma wsum_firstn_le : forall ds g, wsum (firstn g ds) <= wsum ds.
Proof.
  induction ds as [|d r IH]; intros g; [rewrite firstn_nil; lia|].
  destruct g as [|g]; [unfold wsum at 1; cbn; lia|]. cbn [firstn]. rewrite !wsum_cons. specialize (IH g). lia.
Qed.

Lemma wsum_firstn_nth : forall ds g, (g < length ds)%nat ->
  wsum (firstn g ds) + nlen (words_of_bytes (nth g ds [])) <= wsum ds.
Proof.
  induction ds as [|d r IH]; intros g H; [cbn in H; lia|].
  destruct g as [|g].
  - cbn [firstn nth]. rewrite wsum_cons. unfold wsum at 1. cbn. lia.
  - cbn [firstn nth]. rewrite !wsum_cons. specialize (IH g ltac:(cbn [length] in H; lia)). lia.
Qed.

Section Rom.
  Variable c : dcoll.
  Local Notation rom := (rom_of c).
  Local Notation ds := (all_descs c).

  Definition data_word (g : N) : N := ntypes c + nentries c + wsum (firstn (N.to_nat g) ds).

  Lemma type_table_length : length (map (type_entry c) (nseq (N.to_nat (ntypes c)))) = N.to_nat (ntypes c).
  Proof. unfold nseq. rewrite !map_length, seq_length. reflexivity. Qed.

  Lemma rom_len : nlen rom = ntypes c + nentries c + wsum ds.
  Proof.
    unfold rom_of, nlen. rewrite !app_length, type_table_length, index_entries_length.
    unfold nentries, wsum, nlen. lia.
  Qed.

  Lemma rom_type_read : forall t, t < ntypes c -> rom_read rom t = type_entry c t.
  Proof.
    intros t H. unfold rom_read, rom_of. rewrite app_nth1 by (rewrite type_table_length; lia).
    rewrite (nth_map_in _ _ _ _ _ 0) by (unfold nseq; rewrite map_length, seq_length; lia).
    rewrite nth_nseq by lia. f_equal. lia.
  Qed.

  Lemma rom_index_read : forall g, g < nentries c ->
    rom_read rom (ntypes c + g) = entry (nlen (nth (N.to_nat g) ds [])) (4 * data_word g).
  Proof.
    intros g H. unfold rom_read, rom_of. rewrite app_nth2 by (rewrite type_table_length; lia).
    rewrite type_table_length. replace (N.to_nat (ntypes c + g) - N.to_nat (ntypes c))%nat with (N.to_nat g) by lia.
    rewrite app_nth1 by (rewrite index_entries_length; unfold nentries, nlen in H; lia).
    unfold data_base. rewrite index_entries_nth by (unfold nentries, nlen in H; lia). reflexivity.
  Qed.

  Lemma rom_data_read : forall g j, g < nentries c -> j < nlen (words_of_bytes (nth (N.to_nat g) ds [])) ->
    rom_read rom (data_word g + j) = nth (N.to_nat j) (words_of_bytes (nth (N.to_nat g) ds [])) 0.
  Proof.
    intros g j H Hj. unfold rom_read, rom_of, data_word.
    rewrite app_nth2 by (rewrite type_table_length; lia). rewrite type_table_length.
    rewrite app_nth2 by (rewrite index_entries_length; unfold nentries, nlen; lia). rewrite index_entries_length.
    replace (N.to_nat (ntypes c + nentries c + wsum (firstn (N.to_nat g) ds) + j) - N.to_nat (ntypes c) - length ds)%nat
      with (N.to_nat (wsum (firstn (N.to_nat g) ds)) + N.to_nat j)%nat by (unfold nentries, nlen; lia).
    apply data_words_nth; unfold nentries, nlen, desc in *; lia.
  Qed.

  (* byte k of descriptor number g, read the way SEND_DESCRIPTOR does *)
  Lemma rom_desc_byte : forall g k, g < nentries c -> bytes_ok (nth (N.to_nat g) ds []) ->
    k < nlen (nth (N.to_nat g) ds []) ->
    byte_lane (rom_read rom (data_word g + k / 4)) (k mod 4) = nth (N.to_nat k) (nth (N.to_nat g) ds []) 0.
  Proof.
    intros g k H Hb Hk. set (d := nth (N.to_nat g) ds []) in *.
    assert (Hw : k / 4 < nlen (words_of_bytes d)) by (rewrite words_length; lia).
    rewrite rom_data_read by assumption. fold d.
    rewrite <- (words_byte d (N.to_nat k) Hb) by (unfold nlen in Hk; lia).
    f_equal; [f_equal|].
    - rewrite N2Nat.inj_div. reflexivity.
    - rewrite <- (N2Nat.id (k mod 4)). f_equal. rewrite N2Nat.inj_mod. reflexivity.
  Qed.

  Lemma data_word_bound : forall g, g < nentries c ->
    data_word g + nlen (words_of_bytes (nth (N.to_nat g) ds [])) <= nlen rom.
  Proof.
    intros g H. rewrite rom_len. unfold data_word.
    pose proof (wsum_firstn_nth ds (N.to_nat g) ltac:(unfold nentries, nlen in H; lia)). lia.
  Qed.
End Rom.

(* position of a (type, index) pair in the ROM order *)
Lemma all_descs_nth : forall c ty idxs i, assoc ty c = Some idxs -> (i < length idxs)%nat ->
  entries_before ty c + N.of_nat i < nentries c /\
  nth (N.to_nat (entries_before ty c + N.of_nat i)) (all_descs c) [] = snd (nth i idxs (0, [])).
Proof.
  induction c as [|[ty0 idxs0] r IH]; intros ty idxs i H Hi; [discriminate|].
  cbn [assoc entries_before] in *. unfold nentries, all_descs in *. cbn [flat_map fst snd].
  destruct (ty0 =? ty).
  - inversion H; subst idxs0. rewrite N.add_0_l, Nat2N.id. split.
    + unfold nlen. rewrite app_length, map_length. lia.
    + rewrite app_nth1 by (rewrite map_length; exact Hi). apply (nth_map_in _ _ snd).  exact Hi.
  - destruct (IH ty idxs i H Hi) as [H1 H2]. split.
    + unfold nlen in *. rewrite app_length, map_length. lia.
    + rewrite app_nth2 by (rewrite map_length; unfold nlen; lia). rewrite map_length.
      replace (N.to_nat (nlen idxs0 + entries_before ty r + N.of_nat i) - length idxs0)%nat
        with (N.to_nat (entries_before ty r + N.of_nat i)) by (unfold nlen; lia).
      exact H2.
Qed.

(* ---------------------------------------------------------------------------------------------------------- *)
(* which slot of a type's index table the gateware looks at: descr_idx *)
Fixpoint find_pos (ix : N) (idxs : list (N * desc)) (k : N) : option (N * desc) :=
  match idxs with
  | [] => None
  | (ix', d) :: r => if ix' =? ix then Some (k, d) else find_pos ix r (k + 1)
  end.

Lemma find_pos_assoc : forall idxs ix k, assoc ix idxs = option_map snd (find_pos ix idxs k).
Proof.
  induction idxs as [|[ix' d] r IH]; intros ix k; [reflexivity|].
  cbn [assoc find_pos]. destruct (ix' =? ix); [reflexivity | apply IH].
Qed.

Lemma find_pos_nth : forall idxs ix k j d, find_pos ix idxs k = Some (j, d) ->
  k <= j /\ (N.to_nat (j - k) < length idxs)%nat /\ nth (N.to_nat (j - k)) idxs (0, []) = (ix, d).
Proof.
  induction idxs as [|[ix' d'] r IH]; intros ix k j d H; [discriminate|].
  cbn [find_pos] in H. destruct (N.eqb_spec ix' ix).
  - inversion H; subst. rewrite N.sub_diag. cbn. repeat split; lia.
  - destruct (IH _ _ _ _ H) as (H1 & H2 & H3). split; [lia|].
    replace (N.to_nat (j - k)) with (S (N.to_nat (j - (k + 1)))) by lia. cbn [length nth]. split; [lia | exact H3].
Qed.

Definition keys_small (idxs : list (N * desc)) : Prop := Forall (fun e => fst e < 256) idxs.

Lemma assoc_group_same : forall idxs ty ix k, ix < 256 -> keys_small idxs ->
  assoc (ix + 256 * ty) (map (fun p : N * (N * desc) => (fst (snd p) + 256 * ty, fst p)) (number_from k idxs))
  = option_map fst (find_pos ix idxs k).
Proof.
  induction idxs as [|[ix' d] r IH]; intros ty ix k Hix Hk; [reflexivity|].
  inversion Hk as [|? ? H0 Hr]; subst. cbn [fst] in H0.
  cbn [number_from map assoc find_pos fst snd].
  destruct (N.eqb_spec ix' ix) as [->|NE].
  - rewrite N.eqb_refl. reflexivity.
  - destruct (N.eqb_spec (ix' + 256 * ty) (ix + 256 * ty)); [lia|]. apply IH; assumption.
Qed.

Lemma assoc_group_other : forall idxs ty ty' ix k, ty <> ty' -> ix < 256 -> keys_small idxs ->
  assoc (ix + 256 * ty) (map (fun p : N * (N * desc) => (fst (snd p) + 256 * ty', fst p)) (number_from k idxs)) = None.
Proof.
  induction idxs as [|[ix' d] r IH]; intros ty ty' ix k Hne Hix Hk; [reflexivity|].
  inversion Hk as [|? ? H0 Hr]; subst. cbn [fst] in H0.
  cbn [number_from map assoc fst snd].
  destruct (N.eqb_spec (ix' + 256 * ty') (ix + 256 * ty)); [lia|]. apply IH; assumption.
Qed.

Definition groups_small (c : dcoll) : Prop := Forall (fun p => keys_small (snd p)) c.

Lemma imap_none_above : forall c lo ty ix, increasing lo c = true -> ty < lo -> ix < 256 -> groups_small c ->
  assoc (ix + 256 * ty) (flat_map (fun p => group_map (fst p) (snd p)) c) = None.
Proof.
  induction c as [|[ty0 idxs0] r IH]; intros lo ty ix H Hlt Hix Hg; [reflexivity|].
  cbn [increasing] in H. apply andb_true_iff in H as [H1 H2]. inversion Hg as [|? ? Hg0 Hgr]; subst.
  cbn [flat_map fst snd]. rewrite assoc_app. unfold group_map at 1.
  rewrite assoc_group_other by (try assumption; lia). apply (IH (ty0 + 1)); try assumption. lia.
Qed.

Lemma imap_lookup_spec : forall c lo ty ix, increasing lo c = true -> ix < 256 -> groups_small c ->
  assoc (ix + 256 * ty) (flat_map (fun p => group_map (fst p) (snd p)) c) =
  match assoc ty c with Some idxs => option_map fst (find_pos ix idxs 0) | None => None end.
Proof.
  induction c as [|[ty0 idxs0] r IH]; intros lo ty ix H Hix Hg; [reflexivity|].
  cbn [increasing] in H. apply andb_true_iff in H as [H1 H2]. inversion Hg as [|? ? Hg0 Hgr]; subst.
  cbn [flat_map fst snd assoc]. rewrite assoc_app. unfold group_map at 1.
  destruct (N.eqb_spec ty0 ty) as [->|NE].
  - rewrite assoc_group_same by assumption.
    destruct (find_pos ix idxs0 0) as [[j d]|]; [reflexivity|]. cbn [option_map].
    apply (imap_none_above r (ty + 1)); try assumption. lia.
  - rewrite assoc_group_other by (try assumption; congruence). apply (IH (ty0 + 1)); assumption.
Qed.

(* direct addressing: when no type needs the index map, every type's indexes are 0..n-1 in order *)
Lemma consecutive_keys : forall (idxs : list (N * desc)) lo, increasing lo idxs = true -> idxs <> [] ->
  max_key idxs + 1 <= lo + nlen idxs ->
  forall i, (i < length idxs)%nat -> fst (nth i idxs (0, [])) = lo + N.of_nat i.
Proof.
  induction idxs as [|[k d] r IH]; intros lo H Hne Hmax i Hi; [congruence|].
  cbn [increasing] in H. apply andb_true_iff in H as [H1 H2].
  unfold max_key in Hmax. cbn [fold_right fst] in Hmax. fold (max_key r) in Hmax.
  unfold nlen in Hmax. cbn [length] in Hmax.
  destruct r as [|e r'].
  - cbn [length] in Hi. assert (i = 0)%nat by lia. subst i. cbn [nth fst]. unfold max_key in Hmax. cbn in Hmax. lia.
  - assert (Hr : forall i, (i < length (e :: r'))%nat -> fst (nth i (e :: r') (0, [])) = k + 1 + N.of_nat i).
    { apply IH; [exact H2 | discriminate | unfold nlen; lia]. }
    (* the last key of the tail is k + len(tail), and it is at most max_key *)
    pose proof (max_key_ge _ (e :: r')) as Hge. rewrite Forall_forall in Hge.
    set (n := length (e :: r')) in *.
    assert (Hn : (0 < n)%nat) by (subst n; cbn [length]; lia).
    assert (Hin : In (nth (n - 1) (e :: r') (0, [])) (e :: r')) by (apply nth_In; fold n; lia).
    specialize (Hge _ Hin).
    rewrite (Hr (n - 1)%nat ltac:(lia)) in Hge.
    assert (k = lo) by lia. subst k.
    destruct i as [|i]; [cbn [nth fst]; lia|].
    assert (Hi' : (i < n)%nat) by (subst n; cbn [length] in *; lia).
    change (nth (S i) ((lo, d) :: e :: r') (0, [])) with (nth i (e :: r') (0, [])).
    rewrite (Hr i Hi'). lia.
Qed.

Lemma find_pos_consecutive : forall (idxs : list (N * desc)) lo ix k,
  (forall i, (i < length idxs)%nat -> fst (nth i idxs (0, [])) = lo + N.of_nat i) ->
  match find_pos ix idxs k with
  | Some (j, d) => lo <= ix /\ j = k + (ix - lo)
  | None => ix < lo \/ lo + nlen idxs <= ix
  end.
Proof.
  induction idxs as [|[ix' d] r IH]; intros lo ix k H.
  - cbn. unfold nlen. cbn. lia.
  - cbn [find_pos]. pose proof (H 0%nat ltac:(cbn; lia)) as H0. cbn [nth fst] in H0. rewrite N.add_0_r in H0. subst ix'.
    destruct (N.eqb_spec lo ix) as [->|NE]; [split; lia|].
    specialize (IH (lo + 1) ix (k + 1)).
    assert (Hr : forall i, (i < length r)%nat -> fst (nth i r (0, [])) = lo + 1 + N.of_nat i).
    { intros i Hi. specialize (H (S i) ltac:(cbn [length]; lia)). cbn [nth] in H. lia. }
    specialize (IH Hr). destruct (find_pos ix r (k + 1)) as [[j d']|].
    + lia.
    + unfold nlen in *. cbn [length]. lia.
Qed.

(* ---------------------------------------------------------------------------------------------------------- *)
(* well-formed collections *)
Lemma max_type_ge : forall c : dcoll, Forall (fun p => fst p <= max_type c) c.
Proof.
  induction c as [|[k v] r IH]; [constructor|]. unfold max_type in *. cbn [fold_right fst].
  constructor; [cbn; lia|]. eapply Forall_impl; [|exact IH]. cbn. intros; lia.
Qed.

Lemma assoc_in : forall (A : Type) k (l : list (N * A)) v, assoc k l = Some v -> In (k, v) l.
Proof.
  induction l as [|[k' v'] r IH]; intros v H; [discriminate|]. cbn [assoc] in H.
  destruct (N.eqb_spec k' k); [inversion H; subst; left; reflexivity | right; apply IH; exact H].
Qed.

Record coll_facts (c : dcoll) : Prop := {
  cf_inc : increasing 0 c = true;
  cf_maxt : max_type c < 256;
  cf_size : 4 * nlen (rom_of c) < 65536;
  cf_group : forall ty idxs, assoc ty c = Some idxs ->
     increasing 0 idxs = true /\ 1 <= nlen idxs /\ nlen idxs <= 255 /\ keys_small idxs /\
     (forall e, In e idxs -> bytes_ok (snd e)) /\ ty <= max_type c;
  cf_small : groups_small c }.

Lemma coll_ok_facts : forall c, coll_okb c = true -> coll_facts c.
Proof.
  intros c H. unfold coll_okb in H. repeat (apply andb_true_iff in H as [H ?]).
  rename H0 into Hsize, H1 into Hgroups, H2 into Hmaxt, H3 into Hne.
  rewrite forallb_forall in Hgroups.
  assert (Hg : forall p, In p c -> increasing 0 (snd p) = true /\ 1 <= nlen (snd p) /\ nlen (snd p) <= 255 /\
                keys_small (snd p) /\ (forall e, In e (snd p) -> bytes_ok (snd e))).
  { intros p Hp. specialize (Hgroups p Hp). unfold group_okb in Hgroups.
    repeat (apply andb_true_iff in Hgroups as [Hgroups ?]).
    split; [exact Hgroups|]. split; [lia|]. split; [lia|]. split.
    - pose proof (max_key_ge _ (snd p)) as Hm. unfold keys_small. eapply Forall_impl; [|exact Hm]. cbn. intros; lia.
    - intros e He. rewrite forallb_forall in H0. specialize (H0 e He). rewrite forallb_forall in H0.
      unfold bytes_ok. apply Forall_forall. intros b Hb. specialize (H0 b Hb). lia. }
  constructor; try assumption; try lia.
  - intros ty idxs Ha. apply assoc_in in Ha. destruct (Hg _ Ha) as (G1 & G2 & G3 & G4 & G5). cbn [snd] in *.
    repeat split; try assumption.
    pose proof (max_type_ge c) as Hm. rewrite Forall_forall in Hm. apply (Hm _ Ha).
  - unfold groups_small. apply Forall_forall. intros p Hp. apply (Hg p Hp).
Qed.

(* the value the gateware uses as descr_idx for a request *)
Definition didx_val (c : dcoll) (value : N) : N :=
  match index_map c with
  | [] => v_index value
  | m => match assoc value m with Some r => trunc 8 r | None => 255 end
  end.

Lemma value_split : forall value, value < 65536 -> value = v_index value + 256 * v_type value /\ v_index value < 256 /\ v_type value < 256.
Proof.
  intros value H. unfold v_index, v_type. rewrite !bits_spec.
  change (2 ^ 0) with 1. change (2 ^ 8) with 256. lia.
Qed.

Lemma didx_spec : forall c value, coll_facts c -> value < 65536 ->
  match assoc (v_type value) c with
  | Some idxs => match find_pos (v_index value) idxs 0 with
                 | Some (j, d) => didx_val c value = j
                 | None => nlen idxs <= didx_val c value
                 end
  | None => True
  end.
Proof.
  intros c value F Hv. destruct (value_split value Hv) as (Hsplit & Hix & Hty).
  set (ty := v_type value) in *. set (ix := v_index value) in *.
  destruct (assoc ty c) as [idxs|] eqn:Ea; [|exact I].
  destruct (cf_group c F ty idxs Ea) as (Ginc & Gn1 & Gn255 & Gks & _ & _).
  unfold didx_val, index_map.
  destruct (indirect c) eqn:Eind.
  - (* index map in use *)
    pose proof (imap_lookup_spec c 0 ty ix (cf_inc c F) Hix (cf_small c F)) as Hm.
    rewrite <- Hsplit, Ea in Hm.
    destruct (flat_map (fun p => group_map (fst p) (snd p)) c) as [|m0 mr] eqn:Efm.
    + (* an empty map is impossible here, but the claim holds anyway via direct addressing of an absent entry *)
      cbn [assoc] in Hm. destruct (find_pos ix idxs 0) as [[j d]|] eqn:Ef; [discriminate|].
      exfalso. apply assoc_in in Ea. clear -Ea Efm Gn1.
      induction c as [|p r IH]; [contradiction|]. cbn [flat_map] in Efm. apply app_eq_nil in Efm as [E1 E2].
      destruct Ea as [->|Hin]; [|exact (IH Hin E2)].
      cbn [fst snd] in E1. unfold group_map in E1. destruct idxs; [unfold nlen in Gn1; cbn in Gn1; lia | discriminate].
    + rewrite Hm. destruct (find_pos ix idxs 0) as [[j d]|] eqn:Ef; cbn [option_map fst].
      * destruct (find_pos_nth _ _ _ _ _ Ef) as (_ & Hlt & _). apply trunc_small. change (2 ^ 8) with 256.
        unfold nlen in Gn255. lia.
      * lia.
  - (* direct addressing *)
    assert (Hcons : forall i, (i < length idxs)%nat -> fst (nth i idxs (0, [])) = 0 + N.of_nat i).
    { apply consecutive_keys; [exact Ginc | intro E; subst idxs; unfold nlen in Gn1; cbn in Gn1; lia |].
      unfold indirect in Eind. apply assoc_in in Ea.
      assert (Hx : negb (max_key idxs =? nlen idxs - 1) = false).
      { destruct (negb (max_key idxs =? nlen idxs - 1)) eqn:E; [|reflexivity].
        exfalso. assert (existsb (fun p => negb (max_key (snd p) =? nlen (snd p) - 1)) c = true).
        { apply existsb_exists. exists (ty, idxs). split; [exact Ea | exact E]. }
        congruence. }
      lia. }
    pose proof (find_pos_consecutive idxs 0 ix 0 Hcons) as Hf.
    destruct (find_pos ix idxs 0) as [[j d]|]; lia.
Qed.

(* ---------------------------------------------------------------------------------------------------------- *)
(* the walk through the image, as GetDescriptorHandlerBlock performs it *)
Lemma size_le_of_lt : forall x n, x < 2 ^ n -> N.size x <= n.
Proof.
  intros x n H. destruct x as [|p]; [cbn; lia|].
  rewrite N.size_log2 by discriminate. apply N.le_succ_l.
  apply (proj1 (N.log2_lt_pow2 (N.pos p) n ltac:(lia))). exact H.
Qed.

Lemma rom_aw_facts : forall c, coll_facts c ->
  nlen (rom_of c) <= 2 ^ N.size (nlen (rom_of c) - 1) /\ N.size (nlen (rom_of c) - 1) <= 14 /\ ntypes c <= nlen (rom_of c).
Proof.
  intros c F. pose proof (cf_size c F) as Hs. split; [|split].
  - pose proof (N.size_gt (nlen (rom_of c) - 1)). lia.
  - apply size_le_of_lt. change (2 ^ 14) with 16384. lia.
  - rewrite rom_len. lia.
Qed.

Lemma max_desc_len_ge : forall c d, In d (all_descs c) -> nlen d <= max_desc_len c.
Proof.
  intros c d. unfold max_desc_len. induction (all_descs c) as [|d0 r IH]; intros H; [contradiction|].
  cbn [fold_right]. destruct H as [->|H]; [lia | specialize (IH H); lia].
Qed.

Lemma words_cover : forall d : desc, nlen d <= 4 * nlen (words_of_bytes d).
Proof. intros d. rewrite words_length. lia. Qed.

Lemma walk_absent : forall c value, coll_facts c -> value < 65536 -> v_type value <= max_type c ->
  find_desc c (v_type value) (v_index value) = None ->
  e_hi (rom_read (rom_of c) (v_type value)) <= didx_val c value.
Proof.
  intros c value F Hv Ht Hf. rewrite rom_type_read by (unfold ntypes; lia). unfold type_entry.
  pose proof (didx_spec c value F Hv) as Hd. unfold find_desc in Hf.
  destruct (assoc (v_type value) c) as [idxs|] eqn:Ea.
  - destruct (cf_group c F _ _ Ea) as (_ & Gn1 & Gn255 & _).
    pose proof (cf_size c F) as Hs. pose proof (rom_len c) as HL.
    assert (Hta : table_addr c (v_type value) < 65536).
    { unfold table_addr. pose proof (all_descs_nth c _ idxs 0 Ea ltac:(unfold nlen in Gn1; lia)) as [Hlt _]. lia. }
    rewrite e_hi_entry by lia.
    rewrite (find_pos_assoc idxs _ 0) in Hf. destruct (find_pos (v_index value) idxs 0) as [[j d]|]; [discriminate | exact Hd].
  - unfold e_hi. rewrite bits_spec. cbn. lia.
Qed.

Lemma walk_present : forall c value d, coll_facts c -> value < 65536 ->
  find_desc c (v_type value) (v_index value) = Some d ->
  exists n A B,
    v_type value <= max_type c /\
    rom_read (rom_of c) (v_type value) = entry n (4 * A) /\ n < 65536 /\ 4 * A < 65536 /\
    didx_val c value < n /\ A + didx_val c value < nlen (rom_of c) /\
    rom_read (rom_of c) (A + didx_val c value) = entry (nlen d) (4 * B) /\ nlen d < 65536 /\ 4 * B < 65536 /\
    nlen d <= max_desc_len c /\
    (forall k, k < nlen d -> B + k / 4 < nlen (rom_of c) /\
                             byte_lane (rom_read (rom_of c) (B + k / 4)) (k mod 4) = nth (N.to_nat k) d 0).
Proof.
  intros c value d F Hv Hf. unfold find_desc in Hf.
  destruct (assoc (v_type value) c) as [idxs|] eqn:Ea; [|discriminate].
  destruct (cf_group c F _ _ Ea) as (_ & Gn1 & Gn255 & _ & Gbytes & Gty).
  pose proof (didx_spec c value F Hv) as Hd. rewrite Ea in Hd.
  rewrite (find_pos_assoc idxs _ 0) in Hf.
  destruct (find_pos (v_index value) idxs 0) as [[j d']|] eqn:Ef; [|discriminate].
  cbn [option_map snd] in Hf. inversion Hf; subst d'. clear Hf.
  destruct (find_pos_nth _ _ _ _ _ Ef) as (_ & Hjlt & Hjnth). rewrite N.sub_0_r in Hjlt, Hjnth.
  destruct (all_descs_nth c _ idxs (N.to_nat j) Ea Hjlt) as [Hg Hgd]. rewrite N2Nat.id in Hg, Hgd.
  set (g := entries_before (v_type value) c + j) in *.
  rewrite Hjnth in Hgd. cbn [snd] in Hgd.
  pose proof (cf_size c F) as Hs. pose proof (rom_len c) as HL.
  pose proof (data_word_bound c g Hg) as HB. rewrite Hgd in HB.
  pose proof (words_cover d) as Hcov.
  exists (nlen idxs), (ntypes c + entries_before (v_type value) c), (data_word c g).
  split; [exact Gty|]. split; [rewrite rom_type_read by (unfold ntypes; lia); unfold type_entry; rewrite Ea; reflexivity|].
  split; [lia|]. split; [lia|]. rewrite Hd. split; [unfold nlen; lia|]. split; [lia|].
  split.
  { replace (ntypes c + entries_before (v_type value) c + j) with (ntypes c + g) by (subst g; lia).
    rewrite rom_index_read by exact Hg. rewrite Hgd. reflexivity. }
  split; [lia|]. split; [lia|]. split.
  { apply max_desc_len_ge. rewrite <- Hgd. apply nth_In. unfold nentries, nlen in Hg. lia. }
  intros k Hk. split.
  - rewrite words_length in HB. lia.
  - pose proof (rom_desc_byte c g k Hg) as Hb. rewrite Hgd in Hb. apply Hb; [|exact Hk].
    apply (Gbytes (v_index value, d)). rewrite <- Hjnth. apply nth_In. exact Hjlt.
Qed.
