(* C42 -- hand models of luna/gateware/usb/usb3/physical/lfps.py: LFPSDetector, LFPSGenerator and
   LFPSTransceiver, and their specifications.  One list element = one ss clock cycle.

   DETECTOR.  Parameters (ld_cfg): the burst window [bmin, bmax] and the repeat window [rmin, rmax]
   in clock cycles (the code computes them as ceil(f * t)), whether the pattern is periodic
   (polling, ping) or a single burst (warm reset), and the width cw of the cycle counter
   (Signal(range(0, max(bmax, rmax) + 1))).

   Input word (1 bit):  [0] signaling_received      Output word (1 bit): [0] detect

   The specification never mentions the FSM: it run-length encodes the received envelope
   (history of `signaling_received`, most recent cycle first) and looks at the most recent runs.

     periodic pattern:  detect in cycle t  <->  the envelope up to cycle t-2 (two-flop synchroniser)
       ends with          burst k1 | gap g1 | burst k2 | gap g2 | first cycle of a new burst
       with  bmin <= k1, k2 <= bmax  and  rmin <= k1+g1, k2+g2 <= rmax   (period = burst start to burst start)
     single-burst pattern:  detect in cycle t  <->  the envelope up to cycle t-2 ends with
                          burst k | first idle cycle            with bmin <= k <= bmax.        *)
From Coq Require Import NArith List Bool.
Import ListNotations.
From LunaLib Require Import Netlist Machine.
Open Scope N_scope.

Record ld_cfg := { bmin : N; bmax : N; rmin : N; rmax : N; periodic : bool; cw : N }.

Definition in_win (lo hi x : N) : bool := (lo <=? x) && (x <=? hi).

(* ------------------------------------------------------------------------------------------ *)
(* Code-shaped model of the detector                                                           *)
Inductive ld_fsm := WAIT | BURST | REPEAT.
(* dly = the edge detector's delayed copy of `present`.  NOTE: the code calls rising_edge_detected() inside
   `with m.State("WAIT_FOR_NEXT_BURST")`, so this register is only updated while the FSM is in WAIT (it holds a
   stale 1 when WAIT is re-entered: the first WAIT cycle never sees an edge).  lim = last_iteration_matched *)
Record ld_core := { dly : bool; fsm : ld_fsm; cnt : N; lim : bool }.
(* s0, s1 = the two stages of the FFSynchronizer; `present` = s1 *)
Record ld_state := { s0 : bool; s1 : bool; core : ld_core }.

Definition ld_core_init : ld_core := {| dly := false; fsm := WAIT; cnt := 0; lim := false |}.
Definition ld_init : ld_state := {| s0 := false; s1 := false; core := ld_core_init |}.

Section Detector.
  Variable c : ld_cfg.

  (* one cycle of the detector proper, input p = present (synchronised signaling_received) *)
  Definition ld_core_step (st : ld_core) (p : bool) : ld_core * bool :=
    let inc := (cnt st + 1) mod 2 ^ cw c in
    match fsm st with
    | WAIT =>
        if p && negb (dly st)
        then ({| dly := p; fsm := BURST; cnt := 1; lim := false |}, false)
        else ({| dly := p; fsm := WAIT; cnt := inc; lim := false |}, false)
    | BURST =>
        if negb p then
          if cnt st <? bmin c then ({| dly := dly st; fsm := WAIT; cnt := inc; lim := lim st |}, false)
          else if periodic c then ({| dly := dly st; fsm := REPEAT; cnt := inc; lim := lim st |}, false)
          else ({| dly := dly st; fsm := WAIT; cnt := inc; lim := lim st |}, true)
        else if cnt st =? bmax c then ({| dly := dly st; fsm := WAIT; cnt := inc; lim := lim st |}, false)
        else ({| dly := dly st; fsm := BURST; cnt := inc; lim := lim st |}, false)
    | REPEAT =>
        if p then ({| dly := dly st; fsm := BURST; cnt := 1; lim := rmin c <=? cnt st |},
                   lim st && (rmin c <=? cnt st))
        else if cnt st =? rmax c then ({| dly := dly st; fsm := WAIT; cnt := inc; lim := lim st |}, false)
        else ({| dly := dly st; fsm := REPEAT; cnt := inc; lim := lim st |}, false)
    end.

  Definition ld_step (st : ld_state) (i : N) : ld_state * N :=
    let (core', d) := ld_core_step (core st) (s1 st) in
    ({| s0 := N.odd i; s1 := s0 st; core := core' |}, b2n d).

  (* ---------------------------------------------------------------------------------------- *)
  (* Specification                                                                             *)
  (* run-length encoding of an envelope given most recent cycle first; result most recent run first *)
  Definition push (b : bool) (runs : list (bool * N)) : list (bool * N) :=
    match runs with
    | (b', n) :: r => if Bool.eqb b b' then (b, n + 1) :: r else (b, 1) :: runs
    | [] => [(b, 1)]
    end.
  Fixpoint rle (h : list bool) : list (bool * N) :=
    match h with
    | [] => []
    | b :: t => push b (rle t)
    end.

  Definition spec_runs (runs : list (bool * N)) : bool :=
    if periodic c then
      match runs with
      | (true, n) :: (false, g2) :: (true, k2) :: (false, g1) :: (true, k1) :: _ =>
          (n =? 1) && in_win (bmin c) (bmax c) k1 && in_win (rmin c) (rmax c) (k1 + g1)
                   && in_win (bmin c) (bmax c) k2 && in_win (rmin c) (rmax c) (k2 + g2)
      | _ => false
      end
    else
      match runs with
      | (false, n) :: (true, k) :: _ => (n =? 1) && in_win (bmin c) (bmax c) k
      | _ => false
      end.

  (* the pattern is recognised at the end of envelope h (most recent cycle first) *)
  Definition spec_detect (h : list bool) : bool := spec_runs (rle h).

  (* specification of the detector proper (input = present) *)
  Fixpoint core_spec_trace (h : list bool) (ps : list bool) : list bool :=
    match ps with
    | [] => []
    | p :: t => spec_detect (p :: h) :: core_spec_trace (p :: h) t
    end.

  (* specification of the whole detector: h = earlier values of signaling_received, most recent first;
     the output of a cycle depends on the envelope up to two cycles earlier *)
  Fixpoint spec_trace (h : list bool) (ins : list N) : list N :=
    match ins with
    | [] => []
    | i :: t => b2n (spec_detect (skipn 2 (N.odd i :: h))) :: spec_trace (N.odd i :: h) t
    end.

  (* ---------------------------------------------------------------------------------------- *)
  (* packing for the lock-step tie *)
  Definition fsm_code (f : ld_fsm) : N := match f with WAIT => 0 | BURST => 1 | REPEAT => 2 end.
  Definition ld_enc (st : ld_state) : N :=
    b2n (s0 st) + 2 * (b2n (s1 st) + 2 * (b2n (dly (core st)) + 2 * (b2n (lim (core st))
    + 2 * (fsm_code (fsm (core st)) + 4 * cnt (core st))))).
  Definition ld_dec (m : N) : ld_state :=
    let m1 := m / 2 in let m2 := m1 / 2 in let m3 := m2 / 2 in let m4 := m3 / 2 in
    {| s0 := m mod 2 =? 1; s1 := m1 mod 2 =? 1;
       core := {| dly := m2 mod 2 =? 1; lim := m3 mod 2 =? 1;
                  fsm := match m4 mod 4 with 0 => WAIT | 1 => BURST | _ => REPEAT end;
                  cnt := m4 / 4 |} |}.
End Detector.

(* The detector specification as a runtime monitor over (input, output) words of the real module:
   whenever detect is reported, the envelope up to two cycles ago must end in the pattern.
   Monitor state = the envelope so far packed into one N: most recent cycle in bit 0, below a leading sentinel 1 (initial state 1). *)
Fixpoint pos_hist (p : positive) : list bool :=
  match p with xH => [] | xO q => false :: pos_hist q | xI q => true :: pos_hist q end.
Definition hist_of (m : N) : list bool := match m with 0 => [] | Npos p => pos_hist p end.
Definition ld_spec_mon (c : ld_cfg) (m i o : N) : option (N * bool) :=
  let m' := if N.odd i then N.succ_double m else N.double m in
  Some (m', implb (N.odd o) (spec_detect c (skipn 2 (hist_of m')))).

(* width Amaranth gives Signal(range(0, n)) *)
Definition range_width (n : N) : N := N.size (n - 1).

(* configuration the code derives for a pattern: counter sized for max(bmax, rmax) *)
Definition ld_periodic (bmin bmax rmin rmax : N) : ld_cfg :=
  {| bmin := bmin; bmax := bmax; rmin := rmin; rmax := rmax; periodic := true;
     cw := range_width (N.max bmax rmax + 1) |}.
Definition ld_single (bmin bmax : N) : ld_cfg :=
  {| bmin := bmin; bmax := bmax; rmin := 0; rmax := 0; periodic := false;
     cw := range_width (bmax + 1) |}.

(* ------------------------------------------------------------------------------------------ *)
(* GENERATOR.  Parameters: B = burst length, R = pattern length (cycles, ceil(f * t_typ)), w = width of
   the counter (Signal(range(0, R))).
   Input word (1 bit): [0] generate      Output word: [0] completed [1] drive_electrical_idle [2] send_signaling *)
Inductive lg_fsm := G_IDLE | G_BURST | G_WAIT.
Record lg_state := { gfsm : lg_fsm; gcnt : N }.
Definition lg_init : lg_state := {| gfsm := G_IDLE; gcnt := 0 |}.

Definition lg_word (completed dei send : bool) : N := b2n completed + 2 * b2n dei + 4 * b2n send.

Section Generator.
  Variables B R w : N.

  Definition lg_step (st : lg_state) (i : N) : lg_state * N :=
    let inc := (gcnt st + 1) mod 2 ^ w in
    match gfsm st with
    | G_IDLE => ({| gfsm := if N.odd i then G_BURST else G_IDLE; gcnt := 0 |}, lg_word false (N.odd i) false)
    | G_BURST => ({| gfsm := if gcnt st + 1 =? B then G_WAIT else G_BURST; gcnt := inc |}, lg_word false true true)
    | G_WAIT => if gcnt st + 1 =? R then ({| gfsm := G_IDLE; gcnt := inc |}, lg_word true true false)
                else ({| gfsm := G_WAIT; gcnt := inc |}, lg_word false true false)
    end.

  (* Specification: None = idle; Some k = k cycles into a pattern of R cycles whose first B are the burst.
     A pattern, once started, runs to its end regardless of `generate`. *)
  Definition lgs_step (p : option N) (i : N) : option N * N :=
    match p with
    | None => (if N.odd i then Some 0 else None, lg_word false (N.odd i) false)
    | Some k => (if k + 1 =? R then None else Some (k + 1), lg_word (k + 1 =? R) true (k <? B))
    end.

  (* what one period looks like while `generate` is held: one idle cycle (electrical idle driven, no
     signalling), B cycles of signalling, R-B cycles of electrical idle, the last of which reports completion *)
  Definition lg_period : list N :=
    [lg_word false true false] ++ repeat (lg_word false true true) (N.to_nat B)
    ++ repeat (lg_word false true false) (N.to_nat (R - B - 1)) ++ [lg_word true true false].

  Definition lg_enc (st : lg_state) : N :=
    (match gfsm st with G_IDLE => 0 | G_BURST => 1 | G_WAIT => 2 end) + 4 * gcnt st.
  Definition lg_dec (m : N) : lg_state :=
    {| gfsm := match m mod 4 with 0 => G_IDLE | 1 => G_BURST | _ => G_WAIT end; gcnt := m / 4 |}.
End Generator.

(* ------------------------------------------------------------------------------------------ *)
(* TRANSCEIVER = polling, ping and reset detectors + polling generator + cycles_sent counter.
   Input word: [0] signaling_received [1] send_polling
   Output word: [0] drive_electrical_idle [1] send_signaling [2] polling_detected [3] ping_detected
                [4] reset_detected [5..20] cycles_sent                                          *)
Record lt_state := { d_poll : ld_state; d_ping : ld_state; d_rst : ld_state; gen : lg_state; sent : N }.
Definition lt_init : lt_state :=
  {| d_poll := ld_init; d_ping := ld_init; d_rst := ld_init; gen := lg_init; sent := 0 |}.

Section Transceiver.
  Variables cpoll cping crst : ld_cfg.
  Variables B R w : N.

  Definition lt_step (st : lt_state) (i : N) : lt_state * N :=
    let sr := b2n (N.testbit i 0) in
    let g := N.testbit i 1 in
    let (p', po) := ld_step cpoll (d_poll st) sr in
    let (q', qo) := ld_step cping (d_ping st) sr in
    let (r', ro) := ld_step crst (d_rst st) sr in
    let (g', go) := lg_step B R w (gen st) (b2n g) in
    let completed := N.testbit go 0 in
    ({| d_poll := p'; d_ping := q'; d_rst := r'; gen := g';
        sent := if g then (if completed then (sent st + 1) mod 2 ^ 16 else sent st) else 0 |},
     b2n (N.testbit go 1) + 2 * b2n (N.testbit go 2) + 4 * po + 8 * qo + 16 * ro + 32 * sent st).
End Transceiver.
