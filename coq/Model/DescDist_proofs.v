(* C09 -- proofs about the block-RAM-free GET_DESCRIPTOR handler model (Model/DescDist.v):
   (a) packing lemmas for the lock-step obligations;
   (b) dist_refines: for every well-formed collection of non-empty descriptors the bank of constant stream
       generators, selected and started as GetDescriptorHandlerDistributed (with the candidate fix) does, is
       output-equivalent to the specification machine s_step (resp_of c mps) on every legal input history. *)
From Coq Require Import NArith ZArith Arith List Bool Lia ZifyBool ZifyN.
Import ListNotations.
From LunaLib Require Import Netlist Bits Machine.
From LunaModel Require Import ConstGen ConstGen_proofs DescSpec DescSpec_proofs DescRom DescRom_proofs DescCommon DescDist.
Open Scope N_scope.
Ltac Zify.zify_post_hook ::= Z.div_mod_to_equations.

(* ---------------------------------------------------------------------------------------------------------- *)
(* the configuration of one generator *)
Lemma gen_cfg_words : forall d, c_words (gen_cfg d) = d.
Proof. intros. apply cfg_of_bytes_bytewide_words. Qed.

Lemma gen_cfg_nwords : forall d, nwords (gen_cfg d) = nlen d.
Proof. intros. unfold nwords. rewrite gen_cfg_words. reflexivity. Qed.

Lemma gen_cfg_consts : forall d,
  c_bpw (gen_cfg d) = 1 /\ c_vw (gen_cfg d) = 1 /\ c_lwb (gen_cfg d) = 1 /\ c_dlen (gen_cfg d) = nlen d /\
  c_hasml (gen_cfg d) = true /\ c_mlw (gen_cfg d) = 16 /\ c_dw (gen_cfg d) = 8 /\
  c_posw (gen_cfg d) = N.size (nlen d - 1) /\ c_spw (gen_cfg d) = N.size (nlen d - 1).
Proof.
  intros d. unfold gen_cfg, cfg_of_bytes.
  cbn [c_bpw c_vw c_lwb c_dlen c_hasml c_mlw c_dw c_posw c_spw]. rewrite Nat.mod_1_r. cbn [Nat.eqb].
  repeat split; try reflexivity.
  unfold width_of_range. f_equal. f_equal.
  pose proof (cfg_of_bytes_bytewide_words d (Some 16)) as H. unfold cfg_of_bytes in H. cbn [c_words] in H.
  rewrite H. reflexivity.
Qed.

Lemma gen_ok_facts : forall g, gen_okb g = true -> bytes_ok (snd g) /\ 1 <= nlen (snd g) /\ nlen (snd g) < 2048.
Proof.
  intros g H. unfold gen_okb in H. repeat (apply andb_true_iff in H as [H ?]). split; [|lia].
  rewrite forallb_forall in H. apply Forall_forall. intros b Hb. specialize (H b Hb). lia.
Qed.

Lemma gen_cfg_ok : forall d, 1 <= nlen d -> cfg_okb (gen_cfg d) = true.
Proof.
  intros d H. destruct (gen_cfg_consts d) as (E1 & E2 & E3 & E4 & E5 & E6 & E7 & E8 & E9).
  unfold cfg_okb. rewrite gen_cfg_words, E1, E2, E3, E4, E5, E6, E8, E9. fold (nlen d).
  pose proof (N.size_gt (nlen d - 1)). change (2 ^ 16) with 65536.
  repeat (apply andb_true_iff; split); try lia.
Qed.

Lemma posw_small : forall d : desc, nlen d < 2048 -> N.size (nlen d - 1) <= 11.
Proof. intros d H. apply size_le_of_lt. change (2 ^ 11) with 2048. lia. Qed.

(* ---------------------------------------------------------------------------------------------------------- *)
(* (a) packing *)
Lemma pair_lt : forall w v a b, a < 2 ^ w -> b < 2 ^ v -> ConstGen.pair w a b < 2 ^ (w + v).
Proof.
  intros w v a b Ha Hb. unfold ConstGen.pair. rewrite N.shiftl_mul_pow2, N.pow_add_r.
  pose proof (pow2_pos w). pose proof (pow2_pos v). nia.
Qed.

Lemma cg_enc_lt : forall d st, nlen d < 2048 -> cg_wf (gen_cfg d) st -> g_rd st < 256 ->
  cg_enc (gen_cfg d) st < 2 ^ 53.
Proof.
  intros d st HL (Hp & Hs & Hm) Hr. destruct (gen_cfg_consts d) as (_ & _ & _ & _ & _ & E6 & _ & E8 & _).
  unfold cg_enc. rewrite E6 in *. rewrite E8 in *.
  pose proof (posw_small d HL) as Hpw.
  assert (Hf : match g_fsm st with IDLE => 0 | STREAMING => 1 | DONE => 2 end < 2 ^ 2) by (destruct (g_fsm st); vm_compute; reflexivity).
  pose proof (pair_lt 16 8 (g_ml st) (g_rd st) Hm ltac:(change (2 ^ 8) with 256; exact Hr)) as H1.
  pose proof (pair_lt 16 (16 + 8) (g_sent st) _ Hs H1) as H2.
  pose proof (pair_lt (N.size (nlen d - 1)) (16 + (16 + 8)) (g_pos st) _ Hp H2) as H3.
  pose proof (pair_lt 2 _ _ _ Hf H3) as H4.
  eapply N.lt_le_trans; [exact H4|]. apply N.pow_le_mono_r; lia.
Qed.

Lemma odd_b2n : forall b x, N.odd (b2n b + 2 * x) = b.
Proof. intros [|] x; cbn [b2n]; rewrite N.odd_add_mul_2; reflexivity. Qed.

Lemma div2_b2n : forall b x, N.div2 (b2n b + 2 * x) = x.
Proof. intros [|] x; cbn [b2n]; rewrite N.div2_div; lia. Qed.

Lemma gen_dec_enc : forall g s, gen_wf g s -> gen_dec g (gen_enc g s) = s.
Proof.
  intros g [r st] (Hwf & _). unfold gen_dec, gen_enc. cbn [fst snd] in *.
  rewrite odd_b2n, div2_b2n, cg_dec_enc by exact Hwf. reflexivity.
Qed.

Lemma gen_enc_lt : forall g s, gen_wf g s -> gen_enc g s < 2 ^ 64.
Proof.
  intros g [r st] (Hwf & Hrd & Hok). unfold gen_enc. cbn [fst snd] in *.
  destruct (gen_ok_facts g Hok) as (_ & _ & HL).
  pose proof (cg_enc_lt (snd g) st HL Hwf Hrd) as H.
  change (2 ^ 64) with (2048 * 2 ^ 53). destruct r; cbn [b2n]; lia.
Qed.

Lemma gens_dec_enc : forall gs ss, Forall2 gen_wf gs ss -> gens_dec gs (gens_enc gs ss) = ss.
Proof.
  induction 1 as [|g s gs ss Hw _ IH]; [reflexivity|].
  cbn [gens_enc gens_dec]. pose proof (gen_enc_lt g s Hw) as Hlt.
  change (gen_enc g s + N.shiftl (gens_enc gs ss) 64) with (ConstGen.pair 64 (gen_enc g s) (gens_enc gs ss)).
  rewrite unpair_lo, unpair_hi by exact Hlt. rewrite gen_dec_enc by exact Hw. rewrite IH. reflexivity.
Qed.

Lemma ds_dec_enc : forall gens st, ds_wf gens st -> ds_dec gens (ds_enc gens st) = st.
Proof.
  intros gens [z ss] H. unfold ds_dec, ds_enc, ds_wf in *. cbn [d_zlp d_gens] in *.
  rewrite odd_b2n, div2_b2n, gens_dec_enc by exact H. reflexivity.
Qed.

Lemma rom_lt : forall d a, bytes_ok d -> rom (gen_cfg d) a < 256.
Proof.
  intros d a H. unfold rom. rewrite gen_cfg_words.
  destruct (Nat.lt_ge_cases (N.to_nat a) (length d)) as [Hlt|Hge].
  - unfold bytes_ok in H. rewrite Forall_forall in H. apply H. apply nth_In. exact Hlt.
  - rewrite nth_overflow by exact Hge. lia.
Qed.

Lemma cg_next_rd_lt : forall d st i, bytes_ok d -> g_rd (cg_next (gen_cfg d) st i) < 256.
Proof.
  intros d st i H. unfold cg_next.
  destruct (g_fsm st); [| destruct (ConstGen.i_ready (gen_cfg d) i); [destruct (ConstGen.on_last (gen_cfg d) st)|] |];
    cbn [g_rd]; apply rom_lt; exact H.
Qed.

Lemma gen_wf_step : forall mps g s i, gen_wf g s -> gen_wf g (fst (gen_step mps g s i)).
Proof.
  intros mps g [r st] i (Hwf & Hrd & Hok). destruct (gen_ok_facts g Hok) as (Hb & H1 & HL).
  unfold gen_step. cbn [fst snd].
  set (gi := cg_in _ _ _ _ _). unfold cg_step. cbn [fst snd]. unfold gen_wf. cbn [fst snd].
  split; [|split; [apply cg_next_rd_lt; exact Hb | exact Hok]].
  apply (cg_wf_step (gen_cfg (snd g)) (gen_cfg_ok _ H1) st gi Hwf).
Qed.

Lemma ds_wf_step : forall gens mps st i, ds_wf gens st -> ds_wf gens (fst (ds_step gens mps st i)).
Proof.
  intros gens mps [z ss] i H. unfold ds_wf, ds_step, ds_next in *. cbn [fst d_gens] in *.
  induction H as [|g s gs ss' Hw _ IH]; [constructor|].
  cbn [gens_next]. constructor; [apply gen_wf_step; exact Hw | exact IH].
Qed.

Lemma ds_wf_init : forall gens, gens_okb gens = true -> ds_wf gens (ds_init gens).
Proof.
  intros gens H. unfold ds_wf, ds_init. cbn [d_gens]. unfold gens_okb in H. rewrite forallb_forall in H.
  induction gens as [|g gs IH]; [constructor|]. cbn [map]. constructor.
  - pose proof (H g (or_introl eq_refl)) as Hok. destruct (gen_ok_facts g Hok) as (Hb & _ & _).
    unfold gen_wf. cbn [fst snd]. split; [apply cg_wf_init | split; [|exact Hok]].
    unfold cg_init. cbn [g_rd]. apply rom_lt. exact Hb.
  - apply IH. intros x Hx. apply H. right. exact Hx.
Qed.

(* ---------------------------------------------------------------------------------------------------------- *)
(* (b) refinement: facts about one generator *)
Lemma lo_hi_split : forall m a b, 0 < m -> a < m -> (a + m * b) / m = b /\ (a + m * b) mod m = a.
Proof.
  intros m a b Hm Ha. split.
  - rewrite N.mul_comm, N.div_add by lia. rewrite N.div_small by exact Ha. reflexivity.
  - rewrite N.mul_comm, N.mod_add by lia. apply N.mod_small. exact Ha.
Qed.

Lemma cg_in_form : forall c s sp ml r,
  cg_in c s sp ml r = b2n s + 2 * (trunc (c_spw c) sp + 2 ^ c_spw c * (trunc (c_mlw c) ml + 2 ^ c_mlw c * b2n r)).
Proof.
  intros. unfold cg_in. rewrite !N.shiftl_mul_pow2, !N.pow_add_r. change (2 ^ 1) with 2. ring.
Qed.

Lemma cg_in_start : forall c s sp ml r, ConstGen.i_start (cg_in c s sp ml r) = s.
Proof. intros. unfold ConstGen.i_start. rewrite cg_in_form, N.bit0_odd. apply odd_b2n. Qed.

Lemma cg_in_sp : forall c s sp ml r, ConstGen.i_sp c (cg_in c s sp ml r) = trunc (c_spw c) sp.
Proof.
  intros. unfold ConstGen.i_sp. rewrite cg_in_form, bits_spec. change (2 ^ 1) with 2.
  assert (E : forall x, (b2n s + 2 * x) / 2 = x) by (intro x; destruct s; cbn [b2n]; lia). rewrite E.
  apply (lo_hi_split (2 ^ c_spw c)); [apply pow2_pos | apply trunc_lt].
Qed.

Lemma cg_in_ml : forall c s sp ml r, c_hasml c = true -> ConstGen.i_ml c (cg_in c s sp ml r) = trunc (c_mlw c) ml.
Proof.
  intros c s sp ml r H. unfold ConstGen.i_ml. rewrite H, cg_in_form, bits_spec, N.pow_add_r. change (2 ^ 1) with 2.
  rewrite <- N.div_div by (try lia; pose proof (pow2_pos (c_spw c)); lia).
  assert (E : forall x, (b2n s + 2 * x) / 2 = x) by (intro x; destruct s; cbn [b2n]; lia). rewrite E.
  destruct (lo_hi_split (2 ^ c_spw c) (trunc (c_spw c) sp) (trunc (c_mlw c) ml + 2 ^ c_mlw c * b2n r) (pow2_pos _) (trunc_lt _ _)) as [E1 _].
  rewrite E1. apply (lo_hi_split (2 ^ c_mlw c)); [apply pow2_pos | apply trunc_lt].
Qed.

Lemma cg_in_ready : forall c s sp ml r, c_hasml c = true -> ConstGen.i_ready c (cg_in c s sp ml r) = r.
Proof.
  intros c s sp ml r H. unfold ConstGen.i_ready. rewrite H, cg_in_form, N.testbit_eqb, !N.pow_add_r. change (2 ^ 1) with 2.
  rewrite <- !N.div_div by (try lia; try (pose proof (pow2_pos (c_spw c)); lia); pose proof (pow2_pos (c_mlw c)); lia).
  assert (E : forall x, (b2n s + 2 * x) / 2 = x) by (intro x; destruct s; cbn [b2n]; lia). rewrite E.
  destruct (lo_hi_split (2 ^ c_spw c) (trunc (c_spw c) sp) (trunc (c_mlw c) ml + 2 ^ c_mlw c * b2n r) (pow2_pos _) (trunc_lt _ _)) as [E1 _].
  rewrite E1.
  destruct (lo_hi_split (2 ^ c_mlw c) (trunc (c_mlw c) ml) (b2n r) (pow2_pos _) (trunc_lt _ _)) as [E2 _].
  rewrite E2. destruct r; reflexivity.
Qed.

Lemma trunc11_pack : forall c valid f l payload done ml, c_vw c = 1 -> c_dw c = 8 -> valid <= 1 -> payload < 256 ->
  trunc 11 (pack_beat c valid f l payload done ml) = valid + 2 * b2n f + 4 * b2n l + 8 * payload.
Proof.
  intros c valid f l payload done ml Hv Hd Hva Hp. unfold pack_beat. rewrite Hv, Hd.
  change (1 + 1) with 2. change (1 + 2 + 8) with 11. change (1 + 2) with 3. change (1 + 3 + 8) with 12.
  rewrite !N.shiftl_mul_pow2, trunc_spec.
  change (2 ^ 1) with 2. change (2 ^ 2) with 4. change (2 ^ 3) with 8. change (2 ^ 11) with 2048. change (2 ^ 12) with 4096.
  generalize (olen_of c ml). intro o. destruct f, l, done; cbn [b2n]; lia.
Qed.

(* ---------------------------------------------------------------------------------------------------------- *)
(* which generator a request selects *)
Lemma sel_desc_assoc : forall gs v, sel_desc gs v = assoc v gs.
Proof. induction gs as [|[k d] r IH]; intros v; [reflexivity|]. cbn [sel_desc assoc fst snd]. destruct (k =? v); [reflexivity | apply IH]. Qed.

Lemma assoc_gmap_same : forall (idxs : list (N * desc)) ty ix, ix < 256 -> keys_small idxs ->
  assoc (ix + 256 * ty) (map (fun e : N * desc => (fst e + 256 * ty, snd e)) idxs) = assoc ix idxs.
Proof.
  induction idxs as [|[ix' d] r IH]; intros ty ix Hix Hk; [reflexivity|].
  inversion Hk as [|? ? H0 Hr]; subst. cbn [fst] in H0. cbn [map assoc fst snd].
  destruct (N.eqb_spec ix' ix) as [->|NE]; [rewrite N.eqb_refl; reflexivity|].
  destruct (N.eqb_spec (ix' + 256 * ty) (ix + 256 * ty)); [lia|]. apply IH; assumption.
Qed.

Lemma assoc_gmap_other : forall (idxs : list (N * desc)) ty ty' ix, ty <> ty' -> ix < 256 -> keys_small idxs ->
  assoc (ix + 256 * ty) (map (fun e : N * desc => (fst e + 256 * ty', snd e)) idxs) = None.
Proof.
  induction idxs as [|[ix' d] r IH]; intros ty ty' ix Hne Hix Hk; [reflexivity|].
  inversion Hk as [|? ? H0 Hr]; subst. cbn [fst] in H0. cbn [map assoc fst snd].
  destruct (N.eqb_spec (ix' + 256 * ty') (ix + 256 * ty)); [lia|]. apply IH; assumption.
Qed.

Lemma dist_none_above : forall c lo ty ix, increasing lo c = true -> ty < lo -> ix < 256 -> groups_small c ->
  assoc (ix + 256 * ty) (dist_gens c) = None.
Proof.
  induction c as [|[ty0 idxs0] r IH]; intros lo ty ix H Hlt Hix Hg; [reflexivity|].
  cbn [increasing] in H. apply andb_true_iff in H as [H1 H2]. inversion Hg as [|? ? Hg0 Hgr]; subst.
  unfold dist_gens. cbn [flat_map fst snd]. rewrite assoc_app.
  rewrite assoc_gmap_other by (try assumption; lia). apply (IH (ty0 + 1)); try assumption. lia.
Qed.

Lemma dist_assoc_spec : forall c lo ty ix, increasing lo c = true -> ix < 256 -> groups_small c ->
  assoc (ix + 256 * ty) (dist_gens c) = match assoc ty c with Some idxs => assoc ix idxs | None => None end.
Proof.
  induction c as [|[ty0 idxs0] r IH]; intros lo ty ix H Hix Hg; [reflexivity|].
  cbn [increasing] in H. apply andb_true_iff in H as [H1 H2]. inversion Hg as [|? ? Hg0 Hgr]; subst.
  unfold dist_gens. cbn [flat_map fst snd assoc]. rewrite assoc_app.
  destruct (N.eqb_spec ty0 ty) as [->|NE].
  - rewrite assoc_gmap_same by assumption. destruct (assoc ix idxs0); [reflexivity|].
    apply (dist_none_above r (ty + 1)); try assumption. lia.
  - rewrite assoc_gmap_other by (try assumption; congruence). apply (IH (ty0 + 1)); assumption.
Qed.

Lemma sel_desc_find : forall c value, coll_facts c -> value < 65536 ->
  sel_desc (dist_gens c) value = find_desc c (v_type value) (v_index value).
Proof.
  intros c value F Hv. destruct (value_split value Hv) as (Hs & Hix & Hty).
  rewrite sel_desc_assoc. rewrite Hs at 1. unfold find_desc.
  apply (dist_assoc_spec c 0); [apply (cf_inc c F) | exact Hix | apply (cf_small c F)].
Qed.

(* keys of the generator bank are strictly increasing, hence unique *)
Lemma incr_gmap : forall (idxs : list (N * desc)) lo ty, increasing lo idxs = true ->
  increasing (lo + 256 * ty) (map (fun e : N * desc => (fst e + 256 * ty, snd e)) idxs) = true.
Proof.
  induction idxs as [|[k d] r IH]; intros lo ty H; [reflexivity|].
  cbn [increasing] in H. apply andb_true_iff in H as [H1 H2]. cbn [map increasing fst snd].
  apply andb_true_iff. split; [lia|]. replace (k + 256 * ty + 1) with (k + 1 + 256 * ty) by lia. apply IH. exact H2.
Qed.

Lemma incr_app : forall (A : Type) (a b : list (N * A)) lo m, lo <= m -> increasing lo a = true -> increasing m b = true ->
  Forall (fun e => fst e < m) a -> increasing lo (a ++ b) = true.
Proof.
  induction a as [|[k v] a IH]; intros b lo m Hlm Ha Hb Hall.
  - cbn [app]. apply (increasing_weaken _ b m lo Hlm Hb).
  - cbn [increasing] in Ha. apply andb_true_iff in Ha as [H1 H2]. inversion Hall as [|? ? Hk Hall']; subst. cbn [fst] in Hk.
    cbn [app increasing]. apply andb_true_iff. split; [exact H1|]. apply (IH b (k + 1) m); try assumption. lia.
Qed.

Lemma dist_increasing : forall c lo, increasing lo c = true -> groups_small c ->
  Forall (fun p => increasing 0 (snd p) = true) c -> increasing (256 * lo) (dist_gens c) = true.
Proof.
  induction c as [|[ty idxs] r IH]; intros lo H Hg Hi; [reflexivity|].
  cbn [increasing] in H. apply andb_true_iff in H as [H1 H2].
  inversion Hg as [|? ? Hg0 Hgr]; subst. inversion Hi as [|? ? Hi0 Hir]; subst. cbn [snd] in *.
  unfold dist_gens. cbn [flat_map fst snd].
  apply (incr_app _ _ _ (256 * lo) (256 * (ty + 1))); [lia | | apply IH; assumption |].
  - apply (increasing_weaken _ _ (0 + 256 * ty)); [lia|]. apply incr_gmap. exact Hi0.
  - unfold keys_small in Hg0. rewrite Forall_forall in Hg0. apply Forall_forall. intros e He.
    apply in_map_iff in He as (e0 & <- & He0). cbn [fst]. specialize (Hg0 e0 He0). lia.
Qed.

Lemma increasing_in_assoc : forall (A : Type) (l : list (N * A)) lo k v, increasing lo l = true -> In (k, v) l -> assoc k l = Some v.
Proof.
  induction l as [|[k' v'] r IH]; intros lo k v H Hin; [contradiction|].
  cbn [increasing] in H. apply andb_true_iff in H as [H1 H2]. cbn [assoc].
  destruct Hin as [E|Hin].
  - inversion E; subst. rewrite N.eqb_refl. reflexivity.
  - destruct (N.eqb_spec k' k) as [->|NE]; [|apply (IH (k' + 1)); assumption].
    pose proof (increasing_keys_ge _ r (k + 1) H2) as Hge. rewrite Forall_forall in Hge.
    specialize (Hge _ Hin). cbn [fst] in Hge. lia.
Qed.

Lemma gen_unique : forall c g, coll_facts c -> In g (dist_gens c) -> sel_desc (dist_gens c) (fst g) = Some (snd g).
Proof.
  intros c [k d] F Hin. rewrite sel_desc_assoc. cbn [fst snd].
  apply (increasing_in_assoc _ _ (256 * 0)); [|exact Hin].
  apply dist_increasing; [apply (cf_inc c F) | apply (cf_small c F)|].
  apply Forall_forall. intros [ty idxs] Hp. cbn [snd].
  assert (Ha : assoc ty c = Some idxs) by (apply (increasing_in_assoc _ _ 0); [apply (cf_inc c F) | exact Hp]).
  apply (cf_group c F ty idxs Ha).
Qed.

(* ---------------------------------------------------------------------------------------------------------- *)
(* one generator of the bank, one cycle *)
Definition quiet (s : bool * cg_state) : Prop := fst s = false /\ (g_fsm (snd s) = IDLE \/ g_fsm (snd s) = DONE).
Definition armed (s : bool * cg_state) : Prop := fst s = true /\ g_fsm (snd s) = IDLE.
Definition streaming (mps : N) (q : dreq) (g : dgen) (s : bool * cg_state) (sent : N) : Prop :=
  fst s = false /\ g_fsm (snd s) = STREAMING /\ g_sent (snd s) = sent /\ g_pos (snd s) = q_sp q + sent /\
  g_pos (snd s) < nlen (snd g) /\ sent < lenq mps q /\ g_ml (snd s) = lenq mps q /\
  g_rd (snd s) = nth (N.to_nat (g_pos (snd s))) (snd g) 0.

Lemma gen_step_eq : forall mps g s i,
  gen_step mps g s i =
  ((if fst g =? i_value i then i_start i && negb (past_end mps (snd g) i) else fst s,
    cg_next (gen_cfg (snd g)) (snd s) (cg_in (gen_cfg (snd g)) (fst s) (i_sp i) (ds_len mps i) ((fst g =? i_value i) && i_ready i))),
   cg_out (gen_cfg (snd g)) (snd s) (cg_in (gen_cfg (snd g)) (fst s) (i_sp i) (ds_len mps i) ((fst g =? i_value i) && i_ready i))).
Proof. reflexivity. Qed.

Lemma idle_out : forall mps g s i, g_fsm (snd s) = IDLE \/ g_fsm (snd s) = DONE -> trunc 11 (snd (gen_step mps g s i)) = 0.
Proof.
  intros mps g [r st] i Hf. rewrite gen_step_eq. cbn [fst snd] in *.
  destruct (gen_cfg_consts (snd g)) as (_ & Ev & _ & _ & _ & _ & Ed & _).
  unfold cg_out, pack_quiet. destruct Hf as [-> | ->]; rewrite trunc11_pack by (try assumption; lia); reflexivity.
Qed.

Lemma quiet_next_unsel : forall mps g s i, quiet s -> (fst g =? i_value i) = false -> quiet (fst (gen_step mps g s i)).
Proof.
  intros mps g [r st] i (Hr & Hf) Hsel. rewrite gen_step_eq, Hsel. cbn [fst snd] in *. subst r.
  unfold quiet. cbn [fst snd]. split; [reflexivity|]. left.
  unfold cg_next. destruct Hf as [-> | ->]; cbn [g_fsm]; [|reflexivity].
  rewrite cg_in_start. reflexivity.
Qed.

Lemma quiet_next_sel : forall mps g s i, quiet s -> (fst g =? i_value i) = true ->
  fst (fst (gen_step mps g s i)) = i_start i && negb (past_end mps (snd g) i) /\
  g_fsm (snd (fst (gen_step mps g s i))) = IDLE.
Proof.
  intros mps g [r st] i (Hr & Hf) Hsel. rewrite gen_step_eq, Hsel. cbn [fst snd] in *. subst r.
  split; [reflexivity|]. unfold cg_next. destruct Hf as [-> | ->]; cbn [g_fsm]; [|reflexivity].
  rewrite cg_in_start. reflexivity.
Qed.

Lemma gen_widths : forall g, gen_okb g = true ->
  nlen (snd g) <= 2 ^ c_spw (gen_cfg (snd g)) /\ nlen (snd g) <= 2 ^ c_posw (gen_cfg (snd g)).
Proof.
  intros g H. destruct (gen_cfg_consts (snd g)) as (_ & _ & _ & _ & _ & _ & _ & E8 & E9). rewrite E8, E9.
  pose proof (N.size_gt (nlen (snd g) - 1)). destruct (gen_ok_facts g H) as (_ & H1 & _). lia.
Qed.

Lemma armed_next : forall mps g s i, gen_okb g = true -> armed s -> (fst g =? i_value i) = true -> i_start i = false ->
  i_sp i < nlen (snd g) -> 1 <= ds_len mps i -> ds_len mps i < 65536 ->
  let s' := fst (gen_step mps g s i) in
  fst s' = false /\ g_fsm (snd s') = STREAMING /\ g_sent (snd s') = 0 /\ g_pos (snd s') = i_sp i /\
  g_ml (snd s') = ds_len mps i /\ g_rd (snd s') = nth (N.to_nat (i_sp i)) (snd g) 0.
Proof.
  intros mps g [r st] i Hok (Hr & Hf) Hsel Hst Hsp Hl1 Hl2 s'. subst s'. rewrite gen_step_eq, Hsel, Hst. cbn [fst snd andb] in *.
  subst r. destruct (gen_cfg_consts (snd g)) as (_ & _ & _ & Edl & Eml & Emw & _ & _ & _).
  destruct (gen_widths g Hok) as [Hw1 Hw2].
  split; [reflexivity|]. unfold cg_next. rewrite Hf. cbn [g_fsm g_sent g_pos g_ml g_rd].
  rewrite cg_in_start, (cg_in_ml _ _ _ _ _ Eml), Emw, Eml.
  assert (Et : trunc 16 (ds_len mps i) = ds_len mps i) by (apply trunc_small; change (2 ^ 16) with 65536; lia).
  rewrite Et.
  assert (Esp : forall r, sp_eff (gen_cfg (snd g)) (cg_in (gen_cfg (snd g)) true (i_sp i) (ds_len mps i) r) = i_sp i).
  { intro r. unfold sp_eff. rewrite cg_in_sp, Edl. rewrite (trunc_small (c_spw _)) by lia.
    destruct (N.leb_spec (nlen (snd g)) (i_sp i)); [lia|]. apply trunc_small. lia. }
  rewrite !Esp. unfold rom. rewrite gen_cfg_words.
  destruct (N.ltb_spec 0 (ds_len mps i)); [|lia]. cbn [andb]. repeat split; reflexivity.
Qed.

Lemma stream_step : forall mps q g s sent i, gen_okb g = true -> mps < 65536 ->
  streaming mps q g s sent -> (fst g =? q_value q) = true -> i_value i = q_value q -> i_sp i = q_sp q ->
  ds_len mps i = lenq mps q -> i_start i = false ->
  let d := snd g in
  let rest := firstn (N.to_nat (lenq mps q - sent) - 1) (skipn (S (N.to_nat (q_sp q + sent))) d) in
  let last := match rest with [] => true | _ :: _ => false end in
  trunc 11 (snd (gen_step mps g s i)) = o_beat (nth (N.to_nat (q_sp q + sent)) d 0) (sent =? 0) last /\
  (if i_ready i
   then (if last then quiet (fst (gen_step mps g s i)) else streaming mps q g (fst (gen_step mps g s i)) (sent + 1))
   else streaming mps q g (fst (gen_step mps g s i)) sent).
Proof.
  intros mps q g [r st] sent i Hok Hm (Hr & Hf & Hsent & Hpos & Hlt & Hsl & Hml & Hrd) Hkey Ev Esp Elen Est d rest last.
  cbn [fst snd] in *. subst r.
  destruct (gen_cfg_consts (snd g)) as (Ebpw & Evw & _ & Edl & Ehm & Emw & Edw & _ & _).
  destruct (gen_widths g Hok) as [Hw1 Hw2]. destruct (gen_ok_facts g Hok) as (Hbytes & HL1 & HL2).
  assert (Hsel : (fst g =? i_value i) = true) by (rewrite Ev; exact Hkey).
  fold d in Hlt, Hrd, Hbytes, HL1, HL2, Hw1, Hw2, Edl, Ehm, Emw, Ebpw, Evw, Edw. set (cf := gen_cfg d) in *.
  assert (Hnat : (N.to_nat (q_sp q + sent) < length d)%nat) by (unfold nlen in Hlt; lia).
  set (ol := (g_pos st =? nlen d - 1) || (lenq mps q <=? sent + 1)).
  assert (Hlast : last = ol).
  { subst last rest ol. rewrite firstn_skipn_last. rewrite Hpos. unfold nlen in *.
    destruct (Nat.eqb_spec (N.to_nat (lenq mps q - sent) - 1) 0), (Nat.leb_spec (length d) (S (N.to_nat (q_sp q + sent)))),
             (N.eqb_spec (q_sp q + sent) (N.of_nat (length d) - 1)), (N.leb_spec (lenq mps q) (sent + 1)); cbn [orb]; try reflexivity; lia. }
  assert (Hol : ConstGen.on_last cf st = ol).
  { unfold ConstGen.on_last, e_data, e_max, mlv, bps. rewrite Ehm, Ebpw, Hml, Hsent. unfold nwords.
    unfold cf at 1. rewrite gen_cfg_words. reflexivity. }
  rewrite gen_step_eq, Hsel, Est. cbn [fst snd andb]. fold d. fold cf.
  set (gi := cg_in cf false (i_sp i) (ds_len mps i) (i_ready i)).
  assert (Egsp : ConstGen.i_sp cf gi = q_sp q).
  { unfold gi. rewrite cg_in_sp, Esp. apply trunc_small. lia. }
  assert (Egrd : ConstGen.i_ready cf gi = i_ready i) by (unfold gi; apply cg_in_ready; exact Ehm).
  rewrite Hlast.
  split.
  - (* the beat on the stream *)
    unfold cg_out. rewrite Hf.
    assert (Hrd256 : g_rd st < 256).
    { rewrite Hrd. unfold bytes_ok in Hbytes. rewrite Forall_forall in Hbytes. apply Hbytes. apply nth_In. unfold nlen in Hlt. lia. }
    rewrite trunc11_pack by (try assumption; unfold g_valid; rewrite Evw; cbn; lia).
    unfold g_valid. rewrite Evw. change (1 =? 1) with true. cbv iota.
    unfold o_beat. rewrite Hol. unfold ConstGen.on_first. rewrite Egsp, Hrd, Hpos.
    replace (q_sp q + sent =? q_sp q) with (sent =? 0) by (destruct (N.eqb_spec sent 0), (N.eqb_spec (q_sp q + sent) (q_sp q)); try reflexivity; lia).
    reflexivity.
  - (* the next state *)
    unfold cg_next. rewrite Hf, Egrd, Hol.
    destruct (i_ready i) eqn:Er.
    + destruct ol eqn:El.
      * unfold quiet. cbn [fst snd g_fsm]. split; [reflexivity | right; reflexivity].
      * subst ol.
        assert (Hp1 : g_pos st + 1 < nlen d) by lia.
        assert (Hs1 : sent + 1 < lenq mps q) by lia.
        unfold streaming. cbn [fst snd g_fsm g_sent g_pos g_ml g_rd]. fold d.
        rewrite Ehm, Ebpw, Emw, Hsent.
        assert (Ep : trunc (c_posw cf) (g_pos st + 1) = g_pos st + 1) by (apply trunc_small; lia).
        assert (Es : trunc 16 (sent + 1) = sent + 1) by (apply trunc_small; change (2 ^ 16) with 65536; unfold lenq in Hs1; lia).
        rewrite Ep, Es.
        repeat split; try reflexivity; try lia. unfold rom. unfold cf. rewrite gen_cfg_words. reflexivity.
    + unfold streaming. cbn [fst snd g_fsm g_sent g_pos g_ml g_rd]. fold d.
      repeat split; try assumption; try reflexivity. unfold rom. unfold cf. rewrite gen_cfg_words. reflexivity.
Qed.

(* ---------------------------------------------------------------------------------------------------------- *)
(* the bank of generators *)
Lemma gens_next_forall2 : forall mps i (P Q : dgen -> bool * cg_state -> Prop) gs ss,
  Forall2 P gs ss -> (forall g s, In g gs -> P g s -> Q g (fst (gen_step mps g s i))) ->
  Forall2 Q gs (gens_next mps gs ss i).
Proof.
  intros mps i P Q gs ss H. induction H as [|g s gs ss Hp _ IH]; intros HPQ; cbn [gens_next]; constructor.
  - apply HPQ; [left; reflexivity | exact Hp].
  - apply IH. intros g' s' Hin Hp'. apply HPQ; [right; exact Hin | exact Hp'].
Qed.

Lemma sel_out_none : forall mps i (P : dgen -> bool * cg_state -> Prop) gs ss,
  Forall2 P gs ss -> sel_desc gs (i_value i) = None -> sel_out mps gs ss i = None.
Proof.
  intros mps i P gs ss H. induction H as [|g s gs ss Hp _ IH]; intros Hs; [reflexivity|].
  cbn [sel_desc sel_out] in *. destruct (fst g =? i_value i); [discriminate | apply IH; exact Hs].
Qed.

Lemma sel_out_some : forall mps i (P : dgen -> bool * cg_state -> Prop) gs ss d,
  Forall2 P gs ss -> sel_desc gs (i_value i) = Some d ->
  exists g s, In g gs /\ (fst g =? i_value i) = true /\ snd g = d /\ P g s /\
              sel_out mps gs ss i = Some (snd (gen_step mps g s i)).
Proof.
  intros mps i P gs ss d H. induction H as [|g s gs ss Hp _ IH]; intros Hs; [discriminate|].
  cbn [sel_desc sel_out] in *. destruct (fst g =? i_value i) eqn:E.
  - inversion Hs; subst d. exists g, s. split; [left; reflexivity|]. split; [exact E|]. split; [reflexivity|].
    split; [exact Hp | reflexivity].
  - destruct (IH Hs) as (g' & s' & Hin & Hk & Hd & Hp' & Ho). exists g', s'. repeat split; try assumption. right; exact Hin.
Qed.

Lemma gens_env_forall2 : forall mps i (P : dgen -> bool * cg_state -> Prop) gs ss,
  Forall2 P gs ss -> (forall g s, In g gs -> P g s -> gen_env mps g s i = true) -> gens_env mps gs ss i = true.
Proof.
  intros mps i P gs ss H. induction H as [|g s gs ss Hp _ IH]; intros HP; [reflexivity|].
  cbn [gens_env]. rewrite (HP g s (or_introl eq_refl) Hp). cbn [andb].
  apply IH. intros g' s' Hin Hp'. apply HP; [right; exact Hin | exact Hp'].
Qed.

Lemma forall2_impl : forall (A B : Type) (P Q : A -> B -> Prop) l l', (forall a b, P a b -> Q a b) -> Forall2 P l l' -> Forall2 Q l l'.
Proof. intros A B P Q l l' H H2. induction H2; constructor; [apply H; assumption | assumption]. Qed.

Lemma quiet_env : forall mps g s i, quiet s -> gen_env mps g s i = true.
Proof. intros mps g [r st] i (Hr & Hf). cbn [fst snd] in *. subst r. unfold gen_env. cbn [fst snd]. destruct Hf as [-> | ->]; reflexivity. Qed.

Section Refine.
  Variable c : dcoll.
  Variable mps : N.
  Hypothesis F : coll_facts c.
  Hypothesis Hgens : gens_okb (dist_gens c) = true.
  Hypothesis Hmps : 1 <= mps /\ mps < 65536.

  Local Notation gens := (dist_gens c).
  Local Notation resp := (resp_of c mps).
  Local Notation lat := (ds_lat c).
  Local Notation lenq := (DescCommon.lenq mps).
  Local Notation fd := (DescCommon.fd c).

  Definition bank (q : dreq) (P : dgen -> bool * cg_state -> Prop) (st : ds_state) : Prop :=
    Forall2 (fun g s => if fst g =? q_value q then P g s else quiet s) gens (d_gens st).
  Definition all_quiet (st : ds_state) : Prop := Forall2 (fun _ s => quiet s) gens (d_gens st).
  Definition qfacts (q : dreq) : Prop := q_bounded q /\ req_legal c q = true.

  Definition rel (st : ds_state) (sg : sstate) : Prop :=
    match sg with
    | SIdle => d_zlp st = false /\ all_quiet st
    | SWait k q => qfacts q /\ exists d, fd q = Some d /\
        ((nlen d <= q_sp q /\ k = 0 /\ d_zlp st = true /\ all_quiet st) \/
         (q_sp q < nlen d /\ k = 1 /\ d_zlp st = false /\ bank q (fun _ s => armed s) st) \/
         (q_sp q < nlen d /\ k = 0 /\ d_zlp st = false /\ bank q (fun g s => streaming mps q g s 0) st))
    | SSend bs f q => qfacts q /\ exists d sent, fd q = Some d /\ d_zlp st = false /\
        bs = firstn (N.to_nat (lenq q - sent)) (skipn (N.to_nat (q_sp q + sent)) d) /\ f = (sent =? 0) /\
        bank q (fun g s => streaming mps q g s sent) st
    end.

  Lemma gen_ok_in : forall g, In g gens -> gen_okb g = true.
  Proof. intros g H. unfold gens_okb in Hgens. rewrite forallb_forall in Hgens. apply Hgens. exact H. Qed.

  Lemma sel_fd : forall q, q_bounded q -> sel_desc gens (q_value q) = fd q.
  Proof. intros q (Hv & _). apply sel_desc_find; assumption. Qed.

  Lemma key_data : forall q d g, q_bounded q -> fd q = Some d -> In g gens -> (fst g =? q_value q) = true -> snd g = d.
  Proof.
    intros q d g Hb Hf Hin Hk. apply N.eqb_eq in Hk. pose proof (gen_unique c g F Hin) as Hu.
    rewrite Hk, (sel_fd q Hb), Hf in Hu. congruence.
  Qed.

  Lemma ds_len_held : forall q i, qfacts q -> i_wlen i = q_wlen q -> i_sp i = q_sp q -> ds_len mps i = lenq q.
  Proof.
    intros q i ((_ & Hw & _) & Hl) Ew Es. unfold req_legal in Hl. apply andb_true_iff in Hl as [Hl _].
    unfold ds_len, DescCommon.lenq. rewrite Ew, Es.
    destruct (N.ltb_spec (q_wlen q) (q_sp q)); [lia|].
    destruct (N.leb_spec (q_wlen q - q_sp q) mps); [lia|]. rewrite trunc_small by (change (2 ^ 16) with 65536; lia). lia.
  Qed.

  Lemma lenq_bounds : forall q, qfacts q -> 1 <= lenq q /\ lenq q < 65536.
  Proof.
    intros q ((_ & Hw & _) & Hl). unfold req_legal in Hl. apply andb_true_iff in Hl as [Hl _].
    unfold DescCommon.lenq. lia.
  Qed.

  Lemma legal_sp_le : forall q d, qfacts q -> fd q = Some d -> q_sp q <= nlen d.
  Proof.
    intros q d (_ & Hl) Hf. unfold req_legal in Hl. unfold DescCommon.fd in Hf. rewrite Hf in Hl.
    apply andb_true_iff in Hl as [_ Hl]. lia.
  Qed.

  (* all generators quiet: what a cycle does, for an arbitrary input word *)
  Lemma quiet_cycle_out : forall st i, all_quiet st -> d_zlp st = false ->
    ds_out gens mps st i = if i_start i then (match sel_desc gens (i_value i) with Some _ => 0 | None => 2048 end) else 0.
  Proof.
    intros st i Hq Hz. unfold ds_out. rewrite Hz.
    destruct (sel_desc gens (i_value i)) as [d|] eqn:Es.
    - destruct (sel_out_some mps i _ _ _ d Hq Es) as (g & s & _ & _ & _ & Hqs & Ho). rewrite Ho.
      rewrite idle_out by (apply Hqs). destruct (i_start i); reflexivity.
    - rewrite (sel_out_none mps i _ _ _ Hq Es). destruct (i_start i); reflexivity.
  Qed.

  (* every generator quiet, start low: stays quiet *)
  Lemma quiet_cycle_next : forall st i, all_quiet st -> i_start i = false -> all_quiet (ds_next gens mps st i) /\ d_zlp (ds_next gens mps st i) = false.
  Proof.
    intros st i Hq Hs. unfold ds_next, all_quiet. cbn [d_gens d_zlp]. rewrite Hs. split.
    - apply (gens_next_forall2 mps i _ _ _ _ Hq). intros g s _ Hqs.
      destruct (fst g =? i_value i) eqn:E; [|apply quiet_next_unsel; assumption].
      destruct (quiet_next_sel mps g s i Hqs E) as [H1 H2]. rewrite Hs in H1. split; [exact H1 | left; exact H2].
    - destruct (sel_desc gens (i_value i)); reflexivity.
  Qed.

  Lemma quiet_cycle_env : forall st i, all_quiet st -> gens_env mps gens (d_gens st) i = true.
  Proof. intros st i Hq. apply (gens_env_forall2 mps i _ _ _ Hq). intros g s _ H. apply quiet_env. exact H. Qed.

  Lemma bank_env : forall st q P i, bank q P st ->
    (forall g s, In g gens -> (fst g =? q_value q) = true -> P g s -> gen_env mps g s i = true) ->
    gens_env mps gens (d_gens st) i = true.
  Proof.
    intros st q P i Hb HP. apply (gens_env_forall2 mps i _ _ _ Hb). intros g s Hin H.
    destruct (fst g =? q_value q) eqn:E; [apply HP; assumption | apply quiet_env; exact H].
  Qed.

  (* a cycle in which the selected generator streams *)
  Lemma send_case : forall st q d sent i, qfacts q -> fd q = Some d -> d_zlp st = false ->
    bank q (fun g s => streaming mps q g s sent) st -> held q i = true ->
    let bs := firstn (N.to_nat (lenq q - sent)) (skipn (N.to_nat (q_sp q + sent)) d) in
    ds_out gens mps st i = snd (send bs (sent =? 0) q i) /\
    rel (ds_next gens mps st i) (fst (send bs (sent =? 0) q i)) /\
    ds_env gens mps st i = true.
  Proof.
    intros st q d sent i Hq Hfd Hz Hb HE bs.
    destruct (held_fields _ _ HE) as (Ev & Ew & Esp & Est).
    pose proof (ds_len_held q i Hq Ew Esp) as Hlen. destruct Hq as [Hqb Hleg]. assert (Hq : qfacts q) by (split; assumption).
    assert (Hsel : sel_desc gens (i_value i) = Some d) by (rewrite Ev, (sel_fd q Hqb); exact Hfd).
    destruct (sel_out_some mps i _ _ _ d Hb Hsel) as (g & s & Hin & Hk & Hd & Hp & Ho).
    assert (Hkq : (fst g =? q_value q) = true) by (rewrite <- Ev; exact Hk). rewrite Hkq in Hp.
    pose proof (stream_step mps q g s sent i (gen_ok_in g Hin) (proj2 Hmps) Hp Hkq Ev Esp Hlen Est) as Hss.
    cbv zeta in Hss. rewrite Hd in Hss. destruct Hss as [Hout Hnext].
    destruct Hp as (_ & _ & _ & Hpos & Hlt & Hsl & _). rewrite Hd in Hlt.
    assert (Hnat : (N.to_nat (q_sp q + sent) < length d)%nat) by (unfold nlen in Hlt; lia).
    subst bs. rewrite (firstn_skipn_cons d (N.to_nat (lenq q - sent)) (N.to_nat (q_sp q + sent)) ltac:(lia) Hnat).
    set (rest := firstn (N.to_nat (lenq q - sent) - 1) (skipn (S (N.to_nat (q_sp q + sent))) d)) in *.
    cbn [send]. split; [|split].
    - unfold ds_out. rewrite Ho, Hz, N.lor_0_r. cbn [snd]. exact Hout.
    - (* next *)
      assert (Hz' : d_zlp (ds_next gens mps st i) = false).
      { unfold ds_next. cbn [d_zlp]. rewrite Est. destruct (sel_desc gens (i_value i)); reflexivity. }
      assert (Hstep : forall g' s', In g' gens -> (fst g' =? q_value q) = true -> streaming mps q g' s' sent ->
                (if i_ready i then (if match rest with [] => true | _ :: _ => false end then quiet (fst (gen_step mps g' s' i))
                                    else streaming mps q g' (fst (gen_step mps g' s' i)) (sent + 1))
                 else streaming mps q g' (fst (gen_step mps g' s' i)) sent)).
      { intros g' s' Hin' Hk' Hp'. pose proof (key_data q d g' Hqb Hfd Hin' Hk') as Hd'.
        pose proof (stream_step mps q g' s' sent i (gen_ok_in g' Hin') (proj2 Hmps) Hp' Hk' Ev Esp Hlen Est) as Hs'.
        cbv zeta in Hs'. rewrite Hd' in Hs'. exact (proj2 Hs'). }
      cbn [fst]. destruct (i_ready i) eqn:Er.
      + destruct rest as [|b rest'] eqn:Erest.
        * cbn [rel]. split; [exact Hz'|]. unfold all_quiet, ds_next. cbn [d_gens].
          apply (gens_next_forall2 mps i _ _ _ _ Hb). intros g' s' Hin' Hp'.
          destruct (fst g' =? q_value q) eqn:E.
          -- apply (Hstep g' s' Hin' E Hp').
          -- apply quiet_next_unsel; [exact Hp' | rewrite Ev; exact E].
        * cbn [rel]. split; [exact Hq|]. exists d, (sent + 1). split; [exact Hfd|]. split; [exact Hz'|].
          split; [rewrite <- Erest; subst rest; f_equal; [lia | f_equal; lia]|].
          split; [destruct (N.eqb_spec (sent + 1) 0); [lia | reflexivity]|].
          unfold bank, ds_next. cbn [d_gens].
          apply (gens_next_forall2 mps i _ _ _ _ Hb). intros g' s' Hin' Hp'.
          destruct (fst g' =? q_value q) eqn:E.
          -- apply (Hstep g' s' Hin' E Hp').
          -- apply quiet_next_unsel; [exact Hp' | rewrite Ev; exact E].
      + cbn [rel]. split; [exact Hq|]. exists d, sent. split; [exact Hfd|]. split; [exact Hz'|].
        split; [rewrite (firstn_skipn_cons d (N.to_nat (lenq q - sent)) (N.to_nat (q_sp q + sent)) ltac:(lia) Hnat); reflexivity|].
        split; [reflexivity|].
        unfold bank, ds_next. cbn [d_gens].
        apply (gens_next_forall2 mps i _ _ _ _ Hb). intros g' s' Hin' Hp'.
        destruct (fst g' =? q_value q) eqn:E.
        -- apply (Hstep g' s' Hin' E Hp').
        -- apply quiet_next_unsel; [exact Hp' | rewrite Ev; exact E].
    - (* the model-level environment assumption holds *)
      unfold ds_env. rewrite Hz, Est. rewrite andb_true_r, andb_true_r.
      apply (bank_env st q _ i Hb). intros g' s' Hin' Hk' (_ & Hf' & Hsent' & Hpos' & _ & _ & Hml' & _).
      unfold gen_env. rewrite Hf', Ev, Hk', Est, Esp, Hsent', Hpos', Hlen, Hml', !N.eqb_refl. reflexivity.
  Qed.

  Lemma resp_absent : forall q, fd q = None -> resp q = RStall.
  Proof. intros q H. unfold resp_of, respond. unfold DescCommon.fd in H. rewrite H. reflexivity. Qed.

  Lemma resp_present : forall q d, fd q = Some d ->
    resp q = RData (firstn (N.to_nat (lenq q)) (skipn (N.to_nat (q_sp q)) d)).
  Proof. intros q d H. unfold resp_of, respond. unfold DescCommon.fd in H. rewrite H. reflexivity. Qed.

  Lemma rel_step : forall st sg i, rel st sg -> s_env (req_legal c) sg i = true ->
    ds_out gens mps st i = snd (s_step resp lat sg i) /\ rel (ds_next gens mps st i) (fst (s_step resp lat sg i)) /\
    ds_env gens mps st i = true.
  Proof.
    intros st sg i HR HE. destruct sg as [|k q|bs f q].
    - (* idle *)
      cbn [rel] in HR. destruct HR as [Hz Hq]. cbn [s_env] in HE. cbn [s_step].
      pose proof (quiet_cycle_out st i Hq Hz) as Hout. pose proof (quiet_cycle_env st i Hq) as Henv.
      destruct (i_start i) eqn:Es.
      + (* a request *)
        set (q := req_of i) in *. pose proof (req_of_bounded i) as Hqb. fold q in Hqb.
        assert (Hqf : qfacts q) by (split; assumption).
        assert (Hsel : sel_desc gens (i_value i) = fd q) by (apply (sel_fd q Hqb)).
        assert (Henv' : ds_env gens mps st i = true).
        { unfold ds_env. rewrite Henv, Hz, Es. cbn [andb]. rewrite Hsel.
          unfold req_legal in HE. fold (fd q) in HE. exact HE. }
        unfold wait, ds_lat. fold (fd q). rewrite Hsel in Hout.
        destruct (fd q) as [d|] eqn:Efd.
        * pose proof (legal_sp_le q d Hqf Efd) as Hsp.
          assert (Hgn : forall P : dgen -> bool * cg_state -> Prop,
                    (forall g s, In g gens -> (fst g =? i_value i) = true -> quiet s ->
                       fst (fst (gen_step mps g s i)) = i_start i && negb (past_end mps (snd g) i) ->
                       g_fsm (snd (fst (gen_step mps g s i))) = IDLE -> P g (fst (gen_step mps g s i))) ->
                    Forall2 (fun g s => if fst g =? q_value q then P g s else quiet s) gens (gens_next mps gens (d_gens st) i)).
          { intros P HP. apply (gens_next_forall2 mps i _ _ _ _ Hq). intros g s Hin Hqs.
            change (q_value q) with (i_value i).
            destruct (fst g =? i_value i) eqn:E; [|apply quiet_next_unsel; assumption].
            destruct (quiet_next_sel mps g s i Hqs E) as [H1 H2]. apply HP; assumption. }
          destruct (N.leb_spec (nlen d) (q_sp q)) as [Hpe|Hpe].
          -- (* at the end of the descriptor: a zero-length packet next cycle *)
             change (1 =? 0) with false. cbv iota. cbn [fst snd]. split; [exact Hout|]. split; [|exact Henv'].
             cbn [rel]. split; [exact Hqf|]. exists d. split; [exact Efd|]. left.
             split; [exact Hpe|]. split; [reflexivity|]. split.
             ++ unfold ds_next. cbn [d_zlp]. rewrite Hsel, Es. unfold past_end.
                change (i_sp i) with (q_sp q). destruct (N.leb_spec (nlen d) (q_sp q)); [reflexivity | lia].
             ++ unfold all_quiet, ds_next. cbn [d_gens].
                apply (forall2_impl _ _ (fun (g : dgen) (s : bool * cg_state) => if fst g =? q_value q then quiet s else quiet s)).
                { intros g s Hgs. destruct (fst g =? q_value q); exact Hgs. }
                apply (Hgn (fun _ s => quiet s)).
                intros g s Hin E Hqs H1 H2. split; [|left; exact H2]. rewrite H1, Es.
                pose proof (key_data q d g Hqb Efd Hin E) as Hd. rewrite Hd. unfold past_end.
                change (i_sp i) with (q_sp q). destruct (N.leb_spec (nlen d) (q_sp q)); [reflexivity | lia].
          -- (* inside the descriptor: the generator is armed *)
             change (2 =? 0) with false. cbv iota. cbn [fst snd]. split; [exact Hout|]. split; [|exact Henv'].
             pose proof (ds_len_held q i Hqf eq_refl eq_refl) as Hlen. destruct (lenq_bounds q Hqf) as [Hl1 Hl2].
             assert (Hpe' : forall d', d' = d -> past_end mps d' i = false).
             { intros d' ->. unfold past_end. change (i_sp i) with (q_sp q). rewrite Hlen.
               destruct (N.leb_spec (nlen d) (q_sp q)); [lia|]. destruct (N.eqb_spec (lenq q) 0); [lia | reflexivity]. }
             cbn [rel]. split; [exact Hqf|]. exists d. split; [exact Efd|]. right. left.
             split; [exact Hpe|]. split; [reflexivity|]. split.
             ++ unfold ds_next. cbn [d_zlp]. rewrite Hsel, Es, (Hpe' d eq_refl). reflexivity.
             ++ unfold bank, ds_next. cbn [d_gens]. apply Hgn.
                intros g s Hin E Hqs H1 H2. split; [|exact H2]. rewrite H1, Es.
                rewrite (Hpe' _ (key_data q d g Hqb Efd Hin E)). reflexivity.
        * (* no such descriptor: stall in the same cycle *)
          change (0 =? 0) with true. cbv iota. unfold deliver. rewrite (resp_absent q Efd). cbn [fst snd].
          split; [exact Hout|]. split; [|exact Henv'].
          cbn [rel]. split.
          -- unfold ds_next. cbn [d_zlp]. rewrite Hsel. reflexivity.
          -- unfold all_quiet, ds_next. cbn [d_gens]. apply (gens_next_forall2 mps i _ _ _ _ Hq). intros g s Hin Hqs.
             destruct (fst g =? i_value i) eqn:E; [|apply quiet_next_unsel; assumption].
             exfalso. pose proof (gen_unique c g F Hin) as Hu. apply N.eqb_eq in E. rewrite E, Hsel in Hu. discriminate.
      + cbn [fst snd]. split; [exact Hout|]. destruct (quiet_cycle_next st i Hq Es) as [Hn1 Hn2]. split.
        * cbn [rel]. split; assumption.
        * unfold ds_env. rewrite Henv, Hz, Es. reflexivity.
    - (* waiting *)
      cbn [rel] in HR. destruct HR as (Hqf & d & Efd & HR). cbn [s_env] in HE. cbn [s_step]. unfold wait.
      destruct (held_fields _ _ HE) as (Ev & Ew & Esp & Est).
      pose proof (ds_len_held q i Hqf Ew Esp) as Hlen. destruct (lenq_bounds q Hqf) as [Hl1 Hl2].
      assert (Hqb : q_bounded q) by apply Hqf.
      assert (Hsel : sel_desc gens (i_value i) = Some d) by (rewrite Ev, (sel_fd q Hqb); exact Efd).
      destruct HR as [(Hpe & -> & Hz & Hq) | [(Hpe & -> & Hz & Hb) | (Hpe & -> & Hz & Hb)]].
      + (* the zero-length packet *)
        change (0 =? 0) with true. cbv iota. unfold deliver. rewrite (resp_present q d Efd).
        rewrite skipn_all2 by (unfold nlen in Hpe; lia). rewrite firstn_nil. cbn [fst snd].
        split; [|split].
        * unfold ds_out. rewrite Hz. destruct (sel_out_some mps i _ _ _ d Hq Hsel) as (g & s & _ & _ & _ & Hqs & Ho).
          rewrite Ho, idle_out by apply Hqs. reflexivity.
        * destruct (quiet_cycle_next st i Hq Est) as [Hn1 Hn2]. cbn [rel]. split; assumption.
        * unfold ds_env. rewrite (quiet_cycle_env st i Hq), Hz, Est. reflexivity.
      + (* armed: the generator starts streaming *)
        change (1 =? 0) with false. cbv iota. cbn [fst snd].
        split; [|split].
        * unfold ds_out. rewrite Hz. destruct (sel_out_some mps i _ _ _ d Hb Hsel) as (g & s & _ & Hk & _ & Hp & Ho).
          rewrite <- Ev, Hk in Hp. rewrite Ho, idle_out by (left; apply Hp). reflexivity.
        * cbn [rel]. split; [exact Hqf|]. exists d. split; [exact Efd|]. right. right.
          split; [exact Hpe|]. split; [reflexivity|]. split.
          -- unfold ds_next. cbn [d_zlp]. rewrite Hsel, Est. reflexivity.
          -- unfold bank, ds_next. cbn [d_gens]. apply (gens_next_forall2 mps i _ _ _ _ Hb). intros g s Hin Hp.
             destruct (fst g =? q_value q) eqn:E; [|apply quiet_next_unsel; [exact Hp | rewrite Ev; exact E]].
             pose proof (key_data q d g Hqb Efd Hin E) as Hd.
             assert (E' : (fst g =? i_value i) = true) by (rewrite Ev; exact E).
             pose proof (armed_next mps g s i (gen_ok_in g Hin) Hp E' Est ltac:(rewrite Esp, Hd; exact Hpe) ltac:(lia) ltac:(lia)) as Ha.
             cbv zeta in Ha. destruct Ha as (A1 & A2 & A3 & A4 & A5 & A6).
             unfold streaming. rewrite A1, A2, A3, A4, A5, A6, Esp, Hlen, N.add_0_r, Hd. repeat split; try reflexivity; lia.
        * unfold ds_env. rewrite Hz, Est. rewrite andb_true_r, andb_true_r.
          apply (bank_env st q _ i Hb). intros g s Hin Hk (Hr & Hf). unfold gen_env. rewrite Hf, Hr, Ev, Hk, Est. reflexivity.
      + (* first cycle of the data *)
        change (0 =? 0) with true. cbv iota. unfold deliver. rewrite (resp_present q d Efd).
        pose proof (send_case st q d 0 i Hqf Efd Hz Hb HE) as Hsc. cbv zeta in Hsc.
        rewrite N.sub_0_r, N.add_0_r in Hsc. change (0 =? 0) with true in Hsc.
        assert (Hnat : (N.to_nat (q_sp q) < length d)%nat) by (unfold nlen in Hpe; lia).
        pose proof (firstn_skipn_cons d (N.to_nat (lenq q)) (N.to_nat (q_sp q)) ltac:(lia) Hnat) as Ecs.
        rewrite Ecs in Hsc. rewrite Ecs. exact Hsc.
    - (* sending *)
      cbn [rel] in HR. destruct HR as (Hqf & d & sent & Efd & Hz & -> & -> & Hb). cbn [s_env] in HE. cbn [s_step].
      exact (send_case st q d sent i Hqf Efd Hz Hb HE).
  Qed.

  Theorem dist_refines_from : forall tr st sg, rel st sg ->
    env_ok sstate (s_step resp lat) (s_env (req_legal c)) sg tr = true ->
    run (ds_step gens mps) st tr = run (s_step resp lat) sg tr /\
    env_ok ds_state (ds_step gens mps) (ds_env gens mps) st tr = true.
  Proof.
    induction tr as [|i t IH]; intros st sg HR HE; [split; reflexivity|].
    cbn [env_ok] in HE. apply andb_true_iff in HE as [HE1 HE2].
    destruct (rel_step st sg i HR HE1) as (Ho & Hn & Hv).
    cbn [run env_ok ds_step fst]. destruct (s_step resp lat sg i) as [sg' o] eqn:Es. cbn [fst snd] in *.
    destruct (IH _ _ Hn HE2) as [IH1 IH2]. rewrite Ho, Hv, IH1, IH2. split; reflexivity.
  Qed.

  Lemma rel_init : rel (ds_init gens) SIdle.
  Proof.
    cbn [rel]. split; [reflexivity|]. unfold all_quiet, ds_init. cbn [d_gens]. clear Hgens.
    induction (dist_gens c) as [|g gs IH]; [constructor|]. cbn [map]. constructor; [|exact IH].
    split; [reflexivity | left; reflexivity].
  Qed.
End Refine.

Definition dist_okb (c : dcoll) : bool := gens_okb (dist_gens c).

(* The block-RAM-free handler (with the zero-length-packet fix), built from any well-formed collection of non-empty
   descriptors, answers every legal request sequence exactly as the specification machine does; and such a sequence
   satisfies the model-level environment assumption ds_env under which the netlist is tied to the model. *)
Theorem dist_refines : forall c mps, coll_okb c = true -> dist_okb c = true -> 1 <= mps /\ mps < 65536 -> forall tr,
  env_ok sstate (s_step (resp_of c mps) (ds_lat c)) (s_env (req_legal c)) SIdle tr = true ->
  run (ds_step (dist_gens c) mps) (ds_init (dist_gens c)) tr = run (s_step (resp_of c mps) (ds_lat c)) SIdle tr /\
  env_ok ds_state (ds_step (dist_gens c) mps) (ds_env (dist_gens c) mps) (ds_init (dist_gens c)) tr = true.
Proof.
  intros c mps Hc Hd Hm tr HE.
  apply (dist_refines_from c mps (coll_ok_facts c Hc) Hd Hm); [apply rel_init | exact HE].
Qed.
