(* C52 -- hand model of luna/gateware/interface/i2c.py: I2CInitiator together with its I2CBusDriver
   (open-drain outputs, two-stage input synchronisers), parametric in
       q       = period_cyc // 4   (reload value of the quarter-period timer; the timer never wraps, so its
                                    width does not matter)
       stretch = clk_stretch.
   The 25 FSM states are IDLE plus (group, step): six groups START / STOP / WRITE-DATA / WRITE-ACK /
   READ-DATA / READ-ACK, each running through the same four steps
       SclL  (code: scl_l)  wait for the strobe, pull SCL low
       Sda1  (code: stb_x)  wait for the strobe, set SDA for this bit        (SCL is low)
       SclH  (code: scl_h)  wait for the strobe, release SCL, wait until it is high, sample
       Sda2  (code: stb_x)  wait for the strobe; START/STOP move SDA here    (SCL is high)
   Shift registers are bit lists, most significant bit first.

   Packed input word (first port = least significant):
       start stop write read ack_i data_i[8] scl_in sda_in        (scl_in/sda_in = pads.scl.i / pads.sda.i)
   Packed output word:
       busy ack_o data_o[8] scl_o scl_oe sda_o sda_oe              (pads: o is constant 0, oe = not released) *)
From Coq Require Import NArith List Bool.
Import ListNotations.
From LunaLib Require Import Netlist Bits Machine.
Open Scope N_scope.

Inductive i2c_group := GStart | GStop | GWData | GWAck | GRData | GRAck.
Inductive i2c_phase := SclL | Sda1 | SclH | Sda2.
Inductive i2c_fsm := Idle | Ph (g : i2c_group) (k : i2c_phase).

Record i2c_in := { in_start : bool; in_stop : bool; in_write : bool; in_read : bool; in_ack : bool;
                   in_data : N; in_scl : bool; in_sda : bool }.

Definition i2c_decode (i : N) : i2c_in :=
  {| in_start := N.testbit i 0; in_stop := N.testbit i 1; in_write := N.testbit i 2; in_read := N.testbit i 3;
     in_ack := N.testbit i 4; in_data := bits i 5 8; in_scl := N.testbit i 13; in_sda := N.testbit i 14 |}.

Definition i2c_mk_in (start stop write read ack : bool) (data : N) (scl sda : bool) : N :=
  b2n start + 2 * b2n stop + 4 * b2n write + 8 * b2n read + 16 * b2n ack + 32 * (data mod 256)
  + 8192 * b2n scl + 16384 * b2n sda.

(* octet <-> bit list, most significant bit first *)
Definition msb8 (d : N) : list bool := rev (N2bits 8 d).
Definition of_msb (l : list bool) : N := bits2N (rev l).

Record i2c_state := {
  fsm : i2c_fsm; timer : N; busy : bool; bitno : N;
  w_shreg : list bool; r_shreg : list bool; data_o : list bool;
  r_ack : bool; ack_o : bool;
  scl_o : bool; sda_o : bool;                                   (* I2CBusDriver: 1 = released *)
  scl_s0 : bool; scl_i : bool; sda_s0 : bool; sda_i : bool      (* synchronisers: stage 0, synchronised value *)
}.

Definition zeros8 : list bool := repeat false 8.

Definition i2c_init : i2c_state :=
  {| fsm := Idle; timer := 0; busy := true; bitno := 0; w_shreg := zeros8; r_shreg := zeros8; data_o := zeros8;
     r_ack := false; ack_o := false; scl_o := true; sda_o := true;
     scl_s0 := true; scl_i := true; sda_s0 := true; sda_i := true |}.

(* shift left by one, zero fill / shift in a new least significant bit *)
Definition shl0 (l : list bool) : list bool := tl l ++ [false].
Definition shin (l : list bool) (b : bool) : list bool := tl l ++ [b].

Section I2c.
  Variable q : N.
  Variable stretch : bool.

  Definition stb (st : i2c_state) : bool := timer st =? 0.

  Definition timer_next (st : i2c_state) : N :=
    if (timer st =? 0) || negb (busy st) then q
    else if negb stretch || eqb (scl_o st) (scl_i st) then timer st - 1
    else timer st.

  (* exit condition of an SclH step: not in a strobe cycle, SCL released, and (if stretching is
     honoured) seen high *)
  Definition sclh_done (st : i2c_state) : bool :=
    negb (stb st) && scl_o st && (negb stretch || scl_i st).

  (* value driven on SDA by the Sda1 step of each group *)
  Definition sda1_value (st : i2c_state) (g : i2c_group) : bool :=
    match g with
    | GStart => true | GStop => false | GWData => hd false (w_shreg st) | GWAck => true | GRData => true
    | GRAck => negb (r_ack st)
    end.

  Definition after_sda2 (st : i2c_state) (g : i2c_group) : i2c_fsm :=
    match g with
    | GStart | GStop | GWAck | GRAck => Idle
    | GWData => if bitno st =? 7 then Ph GWAck SclL else Ph GWData SclL
    | GRData => if bitno st =? 7 then Ph GRAck SclL else Ph GRData SclL
    end.

  Definition i2c_next (st : i2c_state) (i : i2c_in) : i2c_state :=
    let t' := timer_next st in
    let mk f bz bn w r dout ra ao sc sd :=
      {| fsm := f; timer := t'; busy := bz; bitno := bn; w_shreg := w; r_shreg := r; data_o := dout;
         r_ack := ra; ack_o := ao; scl_o := sc; sda_o := sd;
         scl_s0 := in_scl i; scl_i := scl_s0 st; sda_s0 := in_sda i; sda_i := sda_s0 st |} in
    let same f := mk f (busy st) (bitno st) (w_shreg st) (r_shreg st) (data_o st) (r_ack st) (ack_o st)
                     (scl_o st) (sda_o st) in
    match fsm st with
    | Idle =>
        if in_start i then
          mk (if scl_i st && sda_i st then Ph GStart Sda2 else if negb (scl_i st) then Ph GStart SclH else Ph GStart SclL)
             true (bitno st) (w_shreg st) (r_shreg st) (data_o st) (r_ack st) (ack_o st) (scl_o st) (sda_o st)
        else if in_stop i then
          mk (if scl_i st && negb (sda_o st) then Ph GStop Sda2 else if negb (scl_i st) then Ph GStop SclH else Ph GStop SclL)
             true (bitno st) (w_shreg st) (r_shreg st) (data_o st) (r_ack st) (ack_o st) (scl_o st) (sda_o st)
        else if in_write i then
          mk (Ph GWData SclL) true (bitno st) (msb8 (in_data i)) (r_shreg st) (data_o st) (r_ack st) (ack_o st)
             (scl_o st) (sda_o st)
        else if in_read i then
          mk (Ph GRData SclL) true (bitno st) (w_shreg st) (r_shreg st) (data_o st) (in_ack i) (ack_o st)
             (scl_o st) (sda_o st)
        else
          mk Idle false (bitno st) (w_shreg st) (r_shreg st) (data_o st) (r_ack st) (ack_o st) (scl_o st) (sda_o st)
    | Ph g SclL =>
        if stb st then
          mk (Ph g Sda1) (busy st) (bitno st) (w_shreg st) (r_shreg st) (data_o st) (r_ack st) (ack_o st) false (sda_o st)
        else same (Ph g SclL)
    | Ph g Sda1 =>
        if stb st then
          mk (Ph g SclH) (busy st) (bitno st) (w_shreg st) (r_shreg st) (data_o st) (r_ack st) (ack_o st)
             (scl_o st) (sda1_value st g)
        else same (Ph g Sda1)
    | Ph g SclH =>
        if stb st then
          mk (Ph g SclH) (busy st) (bitno st) (w_shreg st) (r_shreg st) (data_o st) (r_ack st) (ack_o st) true (sda_o st)
        else if sclh_done st then
          match g with
          | GStart | GStop => same (Ph g Sda2)
          | GWData => mk (Ph g Sda2) (busy st) (bitno st) (shl0 (w_shreg st)) (r_shreg st) (data_o st) (r_ack st)
                         (ack_o st) (scl_o st) (sda_o st)
          | GWAck => mk (Ph g Sda2) (busy st) (bitno st) (w_shreg st) (r_shreg st) (data_o st) (r_ack st)
                        (negb (sda_i st)) (scl_o st) (sda_o st)
          | GRData => mk (Ph g Sda2) (busy st) (bitno st) (w_shreg st) (shin (r_shreg st) (sda_i st)) (data_o st)
                         (r_ack st) (ack_o st) (scl_o st) (sda_o st)
          | GRAck => mk (Ph g Sda2) (busy st) (bitno st) (w_shreg st) (r_shreg st) (r_shreg st) (r_ack st)
                        (ack_o st) (scl_o st) (sda_o st)
          end
        else same (Ph g SclH)
    | Ph g Sda2 =>
        if stb st then
          mk (after_sda2 st g) (busy st)
             (match g with GWData | GRData => (bitno st + 1) mod 8 | _ => bitno st end)
             (w_shreg st) (r_shreg st) (data_o st) (r_ack st) (ack_o st) (scl_o st)
             (match g with GStart => false | GStop => true | _ => sda_o st end)
        else same (Ph g Sda2)
    end.

  Definition i2c_out (st : i2c_state) : N :=
    b2n (busy st) + 2 * b2n (ack_o st) + 4 * of_msb (data_o st)
    + 2048 * b2n (negb (scl_o st)) + 8192 * b2n (negb (sda_o st)).

  Definition i2c_step (st : i2c_state) (i : N) : i2c_state * N := (i2c_next st (i2c_decode i), i2c_out st).
End I2c.

(* ------------------------------------------------------------------------------------------ *)
(* Packing of the model state for lock-step obligations (timer on top: it is unbounded here)   *)
Definition grp_code (g : i2c_group) : N :=
  match g with GStart => 0 | GStop => 1 | GWData => 2 | GWAck => 3 | GRData => 4 | GRAck => 5 end.
Definition stp_code (k : i2c_phase) : N := match k with SclL => 0 | Sda1 => 1 | SclH => 2 | Sda2 => 3 end.
Definition fsm_code (f : i2c_fsm) : N := match f with Idle => 0 | Ph g k => 1 + stp_code k + 4 * grp_code g end.
Definition fsm_of (n : N) : i2c_fsm :=
  match n with
  | 0 => Idle
  | _ => let m := n - 1 in
         Ph (match m / 4 with 0 => GStart | 1 => GStop | 2 => GWData | 3 => GWAck | 4 => GRData | _ => GRAck end)
            (match m mod 4 with 0 => SclL | 1 => Sda1 | 2 => SclH | _ => Sda2 end)
  end.

Definition ipk (w a r : N) : N := a + N.shiftl r w.

Definition i2c_enc (st : i2c_state) : N :=
  ipk 5 (fsm_code (fsm st)) (ipk 1 (b2n (busy st)) (ipk 3 (bitno st)
  (ipk 8 (of_msb (w_shreg st)) (ipk 8 (of_msb (r_shreg st)) (ipk 8 (of_msb (data_o st))
  (ipk 1 (b2n (r_ack st)) (ipk 1 (b2n (ack_o st)) (ipk 1 (b2n (scl_o st)) (ipk 1 (b2n (sda_o st))
  (ipk 1 (b2n (scl_s0 st)) (ipk 1 (b2n (scl_i st)) (ipk 1 (b2n (sda_s0 st)) (ipk 1 (b2n (sda_i st))
  (timer st)))))))))))))).

Definition i2c_dec (m : N) : i2c_state :=
  let f := N.land m (N.ones 5) in let m := N.shiftr m 5 in
  let bz := N.odd m in let m := N.div2 m in
  let bn := N.land m (N.ones 3) in let m := N.shiftr m 3 in
  let w := N.land m (N.ones 8) in let m := N.shiftr m 8 in
  let r := N.land m (N.ones 8) in let m := N.shiftr m 8 in
  let d := N.land m (N.ones 8) in let m := N.shiftr m 8 in
  let ra := N.odd m in let m := N.div2 m in
  let ao := N.odd m in let m := N.div2 m in
  let sc := N.odd m in let m := N.div2 m in
  let sd := N.odd m in let m := N.div2 m in
  let c0 := N.odd m in let m := N.div2 m in
  let c1 := N.odd m in let m := N.div2 m in
  let d0 := N.odd m in let m := N.div2 m in
  let d1 := N.odd m in let m := N.div2 m in
  {| fsm := fsm_of f; timer := m; busy := bz; bitno := bn; w_shreg := msb8 w; r_shreg := msb8 r; data_o := msb8 d;
     r_ack := ra; ack_o := ao; scl_o := sc; sda_o := sd; scl_s0 := c0; scl_i := c1; sda_s0 := d0; sda_i := d1 |}.

Definition i2c_wf (st : i2c_state) : Prop :=
  bitno st < 8 /\ length (w_shreg st) = 8%nat /\ length (r_shreg st) = 8%nat /\ length (data_o st) = 8%nat.

(* ------------------------------------------------------------------------------------------ *)
(* Environment classes and alphabets for the reachability obligations.
   i2c_env D P allow_w allow_r legal_scl :
     - requests, ack_i only while the FSM is in IDLE (they are ignored elsewhere); data_i = D;
       write / read requests only if allowed;
     - open-drain bus: a line the initiator pulls low reads low;
     - while a data bit is being read the target drives bit `bitno` of the octet P (MSB first);
     - legal_scl: the target only ever *holds* SCL low (clock stretching): a released SCL line that
       was high in the previous cycle stays high. *)
Definition is_idle (st : i2c_state) : bool := match fsm st with Idle => true | _ => false end.
Definition in_rdata (st : i2c_state) : bool := match fsm st with Ph GRData _ => true | _ => false end.

Definition i2c_env (D : N) (P : list bool) (allow_w allow_r legal_scl : bool) (st : i2c_state) (i : N) : bool :=
  let d := i2c_decode i in
  (is_idle st || negb (in_start d || in_stop d || in_write d || in_read d || in_ack d))
  && (in_data d =? D)
  && (allow_w || negb (in_write d)) && (allow_r || negb (in_read d))
  && (scl_o st || negb (in_scl d)) && (sda_o st || negb (in_sda d))
  && (negb (in_rdata st) || eqb (in_sda d) (sda_o st && nth (N.to_nat (bitno st)) P true))
  && (negb legal_scl || negb (scl_o st && scl_s0 st) || in_scl d).

Definition i2c_alphabet (reqs : list (bool * bool * bool * bool)) (D : N) : list N :=
  flat_map (fun r => match r with (a, b, c, d) =>
    flat_map (fun ack => flat_map (fun scl => map (fun sda => i2c_mk_in a b c d ack D scl sda) [false; true])
      [false; true]) (if d then [false; true] else [false]) end) reqs.   (* ack_i only matters with a read request *)

Definition i2c_reqs : list (bool * bool * bool * bool) :=
  [(false,false,false,false); (true,false,false,false); (false,true,false,false); (false,false,true,false);
   (false,false,false,true); (true,true,true,true); (false,true,true,true); (false,false,true,true)].

(* ------------------------------------------------------------------------------------------ *)
(* Ghost record of the operation in progress / last completed, used to state what a write and a
   read put on / take from the bus.  It only observes the model:
     g_rises    the initiator's SDA output at each step in which its SCL output goes low -> released
                (one entry per SCL pulse it generates), since the request was accepted;
     g_samples  the synchronised SDA input in each step in which the FSM samples it
                (into ack_o for a write, into r_shreg for a read);
     g_data / g_ack   data_i / ack_i presented with the accepted request. *)
Inductive op_kind := OpNone | OpStart | OpStop | OpWrite | OpRead.
Record ghost := { g_op : op_kind; g_data : list bool; g_ack : bool; g_rises : list bool; g_samples : list bool }.
Definition ghost0 : ghost := {| g_op := OpNone; g_data := []; g_ack := false; g_rises := []; g_samples := [] |}.

Definition accepted (st : i2c_state) (i : i2c_in) : op_kind :=
  match fsm st with
  | Idle => if in_start i then OpStart else if in_stop i then OpStop else if in_write i then OpWrite
            else if in_read i then OpRead else OpNone
  | _ => OpNone
  end.

Section Ghost.
  Variable q : N.
  Variable stretch : bool.

  (* the FSM takes a sample of SDA in this step *)
  Definition samples_now (st : i2c_state) : bool :=
    match fsm st with
    | Ph GWAck SclH | Ph GRData SclH => sclh_done stretch st
    | _ => false
    end.

  Definition ghost_next (st : i2c_state) (i : i2c_in) (g : ghost) : ghost :=
    match accepted st i with
    | OpNone =>
        let st' := i2c_next q stretch st i in
        {| g_op := g_op g; g_data := g_data g; g_ack := g_ack g;
           g_rises := g_rises g ++ (if negb (scl_o st) && scl_o st' then [sda_o st] else []);
           g_samples := g_samples g ++ (if samples_now st then [sda_i st] else []) |}
    | k => {| g_op := k; g_data := msb8 (in_data i); g_ack := in_ack i; g_rises := []; g_samples := [] |}
    end.

  Fixpoint grun (st : i2c_state) (g : ghost) (tr : list N) : i2c_state * ghost :=
    match tr with
    | [] => (st, g)
    | i :: t => let d := i2c_decode i in grun (i2c_next q stretch st d) (ghost_next st d g) t
    end.
End Ghost.
