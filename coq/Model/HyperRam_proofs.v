(* C53 -- proofs about the HyperRAMInterface model (Model/HyperRam.v):
     hyperram_refines     the code-shaped model equals the HyperBus transaction specification hb_step on
                          every input trace (outputs compared after hr_norm), for every latency L < 2^lw;
     hb_command_phase,    closed-form shape of a transaction of the specification (command phase,
     hb_latency_phase,    latency phase, bus ownership in every phase);
     hb_bus_released
     packing lemmas for the lock-step obligations.                                                   *)
From Coq Require Import NArith ZArith List Bool Lia ZifyBool ZifyN.
Import ListNotations.
From LunaLib Require Import Netlist Machine.
From LunaModel Require Import HyperRam.
Open Scope N_scope.
Ltac Zify.zify_post_hook ::= Z.div_mod_to_equations.

(* ------------------------------------------------------------------------------------------ *)
(* input words are bounded                                                                     *)
Lemma bits_lt : forall x lo w, bits x lo w < 2 ^ w.
Proof.
  intros. unfold bits. rewrite N.land_ones. apply N.mod_lt. apply N.pow_nonzero. discriminate.
Qed.

Definition in_wf (d : hr_in) : Prop := i_addr d < 2^32 /\ i_wdata d < 2^16 /\ i_dq d < 2^16.

Lemma hr_decode_wf : forall i, in_wf (hr_decode i).
Proof. intros i. unfold in_wf, hr_decode. cbn [i_addr i_wdata i_dq]. repeat split; apply bits_lt. Qed.

Lemma hb_ca_word_lt : forall ca k, hb_ca_word ca k < 2^16.
Proof.
  intros ca k. unfold hb_ca_word.
  destruct k as [|[p|p|]]; apply N.mod_lt; discriminate.
Qed.

(* ------------------------------------------------------------------------------------------ *)
(* abstraction of a model state to a specification state                                       *)
Definition bus_of (st : hr_state) : bus_cycle :=
  if negb (r_cs st) then Deselect
  else if negb (r_clk_en st) then Setup
  else if negb (r_dq_e st) then Listen
  else if r_rwds_e st then DriveMasked (r_dq_o st) else Drive (r_dq_o st).

Definition phase_of (st : hr_state) : hb_phase :=
  match fsm st with
  | H_IDLE => PIdle | H_LATCH_RWDS => PCommand 0 | H_SHIFT0 => PCommand 1 | H_SHIFT1 => PCommand 2
  | H_SHIFT2 => PCommand 3 | H_LATENCY => PLatency (lat st) | H_READ => PRead | H_WRITE => PWrite
  | H_RECOVERY => PRecover
  end.

Definition abs (st : hr_state) : hb_state :=
  {| ph := phase_of st; c_read := is_read st; c_reg := is_reg st; c_linear := is_multi st; c_addr := cur_addr st;
     bus := bus_of st; p_rwds0 := lh_rwds st; p_dq_lo := lh_dq st |}.

(* invariant of the model: the PHY flag registers are in one of the five legal combinations,
   the DQ register fits its width, and the latency counter never exceeds the loaded value *)
Definition flags_ok (st : hr_state) : Prop :=
  (r_cs st = false -> r_clk_en st = false) /\
  (r_clk_en st = false -> r_dq_e st = false) /\
  (r_dq_e st = false -> r_rwds_e st = false).

Definition inv (L : N) (st : hr_state) : Prop :=
  flags_ok st /\ r_dq_o st < 2^16 /\ (fsm st = H_LATENCY -> lat st <= L).

Lemma inv_init : forall L, inv L hr_init.
Proof. intros L. unfold inv, flags_ok, hr_init. cbn. repeat split; try reflexivity; try discriminate. Qed.

Lemma abs_init : abs hr_init = hb_init.
Proof. reflexivity. Qed.

(* ------------------------------------------------------------------------------------------ *)
(* outputs                                                                                     *)
Lemma pack_status_mult : forall a r w, exists y, pack_status a r w = 2^23 * y.
Proof.
  intros a r w. unfold pack_status. destruct r as [x|].
  - exists (b2n a + 4 * b2n w + (2 + 8 * x)). lia.
  - exists (b2n a + 4 * b2n w). lia.
Qed.

Lemma norm_phy : forall c q e r s y, q < 2^16 ->
  hr_norm (pack_phy c q e r s + 2^23 * y) = pack_phy c (if e then q else 0) e r s + 2^23 * y.
Proof.
  intros c q e r s y Hq. unfold hr_norm, pack_phy.
  change (2^16) with 65536 in *. change (2^17) with 131072. change (2^20) with 1048576.
  change (2^21) with 2097152. change (2^23) with 8388608.
  destruct c, e, r, s; cbn [b2n];
    match goal with |- context [if ?b then _ else _] => destruct b eqn:E end; lia.
Qed.

Lemma render_bus_of : forall st, flags_ok st ->
  render (bus_of st) = pack_phy (r_clk_en st) (if r_dq_e st then r_dq_o st else 0) (r_dq_e st) (r_rwds_e st) (r_cs st).
Proof.
  intros st (H1 & H2 & H3). unfold bus_of.
  destruct (r_cs st), (r_clk_en st), (r_dq_e st), (r_rwds_e st); cbn [negb render];
    try reflexivity; try (specialize (H1 eq_refl)); try (specialize (H2 eq_refl)); try (specialize (H3 eq_refl));
    discriminate.
Qed.

Lemma abs_out : forall L st d, inv L st -> hr_norm (hr_out st d) = hb_out (abs st) d.
Proof.
  intros L st d (Hf & Hq & _). unfold hr_out, hb_out.
  assert (E : pack_status (match ph (abs st) with PIdle => true | _ => false end)
                          (match ph (abs st) with PRead => read_word (p_rwds0 (abs st)) (p_dq_lo (abs st)) d | _ => None end)
                          (match ph (abs st) with PWrite => true | _ => false end)
              = pack_status (match fsm st with H_IDLE => true | _ => false end)
                            (match fsm st with H_READ => read_word (lh_rwds st) (lh_dq st) d | _ => None end)
                            (match fsm st with H_WRITE => true | _ => false end)).
  { unfold abs, phase_of. cbn [ph p_rwds0 p_dq_lo]. destruct (fsm st); reflexivity. }
  rewrite E. destruct (pack_status_mult (match fsm st with H_IDLE => true | _ => false end)
                        (match fsm st with H_READ => read_word (lh_rwds st) (lh_dq st) d | _ => None end)
                        (match fsm st with H_WRITE => true | _ => false end)) as [y Hy].
  rewrite Hy. rewrite norm_phy by exact Hq. f_equal.
  unfold abs. cbn [bus]. symmetry. apply render_bus_of. exact Hf.
Qed.

(* ------------------------------------------------------------------------------------------ *)
(* one step                                                                                    *)
Section Step.
  Variables L lw : N.
  Hypothesis HL : L < 2 ^ lw.

  Lemma dec_wrap : forall n, 0 < n -> n <= L -> (n + 2^lw - 1) mod 2^lw = n - 1.
  Proof.
    intros n H0 H1. replace (n + 2^lw - 1) with ((n - 1) + 1 * 2^lw) by lia.
    rewrite N.mod_add by (apply N.pow_nonzero; discriminate). apply N.mod_small. lia.
  Qed.

  Lemma abs_next : forall st d, inv L st -> in_wf d ->
    hb_next L (abs st) d = abs (hr_next L lw st d) /\ inv L (hr_next L lw st d).
  Proof.
    intros st d (Hf & Hq & Hl) (Ha & Hw & Hd).
    destruct st as [f rd rg mu ad el la lr ld ce cs re de dq].
    unfold inv, flags_ok, abs, phase_of, bus_of, hb_next, hr_next, with_phase, hb_cmd_ca, hr_ca in *.
    cbn [fsm is_read is_reg is_multi cur_addr extra_lat lat lh_rwds lh_dq r_clk_en r_cs r_rwds_e r_dq_e r_dq_o
         ph c_read c_reg c_linear c_addr bus p_rwds0 p_dq_lo] in *.
    destruct f.
    - (* IDLE *)
      destruct (i_start d); cbn [fsm is_read is_reg is_multi cur_addr extra_lat lat lh_rwds lh_dq r_clk_en r_cs
                                 r_rwds_e r_dq_e r_dq_o negb];
        (split; [reflexivity | repeat split; try reflexivity; try discriminate; try lia]).
    - (* LATCH_RWDS *)
      cbn [fsm is_read is_reg is_multi cur_addr extra_lat lat lh_rwds lh_dq r_clk_en r_cs r_rwds_e r_dq_e r_dq_o negb].
      split; [reflexivity | repeat split; try reflexivity; try discriminate; try assumption].
    - (* SHIFT0 *)
      cbn [fsm is_read is_reg is_multi cur_addr extra_lat lat lh_rwds lh_dq r_clk_en r_cs r_rwds_e r_dq_e r_dq_o negb].
      split; [reflexivity | repeat split; try reflexivity; try discriminate; try apply hb_ca_word_lt].
    - (* SHIFT1 *)
      cbn [fsm is_read is_reg is_multi cur_addr extra_lat lat lh_rwds lh_dq r_clk_en r_cs r_rwds_e r_dq_e r_dq_o negb].
      split; [reflexivity | repeat split; try reflexivity; try discriminate; try apply hb_ca_word_lt].
    - (* SHIFT2 *)
      change (3 <? 3) with false. change (3 - 1) with 2. cbv iota.
      destruct (rg && negb rd);
        cbn [fsm is_read is_reg is_multi cur_addr extra_lat lat lh_rwds lh_dq r_clk_en r_cs r_rwds_e r_dq_e r_dq_o negb];
        (split; [reflexivity | repeat split; try reflexivity; try discriminate; try apply hb_ca_word_lt; try lia]).
    - (* LATENCY *)
      specialize (Hl eq_refl).
      destruct (la =? 0) eqn:E0.
      + destruct rd;
          cbn [fsm is_read is_reg is_multi cur_addr extra_lat lat lh_rwds lh_dq r_clk_en r_cs r_rwds_e r_dq_e r_dq_o negb];
          (split; [reflexivity | repeat split; try reflexivity; try discriminate; try assumption]).
      + cbn [fsm is_read is_reg is_multi cur_addr extra_lat lat lh_rwds lh_dq r_clk_en r_cs r_rwds_e r_dq_e r_dq_o negb].
        rewrite dec_wrap by lia.
        split; [reflexivity | repeat split; try reflexivity; try discriminate; try assumption]. intros _. lia.
    - (* READ *)
      destruct (match read_word lr ld d with Some _ => i_final d | None => false end);
        cbn [fsm is_read is_reg is_multi cur_addr extra_lat lat lh_rwds lh_dq r_clk_en r_cs r_rwds_e r_dq_e r_dq_o negb];
        (split; [reflexivity | repeat split; try reflexivity; try discriminate; try assumption]).
    - (* WRITE *)
      destruct rg; [| destruct (i_final d)];
        cbn [fsm is_read is_reg is_multi cur_addr extra_lat lat lh_rwds lh_dq r_clk_en r_cs r_rwds_e r_dq_e r_dq_o negb];
        (split; [reflexivity | repeat split; try reflexivity; try discriminate; try assumption]).
    - (* RECOVERY *)
      cbn [fsm is_read is_reg is_multi cur_addr extra_lat lat lh_rwds lh_dq r_clk_en r_cs r_rwds_e r_dq_e r_dq_o negb].
      split; [reflexivity | repeat split; try reflexivity; try discriminate; try assumption].
  Qed.

  Theorem hyperram_refines_from : forall tr st, inv L st ->
    map hr_norm (run (hr_step L lw) st tr) = run (hb_step L) (abs st) tr.
  Proof.
    induction tr as [|i t IH]; intros st Hi; [reflexivity|].
    cbn [run hr_step hb_step map].
    destruct (abs_next st (hr_decode i) Hi (hr_decode_wf i)) as [En Hi'].
    rewrite (abs_out L st _ Hi). rewrite En. f_equal. apply IH. exact Hi'.
  Qed.

  Corollary hyperram_refines : forall tr,
    map hr_norm (run (hr_step L lw) hr_init tr) = run (hb_step L) hb_init tr.
  Proof. intros tr. rewrite <- abs_init. apply hyperram_refines_from. apply inv_init. Qed.
End Step.

(* ------------------------------------------------------------------------------------------ *)
(* Shape of a transaction of the specification machine                                         *)
Section SpecShape.
  Variable L : N.

  Definition hb_quiet (b : bus_cycle) : N := render b + pack_status false None false.

  (* Command phase.  A request accepted in an idle cycle (inputs i0) is followed, whatever the inputs
     i1..i4 are, by two Setup cycles and the command-address words CA[47:32], CA[31:16] on the bus; after
     the fifth cycle CA[15:0] is on the bus and the controller is in the zero-latency write phase
     (register write) or starts the latency count L. *)
  Theorem hb_command_phase : forall s i0 i1 i2 i3 i4,
    ph s = PIdle -> i_start (hr_decode i0) = true ->
    let d := hr_decode i0 in
    let ca := hb_ca (negb (i_write d)) (i_reg d) (negb (i_single d)) (i_addr d) in
    let s' := run_state (hb_step L) s [i0; i1; i2; i3; i4] in
    tl (run (hb_step L) s [i0; i1; i2; i3; i4])
      = [hb_quiet Setup; hb_quiet Setup; hb_quiet (Drive (hb_ca_word ca 0)); hb_quiet (Drive (hb_ca_word ca 1))]
    /\ bus s' = Drive (hb_ca_word ca 2)
    /\ ph s' = (if i_reg d && i_write d then PWrite else PLatency L)
    /\ c_read s' = negb (i_write d) /\ c_reg s' = i_reg d /\ c_linear s' = negb (i_single d) /\ c_addr s' = i_addr d.
  Proof.
    intros s i0 i1 i2 i3 i4 Hp Hs. cbv zeta.
    destruct s as [p cr cg cl ca b pr pd]. cbn [ph] in Hp. subst p.
    unfold hb_quiet. cbn [run run_state hb_step fst tl].
    set (d := hr_decode i0) in *.
    match goal with |- context [hb_next L ?s d] => set (s1 := hb_next L s d) end.
    assert (E1 : s1 = {| ph := PCommand 0; c_read := negb (i_write d); c_reg := i_reg d; c_linear := negb (i_single d);
                         c_addr := i_addr d; bus := Setup; p_rwds0 := pr; p_dq_lo := pd |}).
    { unfold s1, hb_next. cbn [ph]. rewrite Hs. reflexivity. }
    clearbody s1. subst s1.
    match goal with |- context [hb_next L ?s (hr_decode i1)] => set (s2 := hb_next L s (hr_decode i1)) end.
    assert (E2 : s2 = {| ph := PCommand 1; c_read := negb (i_write d); c_reg := i_reg d; c_linear := negb (i_single d);
                         c_addr := i_addr d; bus := Setup; p_rwds0 := pr; p_dq_lo := pd |}) by reflexivity.
    clearbody s2. subst s2.
    match goal with |- context [hb_next L ?s (hr_decode i2)] => set (s3 := hb_next L s (hr_decode i2)) end.
    set (ca0 := hb_ca (negb (i_write d)) (i_reg d) (negb (i_single d)) (i_addr d)).
    assert (E3 : s3 = {| ph := PCommand 2; c_read := negb (i_write d); c_reg := i_reg d; c_linear := negb (i_single d);
                         c_addr := i_addr d; bus := Drive (hb_ca_word ca0 0); p_rwds0 := pr; p_dq_lo := pd |}) by reflexivity.
    clearbody s3. subst s3.
    match goal with |- context [hb_next L ?s (hr_decode i3)] => set (s4 := hb_next L s (hr_decode i3)) end.
    assert (E4 : s4 = {| ph := PCommand 3; c_read := negb (i_write d); c_reg := i_reg d; c_linear := negb (i_single d);
                         c_addr := i_addr d; bus := Drive (hb_ca_word ca0 1); p_rwds0 := pr; p_dq_lo := pd |}) by reflexivity.
    clearbody s4. subst s4.
    match goal with |- context [hb_next L ?s (hr_decode i4)] => set (s5 := hb_next L s (hr_decode i4)) end.
    assert (E5 : s5 = {| ph := if i_reg d && negb (negb (i_write d)) then PWrite else PLatency L;
                         c_read := negb (i_write d); c_reg := i_reg d; c_linear := negb (i_single d);
                         c_addr := i_addr d; bus := Drive (hb_ca_word ca0 2); p_rwds0 := pr; p_dq_lo := pd |}) by reflexivity.
    clearbody s5. subst s5.
    unfold hb_out. cbn [ph c_read c_reg c_linear c_addr bus]. rewrite negb_involutive.
    repeat split; reflexivity.
  Qed.

  (* Latency phase: n+1 cycles; the bus shows what the previous phase handed over, then n Listen cycles;
     afterwards the data phase named by the command begins with Listen still on the bus. *)
  Theorem hb_latency_phase : forall n s tr,
    ph s = PLatency (N.of_nat n) -> length tr = S n ->
    let s' := run_state (hb_step L) s tr in
    run (hb_step L) s tr = hb_quiet (bus s) :: repeat (hb_quiet Listen) n
    /\ ph s' = (if c_read s then PRead else PWrite) /\ bus s' = Listen
    /\ c_read s' = c_read s /\ c_reg s' = c_reg s /\ c_linear s' = c_linear s /\ c_addr s' = c_addr s.
  Proof.
    induction n as [|n IH]; intros s tr Hp Hl; cbv zeta.
    - destruct tr as [|i [|? ?]]; try discriminate.
      destruct s as [p cr cg cl ca b pr pd]. cbn [ph] in Hp. subst p.
      cbn [run run_state hb_step fst repeat]. unfold hb_next, hb_out, with_phase, hb_quiet.
      cbn [ph c_read c_reg c_linear c_addr bus N.of_nat]. change (0 =? 0) with true. cbv iota.
      destruct cr; repeat split; reflexivity.
    - destruct tr as [|i tr]; [discriminate|]. injection Hl as Hl.
      destruct s as [p cr cg cl ca b pr pd]. cbn [ph] in Hp. subst p.
      cbn [run run_state hb_step fst repeat].
      set (s1 := hb_next L _ (hr_decode i)).
      assert (E1 : s1 = {| ph := PLatency (N.of_nat n); c_read := cr; c_reg := cg; c_linear := cl; c_addr := ca;
                           bus := Listen; p_rwds0 := pr; p_dq_lo := pd |}).
      { unfold s1, hb_next, with_phase. cbn [ph c_read c_reg c_linear c_addr bus p_rwds0 p_dq_lo].
        destruct (N.of_nat (S n) =? 0) eqn:E; [lia|]. replace (N.of_nat (S n) - 1) with (N.of_nat n) by lia.
        reflexivity. }
      specialize (IH s1 tr). rewrite E1 in IH. specialize (IH eq_refl Hl). cbv zeta in IH.
      rewrite E1. destruct IH as (R & P & B & C1 & C2 & C3 & C4).
      rewrite R. cbn [bus c_read c_reg c_linear c_addr] in *.
      repeat split; try assumption.
  Qed.

  (* Bus ownership, for every specification state and input: the controller hands a driven DQ to the bus
     only out of a CA-word or write phase, drives RWDS only out of a memory-space write phase, and deselects
     only when idle without a request or when recovering. *)
  Theorem hb_bus_released : forall s d,
    (drives_dq (bus (hb_next L s d)) = true -> (exists k, ph s = PCommand k /\ k <> 0) \/ ph s = PWrite) /\
    (drives_rwds (bus (hb_next L s d)) = true -> ph s = PWrite /\ c_reg s = false) /\
    (selected (bus (hb_next L s d)) = false -> (ph s = PIdle /\ i_start d = false) \/ ph s = PRecover).
  Proof.
    intros s d. destruct s as [p cr cg cl ca b pr pd]. unfold hb_next, with_phase. cbn [ph c_reg c_read].
    destruct p as [|k|n| | |].
    - destruct (i_start d); cbn [bus drives_dq drives_rwds selected]; repeat split; try discriminate. intros _. left. auto.
    - destruct k as [|q]; cbn [bus drives_dq drives_rwds selected]; repeat split; try discriminate.
      intros _. left. exists (N.pos q). split; [reflexivity | discriminate].
    - cbn [bus drives_dq drives_rwds selected]; repeat split; discriminate.
    - cbn [bus drives_dq drives_rwds selected]; repeat split; discriminate.
    - destruct cg; cbn [bus drives_dq drives_rwds selected]; repeat split; try discriminate; auto.
    - cbn [bus drives_dq drives_rwds selected]; repeat split; try discriminate. auto.
  Qed.

  (* The data phase agrees with the command, in every reachable specification state. *)
  Definition hb_cmd_ok (s : hb_state) : Prop :=
    match ph s with PRead => c_read s = true | PWrite => c_read s = false | _ => True end.

  Lemma hb_cmd_ok_next : forall s d, hb_cmd_ok s -> hb_cmd_ok (hb_next L s d).
  Proof.
    intros s d H. destruct s as [p cr cg cl ca b pr pd]. unfold hb_cmd_ok, hb_next, with_phase in *.
    destruct p as [|k|n| | |]; cbn [ph c_read c_reg p_rwds0 p_dq_lo] in *.
    - destruct (i_start d); exact I.
    - destruct k as [|q]; [exact I|]. cbn [ph c_read]. destruct (N.pos q <? 3); [exact I|].
      destruct cg, cr; cbn [andb negb ph]; try exact I; reflexivity.
    - destruct (n =? 0); [|exact I]. destruct cr; reflexivity.
    - destruct (match read_word pr pd d with Some _ => i_final d | None => false end); [exact I | exact H].
    - destruct cg; cbn [ph c_read]; [exact I|]. destruct (i_final d); [exact I | exact H].
    - exact I.
  Qed.

  Theorem hb_data_phase_matches_command : forall tr, hb_cmd_ok (run_state (hb_step L) hb_init tr).
  Proof.
    intros tr. assert (G : forall s, hb_cmd_ok s -> hb_cmd_ok (run_state (hb_step L) s tr)).
    { induction tr as [|i t IH]; intros s H; [exact H|]. cbn [run_state hb_step fst]. apply IH. apply hb_cmd_ok_next. exact H. }
    apply G. exact I.
  Qed.
End SpecShape.

(* closed forms of the three command-address words *)
Lemma hb_ca_words : forall rd rg li a, a < 2^32 ->
  let ca := hb_ca rd rg li a in
  hb_ca_word ca 0 = b2n rd * 2^15 + b2n rg * 2^14 + b2n li * 2^13 + a / 2^19 /\
  hb_ca_word ca 1 = (a / 8) mod 2^16 /\
  hb_ca_word ca 2 = a mod 8.
Proof.
  intros rd rg li a Ha. cbv zeta. unfold hb_ca, hb_ca_word.
  change (2^47) with 140737488355328. change (2^46) with 70368744177664. change (2^45) with 35184372088832.
  change (2^32) with 4294967296 in *. change (2^29) with 536870912. change (2^19) with 524288.
  change (2^16) with 65536. change (2^15) with 32768. change (2^14) with 16384. change (2^13) with 8192.
  destruct rd, rg, li; cbn [b2n]; repeat split; lia.
Qed.

(* ------------------------------------------------------------------------------------------ *)
(* packing lemmas for lock-step obligations                                                    *)
Lemma pk_mod : forall w a r, a < 2^w -> N.land (pk w a r) (N.ones w) = a.
Proof.
  intros w a r H. unfold pk. rewrite N.land_ones, N.shiftl_mul_pow2.
  rewrite N.mod_add by (apply N.pow_nonzero; discriminate).
  apply N.mod_small. exact H.
Qed.

Lemma pk_div : forall w a r, a < 2^w -> N.shiftr (pk w a r) w = r.
Proof.
  intros w a r H. unfold pk. rewrite N.shiftr_div_pow2, N.shiftl_mul_pow2.
  rewrite N.div_add by (apply N.pow_nonzero; discriminate).
  rewrite N.div_small by exact H. reflexivity.
Qed.

Lemma pkb_odd : forall b r, N.odd (pk 1 (b2n b) r) = b.
Proof.
  intros b r. unfold pk. rewrite N.shiftl_mul_pow2. change (2^1) with 2. rewrite (N.mul_comm r 2).
  rewrite N.odd_add_mul_2. destruct b; reflexivity.
Qed.

Lemma pkb_div : forall b r, N.div2 (pk 1 (b2n b) r) = r.
Proof.
  intros b r. unfold pk. rewrite N.div2_div, N.shiftl_mul_pow2. change (2^1) with 2. destruct b; cbn [b2n]; lia.
Qed.

Lemma hr_fsm_code_lt : forall f, hr_fsm_code f < 2^4.
Proof. destruct f; reflexivity. Qed.

Lemma hr_dec_enc : forall st, hr_wf st -> hr_dec (hr_enc st) = st.
Proof.
  intros [f rd rg mu ad el la lr ld ce cs re de dq] (Ha & Hd & Hq).
  cbn [cur_addr lh_dq r_dq_o] in *. unfold hr_enc, hr_dec. cbv zeta.
  cbn [fsm is_read is_reg is_multi cur_addr extra_lat lat lh_rwds lh_dq r_clk_en r_cs r_rwds_e r_dq_e r_dq_o].
  repeat first [ rewrite pk_mod by first [apply hr_fsm_code_lt | assumption]
               | rewrite pk_div by first [apply hr_fsm_code_lt | assumption]
               | rewrite pkb_odd | rewrite pkb_div ].
  destruct f; reflexivity.
Qed.

Lemma hr_wf_step : forall L lw st i, hr_wf st -> hr_wf (fst (hr_step L lw st i)).
Proof.
  intros L lw st i (Ha & Hd & Hq). unfold hr_step. cbn [fst].
  destruct (hr_decode_wf i) as (Ia & Iw & Id). set (d := hr_decode i) in *.
  assert (M8 : i_dq d mod 2^8 < 2^8) by (apply N.mod_lt; discriminate).
  unfold hr_wf, hr_next.
  destruct (fsm st);
    repeat match goal with |- context [if ?b then _ else _] => destruct b end;
    cbn [cur_addr lh_dq r_dq_o]; repeat split;
    first [assumption | apply hb_ca_word_lt | reflexivity].
Qed.

Lemma hr_wf_init : hr_wf hr_init.
Proof. unfold hr_wf, hr_init. cbn. repeat split; reflexivity. Qed.
