(* C50 -- proofs about the SPI device model (Model/SpiDev.v). *)
From Coq Require Import NArith ZArith List Bool Lia ZifyBool ZifyN Arith.
Import ListNotations.
From LunaLib Require Import Netlist Bits Machine.
From LunaModel Require Import SpiDev.
Open Scope N_scope.
Ltac Zify.zify_post_hook ::= Z.div_mod_to_equations.

(* ------------------------------------------------------------------------------------------ *)
(* list facts                                                                                  *)
(* ------------------------------------------------------------------------------------------ *)
Section ListFacts.
  Context {A : Type}.

  Lemma last_nth_pred : forall (l : list A) d, last l d = nth (pred (length l)) l d.
  Proof.
    induction l as [|x l IH]; intros d; [reflexivity|].
    destruct l as [|y l]; [reflexivity|]. change (last (x :: y :: l) d) with (last (y :: l) d).
    rewrite IH. reflexivity.
  Qed.

  Lemma nth_removelast : forall (l : list A) p d, (S p < length l)%nat -> nth p (removelast l) d = nth p l d.
  Proof.
    induction l as [|x l IH]; intros p d H; [cbn in H; lia|].
    destruct l as [|y l]; [cbn in H; lia|].
    change (removelast (x :: y :: l)) with (x :: removelast (y :: l)).
    destruct p as [|p]; [reflexivity|]. cbn [nth]. apply IH. cbn [length] in *. lia.
  Qed.

  Lemma removelast_length : forall (l : list A), length (removelast l) = pred (length l).
  Proof.
    induction l as [|x l IH]; [reflexivity|]. destruct l as [|y l]; [reflexivity|].
    change (removelast (x :: y :: l)) with (x :: removelast (y :: l)). cbn [length] in *. rewrite IH. reflexivity.
  Qed.

  Lemma nth_tl : forall (l : list A) p d, nth p (tl l) d = nth (S p) l d.
  Proof. intros [|x l] p d; [destruct p; reflexivity | reflexivity]. Qed.

  Lemma tl_length : forall (l : list A), length (tl l) = pred (length l).
  Proof. intros [|x l]; reflexivity. Qed.

  Lemma hd_nth0 : forall (l : list A) d, hd d l = nth 0 l d.
  Proof. intros [|x l] d; reflexivity. Qed.

  Lemma firstn_removelast : forall (l : list A) n, (S n <= length l)%nat -> firstn n (removelast l) = firstn n l.
  Proof.
    intros l n H. rewrite removelast_firstn_len, firstn_firstn. f_equal. lia.
  Qed.

  Lemma removelast_full : forall (l : list A), removelast l = firstn (length l - 1) l.
  Proof. intros. rewrite removelast_firstn_len. f_equal. lia. Qed.

  Lemma skipn_tl_app : forall (l : list A) x k, (k < length l)%nat ->
    skipn k (tl l ++ [x]) = skipn (S k) l ++ [x].
  Proof.
    intros [|a l] x k H; [cbn in H; lia|]. cbn [tl skipn length] in *.
    rewrite skipn_app. replace (k - length l)%nat with 0%nat by lia. reflexivity.
  Qed.

  Lemma tl_skipn : forall (l : list A), tl l = skipn 1 l.
  Proof. intros [|x l]; reflexivity. Qed.
End ListFacts.

(* ------------------------------------------------------------------------------------------ *)
(* simulation relation between the (fixed) model and the specification                         *)
(* ------------------------------------------------------------------------------------------ *)
Section SpiProofs.
  Variable c : spi_cfg.
  Hypothesis Hws : (1 <= ws c)%nat.

  Definition rel_rx (st : d_state) (sp : sp_state) : Prop :=
    let n := length (s_acc sp) in
    d_cnt st = N.of_nat n /\ (n < ws c)%nat /\ length (d_rx st) = ws c /\
    (if msb c then firstn n (d_rx st) = s_acc sp else skipn (ws c - n) (d_rx st) = rev (s_acc sp)) /\
    d_wa st = is_some (s_pend sp) /\ (forall w, s_pend sp = Some w -> d_rx st = w) /\
    d_win st = s_win sp /\ d_wc st = s_wc sp.

  Definition rel_tx (st : d_state) (sp : sp_state) : Prop :=
    d_sdo st = s_sdo sp /\ length (d_tx st) = ws c /\
    forall p, (p < ws c)%nat ->
      nth p (d_tx st) false =
        if msb c then nth (p - s_sent sp) (s_load sp) false
        else nth (Nat.min (p + s_sent sp) (ws c - 1)) (s_load sp) false.

  Definition rel (st : d_state) (sp : sp_state) : Prop :=
    d_clk st = s_clk sp /\ rel_rx st sp /\ rel_tx st sp.

  Lemma rel_init : rel (d_init c) (sp_init c).
  Proof.
    split; [reflexivity|]. split.
    - unfold rel_rx. cbn [d_init sp_init s_acc length d_cnt d_rx d_wa s_pend d_win s_win d_wc s_wc is_some].
      repeat split; try reflexivity; try lia; try discriminate.
      + apply repeat_length.
      + destruct (msb c); [reflexivity|]. rewrite Nat.sub_0_r. apply skipn_all2. rewrite repeat_length. lia.
    - unfold rel_tx. cbn [d_init sp_init d_sdo s_sdo d_tx s_load s_sent].
      split; [reflexivity|]. split; [apply repeat_length|].
      intros p Hp. rewrite nth_repeat. destruct (msb c); rewrite nth_repeat; reflexivity.
  Qed.

  Lemma rel_out : forall st sp, rel st sp -> d_out c st = sp_out c sp.
  Proof.
    intros st sp (Hc & (H1 & H2 & H3 & H4 & H5 & H6 & H7 & H8) & (T1 & T2 & T3)).
    unfold d_out, sp_out. rewrite H5, H7, H8, T1. reflexivity.
  Qed.

  Lemma in_wout_length : forall i, length (in_wout c i) = ws c.
  Proof. intros. apply N2bits_length. Qed.

  Lemma cnt_no_wrap : forall n, (S n < ws c)%nat -> (N.of_nat n + 1) mod 2 ^ cnt_width c = N.of_nat (S n).
  Proof.
    intros n H. rewrite N.mod_small; [lia|].
    unfold cnt_width. pose proof (N.size_gt (N.of_nat (ws c) - 1)) as G. lia.
  Qed.

  (* the counter test of the code is the length test of the specification *)
  Lemma completing_eq : forall n, (N.of_nat n + 1 =? N.of_nat (ws c)) = Nat.eqb (S n) (ws c).
  Proof.
    intros n. destruct (Nat.eqb (S n) (ws c)) eqn:E.
    - apply Nat.eqb_eq in E. apply N.eqb_eq. lia.
    - apply Nat.eqb_neq in E. apply N.eqb_neq. lia.
  Qed.

  Lemma shift_in_length : forall b rx, length rx = ws c -> length (shift_in c b rx) = ws c.
  Proof.
    intros b rx H. unfold shift_in. destruct (msb c); cbn [length];
      [rewrite removelast_length | rewrite app_length, tl_length; cbn [length]]; lia.
  Qed.

  Lemma rel_rx_next : forall st sp i, d_clk st = s_clk sp -> rel_rx st sp ->
    rel_rx (d_next true c st i) (sp_next c sp i).
  Proof.
    intros st sp i Hc (H1 & H2 & H3 & H4 & H5 & H6 & H7 & H8).
    unfold rel_rx, d_next, sp_next. rewrite <- Hc, H1, completing_eq.
    cbn [d_cnt d_rx d_wa d_win d_wc s_acc s_pend s_win s_wc].
    set (n := length (s_acc sp)) in *.
    destruct (selected c i) eqn:Esel; cbn [negb andb orb].
    2:{ (* chip not selected: collection cleared *)
      cbn [length]. repeat split; try assumption; try lia; try discriminate.
      - destruct (msb c); [reflexivity|]. rewrite Nat.sub_0_r. apply skipn_all2. lia.
      - rewrite H5. destruct (s_pend sp) as [w|]; cbn [is_some]; [apply H6; reflexivity | exact H7]. }
    destruct (sample_edge c (d_clk st) i) eqn:Esmp; cbn [negb andb orb].
    2:{ (* no sample edge: nothing moves *)
      fold n. repeat split; try assumption; try lia; try discriminate.
      - rewrite H5. destruct (s_pend sp) as [w|]; cbn [is_some]; [apply H6; reflexivity | exact H7]. }
    destruct (Nat.eqb (S n) (ws c)) eqn:Ecomp; cbn [negb andb orb is_some length].
    - (* the sample edge that completes the word *)
      apply Nat.eqb_eq in Ecomp.
      assert (Hw : shift_in c (in_sdi i) (d_rx st) = word_bits c (in_sdi i :: s_acc sp)).
      { unfold shift_in, word_bits. destruct (msb c).
        - rewrite removelast_full, H3. f_equal. rewrite <- H4. f_equal. lia.
        - cbn [rev]. rewrite <- H4. f_equal. rewrite tl_skipn. f_equal. lia. }
      repeat split; try assumption; try lia; try discriminate.
      + apply shift_in_length. exact H3.
      + destruct (msb c); [reflexivity|]. rewrite Nat.sub_0_r. apply skipn_all2.
        rewrite shift_in_length by exact H3. lia.
      + intros w E. inversion E. exact Hw.
      + rewrite H5. destruct (s_pend sp) as [w|]; cbn [is_some]; [apply H6; reflexivity | exact H7].
    - (* an ordinary sample edge *)
      apply Nat.eqb_neq in Ecomp. fold n.
      repeat split; try assumption; try lia; try discriminate.
      + rewrite cnt_no_wrap by lia. reflexivity.
      + apply shift_in_length. exact H3.
      + unfold shift_in. destruct (msb c).
        * cbn [firstn]. f_equal. rewrite firstn_removelast by lia. exact H4.
        * cbn [rev]. rewrite <- H4. rewrite skipn_tl_app by lia. do 2 f_equal. lia.
      + rewrite H5. destruct (s_pend sp) as [w|]; cbn [is_some]; [apply H6; reflexivity | exact H7].
  Qed.

  Lemma rel_tx_next : forall st sp i, d_clk st = s_clk sp -> d_cnt st = N.of_nat (length (s_acc sp)) ->
    rel_tx st sp -> rel_tx (d_next true c st i) (sp_next c sp i).
  Proof.
    intros st sp i Hc Hcnt (T1 & T2 & T3).
    unfold rel_tx, d_next, sp_next. rewrite <- Hc, Hcnt, completing_eq.
    cbn [d_sdo d_tx s_sdo s_load s_sent].
    pose proof (in_wout_length i) as Lw.
    assert (Hlatch : forall p, (p < ws c)%nat ->
              nth p (in_wout c i) false =
              if msb c then nth (p - 0) (in_wout c i) false
              else nth (Nat.min (p + 0) (ws c - 1)) (in_wout c i) false).
    { intros p Hp. destruct (msb c); f_equal; lia. }
    destruct (selected c i) eqn:Esel; cbn [negb andb orb].
    2:{ repeat split; [exact T1 | exact Lw | exact Hlatch]. }
    assert (Excl : sample_edge c (d_clk st) i && output_edge c (d_clk st) i = false).
    { unfold sample_edge, output_edge, leading, trailing.
      destruct (cpha c), (d_clk st), (sclk c i); reflexivity. }
    destruct (sample_edge c (d_clk st) i) eqn:Esmp; cbn [negb andb orb] in *.
    - rewrite Excl.
      destruct (Nat.eqb (S (length (s_acc sp))) (ws c)); cbn [negb andb orb].
      + repeat split; [exact T1 | exact Lw | exact Hlatch].
      + repeat split; [exact T1 | exact T2 | exact T3].
    - destruct (output_edge c (d_clk st) i) eqn:Eout.
      2:{ repeat split; [exact T1 | exact T2 | exact T3]. }
      (* an output edge: one more bit goes out *)
      repeat split.
      + unfold out_bit, tx_bit. destruct (msb c).
        * rewrite last_nth_pred, T2. replace (pred (ws c)) with (ws c - 1)%nat by lia.
          rewrite T3 by lia. reflexivity.
        * rewrite hd_nth0. rewrite T3 by lia. reflexivity.
      + unfold shift_out. destruct (msb c); cbn [length];
          [rewrite removelast_length | rewrite app_length, tl_length; cbn [length]]; lia.
      + intros p Hp. unfold shift_out. destruct (msb c).
        * destruct p as [|p].
          -- cbn [nth]. rewrite hd_nth0. rewrite T3 by lia. reflexivity.
          -- cbn [nth]. rewrite nth_removelast by lia. rewrite T3 by lia. f_equal.
        * destruct (Nat.eq_dec p (ws c - 1)) as [Ep|Np].
          -- rewrite app_nth2 by (rewrite tl_length; lia).
             rewrite tl_length, T2. replace (p - pred (ws c))%nat with 0%nat by lia. cbn [nth].
             rewrite last_nth_pred, T2. rewrite T3 by lia. f_equal. lia.
          -- rewrite app_nth1 by (rewrite tl_length; lia).
             rewrite nth_tl. rewrite T3 by lia. f_equal. lia.
  Qed.

  Lemma rel_next : forall st sp i, rel st sp -> rel (d_next true c st i) (sp_next c sp i).
  Proof.
    intros st sp i (Hc & Hr & Ht). split; [reflexivity|]. split.
    - apply rel_rx_next; assumption.
    - apply rel_tx_next; [exact Hc | exact (proj1 Hr) | exact Ht].
  Qed.

  Theorem spidev_refines : forall tr st sp, rel st sp ->
    run (d_step true c) st tr = run (sp_step c) sp tr.
  Proof.
    induction tr as [|i t IH]; intros st sp H; [reflexivity|].
    cbn [run d_step sp_step]. rewrite (rel_out _ _ H). f_equal. apply IH. apply rel_next. exact H.
  Qed.

  Corollary spidev_from_reset : forall tr,
    run (d_step true c) (d_init c) tr = run (sp_step c) (sp_init c) tr.
  Proof. intros. apply spidev_refines. apply rel_init. Qed.
End SpiProofs.

(* ------------------------------------------------------------------------------------------ *)
(* The specification on traces                                                                  *)
(* ------------------------------------------------------------------------------------------ *)
Section SpecFacts.
  Variable c : spi_cfg.
  Hypothesis Hws : (1 <= ws c)%nat.

  (* "this cycle's sample edge completes a word" *)
  Definition completes (sp : sp_state) (i : N) : bool :=
    selected c i && sample_edge c (s_clk sp) i && Nat.eqb (S (length (s_acc sp))) (ws c).

  (* Every word_size-th sample edge under chip select completes a word, for every word of a transaction:
     the number of collected bits counts sample edges modulo word_size and restarts with chip select. *)
  Theorem sp_count : forall sp i, (length (s_acc sp) < ws c)%nat ->
    length (s_acc (sp_next c sp i)) =
      if negb (selected c i) then 0%nat
      else if sample_edge c (s_clk sp) i then (S (length (s_acc sp)) mod ws c)%nat
      else length (s_acc sp).
  Proof.
    intros sp i H. unfold sp_next. cbn [s_acc].
    destruct (selected c i); cbn [negb andb orb]; [|reflexivity].
    destruct (sample_edge c (s_clk sp) i); cbn [andb]; [|reflexivity].
    destruct (Nat.eqb (S (length (s_acc sp))) (ws c)) eqn:E.
    - apply Nat.eqb_eq in E. rewrite E, Nat.mod_same by lia. reflexivity.
    - apply Nat.eqb_neq in E. cbn [length]. rewrite Nat.mod_small by lia. reflexivity.
  Qed.

  (* A completed word is reported exactly once: flagged on word_accepted in the next cycle and presented on
     word_in together with word_complete in the cycle after; word_complete is high in no other cycle. *)
  Theorem sp_report : forall sp i i1,
    let sp1 := sp_next c sp i in
    let sp2 := sp_next c sp1 i1 in
    is_some (s_pend sp1) = completes sp i /\
    s_wc sp2 = completes sp i /\
    (completes sp i = true -> s_win sp2 = word_bits c (in_sdi i :: s_acc sp)) /\
    (completes sp i = false -> s_win sp2 = s_win sp1).
  Proof.
    intros sp i i1. cbn zeta. unfold completes, sp_next. cbn [s_pend s_wc s_win].
    destruct (selected c i && sample_edge c (s_clk sp) i && Nat.eqb (S (length (s_acc sp))) (ws c));
      cbn [is_some]; repeat split; try reflexivity; discriminate.
  Qed.

  (* Transmit side, clock phase 1 (data changes on the leading edge, is sampled on the trailing edge).
     Synchronisation invariant of a transaction that starts with the clock at its idle level. *)
  Definition tx_inv (sp : sp_state) : Prop :=
    s_sent sp = (length (s_acc sp) + if s_clk sp then 1 else 0)%nat /\
    (s_clk sp = true -> s_sdo sp = tx_bit c (s_load sp) (length (s_acc sp))).

  Lemma tx_inv_establish : forall sp i, selected c i = false -> sclk c i = false -> tx_inv (sp_next c sp i).
  Proof.
    intros sp i Hs Hk. unfold tx_inv, sp_next. cbn [s_sent s_acc s_clk s_sdo s_load].
    rewrite Hs, Hk. cbn [negb andb orb length]. split; [reflexivity | discriminate].
  Qed.

  Lemma tx_inv_step : cpha c = true -> forall sp i, selected c i = true -> tx_inv sp -> tx_inv (sp_next c sp i).
  Proof.
    intros Hph sp i Hs [I1 I2]. unfold tx_inv, sp_next. cbn [s_sent s_acc s_clk s_sdo s_load].
    unfold sample_edge, output_edge, leading, trailing. rewrite Hph, Hs. cbn [negb andb orb].
    destruct (s_clk sp) eqn:Ek, (sclk c i) eqn:Ek'; cbn [negb andb orb] in *.
    - split; [exact I1 | intros _; apply I2; reflexivity].
    - destruct (Nat.eqb (S (length (s_acc sp))) (ws c)); cbn [length]; split; try discriminate; lia.
    - split; [lia|]. intros _. rewrite I1. f_equal. lia.
    - split; [exact I1 | discriminate].
  Qed.

  (* In a transaction that starts from an unselected cycle with the clock at its idle level, at every sample
     edge the value on sdo is bit number (bits already sampled in this word) of the latched word in transmit
     order: with msb_first, bit ws-1 first, then ws-2, ... *)
  Theorem sp_tx_in_order : cpha c = true ->
    forall ins sp i0, selected c i0 = false -> sclk c i0 = false -> Forall (fun i => selected c i = true) ins ->
    let sp' := run_state (sp_step c) sp (i0 :: ins) in
    forall i, selected c i = true -> sample_edge c (s_clk sp') i = true ->
    s_sdo sp' = tx_bit c (s_load sp') (length (s_acc sp')).
  Proof.
    intros Hph ins sp i0 H0 H0k HF. cbn zeta.
    assert (Inv : tx_inv (run_state (sp_step c) sp (i0 :: ins))).
    { cbn [run_state sp_step fst].
      pose proof (tx_inv_establish sp i0 H0 H0k) as I. revert I. generalize (sp_next c sp i0).
      induction ins as [|j t IH]; intros s I; [exact I|].
      inversion HF as [|? ? Hj Ht]; subst. cbn [run_state sp_step fst]. apply IH; [exact Ht|].
      apply tx_inv_step; assumption. }
    intros i Hs He. destruct Inv as [_ I2]. apply I2.
    unfold sample_edge, trailing in He. rewrite Hph in He.
    destruct (s_clk (run_state (sp_step c) sp (i0 :: ins))); [reflexivity | discriminate].
  Qed.

  Lemma tx_bit_msb : msb c = true -> forall w j, tx_bit c w j = nth (ws c - 1 - j) w false.
  Proof. intros H w j. unfold tx_bit. rewrite H. reflexivity. Qed.
End SpecFacts.

(* ------------------------------------------------------------------------------------------ *)
(* packing facts for the lock-step obligations                                                 *)
(* ------------------------------------------------------------------------------------------ *)
Lemma lo_hi : forall k a b, a < k -> (a + k * b) mod k = a /\ (a + k * b) / k = b.
Proof.
  intros k a b H. assert (k <> 0) by lia. rewrite (N.mul_comm k b).
  rewrite N.mod_add, N.div_add by assumption. rewrite N.mod_small, N.div_small by assumption. split; lia.
Qed.

Lemma d_dec_enc : forall c st, d_wf c st -> d_dec c (d_enc c st) = st.
Proof.
  intros c [clk cnt tx rx win wc wa sdo] (L1 & L2 & L3). unfold d_dec, d_enc.
  cbn [d_clk d_cnt d_tx d_rx d_win d_wc d_wa d_sdo] in *.
  set (k := 2 ^ N.of_nat (ws c)).
  assert (B1 : bits2N tx < k) by (unfold k; rewrite <- L1; apply bits2N_bound).
  assert (B2 : bits2N rx < k) by (unfold k; rewrite <- L2; apply bits2N_bound).
  assert (B3 : bits2N win < k) by (unfold k; rewrite <- L3; apply bits2N_bound).
  set (r := bits2N tx + k * (bits2N rx + k * (bits2N win + k * cnt))).
  set (f := b2n clk + 2 * b2n wc + 4 * b2n wa + 8 * b2n sdo).
  assert (Hr : (f + 16 * r) / 16 = r) by (unfold f; destruct clk, wc, wa, sdo; cbn [b2n]; lia).
  assert (F0 : ((f + 16 * r) mod 2 =? 1) = clk) by (unfold f; destruct clk, wc, wa, sdo; cbn [b2n]; lia).
  assert (F1 : (((f + 16 * r) / 2) mod 2 =? 1) = wc) by (unfold f; destruct clk, wc, wa, sdo; cbn [b2n]; lia).
  assert (F2 : (((f + 16 * r) / 4) mod 2 =? 1) = wa) by (unfold f; destruct clk, wc, wa, sdo; cbn [b2n]; lia).
  assert (F3 : (((f + 16 * r) / 8) mod 2 =? 1) = sdo) by (unfold f; destruct clk, wc, wa, sdo; cbn [b2n]; lia).
  rewrite Hr, F0, F1, F2, F3. unfold r.
  destruct (lo_hi k (bits2N tx) (bits2N rx + k * (bits2N win + k * cnt)) B1) as [E1 E1'].
  rewrite E1, E1'.
  destruct (lo_hi k (bits2N rx) (bits2N win + k * cnt) B2) as [E2 E2']. rewrite E2, E2'.
  destruct (lo_hi k (bits2N win) cnt B3) as [E3 E3']. rewrite E3, E3'.
  rewrite <- L1 at 1. rewrite <- L2 at 1. rewrite <- L3 at 1. rewrite !N2bits_bits2N. reflexivity.
Qed.

Lemma shift_out_length : forall c tx, (1 <= ws c)%nat -> length tx = ws c -> length (shift_out c tx) = ws c.
Proof.
  intros c tx Hws H. unfold shift_out. destruct (msb c); cbn [length];
    [rewrite removelast_length | rewrite app_length, tl_length; cbn [length]]; lia.
Qed.

Lemma d_wf_step : forall fixed c, (1 <=? ws c)%nat = true ->
  forall st i, d_wf c st -> d_wf c (fst (d_step fixed c st i)).
Proof.
  intros fixed c Hws st i (L1 & L2 & L3). apply Nat.leb_le in Hws.
  cbn [d_step fst]. unfold d_wf, d_next. cbn [d_tx d_rx d_win].
  pose proof (in_wout_length c i) as Lw.
  pose proof (shift_out_length c (d_tx st) Hws L1) as Ls.
  pose proof (shift_in_length c Hws (in_sdi i) (d_rx st) L2) as Li.
  repeat split.
  - destruct (selected c i); [|exact Lw].
    destruct (sample_edge c (d_clk st) i && (d_cnt st + 1 =? N.of_nat (ws c))); [exact Lw|].
    destruct (output_edge c (d_clk st) i); assumption.
  - destruct (selected c i && sample_edge c (d_clk st) i); assumption.
  - destruct (d_wa st); assumption.
Qed.

Lemma d_wf_init : forall c, d_wf c (d_init c).
Proof. intros c. repeat split; apply repeat_length. Qed.
