(* C10 -- unsupported or unclaimed control requests are STALLed, never answered.
   Specification over the control-endpoint model of Model/CtlXfer.v (same machine as C07). *)
From Coq Require Import NArith List Bool.
Import ListNotations.
From LunaLib Require Import Netlist PackN.
From LunaModel Require Import CtlXfer.
Open Scope N_scope.

(* The standard requests LUNA's StandardRequestHandler implements: GET_STATUS (0), SET_ADDRESS (5), GET_DESCRIPTOR (6),
   GET_CONFIGURATION (8), SET_CONFIGURATION (9), and CLEAR_FEATURE (1) only for ENDPOINT_HALT (0) on an endpoint (2). *)
Definition supported_std (i : N) : bool :=
  let r := i_req i in
  (r =? 0) || (r =? 5) || (r =? 6) || (r =? 8) || (r =? 9) || ((r =? 1) && (i_rcpt i =? 2) && (i_value i =? 0)).
(* nobody claims the request: not a standard request, or skiplisted (then the multiplexer's fallback answers) *)
Definition unclaimed (skip : N -> bool) (i : N) : bool := negb (i_std i) || skip i.
Definition unsupported (skip : N -> bool) (i : N) : bool := unclaimed skip i || negb (supported_std i).

(* One cycle after the SETUP packet of an unsupported request (fb = it is unclaimed; answered = the request handler
   has already been asked for data or status since that SETUP):
   - no transmit data (no data packet, no ZLP), no data source started, no NAK, no address / configuration /
     endpoint-halt strobe;
   - an ACK is requested only for the SETUP packet itself (the decoder's) or at a PING answer opportunity;
   - STALL is requested exactly when the handler is asked for data (data-stage IN) or status, and -- for a claimed
     standard request -- only the first time (LUNA's handler returns to idle after STALLing once). *)
Definition stall_cycle_ok (EP : N) (fb answered : bool) (i : N) (o : cx_out) : bool :=
  let opp := o_dr o || o_sr o in
  negb (o_txv o) && negb (o_ds o) && negb (o_ss o) && negb (o_nak o) &&
  negb (o_ac o) && negb (o_cc o) && (o_halt o =? 0) &&
  impb (o_ack o) (i_sack i || ((i_ep i =? EP) && i_rfr i && i_ping i)) &&
  Bool.eqb (o_stall o) (opp && (fb || negb answered)).

(* observer: t_cur = the SETUP word of the unsupported request being watched, t_ans = answered *)
Record st10 := { t_cur : option N; t_ans : bool }.
Definition st10_0 : st10 := {| t_cur := None; t_ans := false |}.
Definition watching (s : st10) (i : N) : option N :=
  match t_cur s with
  | Some f => if negb (i_rcv i) && same_fieldsb f i then Some f else None
  | None => None
  end.
Definition c10_ok (EP : N) (skip : N -> bool) (s : st10) (i : N) (o : cx_out) : bool :=
  match watching s i with
  | Some f => stall_cycle_ok EP (unclaimed skip f) (t_ans s) i o
  | None => true
  end.
Definition c10_next (skip : N -> bool) (s : st10) (i : N) (o : cx_out) : st10 :=
  if i_rcv i then {| t_cur := if unsupported skip i then Some i else None; t_ans := false |}
  else match watching s i with
       | Some f => {| t_cur := Some f; t_ans := t_ans s || o_dr o || o_sr o |}
       | None => st10_0
       end.
Fixpoint stalled_along (EP : N) (skip : N -> bool) (s : st10) (tr : list N) (outs : list cx_out) : bool :=
  match tr, outs with
  | i :: t, o :: u => c10_ok EP skip s i o && stalled_along EP skip (c10_next skip s i o) t u
  | _, _ => true
  end.

(* the observer as a monitor over (input word, packed output word) pairs *)
Definition st10_enc (s : st10) : N :=
  pk 2 (b2n (t_ans s)) (match t_cur s with None => 0 | Some f => 1 + 2 * f end).
Definition st10_dec (n : N) : st10 :=
  {| t_cur := if n / 2 =? 0 then None else Some ((n / 2 - 1) / 2); t_ans := nb (n mod 2) |}.
Definition c10_mon (EP : N) (skip : N -> bool) (m i o : N) : option (N * bool) :=
  let s := st10_dec m in let ou := cx_unpack o in
  Some (st10_enc (c10_next skip s i ou), c10_ok EP skip s i ou).

(* ---- the bRequest sweep (tie side): one directed control transfer per setup packet -------------------------
   STANDARD request r (all 256 codes), recipient rc, wLength len, direction dirin, wValue val, wIndex 0x0081:
   (from reset: the stage FSM awaits a SETUP packet) SETUP packet, then every kind of answer opportunity with a host ACK after each -- IN token + IN
   opportunity + ACK, OUT token + OUT-data opportunity + ACK, IN token + IN opportunity + ACK -- so that whatever
   stages (len, dirin) call for are visited and any state change an ACK would commit becomes visible. *)
Definition sw_fields (r rc len dirin val : N) : N :=
  dirin * 2 ^ 11 + rc * 2 ^ 14 + r * 2 ^ 19 + val * 2 ^ 27 + 129 * 2 ^ 43 + len * 2 ^ 59.
Definition sw_trace (EP r rc len dirin val : N) : list N :=
  let f := sw_fields r rc len dirin val + 64 * EP in
  [ f + 16 + 2 ^ 10;                                     (* SETUP packet reported *)
    f + 4 + 1; f + 4 + 2; f + 4 + 2 ^ 77;                 (* IN token; IN answer opportunity; host ACK *)
    f + 8 + 1; f + 8 + 2 ^ 76; f + 8 + 2 ^ 77;            (* OUT token; OUT-data answer opportunity; host ACK *)
    f + 4 + 1; f + 4 + 2; f + 4 + 2 ^ 77 ].               (* IN token; IN answer opportunity; host ACK *)
Definition sw_recipients : list N := [0; 1; 2].            (* device, interface, endpoint *)
Definition sw_stages : list (N * N) := [(0, 0); (8, 1); (8, 0)].   (* (wLength, direction): no data / IN data / OUT data *)
Definition sw_values : list N := [0; 1].
Definition sw_all (EP : N) : list (list N) :=
  flat_map (fun r => flat_map (fun rc => flat_map (fun ld => map (fun v => sw_trace EP r rc (fst ld) (snd ld) v)
    sw_values) sw_stages) sw_recipients) (map N.of_nat (seq 0 256)).
