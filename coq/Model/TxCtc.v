(* C33 -- hand model of the SuperSpeed transmit clock-tolerance compensation:
     luna/gateware/usb/usb3/physical/ctc.py   : CTCSkipInserter
     luna/gateware/usb/usb3/physical/layer.py : Scrambler -> CTCSkipInserter -> PHY, scrambler.hold := sending_skip
   and its specification.

   Reading notes (all confirmed on Amaranth's simulator):
   * `m.d.ss += source.stream_eq(sink)` registers EVERYTHING the stream connection contains, including
     `sink.ready.eq(source.ready)`: sink.ready is a register (reset 0) that copies source.ready in every
     cycle in which no SKP is inserted and keeps its value in a cycle in which a SKP is inserted.  With the
     PHY always ready it is 0 in the first cycle after reset and 1 ever after -- in particular it is 1 in
     SKP cycles, so the link word of such a cycle is taken from the link layer and replaced (not delayed),
     and the word of the very first cycle is transmitted although it was not accepted.
   * `data_bytes_elapsed` counts accepted words (sink.valid & sink.ready), SKP cycles included.
   * `skips_to_send` is Signal(range(5)): three bits, it wraps at 8 (widths are parameters `ws`, `we`).
   L = SKIP_BYTE_LIMIT (354), B = symbols per word (4). *)
From Coq Require Import NArith List Bool.
Import ListNotations.
From LunaLib Require Import Netlist Bits Machine.
From LunaModel Require Import Crc Scrambler.
Open Scope N_scope.

Fixpoint rep_byte (n : nat) (b : N) : N :=
  match n with O => 0 | S k => b + 256 * rep_byte k b end.

(* ============================================================================================ *)
(* CTCSkipInserter: code-shaped model                                                           *)
Record ski_st := { sk_owed : N;       (* skips_to_send *)
                   sk_elapsed : N;    (* data_bytes_elapsed *)
                   sk_rdy : bool;     (* sink.ready  (a register, see above) *)
                   sk_ov : bool; sk_od : N; sk_oc : N   (* source.valid / data / ctrl registers *) }.

Section SkipInserter.
  Variables L B : N.        (* SKIP_BYTE_LIMIT, symbols per word *)
  Variables we ws : N.      (* widths of data_bytes_elapsed and skips_to_send *)

  Definition skp_data : N := rep_byte (N.to_nat B) 60.     (* 0x3C in every byte lane *)
  Definition skp_ctrl : N := N.ones B.

  Definition ski_init : ski_st :=
    {| sk_owed := 0; sk_elapsed := 0; sk_rdy := false; sk_ov := false; sk_od := 0; sk_oc := 0 |}.

  (* sending_skip = can_send_skip & (skips_to_send >= 2) *)
  Definition ski_sending (st : ski_st) (can : bool) : bool := can && (2 <=? sk_owed st).

  Definition ski_next (st : ski_st) (v : bool) (d c : N) (can r : bool) : ski_st :=
    let sending := ski_sending st can in
    let accept := v && sk_rdy st in                               (* sink.valid & sink.ready *)
    let cross := accept && (L <=? sk_elapsed st + B) in           (* skip_needed *)
    {| sk_owed := (match cross, sending with
                   | true, false => sk_owed st + 1
                   | false, true => sk_owed st - 2
                   | true, true => sk_owed st - 1
                   | false, false => sk_owed st
                   end) mod 2 ^ ws;
       sk_elapsed := if accept
                     then (if cross then sk_elapsed st + B - L else sk_elapsed st + B) mod 2 ^ we
                     else sk_elapsed st;
       sk_rdy := if sending then sk_rdy st else r;
       sk_ov := if sending then true else v;
       sk_od := if sending then skp_data else d;
       sk_oc := if sending then skp_ctrl else c |}.

  (* ---- specification machine: unbounded counters, no wrap-around, no remainder register ------- *)
  Record ssp_st := { ss_n : N;        (* symbols taken from the sink so far (replaced ones included) *)
                     ss_skp : N;      (* SKP words (= pairs of SKP ordered sets) inserted so far *)
                     ss_rdy : bool;
                     ss_ov : bool; ss_od : N; ss_oc : N }.
  (* SKP ordered sets owed: one per L symbols, minus those already sent *)
  Definition ssp_owed (s : ssp_st) : N := ss_n s / L - 2 * ss_skp s.
  Definition ssp_init : ssp_st :=
    {| ss_n := 0; ss_skp := 0; ss_rdy := false; ss_ov := false; ss_od := 0; ss_oc := 0 |}.
  Definition ssp_sending (s : ssp_st) (can : bool) : bool := can && (2 <=? ssp_owed s).
  Definition ssp_next (s : ssp_st) (v : bool) (d c : N) (can r : bool) : ssp_st :=
    let sending := ssp_sending s can in
    {| ss_n := if v && ss_rdy s then ss_n s + B else ss_n s;
       ss_skp := if sending then ss_skp s + 1 else ss_skp s;
       ss_rdy := if sending then ss_rdy s else r;
       ss_ov := if sending then true else v;
       ss_od := if sending then skp_data else d;
       ss_oc := if sending then skp_ctrl else c |}.

  (* ---- the stand-alone module as packed machines ---------------------------------------------
     inputs : valid(1) data(8B) ctrl(B) can_send_skip(1) source_ready(1)
     outputs: source_valid(1) source_data(8B) source_ctrl(B) sink_ready(1) sending_skip(1)        *)
  Definition ski_iv (i : N) := N.odd (bits i 0 1).
  Definition ski_id (i : N) := bits i 1 (8 * B).
  Definition ski_ic (i : N) := bits i (1 + 8 * B) B.
  Definition ski_ican (i : N) := N.odd (bits i (1 + 9 * B) 1).
  Definition ski_ir (i : N) := N.odd (bits i (2 + 9 * B) 1).
  Definition ski_pack_out (ov : bool) (od oc : N) (rdy sending : bool) : N :=
    b2n ov + N.shiftl od 1 + N.shiftl oc (1 + 8 * B) + N.shiftl (b2n rdy) (1 + 9 * B)
    + N.shiftl (b2n sending) (2 + 9 * B).
  Definition ski_mstep (st : ski_st) (i : N) : ski_st * N :=
    (ski_next st (ski_iv i) (ski_id i) (ski_ic i) (ski_ican i) (ski_ir i),
     ski_pack_out (sk_ov st) (sk_od st) (sk_oc st) (sk_rdy st) (ski_sending st (ski_ican i))).
  Definition ssp_mstep (s : ssp_st) (i : N) : ssp_st * N :=
    (ssp_next s (ski_iv i) (ski_id i) (ski_ic i) (ski_ican i) (ski_ir i),
     ski_pack_out (ss_ov s) (ss_od s) (ss_oc s) (ss_rdy s) (ssp_sending s (ski_ican i))).

  (* "idle time permits": along the run the number of owed SKP ordered sets stays below 2^ws
     (a function of the input history alone) *)
  Fixpoint ssp_safe (s : ssp_st) (tr : list N) : bool :=
    match tr with
    | [] => true
    | i :: t => let s' := fst (ssp_mstep s i) in (ssp_owed s' <? 2 ^ ws) && ssp_safe s' t
    end.

  (* state packing for lock-step obligations *)
  Definition ski_enc (st : ski_st) : N :=
    sk_owed st + 2 ^ ws * (sk_elapsed st + 2 ^ we * (b2n (sk_rdy st) + 2 * (b2n (sk_ov st) + 2 *
      (sk_od st + 2 ^ (8 * B) * sk_oc st)))).
  Definition ski_dec (m : N) : ski_st :=
    let a := N.shiftr m ws in let b := N.shiftr a we in let c := N.shiftr b 1 in let d := N.shiftr c 1 in
    {| sk_owed := N.land m (N.ones ws); sk_elapsed := N.land a (N.ones we); sk_rdy := N.odd b;
       sk_ov := N.odd c; sk_od := N.land d (N.ones (8 * B)); sk_oc := N.shiftr d (8 * B) |}.
  Definition ski_wf (st : ski_st) : Prop :=
    sk_owed st < 2 ^ ws /\ sk_elapsed st < 2 ^ we /\ sk_od st < 2 ^ (8 * B).
End SkipInserter.

(* ============================================================================================ *)
(* The transmit path of USB3PhysicalLayer: link word -> Scrambler (hold := sending_skip) ->
   CTCSkipInserter -> PHY.  The word width is fixed to 4 symbols by Scrambler.
   inputs : sink_data(32) sink_ctrl(4) can_send_skp(1) enable_scrambling(1) tx_electrical_idle(1)
   outputs: phy.tx_data(32) phy.tx_datak(4) sink_ready(1) scrambler.hold(1) scrambler.lfsr_state(32) *)
Definition tx_id (i : N) := bits i 0 32.
Definition tx_ic (i : N) := bits i 32 4.
Definition tx_ican (i : N) := N.odd (bits i 36 1).
Definition tx_ien (i : N) := N.odd (bits i 37 1).
Definition tx_ieidle (i : N) := N.odd (bits i 38 1).

Definition tx_pack_out (eidle : bool) (od oc : N) (rdy sending : bool) (ks : N) : N :=
  (if eidle then 0 else od) + N.shiftl (if eidle then 0 else oc) 32 + N.shiftl (b2n rdy) 36
  + N.shiftl (b2n sending) 37 + N.shiftl ks 38.

Record txp_st := { tx_reg : list bool; tx_ctc : ski_st }.
Record tsp_st := { ts_reg : list bool; ts_ctc : ssp_st }.

Section TxPath.
  Variable L : N.
  Variables we ws : N.
  Variable init : list bool.      (* LFSR restart value *)

  (* the LFSR: restart on a word whose first symbol is COM, advance when a word is handed over and
     no SKP is being inserted (lfsr.advance = sink.valid & source.ready & ~hold) *)
  Definition tx_reg_next (reg : list bool) (d c : N) (rdy sending : bool) : list bool :=
    if com_first d c then init else if rdy && negb sending then lfsr_next reg else reg.

  Definition txp_init : txp_st := {| tx_reg := init; tx_ctc := ski_init |}.
  Definition txp_step (st : txp_st) (i : N) : txp_st * N :=
    let k := tx_ctc st in let reg := tx_reg st in
    let sending := ski_sending k (tx_ican i) in
    let sd := xor_word (tx_ien i) (ks_word reg) (tx_id i) (tx_ic i) in
    ({| tx_reg := tx_reg_next reg (tx_id i) (tx_ic i) (sk_rdy k) sending;
        tx_ctc := ski_next L 4 we ws k true sd (tx_ic i) (tx_ican i) (negb (tx_ieidle i)) |},
     tx_pack_out (tx_ieidle i) (sk_od k) (sk_oc k) (sk_rdy k) sending (ks_word reg)).

  (* specification machine of the path: same shape, over the unbounded SKP accounting *)
  Definition tsp_init : tsp_st := {| ts_reg := init; ts_ctc := ssp_init |}.
  Definition tsp_step (s : tsp_st) (i : N) : tsp_st * N :=
    let k := ts_ctc s in let reg := ts_reg s in
    let sending := ssp_sending L k (tx_ican i) in
    let sd := xor_word (tx_ien i) (ks_word reg) (tx_id i) (tx_ic i) in
    ({| ts_reg := tx_reg_next reg (tx_id i) (tx_ic i) (ss_rdy k) sending;
        ts_ctc := ssp_next L 4 k true sd (tx_ic i) (tx_ican i) (negb (tx_ieidle i)) |},
     tx_pack_out (tx_ieidle i) (ss_od k) (ss_oc k) (ss_rdy k) sending (ks_word reg)).

  Fixpoint tsp_safe (s : tsp_st) (tr : list N) : bool :=
    match tr with
    | [] => true
    | i :: t => let s' := fst (tsp_step s i) in (ssp_owed L (ts_ctc s') <? 2 ^ ws) && tsp_safe s' t
    end.

  Definition txp_enc (st : txp_st) : N := bits2N (tx_reg st) + 2 ^ 16 * ski_enc 4 we ws (tx_ctc st).
  Definition txp_dec (m : N) : txp_st :=
    {| tx_reg := N2bits 16 (N.land m (N.ones 16)); tx_ctc := ski_dec 4 we ws (N.shiftr m 16) |}.
  Definition txp_wf (st : txp_st) : Prop := length (tx_reg st) = 16%nat /\ ski_wf 4 we ws (tx_ctc st).
End TxPath.

(* ============================================================================================ *)
(* Trace-level (machine-free) reading of the specification, over the I/O of the transmit path.  *)
Definition tx_oword (o : N) : N * N := (bits o 0 32, bits o 32 4).    (* PHY tx_data, tx_datak *)
Definition tx_oready (o : N) : bool := N.odd (bits o 36 1).
Definition tx_ohold (o : N) : bool := N.odd (bits o 37 1).           (* scrambler.hold = sending_skip *)
Definition tx_oks (o : N) : N := bits o 38 32.                       (* scrambler.lfsr_state *)
Definition tx_iword (i : N) : N * N := (tx_id i, tx_ic i).
Definition SKPW : N * N := (skp_data 4, skp_ctrl 4).                  (* 3C3C3C3C / 1111 *)
Definition IDLW : N * N := (0, 0).

(* The SKP schedule as a function of the `can_send_skp` history alone.  t = cycle index since reset;
   B*(t-1) symbols have been handed to the PHY before cycle t (none in the first cycle), `skp` SKP words
   (2 ordered sets each) were inserted before it.  A SKP word goes out in exactly those cycles that may
   carry one and in which at least two ordered sets are owed. *)
Section Sched.
  Variables L B : N.
  Definition sched_owed (t skp : N) : N := (B * (t - 1)) / L - 2 * skp.
  Fixpoint sched (t skp : N) (cans : list bool) : list bool :=
    match cans with
    | [] => []
    | can :: r =>
        let s := can && (2 <=? sched_owed t skp) in
        s :: sched (t + 1) (if s then skp + 1 else skp) r
    end.
  (* the same run, checking that the debt never reaches `bound` ordered sets *)
  Fixpoint sched_safe (bound t skp : N) (cans : list bool) : bool :=
    match cans with
    | [] => true
    | can :: r =>
        let s := can && (2 <=? sched_owed t skp) in
        let skp' := if s then skp + 1 else skp in
        (sched_owed (t + 1) skp' <? bound) && sched_safe bound (t + 1) skp' r
    end.
End Sched.

(* sink.ready as seen by the link layer: low in the first cycle after reset only *)
Fixpoint ready_sched (t : N) (n : nat) : list bool :=
  match n with O => [] | S k => (0 <? t) :: ready_sched (t + 1) k end.

(* words on the PHY one cycle after a cycle in which a link word was handed over and not replaced,
   and the link words of exactly those cycles *)
Fixpoint tx_real (outs : list N) : list (N * N) :=
  match outs with
  | o :: ((o' :: _) as t) => if tx_oready o && negb (tx_ohold o) then tx_oword o' :: tx_real t else tx_real t
  | _ => []
  end.
Fixpoint link_real (ins outs : list N) : list (N * N) :=
  match ins, outs with
  | i :: ti, o :: ((_ :: _) as t) =>
      if tx_oready o && negb (tx_ohold o) then tx_iword i :: link_real ti t else link_real ti t
  | _, _ => []
  end.
(* the word the PHY carries in the cycle after (i, o): SKP if a SKP was inserted, else the link word
   xor the keystream shown in that cycle *)
Definition tx_expected (i o : N) : N * N :=
  if tx_ohold o then SKPW else (xor_word (tx_ien i) (tx_oks o) (tx_id i) (tx_ic i), tx_ic i).
Fixpoint tx_follow (ins outs : list N) : Prop :=
  match ins, outs with
  | i :: ti, o :: ((o' :: _) as t) =>
      tx_oword o' = tx_expected i o /\
      (tx_ohold o = true -> com_first (tx_id i) (tx_ic i) = false -> tx_oks o' = tx_oks o) /\
      tx_follow ti t
  | _, _ => True
  end.
(* a SKP is inserted only in a cycle that may carry one *)
Fixpoint tx_hold_can (ins outs : list N) : Prop :=
  match ins, outs with
  | i :: ti, o :: t => (tx_ohold o = true -> tx_ican i = true) /\ tx_hold_can ti t
  | _, _ => True
  end.

(* environment of the property: PHY not in electrical idle, constant scrambling enable, and the
   link-layer wiring: can_send_skp only together with the logical-idle filler word *)
Definition tx_env (en : bool) (i : N) : bool :=
  negb (tx_ieidle i) && Bool.eqb (tx_ien i) en &&
  (negb (tx_ican i) || (N.eqb (tx_id i) 0 && N.eqb (tx_ic i) 0)).

(* ---- the specification as a monitor over simulator traces of the real transmit path (runtime oracle).
   Monitor state: reference LFSR register (16 bits), the word expected on the PHY in this cycle (36 bits),
   the cycle index t (32 bits), the number of SKP words inserted so far.  None = environment assumption
   broken (electrical idle, can_send_skp with a word other than the idle filler, or SKP debt >= 2^ws).
   Checked every cycle: hold = schedule; ready = (t > 0); lfsr_state = reference keystream (which does not
   advance over inserted SKPs); PHY word = SKP after a hold cycle, else the scrambled previous link word. *)
Definition c33_mon (L ws init : N) (m i o : N) : option (N * bool) :=
  let reg := N2bits 16 (bits m 0 16) in
  let pw := bits m 16 36 in
  let t := bits m 52 32 in
  let skp := N.shiftr m 84 in
  if tx_ieidle i || (tx_ican i && negb (N.eqb (tx_id i) 0 && N.eqb (tx_ic i) 0)) then None
  else
    let s := tx_ican i && (2 <=? sched_owed L 4 t skp) in
    let skp' := if s then skp + 1 else skp in
    if negb (sched_owed L 4 (t + 1) skp' <? 2 ^ ws) then None
    else
      let exp := if s then skp_data 4 + N.shiftl (skp_ctrl 4) 32
                 else xor_word (tx_ien i) (ks_word reg) (tx_id i) (tx_ic i) + N.shiftl (tx_ic i) 32 in
      let reg' := tx_reg_next (N2bits 16 init) reg (tx_id i) (tx_ic i) (0 <? t) s in
      let ok := Bool.eqb (tx_ohold o) s && Bool.eqb (tx_oready o) (0 <? t)
                && N.eqb (tx_oks o) (ks_word reg) && N.eqb (bits o 0 36) pw in
      Some (bits2N reg' + N.shiftl exp 16 + N.shiftl (t + 1) 52 + N.shiftl skp' 84, ok).

(* ---- environment for the lock-step obligation on the transmit path: the product with the free-running
   16-bit LFSR is kept finite by restricting to histories in which at most K words follow each
   COM-first word (the register stays inside the first K+1 values of the sequence) *)
Fixpoint lfsr_window (k : nat) (reg : list bool) : list N :=
  match k with O => [bits2N reg] | S k' => bits2N reg :: lfsr_window k' (lfsr_next reg) end.
Definition tx_env_win (init : list bool) (K : nat) (st : txp_st) (i : N) : bool :=
  let k := tx_ctc st in
  let reg' := tx_reg_next init (tx_reg st) (tx_id i) (tx_ic i) (sk_rdy k) (ski_sending k (tx_ican i)) in
  existsb (N.eqb (bits2N reg')) (lfsr_window K init).

(* input alphabets (packed input words) for the lock-step obligations *)
Definition tx_in (d c : N) (can en eidle : bool) : N :=
  d + N.shiftl c 32 + N.shiftl (b2n can) 36 + N.shiftl (b2n en) 37 + N.shiftl (b2n eidle) 38.
Definition tx_alphabet (words : list (N * N)) (ens eidles : list bool) : list N :=
  flat_map (fun w => flat_map (fun can => flat_map (fun en => map (fun e => tx_in (fst w) (snd w) can en e) eidles) ens)
                              [false; true]) words.
Definition ski_in (B : N) (v : bool) (d c : N) (can r : bool) : N :=
  b2n v + N.shiftl d 1 + N.shiftl c (1 + 8 * B) + N.shiftl (b2n can) (1 + 9 * B) + N.shiftl (b2n r) (2 + 9 * B).
Definition ski_alphabet (B : N) (words : list (N * N)) (vs rs : list bool) : list N :=
  flat_map (fun w => flat_map (fun can => flat_map (fun v => map (fun r => ski_in B v (fst w) (snd w) can r) rs) vs)
                              [false; true]) words.

(* ============================================================================================ *)
(* Link-layer wiring (link/layer.py): four producers -> SuperSpeedStreamArbiter -> idle mux ->
   physical_layer.sink / can_send_skp.  Observed on the real USB3LinkLayer with its four stream
   producers replaced by free inputs.
   inputs : for k = 0..3: p_k valid(1) data(32) ctrl(4); then physical_layer.sink.ready(1)
   outputs: sink_data(32) sink_ctrl(4) sink_valid(1) can_send_skp(1) p0..p3 ready(4)
   In every cycle: either can_send_skp with the idle filler on the sink and no producer valid or ready
   (nothing is pending, nothing is consumed), or no can_send_skp, and a producer sees ready only if the
   PHY side is ready and the sink carries that producer's word -- exactly one producer when it is ready. *)
Definition lw_pv (i k : N) : bool := N.odd (bits i (37 * k) 1).
Definition lw_pd (i k : N) : N := bits i (37 * k + 1) 32.
Definition lw_pc (i k : N) : N := bits i (37 * k + 33) 4.
Definition lw_phy_ready (i : N) : bool := N.odd (bits i 148 1).
Definition lw_can (o : N) : bool := N.odd (bits o 37 1).
Definition lw_rd (o k : N) : bool := N.odd (bits o (38 + k) 1).
Definition lw_ok (i o : N) : bool :=
  let sd := bits o 0 32 in let sc := bits o 32 4 in let sv := N.odd (bits o 36 1) in
  let nready := b2n (lw_rd o 0) + b2n (lw_rd o 1) + b2n (lw_rd o 2) + b2n (lw_rd o 3) in
  let okk k := negb (lw_rd o k) ||
               (N.eqb sd (lw_pd i k) && N.eqb sc (lw_pc i k) && Bool.eqb sv (lw_pv i k) && lw_phy_ready i) in
  if lw_can o
  then N.eqb sd 0 && N.eqb sc 0 && sv && N.eqb nready 0 &&
       negb (lw_pv i 0 || lw_pv i 1 || lw_pv i 2 || lw_pv i 3)
  else N.eqb nready (b2n (lw_phy_ready i)) && okk 0 && okk 1 && okk 2 && okk 3.
Definition lw_mon (m i o : N) : option (N * bool) := Some (0, lw_ok i o).
Definition lw_in (vs : list bool) (ws : list (N * N)) (r : bool) : N :=
  fold_right (fun p acc => b2n (fst p) + N.shiftl (fst (snd p)) 1 + N.shiftl (snd (snd p)) 33 + N.shiftl acc 37)
             (b2n r) (combine vs ws).
Definition lw_alphabet (variants : list (list (N * N))) : list N :=
  flat_map (fun ws => flat_map (fun vm => map (fun r => lw_in (N2bits 4 vm) ws r) [false; true])
                               (range_bits 4)) variants.

(* width Amaranth gives Signal(range(n)) *)
Definition amaranth_range_width (n : N) : N := N.size (n - 1).
