(* C07 -- proofs about the control-endpoint model (Model/CtlXfer.v). *)
From Coq Require Import NArith List Bool Lia.
Import ListNotations.
From LunaLib Require Import Netlist PackN Machine.
From LunaModel Require Import CtlXfer.
Open Scope N_scope.

#[local] Arguments i_new : simpl never.   #[local] Arguments i_rfr : simpl never.   #[local] Arguments i_in : simpl never.
#[local] Arguments i_out : simpl never.   #[local] Arguments i_setup : simpl never. #[local] Arguments i_ping : simpl never.
#[local] Arguments i_ep : simpl never.    #[local] Arguments i_rcv : simpl never.   #[local] Arguments i_dirin : simpl never.
#[local] Arguments i_type : simpl never.  #[local] Arguments i_rcpt : simpl never.  #[local] Arguments i_req : simpl never.
#[local] Arguments i_value : simpl never. #[local] Arguments i_index : simpl never. #[local] Arguments i_len : simpl never.
#[local] Arguments i_sack : simpl never.  #[local] Arguments i_rxrfr : simpl never. #[local] Arguments i_ack : simpl never.
#[local] Arguments i_dstall : simpl never. #[local] Arguments i_dv : simpl never.   #[local] Arguments i_df : simpl never.
#[local] Arguments i_dl : simpl never.    #[local] Arguments i_sv : simpl never.    #[local] Arguments i_sf : simpl never.
#[local] Arguments i_sl : simpl never.    #[local] Arguments i_std : simpl never.   #[local] Arguments i_haslen : simpl never.
#[local] Arguments cf_unsupp : simpl never. #[local] Arguments i_fields : simpl never. #[local] Arguments bits : simpl never.
#[local] Arguments N.eqb : simpl never.   #[local] Arguments N.modulo : simpl never. #[local] Arguments N.pow : simpl never.
#[local] Arguments N.eqb : simpl nomatch.

Section Proofs.
  Variables EP mps spw : N.
  Variable skip : N -> bool.
  Variable gate : bool.
  Notation step := (cx_step EP mps spw skip gate).
  Notation tgt := (i_tgt EP).

  (* stage FSM state <-> phase of the specification *)
  Definition ctl_of (p : phase) : cstage :=
    match p with PSetup => CSetup | PData true => CDataIn | PData false => CDataOut
               | PStatus true => CStatusIn | PStatus false => CStatusOut end.

  (* invariant: the stage FSM shows the specification's phase; while a SETUP for this endpoint is being
     decoded there is no current transfer *)
  Definition inv (e : env_st) (s : sp_st) (x : cx_state) : Prop :=
    x_ctl x = ctl_of (phase_of s) /\ (e_ls e = true -> e_ep e = EP -> s_cur s = None).

  Lemma onehot_cases : forall i, onehot i = true ->
    (i_in i = false \/ i_out i = false) /\ (i_in i = false \/ i_setup i = false) /\
    (i_in i = false \/ i_ping i = false) /\ (i_out i = false \/ i_setup i = false) /\
    (i_out i = false \/ i_ping i = false) /\ (i_setup i = false \/ i_ping i = false).
  Proof.
    intros i. unfold onehot.
    destruct (i_in i), (i_out i), (i_setup i), (i_ping i); cbn; intro H; try discriminate; auto 10.
  Qed.

  Lemma outputs_match : forall s x i, x_ctl x = ctl_of (phase_of s) ->
    o_dr (snd (step x i)) = sp_dr EP s i /\ o_sr (snd (step x i)) = sp_sr EP s i /\
    ctl_ping EP (x_ctl x) i = sp_ping EP s i.
  Proof.
    intros s x i Hc. cbn [step cx_step snd o_dr o_sr]. rewrite Hc.
    unfold sp_dr, sp_sr, sp_ping. destruct (phase_of s) as [|[|]|[|]]; cbn; auto.
  Qed.

  Lemma ctl_match : forall e s x i, inv e s x -> cx_env_ok e i = true ->
    ctl_next EP (x_ctl x) i = ctl_of (phase_of (sp_next EP s i)).
  Proof.
    intros e s x i [Hc Hj] He.
    unfold cx_env_ok in He. apply andb_true_iff in He as [He Hoh]. apply andb_true_iff in He as [Hep Hrcv].
    apply onehot_cases in Hoh. destruct Hoh as (H1 & H2 & H3 & H4 & H5 & H6).
    rewrite Hc. destruct s as [cur adv]. unfold sp_next, phase_of, setup_reset, i_tgt in *.
    cbn [s_cur s_adv] in *.
    destruct cur as [f|].
    - (* a transfer is in progress: a report would need e_ls, which excludes it *)
      assert (Hnr : i_rcv i && (i_ep i =? EP) = false).
      { destruct (i_rcv i) eqn:Er; [|reflexivity]. cbn in Hrcv. apply andb_true_iff in Hrcv as [Hls Hnn].
        destruct (i_ep i =? EP) eqn:Et; [|reflexivity]. apply N.eqb_eq in Et.
        apply negb_true_iff in Hnn. rewrite Hnn in Hep. cbn in Hep. apply N.eqb_eq in Hep.
        assert (X : Some f = None) by (apply Hj; congruence). discriminate X. }
      rewrite Hnr. clear Hnr Hrcv Hep Hj Hc.
      destruct (i_in i) eqn:Ein, (i_out i) eqn:Eout, (i_setup i) eqn:Ese, (i_ping i) eqn:Epi;
        try solve [exfalso; intuition discriminate]; clear H1 H2 H3 H4 H5 H6;
        destruct (i_haslen f) eqn:Ehl, adv, (i_dirin f) eqn:Edi, (i_new i) eqn:Enw, (i_ep i =? EP) eqn:Etg;
        cbn [ctl_of ctl_next setup_reset negb andb orb i_tgt]; unfold setup_reset, i_tgt;
        rewrite ?Ein, ?Eout, ?Ese, ?Epi, ?Enw, ?Etg; cbn [andb orb negb s_cur s_adv];
        rewrite ?Ehl, ?Edi; reflexivity.
    - cbn [ctl_of ctl_next].
      destruct (i_rcv i) eqn:Er.
      + cbn in Hrcv. apply andb_true_iff in Hrcv as [_ Hnn]. apply negb_true_iff in Hnn. rewrite Hnn. cbn.
        unfold i_tgt. destruct (i_ep i =? EP); cbn; [|reflexivity].
        destruct (i_haslen i), (i_dirin i); reflexivity.
      + unfold i_tgt. cbn. destruct (i_new i && (i_ep i =? EP) && i_setup i); reflexivity.
  Qed.

  Lemma inv_step : forall e s x i, inv e s x -> cx_env_ok e i = true ->
    inv (cx_env_next e i) (sp_next EP s i) (fst (step x i)).
  Proof.
    intros e s x i Hi He. split.
    - cbn [step cx_step fst x_ctl]. eapply ctl_match; eassumption.
    - destruct Hi as [Hc Hj].
      unfold cx_env_ok in He. apply andb_true_iff in He as [He _]. apply andb_true_iff in He as [Hep Hrcv].
      unfold cx_env_next, sp_next. cbn [e_ls e_ep]. intros Hls Hepeq.
      assert (Ht : (i_ep i =? EP) = true) by (apply N.eqb_eq; exact Hepeq). rewrite Ht.
      destruct (i_new i) eqn:En.
      + rewrite Hls. reflexivity.
      + cbn. destruct (i_rcv i) eqn:Er; [discriminate|]. cbn.
        cbn in Hep. apply N.eqb_eq in Hep.
        assert (X : s_cur s = None) by (apply Hj; congruence). rewrite X. exact X.
  Qed.

  (* every answer has a cause (single cycle, any state) *)
  Lemma h_causes : forall h pid i dr sr cm, (cm = true -> i_ack i = true) -> let o := h_outputs h pid i dr sr cm in
    (h_txv o = true -> sr = true \/ i_dv i = true \/ i_sv i = true) /\
    (h_stall o = true -> dr = true \/ sr = true \/ i_dstall i = true) /\
    (h_ack o = true -> sr = true) /\
    (h_ac o = true \/ h_cc o = true \/ h_halt o <> 0 -> i_ack i = true).
  Proof.
    intros h pid i dr sr cm Hcm.
    destruct h; cbn [h_outputs h_quiet h_txv h_stall h_ack h_ac h_cc h_halt]; repeat split;
      try (intro H; discriminate H); auto;
      try (intro H; apply andb_true_iff in H as [H _]; auto; fail);
      try (intros [H|[H|H]]; try discriminate H; try congruence; auto; fail).
    all: try (intro H; apply orb_true_iff in H as [H|H]; auto; fail).
    all: try (intros [H|[H|H]]; try discriminate H; try congruence; eauto; fail).
    all: try (intros [H|[H|H]]; try discriminate H; try (apply Hcm; exact H); try (destruct cm; [auto | congruence]); fail).
    intros [H|[H|H]]; try discriminate H. destruct (i_ack i); [reflexivity | congruence].
  Qed.

  Lemma fb_causes : forall dr sr, let o := fb_outputs dr sr in
    (h_txv o = true -> sr = true \/ False) /\
    (h_stall o = true -> dr = true \/ sr = true) /\
    (h_ack o = true -> sr = true) /\
    (h_ac o = true \/ h_cc o = true \/ h_halt o <> 0 -> False).
  Proof.
    intros dr sr. cbn. repeat split; try discriminate.
    - intro H. apply orb_true_iff in H. exact H.
    - intros [H|[H|H]]; try discriminate H. congruence.
  Qed.

  Lemma answers_have_causes : forall x i, let o := snd (step x i) in
    (o_ds o = true \/ o_ss o = true -> o_dr o = true) /\
    (o_txv o = true -> o_sr o = true \/ i_dv i = true \/ i_sv i = true) /\
    (o_stall o = true -> o_dr o = true \/ o_sr o = true \/ i_dstall i = true) /\
    (o_ack o = true -> i_sack i = true \/ o_sr o = true \/ ctl_ping EP (x_ctl x) i = true) /\
    (i_sack i = true \/ ctl_ping EP (x_ctl x) i = true -> o_ack o = true) /\
    o_nak o = false /\
    (o_ac o = true \/ o_cc o = true \/ o_halt o <> 0 -> i_ack i = true).
  Proof.
    intros x i. cbn [step cx_step snd o_dr o_sr o_ds o_ss o_txv o_stall o_ack o_nak o_ac o_cc o_halt].
    set (dr := ctl_dr EP (x_ctl x) i). set (sr := ctl_sr EP (x_ctl x) i). set (pg := ctl_ping EP (x_ctl x) i).
    assert (Hstart : (i_std i && h_dstart (x_h x) dr = true \/ i_std i && h_sstart (x_h x) dr = true) -> dr = true).
    { destruct (i_std i); cbn [andb]; [|intros [H|H]; discriminate H].
      destruct (x_h x); cbn; intros [H|H]; try discriminate H; exact H. }
    assert (Hack : forall ha, (ha = true -> sr = true) ->
              (i_sack i || ha || pg = true -> i_sack i = true \/ sr = true \/ pg = true) /\
              (i_sack i = true \/ pg = true -> i_sack i || ha || pg = true)).
    { intros ha Hha. split.
      - intro H. apply orb_true_iff in H as [H|H]; [apply orb_true_iff in H as [H|H]|]; auto.
      - intros [H|H]; rewrite H; [reflexivity | apply orb_true_r]. }
    destruct (claimed skip i).
    - assert (Hcm : commit gate (x_h x) (x_wa x) (x_wc x) i = true -> i_ack i = true)
        by (unfold commit; intro H; apply andb_true_iff in H as [H _]; exact H).
      destruct (h_causes (x_h x) (x_pid x) i dr sr _ Hcm) as (A & B & C & D).
      destruct (Hack _ C) as [K1 K2]. repeat split; auto.
    - destruct (fb_causes dr sr) as (A & B & C & D).
      destruct (Hack _ C) as [K1 K2].
      split; [exact Hstart|]. split; [intro H; destruct (A H) as [K|[]]; auto|].
      split; [intro H; destruct (B H); auto|]. split; [exact K1|]. split; [exact K2|]. split; [reflexivity|].
      intro H; destruct (D H).
  Qed.

  Lemma cyc_ok_step : forall e s x i, inv e s x -> cyc_ok EP s i (snd (step x i)).
  Proof.
    intros e s x i [Hc _]. destruct (outputs_match s x i Hc) as (A & B & C).
    pose proof (answers_have_causes x i) as H. cbv zeta in H. rewrite C in H.
    unfold cyc_ok. tauto.
  Qed.

  Lemma holds_along_run : forall tr e s x, inv e s x -> cx_env_trace e tr = true ->
    holds_along EP s tr (xrun step x tr).
  Proof.
    induction tr as [|i t IH]; intros e s x Hi He; cbn [xrun holds_along]; [exact I|].
    cbn [cx_env_trace] in He. apply andb_true_iff in He as [He Ht].
    pose proof (cyc_ok_step e s x i Hi) as Hc. pose proof (inv_step e s x i Hi He) as Hn.
    destruct (step x i) as [x' o]. cbn [fst snd] in *. split; [exact Hc|]. eapply IH; eassumption.
  Qed.

  Lemma inv_init : inv cx_env0 sp0 cx_init.
  Proof. split; reflexivity. Qed.

  (* C07, stage protocol *)
  Theorem stage_protocol : forall tr, cx_env_trace cx_env0 tr = true ->
    holds_along EP sp0 tr (xrun step cx_init tr).
  Proof. intros tr H. exact (holds_along_run tr cx_env0 sp0 cx_init inv_init H). Qed.

  (* ---- reading of the specification state in terms of the history ---- *)
  Lemma sp_state_snoc : forall tr s i, sp_state EP s (tr ++ [i]) = sp_next EP (sp_state EP s tr) i.
  Proof. induction tr as [|j t IH]; intros s i; cbn [sp_state app]; [reflexivity | apply IH]. Qed.

  Definition quiet_since (f : N) (b : list N) : bool :=
    forallb (fun i => negb (ev_stok EP i) && negb (ev_acc EP i)) b.

  Lemma sp_next_cases : forall s i,
    sp_next EP s i =
      if ev_stok EP i then {| s_cur := None; s_adv := false |}
      else if ev_acc EP i then {| s_cur := Some i; s_adv := false |}
      else match s_cur s with
           | Some f => {| s_cur := Some f; s_adv := s_adv s || ev_opp EP f i |}
           | None => s
           end.
  Proof.
    intros [cur adv] i. unfold sp_next, ev_acc, ev_stok, ev_opp. cbn [s_cur s_adv].
    destruct (i_new i && (i_ep i =? EP) && i_setup i) eqn:E1; [reflexivity|]. cbn [negb andb].
    destruct (i_rcv i && (i_ep i =? EP)) eqn:E2; [reflexivity|].
    destruct cur as [f|]; [|reflexivity].
    destruct (i_new i && (i_ep i =? EP) && i_haslen f && (if i_dirin f then i_out i || i_ping i else i_in i));
      destruct adv; reflexivity.
  Qed.

  (* the current transfer is the last SETUP packet for this endpoint that no SETUP token for this endpoint has
     followed; the stage has advanced iff an opposite-direction token for this endpoint has followed it *)
  Theorem current_transfer_is_last_setup : forall tr f,
    s_cur (sp_state EP sp0 tr) = Some f <->
    exists a b, tr = a ++ f :: b /\ ev_acc EP f = true /\ quiet_since f b = true.
  Proof.
    intros tr. induction tr as [|i t IH] using rev_ind; intros f.
    - cbn. split; [discriminate|]. intros (a & b & H & _). destruct a; discriminate.
    - rewrite sp_state_snoc, sp_next_cases. split.
      + destruct (ev_stok EP i) eqn:E1; [discriminate|].
        destruct (ev_acc EP i) eqn:E2.
        * cbn. intro H. injection H as <-. exists t, []. repeat split; auto.
        * destruct (s_cur (sp_state EP sp0 t)) as [g|] eqn:Ec.
          -- cbn. intro H. injection H as <-. destruct (proj1 (IH g) eq_refl) as (a & b & Ht & Ha & Hq).
             exists a, (b ++ [i]). subst t. rewrite <- app_assoc. repeat split; auto.
             unfold quiet_since in *. rewrite forallb_app, Hq. cbn. rewrite E1, E2. reflexivity.
          -- rewrite Ec. discriminate.
      + intros (a & b & Ht & Ha & Hq).
        destruct b as [|b0 b'] using rev_ind.
        * apply app_inj_tail in Ht as [-> ->].
          assert (Hs : ev_stok EP f = false)
            by (unfold ev_acc in Ha; destruct (ev_stok EP f); [discriminate Ha | reflexivity]).
          rewrite Hs, Ha. reflexivity.
        * clear IHb'. rewrite app_comm_cons, app_assoc in Ht. apply app_inj_tail in Ht as [-> ->].
          unfold quiet_since in Hq. rewrite forallb_app in Hq. apply andb_true_iff in Hq as [Hq Hl].
          cbn in Hl. rewrite andb_true_r in Hl. apply andb_true_iff in Hl as [L1 L2].
          apply negb_true_iff in L1, L2. rewrite L1, L2.
          assert (Hc : s_cur (sp_state EP sp0 (a ++ f :: b')) = Some f) by (apply IH; eauto).
          rewrite Hc. reflexivity.
  Qed.

  (* ---- C07, a new SETUP starts a fresh transfer ---- *)
  Lemma inv_run : forall tr e s x, inv e s x -> cx_env_trace e tr = true ->
    exists e' , inv e' (sp_state EP s tr) (xstate step x tr) /\
                forall i, cx_env_trace e (tr ++ [i]) = true -> cx_env_ok e' i = true.
  Proof.
    induction tr as [|j t IH]; intros e s x Hi He.
    - exists e. split; [exact Hi|]. cbn. intros i H. apply andb_true_iff in H as [H _]. exact H.
    - cbn [cx_env_trace] in He. apply andb_true_iff in He as [He Ht].
      destruct (IH _ _ _ (inv_step e s x j Hi He) Ht) as (e' & Hi' & Hn).
      exists e'. split; [exact Hi'|]. intros i H. apply Hn.
      cbn [app cx_env_trace] in H. apply andb_true_iff in H as [_ H]. exact H.
  Qed.

  (* the two register-write flags are clear outside their own states (any history, no hypothesis) *)
  Definition flags_inv (x : cx_state) : Prop :=
    (x_wa x = true -> gate = true /\ x_h x = HSetAddress) /\ (x_wc x = true -> gate = true /\ x_h x = HSetConfig).
  Lemma flags_inv_init : flags_inv cx_init.
  Proof. split; discriminate. Qed.
  Lemma flags_inv_step : forall x i, flags_inv x -> flags_inv (fst (step x i)).
  Proof.
    intros x i [Fa Fc]. cbn [step cx_step fst x_h x_wa x_wc]. unfold flags_inv.
    destruct (i_std i); [|split; assumption].
    generalize (commit gate (x_h x) (x_wa x) (x_wc x) i). intro cm.
    generalize (ctl_dr EP (x_ctl x) i) (ctl_sr EP (x_ctl x) i). intros dr sr.
    unfold h_next, w_next.
    destruct (x_wa x) eqn:Ea, (x_wc x) eqn:Ec;
      try (destruct (Fa eq_refl) as [Ga Ha]); try (destruct (Fc eq_refl) as [Gc Hc]); try congruence;
      destruct gate; try discriminate;
      destruct (x_h x); try discriminate; cbn [andb h_own_next];
      destruct (i_rcv i), cm, sr, (i_new i); split; intro H; try discriminate H; split; reflexivity.
  Qed.
  Lemma flags_inv_run : forall tr x, flags_inv x -> flags_inv (xstate step x tr).
  Proof. induction tr as [|i t IH]; intros x H; cbn [xstate]; [exact H | apply IH, flags_inv_step, H]. Qed.

  Theorem fresh_after_setup : forall h i, cx_env_trace cx_env0 (h ++ [i]) = true ->
    i_rcv i = true -> tgt i = true ->
    let x' := xstate step cx_init (h ++ [i]) in
    x_ctl x' = stage_of i /\
    (i_std i = true ->
       x_h x' = (if skip i then HIdle else dispatch i) /\ x_pid x' = true /\ x_ea x' = false /\ x_sp x' = 0 /\
       x_wa x' = false /\ x_wc x' = false).
  Proof.
    intros h i He Hr Ht.
    assert (Heh : cx_env_trace cx_env0 h = true).
    { clear -He. revert He. generalize cx_env0. induction h as [|j t IH]; intros e H; [reflexivity|].
      cbn [app cx_env_trace] in *. apply andb_true_iff in H as [H1 H2]. rewrite H1. cbn. eapply IH; eauto. }
    destruct (inv_run h cx_env0 sp0 cx_init inv_init Heh) as (e' & [Hc Hj] & Hn).
    specialize (Hn i He).
    assert (Hx : forall l x, xstate step x (l ++ [i]) = fst (step (xstate step x l) i)).
    { induction l as [|j t IH]; intros x; cbn [app xstate]; [reflexivity | apply IH]. }
    cbv zeta. rewrite Hx. set (x := xstate step cx_init h) in *.
    unfold cx_env_ok in Hn. apply andb_true_iff in Hn as [Hn _]. apply andb_true_iff in Hn as [Hep Hrcv].
    rewrite Hr in Hrcv. cbn in Hrcv. apply andb_true_iff in Hrcv as [Hls Hnn]. apply negb_true_iff in Hnn.
    rewrite Hnn in Hep. cbn in Hep. apply N.eqb_eq in Hep. unfold i_tgt in Ht. apply N.eqb_eq in Ht.
    assert (Hcur : s_cur (sp_state EP sp0 h) = None) by (apply Hj; congruence).
    cbn [step cx_step fst x_ctl x_h x_pid x_ea x_sp x_wa x_wc]. split.
    - rewrite Hc. unfold phase_of. rewrite Hcur. cbn [ctl_of ctl_next]. unfold i_tgt.
      rewrite Hr. replace (i_ep i =? EP) with true by (symmetry; apply N.eqb_eq; exact Ht). reflexivity.
    - intro Hs. rewrite Hs. unfold h_next, h_pid_next, h_ea_next, h_sp_next. rewrite Hr.
      destruct (flags_inv_run h cx_init flags_inv_init) as [Fa Fc]. fold x in Fa, Fc.
      repeat split; auto; unfold w_next; rewrite Hr.
      + destruct (x_wa x); [destruct (Fa eq_refl) as [-> ->]; reflexivity|].
        destruct (gate && _); reflexivity.
      + destruct (x_wc x); [destruct (Fc eq_refl) as [-> ->]; reflexivity|].
        destruct (gate && _); reflexivity.
  Qed.

  (* the state after a standard request's SETUP does not depend on the history *)
  Corollary history_independent : forall h1 h2 i,
    cx_env_trace cx_env0 (h1 ++ [i]) = true -> cx_env_trace cx_env0 (h2 ++ [i]) = true ->
    i_rcv i = true -> tgt i = true -> i_std i = true ->
    xstate step cx_init (h1 ++ [i]) = xstate step cx_init (h2 ++ [i]).
  Proof.
    intros h1 h2 i H1 H2 Hr Ht Hs.
    destruct (fresh_after_setup h1 i H1 Hr Ht) as [A1 B1]. destruct (B1 Hs) as (C1 & D1 & E1 & F1 & G1 & I1).
    destruct (fresh_after_setup h2 i H2 Hr Ht) as [A2 B2]. destruct (B2 Hs) as (C2 & D2 & E2 & F2 & G2 & I2).
    destruct (xstate step cx_init (h1 ++ [i])), (xstate step cx_init (h2 ++ [i])). cbn in *. congruence.
  Qed.

  (* while the request is not a standard one, the standard handler is frozen and invisible: two states with the
     same stage produce the same observable outputs and the same next stage *)
  Lemma nonstd_step : forall x y i, x_ctl x = x_ctl y -> i_std i = false ->
    x_ctl (fst (step x i)) = x_ctl (fst (step y i)) /\ out_obs (snd (step x i)) = out_obs (snd (step y i)).
  Proof.
    intros x y i Hc Hs. cbn [step cx_step fst snd x_ctl]. unfold claimed. rewrite Hs, Hc. cbn [andb].
    split; reflexivity.
  Qed.

  Theorem nonstd_history_independent : forall sfx x y, x_ctl x = x_ctl y ->
    Forall (fun i => i_std i = false) sfx ->
    map out_obs (xrun step x sfx) = map out_obs (xrun step y sfx) /\
    x_ctl (xstate step x sfx) = x_ctl (xstate step y sfx).
  Proof.
    induction sfx as [|i t IH]; intros x y Hc Hf; cbn [xrun xstate map]; [auto|].
    inversion Hf as [|? ? Hs Ht]; subst. destruct (nonstd_step x y i Hc Hs) as [A B].
    destruct (step x i) as [x' o], (step y i) as [y' o']. cbn [fst snd map] in *.
    destruct (IH x' y' A Ht) as [C D]. rewrite B, C. auto.
  Qed.

  (* ---- C07, tokens for other endpoints are invisible ---- *)
  Lemma foreign_step : forall x i j, tgt i = false -> same_but_token i j -> skip i = skip j ->
    (gate = true -> i_new i = i_new j) -> step x i = step x j.
  Proof.
    intros x i j Ht SBT Hk Hnw. revert Hk. destruct SBT as (E1 & E2 & E3 & E4 & E5 & E6 & E7 & E8 & E9 & E10 & E11 & E12 & E13 & E14 & E15 & E16 & E17 & E18). intro Hk.
    assert (Htj : tgt j = false) by (unfold i_tgt in *; rewrite <- E1; exact Ht).
    assert (Hdr : forall c, ctl_dr EP c i = false /\ ctl_dr EP c j = false).
    { intros []; cbn; rewrite ?Ht, ?Htj, ?andb_false_r; auto. }
    assert (Hsr : forall c, ctl_sr EP c i = false /\ ctl_sr EP c j = false).
    { intros []; cbn; rewrite ?Ht, ?Htj, ?andb_false_r; auto. }
    assert (Hpg : forall c, ctl_ping EP c i = false /\ ctl_ping EP c j = false).
    { intros []; cbn; rewrite ?Ht, ?Htj; auto. }
    assert (Hnx : forall c, ctl_next EP c i = c /\ ctl_next EP c j = c).
    { intros []; cbn; unfold setup_reset; rewrite ?Ht, ?Htj, ?andb_false_r; auto. }
    unfold cx_step.
    destruct (Hdr (x_ctl x)) as [-> ->]. destruct (Hsr (x_ctl x)) as [-> ->].
    destruct (Hpg (x_ctl x)) as [-> ->]. destruct (Hnx (x_ctl x)) as [-> ->].
    unfold claimed, i_std, h_next, h_own_next, h_pid_next, h_ea_next, h_sp_next, h_outputs, dispatch, cf_unsupp,
      fb_outputs, h_dstart, h_sstart, commit, w_next.
    rewrite E2, E4, E5, E6, E7, E8, E10, E11, E12, E13, E14, E15, E16, E17, E18, Hk.
    destruct gate; [rewrite (Hnw eq_refl)|]; reflexivity.
  Qed.

  (* with the C08 repair the register-write states also watch new_token (of any endpoint) to drop a status answer
     the host did not ACK; the comparison then keeps new_token *)
  Definition foreign_related (i j : N) : Prop :=
    (tgt i = true -> i = j) /\ same_but_token i j /\ skip i = skip j /\ (gate = true -> i_new i = i_new j).

  Theorem foreign_tokens_invisible : forall tr1 tr2 x, Forall2 foreign_related tr1 tr2 ->
    xrun step x tr1 = xrun step x tr2.
  Proof.
    induction tr1 as [|i t IH]; intros tr2 x H; inversion H as [|? j ? t2 Hr Ht]; subst; cbn [xrun]; [reflexivity|].
    destruct Hr as (A & B & C & D).
    assert (E : step x i = step x j).
    { destruct (tgt i) eqn:Et; [rewrite (A eq_refl); reflexivity | apply foreign_step; assumption]. }
    rewrite E. destruct (step x j) as [x' o]. rewrite (IH t2 x' Ht). reflexivity.
  Qed.
End Proofs.

(* ---------------------------------------------------------------------------------------------- *)
(* C07: the first answer of a fresh transfer is the one its request calls for, whatever happened before *)
Section FirstAnswer.
  Variables EP mps spw : N.
  Variable skip : N -> bool.
  Variable gate : bool.
  Hypothesis skip_ext : forall f i, same_fieldsb f i = true -> skip i = skip f.
  Notation step := (cx_step EP mps spw skip gate).

  Definition hfresh (f : N) (x : cx_state) : Prop :=
    i_std f = true -> x_h x = (if skip f then HIdle else dispatch f) /\ x_pid x = true /\ x_ea x = false /\ x_sp x = 0.

  Lemma same_fields_eqs : forall f i, same_fieldsb f i = true ->
    i_dirin f = i_dirin i /\ i_type f = i_type i /\ i_rcpt f = i_rcpt i /\ i_req f = i_req i /\
    i_value f = i_value i /\ i_index f = i_index i /\ i_len f = i_len i.
  Proof.
    intros f i H. unfold same_fieldsb in H.
    repeat (apply andb_true_iff in H as [H ?]).
    apply eqb_prop in H.
    repeat match goal with H : (_ =? _) = true |- _ => apply N.eqb_eq in H end. auto 10.
  Qed.

  Lemma fresh_answer : forall x f i, same_fieldsb f i = true -> skip i = skip f -> hfresh f x ->
    ctl_ping EP (x_ctl x) i = false ->
    let o := snd (step x i) in
    o_dr o && o_sr o = false -> o_dr o || o_sr o = true ->
    first_answer_ok (rclass_of skip f) i o = true.
  Proof.
    intros x f i Hsf Hsk Hfr Hpg.
    destruct (same_fields_eqs f i Hsf) as (E1 & E2 & E3 & E4 & E5 & E6 & E7).
    assert (Estd : i_std f = i_std i) by (unfold i_std; rewrite E2; reflexivity).
    assert (Ecf : cf_unsupp f = cf_unsupp i) by (unfold cf_unsupp; rewrite E3, E5; reflexivity).
    assert (Edp : dispatch f = dispatch i) by (unfold dispatch; rewrite E4, Ecf; reflexivity).
    unfold rclass_of, hfresh in *. rewrite Estd, Edp, <- Hsk, E4, E3, E5 in *.
    cbn [step cx_step snd o_dr o_sr]. rewrite Hpg. unfold claimed.
    generalize (commit gate (x_h x) (x_wa x) (x_wc x) i). intro cm.
    generalize (ctl_dr EP (x_ctl x) i) (ctl_sr EP (x_ctl x) i). intros dr sr Hex Hor.
    destruct (i_std i) eqn:Es; cbn [negb orb andb].
    2:{ unfold first_answer_ok. cbn. rewrite Hor. destruct (i_sack i); reflexivity. }
    destruct (Hfr eq_refl) as (Hh & Hp & He & Hs). clear Hfr.
    destruct (skip i) eqn:Ek; cbn [negb orb andb].
    { unfold first_answer_ok. rewrite Hh. cbn. rewrite Hor. destruct (i_sack i); reflexivity. }
    rewrite Hh, Hp, Hs. unfold dispatch, cf_unsupp, first_answer_ok.
    destruct dr, sr; try discriminate;
    (destruct (i_req i =? 0) eqn:R0; [|destruct (i_req i =? 1) eqn:R1; [|destruct (i_req i =? 5) eqn:R5;
      [|destruct (i_req i =? 9) eqn:R9; [|destruct (i_req i =? 6) eqn:R6; [|destruct (i_req i =? 8) eqn:R8]]]]]);
    repeat match goal with H : (i_req i =? _) = true |- _ => apply N.eqb_eq in H; rewrite H in *; clear H end;
    cbn [N.eqb Pos.eqb orb andb negb];
    try (destruct (i_rcpt i =? 2) eqn:Q1, (i_value i =? 0) eqn:Q2); cbn;
    unfold cf_unsupp; rewrite ?Q1, ?Q2; cbn;
    destruct (i_sack i), (i_sv i), (i_dv i), (i_dstall i); reflexivity.
  Qed.

  Definition inv2 (fr : bool) (s : sp_st) (x : cx_state) : Prop :=
    fr = true -> exists f, s_cur s = Some f /\ hfresh f x.

  Lemma dr_sr_excl : forall c i, ctl_dr EP c i && ctl_sr EP c i = false.
  Proof. intros [] i; cbn; rewrite ?andb_false_r; reflexivity. Qed.

  Lemma opp_no_ping : forall c i, onehot i = true -> ctl_dr EP c i || ctl_sr EP c i = true ->
    ctl_ping EP c i = false.
  Proof.
    intros c i Hoh H. apply (onehot_cases) in Hoh. destruct Hoh as (_ & _ & _ & _ & H5 & _).
    destruct c; cbn in *; try reflexivity; try discriminate.
    destruct (i_out i), (i_ping i); destruct H5 as [K|K]; try discriminate K;
      rewrite ?andb_false_r in *; try reflexivity; discriminate.
  Qed.

  Lemma own_next_idle : forall h i, i_ack i = false -> i_dstall i = false -> h_own_next h i false false false = h.
  Proof. intros h i Ha Hd. destruct h; cbn; rewrite ?Ha, ?Hd; reflexivity. Qed.

  Lemma inv2_step : forall e s x fr i, inv EP e s x -> inv2 fr s x -> cx_env_ok e i = true ->
    fr_ok EP skip s fr i (snd (step x i)) = true /\
    inv2 (fr_next EP s fr i) (sp_next EP s i) (fst (step x i)).
  Proof.
    intros e s x fr i Hi H2 He.
    destruct (outputs_match EP mps spw skip gate s x i (proj1 Hi)) as (Odr & Osr & Opg).
    assert (Hoh : onehot i = true).
    { unfold cx_env_ok in He. apply andb_true_iff in He as [_ He]. exact He. }
    split.
    - unfold fr_ok. destruct (s_cur s) as [f|] eqn:Ec; [|reflexivity].
      unfold impb. destruct (fr && same_fieldsb f i && negb (i_rcv i) && (o_dr (snd (step x i)) || o_sr (snd (step x i)))) eqn:Ecd;
        [|reflexivity]. cbn [negb orb].
      repeat (apply andb_true_iff in Ecd as [Ecd ?]). subst fr.
      destruct (H2 eq_refl) as (f' & Hf' & Hfr). rewrite Ec in Hf'. injection Hf' as <-.
      apply fresh_answer; auto.
      + apply opp_no_ping; [exact Hoh|]. cbn [step cx_step snd o_dr o_sr] in *. assumption.
      + cbn [step cx_step snd o_dr o_sr]. apply dr_sr_excl.
    - unfold inv2, fr_next. rewrite sp_next_cases.
      destruct (ev_stok EP i) eqn:E1; [discriminate|].
      destruct (ev_acc EP i) eqn:E2.
      + intros _. exists i. split; [reflexivity|]. intro Hs.
        assert (Hr : i_rcv i = true).
        { unfold ev_acc in E2. apply andb_true_iff in E2 as [E2 _]. apply andb_true_iff in E2 as [_ E2]. exact E2. }
        cbn [step cx_step fst x_h x_pid x_ea x_sp]. rewrite Hs.
        unfold h_next, h_pid_next, h_ea_next, h_sp_next. rewrite Hr. auto.
      + destruct (s_cur s) as [f|] eqn:Ec; [|discriminate].
        intro Hfr. repeat (apply andb_true_iff in Hfr as [Hfr ?]). subst fr.
        repeat match goal with H : negb _ = true |- _ => apply negb_true_iff in H end.
        destruct (H2 eq_refl) as (f' & Hf' & Hh). rewrite Ec in Hf'. injection Hf' as <-.
        exists f. split; [reflexivity|]. intro Hs. destruct (Hh Hs) as (A & B & C & D).
        match goal with H : same_fieldsb f i = true |- _ => destruct (same_fields_eqs f i H) as (_ & E2' & _) end.
        assert (Hsi : i_std i = true) by (unfold i_std in *; rewrite <- E2'; exact Hs).
        match goal with H : sp_dr EP s i || sp_sr EP s i = false |- _ => apply orb_false_iff in H as [Hdr Hsr] end.
        cbn [step cx_step snd o_dr o_sr] in Odr, Osr. rewrite Hdr in Odr. rewrite Hsr in Osr.
        cbn [step cx_step fst x_h x_pid x_ea x_sp]. rewrite Hsi, Odr, Osr.
        unfold h_next, h_pid_next, h_ea_next, h_sp_next.
        match goal with H : i_rcv i = false |- _ => rewrite H end.
        replace (commit gate (x_h x) (x_wa x) (x_wc x) i) with false
          by (unfold commit; match goal with H : i_ack i = false |- _ => rewrite H end; reflexivity).
        rewrite own_next_idle by assumption.
        match goal with H : i_ack i = false |- _ => rewrite H end.
        match goal with H : i_dstall i = false |- _ => rewrite H end.
        rewrite A, B, C, D. cbn [andb].
        destruct (if skip f then HIdle else dispatch f); auto.
  Qed.

  Lemma fresh_along_run : forall tr e s x fr, inv EP e s x -> inv2 fr s x -> cx_env_trace e tr = true ->
    fresh_along EP skip s fr tr (xrun step x tr) = true.
  Proof.
    induction tr as [|i t IH]; intros e s x fr Hi H2 He; cbn [xrun fresh_along]; [reflexivity|].
    cbn [cx_env_trace] in He. apply andb_true_iff in He as [He Ht].
    destruct (inv2_step e s x fr i Hi H2 He) as [A B].
    pose proof (inv_step EP mps spw skip gate e s x i Hi He) as Hn.
    destruct (step x i) as [x' o]. cbn [fst snd] in *. rewrite A. cbn [andb]. eapply IH; eassumption.
  Qed.

  Theorem first_answers_fresh : forall tr, cx_env_trace cx_env0 tr = true ->
    fresh_along EP skip sp0 false tr (xrun step cx_init tr) = true.
  Proof.
    intros tr H. apply (fresh_along_run tr cx_env0 sp0 cx_init false); [apply inv_init | discriminate | exact H].
  Qed.
End FirstAnswer.

(* ---------------------------------------------------------------------------------------------- *)
(* packing lemmas for the lock-step obligations and their corollaries *)
Definition out_wf (o : cx_out) : Prop := o_pid o < 4 /\ o_na o < 128 /\ o_nc o < 256 /\ o_halt o < 64.

Lemma b2n_lt : forall b, b2n b < 2.
Proof. destruct b; cbn; lia. Qed.
Lemma nb_b2n : forall b, nb (b2n b) = b.
Proof. destruct b; reflexivity. Qed.

Lemma cx_unpack_pack : forall o, out_wf o -> cx_unpack (cx_pack o) = o.
Proof.
  intros o (H1 & H2 & H3 & H4). unfold cx_unpack, cx_pack. cbv zeta.
  repeat (rewrite pk_div by first [apply b2n_lt | assumption]).
  repeat (rewrite pk_mod by first [apply b2n_lt | assumption]).
  rewrite !nb_b2n. destruct o; reflexivity.
Qed.

Lemma bits_lt : forall x lo w, bits x lo w < 2 ^ w.
Proof. intros. unfold bits. apply land_ones_lt. Qed.

Lemma step_out_wf : forall EP mps spw skip gate x i, out_wf (snd (cx_step EP mps spw skip gate x i)).
Proof.
  intros. cbn [cx_step snd]. unfold out_wf. cbn [o_pid o_na o_nc o_halt].
  assert (B1 : forall v, bits v 0 7 < 128) by (intro v; apply (bits_lt v 0 7)).
  assert (B2 : forall v, bits v 0 8 < 256) by (intro v; apply (bits_lt v 0 8)).
  assert (B3 : forall v, bits v 7 1 < 2) by (intro v; apply (bits_lt v 7 1)).
  assert (B4 : forall v, bits v 0 4 < 16) by (intro v; apply (bits_lt v 0 4)).
  split; [destruct (h_pid _); cbn; lia|].
  destruct (claimed skip i); [|cbn; lia].
  destruct (x_h x); cbn [h_outputs h_quiet h_na h_nc h_halt]; repeat split; try lia;
    try destruct (commit gate _ _ _ i); destruct (i_ack i); try lia; auto.
  all: specialize (B3 (i_index i)); specialize (B4 (i_index i)); lia.
Qed.

Lemma run_stepN : forall EP mps spw skip gate tr x,
  Machine.run (cx_stepN EP mps spw skip gate) x tr = map cx_pack (xrun (cx_step EP mps spw skip gate) x tr).
Proof.
  induction tr as [|i t IH]; intros x; cbn [Machine.run xrun map]; [reflexivity|].
  unfold cx_stepN at 1. destruct (cx_step EP mps spw skip gate x i) as [x' o]. rewrite IH. reflexivity.
Qed.

Lemma unpack_run : forall EP mps spw skip gate tr x,
  map cx_unpack (Machine.run (cx_stepN EP mps spw skip gate) x tr) = xrun (cx_step EP mps spw skip gate) x tr.
Proof.
  intros. rewrite run_stepN.
  revert x. induction tr as [|i t IH]; intros x; cbn [xrun map]; [reflexivity|].
  pose proof (step_out_wf EP mps spw skip gate x i) as W.
  destruct (cx_step EP mps spw skip gate x i) as [x' o]. cbn [snd] in W. cbn [map].
  rewrite (cx_unpack_pack o W), IH. reflexivity.
Qed.

Lemma cs_of_code : forall c, cs_of (cs_code c) = c.
Proof. destruct c; reflexivity. Qed.
Lemma hs_of_code : forall h, hs_of (hs_code h) = h.
Proof. destruct h; reflexivity. Qed.
Lemma cs_code_lt : forall c, cs_code c < 8.
Proof. destruct c; cbn; lia. Qed.
Lemma hs_code_lt : forall h, hs_code h < 8.
Proof. destruct h; cbn; lia. Qed.

Lemma cx_dec_enc : forall s, cx_dec (cx_enc s) = s.
Proof.
  intros [c h p e sp wa wc]. unfold cx_dec, cx_enc. cbn [x_ctl x_h x_pid x_ea x_sp x_wa x_wc].
  repeat (rewrite pk_div by first [apply cs_code_lt | apply hs_code_lt | apply b2n_lt]).
  repeat (rewrite pk_mod by first [apply cs_code_lt | apply hs_code_lt | apply b2n_lt]).
  rewrite cs_of_code, hs_of_code, !nb_b2n. reflexivity.
Qed.

(* the executable form of the per-cycle specification *)
Lemma impb_iff : forall a b, impb a b = true <-> (a = true -> b = true).
Proof. destruct a, b; cbn; intuition congruence. Qed.

Lemma cyc_okb_iff : forall EP s i o, cyc_okb EP s i o = true <-> cyc_ok EP s i o.
Proof.
  intros EP s i o. unfold cyc_okb, cyc_ok.
  rewrite !andb_true_iff, !impb_iff, !eqb_true_iff, !orb_true_iff, !negb_true_iff, N.eqb_neq. tauto.
Qed.

Lemma skip_none_ext : forall f i, same_fieldsb f i = true -> skip_none i = skip_none f.
Proof. reflexivity. Qed.
Lemma skip_req_ext : forall r f i, same_fieldsb f i = true -> skip_req r i = skip_req r f.
Proof.
  intros r f i H. unfold skip_req. unfold same_fieldsb in H.
  repeat (apply andb_true_iff in H as [H ?]).
  match goal with K : (i_req f =? i_req i) = true |- _ => apply N.eqb_eq in K; rewrite K end. reflexivity.
Qed.

(* the runtime oracle's state codec is faithful *)
Lemma mon_dec_enc : forall m, e_ep (m_e m) < 16 -> mon_dec (mon_enc m) = m.
Proof.
  intros [[ls ep] [cur adv] fr] H. cbn [m_e e_ep] in H. unfold mon_dec, mon_enc. cbn [m_e m_s m_fr e_ls e_ep s_cur s_adv].
  repeat (rewrite pk_div by first [apply b2n_lt | assumption]).
  repeat (rewrite pk_mod by first [apply b2n_lt | assumption]).
  rewrite !nb_b2n. destruct cur as [f|].
  - replace (1 + 2 * f =? 0) with false by (symmetry; apply N.eqb_neq; lia).
    replace ((1 + 2 * f - 1) / 2) with f; [reflexivity|].
    replace (1 + 2 * f - 1) with (f * 2) by lia. rewrite N.div_mul by lia. reflexivity.
  - reflexivity.
Qed.
