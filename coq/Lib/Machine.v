(* Generic facts about packed Mealy machines  step : N -> N -> N * N  (state, input -> state', output):
   runs, exhaustive sweeps over bit-widths, and the certified reachability check used by the
   "R" obligations (closure of an explicit state list under every input of an alphabet). *)
From Coq Require Import NArith List Bool Lia FSets.FMapPositive FSets.FSetPositive.
Import ListNotations.
Open Scope N_scope.

Section Run.
  Context {S : Type}.
  Variable step : S -> N -> S * N.

  Fixpoint run (st : S) (ins : list N) : list N :=
    match ins with
    | [] => []
    | i :: t => let (s', o) := step st i in o :: run s' t
    end.

  Fixpoint run_state (st : S) (ins : list N) : S :=
    match ins with
    | [] => st
    | i :: t => run_state (fst (step st i)) t
    end.

  Lemma run_length : forall ins st, length (run st ins) = length ins.
  Proof. induction ins as [|i t IH]; intros st; simpl; [reflexivity|].
         destruct (step st i); simpl; rewrite IH; reflexivity. Qed.

  Lemma run_app : forall a b st, run st (a ++ b) = run st a ++ run (run_state st a) b.
  Proof. induction a as [|i t IH]; intros b st; simpl; [reflexivity|].
         destruct (step st i) as [s' o]; simpl. rewrite IH. reflexivity. Qed.

  Lemma run_state_app : forall a b st, run_state st (a ++ b) = run_state (run_state st a) b.
  Proof. induction a as [|i t IH]; intros b st; simpl; [reflexivity|]. apply IH. Qed.

  Fixpoint list_eqb (a b : list N) : bool :=
    match a, b with
    | [], [] => true
    | x :: a', y :: b' => N.eqb x y && list_eqb a' b'
    | _, _ => false
    end.

  (* indices of the traces on which the machine's outputs differ from the recorded ones *)
  Fixpoint mismatches_from (k : N) (init : S) (tin tout : list (list N)) : list N :=
    match tin, tout with
    | i :: tin', o :: tout' =>
        (if list_eqb (run init i) o then [] else [k]) ++ mismatches_from (N.succ k) init tin' tout'
    | [], [] => []
    | _, _ => [k]
    end.
  Definition mismatches := mismatches_from 0.
End Run.

Lemma list_eqb_eq : forall a b, list_eqb a b = true <-> a = b.
Proof. induction a as [|x a IH]; intros [|y b]; simpl; split; intro H; try reflexivity; try discriminate.
  - apply andb_true_iff in H as [H1 H2]. apply N.eqb_eq in H1. apply IH in H2. subst; reflexivity.
  - inversion H; subst. rewrite N.eqb_refl. simpl. apply IH. reflexivity. Qed.

(* ------------------------------------------------------------------------------------------ *)
(* Exhaustive sweeps: recursion on the bit-width, never on a large nat.                        *)
Fixpoint forall_bits (w : nat) (f : N -> bool) : bool :=
  match w with
  | O => f 0
  | Datatypes.S w' => forall_bits w' (fun x => f (N.double x)) && forall_bits w' (fun x => f (N.succ_double x))
  end.

Lemma forall_bits_sound : forall w f, forall_bits w f = true ->
  forall x, x < 2 ^ N.of_nat w -> f x = true.
Proof.
  induction w as [|w IH]; intros f H x Hx.
  - simpl in *. assert (x = 0) by lia. subst; exact H.
  - simpl in H. apply andb_true_iff in H as [H0 H1].
    rewrite Nat2N.inj_succ, N.pow_succ_r' in Hx.
    destruct (N.even x) eqn:E.
    + destruct (N.Even_or_Odd x) as [[k Hk]|[k Hk]].
      * subst x. replace (2 * k) with (N.double k) by (rewrite N.double_spec; reflexivity).
        apply (IH _ H0 k). lia.
      * subst x. rewrite N.add_comm, N.even_add_mul_2 in E. discriminate.
    + destruct (N.Even_or_Odd x) as [[k Hk]|[k Hk]].
      * subst x. rewrite N.even_mul in E. discriminate.
      * subst x. replace (2 * k + 1) with (N.succ_double k) by (rewrite N.succ_double_spec; reflexivity).
        apply (IH _ H1 k). lia.
Qed.

(* all N below 2^w, as a list (the input alphabet of R obligations) *)
Fixpoint range_bits (w : nat) : list N :=
  match w with
  | O => [0]
  | S w' => let l := range_bits w' in map N.double l ++ map N.succ_double l
  end.

Lemma range_bits_complete : forall w x, x < 2 ^ N.of_nat w -> In x (range_bits w).
Proof.
  induction w as [|w IH]; intros x Hx.
  - simpl in *. left. lia.
  - rewrite Nat2N.inj_succ, N.pow_succ_r' in Hx. simpl. apply in_or_app.
    destruct (N.Even_or_Odd x) as [[k Hk]|[k Hk]].
    + left. apply in_map_iff. exists k. split; [rewrite N.double_spec; lia| apply IH; lia].
    + right. apply in_map_iff. exists k. split; [rewrite N.succ_double_spec; lia| apply IH; lia].
Qed.

(* ------------------------------------------------------------------------------------------ *)
(* Certified reachability.  A monitor observes (input, output) of every cycle:
     mon m i o = None            the environment assumption is broken by input i in monitor state m
               = Some (m', ok)   otherwise; ok = false is a property violation.                 *)
Section Reach.
  Variable step : N -> N -> N * N.
  Variable mon : N -> N -> N -> option (N * bool).
  Variable alphabet : list N.

  Fixpoint check_trace (s m : N) (tr : list N) : bool :=
    match tr with
    | [] => true
    | i :: t =>
        let (s', o) := step s i in
        match mon m i o with
        | None => true
        | Some (m', ok) => ok && check_trace s' m' t
        end
    end.

  Definition pset := PositiveMap.t PositiveSet.t.
  Definition pempty : pset := PositiveMap.empty _.
  Definition pmem (s m : N) (R : pset) : bool :=
    match PositiveMap.find (N.succ_pos s) R with
    | Some t => PositiveSet.mem (N.succ_pos m) t
    | None => false
    end.
  Definition padd (s m : N) (R : pset) : pset :=
    let t := match PositiveMap.find (N.succ_pos s) R with Some t => t | None => PositiveSet.empty end in
    PositiveMap.add (N.succ_pos s) (PositiveSet.add (N.succ_pos m) t) R.
  Definition of_list (L : list (N * N)) : pset :=
    fold_left (fun R p => padd (fst p) (snd p) R) L pempty.

  Lemma succ_pos_inj : forall a b, N.succ_pos a = N.succ_pos b -> a = b.
  Proof. intros a b H. apply N.succ_inj. rewrite <- !N.succ_pos_spec. rewrite H. reflexivity. Qed.

  Lemma pmem_padd : forall s m s2 m2 R, pmem s m (padd s2 m2 R) = true ->
    (s = s2 /\ m = m2) \/ pmem s m R = true.
  Proof.
    intros s m s2 m2 R. unfold pmem, padd.
    destruct (Pos.eq_dec (N.succ_pos s) (N.succ_pos s2)) as [E|NE].
    - rewrite E, PositiveMap.gss. intro H. apply PositiveSet.mem_2 in H.
      apply PositiveSet.add_spec in H. destruct H as [H|H].
      + left. split; apply succ_pos_inj; [assumption | symmetry; assumption].
      + right. destruct (PositiveMap.find (N.succ_pos s2) R).
        * apply PositiveSet.mem_1. exact H.
        * exfalso. exact (PositiveSet.empty_1 H).
    - rewrite PositiveMap.gso by exact NE. intro H. right. exact H.
  Qed.

  Lemma pmem_fold : forall L R0 s m,
    pmem s m (fold_left (fun R p => padd (fst p) (snd p) R) L R0) = true ->
    In (s, m) L \/ pmem s m R0 = true.
  Proof.
    induction L as [|[s2 m2] L IH]; intros R0 s m H; simpl in *.
    - right. exact H.
    - apply IH in H. destruct H as [H|H]; [left; right; exact H|].
      apply pmem_padd in H. destruct H as [[-> ->]|H]; [left; left; reflexivity | right; exact H].
  Qed.

  Lemma pmem_of_list : forall L s m, pmem s m (of_list L) = true -> In (s, m) L.
  Proof. intros L s m H. apply pmem_fold in H. destruct H as [H|H]; [exact H|].
         unfold pmem, pempty in H. rewrite PositiveMap.gempty in H. discriminate. Qed.

  Definition closed_at (R : pset) (p : N * N) : bool :=
    forallb (fun i =>
      let (s', o) := step (fst p) i in
      match mon (snd p) i o with
      | None => true
      | Some (m', ok) => ok && pmem s' m' R
      end) alphabet.

  Definition closed (L : list (N * N)) : bool :=
    let R := of_list L in forallb (closed_at R) L.

  Theorem closed_sound : forall L, closed L = true ->
    forall tr s m, In (s, m) L -> Forall (fun i => In i alphabet) tr -> check_trace s m tr = true.
  Proof.
    intros L HC. unfold closed in HC. rewrite forallb_forall in HC.
    induction tr as [|i t IH]; intros s m Hin Hall; simpl; [reflexivity|].
    inversion Hall as [|? ? Hi Ht]; subst.
    specialize (HC _ Hin). unfold closed_at in HC. rewrite forallb_forall in HC.
    specialize (HC _ Hi). simpl in HC.
    destruct (step s i) as [s' o]. destruct (mon m i o) as [[m' ok]|]; [|reflexivity].
    apply andb_true_iff in HC as [Hok Hmem]. rewrite Hok. simpl.
    apply IH; [apply pmem_of_list; exact Hmem | exact Ht].
  Qed.

  (* ---- untrusted search: breadth-first exploration with counterexample paths ---- *)
  Record bfs_state := { seen : pset; allst : list (N * N); front : list (N * N * list N);
                        cex : option (list N) }.

  Definition visit1 (s m : N) (path : list N) (acc : bfs_state) (i : N) : bfs_state :=
    match cex acc with
    | Some _ => acc
    | None =>
      let (s', o) := step s i in
      match mon m i o with
      | None => acc
      | Some (m', ok) =>
          if negb ok then {| seen := seen acc; allst := allst acc; front := front acc;
                             cex := Some (rev (i :: path)) |}
          else if pmem s' m' (seen acc) then acc
          else {| seen := padd s' m' (seen acc); allst := (s', m') :: allst acc;
                  front := (s', m', i :: path) :: front acc; cex := None |}
      end
    end.

  Definition level (st : bfs_state) : bfs_state :=
    fold_left (fun acc it => match it with (s, m, path) => fold_left (visit1 s m path) alphabet acc end)
              (front st)
              {| seen := seen st; allst := allst st; front := []; cex := cex st |}.

  Fixpoint bfs (fuel : nat) (st : bfs_state) : bfs_state :=
    match fuel with
    | O => st
    | S f => match front st, cex st with
             | [], _ => st
             | _, Some _ => st
             | _, None => bfs f (level st)
             end
    end.

  Definition bfs_init (s m : N) : bfs_state :=
    {| seen := padd s m pempty; allst := [(s, m)]; front := [(s, m, [])]; cex := None |}.

  (* result summary: (counterexample input path | [] , number of states, frontier left) *)
  Definition explore (fuel : nat) (s m : N) : bfs_state := bfs fuel (bfs_init s m).
End Reach.

(* "whole trace over the alphabet of all w-bit inputs" *)
Lemma Forall_range_bits : forall w tr, Forall (fun i => i < 2 ^ N.of_nat w) tr ->
  Forall (fun i => In i (range_bits w)) tr.
Proof. intros w tr H. eapply Forall_impl; [|exact H]. intros a Ha. apply range_bits_complete; exact Ha. Qed.

(* ------------------------------------------------------------------------------------------ *)
(* Lock-step comparison of a generated machine with an N-packed model machine, under an
   environment assumption that may depend on the model's state.                                *)
Section Lockstep.
  Variable step mstep : N -> N -> N * N.
  Variable env : N -> N -> bool.

  Definition lock_mon (m i o : N) : option (N * bool) :=
    if env m i then let (m', o') := mstep m i in Some (m', N.eqb o o') else None.

  Fixpoint env_trace (m : N) (tr : list N) : bool :=
    match tr with
    | [] => true
    | i :: t => env m i && env_trace (fst (mstep m i)) t
    end.

  Lemma lockstep_run : forall tr s m,
    check_trace step lock_mon s m tr = true -> env_trace m tr = true ->
    run step s tr = run mstep m tr.
  Proof.
    induction tr as [|i t IH]; intros s m HC HE; simpl in *; [reflexivity|].
    apply andb_true_iff in HE as [He Ht]. unfold lock_mon in HC. rewrite He in HC.
    destruct (step s i) as [s' o]. destruct (mstep m i) as [m' o'] eqn:Em. simpl in *.
    apply andb_true_iff in HC as [Ho Hc]. apply N.eqb_eq in Ho. subst o'.
    f_equal. apply IH; assumption.
  Qed.
End Lockstep.

(* first failing point of an exhaustive sweep (untrusted search helper) *)
Fixpoint find_bits (w : nat) (f : N -> bool) : option N :=
  match w with
  | O => if f 0 then None else Some 0
  | S w' => match find_bits w' (fun x => f (N.double x)) with
            | Some x => Some (N.double x)
            | None => match find_bits w' (fun x => f (N.succ_double x)) with
                      | Some x => Some (N.succ_double x)
                      | None => None
                      end
            end
  end.

(* ------------------------------------------------------------------------------------------ *)
(* A hand model with structured state St, packed into N by enc/dec so that it can be the
   model side of a lock-step R obligation.                                                     *)
Section PackedModel.
  Variables (St : Type) (mstep : St -> N -> St * N) (enc : St -> N) (dec : N -> St) (wf : St -> Prop).
  Hypothesis dec_enc : forall s, wf s -> dec (enc s) = s.
  Hypothesis wf_step : forall s i, wf s -> wf (fst (mstep s i)).

  Definition mstepN (m i : N) : N * N := let (s', o) := mstep (dec m) i in (enc s', o).

  Lemma run_mstepN : forall tr s, wf s -> run mstepN (enc s) tr = run mstep s tr.
  Proof.
    induction tr as [|i t IH]; intros s Hs; simpl; [reflexivity|].
    unfold mstepN at 1. rewrite (dec_enc s Hs).
    pose proof (wf_step s i Hs) as Hw. destruct (mstep s i) as [s' o]. simpl in *.
    rewrite IH by exact Hw. reflexivity.
  Qed.
End PackedModel.

(* ------------------------------------------------------------------------------------------ *)
(* The packaged R obligation: if the explicit list L is closed for the product of the generated
   machine with the packed hand model (under environment `env`), then on every input trace over
   the alphabet that respects `env`, the generated machine and the model produce equal outputs. *)
Section RLockstep.
  Variable step : N -> N -> N * N.
  Variables (St : Type) (mstep : St -> N -> St * N) (enc : St -> N) (dec : N -> St) (wf : St -> Prop).
  Variable env : St -> N -> bool.
  Hypothesis dec_enc : forall s, wf s -> dec (enc s) = s.
  Hypothesis wf_step : forall s i, wf s -> wf (fst (mstep s i)).
  Variable alphabet : list N.

  Definition envN (m i : N) : bool := env (dec m) i.
  Definition rl_mon := lock_mon (mstepN St mstep enc dec) envN.

  Fixpoint env_ok (s : St) (tr : list N) : bool :=
    match tr with
    | [] => true
    | i :: t => env s i && env_ok (fst (mstep s i)) t
    end.

  Lemma env_trace_packed : forall tr s, wf s -> env_ok s tr = true ->
    env_trace (mstepN St mstep enc dec) envN (enc s) tr = true.
  Proof.
    induction tr as [|i t IH]; intros s Hs HE; simpl in *; [reflexivity|].
    apply andb_true_iff in HE as [He Ht]. unfold envN at 1. rewrite (dec_enc s Hs), He. simpl.
    unfold mstepN. rewrite (dec_enc s Hs). pose proof (wf_step s i Hs) as Hw.
    destruct (mstep s i) as [s' o]. simpl in *. apply IH; assumption.
  Qed.

  Theorem R_lockstep : forall L s0 m0,
    closed step rl_mon alphabet L = true ->
    pmem s0 (enc m0) (of_list L) = true -> wf m0 ->
    forall tr, Forall (fun i => In i alphabet) tr -> env_ok m0 tr = true ->
    run step s0 tr = run mstep m0 tr.
  Proof.
    intros L s0 m0 HC Hin Hwf tr Hall Henv.
    rewrite <- (run_mstepN St mstep enc dec wf dec_enc wf_step tr m0 Hwf).
    apply (lockstep_run step (mstepN St mstep enc dec) envN).
    - apply (closed_sound step rl_mon alphabet L HC); [apply pmem_of_list; exact Hin | exact Hall].
    - apply env_trace_packed; assumption.
  Qed.
End RLockstep.

Lemma env_ok_true : forall St (mstep : St -> N -> St * N) tr s, env_ok St mstep (fun _ _ => true) s tr = true.
Proof. induction tr as [|i t IH]; intros; simpl; [reflexivity | apply IH]. Qed.

(* monitor evaluated over a recorded (input, output) trace of the implementation:
   None = accepted, Some k = first violated cycle *)
Section CheckIO.
  Variable mon : N -> N -> N -> option (N * bool).
  Fixpoint first_bad (k : N) (m : N) (ios : list (N * N)) : option N :=
    match ios with
    | [] => None
    | (i, o) :: t => match mon m i o with
                     | None => None
                     | Some (m', ok) => if ok then first_bad (N.succ k) m' t else Some k
                     end
    end.
  Definition bad_code (m : N) (ios : list (N * N)) : N :=
    match first_bad 0 m ios with None => 0 | Some k => N.succ k end.
End CheckIO.

(* correspondence of a typed hand model with recorded implementation traces:
   code 0 = equal on the whole trace, k+1 = first differing cycle k (outputs compared after `norm`) *)
Section Corr.
  Context {St : Type}.
  Variable mstep : St -> N -> St * N.
  Variable norm : N -> N.
  Fixpoint diff_at (k : N) (m : St) (ins outs : list N) : N :=
    match ins, outs with
    | i :: ti, o :: to =>
        let (m', o') := mstep m i in
        if N.eqb (norm o) (norm o') then diff_at (N.succ k) m' ti to else N.succ k
    | [], [] => 0
    | _, _ => N.succ k
    end.
  Definition corr_codes (m0 : St) (tin tout : list (list N)) : list N :=
    map (fun p => diff_at 0 m0 (fst p) (snd p)) (combine tin tout).
End Corr.
