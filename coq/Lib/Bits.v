(* Conversions between N and little-endian bit lists, used to pack list-based hand models into
   the N state of a monitor. *)
From Coq Require Import NArith List Bool Lia.
Import ListNotations.
Open Scope N_scope.

Fixpoint bits2N (l : list bool) : N :=
  match l with
  | [] => 0
  | b :: t => (if b then 1 else 0) + 2 * bits2N t
  end.

Fixpoint N2bits (w : nat) (x : N) : list bool :=
  match w with
  | O => []
  | S w' => N.odd x :: N2bits w' (N.div2 x)
  end.

Lemma N2bits_length : forall w x, length (N2bits w x) = w.
Proof. induction w; intros; simpl; [reflexivity | rewrite IHw; reflexivity]. Qed.

Lemma N2bits_bits2N : forall l, N2bits (length l) (bits2N l) = l.
Proof.
  induction l as [|b t IH]; [reflexivity|]. cbn [length N2bits bits2N].
  assert (Hodd : N.odd ((if b then 1 else 0) + 2 * bits2N t) = b).
  { destruct b.
    - replace (1 + 2 * bits2N t) with (N.succ_double (bits2N t)) by (rewrite N.succ_double_spec; lia).
      destruct (bits2N t); reflexivity.
    - rewrite N.add_0_l. replace (2 * bits2N t) with (N.double (bits2N t)) by (rewrite N.double_spec; lia).
      destruct (bits2N t); reflexivity. }
  assert (Hdiv : N.div2 ((if b then 1 else 0) + 2 * bits2N t) = bits2N t).
  { destruct b.
    - replace (1 + 2 * bits2N t) with (N.succ_double (bits2N t)) by (rewrite N.succ_double_spec; lia).
      apply N.div2_succ_double.
    - rewrite N.add_0_l. replace (2 * bits2N t) with (N.double (bits2N t)) by (rewrite N.double_spec; lia).
      apply N.div2_double. }
  rewrite Hodd, Hdiv, IH. reflexivity.
Qed.

Lemma bits2N_bound : forall l, bits2N l < 2 ^ N.of_nat (length l).
Proof.
  induction l as [|b t IH]; [simpl; lia|].
  cbn [length bits2N]. rewrite Nat2N.inj_succ, N.pow_succ_r'. destruct b; lia.
Qed.
