(* Semantics of the NIR cell kinds printed by tools/nir2coq.py, over N bit-vectors with explicit widths.
   Everything here is an ordinary total Gallina function; the generated files contain nothing but
   calls to these helpers (plus N.land/N.lor/N.lxor/N.shiftl/N.shiftr and match-on-zero). *)
From Coq Require Import NArith ZArith List Bool.
Import ListNotations.
Open Scope N_scope.

Definition bits (x lo w : N) : N := N.land (N.shiftr x lo) (N.ones w).
Definition trunc (w x : N) : N := N.land x (N.ones w).
Definition b2n (b : bool) : N := if b then 1 else 0.
(* selection by a 1-bit condition, as a function: generated code contains no `match` at all
   (a `match` inside a long `let` chain makes Coq's elaboration quadratic) *)
Definition sel (c a b : N) : N := match c with 0 => b | _ => a end.
Definition setbits (x lo w v : N) : N :=
  N.lor (N.ldiff x (N.shiftl (N.ones w) lo)) (N.shiftl (trunc w v) lo).

Definition op_not (w a : N) : N := N.lxor a (N.ones w).
Definition op_neg (w a : N) : N := trunc w (N.shiftl 1 w - trunc w a).
Definition op_bool (a : N) : N := match a with 0 => 0 | _ => 1 end.
Definition op_rand (w a : N) : N := b2n (N.eqb a (N.ones w)).
Fixpoint parity_pos (p : positive) : bool :=
  match p with xH => true | xO q => parity_pos q | xI q => negb (parity_pos q) end.
Definition op_rxor (a : N) : N := match a with 0 => 0 | Npos p => b2n (parity_pos p) end.

Definition op_eq (a b : N) : N := b2n (N.eqb a b).
Definition op_ne (a b : N) : N := b2n (negb (N.eqb a b)).
Definition op_ult (a b : N) : N := b2n (N.ltb a b).
Definition op_ule (a b : N) : N := b2n (N.leb a b).
Definition op_ugt (a b : N) : N := b2n (N.ltb b a).
Definition op_uge (a b : N) : N := b2n (N.leb b a).
Definition op_add (w a b : N) : N := trunc w (a + b).
Definition op_sub (w a b : N) : N := trunc w (a + N.shiftl 1 w - b).
Definition op_mul (w a b : N) : N := trunc w (a * b).
Definition op_shl (w a b : N) : N := trunc w (N.shiftl a b).

Definition sgn (w a : N) : Z :=
  if N.testbit a (w - 1) then (Z.of_N a - Z.of_N (N.shiftl 1 w))%Z else Z.of_N a.
Definition op_slt (w a b : N) : N := b2n (Z.ltb (sgn w a) (sgn w b)).
Definition op_sle (w a b : N) : N := b2n (Z.leb (sgn w a) (sgn w b)).
Definition op_sgt (w a b : N) : N := b2n (Z.ltb (sgn w b) (sgn w a)).
Definition op_sge (w a b : N) : N := b2n (Z.leb (sgn w b) (sgn w a)).

(* Matches: value matches any (mask, value) pattern *)
Definition op_matches (v : N) (pats : list (N * N)) : N :=
  b2n (existsb (fun p => N.eqb (N.land v (fst p)) (snd p)) pats).

(* PriorityMatch: all-zero when disabled, else the lowest set bit of the input *)
Fixpoint lowbit_pos (p : positive) : positive :=
  match p with xH => xH | xI _ => xH | xO q => xO (lowbit_pos q) end.
Definition op_pmatch (en x : N) : N :=
  match en with 0 => 0 | _ => match x with 0 => 0 | Npos p => Npos (lowbit_pos p) end end.

(* Part: width bits of value starting at offset*stride *)
Definition op_part (v off stride w : N) : N := bits v (off * stride) w.

(* Memories: contents packed little-endian by address into one N *)
Definition mem_read (m w depth addr : N) : N :=
  if N.ltb addr depth then bits m (addr * w) w else 0.
(* write port with `g` enable bits, each covering w/g data bits *)
Fixpoint en_mask (g : nat) (en gran : N) (k : N) : N :=
  match g with
  | O => 0
  | S g' => N.lor (if N.testbit en k then N.shiftl (N.ones gran) (k * gran) else 0)
                  (en_mask g' en gran (N.succ k))
  end.
Definition mem_write (m w depth addr en g data : N) : N :=
  match en with
  | 0 => m
  | _ => if N.ltb addr depth then
           let mask := en_mask (N.to_nat g) en (w / g) 0 in
           let old := bits m (addr * w) w in
           let new := N.lor (N.ldiff old mask) (N.land (trunc w data) mask) in
           setbits m (addr * w) w new
         else m
  end.
(* transparent read: bits being written to the same address this cycle are forwarded *)
Definition mem_transparent (rd w raddr waddr en g data : N) : N :=
  if N.eqb raddr waddr then
    let mask := en_mask (N.to_nat g) en (w / g) 0 in
    N.lor (N.ldiff rd mask) (N.land (trunc w data) mask)
  else rd.
