(* Certified reachability with an environment filter that is evaluated BEFORE the machine is stepped.

   Machine.closed / Machine.explore evaluate `step s i` for every alphabet symbol and only then ask the
   monitor whether the environment admits the input.  When the environment assumption rejects most of
   the alphabet in most states (e.g. "requests only while idle") that wastes nearly all the work.
   Here a filter  pre : N -> N -> bool  on (monitor state, input) is consulted first; if every input
   rejected by `pre` is also rejected by the monitor (mon = None), closure under the filtered
   exploration implies Machine.closed, so Machine.closed_sound / R_lockstep apply unchanged. *)
From Coq Require Import NArith List Bool.
Import ListNotations.
From LunaLib Require Import Machine.
Open Scope N_scope.

Section ReachPre.
  Variable step : N -> N -> N * N.
  Variable pre : N -> N -> bool.
  Variable mon : N -> N -> N -> option (N * bool).
  Variable alphabet : list N.

  Definition closed_at_pre (R : pset) (p : N * N) : bool :=
    forallb (fun i =>
      if pre (snd p) i then
        let (s', o) := step (fst p) i in
        match mon (snd p) i o with
        | None => true
        | Some (m', ok) => ok && pmem s' m' R
        end
      else true) alphabet.

  Definition closed_pre (L : list (N * N)) : bool :=
    let R := of_list L in forallb (closed_at_pre R) L.

  Hypothesis pre_sound : forall m i o, pre m i = false -> mon m i o = None.

  Theorem closed_pre_closed : forall L, closed_pre L = true -> closed step mon alphabet L = true.
  Proof.
    intros L H. unfold closed_pre in H. unfold closed.
    rewrite forallb_forall in *. intros p Hp. specialize (H p Hp).
    unfold closed_at_pre in H. unfold closed_at. rewrite forallb_forall in *.
    intros i Hi. specialize (H i Hi).
    destruct (pre (snd p) i) eqn:E.
    - exact H.
    - destruct (step (fst p) i) as [s' o]. rewrite (pre_sound _ _ o E). reflexivity.
  Qed.
End ReachPre.

(* untrusted search: Machine.explore with the filter in front *)
Section ExplorePre.
  Variable step : N -> N -> N * N.
  Variable pre : N -> N -> bool.
  Variable mon : N -> N -> N -> option (N * bool).
  Variable alphabet : list N.

  Definition visit1_pre (s m : N) (path : list N) (acc : bfs_state) (i : N) : bfs_state :=
    if pre m i then visit1 step mon s m path acc i else acc.

  Definition level_pre (st : bfs_state) : bfs_state :=
    fold_left (fun acc it => match it with (s, m, path) => fold_left (visit1_pre s m path) alphabet acc end)
              (front st)
              {| seen := seen st; allst := allst st; front := []; cex := cex st |}.

  Fixpoint bfs_pre (fuel : nat) (st : bfs_state) : bfs_state :=
    match fuel with
    | O => st
    | S f => match front st, cex st with
             | [], _ => st
             | _, Some _ => st
             | _, None => bfs_pre f (level_pre st)
             end
    end.

  Definition explore_pre (fuel : nat) (s m : N) : bfs_state := bfs_pre fuel (bfs_init s m).
End ExplorePre.

(* the lock-step monitor of Machine.RLockstep rejects exactly the inputs its environment rejects *)
Lemma rl_mon_pre_sound : forall (St : Type) (mstep : St -> N -> St * N) (enc : St -> N) (dec : N -> St)
    (env : St -> N -> bool) m i o,
  envN St dec env m i = false -> rl_mon St mstep enc dec env m i o = None.
Proof. intros. unfold rl_mon, lock_mon. rewrite H. reflexivity. Qed.
