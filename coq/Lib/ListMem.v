(* Memories as lists of N (cell a = nth a m 0): single-cell update and its basic facts.
   Out-of-range reads give 0 and out-of-range writes do nothing, like Netlist.mem_read / mem_write. *)
From Coq Require Import NArith List Bool Arith Lia.
Import ListNotations.

Fixpoint upd (a : nat) (v : N) (l : list N) : list N :=
  match l, a with
  | [], _ => []
  | _ :: t, O => v :: t
  | x :: t, S a' => x :: upd a' v t
  end.

Lemma upd_length : forall l a v, length (upd a v l) = length l.
Proof. induction l as [|x t IH]; intros [|a] v; simpl; try reflexivity. rewrite IH. reflexivity. Qed.

Lemma nth_upd_same : forall l a v, a < length l -> nth a (upd a v l) 0%N = v.
Proof.
  induction l as [|x t IH]; intros a v H; simpl in H; [lia|].
  destruct a as [|a]; simpl; [reflexivity | apply IH; lia].
Qed.

Lemma nth_upd_other : forall l a b v, a <> b -> nth b (upd a v l) 0%N = nth b l 0%N.
Proof.
  induction l as [|x t IH]; intros a b v H; [destruct a; reflexivity|].
  destruct a as [|a], b as [|b]; simpl; try reflexivity; [lia | apply IH; lia].
Qed.

Lemma upd_out_of_range : forall l a v, length l <= a -> upd a v l = l.
Proof.
  induction l as [|x t IH]; intros a v H; [destruct a; reflexivity|].
  destruct a as [|a]; simpl in *; [lia|]. rewrite IH by lia. reflexivity.
Qed.

Lemma upd_Forall : forall (P : N -> Prop) l a v, P v -> Forall P l -> Forall P (upd a v l).
Proof.
  induction l as [|x t IH]; intros [|a] v Hv H; simpl; try exact H;
    inversion H; subst; constructor; auto.
Qed.

Lemma Forall_nth_lt : forall (B : N) l a, (0 < B)%N -> Forall (fun x => (x < B)%N) l -> (nth a l 0 < B)%N.
Proof.
  induction l as [|x t IH]; intros a HB H; [destruct a; exact HB|].
  inversion H; subst. destruct a; simpl; [assumption | apply IH; assumption].
Qed.
