(* Faster certified closure / search for lock-step obligations with a state-dependent alphabet
   (ReachDep.closed_dep): the packed model state of a product state is decoded ONCE and the typed model is
   stepped over the whole alphabet of that state; only the successor is packed again (for set membership).
   `fclosed L = true` implies `ReachDep.closed_dep ... L = true`, so ReachDep.R_lockstep_dep applies unchanged.
   (Used by props/C11.py and props/C14.py.) *)
From Coq Require Import NArith List Bool Lia.
Import ListNotations.
From LunaLib Require Import Machine ReachDep.
Open Scope N_scope.

Section Fast.
  Variable step : N -> N -> N * N.
  Variables (St : Type) (mstep : St -> N -> St * N) (enc : St -> N) (dec : N -> St).
  Variable alpha : St -> list N.

  Definition fclosed_at (R : pset) (p : N * N) : bool :=
    let ms := dec (snd p) in
    forallb (fun i => let (s', o) := step (fst p) i in
                      let (m', o') := mstep ms i in
                      N.eqb o o' && pmem s' (enc m') R) (alpha ms).

  Definition fclosed (L : list (N * N)) : bool :=
    let R := of_list L in forallb (fclosed_at R) L.

  Lemma fclosed_closed_dep : forall L, fclosed L = true ->
    closed_dep step (rld_mon St mstep enc dec) (alphaN St dec alpha) L = true.
  Proof.
    intros L H. unfold fclosed in H. unfold closed_dep.
    rewrite forallb_forall in *. intros p Hp. specialize (H p Hp).
    unfold fclosed_at in H. unfold closed_at_dep, alphaN.
    rewrite forallb_forall in *. intros i Hi. specialize (H i Hi).
    destruct (step (fst p) i) as [s' o].
    unfold rld_mon, rl_mon, lock_mon, envN, mstepN.
    destruct (mstep (dec (snd p)) i) as [m' o']. exact H.
  Qed.

  (* untrusted search *)
  Definition fvisit1 (s : N) (ms : St) (path : list N) (acc : bfs_state) (i : N) : bfs_state :=
    match cex acc with
    | Some _ => acc
    | None =>
      let (s', o) := step s i in
      let (m', o') := mstep ms i in
      if negb (N.eqb o o') then {| seen := seen acc; allst := allst acc; front := front acc;
                                   cex := Some (rev (i :: path)) |}
      else let e := enc m' in
           if pmem s' e (seen acc) then acc
           else {| seen := padd s' e (seen acc); allst := (s', e) :: allst acc;
                   front := (s', e, i :: path) :: front acc; cex := None |}
    end.

  Definition flevel (st : bfs_state) : bfs_state :=
    fold_left (fun acc it => match it with (s, m, path) =>
                 let ms := dec m in fold_left (fvisit1 s ms path) (alpha ms) acc end)
              (front st)
              {| seen := seen st; allst := allst st; front := []; cex := cex st |}.

  Fixpoint fbfs (fuel : nat) (st : bfs_state) : bfs_state :=
    match fuel with
    | O => st
    | S f => match front st, cex st with
             | [], _ => st
             | _, Some _ => st
             | _, None => fbfs f (flevel st)
             end
    end.

  Definition fexplore (fuel : nat) (s m : N) : bfs_state := fbfs fuel (bfs_init s m).
End Fast.

(* a machine whose outputs are passed through `norm` *)
Lemma run_norm : forall (step : N -> N -> N * N) (norm : N -> N) tr st,
  run (fun s i => let (s', o) := step s i in (s', norm o)) st tr = map norm (run step st tr).
Proof.
  intros step norm. induction tr as [|i t IH]; intro st; [reflexivity|].
  cbn [run map]. destruct (step st i) as [s' o]. cbn [map]. rewrite IH. reflexivity.
Qed.
