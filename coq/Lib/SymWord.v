(* USB3 (SuperSpeed) symbol words, shared by the models of the "ss"-domain blocks (C32, C34, C35).
   A symbol is one 8b/10b character as LUNA carries it: a data byte plus one control (K) flag,
   here the 9-bit number  data + 256 * ctrl.  A stream word carries w symbols (LUNA: w = 4):
   `data` holds the bytes little-endian (symbol 0 = bits 7..0), `ctrl` the flags (symbol 0 = bit 0).
   Also: typed Mealy runs (`trun`) and their relation to the packed runs of Machine.v. *)
From Coq Require Import NArith ZArith List Bool Lia ZifyBool ZifyN.
Import ListNotations.
From LunaLib Require Import Netlist Machine.
Open Scope N_scope.
Ltac Zify.zify_post_hook ::= Z.div_mod_to_equations.

Definition sym_ok (s : N) : Prop := s < 512.
Definition mk_sym (d c : N) : N := d mod 256 + 256 * (c mod 2).
Definition sym_data (s : N) : N := s mod 256.
Definition sym_ctrl (s : N) : N := (s / 256) mod 2.

(* K-symbols used by the models (luna/gateware/usb/usb3/physical/coding.py) *)
Definition SKP : N := 256 + 60.    (* K28.1 = 0x3C *)
Definition COM : N := 256 + 188.   (* K28.5 = 0xBC *)
Definition SHP : N := 256 + 251.   (* K27.7 = 0xFB *)
Definition SLC : N := 256 + 254.   (* K30.7 = 0xFE *)
Definition EPF : N := 256 + 247.   (* K23.7 = 0xF7 *)

(* the w symbols of a stream word, lowest byte first *)
Fixpoint syms_of (w : nat) (data ctrl : N) : list N :=
  match w with
  | O => []
  | S w' => mk_sym data ctrl :: syms_of w' (data / 256) (ctrl / 2)
  end.

Fixpoint data_of (l : list N) : N :=
  match l with [] => 0 | s :: t => sym_data s + 256 * data_of t end.
Fixpoint ctrl_of (l : list N) : N :=
  match l with [] => 0 | s :: t => sym_ctrl s + 2 * ctrl_of t end.

Lemma mk_sym_ok : forall d c, sym_ok (mk_sym d c).
Proof. intros. unfold sym_ok, mk_sym. lia. Qed.

Lemma mk_sym_data_ctrl : forall s, sym_ok s -> mk_sym (sym_data s) (sym_ctrl s) = s.
Proof. intros s H. unfold sym_ok, mk_sym, sym_data, sym_ctrl in *. lia. Qed.

Lemma syms_of_length : forall w d c, length (syms_of w d c) = w.
Proof. induction w; intros; simpl; [reflexivity | rewrite IHw; reflexivity]. Qed.

Lemma syms_of_ok : forall w d c, Forall sym_ok (syms_of w d c).
Proof. induction w; intros; simpl; constructor; [apply mk_sym_ok | apply IHw]. Qed.

Lemma syms_of_data_ctrl : forall l, Forall sym_ok l ->
  syms_of (length l) (data_of l) (ctrl_of l) = l.
Proof.
  induction l as [|s t IH]; intros H; [reflexivity|].
  inversion H as [|? ? Hs Ht]; subst. cbn [length syms_of data_of ctrl_of].
  assert (E1 : (sym_data s + 256 * data_of t) / 256 = data_of t) by (unfold sym_data; lia).
  assert (E2 : (sym_ctrl s + 2 * ctrl_of t) / 2 = ctrl_of t) by (unfold sym_ctrl; lia).
  assert (E3 : mk_sym (sym_data s + 256 * data_of t) (sym_ctrl s + 2 * ctrl_of t) = s).
  { rewrite <- (mk_sym_data_ctrl s Hs) at 3. unfold mk_sym, sym_data, sym_ctrl. lia. }
  rewrite E1, E2, E3, (IH Ht). reflexivity.
Qed.

Lemma data_of_bound : forall l, data_of l < 2 ^ (8 * N.of_nat (length l)).
Proof.
  induction l as [|s t IH]; [simpl; lia|]. cbn [length data_of].
  replace (8 * N.of_nat (S (length t))) with (8 + 8 * N.of_nat (length t)) by lia.
  rewrite N.pow_add_r. change (2 ^ 8) with 256. unfold sym_data. lia.
Qed.

Lemma ctrl_of_bound : forall l, ctrl_of l < 2 ^ N.of_nat (length l).
Proof.
  induction l as [|s t IH]; [simpl; lia|]. cbn [length ctrl_of].
  rewrite Nat2N.inj_succ, N.pow_succ_r'. unfold sym_ctrl. lia.
Qed.

(* lists of symbols packed 9 bits each (model state <-> N for lock-step obligations);
   shifts and masks rather than div/mod so that vm_compute stays fast on wide states *)
Fixpoint pack9 (l : list N) : N := match l with [] => 0 | s :: t => N.lor s (N.shiftl (pack9 t) 9) end.
Fixpoint unpack9 (w : nat) (x : N) : list N :=
  match w with O => [] | S w' => N.land x 511 :: unpack9 w' (N.shiftr x 9) end.

Lemma sym_ok_land : forall s, sym_ok s -> N.land s 511 = s.
Proof. intros s H. change 511 with (N.ones 9). rewrite N.land_ones. apply N.mod_small. exact H. Qed.

Lemma unpack9_pack9 : forall l, Forall sym_ok l -> unpack9 (length l) (pack9 l) = l.
Proof.
  induction l as [|s t IH]; intros H; [reflexivity|].
  inversion H as [|? ? Hs Ht]; subst. cbn [length unpack9 pack9].
  assert (E1 : N.land (N.lor s (N.shiftl (pack9 t) 9)) 511 = s).
  { rewrite N.land_lor_distr_l, (sym_ok_land s Hs). change 511 with (N.ones 9).
    rewrite N.land_ones, N.shiftl_mul_pow2, N.mod_mul by discriminate. apply N.lor_0_r. }
  assert (E2 : N.shiftr (N.lor s (N.shiftl (pack9 t) 9)) 9 = pack9 t).
  { rewrite N.shiftr_lor, N.shiftr_shiftl_l, N.sub_diag, N.shiftl_0_r by reflexivity.
    rewrite N.shiftr_div_pow2, N.div_small by exact Hs. reflexivity. }
  rewrite E1, E2, (IH Ht). reflexivity.
Qed.

Lemma unpack9_length : forall w x, length (unpack9 w x) = w.
Proof. induction w; intros; simpl; [reflexivity | rewrite IHw; reflexivity]. Qed.

Lemma unpack9_ok : forall w x, Forall sym_ok (unpack9 w x).
Proof.
  induction w; intros; simpl; constructor; [|apply IHw].
  unfold sym_ok. change 511 with (N.ones 9). rewrite N.land_ones. apply N.mod_lt. discriminate.
Qed.

(* ---------------------------------------------------------------------------------------- *)
(* Typed Mealy machines: one list element = one clock cycle.                                 *)
Section TRun.
  Context {S I O : Type}.
  Variable step : S -> I -> S * O.

  Fixpoint trun (st : S) (ins : list I) : list O :=
    match ins with
    | [] => []
    | i :: t => let (s', o) := step st i in o :: trun s' t
    end.

  Fixpoint tstate (st : S) (ins : list I) : S :=
    match ins with
    | [] => st
    | i :: t => tstate (fst (step st i)) t
    end.

  Lemma trun_length : forall ins st, length (trun st ins) = length ins.
  Proof. induction ins as [|i t IH]; intros st; simpl; [reflexivity|].
         destruct (step st i); simpl; rewrite IH; reflexivity. Qed.

  Lemma trun_app : forall a b st, trun st (a ++ b) = trun st a ++ trun (tstate st a) b.
  Proof. induction a as [|i t IH]; intros b st; simpl; [reflexivity|].
         destruct (step st i) as [s' o]; simpl. rewrite IH. reflexivity. Qed.
  Lemma tstate_app : forall a b st, tstate st (a ++ b) = tstate (tstate st a) b.
  Proof. induction a as [|i t IH]; intros b st; simpl; [reflexivity|]. apply IH. Qed.
End TRun.

(* a typed machine behind input decoding / output encoding is a packed machine *)
Lemma run_packed : forall {S I O : Type} (step : S -> I -> S * O) (din : N -> I) (eout : O -> N) tr st,
  run (fun s i => let (s', o) := step s (din i) in (s', eout o)) st tr
  = map eout (trun step st (map din tr)).
Proof.
  induction tr as [|i t IH]; intros st; [reflexivity|]. cbn [run map trun].
  destruct (step st (din i)) as [s' o]. cbn [map]. rewrite IH. reflexivity.
Qed.

(* post-processing the outputs of a packed machine *)
Lemma run_map_out : forall {S : Type} (step : S -> N -> S * N) (f : N -> N) tr st,
  run (fun s i => let (s', o) := step s i in (s', f o)) st tr = map f (run step st tr).
Proof.
  induction tr as [|i t IH]; intros st; [reflexivity|]. cbn [run map].
  destruct (step st i) as [s' o]. cbn [map]. rewrite IH. reflexivity.
Qed.

(* ---------------------------------------------------------------------------------------- *)
(* small list and bit-vector facts used by the ss-domain models                              *)
Lemma skipn_skipn : forall {A} (a b : nat) (l : list A), skipn a (skipn b l) = skipn (b + a) l.
Proof.
  intros A a b. induction b as [|b IH]; intros l; [reflexivity|].
  destruct l as [|x l]; [rewrite !skipn_nil; reflexivity|]. cbn [skipn plus]. apply IH.
Qed.

Lemma Forall_skipn : forall {A} (P : A -> Prop) n l, Forall P l -> Forall P (skipn n l).
Proof.
  intros A P n. induction n as [|n IH]; intros l H; [exact H|].
  destruct l as [|x l]; [constructor|]. inversion H; subst. cbn [skipn]. apply IH. assumption.
Qed.

Lemma Forall_firstn : forall {A} (P : A -> Prop) n l, Forall P l -> Forall P (firstn n l).
Proof.
  intros A P n. induction n as [|n IH]; intros l H; [constructor|].
  destruct l as [|x l]; [constructor|]. inversion H; subst. cbn [firstn]. constructor; [assumption|].
  apply IH. assumption.
Qed.

Lemma Forall_filter : forall {A} (P : A -> Prop) f l, Forall P l -> Forall P (filter f l).
Proof.
  intros A P f. induction l as [|x l IH]; intros H; [constructor|]. inversion H; subst. cbn [filter].
  destruct (f x); [constructor; [assumption|]|]; apply IH; assumption.
Qed.

Lemma filter_length_le' : forall {A} (f : A -> bool) l, (length (filter f l) <= length l)%nat.
Proof. intros A f. induction l as [|x l IH]; simpl; [lia|]. destruct (f x); simpl; lia. Qed.

(* fields of  a + b * 2^k  with a < 2^k *)
Lemma low_field : forall a b k, a < 2 ^ k -> bits (a + N.shiftl b k) 0 k = a.
Proof.
  intros a b k H. unfold bits. rewrite N.shiftr_0_r, N.land_ones, N.shiftl_mul_pow2.
  rewrite N.mod_add by (apply N.pow_nonzero; discriminate). apply N.mod_small. exact H.
Qed.

Lemma high_part : forall a b k, a < 2 ^ k -> N.shiftr (a + N.shiftl b k) k = b.
Proof.
  intros a b k H. rewrite N.shiftr_div_pow2, N.shiftl_mul_pow2.
  rewrite N.div_add by (apply N.pow_nonzero; discriminate). rewrite N.div_small by exact H. reflexivity.
Qed.

Lemma lor_low : forall a b k, a < 2 ^ k -> N.land (N.lor a (N.shiftl b k)) (N.ones k) = a.
Proof.
  intros a b k H. rewrite N.land_lor_distr_l, !N.land_ones, N.shiftl_mul_pow2.
  rewrite N.mod_mul by (apply N.pow_nonzero; discriminate). rewrite N.lor_0_r. apply N.mod_small. exact H.
Qed.

Lemma lor_high : forall a b k, a < 2 ^ k -> N.shiftr (N.lor a (N.shiftl b k)) k = b.
Proof.
  intros a b k H. rewrite N.shiftr_lor, N.shiftr_shiftl_l, N.sub_diag, N.shiftl_0_r by reflexivity.
  rewrite N.shiftr_div_pow2, N.div_small by exact H. reflexivity.
Qed.
