(* Small facts about the bit-field helpers of Netlist.v (bits / trunc / setbits / b2n), shared by
   the SuperSpeed models (C43, C44, C45, C47). *)
From Coq Require Import NArith ZArith List Bool Lia.
From LunaLib Require Import Netlist.
Open Scope N_scope.

Lemma pow2_pos : forall w, 0 < 2 ^ w.
Proof. intros. apply N.neq_0_lt_0, N.pow_nonzero. lia. Qed.

Lemma trunc_mod : forall w x, trunc w x = x mod 2 ^ w.
Proof. intros. unfold trunc. apply N.land_ones. Qed.

Lemma trunc_lt : forall w x, trunc w x < 2 ^ w.
Proof. intros. rewrite trunc_mod. apply N.mod_lt. pose proof (pow2_pos w). lia. Qed.

Lemma trunc_small : forall w x, x < 2 ^ w -> trunc w x = x.
Proof. intros. rewrite trunc_mod. apply N.mod_small. assumption. Qed.

Lemma bits_spec : forall x lo w, bits x lo w = (x / 2 ^ lo) mod 2 ^ w.
Proof. intros. unfold bits. rewrite N.land_ones, N.shiftr_div_pow2. reflexivity. Qed.

Lemma bits_lt : forall x lo w, bits x lo w < 2 ^ w.
Proof. intros. rewrite bits_spec. apply N.mod_lt. pose proof (pow2_pos w). lia. Qed.

Lemma pow2_le_mono : forall a b, a <= b -> 2 ^ a <= 2 ^ b.
Proof. intros. apply N.pow_le_mono_r; lia. Qed.

Lemma trunc_bits_wide : forall x lo w w', w' <= w -> trunc w (bits x lo w') = bits x lo w'.
Proof.
  intros. apply trunc_small. pose proof (bits_lt x lo w'). pose proof (pow2_le_mono w' w H). lia.
Qed.

Lemma b2n_lt2 : forall b, b2n b < 2.
Proof. destruct b; simpl; lia. Qed.

Lemma b2n_inj : forall a b, b2n a = b2n b -> a = b.
Proof. destruct a, b; simpl; intros; (reflexivity || discriminate). Qed.

Lemma odd_b2n_add_2 : forall b k, N.odd (b2n b + 2 * k) = b.
Proof.
  intros. rewrite N.odd_add_mul_2. destruct b; reflexivity.
Qed.
