(* Mixed-radix packing of structured model states (pointers, flags, memories as lists) into one N,
   for hand models that take part in R lock-step obligations (enc / dec / dec_enc). *)
From Coq Require Import NArith List Bool Lia.
Import ListNotations.
Open Scope N_scope.

(* digit x (< B) in front of rest *)
Definition pk (B x rest : N) : N := x + B * rest.

Lemma pk_mod : forall B x rest, x < B -> pk B x rest mod B = x.
Proof.
  intros B x rest H. unfold pk. symmetry. apply (N.mod_unique _ _ rest); [exact H | lia].
Qed.

Lemma pk_div : forall B x rest, x < B -> pk B x rest / B = rest.
Proof.
  intros B x rest H. unfold pk. symmetry. apply (N.div_unique _ _ _ x); [exact H | lia].
Qed.

Fixpoint pack (B : N) (l : list N) : N :=
  match l with
  | [] => 0
  | x :: t => pk B x (pack B t)
  end.

Fixpoint unpack (B : N) (k : nat) (n : N) : list N :=
  match k with
  | O => []
  | S k' => n mod B :: unpack B k' (n / B)
  end.

Lemma unpack_pack : forall B l, Forall (fun x => x < B) l -> unpack B (length l) (pack B l) = l.
Proof.
  induction l as [|x t IH]; intro H; [reflexivity|].
  inversion H as [|? ? Hx Ht]; subst. cbn [length pack unpack].
  rewrite pk_mod, pk_div by exact Hx. rewrite IH by exact Ht. reflexivity.
Qed.

Lemma unpack_length : forall B k n, length (unpack B k n) = k.
Proof. induction k; intros; cbn [unpack length]; [reflexivity | rewrite IHk; reflexivity]. Qed.

Lemma pow2_pos : forall w, 0 < 2 ^ w.
Proof. intro w. apply N.neq_0_lt_0, N.pow_nonzero. lia. Qed.

(* a bit field is below its radix *)
Lemma land_ones_lt : forall x w, N.land x (N.ones w) < 2 ^ w.
Proof. intros. rewrite N.land_ones. apply N.mod_lt. apply N.pow_nonzero. lia. Qed.

Lemma b2n_lt2 : forall b : bool, (if b then 1 else 0) < 2.
Proof. destruct b; lia. Qed.
