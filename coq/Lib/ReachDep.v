(* Certified reachability with a STATE-DEPENDENT input alphabet (extension of Machine.v's Reach/RLockstep).

   `alpha m` is the list of input words explored in monitor state m.  Soundness is stated for the guarded
   monitor `gmon`, which treats "input not in alpha m" as a broken environment assumption, so the resulting
   theorems quantify over exactly the traces whose every input lies in the alphabet of the state the
   monitor/model is in at that cycle.  Typical use: a module that ignores its data inputs except in a few
   "ready" states -- explore all 2^k input words there and a handful of representatives elsewhere. *)
From Coq Require Import NArith List Bool Lia.
Import ListNotations.
From LunaLib Require Import Machine.
Open Scope N_scope.

Definition memN (i : N) (l : list N) : bool := existsb (N.eqb i) l.

Lemma memN_In : forall i l, memN i l = true -> In i l.
Proof.
  intros i l H. unfold memN in H. apply existsb_exists in H. destruct H as [x [Hx E]].
  apply N.eqb_eq in E. subst. exact Hx.
Qed.

Section ReachDep.
  Variable step : N -> N -> N * N.
  Variable mon : N -> N -> N -> option (N * bool).
  Variable alpha : N -> list N.

  Definition gmon (m i o : N) : option (N * bool) := if memN i (alpha m) then mon m i o else None.

  Definition closed_at_dep (R : pset) (p : N * N) : bool :=
    forallb (fun i =>
      let (s', o) := step (fst p) i in
      match mon (snd p) i o with
      | None => true
      | Some (m', ok) => ok && pmem s' m' R
      end) (alpha (snd p)).

  Definition closed_dep (L : list (N * N)) : bool :=
    let R := of_list L in forallb (closed_at_dep R) L.

  Theorem closed_dep_sound : forall L, closed_dep L = true ->
    forall tr s m, In (s, m) L -> check_trace step gmon s m tr = true.
  Proof.
    intros L HC. unfold closed_dep in HC. rewrite forallb_forall in HC.
    induction tr as [|i t IH]; intros s m Hin; simpl; [reflexivity|].
    destruct (step s i) as [s' o] eqn:Es. unfold gmon.
    destruct (memN i (alpha m)) eqn:Hm; [|reflexivity].
    apply memN_In in Hm.
    specialize (HC _ Hin). unfold closed_at_dep in HC. rewrite forallb_forall in HC.
    specialize (HC _ Hm). simpl in HC. rewrite Es in HC.
    destruct (mon m i o) as [[m' ok]|]; [|reflexivity].
    apply andb_true_iff in HC as [Hok Hmem]. rewrite Hok. simpl.
    apply IH. apply pmem_of_list. exact Hmem.
  Qed.

  (* untrusted search *)
  Definition level_dep (st : bfs_state) : bfs_state :=
    fold_left (fun acc it => match it with (s, m, path) => fold_left (visit1 step mon s m path) (alpha m) acc end)
              (front st)
              {| seen := seen st; allst := allst st; front := []; cex := cex st |}.

  Fixpoint bfs_dep (fuel : nat) (st : bfs_state) : bfs_state :=
    match fuel with
    | O => st
    | S f => match front st, cex st with
             | [], _ => st
             | _, Some _ => st
             | _, None => bfs_dep f (level_dep st)
             end
    end.

  Definition explore_dep (fuel : nat) (s m : N) : bfs_state := bfs_dep fuel (bfs_init s m).
End ReachDep.

(* Lock-step of a generated machine with a typed, packed hand model, alphabet depending on the model state. *)
Section RLockstepDep.
  Variable step : N -> N -> N * N.
  Variables (St : Type) (mstep : St -> N -> St * N) (enc : St -> N) (dec : N -> St) (wf : St -> Prop).
  Variable alpha : St -> list N.
  Hypothesis dec_enc : forall s, wf s -> dec (enc s) = s.
  Hypothesis wf_step : forall s i, wf s -> wf (fst (mstep s i)).

  Definition alphaN (m : N) : list N := alpha (dec m).
  Definition rld_mon := rl_mon St mstep enc dec (fun _ _ => true).

  (* every input lies in the alphabet of the model state of its cycle *)
  Fixpoint alpha_ok (s : St) (tr : list N) : bool :=
    match tr with
    | [] => true
    | i :: t => memN i (alpha s) && alpha_ok (fst (mstep s i)) t
    end.

  Lemma lockstep_gmon : forall tr s m, wf m ->
    check_trace step (gmon rld_mon alphaN) s (enc m) tr = true -> alpha_ok m tr = true ->
    run step s tr = run mstep m tr.
  Proof.
    induction tr as [|i t IH]; intros s m Hwf HC HA; simpl in *; [reflexivity|].
    apply andb_true_iff in HA as [Ha Ht].
    unfold gmon, alphaN in HC. rewrite (dec_enc m Hwf), Ha in HC.
    unfold rld_mon, rl_mon, lock_mon, envN, mstepN in HC. rewrite (dec_enc m Hwf) in HC.
    pose proof (wf_step m i Hwf) as Hw.
    destruct (step s i) as [s' o]. destruct (mstep m i) as [m' o'] eqn:Em. simpl in *.
    apply andb_true_iff in HC as [Ho Hc]. apply N.eqb_eq in Ho. subst o'.
    f_equal. apply IH; assumption.
  Qed.

  Theorem R_lockstep_dep : forall L s0 m0,
    closed_dep step rld_mon alphaN L = true ->
    pmem s0 (enc m0) (of_list L) = true -> wf m0 ->
    forall tr, alpha_ok m0 tr = true -> run step s0 tr = run mstep m0 tr.
  Proof.
    intros L s0 m0 HC Hin Hwf tr HA.
    apply lockstep_gmon; [exact Hwf | | exact HA].
    apply (closed_dep_sound step rld_mon alphaN L HC). apply pmem_of_list. exact Hin.
  Qed.
End RLockstepDep.
