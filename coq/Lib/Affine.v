(* Affine reflection over GF(2): terms built from variables, constants, xor and not are normalised
   to (coefficient vector, constant).  Used to prove that the parallel CRC / LFSR equations printed
   from LUNA's source equal the bit-serial reference for ALL inputs (2^24 .. 2^64 points) at once. *)
From Coq Require Import List Bool Arith Lia.
Import ListNotations.

Inductive xt := V (i : nat) | K (b : bool) | X (a b : xt) | Nt (a : xt).

Fixpoint ev (env : nat -> bool) (t : xt) : bool :=
  match t with
  | V i => env i
  | K b => b
  | X a b => xorb (ev env a) (ev env b)
  | Nt a => negb (ev env a)
  end.

Definition aff := (list bool * bool)%type.

Fixpoint xorl (a b : list bool) : list bool :=
  match a, b with
  | x :: a', y :: b' => xorb x y :: xorl a' b'
  | [], _ => b
  | _, [] => a
  end.

Fixpoint unitv (len i : nat) : list bool :=
  match len with
  | 0 => []
  | S l => match i with 0 => true :: repeat false l | S i' => false :: unitv l i' end
  end.

Section Aff.
  Variable n : nat.   (* number of variables *)

  Definition axor (a b : aff) : aff := (xorl (fst a) (fst b), xorb (snd a) (snd b)).
  Definition aconst (b : bool) : aff := (repeat false n, b).
  Definition avar (i : nat) : aff := (unitv n i, false).
  Definition anot (a : aff) : aff := (fst a, negb (snd a)).

  Fixpoint nf (t : xt) : aff :=
    match t with
    | V i => avar i
    | K b => aconst b
    | X a b => axor (nf a) (nf b)
    | Nt a => anot (nf a)
    end.

  Fixpoint evm (env : nat -> bool) (k : nat) (m : list bool) : bool :=
    match m with [] => false | x :: m' => xorb (x && env k) (evm env (S k) m') end.
  Definition eva (env : nat -> bool) (a : aff) : bool := xorb (evm env 0 (fst a)) (snd a).

  Lemma evm_xorl : forall a b env k, evm env k (xorl a b) = xorb (evm env k a) (evm env k b).
  Proof.
    induction a as [|x a IH]; intros [|y b] env k; simpl in *; auto.
    - destruct (xorb (y && env k) (evm env (S k) b)); reflexivity.
    - destruct (xorb (x && env k) (evm env (S k) a)); reflexivity.
    - rewrite IH. destruct x, y, (env k), (evm env (S k) a), (evm env (S k) b); reflexivity.
  Qed.

  Lemma evm_zero : forall l env k, evm env k (repeat false l) = false.
  Proof. induction l; intros; simpl; auto. rewrite IHl. reflexivity. Qed.

  Lemma evm_unit : forall len i env k, i < len -> evm env k (unitv len i) = env (k + i).
  Proof.
    induction len; intros i env k H; [lia|]. destruct i; simpl.
    - rewrite evm_zero. rewrite Nat.add_0_r. destruct (env k); reflexivity.
    - rewrite IHlen by lia. replace (S k + i) with (k + S i) by lia. destruct (env (k + S i)); reflexivity.
  Qed.

  Lemma eva_axor : forall env a b, eva env (axor a b) = xorb (eva env a) (eva env b).
  Proof.
    intros env [m1 c1] [m2 c2]. unfold eva, axor; simpl. rewrite evm_xorl.
    destruct (evm env 0 m1), (evm env 0 m2), c1, c2; reflexivity.
  Qed.
  Lemma eva_aconst : forall env b, eva env (aconst b) = b.
  Proof. intros. unfold eva, aconst; simpl. rewrite evm_zero. destruct b; reflexivity. Qed.
  Lemma eva_avar : forall env i, i < n -> eva env (avar i) = env i.
  Proof. intros. unfold eva, avar. cbn [fst snd]. rewrite evm_unit by auto. cbn [Nat.add].
         destruct (env i); reflexivity. Qed.
  Lemma eva_anot : forall env a, eva env (anot a) = negb (eva env a).
  Proof. intros env [m c]. unfold eva, anot; simpl. destruct (evm env 0 m), c; reflexivity. Qed.

  Fixpoint wf (t : xt) : bool :=
    match t with V i => i <? n | K _ => true | X a b => wf a && wf b | Nt a => wf a end.

  Lemma nf_sound : forall env t, wf t = true -> ev env t = eva env (nf t).
  Proof.
    induction t; simpl; intros H.
    - apply Nat.ltb_lt in H. rewrite eva_avar by auto. reflexivity.
    - rewrite eva_aconst. reflexivity.
    - apply andb_true_iff in H as [H1 H2]. rewrite eva_axor, IHt1, IHt2 by auto. reflexivity.
    - rewrite eva_anot, IHt by auto. reflexivity.
  Qed.

  (* The reflection principle: a list of terms whose normal forms equal `spec` evaluates, under every
     assignment, to what the affine forms of `spec` evaluate to. *)
  Theorem affine_reflect : forall (g : list xt) (spec : list aff),
    forallb wf g = true -> map nf g = spec -> forall env, map (ev env) g = map (eva env) spec.
  Proof.
    intros g spec W E env. subst spec. rewrite map_map. apply map_ext_in. intros t Ht.
    apply nf_sound. rewrite forallb_forall in W. auto.
  Qed.

  Lemma map_eva_avar : forall env s l, s + l <= n -> map (eva env) (map avar (seq s l)) = map env (seq s l).
  Proof. intros env s l; revert s. induction l; intros; simpl; auto. rewrite eva_avar by lia.
         rewrite IHl by lia. reflexivity. Qed.
  Lemma map_eva_aconst : forall env l, map (eva env) (map aconst l) = l.
  Proof. induction l; simpl; auto. rewrite eva_aconst, IHl. reflexivity. Qed.
End Aff.

(* ------------------------------------------------------------------------------------------ *)
(* The bit-serial reference, generic in a xor-algebra T so that the same definition is the       *)
(* specification (T = bool) and its symbolic run (T = aff).                                      *)
Section Serial.
  Variable T : Type.
  Variable tx : T -> T -> T.
  Variable tz : T.
  Variable tn : T -> T.

  Fixpoint zipp (p : list bool) (c : list T) (fb : T) : list T :=
    match p, c with
    | pb :: p', x :: c' => (if pb then tx x fb else x) :: zipp p' c' fb
    | _, _ => []
    end.

  (* one shift of an MSB-first CRC register (index 0 = least significant register bit):
     feedback = top register bit xor message bit; register shifts up; polynomial taps xor feedback *)
  Definition crc_shift (poly : list bool) (reg : list T) (b : T) : list T :=
    let fb := tx (last reg tz) b in zipp poly (tz :: removelast reg) fb.
  Definition crc_shifts (poly : list bool) (reg : list T) (bits : list T) : list T :=
    fold_left (crc_shift poly) bits reg.
  (* the value put on the wire: complemented and bit-reversed *)
  Definition crc_finish (reg : list T) : list T := map tn (rev reg).

  (* one shift of a Galois LFSR producing an output bit: out = top bit; register shifts up;
     taps xor the output bit *)
  Definition lfsr_shift (taps : list bool) (st : list T * list T) : list T * list T :=
    let reg := fst st in
    let o := last reg tz in
    (zipp taps (tz :: removelast reg) o, snd st ++ [o]).
  Fixpoint lfsr_run (taps : list bool) (k : nat) (st : list T * list T) : list T * list T :=
    match k with 0 => st | S k' => lfsr_run taps k' (lfsr_shift taps st) end.
End Serial.

Section Hom.
  Variables (A B : Type) (ta : A -> A -> A) (za : A) (na : A -> A)
            (tb : B -> B -> B) (zb : B) (nb : B -> B) (h : A -> B).
  Hypothesis hx : forall x y, h (ta x y) = tb (h x) (h y).
  Hypothesis hz : h za = zb.
  Hypothesis hn : forall x, h (na x) = nb (h x).

  Lemma zipp_hom : forall p c fb, map h (zipp A ta p c fb) = zipp B tb p (map h c) (h fb).
  Proof. induction p; intros [|x c] fb; simpl; auto. rewrite IHp. destruct a; rewrite ?hx; reflexivity. Qed.
  Lemma last_hom : forall l, h (last l za) = last (map h l) zb.
  Proof. induction l as [|x [|y l] IH]; simpl in *; auto. Qed.
  Lemma removelast_hom : forall l, map h (removelast l) = removelast (map h l).
  Proof. induction l as [|x [|y l] IH]; simpl in *; auto. rewrite IH. reflexivity. Qed.
  Lemma crc_shift_hom : forall p r b,
    map h (crc_shift A ta za p r b) = crc_shift B tb zb p (map h r) (h b).
  Proof. intros. unfold crc_shift. rewrite zipp_hom. simpl.
         rewrite hx, last_hom, removelast_hom, hz. reflexivity. Qed.
  Lemma crc_shifts_hom : forall p bits r,
    map h (crc_shifts A ta za p r bits) = crc_shifts B tb zb p (map h r) (map h bits).
  Proof. induction bits; intros; simpl; auto. unfold crc_shifts in *. simpl.
         rewrite IHbits, crc_shift_hom. reflexivity. Qed.
  Lemma crc_finish_hom : forall r, map h (crc_finish A na r) = crc_finish B nb (map h r).
  Proof. intros. unfold crc_finish. rewrite <- map_rev. rewrite !map_map.
         apply map_ext. intros; apply hn. Qed.
  Lemma lfsr_shift_hom : forall taps st,
    (map h (fst (lfsr_shift A ta za taps st)), map h (snd (lfsr_shift A ta za taps st))) =
    lfsr_shift B tb zb taps (map h (fst st), map h (snd st)).
  Proof. intros taps [reg out]. unfold lfsr_shift. cbn [fst snd].
         rewrite zipp_hom, map_app. cbn [map]. rewrite !last_hom, removelast_hom, hz. reflexivity. Qed.
  Lemma lfsr_run_hom : forall taps k st,
    (map h (fst (lfsr_run A ta za taps k st)), map h (snd (lfsr_run A ta za taps k st))) =
    lfsr_run B tb zb taps k (map h (fst st), map h (snd st)).
  Proof. induction k; intros st; simpl; [reflexivity|]. rewrite IHk, lfsr_shift_hom. reflexivity. Qed.
End Hom.

(* untrusted diagnosis helper: where do two lists of affine forms differ?
   Some (output bit, 0)      the constant terms differ      -> the all-zero input distinguishes
   Some (output bit, S v)    the coefficient of variable v differs (constants equal) -> unit vector e_v does *)
Fixpoint list_diff (k : nat) (a b : list bool) : option nat :=
  match a, b with
  | x :: a', y :: b' => if Bool.eqb x y then list_diff (S k) a' b' else Some k
  | [], [] => None
  | _, _ => Some k
  end.
Fixpoint aff_diff (k : nat) (fs gs : list aff) : option (nat * nat) :=
  match fs, gs with
  | f :: fs', g :: gs' =>
      if Bool.eqb (snd f) (snd g) then
        match list_diff 0 (fst f) (fst g) with
        | Some v => Some (k, S v)
        | None => aff_diff (S k) fs' gs'
        end
      else Some (k, 0)
  | [], [] => None
  | _, _ => Some (k, 0)
  end.
