(* C22 -- ULPI receive translation yields exactly the PHY's packet bytes
   (luna/gateware/interface/ulpi.py: ULPIRxEventDecoder + rx_active/rx_valid/rx_data of UTMITranslator;
   models and specification in Model/UlpiRx.v; the receive-path model is the property-satisfying behaviour,
   see the C22 files under findings/).

   Reading the statements.  h is ANY history of PHY-side input words (DIR, NXT, DATA; nothing is assumed),
   x any further cycle (all outputs are registered, so the effect of the last cycle of h is visible one
   cycle later).  phy_packets reads the packets off DIR/NXT/DATA alone: a receive starts when DIR rises together
   with NXT or with an RxCmd (DIR high for more than one cycle, NXT low) whose RxActive bit is set; it ends when
   DIR falls or with an RxCmd whose RxActive bit is clear; its bytes are DATA in the cycles with DIR and NXT high
   after the start.  utmi_packets is the UTMI receive convention used by all packet consumers
   (Handshake.packets_from): maximal rx_active runs, rx_data at rx_valid except in the run's first cycle.      *)
From Coq Require Import NArith List Bool. Import ListNotations.
From LunaLib Require Import Netlist Machine.
From LunaModel Require Import Handshake UlpiRx UlpiRx_proofs.
Open Scope N_scope.

Theorem C22_rx_packets : forall h x,
  utmi_packets (run rx_step rx_init (h ++ [x])) = phy_packets phy0 h.
Proof. exact rx_packets. Qed.
Print Assumptions C22_rx_packets.

Theorem C22_rx_status : forall h x,
  let o := last (run rx_step rx_init (h ++ [x])) 0 in
  o_lastcmd o = phy_last_rxcmd false 0 h /\
  o_status o = rxcmd_status (phy_last_rxcmd false 0 h) /\
  o_active o = isSome (snd (fold_left phy_next h phy0)).
Proof. exact rx_status. Qed.
Print Assumptions C22_rx_status.

Theorem C22_rx_valid_active : forall h, turnaround_ok false h = true ->
  forallb utmi_rx_ok (run rx_step rx_init h) = true.
Proof. exact rx_valid_active. Qed.
Print Assumptions C22_rx_valid_active.

Theorem C22_decoder_last : forall h, e_last (run_state dec_step dec_init h) = last_rxcmd false 0 h.
Proof. exact dec_last. Qed.
Print Assumptions C22_decoder_last.

(* Examples.  Input word = data + 256*nxt + 512*dir.
   (1) DIR rises with NXT (turn-around), RxCmd 0x5D (RxActive, line state 1, VBUS valid, ID), bytes C3 11,
       RxCmd 0x5E mid-packet, byte 22, RxCmd 0x4C (RxActive clear), DIR falls. *)
Definition ex_dir_start : list N := [0; 768+7; 512+93; 768+195; 768+17; 512+94; 768+34; 512+76; 0; 0].
Example C22_example_dir_start :
  phy_packets phy0 ex_dir_start = [[195; 17; 34]] /\
  utmi_packets (run rx_step rx_init (ex_dir_start ++ [0])) = [[195; 17; 34]] /\
  phy_last_rxcmd false 0 ex_dir_start = 76 /\ turnaround_ok false ex_dir_start = true.
Proof. vm_compute. repeat split. Qed.

(* (2) DIR already high for status updates; the receive is announced by an RxCmd and its first byte follows
       in the very next cycle; the packet is aborted by DIR falling. *)
Definition ex_rxcmd_start : list N := [512+3; 512+12; 512+28; 768+165; 768+90; 0].
Example C22_example_rxcmd_start :
  phy_packets phy0 ex_rxcmd_start = [[165; 90]] /\
  utmi_packets (run rx_step rx_init (ex_rxcmd_start ++ [0])) = [[165; 90]].
Proof. vm_compute. repeat split. Qed.

(* (3) a status flag example: RxCmd 0x0E = line state 2, VBUS valid -> flags 2 + 4 *)
Example C22_example_status : rxcmd_status 14 = 6 /\ rxcmd_status 0 = 16 /\ rxcmd_status 48 = 16 + 32.
Proof. vm_compute. repeat split. Qed.
