(* C12 -- Endpoints only act on tokens for their own endpoint number (non-interference).

   USBEndpointMultiplexer broadcasts every token, handshake and received byte to all endpoints.  The statement: an endpoint's
   outputs on a MIXED history equal, cycle by cycle, its outputs on the PROJECTION of the history on that endpoint (cycles that
   belong to other endpoints' transactions replaced by quiet cycles: no request / token / handshake; local inputs unchanged).
   Proved here in general form (any Mealy machine with a suitable relation) and, completely, for the status IN endpoint
   (luna/gateware/usb/usb2/endpoints/status.py; FSM model SignalIn.v of C17), for every width, endianness and endpoint number
   and every legal mixed history of any length.  Model/C12_EpIsolation.v states the legal-host conditions L0..L4. *)
From Coq Require Import NArith List Bool. Import ListNotations.
From LunaLib Require Import Netlist Machine.
From LunaModel Require Import SignalIn C12_EpIsolation C12_EpIsolation_proofs.
Open Scope N_scope.

(* Generic: a relation between "state in the mixed run" and "state in the projected run" that every legal step preserves with
   equal outputs (own cycle: same input on both sides; foreign cycle: input vs. its quiet version) gives equal output
   histories. *)
Theorem C12_noninterference_generic :
  forall (S I O : Type) (step : S -> I -> S * O) (mine : I -> bool) (quiet : I -> I)
         (legal : S -> I -> I -> bool) (rel : I -> S -> S -> Prop),
  (forall prev s s' i, rel prev s s' -> legal s prev i = true ->
     snd (step s i) = snd (step s' (proj mine quiet i)) /\
     rel i (fst (step s i)) (fst (step s' (proj mine quiet i)))) ->
  forall tr prev s s', rel prev s s' -> legal_run step legal s prev tr = true ->
  grun step s tr = grun step s' (map (proj mine quiet) tr).
Proof. exact @noninterference_from. Qed.
Print Assumptions C12_noninterference_generic.

(* Status IN endpoint, view level.  A cycle is (tokenizer.endpoint == my number, view); its quiet version keeps signal and
   tx.ready and carries no request, token or ACK.  For every legal mixed history from reset: same outputs (tx.valid/first/last,
   payload, DATA toggle, status_read_complete) in every cycle as on the projection. *)
Theorem C12_status_endpoint : forall W big tr prev,
  legal_run (c_step W big) c_legal si_init prev tr = true ->
  grun (c_step W big) si_init tr = grun (c_step W big) si_init (map (proj c_mine c_quiet) tr).
Proof. exact status_noninterference_reset. Qed.
Print Assumptions C12_status_endpoint.

(* ... and the projection is a history addressed to this endpoint only. *)
Theorem C12_projection_is_alone : forall tr : list cyc, Forall (fun c => c_mine c = true) (map (proj c_mine c_quiet) tr).
Proof. exact proj_is_alone. Qed.
Print Assumptions C12_projection_is_alone.

(* Word level (packed interface words of USBSignalInEndpoint as in C17): SignalIn's machine on a legal mixed history of
   input words = the machine that runs the endpoint ALONE on the PROJECTION (al_step), the model side of the netlist ties. *)
Theorem C12_status_endpoint_words : forall W big ep tr,
  env_ok _ (al_step W big ep) (al_env W) al_init tr = true ->
  run (si_step W big ep) si_init tr = run (al_step W big ep) al_init tr.
Proof. exact alone_machine_noninterference_reset. Qed.
Print Assumptions C12_status_endpoint_words.

(* The view-reading machine is C17's machine, so C17's specification theorems apply to either side. *)
Theorem C12_view_machine_is_C17_machine : forall W big ep tr s,
  run (si_step W big ep) s tr = grun (sv_step W big) s (map (si_view W ep) tr).
Proof. exact grun_view. Qed.
Print Assumptions C12_view_machine_is_C17_machine.

(* Non-vacuity: a legal mixed history for endpoint 1 (W = 8, little endian) with traffic for endpoint 2 in between:
   IN token for ep1, request, one byte sent, [token for ep2, its request, its ACK], token for ep1 again (retry), request,
   byte re-sent, ACK.  The foreign ACK does not advance the toggle; the retry re-sends the latched value 0x5A. *)
Definition ex_cyc (m : bool) (sg : N) (rq rd tk ak : bool) : cyc := (m, mkV sg rq rd tk ak).
Definition ex_mixed : list cyc :=
  [ ex_cyc true 90 false false true false;  ex_cyc true 90 true false false false; ex_cyc true 17 false true false false;
    ex_cyc false 17 false false true false; ex_cyc false 17 false true false false; ex_cyc false 17 false false false true;
    ex_cyc true 17 false false true false;  ex_cyc true 17 true false false false;  ex_cyc true 17 false true false false;
    ex_cyc true 17 false false false true;  ex_cyc true 17 false false false false ].
Example C12_example_legal : legal_run (c_step 8 false) c_legal si_init (ex_cyc false 0 false false false false) ex_mixed = true.
Proof. reflexivity. Qed.
Example C12_example_run :
  grun (c_step 8 false) si_init ex_mixed = [0; 0; 727; 0; 0; 0; 0; 0; 727; 8192; 2048].
Proof. reflexivity. Qed.
Example C12_example_projection_run :
  grun (c_step 8 false) si_init (map (proj c_mine c_quiet) ex_mixed) = [0; 0; 727; 0; 0; 0; 0; 0; 727; 8192; 2048].
Proof. reflexivity. Qed.
(* without the legal-host conditions the statement is false: an ACK for another endpoint that is NOT preceded by a token
   (L1 violated) is taken by the waiting endpoint as its own *)
Definition ex_illegal : list cyc :=
  [ ex_cyc true 90 false false true false; ex_cyc true 90 true false false false; ex_cyc true 17 false true false false;
    ex_cyc false 17 false false false true; ex_cyc false 17 false false false false ].
Example C12_example_illegal_differs :
  legal_run (c_step 8 false) c_legal si_init (ex_cyc false 0 false false false false) ex_illegal = false /\
  grun (c_step 8 false) si_init ex_illegal <> grun (c_step 8 false) si_init (map (proj c_mine c_quiet) ex_illegal).
Proof. split; [reflexivity | vm_compute; discriminate]. Qed.
