(* C46 -- SuperSpeed IN endpoints deliver data and signal readiness correctly.

   Specification: the referee of Model/SsIn.v (section 3) -- an observer of the endpoint's interface that keeps,
   from what it has SEEN on the interface only, the list of stream words accepted and not yet acknowledged, the
   sequence number the host expects, and where the host stands (IN request unanswered / data packet in flight /
   packet awaiting its ACK / told NRDY).  In every cycle it first checks the environment's move (stream producer,
   host, transaction packet generator; `None` = contract broken) and then judges the endpoint's outputs:
     ck_start / ck_word  a data packet starts only as the answer to an IN request, is the NEXT packet of the stream
                         (the first max_packet_size bytes not yet acknowledged, or everything up to the end of the
                         transfer), carries the expected sequence number, its length, endpoint and direction, and
                         offers exactly its words (byte masks, first/last flags) until each is taken;
     ck_zlp              a zero-length packet is sent exactly when the transfer ended on a packet boundary;
     ck_nrdy             NRDY answers an IN request exactly when no packet is held;
     ck_erdy, _live      ERDY once after an NRDY, when (and as soon as) a packet is held;
     ck_deadline, ck_one every IN request is answered -- at once (ZLP, NRDY) or by a data packet two cycles later.
   Sequence numbers advance only with the host's acknowledgement (r_exp), a retry re-requests the same packet
   (same r_pend, same r_exp), an acknowledgement removes exactly the acknowledged packet from r_pend: the
   acknowledged payloads are the stream, once, in order, cut into max-size packets with short/zero-length ends. *)
From Coq Require Import NArith List Bool. Import ListNotations.
From LunaLib Require Import Machine.
From LunaModel Require Import SsIn SsIn_proofs.
Open Scope N_scope.

(* For every max_packet_size (multiple of 4, 4..1024), endpoint number, sequence-number width and EVERY input
   history (all stream words / valid gaps, all host ACK / retry / IN-request timings, all tx.ready patterns):
   the referee accepts the endpoint model's interface trace, up to the first cycle (if any) in which the
   environment breaks its contract. *)
Theorem C46_endpoint_meets_spec : forall mps ep sb, 4 <= mps -> mps mod 4 = 0 -> mps <= 1024 ->
  forall tr, accepts (ss_next mps ep sb) (ss_outputs mps ep sb) (ref_step mps ep sb) ss_init ref_init tr = true.
Proof. intros mps ep sb H8 H4 H1k tr. apply ssin_accepted; assumption. Qed.
Print Assumptions C46_endpoint_meets_spec.

(* The same on packed interface words: any machine whose output words equal the model's (this is what the tie
   proves about the netlist regenerated from /repo) is accepted by the referee. *)
Theorem C46_endpoint_meets_spec_io : forall mps ep sb, 4 <= mps -> mps mod 4 = 0 -> mps <= 1024 -> sb <= 5 ->
  forall tr outs, outs = run (ss_step mps ep sb) ss_init tr ->
  ref_accepts_io mps ep sb ref_init (combine tr outs) = true.
Proof. exact ssin_accepted_io. Qed.
Print Assumptions C46_endpoint_meets_spec_io.

(* What the referee's acceptance means for the data -- a statement about the specification alone, for ANY
   endpoint (no model involved): along every interface trace that the referee judges and accepts, the bytes accepted
   from the stream are, in order, the bytes of the packets the host acknowledged followed by the bytes still pending;
   no acknowledged packet is longer than max_packet_size.  (Exactly once, in order.) *)
Theorem C46_exactly_once_in_order : forall mps ep sb ios r',
  ref_run_io mps ep sb ref_init ios = Some r' ->
  items_bytes (stream_log ios) = items_bytes (concat (acked_log mps ep sb ref_init ios)) ++ items_bytes (r_pend r') /\
  Forall (fun p => pkt_bytes p <= mps) (acked_log mps ep sb ref_init ios).
Proof. intros mps ep sb ios r' H. exact (referee_exactly_once mps ep sb ios ref_init r' H). Qed.
Print Assumptions C46_exactly_once_in_order.

(* The packed model is a faithful coding of the typed one (used by the lock-step tie). *)
Theorem C46_model_packing : forall s, ss_wf s -> ss_dec (ss_enc s) = s.
Proof. exact ss_dec_enc. Qed.
Print Assumptions C46_model_packing.

(* ---- the contract is satisfiable and the judgement is not vacuous: a complete session at max_packet_size 8,
   endpoint 1.  IN request before any data (NRDY), an 8-byte transfer arrives (ERDY), IN request, the packet is
   sent, the host asks for a retry, the packet is sent again, ACK + request: the zero-length packet follows with
   the next sequence number, ACK; a 3-byte transfer, IN request, a one-word packet, ACK.
   The referee never sees a broken contract, accepts every cycle, and ends with three packets acknowledged
   (sequence number 3 expected next) and nothing pending. ---- *)
Definition idle : N := mk_in 0 false 0 true false 0 false 0 0 true false.
Definition gen_busy (done : bool) (valid : N) (last : bool) (p : N) : N :=
  mk_in valid last p true false 0 false 0 0 false done.
Definition host (retry : bool) (nseq nump : N) : N := mk_in 0 false 0 true true 1 retry nseq nump true false.
Definition session : list N :=
  [ host false 0 1;                      (* IN request, nothing held: NRDY *)
    gen_busy false 15 false 287454020;   (* word 0x11223344 *)
    gen_busy true 15 true 2864434397;    (* word 0xAABBCCDD, end of transfer (8 bytes = one full packet) *)
    idle;                                (* ERDY taken by the generator *)
    gen_busy true 0 false 0;
    host false 0 1;                      (* IN request: packet 0 *)
    idle; idle; idle; idle;
    host true 0 1;                       (* retry *)
    idle; idle; idle;
    host false 1 1;                      (* ACK + IN request: the zero-length packet, number 1 *)
    host false 2 0;                      (* ACK *)
    mk_in 7 true 6710886 true false 0 false 0 0 true false;     (* a 3-byte transfer *)
    host false 2 1;                      (* IN request: packet 2 *)
    idle; idle; idle;
    host false 3 0 ].                    (* ACK *)

Example C46_session_judged :
  option_map (fun r => (r_exp r, r_pend r, r_out r))
    (ref_run_io 8 1 5 ref_init (combine session (run (ss_step 8 1 5) ss_init session))) = Some (3, [], false).
Proof. vm_compute. reflexivity. Qed.

(* the packets the host acknowledged in that session: 8 bytes, the zero-length packet, 3 bytes *)
Example C46_session_delivered :
  map items_bytes (acked_log 8 1 5 ref_init (combine session (run (ss_step 8 1 5) ss_init session))) =
  [ [68; 51; 34; 17; 221; 204; 187; 170]; []; [102; 102; 102] ].
Proof. vm_compute. reflexivity. Qed.

(* what the host saw in that session, per cycle: (tx.valid, tx_zlp, tx_sequence_number, send_nrdy, send_erdy) *)
Example C46_session_outputs :
  map (fun o => let u := unpack_out o in (o_valid u, o_zlp u, o_seq u, o_nrdy u, o_erdy u))
      (run (ss_step 8 1 5) ss_init session) =
  [ (0, false, 0, true, false); (0, false, 0, false, false); (0, false, 0, false, false);
    (0, false, 0, false, true); (0, false, 0, false, false); (0, false, 0, false, false);
    (0, false, 0, false, false); (15, false, 0, false, false); (15, false, 0, false, false);
    (0, false, 0, false, false); (0, false, 0, false, false); (0, false, 0, false, false);
    (15, false, 0, false, false); (15, false, 0, false, false);
    (0, true, 1, false, false); (0, false, 1, false, false); (0, false, 2, false, false);
    (0, false, 2, false, false); (0, false, 2, false, false); (7, false, 2, false, false);
    (0, false, 2, false, false); (0, false, 2, false, false) ].
Proof. vm_compute. reflexivity. Qed.

(* the referee does reject: the same session against an endpoint that never advances its sequence number
   (outputs of the model with the sequence field forced to 0) fails at the zero-length packet *)
Example C46_referee_rejects :
  ref_accepts_io 8 1 5 ref_init
    (combine session (map (fun o => pack_out (let u := unpack_out o in
        {| o_ready := o_ready u; o_valid := o_valid u; o_first := o_first u; o_last := o_last u;
           o_payload := o_payload u; o_zlp := o_zlp u; o_length := o_length u; o_seq := 0; o_ep := o_ep u;
           o_dir := o_dir u; o_nrdy := o_nrdy u; o_erdy := o_erdy u; o_hoep := o_hoep u |}))
      (run (ss_step 8 1 5) ss_init session))) = false.
Proof. vm_compute. reflexivity. Qed.
