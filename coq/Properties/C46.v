(* C46 -- SuperSpeed IN endpoints deliver data and signal readiness correctly. *)
From Coq Require Import NArith List Bool. Import ListNotations.
From LunaLib Require Import Machine.
From LunaModel Require Import SsIn SsIn_proofs.
Open Scope N_scope.
