(* C33 -- Transmit CTC inserts SKPs only in place of idle and often enough.

   Objects (Model/TxCtc.v):
   * ski_mstep L B we ws  -- code-shaped model of CTCSkipInserter (SKIP_BYTE_LIMIT L, B symbols per word,
                             data_bytes_elapsed of `we` bits, skips_to_send of `ws` bits, registered sink.ready);
   * txp_step L we ws init -- the transmit path of USB3PhysicalLayer: link word -> Scrambler (LFSR restart value
                             `init`, hold := sending_skip) -> CTCSkipInserter -> PHY pins;
   * ssp_mstep / tsp_step  -- the specification machines: the same data path around an UNBOUNDED accounting
                             (symbols handed over n, SKP words sent skp); a SKP word (= two SKP ordered sets) is
                             inserted exactly when can_send_skp holds and  n/L - 2*skp >= 2  ordered sets are owed;
   * sched, tx_real, link_real, tx_follow, tx_hold_can, tx_env -- machine-free readings over the I/O lists.
   Input word of the path: sink_data(32) sink_ctrl(4) can_send_skp enable_scrambling tx_electrical_idle;
   output word: phy.tx_data(32) phy.tx_datak(4) sink_ready scrambler.hold scrambler.lfsr_state(32).            *)
From Coq Require Import NArith List Bool.
Import ListNotations.
From LunaLib Require Import Netlist Bits Machine.
From LunaModel Require Import Crc Scrambler TxCtc TxCtc_proofs.
Open Scope N_scope.

(* (A) Refinement, CTCSkipInserter alone: for every limit L, word size B <= L, counter widths, and EVERY input
   history (any sink.valid gaps, any source.ready pattern, any data) on which the SKP debt of the specification
   stays below 2^ws, the module model is output-equal to the unbounded-accounting specification. *)
Theorem C33_skip_inserter_refines : forall L B we ws, 0 < L -> B <= L -> L <= 2 ^ we ->
  forall tr, ssp_safe L B ws ssp_init tr = true ->
  run (ski_mstep L B we ws) ski_init tr = run (ssp_mstep L B) ssp_init tr.
Proof. exact ski_refines_from_reset. Qed.
Print Assumptions C33_skip_inserter_refines.

(* (B) the same for the whole transmit path (scrambler + inserter + PHY pins), every input history incl.
   electrical-idle phases *)
Theorem C33_tx_path_refines : forall L we ws init, 0 < L -> 4 <= L -> L <= 2 ^ we ->
  forall tr, tsp_safe L ws init (tsp_init init) tr = true ->
  run (txp_step L we ws init) (txp_init init) tr = run (tsp_step L init) (tsp_init init) tr.
Proof. exact txp_refines_from_reset. Qed.
Print Assumptions C33_tx_path_refines.

(* (C) A SKP is inserted (scrambler.hold high) only in a cycle whose can_send_skp is high -- every limit,
   every width, EVERY input history (no hypothesis at all). *)
Theorem C33_skp_only_when_permitted : forall L we ws init, length init = 16%nat ->
  forall tr, tx_hold_can tr (run (txp_step L we ws init) (txp_init init) tr).
Proof. exact tx_hold_can_from_reset. Qed.
Print Assumptions C33_skp_only_when_permitted.

(* (D) With the PHY not in electrical idle: the PHY word of every cycle is the SKP word 3C3C3C3C/1111 if a SKP
   was inserted in the cycle before, and otherwise the link word of the cycle before xor the keystream shown in
   that cycle (control symbols unscrambled); and over an inserted SKP the keystream does not move. *)
Theorem C33_transmitted_word : forall L we ws init, length init = 16%nat ->
  forall tr, Forall (fun i => tx_ieidle i = false) tr ->
  tx_follow tr (run (txp_step L we ws init) (txp_init init) tr).
Proof. exact tx_follow_from_reset. Qed.
Print Assumptions C33_transmitted_word.

(* (E) Stream statement.  Environment tx_env: no electrical idle, constant scrambling enable, and the link-layer
   wiring "can_send_skp only together with the idle filler word 00000000/0000".  Then the PHY words that follow
   handed-over (sink.ready) and not replaced link words are exactly Scrambler.scramble_words of those link
   words, in order: no packet or command word is replaced, dropped, duplicated or reordered, replaced words are
   idle filler, and every real word is scrambled with the keystream position it would have without any SKP
   (so C31_descramble_scramble returns the link stream).  Holds for every L and every counter width. *)
Theorem C33_stream : forall L we ws init, length init = 16%nat ->
  forall en tr, forallb (tx_env en) tr = true ->
  tx_real (run (txp_step L we ws init) (txp_init init) tr) =
  scramble_words init en init (link_real tr (run (txp_step L we ws init) (txp_init init) tr)).
Proof. exact tx_stream_from_reset. Qed.
Print Assumptions C33_stream.

(* (F) Schedule.  With the PHY not in electrical idle, B*(t-1) symbols have been handed to the PHY before cycle t
   (SKPs included), and a SKP word is inserted in exactly the cycles t with
        can_send_skp(t)  and  floor(4*(t-1)/L) - 2*(SKP words inserted before t) >= 2,
   i.e. one SKP ordered set per L transmitted symbols, in pairs, at the first opportunity ("whenever idle time
   permits"), never ahead of the debt; sink.ready is low in the first cycle only.  Hypothesis: the debt of that
   schedule never reaches 2^ws ordered sets (the 3-bit skips_to_send would wrap) -- a condition on the
   can_send_skp history alone. *)
Theorem C33_schedule : forall L we ws init, 0 < L -> 4 <= L -> L <= 2 ^ we -> length init = 16%nat ->
  forall tr, Forall (fun i => tx_ieidle i = false) tr ->
  sched_safe L 4 (2 ^ ws) 0 0 (map tx_ican tr) = true ->
  map tx_ohold (run (txp_step L we ws init) (txp_init init) tr) = sched L 4 0 0 (map tx_ican tr) /\
  map tx_oready (run (txp_step L we ws init) (txp_init init) tr) = ready_sched 0 (length tr).
Proof. exact tx_schedule. Qed.
Print Assumptions C33_schedule.

(* (G) the specification never sends SKPs ahead of the debt: 2 * (SKP words) <= floor(symbols / L) *)
Theorem C33_never_ahead : forall L B, 0 < L -> B <= L -> forall tr,
  2 * ss_skp (run_state (ssp_mstep L B) ssp_init tr) <= ss_n (run_state (ssp_mstep L B) ssp_init tr) / L.
Proof.
  intros L B HL HB tr. apply (ssp_never_ahead L B HL HB tr ssp_init).
  unfold ssp_inv, ssp_init. cbn [ss_skp ss_n]. rewrite N.div_0_l; [apply N.le_refl | intro H; subst; discriminate].
Qed.
Print Assumptions C33_never_ahead.

(* ---- non-vacuity and concrete runs ------------------------------------------------------------------ *)
(* LUNA's parameters satisfy the side conditions *)
Example C33_luna_params : 0 < 354 /\ 4 <= 354 /\ 354 <= 2 ^ amaranth_range_width 354 /\ amaranth_range_width 5 = 3
                          /\ length (lfsr_init 65535) = 16%nat.
Proof. vm_compute. repeat split; discriminate. Qed.

(* the real schedule: 177 busy words = 708 symbols owe two ordered sets; the first idle cycle after that carries
   the SKP pair, the next idle cycle does not *)
Example C33_sched_354 :
  let cans := repeat false 200 ++ [true; true; true] in
  sched_safe 354 4 8 0 0 cans = true /\ skipn 200 (sched 354 4 0 0 cans) = [true; false; false].
Proof. vm_compute. split; reflexivity. Qed.

(* the safety hypothesis can fail: 8*354 symbols without any idle cycle *)
Example C33_starved : sched_safe 354 4 8 0 0 (repeat false 800) = false.
Proof. vm_compute. reflexivity. Qed.

(* a small end-to-end run of the path model (L = 6, so a pair is owed after 12 symbols): inputs are
   data word, data word, data word, then idle filler with can_send_skp; scrambling on *)
Definition c33_in (d c : N) (can : bool) : N := d + N.shiftl c 32 + N.shiftl (b2n can) 36 + N.shiftl 1 37.
Example C33_small_run :
  let tr := [c33_in 287454020 0 false; c33_in 1432778632 0 false; c33_in 2578103244 0 false;
             c33_in 3723427839 1 false; c33_in 0 0 true; c33_in 0 0 true; c33_in 0 0 true] in
  forallb (tx_env true) tr = true /\
  sched_safe 6 4 8 0 0 (map tx_ican tr) = true /\
  map tx_ohold (run (txp_step 6 3 3 (lfsr_init 65535)) (txp_init (lfsr_init 65535)) tr)
    = [false; false; false; false; true; false; false] /\
  map tx_oword (run (txp_step 6 3 3 (lfsr_init 65535)) (txp_init (lfsr_init 65535)) tr)
    = (let r0 := lfsr_init 65535 in let r1 := lfsr_next r0 in let r2 := lfsr_next r1 in let r3 := lfsr_next r2 in
       [(0, 0);                                              (* reset value of the output register *)
        (N.lxor 287454020 (ks_word r0), 0);                  (* word of cycle 0: sent although sink.ready = 0 ... *)
        (N.lxor 1432778632 (ks_word r0), 0);                 (* ... so the keystream has not advanced yet *)
        (N.lxor 2578103244 (ks_word r1), 0);
        (xor_word true (ks_word r2) 3723427839 1, 1);        (* K symbol in lane 0 passes unscrambled *)
        SKPW;                                                (* inserted in place of the idle word of cycle 4 *)
        (ks_word r3, 0)]).                                   (* idle filler 0 xor the NEXT keystream word: no gap *)
Proof. vm_compute. repeat split; reflexivity. Qed.
