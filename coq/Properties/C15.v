(* C15 -- Isochronous IN endpoints send exactly the requested bytes per frame.

   Statements about the hand model of USBIsochronousStreamInEndpoint (Model/IsoIn.v), for every
   max_packet_size mps >= 1, every endpoint number, and every input history (IN-token timings,
   tx.ready stall patterns, stream.valid patterns, per-frame byte counts) that satisfies the
   per-cycle environment assumption iso_env: a new_frame strobe never coincides with the endpoint
   transmitting (tx.valid) or accepting a token (data_requested), and the byte count presented with
   it is at most 3 * mps (< 2^12).

   The specification only looks at interface signals.  `observe` reads the I/O trace the way the
   rest of the device does: new_frame strobes (Frame n, n = bytes_in_frame), accepted tokens (Token =
   data_requested strobe), and the packets on the transmit stream (Packet pid bytes; pid =
   tx_pid_toggle when the packet starts; a zero-length packet is tx.valid & tx.last without tx.first).
   `conf_run` checks that list: every packet answers exactly one accepted token; the j-th packet of a
   frame carries min(mps, bytes still to send) bytes -- hence exactly n bytes over the packets the
   frame needs, then zero-length packets; the needed packets are labelled DATA2/DATA1/DATA0,
   DATA1/DATA0 or DATA0 (PID = packets still needed - 1); no protocol violation on the stream.

   C15_frames            : the observed item list of every such history passes the checker (and a
                           packet still open at the end has the right PID and too few bytes so far).
   C15_bytes_from_stream : (no assumption) the bytes of all packets, in order, are exactly the bytes
                           the data stream offered in the cycles with stream.ready = 1 -- the payload
                           if stream.valid, else 0 -- so the stream is consumed in order, one element
                           per transmitted byte, zero-filled while it has no data.
   C15_packets_needed    : the checker's "packets the frame needs" is max(1, ceil(n / mps)).          *)
From Coq Require Import NArith List Bool. Import ListNotations.
From LunaLib Require Import Machine.
From LunaModel Require Import IsoIn IsoIn_proofs.
Open Scope N_scope.

Theorem C15_frames : forall mps ep, 1 <= mps -> forall ins,
  iso_env mps (iso_trace mps ep (iso_init mps) ins) = true ->
  iso_spec mps (iso_trace mps ep (iso_init mps) ins) = true.
Proof. exact iso_conforms. Qed.
Print Assumptions C15_frames.

Theorem C15_bytes_from_stream : forall mps ep ins,
  all_sent (iso_trace mps ep (iso_init mps) ins) = taken_bytes (iso_trace mps ep (iso_init mps) ins).
Proof. exact iso_sent_taken. Qed.
Print Assumptions C15_bytes_from_stream.

Theorem C15_packets_needed : forall mps n, 1 <= mps -> n <= 3 * mps ->
  packets_needed mps n = N.max 1 ((n + mps - 1) / mps).
Proof. exact packets_needed_ceil. Qed.
Print Assumptions C15_packets_needed.

(* non-vacuity: mps = 2, endpoint 1.  A token before any frame (zero-length packet), a frame of 5
   bytes answered by four tokens (2 + 2 + 1 bytes as DATA2, DATA1, DATA0, then a zero-length packet),
   with a tx.ready stall and a cycle without stream data (zero fill), then a frame of 0 bytes. *)
Definition cy (nf req rdy sv : bool) (sp bif : N) : iso_in :=
  {| i_nf := nf; i_is_in := req; i_rfr := req; i_rdy := rdy; i_sv := sv; i_ep := 1; i_sp := sp; i_bif := bif |}.
Definition idle := cy false false false false 0 0.
Definition sof n := cy true false false false 0 n.
Definition tokn := cy false true false false 0 0.
Definition dat (rdy sv : bool) sp := cy false false rdy sv sp 0.
Definition C15_hist : list iso_in :=
  [ tokn; idle;
    sof 5; idle; tokn; dat true true 161; dat false true 7; dat true false 85; idle;
    tokn; dat true true 162; dat true true 163;
    tokn; dat true true 164; idle;
    tokn; idle;
    sof 0; tokn; idle; idle ].

Example C15_hist_env : iso_env 2 (iso_trace 2 1 (iso_init 2) C15_hist) = true.
Proof. reflexivity. Qed.

Example C15_hist_observed :
  observe None (iso_trace 2 1 (iso_init 2) C15_hist) =
  ([Token; Packet 0 []; Frame 5; Token; Packet 2 [161; 0]; Token; Packet 1 [162; 163]; Token; Packet 0 [164];
    Token; Packet 3 []; Frame 0; Token; Packet 0 []], None).
Proof. reflexivity. Qed.

Example C15_hist_taken : taken_bytes (iso_trace 2 1 (iso_init 2) C15_hist) = [161; 0; 162; 163; 164].
Proof. reflexivity. Qed.

(* the checker is not trivially true: wrong length, wrong PID, packet without token are rejected *)
Example C15_checker_rejects :
  conf_run 2 c_init [Frame 5; Token; Packet 2 [1]] = None /\
  conf_run 2 c_init [Frame 5; Token; Packet 1 [1; 2]] = None /\
  conf_run 2 c_init [Frame 5; Token; Packet 2 [1; 2]; Packet 1 [3; 4]] = None /\
  conf_run 2 c_init [Frame 4; Token; Packet 1 [1; 2]; Token; Packet 0 [3; 4]; Token; Packet 3 [5]] = None /\
  conf_run 2 c_init [Frame 4; Token; Packet 1 [1; 2]; Token; Packet 0 [3; 4]; Token; Packet 3 []] <> None.
Proof. repeat split; try reflexivity. discriminate. Qed.

(* the environment assumption is needed: a new_frame strobe while a byte is being accepted is
   overridden by the transmit logic (the frame's byte count is lost), and the specification fails *)
Example C15_env_needed :
  let h := [sof 4; tokn; dat true true 1; cy true false true true 2 6; idle; tokn; dat true true 3; dat true true 4] in
  iso_env 2 (iso_trace 2 1 (iso_init 2) h) = false /\ iso_spec 2 (iso_trace 2 1 (iso_init 2) h) = false.
Proof. split; reflexivity. Qed.
