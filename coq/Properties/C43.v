(* C43 -- Training ordered sets are emitted and detected exactly.
   Models and specifications: Model/TsDet.v (TSBurstDetector) and Model/TsEmit.v (TSEmitter), both
   parametric in the ordered set (any list of words), the ctrl flags of its first word, the burst
   length and include_config.  One list element = one "ss" clock cycle.

   Detector (D.lax c = false: the property-satisfying detector)
     C43_detector_sound: for every configuration (set of >= 2 words, threshold >= 1) and EVERY input
       history, the observed trace passes the checker D.sound: whenever `detected` is high, the valid
       words received since the previous report (up to two cycles earlier) end with thr complete,
       back-to-back, well-formed sets -- cycles with sink.valid = 0 are skipped (idle gaps allowed),
       any other valid word in between breaks the run -- and the three config outputs are the bits of
       word 1 of the last of these sets.  So: never a report on other data, each set used for at
       most one report.
     C43_tail_ok_meaning: what D.tail_ok says word by word.
     C43_detector_complete: if, in sync (waiting for a first word, count 0 -- e.g. one cycle after
       reset, C43_detector_sync_after_reset), exactly thr well-formed sets arrive back to back with
       arbitrary idle gaps, `detected` is low during the burst and pulses for exactly one cycle, two
       cycles after the burst's last word.
     C43_detector_lax_refuted: keeping the count over other valid data while waiting for a first
       word (the code in /repo) fails the checker.
   Emitter
     C43_emitter_refines: for every configuration (L, burst length >= 1) and every start/ready/
       request history, the FSM model equals the one-counter specification machine: word number p of
       the plan 0..L-1, 0..L-1, ... (burst-length times) is offered until taken; done accompanies
       the acceptance of the last word; idle otherwise.
     C43_emitter_taken: from idle, the k-th word taken by the sink is plan word k mod (T*L): bursts
       are never cut short, extended, reordered or repeated.
     C43_emitter_plan / C43_emitter_word: the plan's p-th entry, and the fields of the output word
       (data incl. requested config bits in word 1, ctrl, first, last, done).                    *)
From Coq Require Import NArith List Bool Arith Lia. Import ListNotations.
From LunaLib Require Import Netlist Machine.
From LunaModel Require Import TsDet TsDet_proofs TsEmit TsEmit_proofs.
Open Scope N_scope.
Module D := TsDet. Module DP := TsDet_proofs. Module E := TsEmit. Module EP := TsEmit_proofs.

Theorem C43_detector_sound : forall c, (2 <= D.set_len c)%nat -> D.lax c = false -> (1 <= D.thr c)%nat ->
  forall ins, D.sound c [] None (combine ins (run (D.ts_step c) D.ts_init ins)) = true.
Proof. exact DP.ts_sound. Qed.
Print Assumptions C43_detector_sound.

Theorem C43_tail_ok_meaning : forall c m ws, D.tail_ok c m ws = true ->
  forall d, (d < m)%nat -> exists w, nth_error ws d = Some w /\ D.word_ok c ((m - 1 - d) mod D.set_len c) w = true.
Proof. exact DP.tail_ok_nth. Qed.
Print Assumptions C43_tail_ok_meaning.

Theorem C43_detector_complete : forall c, (2 <= D.set_len c)%nat -> (1 <= D.thr c)%nat ->
  forall b st x y z, D.burst_of c (D.thr c) b -> D.det st = false -> D.fsm st = D.WAIT -> D.count st = O ->
  map D.o_detected (run (D.ts_step c) st (b ++ [x; y; z])) = repeat false (length b) ++ [false; true; false].
Proof. exact DP.ts_complete. Qed.
Print Assumptions C43_detector_complete.

Theorem C43_detector_sync_after_reset : forall c x, let st := fst (D.ts_step c D.ts_init x) in
  D.det st = false /\ D.fsm st = D.WAIT /\ D.count st = O.
Proof. exact DP.ts_after_reset. Qed.
Print Assumptions C43_detector_sync_after_reset.

Theorem C43_detector_lax_refuted :
  let c := {| D.set_data := DP.TS1; D.fctrl := 15; D.thr := 2; D.inc_cfg := false; D.lax := true |} in
  D.sound c [] None (combine DP.lax_witness (run (D.ts_step c) D.ts_init DP.lax_witness)) = false.
Proof. exact DP.ts_lax_refuted. Qed.
Print Assumptions C43_detector_lax_refuted.

Theorem C43_emitter_refines : forall c, (1 <= E.e_len c)%nat -> (1 <= E.e_total c)%nat ->
  forall ins, run (E.em_step c) E.em_init ins = run (E.sp_step c) None ins.
Proof. exact EP.em_refines. Qed.
Print Assumptions C43_emitter_refines.

Theorem C43_emitter_taken : forall c, (1 <= E.e_len c)%nat -> (1 <= E.e_total c)%nat ->
  forall ins, E.sp_taken c None ins =
    map (fun k => (k mod (E.e_total c * E.e_len c))%nat) (seq 0 (length (E.sp_taken c None ins))).
Proof. exact EP.sp_taken_from_idle. Qed.
Print Assumptions C43_emitter_taken.

Theorem C43_emitter_plan : forall c,
  length (E.burst_plan c) = (E.e_total c * E.e_len c)%nat /\
  forall s k, (k < E.e_len c)%nat -> (s < E.e_total c)%nat -> nth (s * E.e_len c + k) (E.burst_plan c) O = k.
Proof. intros c. split; [apply EP.plan_length | apply EP.plan_nth]. Qed.
Print Assumptions C43_emitter_plan.

Theorem C43_emitter_word : forall v d ct f l dn, d < 4294967296 -> ct < 16 ->
  let o := E.pack_out v d ct f l dn in
  E.o_valid o = v /\ E.o_data o = d /\ E.o_ctrl o = ct /\ E.o_first o = f /\ E.o_last o = l /\ E.o_done o = dn.
Proof. exact EP.pack_out_fields. Qed.
Print Assumptions C43_emitter_word.

(* ---- non-vacuity / concrete runs ---- *)
Definition TS2 : list N := [3166485692; 1162149888; 1162167621; 1162167621].
Definition ts2_cfg : D.ts_cfg := {| D.set_data := TS2; D.fctrl := 15; D.thr := 2; D.inc_cfg := true; D.lax := false |}.
Definition w_in (d ct : N) : N := 1 + 2 * d + N.shiftl ct 33.
(* one TS2 set whose link-configuration symbol requests hot reset (bit 0) and no scrambling (bit 3) *)
Definition ts2_set : list N := [w_in 3166485692 15; w_in (1162149888 + 256 + 2048) 0; w_in 1162167621 0; w_in 1162167621 0].

Example C43_detector_example :
  D.burst_of ts2_cfg 2 (ts2_set ++ (0 :: ts2_set) ++ []) /\
  map (fun o => (D.o_detected o, D.o_hot_reset o, D.o_loopback o, D.o_noscramble o))
      (run (D.ts_step ts2_cfg) D.ts_init (0 :: ts2_set ++ (0 :: ts2_set) ++ [0; 0; 0]))
  = repeat (false, false, false, false) 3 ++ repeat (false, true, false, true) 8 ++
    [(true, true, false, true); (false, true, false, true)].
Proof.
  split.
  - apply D.burst_cons; [|apply D.burst_cons; [|apply D.burst_nil]].
    + repeat (apply D.seg_word; [cbn; lia | reflexivity | reflexivity |]). apply D.seg_done.
    + apply D.seg_gap; [cbn; lia | reflexivity |].
      repeat (apply D.seg_word; [cbn; lia | reflexivity | reflexivity |]). apply D.seg_done.
  - vm_compute. reflexivity.
Qed.

(* emitter: TS2, bursts of 2 sets, hot reset requested (input bit 2); the sink stalls once *)
Definition ts2_em : E.em_cfg := {| E.e_set := TS2; E.e_fctrl := 15; E.e_total := 2; E.e_inc := true |}.
Example C43_emitter_example :
  map (fun o => (E.o_valid o, E.o_data o, E.o_ctrl o, E.o_first o, E.o_last o, E.o_done o))
      (run (E.em_step ts2_em) E.em_init [0; 7; 6; 4; 6; 6; 6; 6; 6; 6; 6; 6])
  = [(false, 0, 0, false, false, false);
     (false, 0, 0, false, false, false);
     (true, 3166485692, 15, true, false, false);
     (true, 1162149888 + 256, 0, false, false, false);
     (true, 1162149888 + 256, 0, false, false, false);
     (true, 1162167621, 0, false, false, false);
     (true, 1162167621, 0, false, true, false);
     (true, 3166485692, 15, true, false, false);
     (true, 1162149888 + 256, 0, false, false, false);
     (true, 1162167621, 0, false, false, false);
     (true, 1162167621, 0, false, true, true);
     (false, 0, 0, false, false, false)].
Proof. vm_compute. reflexivity. Qed.
