(* C04 -- USB2 handshakes are generated and detected exactly.
   Models and specifications: Model/Handshake.v (USBHandshakeGenerator, USBHandshakeDetector of
   luna/gateware/usb/usb2/packet.py).  One list element = one `usb` clock cycle.

   Generator.  gsp_step is the whole specification: idle (tx_valid = 0) until a request word arrives
   (gen_request: STALL over NAK over ACK if several strobes coincide); then tx_valid = 1 with
   tx_data = hs_byte h (PID nibble + complemented check nibble) in every cycle up to and including the
   first one with tx_ready -- the cycle in which the PHY takes the byte, so exactly one byte is handed
   over --, then idle again; request strobes while not idle are ignored.  tx_data while tx_valid = 0 is
   not specified (gen_mask).

   Detector.  dsp_step is the whole specification: packets are maximal rx_active runs, their bytes are
   the rx_valid cycles of the run after its first cycle; in the cycle after rx_active falls the strobe
   word is hs_strobe b if the packet was exactly [b], else 0.  No environment assumption on
   rx_active/rx_valid/rx_data. *)
From Coq Require Import NArith List Bool. Import ListNotations.
From LunaLib Require Import Netlist Machine.
From LunaModel Require Import Handshake Handshake_proofs.
Open Scope N_scope.

Theorem C04_generator_exact : forall tr,
  map gen_mask (run gen_step gen_init tr) = run gsp_step gsp_init tr.
Proof. exact gen_from_reset. Qed.
Print Assumptions C04_generator_exact.

Theorem C04_detector_exact : forall tr,
  run det_step det_init tr = run dsp_step dsp_init tr.
Proof. exact det_from_reset. Qed.
Print Assumptions C04_detector_exact.

(* packet-level reading: the sequence of raised strobe words is the sequence of handshake packets
   among the received packets (one strobe word per such packet, nothing else) *)
Theorem C04_detector_events : forall tr x,
  filter nonzero (run det_step det_init (tr ++ [x]))
  = filter nonzero (map pkt_strobe (packets_from None tr)).
Proof. exact det_events. Qed.
Print Assumptions C04_detector_events.

(* a one-byte packet [b] raises the strobe of handshake h iff b is h's PID with the correct check
   nibble; any other byte raises nothing *)
Theorem C04_strobe_iff_handshake : forall b, b < 256 ->
  (forall h, hs_strobe b = hs_bit h <-> b = hs_byte h) /\
  (hs_strobe b = 0 <-> forall h, b <> hs_byte h).
Proof. intros b Hb. split; [apply hs_strobe_spec | apply hs_strobe_zero]; exact Hb. Qed.
Print Assumptions C04_strobe_iff_handshake.

Example C04_bytes : hs_byte ACK = 0xD2 /\ hs_byte NAK = 0x5A /\ hs_byte STALL = 0x1E /\ hs_byte NYET = 0x96.
Proof. repeat split. Qed.

(* generator runs; input word = ack + 2 nak + 4 stall + 8 tx_ready, output = tx_valid + 2 tx_data *)
Example C04_gen_ack_backpressure :   (* ACK requested in cycle 0, PHY ready in cycle 3 *)
  map gen_mask (run gen_step gen_init [1; 0; 0; 8; 0]) = [0; 1 + 2 * 0xD2; 1 + 2 * 0xD2; 1 + 2 * 0xD2; 0].
Proof. reflexivity. Qed.
Example C04_gen_busy_request_ignored :   (* NAK requested while the ACK is still being offered *)
  map gen_mask (run gen_step gen_init [1; 2; 8; 0; 0]) = [0; 1 + 2 * 0xD2; 1 + 2 * 0xD2; 0; 0].
Proof. reflexivity. Qed.
Example C04_gen_priority :
  map gen_mask (run gen_step gen_init [7; 8; 0]) = [0; 1 + 2 * 0x1E; 0].
Proof. reflexivity. Qed.

(* detector runs; input word = rx_active + 2 rx_valid + 4 rx_data, output = ack + 2 nak + 4 stall + 8 nyet *)
Example C04_det_ack :
  run det_step det_init [0; 1; 3 + 4 * 0xD2; 0; 0; 0] = [0; 0; 0; 0; 1; 0].
Proof. reflexivity. Qed.
Example C04_det_two_bytes : run det_step det_init [1; 3 + 4 * 0xD2; 3 + 4 * 0xD2; 0; 0] = [0; 0; 0; 0; 0].
Proof. reflexivity. Qed.
Example C04_det_bad_check : run det_step det_init [1; 3 + 4 * 0xC2; 0; 0] = [0; 0; 0; 0].
Proof. reflexivity. Qed.
Example C04_det_packets :
  packets_from None [1; 3 + 4 * 0x5A; 1; 0; 1; 3 + 4 * 0x2D; 3 + 4 * 7; 0] = [[0x5A]; [0x2D; 7]].
Proof. reflexivity. Qed.
