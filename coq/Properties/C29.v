(* C29 -- Multi-byte IN endpoints serialise words little-endian with correct framing.
   Everything is parametric in the byte width bw >= 1 and holds for every history of word values,
   first/last flags, word.valid gaps and byte-endpoint ready patterns, of any length.

   Reading guide (definitions in Model/MultiIn.v):
     ser_word bw w f l   the little-endian serialisation of a word: byte j = bits 8j..8j+7 of w,
                         first on byte 0 only, last on byte bw-1 only
     ms_step             specification machine: state = queue of the bytes of the current word not yet taken
                         by the inner byte endpoint (or idle); word.ready <=> idle or the final byte is being
                         taken in this very cycle
     mi_step             code-shaped model of the FSM in USBMultibyteStreamInEndpoint.elaborate
                         (shift register, latched first/last, bytes_to_send counter)
     ms_cycles           the specification's run as (state, inputs, outputs) per cycle
     word_taken c        the serialisation of the word accepted in cycle c (word.valid & word.ready), else []
     byte_taken c        the byte handed to the inner endpoint in cycle c (byte.valid & byte.ready) with the
                         first/last flags shown in that cycle, else []
     pending s           bytes of the current word still to be sent in state s. *)
From Coq Require Import NArith List Bool. Import ListNotations.
From LunaLib Require Import Netlist Machine.
From LunaModel Require Import MultiIn MultiIn_proofs.
Open Scope N_scope.

(* (1) the code-shaped model produces exactly the specification machine's outputs, from reset, for ever *)
Theorem C29_serialiser_refines : forall bw, (1 <= bw)%nat -> forall tr,
  run (mi_step bw) mi_init tr = run (ms_step bw) ms_init tr.
Proof. exact mi_from_reset. Qed.
Print Assumptions C29_serialiser_refines.

(* (2) exactly once, in order, with framing: after any history, the bytes taken by the inner endpoint
       followed by the bytes still pending are exactly the concatenated serialisations of the words accepted;
       and never more than one word (bw bytes) is pending -- words are accepted only as fast as the byte
       endpoint takes them *)
Theorem C29_bytes_are_serialised_words : forall bw tr,
  flat_map (word_taken bw) (ms_cycles bw ms_init tr) =
    flat_map (byte_taken bw) (ms_cycles bw ms_init tr) ++ pending (run_state (ms_step bw) ms_init tr) /\
  (length (pending (run_state (ms_step bw) ms_init tr)) <= bw)%nat.
Proof. exact ms_from_reset. Qed.
Print Assumptions C29_bytes_are_serialised_words.

(* (3) the serialisation is little-endian: its bytes are the base-256 digits of the word, least significant first *)
Theorem C29_little_endian : forall bw w f l, w < 2 ^ (8 * N.of_nat bw) ->
  le_value (map y_byte (ser_word bw w f l)) = w.
Proof. exact ser_word_le. Qed.
Print Assumptions C29_little_endian.

(* (4) framing: first on the first byte only, last on the final byte only *)
Theorem C29_flags : forall bw w f l j, (j < bw)%nat ->
  y_first (nth j (ser_word bw w f l) {| y_byte := 0; y_first := false; y_last := false |}) = f && Nat.eqb j 0 /\
  y_last (nth j (ser_word bw w f l) {| y_byte := 0; y_first := false; y_last := false |}) = l && Nat.eqb (S j) bw.
Proof. exact ser_word_flags. Qed.
Print Assumptions C29_flags.

(* the packed run of the specification is the packing of its structured run *)
Theorem C29_run_is_cycles : forall bw tr s,
  run (ms_step bw) s tr = map (fun c => mi_pack (snd c)) (ms_cycles bw s tr).
Proof. exact ms_run_cycles. Qed.
Print Assumptions C29_run_is_cycles.

(* ---- sanity / non-vacuity: bw = 2.  input = valid + 2 first + 4 last + 8 payload + 2^19 ready;
        output = word.ready + 2 byte.valid + 4 byte.first + 8 byte.last + 16 byte.payload.
   cycle 0: word 0xBEEF, first and last set, offered while idle              -> accepted (word.ready), nothing on the byte side
   cycle 1: byte endpoint not ready                                          -> 0xEF presented (valid), no flags shown, word not ready
   cycle 2: ready                                                            -> 0xEF taken with first
   cycle 3: ready, next word 0x1234 (no flags) offered                       -> 0xBE taken with last; word.ready: 0x1234 accepted
   cycle 4: ready                                                            -> 0x34 taken
   cycle 5: ready                                                            -> 0x12 taken, word.ready (nothing offered) -> idle *)
Definition ex_in (v f l : N) (p : N) (r : N) : N := v + 2 * f + 4 * l + 8 * p + 524288 * r.
Definition ex_trace : list N :=
  [ex_in 1 1 1 48879 0; ex_in 0 0 0 0 0; ex_in 0 0 0 0 1; ex_in 1 0 0 4660 1; ex_in 0 0 0 0 1; ex_in 0 0 0 0 1; 0].
Example C29_example_run :
  run (ms_step 2) ms_init ex_trace =
    [1; 2 + 16 * 239; 2 + 4 + 16 * 239; 1 + 2 + 8 + 16 * 190; 2 + 16 * 52; 1 + 2 + 16 * 18; 1 + 16 * 18].
Proof. vm_compute. reflexivity. Qed.

Example C29_example_bytes :
  flat_map (byte_taken 2) (ms_cycles 2 ms_init ex_trace) =
    [ {| y_byte := 239; y_first := true;  y_last := false |}; {| y_byte := 190; y_first := false; y_last := true |};
      {| y_byte := 52;  y_first := false; y_last := false |}; {| y_byte := 18;  y_first := false; y_last := false |} ]
  /\ flat_map (word_taken 2) (ms_cycles 2 ms_init ex_trace) = ser_word 2 48879 true true ++ ser_word 2 4660 false false.
Proof. vm_compute. split; reflexivity. Qed.
