(* C56 -- The ILA captures exactly the samples following a trigger.

   Specification machine (Model/Ila.v, section 1): it keeps the whole probe history; when idle a
   trigger starts a capture; while capturing (triggers ignored) it stores at index k the probe
   value `pre` cycles back, for k = 0 .. depth-1, then raises `complete`; a read request for
   sample n is answered one cycle later.

   Theorems, for EVERY sample depth >= 1, every counter width pw with depth <= 2^pw, every
   pre-trigger count, every sample value (hence every sample width) and every input history:
     C56_ila_refines        the code-shaped model (pipeline registers, registered write enable,
                            wrapping write counter, FSM) produces exactly the outputs of the
                            specification machine;
     C56_capture            from any idle state, a trigger cycle followed by `depth` cycles with
                            ARBITRARY inputs (so: arbitrary further triggers) leaves, for every
                            n < depth, sample n = the probe value `pre` cycles before body cycle n
                            (i.e. depth consecutive samples of the delayed input), the machine
                            idle with complete = 1; sampling = 1 and complete = 0 throughout;
     C56_idle_reads         while idle with no trigger the buffer does not change, complete stays
                            1 and each cycle shows the sample addressed in the previous cycle;
     C56_capture_readback   the three combined on the model's own output trace from reset.        *)
From Coq Require Import NArith List Bool Arith.
Import ListNotations.
From LunaModel Require Import Ila Ila_proofs.
Open Scope nat_scope.

Theorem C56_ila_refines : forall depth pw pre, 1 <= depth -> depth <= 2 ^ pw -> forall ins,
  ila_run depth pw pre (ila_init depth pre) ins = sp_run depth pre (sp_init depth) ins.
Proof. exact ila_from_reset. Qed.
Print Assumptions C56_ila_refines.

Theorem C56_capture : forall depth pre s i0 body, 1 <= depth ->
  sp_phase s = None -> ii_trigger i0 = true -> length body = depth -> length (sp_buf s) = depth ->
  let s' := sp_run_state depth pre s (i0 :: body) in
  sp_phase s' = None /\ sp_done s' = true /\ length (sp_buf s') = depth /\
  (forall n, n < depth ->
     nth n (sp_buf s') 0%N = nth pre (rev (map ii_probe (firstn (S n) body)) ++ ii_probe i0 :: sp_past s) 0%N) /\
  Forall (fun o => io_sampling o = true /\ io_complete o = false) (sp_run depth pre (sp_next depth pre s i0) body).
Proof. exact sp_capture. Qed.
Print Assumptions C56_capture.

Theorem C56_idle_reads : forall depth pre reads s, sp_phase s = None -> sp_done s = true ->
  Forall (fun r => ii_trigger r = false) reads ->
  sp_run depth pre s reads = expect_reads (sp_buf s) (sp_shown s) reads /\
  sp_buf (sp_run_state depth pre s reads) = sp_buf s /\ sp_phase (sp_run_state depth pre s reads) = None.
Proof. exact sp_idle_reads. Qed.
Print Assumptions C56_idle_reads.

Theorem C56_capture_readback : forall depth pw pre prefix i0 body reads,
  1 <= depth -> depth <= 2 ^ pw ->
  sp_phase (sp_run_state depth pre (sp_init depth) prefix) = None ->
  ii_trigger i0 = true -> length body = depth -> Forall (fun r => ii_trigger r = false) reads ->
  exists samples shown, length samples = depth /\
    (forall n, n < depth ->
       nth n samples 0%N = nth pre (rev (map ii_probe (firstn (S n) body)) ++ ii_probe i0 :: rev (map ii_probe prefix)) 0%N) /\
    skipn (length prefix + 1 + depth) (ila_run depth pw pre (ila_init depth pre) (prefix ++ i0 :: body ++ reads))
      = expect_reads samples shown reads /\
    Forall (fun o => io_sampling o = true /\ io_complete o = false)
      (firstn depth (skipn (length prefix + 1) (ila_run depth pw pre (ila_init depth pre) (prefix ++ i0 :: body ++ reads)))).
Proof. exact ila_capture_readback. Qed.
Print Assumptions C56_capture_readback.

(* ---- non-vacuity: depth 3, one pre-trigger sample, probe counts 10,11,12,... ----------------- *)
Definition cyc (t : bool) (p : N) (n : nat) := {| ii_trigger := t; ii_probe := p; ii_number := n |}.

(* trigger in cycle 1 (probe 11), a second trigger during capture is ignored; samples are the probe
   values of cycles 1,2,3 (one cycle of delay, so the trigger-cycle value is sample 0); then
   samples 0,1,2 are read back *)
Example C56_example :
  let ins := [cyc false 10 0; cyc true 11 0; cyc false 12 0; cyc true 13 0; cyc false 14 0;
              cyc false 15 0; cyc false 16 1; cyc false 17 2; cyc false 18 0] in
  map io_sampling (ila_run 3 2 1 (ila_init 3 1) ins) = [false; false; true; true; true; false; false; false; false] /\
  map io_complete (ila_run 3 2 1 (ila_init 3 1) ins) = [false; false; false; false; false; true; true; true; true] /\
  skipn 6 (map io_captured (ila_run 3 2 1 (ila_init 3 1) ins)) = [11; 12; 13]%N.
Proof. repeat split; reflexivity. Qed.

(* the hypotheses of C56_capture_readback are satisfiable (prefix of one idle cycle) *)
Example C56_hyps : sp_phase (sp_run_state 3 1 (sp_init 3) [cyc false 10 0]) = None.
Proof. reflexivity. Qed.
