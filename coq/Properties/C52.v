(* C52 -- The I2C initiator follows the I2C bus protocol.

   Model/I2cInit.v: i2c_step q stretch is the code-shaped model of I2CInitiator + I2CBusDriver
   (q = period_cyc // 4 >= 0 is the timer reload value, stretch = clk_stretch); its state exposes the
   initiator's open-drain outputs scl_o / sda_o (1 = released), the synchronised bus inputs scl_i / sda_i and
   the FSM position  Idle | Ph group step  (group: GStart GStop GWData GWAck GRData GRAck; step: SclL Sda1
   SclH Sda2).  The theorems below hold for every q, both clk_stretch settings and every input trace: all
   request sequences (also requests asserted while busy, several at once) and all SCL/SDA pad behaviours,
   including ones no physical open-drain bus can produce. *)
From Coq Require Import NArith List Bool. Import ListNotations.
From LunaLib Require Import Netlist Bits Machine.
From LunaModel Require Import I2cInit I2cInit_proofs.
Open Scope N_scope.

(* SDA discipline: in any reachable step in which the initiator's SDA output changes, either the initiator
   holds SCL low before and after the step (an Sda1 step), or it has SCL released before and after and the
   step is the falling SDA edge of a START sequence or the rising SDA edge of a STOP sequence. *)
Theorem C52_sda_discipline : forall q stretch tr i,
  let st := run_state (i2c_step q stretch) i2c_init tr in
  let st' := i2c_next q stretch st (i2c_decode i) in
  sda_o st' <> sda_o st ->
  (scl_o st = false /\ scl_o st' = false /\ exists g, fsm st = Ph g Sda1) \/
  (scl_o st = true /\ scl_o st' = true /\
     ((fsm st = Ph GStart Sda2 /\ sda_o st = true /\ sda_o st' = false) \/
      (fsm st = Ph GStop Sda2 /\ sda_o st = false /\ sda_o st' = true))).
Proof. exact sda_discipline. Qed.
Print Assumptions C52_sda_discipline.

(* ... and the START / STOP sequences are only entered by an accepted start / stop request: a group is
   entered from IDLE by its request (priority start > stop > write > read), the ACK groups from the eighth
   data bit. *)
Theorem C52_group_entry : forall q stretch st i g k, fsm (i2c_next q stretch st i) = Ph g k ->
  (exists k0, fsm st = Ph g k0) \/ (fsm st = Idle /\ requested g i) \/
  (g = GWAck /\ fsm st = Ph GWData Sda2 /\ bitno st = 7) \/ (g = GRAck /\ fsm st = Ph GRData Sda2 /\ bitno st = 7).
Proof. exact group_entry. Qed.
Print Assumptions C52_group_entry.

(* busy is low only while the FSM is in IDLE, where every request is accepted in the same cycle *)
Theorem C52_busy_low_only_idle : forall q stretch tr,
  let st := run_state (i2c_step q stretch) i2c_init tr in busy st = false -> fsm st = Idle.
Proof. exact busy_low_only_idle. Qed.
Print Assumptions C52_busy_low_only_idle.

Theorem C52_idle_accepts : forall q stretch st i, fsm st = Idle ->
  (in_start i || in_stop i || in_write i || in_read i) = true ->
  exists g k, fsm (i2c_next q stretch st i) = Ph g k /\ requested g i /\ busy (i2c_next q stretch st i) = true.
Proof. exact idle_accepts. Qed.
Print Assumptions C52_idle_accepts.

(* write: nine SCL pulses, data MSB first on the first eight, SDA released on the ninth, ack_o = not SDA
   sampled once *)
Theorem C52_write_correct : forall q stretch tr,
  let st := fst (grun q stretch i2c_init ghost0 tr) in
  let g := snd (grun q stretch i2c_init ghost0 tr) in
  fsm st = Idle -> g_op g = OpWrite ->
  length (g_data g) = 8%nat /\ g_rises g = g_data g ++ [true] /\
  exists s, g_samples g = [s] /\ ack_o st = negb s.
Proof. exact write_correct. Qed.
Print Assumptions C52_write_correct.

(* read: nine SCL pulses, SDA released on the first eight and driven to (not ack_i) on the ninth, eight
   samples, data_o = the samples, first sample in the most significant bit *)
Theorem C52_read_correct : forall q stretch tr,
  let st := fst (grun q stretch i2c_init ghost0 tr) in
  let g := snd (grun q stretch i2c_init ghost0 tr) in
  fsm st = Idle -> g_op g = OpRead ->
  length (g_samples g) = 8%nat /\ data_o st = g_samples g /\
  g_rises g = repeat true 8 ++ [negb (g_ack g)].
Proof. exact read_correct. Qed.
Print Assumptions C52_read_correct.

(* samples are taken with SCL released by the initiator and (clk_stretch) seen high; sampled values enter
   r_shreg / ack_o in no other step *)
Theorem C52_samples_scl_high : forall stretch st, samples_now stretch st = true ->
  scl_o st = true /\ (stretch = true -> scl_i st = true) /\ stb st = false.
Proof. exact samples_scl_high. Qed.
Print Assumptions C52_samples_scl_high.

Theorem C52_registers_change_only_by_sampling : forall q stretch st i,
  samples_now stretch st = false ->
  r_shreg (i2c_next q stretch st i) = r_shreg st /\ ack_o (i2c_next q stretch st i) = ack_o st.
Proof. exact registers_change_only_by_sampling. Qed.
Print Assumptions C52_registers_change_only_by_sampling.

(* clock stretching: with clk_stretch, while the initiator has SCL released and the line is held low, FSM
   state, timer, outputs and data registers do not move (for as long as the target likes) *)
Theorem C52_stretch_holds : forall q stretch tr st, stretch = true -> fsm st <> Idle -> busy st = true ->
  timer st <> 0 -> scl_o st = true -> scl_s0 st = false -> scl_i st = false ->
  Forall (fun i => in_scl (i2c_decode i) = false) tr ->
  ctrl_eq (run_state (i2c_step q stretch) st tr) st.
Proof. exact stretch_holds. Qed.
Print Assumptions C52_stretch_holds.

(* ---- a concrete run (non-vacuity): period_cyc = 4, clk_stretch; START, write 0xA5 (target stretches the
   clock once and acknowledges), read (target sends 0x3C, ack_i = 1), STOP; inputs recorded from a closed-loop
   run of the real module on Amaranth's simulator ---- *)
Definition ex_trace : list N :=
  [24576; 24577; 24576; 24576; 8192; 13476; 8192; 8192; 0; 0; 0; 0; 16384; 16384; 24576; 24576; 24576;
   24576; 24576; 24576; 16384; 16384; 16384; 16384; 0; 0; 8192; 8192; 8192; 8192; 8192; 8192; 0; 0; 0; 0;
   16384; 16384; 24576; 24576; 24576; 24576; 24576; 24576; 16384; 16384; 16384; 16384; 0; 0; 8192; 8192;
   8192; 8192; 8192; 8192; 0; 0; 0; 0; 0; 0; 8192; 8192; 8192; 8192; 8192; 8192; 0; 0; 0; 0; 16384; 16384;
   24576; 24576; 24576; 24576; 24576; 24576; 16384; 16384; 16384; 16384; 0; 0; 8192; 8192; 8192; 8192;
   8192; 8192; 0; 0; 0; 0; 16384; 16384; 24576; 24576; 24576; 24576; 24576; 24576; 0; 0; 0; 0; 0; 0; 8192;
   8192; 8192; 8192; 8192; 8216; 8192; 8192; 0; 0; 0; 0; 0; 0; 8192; 8192; 8192; 8192; 8192; 8192; 0; 0; 0;
   0; 0; 0; 8192; 8192; 8192; 8192; 8192; 8192; 16384; 16384; 16384; 16384; 16384; 16384; 24576; 24576;
   24576; 24576; 24576; 24576; 16384; 16384; 16384; 16384; 16384; 16384; 24576; 24576; 24576; 24576; 24576;
   24576; 16384; 16384; 16384; 16384; 16384; 16384; 24576; 24576; 24576; 24576; 24576; 24576; 16384; 16384;
   16384; 16384; 16384; 16384; 24576; 24576; 24576; 24576; 24576; 24576; 0; 0; 0; 0; 0; 0; 8192; 8192;
   8192; 8192; 8192; 8192; 0; 0; 0; 0; 0; 0; 8192; 8192; 8192; 8192; 8192; 8192; 16384; 16384; 16384;
   16384; 0; 0; 8192; 8192; 8192; 8192; 8192; 8194; 8192; 8192; 24576; 24576; 24576].

Example C52_example_write :
  let st := fst (grun 1 true i2c_init ghost0 (firstn 115 ex_trace)) in
  let g := snd (grun 1 true i2c_init ghost0 (firstn 115 ex_trace)) in
  fsm st = Idle /\ g_op g = OpWrite /\ g_data g = msb8 165 /\ g_rises g = msb8 165 ++ [true] /\
  g_samples g = [false] /\ ack_o st = true /\ busy st = false.
Proof. vm_compute. repeat split. Qed.

Example C52_example_read :
  let st := fst (grun 1 true i2c_init ghost0 (firstn 225 ex_trace)) in
  let g := snd (grun 1 true i2c_init ghost0 (firstn 225 ex_trace)) in
  fsm st = Idle /\ g_op g = OpRead /\ g_ack g = true /\ g_samples g = msb8 60 /\ of_msb (data_o st) = 60 /\
  g_rises g = repeat true 8 ++ [false].
Proof. vm_compute. repeat split. Qed.

Example C52_example_stop :
  let st := run_state (i2c_step 1 true) i2c_init ex_trace in
  fsm st = Idle /\ scl_o st = true /\ sda_o st = true /\ busy st = false.
Proof. vm_compute. repeat split. Qed.
