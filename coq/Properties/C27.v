(* C27 -- Constant-stream generators emit exactly the requested slice.

   Reading guide (definitions in Model/ConstGen.v and Model/Serializer.v):
     cg_cfg / cfg_okb    configuration of a ConstantStreamGenerator (ROM words, bytes per word, widths, ...)
                         and its well-formedness; cfg_of_bytes builds it from constant bytes, the way the
                         Python constructor does (byte- and word-wide payloads, little/big endian)
     answer c sp ml      the specified answer to a request "start at word sp, at most ml bytes": a list of
                         beats (payload, first, last, number of valid bytes), defined by `beats`
     sp_step             specification machine: idle until start with ml > 0; present the answer one beat at a
                         time, each held until stream.ready; pulse done; idle again.  Its outputs are the packed
                         ports valid|first|last|payload|done|output_length; the per-byte valid mask of a beat
                         with k valid bytes is N.ones k (or 1 for a 1-bit valid)
     sp_env              environment assumption: a request starts within the data (start_position < number of
                         words) and start_position is held while the request is answered
     cg_step             code-shaped model of ConstantStreamGenerator.elaborate (FSM, position, byte counter,
                         latched max_length, registered ROM read port)
     ser_step / ss_step  the same for StreamSerializer (data = runtime array; data, start_position and
                         max_length held during the request). *)
From Coq Require Import NArith List Bool. Import ListNotations.
From LunaLib Require Import Netlist Machine.
From LunaModel Require Import ConstGen ConstGen_proofs Serializer Serializer_proofs.
Open Scope N_scope.

(* (1) The generator model equals the specification machine, cycle by cycle, for every well-formed
       configuration, every request sequence (all start positions within the data, all limits incl. 0),
       and every stream.ready pattern, for traces of any length. *)
Theorem C27_generator_refines : forall c, cfg_okb c = true -> c_hasml c = true -> forall tr,
  env_ok sp_state (sp_step c) (sp_env c) sp_init tr = true ->
  run (cg_step c) (cg_init c) tr = run (sp_step c) sp_init tr.
Proof. exact cg_from_reset. Qed.
Print Assumptions C27_generator_refines.

(* (2) What the specified answer is, in closed form: the data from the start position onward, in order;
       min(limit, bytes there are) bytes in total; every word full except the final one; `last` exactly on
       the final word; `first` exactly on the first word. *)
Theorem C27_answer_is_requested_slice : forall c, cfg_okb c = true -> forall sp ml, sp < nwords c -> 0 < ml ->
  let a := answer c sp ml in
  map b_payload a = firstn (length a) (skipn (N.to_nat sp) (c_words c)) /\
  total_bytes a = N.min ml (c_dlen c - sp * c_bpw c) /\
  (exists init fin, a = init ++ [fin] /\
     Forall (fun b => b_last b = false /\ b_bytes b = c_bpw c) init /\
     b_last fin = true /\ 1 <= b_bytes fin /\ b_bytes fin <= c_bpw c) /\
  (exists b tl, a = b :: tl /\ b_first b = true /\ Forall (fun b => b_first b = false) tl).
Proof. exact answer_spec. Qed.
Print Assumptions C27_answer_is_requested_slice.

(* (2b) Byte-wide generators (all USB2 descriptors): the answer's payloads are literally the slice
        data[sp .. sp + min(ml, len - sp)), and the ROM words of such a generator are the constant's bytes. *)
Theorem C27_bytewide_answer_is_slice : forall c, cfg_okb c = true -> c_bpw c = 1 -> forall sp ml,
  sp < nwords c -> 0 < ml ->
  map b_payload (answer c sp ml) =
  firstn (N.to_nat (N.min ml (nwords c - sp))) (skipn (N.to_nat sp) (c_words c)).
Proof. exact answer_bytewide. Qed.
Print Assumptions C27_bytewide_answer_is_slice.

Theorem C27_bytewide_rom_is_data : forall data mlw, c_words (cfg_of_bytes data 1 false mlw) = data.
Proof. exact cfg_of_bytes_bytewide_words. Qed.
Print Assumptions C27_bytewide_rom_is_data.

(* (3) Nothing is emitted (and no done pulse) for a request whose length limit is zero. *)
Theorem C27_zero_limit_ignored : forall c ml0 i, i_ml c i = 0 ->
  sp_next c (SpIdle ml0) i = SpIdle 0 /\ sp_out c (SpIdle ml0) = pack_quiet c false ml0.
Proof. exact zero_limit_ignored. Qed.
Print Assumptions C27_zero_limit_ignored.

(* (4) The serializer variant: same specification (ConstGen.beats with one byte per word), data taken from
       the request. *)
Theorem C27_serializer_refines : forall n dw mlw posw, ser_okb n posw = true -> forall tr,
  env_ok ss_state (ss_step n dw mlw posw) (ss_env n dw mlw posw) SsIdle tr = true ->
  run (ser_step n dw mlw posw) ser_init tr = run (ss_step n dw mlw posw) SsIdle tr.
Proof. exact ser_from_reset. Qed.
Print Assumptions C27_serializer_refines.

(* ---- sanity / non-vacuity ---- *)
(* "HELLO WORLD" on a 32-bit stream with 4 valid bits, 16-bit max_length: the configuration is well-formed *)
Definition hello := cfg_of_bytes [72;69;76;76;79;32;87;79;82;76;68] 4 false (Some 16).
Example C27_hello_ok : cfg_okb hello = true /\ c_hasml hello = true /\ c_words hello = [1280066888; 1331109967; 4475986].
Proof. vm_compute. repeat split. Qed.

(* whole constant: HELL, O WO (full), RLD (3 bytes, last); limit 6: HELL, O WO with 2 bytes, last *)
Example C27_hello_answers :
  answer hello 0 1000 = [ {| b_payload := 1280066888; b_first := true;  b_last := false; b_bytes := 4 |};
                           {| b_payload := 1331109967; b_first := false; b_last := false; b_bytes := 4 |};
                           {| b_payload := 4475986;    b_first := false; b_last := true;  b_bytes := 3 |} ] /\
  answer hello 0 6 =    [ {| b_payload := 1280066888; b_first := true;  b_last := false; b_bytes := 4 |};
                           {| b_payload := 1331109967; b_first := false; b_last := true;  b_bytes := 2 |} ] /\
  answer hello 1 2 =    [ {| b_payload := 1331109967; b_first := true;  b_last := true;  b_bytes := 2 |} ].
Proof. vm_compute. repeat split. Qed.

(* a byte-wide generator for [17;34;51] with a 3-bit max_length:
   input word = start + 2*start_position + 8*max_length + 64*ready.
   idle; start at position 1 with limit 7 (not ready); word 34 held while not ready; accepted; word 51 (last); done. *)
Definition small := cfg_of_bytes [17;34;51] 1 false (Some 3).
Definition small_trace : list N := [0; 1+2*1+8*7; 2*1+8*7; 2*1+8*7+64; 2*1+8*7+64; 2*1; 0].
Example C27_small_run :
  cfg_okb small = true /\
  env_ok sp_state (sp_step small) (sp_env small) sp_init small_trace = true /\
  run (sp_step small) sp_init small_trace =
    (* valid + 2*first + 4*last + 8*payload + 2048*done + 4096*output_length *)
    [0; 0; 1+2+8*34+4096*3; 1+2+8*34+4096*3; 1+4+8*51+4096*3; 2048+4096*3; 4096*3].
Proof. vm_compute. repeat split. Qed.
