(* C53 -- HyperRAM transactions use the correct command and never contend the bus.

   Model/HyperRam.v holds (a) hr_step L lw: the code-shaped model of HyperRAMInterface (nine FSM states,
   latched request, wrapping latency counter of width lw loaded with L, registered PHY outputs) and
   (b) hb_step L: the HyperBus transaction specification -- the controller's phase
       PIdle | PCommand k | PLatency n | PRead | PWrite | PRecover
   and what it puts on the bus in each cycle
       Deselect | Setup | Listen | Drive w | DriveMasked w.

   C53_hyperram_refines says the two are output-equal on every input trace (dq.o compared only while
   driven).  The remaining theorems spell out what the specification machine guarantees, for all states
   and inputs, in the terms of the property text. *)
From Coq Require Import NArith List Bool. Import ListNotations.
From LunaLib Require Import Netlist Machine.
From LunaModel Require Import HyperRam HyperRam_proofs.
Open Scope N_scope.

(* model = specification, every latency, every trace *)
Theorem C53_hyperram_refines : forall L lw, L < 2 ^ lw -> forall tr,
  map hr_norm (run (hr_step L lw) hr_init tr) = run (hb_step L) hb_init tr.
Proof. exact hyperram_refines. Qed.
Print Assumptions C53_hyperram_refines.

(* command phase: two Setup cycles, then CA[47:32], CA[31:16], CA[15:0]; chip select held; the
   latched request is the one presented with start_transfer; then write phase (register write, zero
   latency) or latency count L *)
Theorem C53_command_phase : forall L s i0 i1 i2 i3 i4,
  ph s = PIdle -> i_start (hr_decode i0) = true ->
  let d := hr_decode i0 in
  let ca := hb_ca (negb (i_write d)) (i_reg d) (negb (i_single d)) (i_addr d) in
  let s' := run_state (hb_step L) s [i0; i1; i2; i3; i4] in
  tl (run (hb_step L) s [i0; i1; i2; i3; i4])
    = [hb_quiet Setup; hb_quiet Setup; hb_quiet (Drive (hb_ca_word ca 0)); hb_quiet (Drive (hb_ca_word ca 1))]
  /\ bus s' = Drive (hb_ca_word ca 2)
  /\ ph s' = (if i_reg d && i_write d then PWrite else PLatency L)
  /\ c_read s' = negb (i_write d) /\ c_reg s' = i_reg d /\ c_linear s' = negb (i_single d) /\ c_addr s' = i_addr d.
Proof. exact hb_command_phase. Qed.
Print Assumptions C53_command_phase.

(* the three command-address words in terms of the request *)
Theorem C53_ca_words : forall rd rg li a, a < 2^32 ->
  let ca := hb_ca rd rg li a in
  hb_ca_word ca 0 = b2n rd * 2^15 + b2n rg * 2^14 + b2n li * 2^13 + a / 2^19 /\
  hb_ca_word ca 1 = (a / 8) mod 2^16 /\
  hb_ca_word ca 2 = a mod 8.
Proof. exact hb_ca_words. Qed.
Print Assumptions C53_ca_words.

(* latency: the handed-over cycle, then n released cycles, and the data phase starts with the bus still
   released -- n+1 released cycles in total between CA[15:0] and the first data cycle *)
Theorem C53_latency_phase : forall L n s tr,
  ph s = PLatency (N.of_nat n) -> length tr = S n ->
  let s' := run_state (hb_step L) s tr in
  run (hb_step L) s tr = hb_quiet (bus s) :: repeat (hb_quiet Listen) n
  /\ ph s' = (if c_read s then PRead else PWrite) /\ bus s' = Listen
  /\ c_read s' = c_read s /\ c_reg s' = c_reg s /\ c_linear s' = c_linear s /\ c_addr s' = c_addr s.
Proof. exact hb_latency_phase. Qed.
Print Assumptions C53_latency_phase.

(* bus ownership *)
Theorem C53_bus_released : forall L s d,
  (drives_dq (bus (hb_next L s d)) = true -> (exists k, ph s = PCommand k /\ k <> 0) \/ ph s = PWrite) /\
  (drives_rwds (bus (hb_next L s d)) = true -> ph s = PWrite /\ c_reg s = false) /\
  (selected (bus (hb_next L s d)) = false -> (ph s = PIdle /\ i_start d = false) \/ ph s = PRecover).
Proof. exact hb_bus_released. Qed.
Print Assumptions C53_bus_released.

(* the read phase is only entered by read requests, the write phase only by write requests *)
Theorem C53_data_phase_matches_command : forall L tr,
  match ph (run_state (hb_step L) hb_init tr) with
  | PRead => c_read (run_state (hb_step L) hb_init tr) = true
  | PWrite => c_read (run_state (hb_step L) hb_init tr) = false
  | _ => True
  end.
Proof. exact hb_data_phase_matches_command. Qed.
Print Assumptions C53_data_phase_matches_command.

(* ---- concrete runs (non-vacuity): the two transactions of tests/test_psram.py ---- *)
(* register write of 0xBEEF to 0x00BBCCDD: CA words 0x6017 0x799B 0x0005, data right after, no RWDS *)
Example C53_example_register_write :
  let req := hr_mk_in 12307677 true true false true true 48879 0 1 in
  let nop := hr_mk_in 0 false false false false false 48879 0 1 in
  map (fun o => (bits o 21 1, bits o 17 1, bits o 20 1, bits o 1 16))     (* cs, dq_e, rwds_e, dq_o *)
      (run (hb_step 12) hb_init [req; nop; nop; nop; nop; nop; nop; nop; nop])
  = [(0,0,0,0); (1,0,0,0); (1,0,0,0); (1,1,0,24599); (1,1,0,31131); (1,1,0,5); (1,1,0,48879); (0,0,0,0); (0,0,0,0)].
Proof. vm_compute. reflexivity. Qed.

(* register read: after CA the bus is released for 13 cycles of latency plus the read phase; one framed
   word with final_word ends the transaction; chip select drops two cycles later *)
Example C53_example_register_read :
  let req := hr_mk_in 12307677 true false false true true 0 0 1 in
  let nop := hr_mk_in 0 false false false false true 0 0 0 in
  let dat := hr_mk_in 0 false false false false true 0 51966 2 in
  map (fun o => (bits o 21 1, bits o 17 1, bits o 20 1, bits o 24 1, bits o 26 16))  (* cs, dq_e, rwds_e, read_ready, read_data *)
      (run (hb_step 12) hb_init ([req] ++ repeat nop 18 ++ [dat; nop; nop; nop]))
  = [(0,0,0,0,0); (1,0,0,0,0); (1,0,0,0,0); (1,1,0,0,0); (1,1,0,0,0); (1,1,0,0,0)]
    ++ repeat (1,0,0,0,0) 13 ++ [(1,0,0,1,51966); (1,0,0,0,0); (0,0,0,0,0); (0,0,0,0,0)].
Proof. vm_compute. reflexivity. Qed.

(* the same input on the code-shaped model, latency register 4 bits wide *)
Example C53_example_model_agrees :
  let req := hr_mk_in 12307677 true false false true true 0 0 1 in
  let nop := hr_mk_in 0 false false false false true 0 0 0 in
  let dat := hr_mk_in 0 false false false false true 0 51966 2 in
  map hr_norm (run (hr_step 12 4) hr_init ([req] ++ repeat nop 18 ++ [dat; nop; nop; nop]))
  = run (hb_step 12) hb_init ([req] ++ repeat nop 18 ++ [dat; nop; nop; nop]).
Proof. vm_compute. reflexivity. Qed.
