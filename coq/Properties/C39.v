(* C39 -- Header transmission respects credits and retransmits unacknowledged headers.

   Model/PktTx.v holds the SPECIFICATION tp_mon (an abstract machine over the LIST of unacknowledged headers) and the
   code-shaped MODEL ptx_step of PacketTransmitter's bookkeeping (luna/gateware/usb/usb3/link/transmitter.py).
   How to read "tp_accepts ... = true": in every cycle, as long as the link goes down (enable low) only while the
   transmitter is quiescent (raw transmitter idle, every accepted header transmitted, no LBAD backlog) and the partner
   keeps its side (never more credits than it has buffers; it acknowledges only headers transmitted since its last LBAD),
     - a cycle with the link down forgets the session: bring-up, credits, credit index, the unacknowledged headers and
       retry mode start afresh; the partner must advertise again, and an LBAD in the new session retransmits only
       headers of the new session;
     - queue.ready is high exactly after bring-up while an advertised credit is unused; an LCRD adds a credit only if
       it carries the next index A, B, C, D, ... (else recovery_required); taking a header uses one;
     - the k-th header taken after the partner's advertisement LGOOD a gets sequence number a + 1 + k (stamped into
       the stored copy, whatever the protocol layer put there);
     - an LGOOD retires the OLDEST unacknowledged header, and only if it carries that header's sequence number;
       every other LGOOD after bring-up -- including one that arrives while nothing is outstanding -- raises
       recovery_required and retires nothing;
     - a transmission (the raw transmitter latches a header) always presents the next not-yet-sent unacknowledged
       header, in order; after an LBAD the send position returns to the oldest unacknowledged header, every
       transmission started from then on carries DL until that backlog is drained (headers accepted meanwhile
       included), and a transmission that was already on its way when the LBAD arrived does not count;
     - packets_to_send / credits_available report exactly the unsent backlog / the unused credits.
   The model is the property-satisfying behaviour; the gateware as found differs in four corner cases
   (findings/C39-*.json, findings/C39-retry-bookkeeping-corner-cases.diff). *)
From Coq Require Import NArith List Bool.
Import ListNotations.
From LunaLib Require Import Netlist Machine.
From LunaModel Require Import Crc HdrRx PktTx PktTx_proofs.
Open Scope N_scope.

(* for every partner buffer count n = 2^pw, counter width cw with n < 2^cw, sequence width sw <= 3 (the header field
   has three bits), every credit timeout T / timer width tw, every position sp / dp of the sequence-number and delayed
   fields, and every input trace: partner command events in any order, header-queue timing, raw transmitter latency *)
Theorem C39_bookkeeping_meets_spec : forall n pw cw sw T tw sp dp, n = 2 ^ pw -> n < 2 ^ cw -> sw <= 3 ->
  forall ins : list pin,
  tp_accepts n sw sp dp tp_init (ptx_ios n pw cw sw T tw sp dp (ptx_init n sw) ins) = true.
Proof. intros. eapply ptx_meets_spec; eassumption. Qed.
Print Assumptions C39_bookkeeping_meets_spec.

(* ---- non-vacuity: two buffers, 2-bit sequence numbers, header = (payload bit, sequence number [1..3], delayed [4]).
   Advertisement LGOOD 3, LCRD A, LCRD B, two headers taken and sent (sequence numbers 0 and 1), an LBAD, both
   retransmitted with DL in order, then acknowledged.  The partner keeps its rules in every cycle. *)
Definition ev (qv : bool) (h : N) (new : bool) (cmd sub : N) (fin : bool) : pin :=
  {| p_en := true; p_qvalid := qv; p_qhdr := h; p_lrty := false; p_new := new; p_cmd := cmd; p_sub := sub; p_finish := fin |}.
Definition idle := ev false 0 false 0 0 false.
Definition fin1 := ev false 0 false 0 0 true.
Definition ex39 : list pin :=
  [ev false 0 true LGOOD 3 false; ev false 0 true LCRD 0 false; ev false 0 true LCRD 1 false;
   ev true 1 false 0 0 false; ev true 0 false 0 0 false; idle; idle; fin1; idle; idle; fin1;
   ev false 0 true LBAD 0 false; idle; idle; fin1; idle; fin1; idle;
   ev false 0 true LGOOD 0 false; ev false 0 true LGOOD 1 false; idle].
Fixpoint tp_env_all (n sw sp dp : N) (g : tp_state) (ios : list (pin * pout)) : bool :=
  match ios with
  | [] => true
  | (i, o) :: t => match tp_mon n sw sp dp g i o with None => false | Some (g', ok) => ok && tp_env_all n sw sp dp g' t end
  end.
Definition ex39_ios := ptx_ios 2 1 2 2 6 3 1 4 (ptx_init 2 2) ex39.
Example C39_example :
  tp_env_all 2 2 1 4 tp_init ex39_ios = true /\
  (* headers latched by the raw transmitter: payload 1 / seq 0, payload 0 / seq 1, then both again with DL (bit 4) *)
  flat_map (fun io => if q_start (snd io) then [q_hdr (snd io)] else []) ex39_ios = [1; 2; 17; 18] /\
  map (fun io => q_tosend (snd io)) ex39_ios = [0; 0; 0; 0; 1; 2; 2; 2; 1; 1; 1; 0; 2; 2; 2; 1; 1; 0; 0; 0; 0].
Proof. vm_compute. repeat split. Qed.
