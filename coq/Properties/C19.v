(* C19 -- USB2 reset, high-speed handshake and suspend follow the line-state timing rules.

   Statements about the model of USBResetSequencer (Model/ResetSeq.v), for EVERY choice of the six cycle
   constants (with the stated orderings), every input history (line states, VBUS, soft disconnect, speed
   restrictions, bus_busy) of any length.  `always R [] l` says: rule R holds in every cycle of the run l, given
   all the cycles before it (most recent first).  The rules (Model/ResetSeq.v, Section Spec):

   rule_reset     bus_reset => VBUS absent, or SE0 for the last c_2p5us cycles (while suspended) / c_5us cycles
                  (active, not suspended), or -- coming from HS -- c_3ms cycles of SE0 in HS operation, then a
                  line state other than J c_200us+1 cycles after reverting to FS;
   rule_suspend   suspended rises only after c_3ms cycles of continuous idle (idle relative to current_speed; from
                  HS: c_3ms cycles of HS idle, then J c_200us+1 cycles later);
   rule_hs_entry  HS operation (speed HIGH, normal op-mode, HS termination) begins only when the history contains a
                  bus reset reported while unrestricted, followed without leaving chirp mode by the device's chirp
                  K and then six line states K,J,K,J,K,J each >= c_2p5us cycles (hsk 6), or on a resume from a
                  suspend that was entered from HS operation (sfh);
   rule_start     chirp mode (the handshake) begins only two cycles after a bus_reset reported while neither
                  low_speed_only nor full_speed_only was set;
   rule_leave     HS operation and a speed restriction in cycle t => no HS operation in cycle t+2;
   rule_exit      chirp mode ends either in HS operation or in FS/LS operation (FS/LS transceiver, pull-up);
   rule_timeout   chirp mode lasts at most c_2p5ms + 2 cycles after the end of the device chirp.

   The code in /repo violates rule_start, rule_hs_entry and rule_timeout (findings/C19-*.diff); the model is the
   repaired behaviour and is tied to the netlist by props/C19.py. *)
From Coq Require Import NArith List Bool Lia. Import ListNotations.
From LunaLib Require Import Machine.
From LunaModel Require Import ResetSeq ResetSeq_proofs.
Open Scope N_scope.

Theorem C19_rules : forall K, c_200us K <= c_3ms K -> c_2p5ms K <= c_3ms K ->
  forall ins, always (rule_all K) [] (rs_trace K rs_init ins).
Proof. exact rs_all. Qed.
Print Assumptions C19_rules.

(* all rules except the time-out bound need only c_200us <= c_3ms *)
Theorem C19_safety_rules : forall K, c_200us K <= c_3ms K ->
  forall ins, always (rule_safe K) [] (rs_trace K rs_init ins).
Proof. exact rs_safe. Qed.
Print Assumptions C19_safety_rules.

(* the constants of the 60 MHz design *)
Theorem C19_rules_60MHz : forall ins, always (rule_all K_60MHz) [] (rs_trace K_60MHz rs_init ins).
Proof. apply rs_all; vm_compute; discriminate. Qed.
Print Assumptions C19_rules_60MHz.

(* the packed machine used in the lock-step ties is the typed run, cycle by cycle *)
Theorem C19_packed_run : forall K tr,
  run (rs_step K) rs_init tr = map (fun c => pack_out (c_out c)) (rs_trace K rs_init (map decode_in tr)).
Proof. intros. apply rs_run_trace. Qed.
Print Assumptions C19_packed_run.

(* the runtime oracle evaluated by the check over simulator traces is sound for the rules *)
Theorem C19_oracle_sound : forall K past c, rule_all_b K past c = true -> rule_all K past c.
Proof. exact rule_all_b_sound. Qed.
Print Assumptions C19_oracle_sound.

(* the specification table: cycle counts at 60 MHz (60 cycles per microsecond) *)
Example C19_table_60MHz :
  2 * c_2p5us K_60MHz = 5 * 60 /\ c_5us K_60MHz = 5 * 60 /\ c_200us K_60MHz = 200 * 60
  /\ c_2ms K_60MHz = 2000 * 60 /\ 2 * c_2p5ms K_60MHz = 5000 * 60 /\ c_3ms K_60MHz = 3000 * 60.
Proof. vm_compute. repeat split. Qed.

(* non-vacuity: with constants (2,3,2,3,30,40) a 5-cycle SE0 gives a bus reset, the device chirps, three K-J
   pairs of 4 cycles each bring it to HS operation (output word 0), 41 cycles of SE0 and a J make it suspend
   (words 70), a K resumes it into HS operation.
   output word = bus_reset + 2 suspended + 4 speed + 16 op_mode + 64 termination + 128 tx_valid *)
Definition C19_Ks : rs_consts :=
  {| c_2p5us := 2; c_5us := 3; c_200us := 2; c_2ms := 3; c_2p5ms := 30; c_3ms := 40 |}.
Definition C19_inp (l : line_t) : rs_in :=
  {| i_ls := false; i_fs := false; i_busy := false; i_vbus := true; i_line := l; i_disc := false |}.
Definition C19_rep (n : nat) (l : line_t) := repeat (C19_inp l) n.
Example C19_example :
  map (fun c => pack_out (c_out c))
      (rs_trace C19_Ks rs_init
         (C19_rep 2 L_J ++ C19_rep 11 L_SE0
          ++ C19_rep 4 L_K ++ C19_rep 4 L_J ++ C19_rep 4 L_K ++ C19_rep 4 L_J ++ C19_rep 4 L_K ++ C19_rep 4 L_J
          ++ C19_rep 44 L_SE0 ++ C19_rep 2 L_J ++ C19_rep 2 L_K ++ C19_rep 4 L_SE0))
  = [68; 68; 68; 68; 68; 69; 68; 96; 96; 224; 224] ++ repeat 96 27 ++ repeat 0 41
    ++ [68; 68; 68; 70; 70; 68; 0; 0; 0; 0].
Proof. vm_compute. reflexivity. Qed.

(* a single K followed by three J (two of them interrupted right when they become valid) does NOT reach HS in the
   model (the code in /repo does: finding D3) *)
Example C19_example_one_K_three_J :
  existsb (fun c => hs_op c)
      (rs_trace C19_Ks rs_init
         (C19_rep 2 L_J ++ C19_rep 10 L_SE0 ++ C19_rep 4 L_K
          ++ C19_rep 3 L_J ++ C19_rep 1 L_SE0 ++ C19_rep 3 L_J ++ C19_rep 1 L_SE0 ++ C19_rep 5 L_J
          ++ C19_rep 4 L_SE0)) = false.
Proof. vm_compute. reflexivity. Qed.
