(* C38 -- Link re-entry always re-advertises sequence number and credits.

   Same model and specification as C37 (Model/HdrRx.v).  The model holds the bookkeeping in its pre-advertisement
   ("fresh") state in every cycle in which enable is low or usb_reset is high -- this is the property-satisfying
   behaviour; the gateware as found in the tree only did so on a falling edge of enable seen in DISPATCH_COMMAND
   (findings/C38-*.json, findings/C38-*.diff).

   sp_fresh n sw e (Model/HdrRx.v) is the specification's state at link entry: empty queue, not ignoring, no LBAD
   owed, ONE LGOOD owed carrying e - 1 (the last received sequence number), n LCRDs owed starting at index A,
   advertisement not yet sent (until it is, no other command may complete). *)
From Coq Require Import NArith List Bool.
Import ListNotations.
From LunaLib Require Import Netlist Machine.
From LunaModel Require Import Crc HdrRx HdrRx_proofs HdrRxReentry HdrRxReentry_proofs.
Open Scope N_scope.

(* 1. crash points: from ANY state s of the bookkeeping (every dispatcher state, a link command half sent, LBAD /
      LRTY / keepalive pending, arbitrary counters and pointers), one cycle with the link down or in reset gives the
      fresh state; the expected sequence number is kept by a disable and zeroed by a USB reset *)
Theorem C38_restart_is_fresh : forall n pw cw sw down (s : core) (i : cin), restart i = true ->
  core_step n pw cw sw down s i =
  core_fresh n cw sw (if i_rst i then 0 else expd s) (bufs s)
             (if in_state s SEND_LXU && done s i then false else if i_rej i then true else lxu s).
Proof. exact restart_is_fresh. Qed.
Print Assumptions C38_restart_is_fresh.

(* 2. and every continuation -- all later inputs, including further disables and resets -- is accepted by the
      specification started afresh with that sequence number *)
Theorem C38_reentry_meets_spec : forall n pw cw sw down, n = 2 ^ pw -> n < 2 ^ cw -> pw <= 4 -> sw <= 4 ->
  forall (s : core) (i : cin) (ins : list cin),
  length (bufs s) = N.to_nat n -> expd s < 2 ^ sw -> restart i = true ->
  sp_accepts n sw down (sp_fresh n sw (seq_after s i))
             (core_ios n pw cw sw down (core_step n pw cw sw down s i) ins) = true.
Proof. exact reentry_meets_spec. Qed.
Print Assumptions C38_reentry_meets_spec.

(* 3. what "accepted by the specification started afresh" means for the first command on the source *)
Theorem C38_first_command_is_advertisement : forall down g i o cmd sub,
  s_adv g = false -> sp_check down g i o = true -> completed i o = Some (cmd, sub) ->
  cmd = LGOOD /\ sub = s_nextack g.
Proof. exact first_command_is_advertisement. Qed.
Print Assumptions C38_first_command_is_advertisement.

(* 4. the advertisement is really sent: LUNA's configuration, every dispatcher state x generator state x sequence
      number, disable and USB reset, then quiet cycles: exactly LGOOD (e - 1) [LGOOD 7 after a reset], LCRD A..D *)
Theorem C38_crash_point_sweep :
  forallb (fun f => forallb (fun g => forallb (fun e =>
     list_eqb_pairs (reentry_commands f g e false) (advertisement 4 3 e) &&
     list_eqb_pairs (reentry_commands f g e true) (advertisement 4 3 0))
   [0; 1; 2; 3; 4; 5; 6; 7]) all_gfsm) all_dfsm = true.
Proof. exact crash_point_sweep. Qed.
Print Assumptions C38_crash_point_sweep.

Example C38_example : reentry_commands SEND_LBAD G_HDR 3 false = [(LGOOD, 2); (LCRD, 0); (LCRD, 1); (LCRD, 2); (LCRD, 3)].
Proof. vm_compute. reflexivity. Qed.
