(* C51 -- the SPI register interface reads and writes exactly the addressed register.

   Model (Model/SpiReg.v): `r_step c`, the code-shaped machine of SPIRegisterInterface + SPICommandInterface for a
   configuration c = (address_size, register_size, addresses of the memory registers, read-only registers,
   default_read_value): six-state FSM, falling-edge detector on sck, bit counter, command and data shift registers,
   the registered sdo, the word_complete pipeline stage, and the register file with its write strobes.

   Host behaviour (Model/SpiReg_proofs.v): a transaction is
       select n0            chip select high, clock low, n0+1 cycles
       pulses cinit         address_size clock pulses (write flag first, then the address bits but the last) -- a pulse
                            (b, hi, lo) holds sdi = b with sck high for hi+1 cycles and then low for lo+1 cycles
       bit_pulse (bl, hil, 3+g)   the last command bit, followed by at least 4 low cycles (the interface spends three
                            cycles latching the command, decoding it and fetching the register value)
       pulses dinit ++ tail_part dl ...   register_size data pulses, the last one followed by lol more low cycles and
                            then chip select low for at least 2 cycles
   with arbitrary, independent durations of every clock phase.

   C51_transaction     after a complete transaction the register file is `reg_update`: for a write (flag = 1) exactly
                       the register whose address equals the transmitted address holds the transmitted word (first
                       bit = most significant), every other register and -- for a read -- all registers are unchanged;
                       the write strobe of a register is high in exactly one cycle of the transaction if it is the
                       one written and in none otherwise; the interface is back in IDLE.
   C51_read_back       by the falling edge that ends data pulse k, sdo shows bit k (MSB first) of the value the
                       addressed register had (read-only constant, memory register, or default_read_value for an
                       unassigned address).
   C51_abort_*         chip select released after any number of complete clock pulses short of the whole transaction:
                       no register changes, no strobe fires, the interface is back in IDLE.
   C51_no_write_unless_full   for ARBITRARY pin histories: while the interface is never in SHIFT_DATA with all
                       register_size bits counted, no register changes and no strobe fires. *)
From Coq Require Import NArith Arith List Bool. Import ListNotations.
From LunaLib Require Import Netlist Bits Machine.
From LunaModel Require Import SpiReg SpiReg_proofs.
Open Scope N_scope.

Theorem C51_transaction : forall c, (1 <= rsz c)%nat -> forall R, length R = length (rw c) ->
  forall a st n0 cinit bl hil g dinit dl hidl lol n1,
  IdleP R st -> length (ccmd st) = csz c -> length cinit = asz c -> S (length dinit) = rsz c ->
  let cmdv := map bit_of cinit ++ [bl] in
  let dat := map bit_of dinit ++ [dl] in
  let tr := head_part n0 cinit bl hil g ++ pulses dinit ++ tail_part dl hidl lol n1 in
  IdleP (reg_update c R cmdv dat) (run_state (r_step c) st tr) /\ strobes c a st tr = strobe_expected cmdv a.
Proof. exact txn_complete. Qed.
Print Assumptions C51_transaction.

Theorem C51_read_leaves_registers : forall c R cmdv dat, length R = length (rw c) -> hd false cmdv = false ->
  reg_update c R cmdv dat = R.
Proof. exact reg_update_read. Qed.
Print Assumptions C51_read_leaves_registers.

Theorem C51_read_back : forall c, (1 <= rsz c)%nat -> forall R, length R = length (rw c) ->
  forall st n0 cinit bl hil g dpre bk hik,
  IdleP R st -> length (ccmd st) = csz c -> length cinit = asz c -> (length dpre < rsz c)%nat ->
  let cmdv := map bit_of cinit ++ [bl] in
  sdo (run_state (r_step c) st (head_part n0 cinit bl hil g ++ pulses dpre ++ pulse_hi bk hik)) =
    nth (length dpre) (to_msb (rsz c) (read_value c (of_msb (tl cmdv)) R)) false.
Proof. exact txn_read_back. Qed.
Print Assumptions C51_read_back.

Theorem C51_abort_in_command : forall c, (1 <= rsz c)%nat -> forall R, length R = length (rw c) ->
  forall a st n0 cpre n1, IdleP R st -> (length cpre <= asz c)%nat ->
  let tr := select n0 ++ pulses cpre ++ deselect (S n1) in
  IdleP R (run_state (r_step c) st tr) /\ strobes c a st tr = 0%nat.
Proof. exact txn_abort_in_command. Qed.
Print Assumptions C51_abort_in_command.

Theorem C51_abort_in_data : forall c, (1 <= rsz c)%nat -> forall R, length R = length (rw c) ->
  forall a st n0 cinit bl hil g dpre n1,
  IdleP R st -> length (ccmd st) = csz c -> length cinit = asz c -> (length dpre < rsz c)%nat ->
  let tr := head_part n0 cinit bl hil g ++ pulses dpre ++ deselect (S n1) in
  IdleP R (run_state (r_step c) st tr) /\ strobes c a st tr = 0%nat.
Proof. exact txn_abort_in_data. Qed.
Print Assumptions C51_abort_in_data.

Theorem C51_no_write_unless_full : forall c R a tr st, length R = length (rw c) -> quiet R st ->
  never_full c st tr = true ->
  quiet R (run_state (r_step c) st tr) /\ strobes c a st tr = 0%nat.
Proof. exact no_write_unless_full. Qed.
Print Assumptions C51_no_write_unless_full.

(* the premises are reachable: one cycle with chip select low after reset *)
Theorem C51_idle_after_reset : forall c,
  IdleP (repeat 0 (length (rw c))) (r_next c (r_init c) (inp false false false)) /\
  length (ccmd (r_next c (r_init c) (inp false false false))) = csz c.
Proof. exact idle_after_reset. Qed.
Print Assumptions C51_idle_after_reset.

(* ---- concrete runs: address_size 2, register_size 3, memory registers at 1 and 2, register 0 reads 7 (size
   auto-negotiation), default 5.  Output word: sdo idle stalled | reg1(3) | reg2(3) | strobe1 strobe2. ---- *)
Definition cx : r_cfg := {| asz := 2; rsz := 3; rw := [1; 2]; ro := [(0, 7)]; dflt := 5 |}.
Definition st0 : r_state := r_next cx (r_init cx) (inp false false false).
Definition bitp (b : bool) : bool * nat * nat := (b, 0%nat, 1%nat).
(* write 6 = 110b to register 2: command 1 10, data 1 1 0 *)
Definition wr2 : list N :=
  head_part 0 [bitp true; bitp true] false 0 0 ++ pulses [bitp true; bitp true] ++ tail_part false 0 0 0.
Example C51_example_write : regs (run_state (r_step cx) st0 wr2) = [0; 6] /\ strobes cx 2 st0 wr2 = 1%nat /\
                            strobes cx 1 st0 wr2 = 0%nat.
Proof. vm_compute. repeat split. Qed.
(* then read register 2 back: command 0 10; sdo after the high phase of data pulses 0,1,2 = 1,1,0 *)
Definition st1 : r_state := run_state (r_step cx) st0 wr2.
Definition rd2 (k : nat) : list N :=
  head_part 0 [bitp false; bitp true] false 0 0 ++ pulses (repeat (bitp false) k) ++ pulse_hi false 0.
Example C51_example_read :
  map (fun k => sdo (run_state (r_step cx) st1 (rd2 k))) [0%nat; 1%nat; 2%nat] = [true; true; false].
Proof. vm_compute. reflexivity. Qed.
(* unassigned address 3 reads the default 5 = 101b *)
Definition rd3 (k : nat) : list N :=
  head_part 0 [bitp false; bitp true] true 0 0 ++ pulses (repeat (bitp false) k) ++ pulse_hi false 0.
Example C51_example_default :
  map (fun k => sdo (run_state (r_step cx) st1 (rd3 k))) [0%nat; 1%nat; 2%nat] = [true; false; true].
Proof. vm_compute. reflexivity. Qed.
