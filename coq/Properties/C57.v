(* C57 -- the USB serial (CDC-ACM) device carries bytes both ways and answers CDC requests.   PARTIAL.
   Model and specification: Model/C57_Serial.v (part A: ACMRequestHandlers; part B: the whole-device specification as a
   host-side observer `c57_step` of the UTMI wire traffic and the two byte streams).

   What is a THEOREM here:
     1     ACMRequestHandlers' model claims exactly class request 0x20, ACKs its data stage, answers its status stage with a
           zero-length packet (the netlist of ACMRequestHandlers is proved equal to this model on all inputs by the tie
           theorem C57_acm_netlist, props/C57.py);
     2-5   reading of the specification's request classification: vendor / reserved requests and class requests other than
           SET_LINE_CODING must be STALLed; SET_LINE_CODING must be accepted; GET_DESCRIPTOR returns the advertised bytes;
     6-7   the observer's state packing (pairing function, state encoding) is faithful: the run-time oracle evaluates
           exactly the typed observer.
   What is only MONITORED: that the real USBSerialDevice satisfies the specification -- the observer is evaluated over
   simulator runs of the complete device driven by the closed-loop host-script generator (props/C57.py).  No theorem
   about the complete device is claimed.  The composition of the component properties (C01-C14) across the half-duplex
   turnaround is not proved.                                                                                        *)
From Coq Require Import NArith List Bool. Import ListNotations.
From LunaLib Require Import Netlist Machine.
From LunaModel Require Import Crc Handshake Usb2DataTx TokenDet C20_TxPath C57_Pack C57_Serial C57_Serial_proofs.
Open Scope N_scope.

Theorem C57_acm_handler_reading : forall i,
  let o := snd (acm_step tt i) in
  (ao_claim o = true <-> (bits i 0 2 = 1 /\ bits i 2 8 = 32)) /\
  ao_ack o = (ao_claim o && N.testbit i 10) /\
  ao_txvalid o = (ao_claim o && N.testbit i 11) /\
  ao_txlast o = ao_txvalid o.
Proof. exact acm_reading. Qed.
Print Assumptions C57_acm_handler_reading.

Theorem C57_spec_vendor_reserved_stall : forall P req, rq_type req = 2 \/ rq_type req = 3 -> classify_request P req = C_STALL.
Proof. exact classify_vendor_reserved. Qed.
Print Assumptions C57_spec_vendor_reserved_stall.

Theorem C57_spec_other_class_stall : forall P req, rq_type req = 1 -> rq_byte req 1 <> 32 -> classify_request P req = C_STALL.
Proof. exact classify_class_other. Qed.
Print Assumptions C57_spec_other_class_stall.

Theorem C57_spec_set_line_coding_accepted : forall P req, rq_byte req 0 = 33 -> rq_byte req 1 = 32 -> rq_word req 6 <> 0 ->
  classify_request P req = C_OUT_DATA (rq_word req 6) DATA1B.
Proof. exact classify_set_line_coding. Qed.
Print Assumptions C57_spec_set_line_coding_accepted.

Theorem C57_spec_get_descriptor : forall P req, rq_byte req 0 = 128 -> rq_byte req 1 = 6 -> rq_word req 6 <> 0 ->
  classify_request P req =
  match lookup (rq_word req 2) (sp_desc P) with Some _ => C_IN (rq_word req 2) 0 (rq_word req 6) DATA1B | None => C_STALL end.
Proof. exact classify_get_descriptor. Qed.
Print Assumptions C57_spec_get_descriptor.

Theorem C57_pairing_injective : forall a b, nunpair (npair a b) = (a, b).
Proof. exact nunpair_npair. Qed.
Print Assumptions C57_pairing_injective.

Theorem C57_observer_packing : forall s, s_wf s -> s_dec (s_enc s) = s.
Proof. exact s_dec_enc. Qed.
Print Assumptions C57_observer_packing.

(* ---- concrete runs of the observer (non-vacuity; what it accepts and what it rejects) ------------------------ *)
Definition P0 : sparams := {| sp_mps := 8; sp_desc := [(256, [18; 1; 0; 2])]; sp_T := 16; sp_naks := 6; sp_strict := true |}.
Definition P0w : sparams := {| sp_mps := 8; sp_desc := [(256, [18; 1; 0; 2])]; sp_T := 16; sp_naks := 6; sp_strict := false |}.
(* cycle builders: device inputs rx_active + 2 rx_valid + 4 rx_data + 1024 tx_ready; outputs tx_valid + 2 tx_data *)
Definition host_pkt (bs : list N) : list (N * N) :=
  (1 + 1024, 0) :: map (fun b => (1 + 2 + 4 * b + 1024, 0)) bs ++ [(1024, 0)].
Definition dev_pkt (bs : list N) : list (N * N) := map (fun b => (1024, 1 + 2 * b)) bs ++ [(1024, 0)].
Definition idle (n : nat) : list (N * N) := repeat (1024, 0) n.
Definition setup_tok : list N := [45; 0; 16].      (* SETUP addr 0 ep 0 *)
Definition out_tok : list N := [225; 0; 16].       (* OUT   addr 0 ep 0 *)
Definition in_tok : list N := [105; 0; 16].        (* IN    addr 0 ep 0 *)
Definition setup_data (req : list N) : list N := tx_wire 195 req.

(* a vendor request with a 4-byte OUT data stage: 40 42 00 00 00 00 04 00 *)
Definition vendor_out : list (N * N) :=
  idle 2 ++ host_pkt setup_tok ++ idle 2 ++ host_pkt (setup_data [64; 66; 0; 0; 0; 0; 4; 0]) ++ idle 3 ++ dev_pkt [210]
  ++ idle 3 ++ host_pkt out_tok ++ idle 2 ++ host_pkt (tx_wire 75 [1; 2; 3; 4]) ++ idle 3.
Example C57_vendor_out_stalled_accepted :
  first_bad (c57_mon P0) 0 (s_enc s_init) (vendor_out ++ dev_pkt [30] ++ idle 20) = None.
Proof. vm_compute. reflexivity. Qed.
Example C57_vendor_out_acked_rejected :
  first_bad (c57_mon P0) 0 (s_enc s_init) (vendor_out ++ dev_pkt [210] ++ idle 20) <> None.
Proof. vm_compute. discriminate. Qed.
(* what the unchanged code does: no answer at all -- rejected when the host's patience (16 cycles) runs out *)
Example C57_vendor_out_silence_rejected :
  first_bad (c57_mon P0) 0 (s_enc s_init) (vendor_out ++ idle 40) = Some (N.of_nat (length vendor_out) + 12).
Proof. vm_compute. reflexivity. Qed.

(* the weak reading (sp_strict = false) tolerates the silence, but then insists on the STALL at the status stage *)
Example C57_weak_silence_then_status_stall_accepted :
  first_bad (c57_mon P0w) 0 (s_enc s_init) (vendor_out ++ idle 20 ++ host_pkt in_tok ++ idle 3 ++ dev_pkt [30] ++ idle 20) = None.
Proof. vm_compute. reflexivity. Qed.
Example C57_weak_silence_then_status_zlp_rejected :
  first_bad (c57_mon P0w) 0 (s_enc s_init) (vendor_out ++ idle 20 ++ host_pkt in_tok ++ idle 3 ++ dev_pkt (tx_wire 75 []) ++ idle 20) <> None.
Proof. vm_compute. discriminate. Qed.

(* GET_DESCRIPTOR(device), wLength 2: 80 06 00 01 00 00 02 00 -> DATA1 12 01, ACK, status OUT ZLP, ACK *)
Definition get_desc : list (N * N) :=
  idle 2 ++ host_pkt setup_tok ++ idle 2 ++ host_pkt (setup_data [128; 6; 0; 1; 0; 0; 2; 0]) ++ idle 3 ++ dev_pkt [210]
  ++ idle 3 ++ host_pkt in_tok ++ idle 3.
Example C57_get_descriptor_accepted :
  first_bad (c57_mon P0) 0 (s_enc s_init)
    (get_desc ++ dev_pkt (tx_wire 75 [18; 1]) ++ idle 2 ++ host_pkt [210] ++ idle 3 ++ host_pkt out_tok ++ idle 2
     ++ host_pkt (tx_wire 75 []) ++ idle 3 ++ dev_pkt [210] ++ idle 20) = None.
Proof. vm_compute. reflexivity. Qed.
Example C57_get_descriptor_wrong_byte_rejected :
  first_bad (c57_mon P0) 0 (s_enc s_init) (get_desc ++ dev_pkt (tx_wire 75 [18; 2]) ++ idle 5) <> None.
Proof. vm_compute. discriminate. Qed.
Example C57_get_descriptor_too_long_rejected :
  first_bad (c57_mon P0) 0 (s_enc s_init) (get_desc ++ dev_pkt (tx_wire 75 [18; 1; 0]) ++ idle 5) <> None.
Proof. vm_compute. discriminate. Qed.

(* host -> device bytes: OUT ep 4 (e1 00 42: addr 0, ep 4), DATA0 [7; 8], ACK, then the rx stream shows 7, 8 *)
Definition out4_tok : list N := [225; 0; 66].
Definition rx_byte (b : N) : N * N := (1024 + 2 ^ 25, 2 ^ 10 + 2 ^ 13 * b).    (* rx stream valid & ready, payload b *)
Example C57_rx_stream_in_order_accepted :
  first_bad (c57_mon P0) 0 (s_enc s_init)
    (idle 2 ++ host_pkt out4_tok ++ idle 2 ++ host_pkt (tx_wire 195 [7; 8]) ++ idle 3 ++ dev_pkt [210]
     ++ [rx_byte 7; rx_byte 8] ++ idle 5) = None.
Proof. vm_compute. reflexivity. Qed.
Example C57_rx_stream_swapped_rejected :
  first_bad (c57_mon P0) 0 (s_enc s_init)
    (idle 2 ++ host_pkt out4_tok ++ idle 2 ++ host_pkt (tx_wire 195 [7; 8]) ++ idle 3 ++ dev_pkt [210]
     ++ [rx_byte 8; rx_byte 7] ++ idle 5) <> None.
Proof. vm_compute. discriminate. Qed.
Example C57_rx_stream_after_nak_rejected :
  first_bad (c57_mon P0) 0 (s_enc s_init)
    (idle 2 ++ host_pkt out4_tok ++ idle 2 ++ host_pkt (tx_wire 195 [7; 8]) ++ idle 3 ++ dev_pkt [90]
     ++ [rx_byte 7] ++ idle 5) <> None.
Proof. vm_compute. discriminate. Qed.
