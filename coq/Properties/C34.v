(* C34 -- Word alignment places COM sequences on word boundaries without corrupting data.
   Model: LunaModel.Aligner (RxWordAligner / RxPacketAligner of luna/gateware/usb/usb3/physical/alignment.py),
   parametric in W = symbols per word (LUNA: 4) and in the alignment criteria `crit` on a W-symbol window.
   A symbol is data + 256*ctrl; COM = 256 + 0xBC.  One list element = one clock cycle.
   `prev st` is the last valid input word, `shift st` the offset in force, `al_result st i` what the module
   registers for input i (source.valid / word / alignment_offset, visible in the next cycle),
   `window W j (prev st ++ asyms i)` the W symbols at offset j of "previous word, current word".
   No hypothesis on the inputs: any words, any valid gaps, any offset changes; unbounded traces. *)
From Coq Require Import NArith List Bool. Import ListNotations.
From LunaLib Require Import Netlist Machine SymWord.
From LunaModel Require Import Aligner Aligner_proofs.

(* the module's outputs during a run are the initial registers followed by the registered results *)
Theorem C34_outputs_are_results : forall W crit ins st x,
  trun (al_step W crit) st (ins ++ [x]) = oreg st :: al_results W crit st ins.
Proof. exact al_outputs_are_results. Qed.
Print Assumptions C34_outputs_are_results.

(* (1) a valid word that completes a window meeting the criteria at offset j < W (and at no higher offset)
   is presented as exactly that window -- a whole word -- and j becomes the alignment offset *)
Theorem C34_match_presented : forall W crit st i j, av i = true -> (j < W)%nat ->
  crit (window W j (prev st ++ asyms i)) = true ->
  (forall j', (j < j' < W)%nat -> crit (window W j' (prev st ++ asyms i)) = false) ->
  al_result W crit st i = {| rv := true; rword := window W j (prev st ++ asyms i); roff := j |} /\
  shift (al_next W crit st i) = j.
Proof. exact al_match_word. Qed.
Print Assumptions C34_match_presented.

(* (2) otherwise the offset is unchanged: no matching window, or an invalid word (which is skipped: the held
   previous word stays) *)
Theorem C34_no_match_keeps_offset : forall W crit st i, av i = true ->
  (forall j, (j < W)%nat -> crit (window W j (prev st ++ asyms i)) = false) ->
  al_result W crit st i = {| rv := true; rword := window W (shift st) (prev st ++ asyms i); roff := shift st |} /\
  shift (al_next W crit st i) = shift st.
Proof. exact al_no_match. Qed.
Print Assumptions C34_no_match_keeps_offset.

Theorem C34_invalid_words_skipped : forall W crit st i, av i = false ->
  rv (al_result W crit st i) = false /\ roff (al_result W crit st i) = shift st /\
  prev (al_next W crit st i) = prev st /\ shift (al_next W crit st i) = shift st.
Proof. exact al_invalid. Qed.
Print Assumptions C34_invalid_words_skipped.

(* (3) while alignment_offset stays s, the valid output words, concatenated, are the stream
   "held previous word ++ valid input words" with its first s symbols dropped, up to the last complete word:
   the input delayed and regrouped, no symbol lost, duplicated or reordered *)
Theorem C34_regroup : forall W crit s ins st, length (prev st) = W -> (s <= W)%nat ->
  Forall (fun i => length (asyms i) = W) ins ->
  Forall (fun r => roff r = s) (al_results W crit st ins) ->
  al_out_stream (al_results W crit st ins)
  = firstn (W * al_nvalid ins) (skipn s (prev st ++ al_in_stream ins)).
Proof. exact al_regroup. Qed.
Print Assumptions C34_regroup.

(* (4) the property for the COM criteria of RxWordAligner (W = 4): a four-COM sequence completed at offset j
   (and not running on into a fifth COM-window) comes out as the whole word COM COM COM COM with offset j,
   and while the offset then stays j all following data is the input stream regrouped at that offset *)
Theorem C34_align_on_com : forall st i mid j,
  length (prev st) = 4%nat -> length (asyms i) = 4%nat -> Forall (fun i => length (asyms i) = 4%nat) mid ->
  av i = true -> (j < 4)%nat ->
  window 4 j (prev st ++ asyms i) = [COM; COM; COM; COM] ->
  (forall j', (j < j' < 4)%nat -> window 4 j' (prev st ++ asyms i) <> [COM; COM; COM; COM]) ->
  Forall (fun r => roff r = j) (al_results 4 crit_com (al_next 4 crit_com st i) mid) ->
  al_results 4 crit_com st (i :: mid)
    = {| rv := true; rword := [COM; COM; COM; COM]; roff := j |} :: al_results 4 crit_com (al_next 4 crit_com st i) mid
  /\ al_out_stream (al_results 4 crit_com st (i :: mid))
     = firstn (4 * S (al_nvalid mid)) (skipn j (prev st ++ asyms i ++ al_in_stream mid)).
Proof. exact al_align_on_com. Qed.
Print Assumptions C34_align_on_com.

(* Non-vacuity / sanity (from reset): data 1 2 3 4, then 5 6 COM COM | COM COM 7 8 | 9 10 11 12 | 13 ..;
   the COM quadruple sits at offset 2 of (word1 ++ word2): it is presented whole, and the data follows
   regrouped at offset 2.  All hypotheses of C34_align_on_com hold for st = state after two words, j = 2. *)
Definition C34_w (a b c d : N) : al_in := {| av := true; asyms := [a; b; c; d] |}.
Example C34_example :
  al_results 4 crit_com (al_init 4)
    [C34_w 1 2 3 4; C34_w 5 6 COM COM; C34_w COM COM 7 8; {| av := false; asyms := [0;0;0;0]%N |};
     C34_w 9 10 11 12; C34_w 13 14 15 16]
  = [ {| rv := true;  rword := [0; 0; 0; 0]%N;          roff := 0 |};
      {| rv := true;  rword := [1; 2; 3; 4]%N;          roff := 0 |};
      {| rv := true;  rword := [COM; COM; COM; COM];     roff := 2 |};
      {| rv := false; rword := [7; 8; 0; 0]%N;          roff := 2 |};
      {| rv := true;  rword := [7; 8; 9; 10]%N;         roff := 2 |};
      {| rv := true;  rword := [11; 12; 13; 14]%N;      roff := 2 |} ].
Proof. vm_compute. reflexivity. Qed.
