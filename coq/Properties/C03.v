(* C03 -- USB2 transmitted data packets are correctly framed with a valid CRC16.
   Model and specification: Model/Usb2DataTx.v (USBDataPacketGenerator of luna/gateware/usb/usb2/packet.py with
   the USBDataPacketCRC unit wired as USBDevice does: it advances on tx.valid & tx_ready with tx.data).
   One list element = one `usb` clock cycle; input word = data_pid + 4 stream.valid + 8 stream.first +
   16 stream.last + 32 stream.payload + 2^13 tx_ready; output word = tx.valid + 2 tx.data + 512 stream.ready.

   The specification machine txs_step is transaction level: idle until a request (valid & first: packet with
   payload; valid & last without first: zero-length packet; PID byte chosen by data_pid in that cycle); then it
   offers the PID byte until the PHY takes it (tx_ready), passes payload bytes straight through (a byte is consumed
   from the stream exactly in the cycle the PHY accepts it) up to and including the byte marked `last`, then offers
   crc16_usb(payload bytes accepted) low byte, then high byte, each until accepted, and returns to idle.
   The CRC is the declarative crc16_usb of Model/Crc.v over the list of accepted payload bytes; the model computes
   it incrementally in the shared CRC register and captures the high byte while the low byte is on the bus. *)
From Coq Require Import NArith List Bool. Import ListNotations.
From LunaLib Require Import Netlist Machine.
From LunaModel Require Import Crc Usb2DataTx Usb2DataTx_proofs.
Open Scope N_scope.

(* 1. the generator + CRC model equals the specification machine in every cycle of every input history:
      no assumption on tx_ready, data_pid, first/last, payload, not even on stream.valid *)
Theorem C03_generator_refines : forall tr, run tx_step tx_init tr = run txs_step txs_init tr.
Proof. exact tx_from_reset. Qed.
Print Assumptions C03_generator_refines.

(* 2. the bytes accepted by the PHY (tx.data in tx.valid & tx_ready cycles) along any history are, in order, the
      framed packets PID ++ payload ++ CRC16 (low byte first) of the completed transactions, followed by the
      accepted part of the packet in progress *)
Theorem C03_accepted_bytes : forall tr,
  tx_accepted (combine tr (run txs_step txs_init tr))
  = flat_map tx_wire_of (txs_log txs_init tr) ++ txs_partial (run_state txs_step txs_init tr).
Proof. intros. apply (txs_accepted tr txs_init I). Qed.
Print Assumptions C03_accepted_bytes.

(* 3. the payload bytes taken from the producer (stream.valid & stream.ready cycles) are exactly the payloads of
      those packets: every byte consumed is sent exactly once, in order *)
Theorem C03_consumed_bytes : forall tr,
  tx_consumed (combine tr (run txs_step txs_init tr))
  = flat_map snd (txs_log txs_init tr) ++ txs_sent (run_state txs_step txs_init tr).
Proof. intros. apply (txs_consumed tr txs_init I). Qed.
Print Assumptions C03_consumed_bytes.

(* 4. packet boundaries on the wire: while the producer keeps valid high during the payload (stream contract),
      tx.valid is high exactly while a transaction is in progress, and a completed transaction is followed by
      the idle state (tx.valid low): one transaction = one maximal tx.valid run = one packet *)
Theorem C03_valid_iff_busy : forall q i, txs_wf q -> txs_env q i = true ->
  to_txvalid (snd (txs_step q i)) = txs_busy q.
Proof. exact txs_valid_iff_busy. Qed.
Print Assumptions C03_valid_iff_busy.

Theorem C03_idle_after_packet : forall q i p, txs_done q i = Some p -> fst (txs_step q i) = S_IDLE.
Proof. exact txs_idle_after_packet. Qed.
Print Assumptions C03_idle_after_packet.

(* 5. a zero-length packet is PID 00 00; the PID bytes are DATA0/DATA1/DATA2/MDATA with check nibbles *)
Theorem C03_wire_zlp : forall p, tx_wire p [] = [p; 0; 0].
Proof. exact tx_wire_zlp. Qed.
Print Assumptions C03_wire_zlp.

Theorem C03_pid_bytes : map tx_pid_byte [0; 1; 2; 3] = map (fun n => n + 16 * (15 - n)) [3; 11; 7; 15].
Proof. exact tx_pid_bytes. Qed.
Print Assumptions C03_pid_bytes.

(* ---- concrete runs ---- *)
(* input word builder: data_pid, valid, first, last, payload, ready *)
Definition c03_in (dp v f l pl r : N) : N := dp + 4 * v + 8 * f + 16 * l + 32 * pl + 8192 * r.
(* DATA1 packet with payload 80 06 (first on the first byte, last on the second), PHY stalling now and then;
   then a zero-length DATA0 packet (last without first) *)
Definition c03_tr : list N :=
  [c03_in 1 1 1 0 128 0;                         (* request seen in IDLE *)
   c03_in 0 1 1 0 128 0; c03_in 0 1 1 0 128 1;   (* PID offered, taken on the 2nd cycle *)
   c03_in 0 1 1 0 128 0; c03_in 0 1 1 0 128 1;   (* 80 taken on the 2nd cycle *)
   c03_in 0 1 0 1 6 1;                           (* 06 (last) *)
   c03_in 0 0 0 0 0 0; c03_in 0 0 0 0 0 1;       (* CRC low *)
   c03_in 0 0 0 0 0 1;                           (* CRC high *)
   c03_in 0 0 0 0 0 1;                           (* idle *)
   c03_in 0 1 0 1 0 1;                           (* ZLP request *)
   c03_in 0 0 0 0 0 1; c03_in 0 0 0 0 0 1; c03_in 0 0 0 0 0 1; c03_in 0 0 0 0 0 0].

Example C03_log : txs_log txs_init c03_tr = [(75, [128; 6]); (195, [])].
Proof. vm_compute. reflexivity. Qed.
Example C03_wire : tx_accepted (combine c03_tr (run tx_step tx_init c03_tr))
  = tx_wire 75 [128; 6] ++ [195; 0; 0].
Proof. vm_compute. reflexivity. Qed.
Example C03_consumed : tx_consumed (combine c03_tr (run tx_step tx_init c03_tr)) = [128; 6].
Proof. vm_compute. reflexivity. Qed.
Example C03_env_holds : env_ok txs_state txs_step txs_env txs_init c03_tr = true.
Proof. vm_compute. reflexivity. Qed.
(* the SETUP payload of tests/test_usb2_packet.py: CRC bytes dd 94 *)
Example C03_reference : tx_wire 195 [128; 6; 0; 1; 0; 0; 64; 0] = [195; 128; 6; 0; 1; 0; 0; 64; 0; 221; 148].
Proof. vm_compute. reflexivity. Qed.
Example C03_monitor_accepts :
  first_bad txs_mon 0 (txs_enc txs_init) (combine c03_tr (run tx_step tx_init c03_tr)) = None.
Proof. vm_compute. reflexivity. Qed.
Example C03_monitor_rejects_wrong_crc :
  first_bad txs_mon 0 (txs_enc txs_init)
            (combine c03_tr (map (fun o => if o =? tx_out_word true (crc16_usb [128; 6] / 256) false then o + 2 else o)
                                 (run tx_step tx_init c03_tr))) <> None.
Proof. vm_compute. discriminate. Qed.
