(* C26 -- Stream arbiters forward whole bursts without loss.
   Everything is parametric in the number of input streams n >= 1 and in the number bw of bits an
   input stream sends forward (valid at bit 0, then first/last/payload/... or a header), and holds
   for every input history (all valid / payload patterns on all inputs, any output back-pressure).

   Reading guide (definitions in Model/Arbiter.v):
     sp_step   specification machine; its state is the owner = the currently selected input
     arb_step  code-shaped model of StreamArbiter.elaborate (index register, Switch, reversed priority loop)
     svalid bw i k      input k offers data in the cycle with input word i
     sink bw i k        the block (valid, first, last, payload, ...) input k presents
     sp_cycles          the specification's run as (owner, inputs, outputs) per cycle
     accepted / delivered   (input number, block) pairs handed over at the producers' side
                            (valid_k & ready_k) resp. at the consumer's side (source.valid & source.ready). *)
From Coq Require Import NArith List Bool. Import ListNotations.
From LunaLib Require Import Netlist Machine.
From LunaModel Require Import Arbiter Arbiter_proofs.
Open Scope N_scope.

(* (0) the code-shaped model produces exactly the specification's outputs, from reset, for ever *)
Theorem C26_arbiter_refines : forall n bw, (1 <= n)%nat -> forall tr,
  run (arb_step n bw) 0 tr = run (sp_step n bw) 0%nat tr.
Proof. exact arb_from_reset. Qed.
Print Assumptions C26_arbiter_refines.

(* (1) words are forwarded only from the selected input, unmodified, and ready goes back to it alone.
   Stated on the packed output word o of a cycle, so nothing hides in the packing. *)
Theorem C26_forward_selected_only : forall n bw own i,
  let o := pack_out n bw (sp_view n bw own i) in
  out_src bw o = sink bw i own /\
  (forall k, (k < n)%nat -> out_ready bw o k = Nat.eqb k own && src_ready n bw i) /\
  out_idle n bw o = o_idle (sp_view n bw own i).
Proof. exact unpack_view. Qed.
Print Assumptions C26_forward_selected_only.

(* (2) never switches while the selected input holds valid *)
Theorem C26_hold : forall n bw own i, svalid bw i own = true -> sp_next n bw own i = own.
Proof. exact sp_hold. Qed.
Print Assumptions C26_hold.

(* (3) when the selected input goes idle, the highest-priority (lowest-numbered) waiting input is next;
       with nobody waiting the selection is kept *)
Theorem C26_priority : forall n bw own i k, svalid bw i own = false ->
  (k < n)%nat -> svalid bw i k = true -> (forall j, (j < k)%nat -> svalid bw i j = false) ->
  sp_next n bw own i = k.
Proof. exact sp_priority. Qed.
Print Assumptions C26_priority.

Theorem C26_stay : forall n bw own i,
  (forall k, (k < n)%nat -> svalid bw i k = false) -> sp_next n bw own i = own.
Proof. exact sp_stay. Qed.
Print Assumptions C26_stay.

(* (4) idle is asserted exactly when no input is offering data *)
Theorem C26_idle_iff : forall n bw own i,
  o_idle (sp_view n bw own i) = true <-> (forall k, (k < n)%nat -> svalid bw i k = false).
Proof. exact sp_idle_iff. Qed.
Print Assumptions C26_idle_iff.

(* (5) every accepted word is delivered exactly once: over any run, the sequence of (input, block)
       pairs the producers see accepted equals the sequence the consumer sees delivered *)
Theorem C26_exactly_once : forall n bw tr own, (own < n)%nat ->
  flat_map (accepted n bw) (sp_cycles n bw own tr) = flat_map (delivered n bw) (sp_cycles n bw own tr).
Proof. exact sp_exactly_once. Qed.
Print Assumptions C26_exactly_once.

(* (6) bursts are never interleaved: if after any prefix `pre` input k is selected and holds valid
       throughout `burst`, then it stays selected for the whole burst and every word accepted or
       delivered during the burst is k's *)
Theorem C26_no_interleave : forall n bw pre burst post own0 k,
  (own0 < n)%nat -> run_state (sp_step n bw) own0 pre = k ->
  Forall (fun i => svalid bw i k = true) burst ->
  sp_cycles n bw own0 (pre ++ burst ++ post) =
    sp_cycles n bw own0 pre ++ sp_cycles n bw k burst ++ sp_cycles n bw k post /\
  Forall (fun w => fst w = k) (flat_map (accepted n bw) (sp_cycles n bw k burst)) /\
  Forall (fun w => fst w = k) (flat_map (delivered n bw) (sp_cycles n bw k burst)).
Proof. exact sp_no_interleave. Qed.
Print Assumptions C26_no_interleave.

(* the packed run of the specification is the packing of its structured run *)
Theorem C26_run_is_cycles : forall n bw tr own,
  run (sp_step n bw) own tr = map (fun c => pack_out n bw (snd c)) (sp_cycles n bw own tr).
Proof. exact sp_run_cycles. Qed.
Print Assumptions C26_run_is_cycles.

(* ---- sanity / non-vacuity: 3 inputs, 2-bit blocks (valid + 1 payload bit).
   input word = blk0 + 4*blk1 + 16*blk2 + 64*ready;  output = block + 4*ready0 + 8*ready1 + 16*ready2 + 32*idle.
   cycle 0: nobody valid                     -> idle
   cycle 1: inputs 1 and 2 valid (blocks 3)  -> output still input 0's (empty) block, not idle, no ready
   cycle 2: same, ready                      -> input 1 selected: block 3 forwarded, ready1
   cycle 3: input 0 also valid, ready        -> input 1 keeps the output (valid held)
   cycle 4: input 1 drops, 0 and 2 valid     -> bubble: nothing valid on the output; ready still goes to
                                                input 1 only (which offers nothing), so nothing is accepted
   cycle 5: 0 and 2 valid, ready             -> input 0 selected (priority), ready0 *)
Example C26_example :
  run (sp_step 3 2) 0%nat [0; 60; 124; 127; 115; 115] = [32; 0; 11; 11; 8; 7].
Proof. vm_compute. reflexivity. Qed.

Example C26_example_words :
  flat_map (delivered 3 2) (sp_cycles 3 2 0%nat [0; 60; 124; 127; 115; 115]) = [(1%nat, 3); (1%nat, 3); (0%nat, 3)]
  /\ Forall (fun i => svalid 2 i 1 = true) [124; 127].
Proof. split; [vm_compute; reflexivity | repeat constructor]. Qed.
