(* C42 -- LFPS patterns are detected only within their timing windows; the generator produces the typical
   burst at the typical period (luna/gateware/usb/usb3/physical/lfps.py).

   Models and specification: Model/Lfps.v.  c : ld_cfg holds the burst window [bmin,bmax], the repeat window
   [rmin,rmax] (clock cycles), periodic (polling/ping) vs single burst (warm reset), and the counter width cw.
   Hypotheses on c (all hold for the configurations the code derives, see the Examples):
     1 <= bmax < 2^cw, and for periodic patterns bmax < rmax < 2^cw.

   spec_trace c [] tr = for every cycle, whether the envelope received up to TWO CYCLES EARLIER (FFSynchronizer)
   ends in the pattern -- spec_detect, unfolded by C42_spec_periodic_iff / C42_spec_single_iff:
     periodic: ... burst k1 | gap g1 | burst k2 | gap g2 | first cycle of the third burst,
               k1, k2 in [bmin,bmax], k1+g1, k2+g2 in [rmin,rmax]  (two consecutive bursts and repeat periods in window)
     single:   ... burst k | first idle cycle, k in [bmin,bmax].                                              *)
From Coq Require Import NArith List Bool Lia. Import ListNotations.
From LunaLib Require Import Netlist Machine.
From LunaModel Require Import Lfps Lfps_proofs.
Open Scope N_scope.

(* SOUNDNESS, all envelopes: detect is reported only when the specification holds (never outside the windows). *)
Theorem C42_detect_sound : forall c, 1 <= bmax c -> bmax c < 2 ^ cw c ->
  (periodic c = true -> bmax c < rmax c /\ rmax c < 2 ^ cw c) ->
  forall tr, Forall2 (fun o s => o = 1 -> s = 1) (run (ld_step c) ld_init tr) (spec_trace c [] tr).
Proof. exact ld_sound. Qed.
Print Assumptions C42_detect_sound.

(* the specification says what the property text says (h = envelope, most recent cycle first) *)
Theorem C42_spec_periodic_iff : forall c, periodic c = true -> forall h,
  spec_detect c h = true <->
  exists k1 g1 k2 g2 rest,
    h = [true] ++ repeat false (N.to_nat g2) ++ repeat true (N.to_nat k2)
               ++ repeat false (N.to_nat g1) ++ repeat true (N.to_nat k1) ++ rest /\
    no_head true rest /\ 1 <= k1 /\ 1 <= g1 /\ 1 <= k2 /\ 1 <= g2 /\
    win_b c k1 /\ win_r c (k1 + g1) /\ win_b c k2 /\ win_r c (k2 + g2).
Proof. exact spec_detect_periodic_iff. Qed.
Print Assumptions C42_spec_periodic_iff.

Theorem C42_spec_single_iff : forall c, periodic c = false -> forall h,
  spec_detect c h = true <->
  exists k rest, h = [false] ++ repeat true (N.to_nat k) ++ rest /\ no_head true rest /\ 1 <= k /\ win_b c k.
Proof. exact spec_detect_single_iff. Qed.
Print Assumptions C42_spec_single_iff.

(* COMPLETENESS after reset or a quiet stretch (pre empty or ending in rmax+2 idle cycles): two in-window bursts
   at in-window periods are reported in the first cycle of the third burst (+2 cycles of synchroniser latency).
   (Not for every envelope: see LEVEL_NOTE -- the edge detector is blind in the first cycle after the FSM falls
   back to WAIT, so a burst that starts exactly then is skipped.) *)
Theorem C42_detect_complete_periodic : forall c, 1 <= bmax c -> bmax c < 2 ^ cw c ->
  (periodic c = true -> bmax c < rmax c /\ rmax c < 2 ^ cw c) -> periodic c = true ->
  forall pre k1 g1 k2 g2 x y, quiet_end c pre ->
  1 <= k1 -> 1 <= g1 -> 1 <= k2 -> 1 <= g2 ->
  bmin c <= k1 <= bmax c -> rmin c <= k1 + g1 <= rmax c ->
  bmin c <= k2 <= bmax c -> rmin c <= k2 + g2 <= rmax c ->
  last (run (ld_step c) ld_init
         (map b2n (pre ++ repeat true (N.to_nat k1) ++ repeat false (N.to_nat g1) ++
                   repeat true (N.to_nat k2) ++ repeat false (N.to_nat g2) ++ [true]) ++ [x; y])) 0 = 1.
Proof. exact ld_complete_periodic. Qed.
Print Assumptions C42_detect_complete_periodic.

Theorem C42_detect_complete_single : forall c, 1 <= bmax c -> bmax c < 2 ^ cw c ->
  (periodic c = true -> bmax c < rmax c /\ rmax c < 2 ^ cw c) -> periodic c = false ->
  forall pre k x y, quiet_end c pre -> 1 <= k -> bmin c <= k <= bmax c ->
  last (run (ld_step c) ld_init (map b2n (pre ++ repeat true (N.to_nat k) ++ [false]) ++ [x; y])) 0 = 1.
Proof. exact ld_complete_single. Qed.
Print Assumptions C42_detect_complete_single.

(* GENERATOR: FSM model = phase-counter specification (burst B cycles, pattern R cycles), all histories *)
Theorem C42_generator_refines : forall B R w, 1 <= B -> B < R -> R <= 2 ^ w ->
  forall tr, run (lg_step B R w) lg_init tr = run (lgs_step B R) None tr.
Proof. exact lg_from_reset. Qed.
Print Assumptions C42_generator_refines.

(* while `generate` is held: n identical periods of R+1 cycles -- one idle cycle (electrical idle driven),
   B cycles of signalling, R-B cycles of electrical idle, `completed` in the last one *)
Theorem C42_generator_held : forall B R, 1 <= B -> B < R ->
  forall n, run (lgs_step B R) None (repeat 1 (n * N.to_nat (R + 1))) = concat (repeat (lg_period B R) n).
Proof. exact lgs_held_spec. Qed.
Print Assumptions C42_generator_held.

(* ---- sanity / non-vacuity ---- *)
(* Polling LFPS at 125 MHz: windows 75..175 / 750..1750 cycles; the hypotheses hold *)
Example C42_cfg_125MHz : let c := ld_periodic 75 175 750 1750 in
  1 <= bmax c /\ bmax c < 2 ^ cw c /\ bmax c < rmax c /\ rmax c < 2 ^ cw c /\ cw c = 11.
Proof. vm_compute. repeat split; congruence. Qed.

(* windows 2..3 / 5..8: bursts of 2 and 3 cycles, 6 cycles apart, are reported at the third burst (2 cycles late) *)
Example C42_detect_example :
  run (ld_step (ld_periodic 2 3 5 8)) ld_init [0;1;1;0;0;0;0;1;1;1;0;0;0;1;0;0;0]
  = [0;0;0;0;0;0;0;0;0;0;0;0;0;0;0;1;0].
Proof. vm_compute. reflexivity. Qed.
Example C42_spec_example :
  spec_trace (ld_periodic 2 3 5 8) [] [0;1;1;0;0;0;0;1;1;1;0;0;0;1;0;0;0]
  = [0;0;0;0;0;0;0;0;0;0;0;0;0;0;0;1;0].
Proof. vm_compute. reflexivity. Qed.
(* a burst that is one cycle too long is not reported *)
Example C42_reject_example :
  run (ld_step (ld_periodic 2 3 5 8)) ld_init [0;1;1;0;0;0;0;1;1;1;1;0;0;1;0;0;0]
  = [0;0;0;0;0;0;0;0;0;0;0;0;0;0;0;0;0].
Proof. vm_compute. reflexivity. Qed.
(* generator with B = 2, R = 5: period of 6 cycles; words are completed + 2*drive_electrical_idle + 4*send_signaling *)
Example C42_generator_example : lg_period 2 5 = [2; 6; 6; 2; 2; 3].
Proof. reflexivity. Qed.
