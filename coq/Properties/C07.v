(* C07 -- Control transfers follow the setup / data / status stage protocol.

   Model (Model/CtlXfer.v): the control endpoint of LUNA at the level of its own interfaces --
   USBControlEndpoint's stage FSM + StandardRequestHandler + the request-handler multiplexer with its
   StallOnlyRequestHandler fallback; one list element = one clock cycle; parameters: endpoint number EP,
   max_packet_size mps, width spw of the descriptor handler's start_position, skiplist predicate skip, and
   gate = whether handle_register_write_request carries C08's candidate repair (every theorem is for both values).
   The model is the property-satisfying behaviour (three repairs w.r.t. the code as found, see Model/CtlXfer.v).

   Specification: the transfer in progress as a function of the event history (sp_next: the last SETUP packet
   reported for this endpoint that no SETUP token for this endpoint has followed; "advanced" once a token of the
   direction opposite to the data stage has arrived), the phase derived from it (phase_of: no data stage -> IN
   status stage; else data stage in the request's direction, then status stage in the opposite direction),
   and per-cycle requirements on the outputs (cyc_ok, first_answer_ok).

   Environment hypothesis cx_env_trace (producer contracts, C01/C06): tokenizer.endpoint changes only with
   new_token; at most one token-kind flag is high; setup.received comes at most once per SETUP token, after it,
   before any other token, not together with new_token.  Nothing is assumed about timing, about the host
   following the protocol, about handshakes, or about which endpoint tokens address. *)
From Coq Require Import NArith List Bool. Import ListNotations.
From LunaModel Require Import CtlXfer CtlXfer_proofs.
Open Scope N_scope.

(* 1. Stage protocol.  In every cycle of every history: the request handler is asked for data exactly when the
   transfer in progress is a device-to-host request with wLength <> 0 whose data stage has not been left and an
   IN token for this endpoint may be answered; for status exactly at the answer opportunity of the status
   direction (IN if there is no data stage or the data stage is host-to-device, OUT otherwise); PING is
   answered (ACK) exactly in the OUT data / OUT status phases; and every answer has a cause (data sources started
   only by data_requested; tx = a data source's stream or a status ZLP; STALL only as an answer to a data/status
   request or the descriptor handler's verdict; ACK = decoder's SETUP ACK, status answer or PING answer; never
   NAK; address / configuration / halt strobes only together with a host ACK). *)
Theorem C07_stage_protocol : forall EP mps spw skip gate tr, cx_env_trace cx_env0 tr = true ->
  holds_along EP sp0 tr (xrun (cx_step EP mps spw skip gate) cx_init tr).
Proof. exact stage_protocol. Qed.
Print Assumptions C07_stage_protocol.

(* 1b. Reading of "the transfer in progress": it is f iff the history is a ++ f :: b where f reports a SETUP
   packet for this endpoint and b contains neither a SETUP token nor a SETUP packet for this endpoint. *)
Theorem C07_current_transfer : forall EP tr f,
  s_cur (sp_state EP sp0 tr) = Some f <->
  exists a b, tr = a ++ f :: b /\ ev_acc EP f = true /\ quiet_since EP f b = true.
Proof. exact current_transfer_is_last_setup. Qed.
Print Assumptions C07_current_transfer.

(* 2. Every new SETUP starts a fresh transfer: after a cycle that reports a SETUP packet for this endpoint the
   stage is the one the packet calls for and, for a standard request, the handler's request state and its
   per-request registers (DATA1, start_position 0, no ACK expected) are those of that request -- whatever the
   history, in particular after transfers abandoned at any point. *)
Theorem C07_fresh_after_setup : forall EP mps spw skip gate h i, cx_env_trace cx_env0 (h ++ [i]) = true ->
  i_rcv i = true -> i_tgt EP i = true ->
  let x' := xstate (cx_step EP mps spw skip gate) cx_init (h ++ [i]) in
  x_ctl x' = stage_of i /\
  (i_std i = true ->
     x_h x' = (if skip i then HIdle else dispatch i) /\ x_pid x' = true /\ x_ea x' = false /\ x_sp x' = 0 /\
     x_wa x' = false /\ x_wc x' = false).
Proof. exact fresh_after_setup. Qed.
Print Assumptions C07_fresh_after_setup.

(* 2b. Hence the complete state after a standard request's SETUP does not depend on the history ... *)
Theorem C07_history_independent : forall EP mps spw skip gate h1 h2 i,
  cx_env_trace cx_env0 (h1 ++ [i]) = true -> cx_env_trace cx_env0 (h2 ++ [i]) = true ->
  i_rcv i = true -> i_tgt EP i = true -> i_std i = true ->
  xstate (cx_step EP mps spw skip gate) cx_init (h1 ++ [i]) = xstate (cx_step EP mps spw skip gate) cx_init (h2 ++ [i]).
Proof. exact history_independent. Qed.
Print Assumptions C07_history_independent.

(* 2c. ... and while non-standard requests are presented the standard handler is frozen and invisible: two
   states that agree on the stage produce the same outputs (start_position compared only when the descriptor
   handler is started) and stages, for any continuation. *)
Theorem C07_nonstandard_history_independent : forall EP mps spw skip gate sfx x y, x_ctl x = x_ctl y ->
  Forall (fun i => i_std i = false) sfx ->
  map out_obs (xrun (cx_step EP mps spw skip gate) x sfx) = map out_obs (xrun (cx_step EP mps spw skip gate) y sfx) /\
  x_ctl (xstate (cx_step EP mps spw skip gate) x sfx) = x_ctl (xstate (cx_step EP mps spw skip gate) y sfx).
Proof. exact nonstd_history_independent. Qed.
Print Assumptions C07_nonstandard_history_independent.

(* 2d. Specification-level form: the first request for data or status of a fresh transfer (fields still presented,
   no host ACK / descriptor STALL in between) is answered as the request's class demands -- serializer started /
   descriptor handler started from position 0 with DATA1 / status ZLP with DATA1 / handshake ACK / STALL. *)
Theorem C07_first_answers_fresh : forall EP mps spw skip gate,
  (forall f i, same_fieldsb f i = true -> skip i = skip f) ->
  forall tr, cx_env_trace cx_env0 tr = true ->
  fresh_along EP skip sp0 false tr (xrun (cx_step EP mps spw skip gate) cx_init tr) = true.
Proof. exact first_answers_fresh. Qed.
Print Assumptions C07_first_answers_fresh.

(* 3. Tokens for other endpoints never advance or disturb the transfer: changing, in cycles whose token is for
   another endpoint, everything the token detector / data receiver report about that token (new_token,
   ready_for_response, kind flags, rx_ready_for_response) changes neither outputs nor state.  No hypothesis.
   (With C08's repair the SET_ADDRESS / SET_CONFIGURATION states drop an un-ACKed status answer at ANY new token,
   so for gate = true the two histories also agree on new_token: see foreign_related.) *)
Theorem C07_foreign_tokens_invisible : forall EP mps spw skip gate tr1 tr2 x,
  Forall2 (foreign_related EP skip gate) tr1 tr2 ->
  xrun (cx_step EP mps spw skip gate) x tr1 = xrun (cx_step EP mps spw skip gate) x tr2.
Proof. exact foreign_tokens_invisible. Qed.
Print Assumptions C07_foreign_tokens_invisible.

(* ---- the hypotheses are satisfiable; a concrete run ------------------------------------------------------ *)
(* input words: token context = bits 0..9, setup fields = bits 11..74 *)
Definition tok_setup0 : N := 16.             (* is_setup, endpoint 0 *)
Definition tok_in0 : N := 4.                 (* is_in, endpoint 0 *)
Definition tok_setup3 : N := 16 + 3 * 64.    (* is_setup, endpoint 3 *)
Definition get_descriptor : N := 2 ^ 11 + 6 * 2 ^ 19 + 256 * 2 ^ 27 + 18 * 2 ^ 59.     (* IN, GET_DESCRIPTOR, wLength 18 *)
Definition set_address : N := 5 * 2 ^ 19 + 42 * 2 ^ 27.                                 (* OUT, SET_ADDRESS 42, wLength 0 *)
Definition c07_example : list N :=
  [ tok_setup0 + 1;  tok_setup0 + get_descriptor + 2 ^ 10;               (* SETUP token; GET_DESCRIPTOR decoded *)
    tok_in0 + get_descriptor + 1;  tok_in0 + get_descriptor + 2;          (* IN token; answer opportunity *)
    tok_setup3 + get_descriptor + 1;                                      (* SETUP token for endpoint 3 *)
    tok_setup0 + get_descriptor + 1;                                      (* transfer abandoned: new SETUP token *)
    tok_setup0 + set_address + 2 ^ 10;                                    (* SET_ADDRESS decoded *)
    tok_in0 + set_address + 1;  tok_in0 + set_address + 2;                (* status stage: IN token; opportunity *)
    tok_in0 + set_address + 2 ^ 77 ].                                     (* host ACK *)

Example C07_example_env : cx_env_trace cx_env0 c07_example = true.
Proof. vm_compute. reflexivity. Qed.

(* data requested + descriptor handler started (position 0) in cycle 3; status ZLP with DATA1 in cycle 8;
   address 42 taken in cycle 9 *)
Example C07_example_run :
  map (fun o => (o_dr o, o_ds o, o_sr o, (o_txv o, o_txl o, o_pid o), (o_ac o, o_na o)))
      (xrun (cx_step 0 64 11 skip_none false) cx_init c07_example) =
  [ (false, false, false, (false, false, 1), (false, 0)); (false, false, false, (false, false, 1), (false, 0));
    (false, false, false, (false, false, 1), (false, 0)); (true, true, false, (false, false, 1), (false, 0));
    (false, false, false, (false, false, 1), (false, 0)); (false, false, false, (false, false, 1), (false, 0));
    (false, false, false, (false, false, 1), (false, 0)); (false, false, false, (false, false, 1), (false, 0));
    (false, false, true, (true, true, 1), (false, 0));    (false, false, false, (false, false, 1), (true, 42)) ].
Proof. vm_compute. reflexivity. Qed.
