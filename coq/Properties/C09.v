(* C09 -- GET_DESCRIPTOR returns exactly the requested descriptor bytes.

   Reading guide (definitions in Model/DescSpec.v, DescRom.v, DescBlock.v, DescDist.v):
     dcoll                 a descriptor collection: type |-> (index |-> bytes), keys ascending
     find_desc c ty ix     the descriptor (type ty, index ix) of c, if any
     respond c mps value wLength sp
                           what ONE IN transaction started at offset sp must carry: STALL if the collection has no
                           descriptor (type = value[15:8], index = value[7:0]); else the bytes
                           desc[sp .. sp + min(mps, wLength - sp)) clipped at the descriptor's end ([] = zero-length packet)
     data_stage fuel resp mps wLength 0 0
                           what the host receives: it reads at offsets 0, mps, 2 mps, ... (11-bit start_position register,
                           + max_packet_size per ACK) until a packet shorter than mps, wLength bytes, or a STALL
     stage_ok d mps wLength pkts
                           pkts concatenated = the first min(wLength, len d) bytes of d; every packet <= mps; all but the
                           last are full and together shorter than wLength; the last is short or completes wLength
     s_step resp lat       the cycle-level specification machine at the handler's ports (idle until `start`; after an
                           implementation-defined latency `lat` either a one-cycle stall pulse, or a one-cycle zero-length
                           packet pulse valid & last & ~first, or the bytes one per beat, each held until tx.ready, `first`
                           on the first and `last` on the last); s_env (req_legal c) is the environment assumption:
                           one request at a time, value/length/start_position held and start low until the answer is
                           complete, start_position < wLength and <= len(descriptor)
     rom_of c, block_cfg   the ROM image / configuration GetDescriptorHandlerBlock builds from c (Gallina
                           re-implementation of generate_rom_content, compared with the Python on every run)
     bk_step               code-shaped model of GetDescriptorHandlerBlock;  ds_step: of GetDescriptorHandlerDistributed
                           (a bank of ConstGen.cg_step generators) WITH the zero-length-packet fix of findings/C09-dist-zlp.diff
     coll_okb / dist_okb   well-formed collections (types, indexes, bytes < 256; <= 255 indexes per type; image < 64 KiB)
                           / all descriptors non-empty and shorter than 2048 bytes *)
From Coq Require Import NArith List Bool. Import ListNotations.
From LunaLib Require Import Netlist Machine.
From LunaModel Require Import ConstGen DescSpec DescSpec_proofs DescRom DescRom_proofs DescCommon DescBlock DescBlock_proofs
                              DescDist DescDist_proofs DescMux DescMux_proofs.
Open Scope N_scope.

(* (1) Protocol level.  A host reading a present descriptor in max-packet-size pieces from a responder that answers
       every IN transaction as `respond` says receives exactly the first min(wLength, len) bytes, in full packets
       followed by one short packet; nothing is STALLed. *)
Theorem C09_data_stage : forall c mps value wlen d,
  find_desc c (v_type value) (v_index value) = Some d -> 1 <= mps -> 1 <= wlen -> nlen d < 2048 ->
  exists pkts, data_stage (S (length d)) (respond c mps value wlen) mps wlen 0 0 = (pkts, false) /\ stage_ok d mps wlen pkts.
Proof. exact data_stage_respond. Qed.
Print Assumptions C09_data_stage.

(* (1b) ... and the stage ends with a zero-length packet exactly when the total is a multiple of the packet size below
        wLength (otherwise with a non-empty short packet, or with the packet that completes wLength). *)
Theorem C09_zlp_rule : forall d mps wlen pkts, 1 <= mps -> stage_ok d mps wlen pkts ->
  forall init lastp, pkts = init ++ [lastp] ->
  (lastp = [] <-> nlen (concat pkts) mod mps = 0 /\ nlen (concat pkts) < wlen).
Proof. exact stage_zlp_rule. Qed.
Print Assumptions C09_zlp_rule.

(* (1c) A request for a descriptor that does not exist is STALLed without data. *)
Theorem C09_absent_stalled : forall c mps value wlen fuel,
  find_desc c (v_type value) (v_index value) = None ->
  data_stage (S fuel) (respond c mps value wlen) mps wlen 0 0 = ([], true).
Proof. intros c mps value wlen fuel H. cbn [data_stage]. unfold respond. rewrite H. reflexivity. Qed.
Print Assumptions C09_absent_stalled.

(* (1d) Every offset such a host makes the device use is below wLength and within the descriptor: the handler-level
        environment assumption req_legal is what the protocol provides. *)
Theorem C09_offsets_legal : forall c mps value wlen d fuel,
  find_desc c (v_type value) (v_index value) = Some d -> 1 <= mps -> 1 <= wlen -> nlen d < 2048 ->
  Forall (fun o => o < wlen /\ o <= nlen d) (offsets fuel (respond c mps value wlen) mps wlen 0 0).
Proof. exact offsets_respond_legal. Qed.
Print Assumptions C09_offsets_legal.

(* (2) The block-ROM handler, configured from ANY well-formed collection (ROM image rom_of c, address/position widths,
       index map) and any packet size, is cycle-for-cycle equal to the specification machine on every legal request
       history of any length: it answers each request with exactly `respond`'s bytes / ZLP / STALL. *)
Theorem C09_block_handler : forall c mps, coll_okb c = true -> 1 <= mps /\ mps < 65536 -> forall tr,
  env_ok sstate (s_step (resp_of c mps) (bk_lat c)) (s_env (req_legal c)) SIdle tr = true ->
  run (bk_step (block_cfg c mps)) bk_init tr = run (s_step (resp_of c mps) (bk_lat c)) SIdle tr.
Proof. exact block_refines. Qed.
Print Assumptions C09_block_handler.

(* (2b) The layout facts behind (2): walking rom_of c the way the gateware does finds the descriptor find_desc names
        (its length, and every byte of it), and reports every other (type, index) as absent. *)
Theorem C09_rom_walk_present : forall c value d, coll_okb c = true -> value < 65536 ->
  find_desc c (v_type value) (v_index value) = Some d ->
  exists n A B,
    v_type value <= max_type c /\
    rom_read (rom_of c) (v_type value) = entry n (4 * A) /\ n < 65536 /\ 4 * A < 65536 /\
    didx_val c value < n /\ A + didx_val c value < nlen (rom_of c) /\
    rom_read (rom_of c) (A + didx_val c value) = entry (nlen d) (4 * B) /\ nlen d < 65536 /\ 4 * B < 65536 /\
    nlen d <= max_desc_len c /\
    (forall k, k < nlen d -> B + k / 4 < nlen (rom_of c) /\
                             byte_lane (rom_read (rom_of c) (B + k / 4)) (k mod 4) = nth (N.to_nat k) d 0).
Proof. intros c value d H. apply walk_present. apply coll_ok_facts. exact H. Qed.
Print Assumptions C09_rom_walk_present.

Theorem C09_rom_walk_absent : forall c value, coll_okb c = true -> value < 65536 -> v_type value <= max_type c ->
  find_desc c (v_type value) (v_index value) = None ->
  e_hi (rom_read (rom_of c) (v_type value)) <= didx_val c value.
Proof. intros c value H. apply walk_absent. apply coll_ok_facts. exact H. Qed.
Print Assumptions C09_rom_walk_absent.

(* (3) The block-RAM-free handler -- with the candidate fix; the unchanged /repo violates the property, see
       findings/C09-dist-zlp -- is likewise equal to the specification machine, for every well-formed collection of
       non-empty descriptors; and legal histories satisfy the model-level assumption ds_env of the netlist tie. *)
Theorem C09_distributed_handler : forall c mps, coll_okb c = true -> dist_okb c = true -> 1 <= mps /\ mps < 65536 -> forall tr,
  env_ok sstate (s_step (resp_of c mps) (ds_lat c)) (s_env (req_legal c)) SIdle tr = true ->
  run (ds_step (dist_gens c) mps) (ds_init (dist_gens c)) tr = run (s_step (resp_of c mps) (ds_lat c)) SIdle tr /\
  env_ok ds_state (ds_step (dist_gens c) mps) (ds_env (dist_gens c) mps) (ds_init (dist_gens c)) tr = true.
Proof. exact dist_refines. Qed.
Print Assumptions C09_distributed_handler.

(* (4) GetDescriptorHandlerMux (block-ROM handler for the fixed descriptors cF + distributed handler for the runtime
       descriptors cR, disjoint (type, index) keys; stall latches as repaired by findings/C09-mux-stall-latch.diff) is
       cycle-for-cycle the specification machine of the UNION collection (resp_mux / legal_mux; C09_mux_union): every
       request for an existing descriptor is answered with its bytes by exactly one handler and never STALLed, whatever
       the previous request was; a request for an absent descriptor gets one stall pulse and no data.  Hypotheses: the
       history is legal for the union specification and for the two handlers' own specification machines (a new request
       only once both handlers are idle -- the ROM handler needs up to two cycles to stall a request that is not its own). *)
Theorem C09_mux_handler : forall cF cR mps, coll_okb cF = true -> coll_okb cR = true -> dist_okb cR = true ->
  disjointb cF cR = true -> 1 <= mps /\ mps < 65536 -> forall tr,
  env_ok sstate (s_step (resp_mux cF cR mps) (mx_lat cF cR)) (s_env (legal_mux cF cR)) SIdle tr = true ->
  env_ok sstate (s_step (resp_of cF mps) (bk_lat cF)) (s_env (req_legal cF)) SIdle tr = true ->
  env_ok sstate (s_step (resp_of cR mps) (ds_lat cR)) (s_env (req_legal cR)) SIdle tr = true ->
  let c := {| x_fixed := cF; x_runtime := cR; x_mps := mps |} in
  run (mxm_step c) (mxm_init c) tr = run (s_step (resp_mux cF cR mps) (mx_lat cF cR)) SIdle tr.
Proof. exact mux_refines. Qed.
Print Assumptions C09_mux_handler.

Theorem C09_mux_union : forall cF cR cU mps, (forall ty ix, find_desc cU ty ix = find2 cF cR ty ix) ->
  forall q, resp_mux cF cR mps q = resp_of cU mps q /\ legal_mux cF cR q = req_legal cU q.
Proof. exact resp_mux_union. Qed.
Print Assumptions C09_mux_union.

(* the same statement one level up: the mux over the two handlers' specification machines *)
Theorem C09_mux_of_specs : forall cF cR mps, disjoint_keys cF cR ->
  (forall ty ix d, find_desc cF ty ix = Some d -> bytes_ok d) -> (forall ty ix d, find_desc cR ty ix = Some d -> bytes_ok d) ->
  forall tr,
  env_ok sstate (s_step (resp_mux cF cR mps) (mx_lat cF cR)) (s_env (legal_mux cF cR)) SIdle tr = true ->
  env_ok sstate (s_step (resp_of cF mps) (bk_lat cF)) (s_env (req_legal cF)) SIdle tr = true ->
  env_ok sstate (s_step (resp_of cR mps) (ds_lat cR)) (s_env (req_legal cR)) SIdle tr = true ->
  run (mx_step (s_step (resp_of cF mps) (bk_lat cF)) (s_step (resp_of cR mps) (ds_lat cR))) (SIdle, SIdle, (false, false)) tr
  = run (s_step (resp_mux cF cR mps) (mx_lat cF cR)) SIdle tr.
Proof.
  intros cF cR mps Hd HF HR tr EU EB ED. apply (mux_spec_from cF cR mps Hd HF HR); try exact I; try assumption.
  left. repeat split; try reflexivity.
Qed.
Print Assumptions C09_mux_of_specs.

(* ---- sanity / non-vacuity ---- *)
Definition ex_coll : dcoll := coll_of_triples [(1, 0, [5; 1; 7; 8; 9]); (3, 2, [8; 3; 1; 2; 3; 4; 5; 6]); (3, 0, [4; 3; 9; 4])].

Example C09_ex_ok : coll_okb ex_coll = true /\ dist_okb ex_coll = true /\
  rom_of ex_coll = [0; 65552; 0; 131092; 327708; 262180; 524328; 83953416; 150994944; 67307780; 134414594; 50595078] /\
  index_map ex_coll = [(256, 0); (768, 0); (770, 1)].
Proof. vm_compute. repeat split. Qed.

(* the 8-byte string descriptor (type 3, index 2) read with wLength 255 in 4-byte packets: two full packets and a ZLP;
   with wLength 8: two full packets, no ZLP; the 5-byte device descriptor: a full and a 1-byte packet; absent: STALL *)
Example C09_ex_stages :
  data_stage 20 (respond ex_coll 4 770 255) 4 255 0 0 = ([[8; 3; 1; 2]; [3; 4; 5; 6]; []], false) /\
  data_stage 20 (respond ex_coll 4 770 8) 4 8 0 0 = ([[8; 3; 1; 2]; [3; 4; 5; 6]], false) /\
  data_stage 20 (respond ex_coll 4 256 255) 4 255 0 0 = ([[5; 1; 7; 8]; [9]], false) /\
  data_stage 20 (respond ex_coll 4 769 255) 4 255 0 0 = ([], true).
Proof. vm_compute. repeat split. Qed.

(* a legal cycle-level history for the block handler: request (value 0x0100, wLength 255, offset 4) -> the 1-byte
   second packet after 4 silent cycles; then request offset 8 of the 8-byte string descriptor -> ZLP pulse *)
Definition ex_trace : list N :=
  [mk_in 256 255 true 4 false; mk_in 256 255 false 4 false; mk_in 256 255 false 4 false; mk_in 256 255 false 4 false;
   mk_in 256 255 false 4 false; mk_in 256 255 false 4 true; 0;
   mk_in 770 255 true 8 true; mk_in 770 255 false 8 true; mk_in 770 255 false 8 true; mk_in 770 255 false 8 true;
   mk_in 770 255 false 8 true; 0].
Example C09_ex_run :
  env_ok sstate (s_step (resp_of ex_coll 4) (bk_lat ex_coll)) (s_env (req_legal ex_coll)) SIdle ex_trace = true /\
  run (s_step (resp_of ex_coll 4) (bk_lat ex_coll)) SIdle ex_trace =
    [0; 0; 0; 0; o_beat 9 true true; o_beat 9 true true; 0; 0; 0; 0; 0; o_zlp; 0] /\
  run (bk_step (block_cfg ex_coll 4)) bk_init ex_trace = run (s_step (resp_of ex_coll 4) (bk_lat ex_coll)) SIdle ex_trace /\
  env_ok sstate (s_step (resp_of ex_coll 4) (ds_lat ex_coll)) (s_env (req_legal ex_coll)) SIdle ex_trace = true /\
  run (ds_step (dist_gens ex_coll) 4) (ds_init (dist_gens ex_coll)) ex_trace =
    [0; 0; o_beat 9 true true; o_beat 9 true true; o_beat 9 true true; o_beat 9 true true; 0; 0; o_zlp; 0; 0; 0; 0].
Proof. vm_compute. repeat split. Qed.

(* the sequence that the unrepaired mux gets wrong (findings/C09-mux-stall-latch.json): a runtime descriptor (type 3,
   index 2, 8 bytes, behind the distributed handler), then a ROM descriptor (type 1, index 0): no stall in the second
   request's start cycle, the ROM descriptor's bytes follow *)
Definition ex_mux : mux_cfg := {| x_fixed := coll_of_triples [(1, 0, [5; 1; 7; 8; 9]); (3, 0, [6; 3; 9; 4; 7; 4])];
                                  x_runtime := coll_of_triples [(3, 2, [8; 3; 1; 2; 3; 4; 5; 6])]; x_mps := 4 |}.
Definition ex_mux_trace : list N :=
  [mk_in 770 255 true 4 true; mk_in 770 255 false 4 true; mk_in 770 255 false 4 true; mk_in 770 255 false 4 true;
   mk_in 770 255 false 4 true; mk_in 770 255 false 4 true; mk_in 770 255 false 4 true; 0;
   mk_in 256 2 true 0 true; mk_in 256 2 false 0 true; mk_in 256 2 false 0 true; mk_in 256 2 false 0 true;
   mk_in 256 2 false 0 true; mk_in 256 2 false 0 true; 0].
Example C09_ex_mux_run :
  coll_okb (x_fixed ex_mux) = true /\ coll_okb (x_runtime ex_mux) = true /\ dist_okb (x_runtime ex_mux) = true /\
  disjointb (x_fixed ex_mux) (x_runtime ex_mux) = true /\
  env_ok sstate (s_step (resp_mux (x_fixed ex_mux) (x_runtime ex_mux) 4) (mx_lat (x_fixed ex_mux) (x_runtime ex_mux)))
         (s_env (legal_mux (x_fixed ex_mux) (x_runtime ex_mux))) SIdle ex_mux_trace = true /\
  env_ok sstate (s_step (resp_of (x_fixed ex_mux) 4) (bk_lat (x_fixed ex_mux))) (s_env (req_legal (x_fixed ex_mux))) SIdle ex_mux_trace = true /\
  env_ok sstate (s_step (resp_of (x_runtime ex_mux) 4) (ds_lat (x_runtime ex_mux))) (s_env (req_legal (x_runtime ex_mux))) SIdle ex_mux_trace = true /\
  run (mxm_step ex_mux) (mxm_init ex_mux) ex_mux_trace =
    [0; 0; o_beat 3 true false; o_beat 4 false false; o_beat 5 false false; o_beat 6 false true; 0; 0;
     0; 0; 0; 0; o_beat 5 true false; o_beat 1 false true; 0].
Proof. vm_compute. repeat split. Qed.
