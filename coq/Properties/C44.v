(* C44 -- Idle handshake and U0 link timers meet their timing rules.
   Models and specifications: Model/IdleHs.v (IdleHandshakeHandler, parametric in n =
   RX_CYCLES_REQUIRED) and Model/LinkTimers.v (LinkMaintenanceTimers, parametric in the timeouts
   Tk, Tr in cycles and the register widths wk, wr).  One list element = one "ss" clock cycle
   (4 symbols are received and 4 are sent per cycle).  hist = earlier input words, most recent first.

   Idle handshake
     C44_idle_model_spec: for every n and input history the model's outputs are spec_trace.
     C44_idle_complete_iff: the specification reports the handshake complete in a cycle iff enable is
       high now and was high in the n preceding cycles (>= 4n = 16 symbols sent since it started)
       and in some earlier cycle of this enable run the word of that cycle and the word before it
       were both VALID logical-idle words (data 0, ctrl 0, sink.valid): eight consecutive valid
       logical-idle symbols.  ("only after" is the left-to-right direction.)
     C44_idle_ignoring_valid_refuted: treating words as idle regardless of sink.valid (what the
       code in /repo does) does not meet the specification.
   U0 timers (quiet ev hist = number of most recent consecutive cycles in U0 without event ev)
     C44_timers_model_spec: for all Tk Tr wk wr and histories the model's outputs are spec_trace.
     C44_recovery_exact / C44_keepalive_exact: while the register has not wrapped, the strobe is high
       exactly in the cycle with T-1 quiet cycles behind it = T cycles after the last received
       (sent) link command / header packet (or after entering U0): never earlier, always then.   *)
From Coq Require Import NArith List Bool. Import ListNotations.
From LunaLib Require Import Netlist Machine.
From LunaModel Require Import IdleHs IdleHs_proofs LinkTimers LinkTimers_proofs.
Open Scope N_scope.

Module I := IdleHs. Module IP := IdleHs_proofs. Module T := LinkTimers. Module TP := LinkTimers_proofs.

Theorem C44_idle_model_spec : forall n ins, run (I.ih_step n) I.ih_init ins = I.spec_trace n [] ins.
Proof. exact IP.ih_from_reset. Qed.
Print Assumptions C44_idle_model_spec.

Theorem C44_idle_complete_iff : forall n hist i,
  I.o_complete (I.spec_out n hist i) = true <->
  I.i_enable i = true /\ (N.to_nat n <= I.en_run hist)%nat /\
  exists s j j', nth_error hist s = Some j /\ nth_error hist (S s) = Some j' /\
                 I.is_idle j = true /\ I.is_idle j' = true /\ (s < I.en_run hist)%nat.
Proof. exact IP.ih_complete_iff. Qed.
Print Assumptions C44_idle_complete_iff.

(* en_run: the k most recent cycles all had enable = 1 *)
Theorem C44_idle_en_run : forall hist k, (k < I.en_run hist)%nat ->
  exists j, nth_error hist k = Some j /\ I.i_enable j = true.
Proof. exact IP.en_run_nth. Qed.
Print Assumptions C44_idle_en_run.

Theorem C44_idle_ignoring_valid_refuted : exists ins,
  run (IP.ih_step_novalid 4) {| I.lv := true; I.lw := 0; I.lc := 0; I.seen := false; I.cnt := 0 |} ins
  <> I.spec_trace 4 [] ins.
Proof. exact IP.ih_ignoring_valid_refuted. Qed.
Print Assumptions C44_idle_ignoring_valid_refuted.

Theorem C44_timers_model_spec : forall Tk Tr wk wr ins,
  run (T.tm_step Tk Tr wk wr) T.tm_init ins = T.spec_trace Tk Tr wk wr [] ins.
Proof. exact TP.tm_from_reset. Qed.
Print Assumptions C44_timers_model_spec.

Theorem C44_recovery_exact : forall Tk Tr wk wr hist, N.of_nat (T.quiet T.i_rx hist) < 2 ^ wr ->
  (T.o_recovery (T.spec_out Tk Tr wk wr hist) = true <-> N.of_nat (T.quiet T.i_rx hist) + 1 = Tr).
Proof. exact TP.recovery_exact. Qed.
Print Assumptions C44_recovery_exact.

Theorem C44_keepalive_exact : forall Tk Tr wk wr hist, N.of_nat (T.quiet T.i_tx hist) < 2 ^ wk ->
  (T.o_keepalive (T.spec_out Tk Tr wk wr hist) = true <-> N.of_nat (T.quiet T.i_tx hist) + 1 = Tk).
Proof. exact TP.keepalive_exact. Qed.
Print Assumptions C44_keepalive_exact.

(* quiet: the q most recent cycles were in U0 without the event; the one before was not *)
Theorem C44_quiet_meaning : forall ev hist,
  (forall k, (k < T.quiet ev hist)%nat -> exists j, nth_error hist k = Some j /\ T.i_enable j = true /\ ev j = false) /\
  (forall j, nth_error hist (T.quiet ev hist) = Some j -> T.i_enable j = false \/ ev j = true).
Proof. intros. split; [apply TP.quiet_nth | apply TP.quiet_stop]. Qed.
Print Assumptions C44_quiet_meaning.

(* ---- non-vacuity / concrete runs ---- *)
(* idle handshake, n = 4: two valid idle words in cycles 1,2 while enabled from cycle 0;
   complete from cycle 4 on (4 enabled cycles behind), not earlier; drops with enable. *)
Example C44_idle_example :
  map (fun o => (I.o_detected o, I.o_complete o))
      (run (I.ih_step 4) I.ih_init
           [I.mk_in true true 5 0; I.mk_in true true 0 0; I.mk_in true true 0 0; I.mk_in true true 7 0;
            I.mk_in true false 0 0; I.mk_in true false 0 0; I.mk_in false true 0 0; I.mk_in true true 0 0])
  = [(false, false); (false, false); (true, false); (false, false);
     (false, true); (false, true); (false, false); (true, false)].
Proof. vm_compute. reflexivity. Qed.

(* timers with Tk = 3, Tr = 5: enabled and silent: keepalive at cycles 2, recovery at cycle 4;
   a received packet at cycle 5 restarts the recovery timer (next strobe 5 cycles later). *)
Example C44_timers_example :
  map (fun o => (T.o_keepalive o, T.o_recovery o))
      (run (T.tm_step 3 5 2 3) T.tm_init [1; 1; 1; 9; 1; 5; 1; 1; 1; 1; 1])
  = [(false,false); (false,false); (true,false); (false,false); (false,true); (false,false);
     (true,false); (false,false); (false,false); (false,false); (true,true)].
Proof. vm_compute. reflexivity. Qed.
