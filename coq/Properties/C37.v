(* C37 -- Received header packets are accepted, acknowledged and buffered exactly.

   Model/HdrRx.v holds (a) the SPECIFICATION: the declarative header parser rs_next with the verdict hdr_crc_ok
   (standard CRC-5 / CRC-16 of Model/Crc.v) and the bookkeeping monitor sp_mon (a FIFO of accepted headers, LGOODs /
   LCRDs / LBAD owed, the partner's credits), and (b) the code-shaped MODELS raw_step / core_step / hr_step of
   luna/gateware/usb/usb3/link/receiver.py.  All statements are for every trace length; the bookkeeping ones are
   parametric in the buffer count n = 2^pw (pw <= 4), the counter width cw (n < 2^cw) and the sequence width sw <= 4.

   How to read "sp_accepts ... = true" (sp_mon, Model/HdrRx.v section 2): in every cycle, as long as the link
   partner respected its credit rules so far,
     - queue.valid is high exactly when an accepted header has not been taken yet, and queue.header is the OLDEST
       such header; a header enters that FIFO in the cycle it is accepted and leaves it when queue.ready takes it
       (each accepted header is offered exactly once, in order);
     - a header is accepted iff the raw receiver reports a good in-sequence header, no corrupted header is
       outstanding (s_ign: set by a corrupted header, cleared by the partner's retry) and the link is up;
     - a completed LGOOD is owed (one per accepted header, plus the advertisement) and carries the next number in
       sequence: the k-th accepted header, which carries sequence number e0 + k, is acknowledged by LGOOD (e0 + k);
     - a completed LCRD is owed (one per buffer at link entry, one per header taken by the protocol layer) and
       carries the next index A, B, C, D, A, ...; consequently partner credits + buffered + owed = n at all times;
     - a completed LBAD is owed (a corrupted header was seen while not ignoring);
     - nothing but LGOOD precedes the advertisement; only LGOOD/LCRD/LBAD/LRTY/LXU/keepalive words ever appear. *)
From Coq Require Import NArith List Bool.
Import ListNotations.
From LunaLib Require Import Netlist Machine.
From LunaModel Require Import Crc HdrRx HdrRx_proofs.
Open Scope N_scope.

(* 1. header acceptance: in every cycle the raw receiver model's (new_packet, bad_packet, bad_sequence, packet)
      are those of the declarative parser + CRC verdict, for every sink history and every expected-sequence history *)
Theorem C37_raw_receiver_verdict : forall ws : list (word * N),
  raw_trace raw_init ws = rsx_trace rsx_init ws.
Proof. exact raw_meets_spec. Qed.
Print Assumptions C37_raw_receiver_verdict.

(* 2. bookkeeping: every run of the model, for all event / consumption / source.ready timings, is accepted by the
      specification monitor *)
Theorem C37_bookkeeping_meets_spec : forall n pw cw sw down, n = 2 ^ pw -> n < 2 ^ cw -> pw <= 4 -> sw <= 4 ->
  forall ins : list cin,
  sp_accepts n sw down (sp_fresh n sw 0) (core_ios n pw cw sw down (core_init n cw sw) ins) = true.
Proof. exact core_meets_spec. Qed.
Print Assumptions C37_bookkeeping_meets_spec.

(* 3. the complete receiver (raw receiver feeding the bookkeeping) against the sink-level specification: parser and
      verdict computed from the sink words, compared with the specification's own expected sequence number *)
Theorem C37_receiver_meets_spec : forall n pw cw sw down, n = 2 ^ pw -> n < 2 ^ cw -> pw <= 4 -> sw <= 4 ->
  forall ins : list hin,
  hs_accepts n sw down (rsx_init, sp_fresh n sw 0) (hr_ios n pw cw sw down (hr_init n cw sw) ins) = true.
Proof. exact hr_meets_spec. Qed.
Print Assumptions C37_receiver_meets_spec.

(* 4. what acceptance by sp_mon means for histories: over any stretch in which the link stays up and the monitor
      accepts (sp_run = Some ...), the headers handed to the protocol layer followed by those still queued are exactly
      the headers queued before followed by the headers accepted -- each accepted header is offered once, in order *)
Theorem C37_exactly_once_in_order : forall n sw down ios g gf a d,
  Forall (fun io => restart (fst io) = false) ios ->
  sp_run n sw down g ios = Some (gf, a, d) -> s_q g ++ a = d ++ s_q gf.
Proof. exact sp_fifo. Qed.
Print Assumptions C37_exactly_once_in_order.

(* ---- non-vacuity: a concrete U0 history of the complete receiver (n = 4, 3-bit sequence numbers) in which the
   partner keeps its rules in every cycle: advertisement LGOOD 7, LCRD A..D, then LUNA's own test header
   (sequence number 0) is accepted, offered on the queue, acknowledged by LGOOD 0, taken, and its buffer re-advertised
   by LCRD A; then a corrupted copy triggers an LBAD. *)
Definition ex_ctl (qrdy : bool) (v : bool) (d c : N) : hin :=
  {| h_en := true; h_rst := false; h_qrdy := qrdy; h_retry_rx := false; h_retry_req := false; h_keep := false;
     h_rej := false; h_srdy := true; h_sink := {| w_valid := v; w_data := d; w_ctrl := c |} |}.
Definition ex_idle (k : nat) : list hin := repeat (ex_ctl false true 0 0) k.
Definition ex_hdr (last : N) : list hin :=
  [ex_ctl false true HP_START 15; ex_ctl false true 0x280 0; ex_ctl false true 0x10004 0; ex_ctl false true 0 0;
   ex_ctl false true last 0].
Definition ex_trace : list hin :=
  ex_idle 16 ++ ex_hdr 0x10001845 ++ ex_idle 6 ++ [ex_ctl true true 0 0] ++ ex_idle 8 ++ ex_hdr 0x10001844 ++ ex_idle 8.

(* every cycle of the run satisfies the partner's rules (so acceptance by the monitor is not vacuous) and the
   commands completed on the source are exactly these *)
Fixpoint hs_env_all (n sw : N) (down : bool) (st : rsx * sp_state) (ios : list (hin * cout)) : bool :=
  match ios with
  | [] => true
  | (i, o) :: t => match hs_mon n sw down st i o with None => false | Some (st', ok) => ok && hs_env_all n sw down st' t end
  end.
Definition ex_ios := hr_ios 4 2 3 3 false (hr_init 4 3 3) ex_trace.
Definition cmds_of (ios : list (hin * cout)) : list (N * N) :=
  flat_map (fun io => match completed (hr_cin raw_init (core_init 4 3 3) (fst io)) (snd io) with Some c => [c] | None => [] end) ios.
Example C37_example :
  hs_env_all 4 3 false (rsx_init, sp_fresh 4 3 0) ex_ios = true /\
  cmds_of ex_ios = [(LGOOD, 7); (LCRD, 0); (LCRD, 1); (LCRD, 2); (LCRD, 3); (LGOOD, 0); (LCRD, 0); (LBAD, 0)] /\
  map (fun io => o_qvalid (snd io)) (firstn 8 (skipn 22 ex_ios)) = [false; true; true; true; true; true; false; false].
Proof. vm_compute. repeat split. Qed.
