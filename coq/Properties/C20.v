From Coq Require Import NArith List Bool. Import ListNotations.
From LunaLib Require Import Netlist Machine.
From LunaModel Require Import C20_TxPath C20_TxPath_proofs.
Open Scope N_scope.
