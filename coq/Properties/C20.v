(* C20 -- everything the USB2 device transmits is a well-formed, solicited packet  (PARTIAL, see below).
   Model and specification: Model/C20_TxPath.v.  One list element = one `usb` clock cycle.

   What is a THEOREM here (about the hand models; tied to the code by props/C20.py):
     1-3  the one-hot multiplexer (OneHotMultiplexer / UTMIInterfaceMultiplexer, any number of sources): with mutually
          exclusive valids the output IS the valid source; with none valid it is idle; with two valid it carries source
          0's data -- so exclusion is necessary, not a formality;
     4-6  the transmit path of USBDevice (handshake generator + data generator + shared CRC16 unit fed from the
          multiplexer output + chirp source): under the request discipline txq_env it equals, cycle by cycle, the
          bus-owner specification built from the C04 and C03 specification machines; its three sources are never
          valid together; every completed maximal tx_valid run hands the PHY exactly one well-formed packet
          (a handshake byte, or PID ++ payload ++ CRC16(payload));
     7    the boolean packet checker used by the run-time observers decides the declarative predicate wf_tx_packet;
     9    for the bulk/interrupt IN endpoint model (C11's InXfer): handshake request and data request never coincide and
          are made only in response to an answerable IN token for the endpoint (one instance of the discipline's origin).
   What is only MONITORED on simulator runs of the complete device (props/C20.py, observers c20_wire_mon / c20_disc_mon):
     that the endpoints respect the request discipline, that every transmission is solicited by a token / data packet
     addressed to the device, and that it never overlaps rx_active.  These are not proved.                          *)
From Coq Require Import NArith List Bool. Import ListNotations.
From LunaLib Require Import Netlist Machine.
From LunaModel Require Import Crc Handshake Usb2DataTx TokenDet InXfer C20_TxPath C20_TxPath_proofs.
Open Scope N_scope.

(* 1. exactly one source valid (or-signals of the others low): the multiplexer output is that source, for any
      number of sources and any data *)
Theorem C20_mux_exclusive : forall (l : list ohm_src) j, (j < length l)%nat -> s_valid (src_at l j) = true ->
  (forall j', j' <> j -> s_valid (src_at l j') = false /\ s_or (src_at l j') = 0) ->
  ohm_out l = src_at l j.
Proof. exact ohm_exclusive. Qed.
Print Assumptions C20_mux_exclusive.

(* 2. no source valid: the output is not valid *)
Theorem C20_mux_idle : forall l, (forall j, s_valid (src_at l j) = false) -> s_valid (ohm_out l) = false.
Proof. exact ohm_none. Qed.
Print Assumptions C20_mux_idle.

(* 3. two sources valid together: valid is high and the data lines are source 0's (Encoder reports "invalid", o = 0),
      whether or not source 0 is transmitting -- the merged packet belongs to nobody *)
Theorem C20_mux_overlap : forall l j k, (j < length l)%nat -> (k < length l)%nat -> j <> k ->
  s_valid (src_at l j) = true -> s_valid (src_at l k) = true ->
  s_valid (ohm_out l) = true /\ s_data (ohm_out l) = s_data (src_at l 0).
Proof. exact ohm_overlap. Qed.
Print Assumptions C20_mux_overlap.

(* 4. transmit path = bus-owner specification, every cycle of every request history that respects the discipline
      (tx_data compared only while tx_valid is high) *)
Theorem C20_txpath_refines : forall tr, tenv_ok txq_tstep txq_env txq_init tr = true ->
  map txp_norm (trun txp_tstep txp_init tr) = trun txq_tstep txq_init tr.
Proof. exact txp_from_reset. Qed.
Print Assumptions C20_txpath_refines.

(* 5. per pair of transmitters: (reset sequencer, data generator), (reset sequencer, handshake generator),
      (data generator, handshake generator) are never valid in the same cycle *)
Theorem C20_txpath_exclusive : forall tr, tenv_ok txq_tstep txq_env txq_init tr = true ->
  forallb at_most_one (trun txp_tstep txp_init tr) = true.
Proof. exact txp_exclusive. Qed.
Print Assumptions C20_txpath_exclusive.

(* 6. outside reset chirping, the bytes the PHY accepts in each completed maximal tx_valid run form one well-formed
      packet *)
Theorem C20_txpath_runs_wellformed : forall tr, tenv_ok txq_tstep txq_env txq_init tr = true -> nochirp tr ->
  Forall wf_tx_packet (tx_runs None (combine tr (trun txp_tstep txp_init tr))).
Proof. exact txp_runs_wellformed. Qed.
Print Assumptions C20_txpath_runs_wellformed.

(* 7. the checker the observers evaluate is the declarative predicate *)
Theorem C20_checker_correct : forall l, wf_tx_packetb l = true <-> wf_tx_packet l.
Proof. exact wf_tx_packetb_spec. Qed.
Print Assumptions C20_checker_correct.

(* 8. the observer state survives its N packing (the oracle runs the typed observer) *)
Theorem C20_observer_packing : forall s, w_wf s -> w_dec (w_enc s) = s.
Proof. exact w_dec_enc. Qed.
Print Assumptions C20_observer_packing.

(* 9. where the discipline comes from, for the one kind of endpoint whose model exposes both request lines (bulk /
      interrupt IN, Model/InXfer.v): its NAK request and its data request never coincide; each is made only in
      response to an answerable IN token for the endpoint (the data packet in that cycle -- zero length -- or the next) *)
Theorem C20_bulk_in_requests_exclusive : forall mps ep st i,
  let o := ix_outf mps ep st i in o_nak o && o_valid o = false.
Proof. exact inxfer_requests_exclusive. Qed.
Print Assumptions C20_bulk_in_requests_exclusive.

Theorem C20_bulk_in_requests_triggered : forall fa fr mps ep st i,
  (o_nak (ix_outf mps ep st i) = true -> tok ep i = true) /\
  (x_fsm st <> SEND -> o_valid (ix_outf mps ep st i) = true -> tok ep i = true) /\
  (x_fsm st <> SEND -> x_fsm (ix_next fa fr mps ep st i) = SEND -> tok ep i = true).
Proof.
  intros. split; [apply inxfer_nak_trigger | split; [apply inxfer_zlp_trigger | apply inxfer_data_trigger]].
Qed.
Print Assumptions C20_bulk_in_requests_triggered.

(* ---- concrete runs (non-vacuity) ---------------------------------------------------------------------- *)
(* request word: ack nak stall | dpid | valid first last | payload | tx_ready | rx_valid *)
Definition c20_in (ack nak stall dpid v f l pl rdy rxv : N) : N :=
  ack + 2 * nak + 4 * stall + 8 * dpid + 32 * v + 64 * f + 128 * l + 256 * pl + 65536 * rdy + 131072 * rxv.

(* an ACK (PHY ready two cycles later), then a DATA1 packet with payload 80 06, then a NAK: disciplined *)
Definition c20_good : list N :=
  [c20_in 1 0 0 0 0 0 0 0 0 0;                             (* ACK requested *)
   c20_in 0 0 0 0 0 0 0 0 0 0; c20_in 0 0 0 0 0 0 0 0 1 0; (* offered, taken *)
   c20_in 0 0 0 0 0 0 0 0 1 0;
   c20_in 0 0 0 1 1 1 0 128 1 0;                           (* data request *)
   c20_in 0 0 0 1 1 1 0 128 1 0;                           (* PID taken *)
   c20_in 0 0 0 1 1 1 0 128 0 0; c20_in 0 0 0 1 1 1 0 128 1 0;   (* 80 taken on the 2nd cycle *)
   c20_in 0 0 0 1 1 0 1 6 1 0;                             (* 06, last *)
   c20_in 0 0 0 0 0 0 0 0 1 0; c20_in 0 0 0 0 0 0 0 0 1 0; (* CRC low, high *)
   c20_in 0 0 0 0 0 0 0 0 1 0;
   c20_in 0 1 0 0 0 0 0 0 1 0;                             (* NAK requested *)
   c20_in 0 0 0 0 0 0 0 0 1 0; c20_in 0 0 0 0 0 0 0 0 1 0].

Example C20_good_env : tenv_ok txq_tstep txq_env txq_init c20_good = true.
Proof. vm_compute. reflexivity. Qed.
Example C20_good_runs :
  tx_runs None (combine c20_good (trun txp_tstep txp_init c20_good))
  = [[hs_byte ACK]; tx_wire 75 [128; 6]; [hs_byte NAK]].
Proof. vm_compute. reflexivity. Qed.
Example C20_good_checked :
  forallb wf_tx_packetb (tx_runs None (combine c20_good (trun txp_tstep txp_init c20_good))) = true.
Proof. vm_compute. reflexivity. Qed.

(* an ACK requested while a payload byte waits for the PHY: the discipline is broken, two sources are valid together,
   the PHY is handed source 0's data (00) instead of the payload byte 80 -- the packet is "well-formed" (the CRC unit
   sees the multiplexer output) but carries a byte nobody sent, and the ACK is lost *)
Definition c20_bad : list N :=
  [c20_in 0 0 0 1 1 1 0 128 1 0; c20_in 0 0 0 1 1 1 0 128 1 0;
   c20_in 1 0 0 1 1 1 0 128 0 0;                           (* ACK request during the payload, PHY not ready *)
   c20_in 0 0 0 1 1 1 0 128 1 0;
   c20_in 0 0 0 1 1 0 1 6 1 0;
   c20_in 0 0 0 0 0 0 0 0 1 0; c20_in 0 0 0 0 0 0 0 0 1 0; c20_in 0 0 0 0 0 0 0 0 1 0; c20_in 0 0 0 0 0 0 0 0 1 0].
Example C20_bad_env : tenv_ok txq_tstep txq_env txq_init c20_bad = false.
Proof. vm_compute. reflexivity. Qed.
Example C20_bad_overlaps : forallb at_most_one (trun txp_tstep txp_init c20_bad) = false.
Proof. vm_compute. reflexivity. Qed.
Example C20_bad_merged :
  tx_runs None (combine c20_bad (trun txp_tstep txp_init c20_bad)) = [tx_wire 75 [0; 6]].
Proof. vm_compute. reflexivity. Qed.
(* the same with the ACK requested while the PID byte waits: the PID is replaced by 00 -- not a packet at all *)
Definition c20_bad2 : list N :=
  [c20_in 0 0 0 1 1 1 0 128 1 0;
   c20_in 1 0 0 1 1 1 0 128 0 0;                           (* ACK request while the PID byte waits for the PHY *)
   c20_in 0 0 0 1 1 1 0 128 1 0;
   c20_in 0 0 0 1 1 1 0 128 1 0;
   c20_in 0 0 0 1 1 0 1 6 1 0;
   c20_in 0 0 0 0 0 0 0 0 1 0; c20_in 0 0 0 0 0 0 0 0 1 0; c20_in 0 0 0 0 0 0 0 0 1 0; c20_in 0 0 0 0 0 0 0 0 1 0].
Example C20_bad2_malformed :
  forallb wf_tx_packetb (tx_runs None (combine c20_bad2 (trun txp_tstep txp_init c20_bad2))) = false.
Proof. vm_compute. reflexivity. Qed.
(* receive bytes while a data packet is being sent corrupt its CRC (the CRC unit gives rx_valid priority): the
   half-duplex hypothesis is needed for well-formedness, not only for politeness *)
Definition c20_rx_during_tx : list N :=
  [c20_in 0 0 0 1 1 1 0 128 1 0; c20_in 0 0 0 1 1 1 0 128 1 0;
   c20_in 0 0 0 1 1 1 0 128 1 1;                           (* utmi.rx_valid while 80 is on the bus *)
   c20_in 0 0 0 1 1 0 1 6 1 0;
   c20_in 0 0 0 0 0 0 0 0 1 0; c20_in 0 0 0 0 0 0 0 0 1 0; c20_in 0 0 0 0 0 0 0 0 1 0].
Example C20_rx_during_tx_malformed :
  forallb wf_tx_packetb (tx_runs None (combine c20_rx_during_tx (trun txp_tstep txp_init c20_rx_during_tx))) = false.
Proof. vm_compute. reflexivity. Qed.

(* the wire observer on a hand-made complete-device trace: IN token for address 0, endpoint 0; NAK in reply: accepted;
   the same reply without the token: rejected as unsolicited.
   device inputs: rx_active + 2 rx_valid + 4 rx_data + 1024 tx_ready; outputs: tx_valid + 2 tx_data + 512 srcs(3) + 4096 addr *)
Definition c20_dev_in (act val dat rdy : N) : N := act + 2 * val + 4 * dat + 1024 * rdy.
Definition c20_dev_out (txv txd srcs : N) : N := txv + 2 * txd + 512 * srcs.
Definition c20_tok_ios : list (N * N) :=
  [(c20_dev_in 1 0 0 1, 0); (c20_dev_in 1 1 105 1, 0); (c20_dev_in 1 1 0 1, 0); (c20_dev_in 1 1 16 1, 0);
   (c20_dev_in 0 0 0 1, 0); (c20_dev_in 0 0 0 1, 0); (c20_dev_in 0 0 0 1, 0);
   (c20_dev_in 0 0 0 0, c20_dev_out 1 90 4); (c20_dev_in 0 0 0 1, c20_dev_out 1 90 4); (c20_dev_in 0 0 0 1, 0)].
Example C20_observer_accepts : first_bad (c20_wire_mon 16) 0 (w_enc w_init) c20_tok_ios = None.
Proof. vm_compute. reflexivity. Qed.
Example C20_observer_rejects_unsolicited :
  first_bad (c20_wire_mon 16) 0 (w_enc w_init) (skipn 5 c20_tok_ios) = Some 2.
Proof. vm_compute. reflexivity. Qed.
Example C20_observer_rejects_overlap :
  first_bad (c20_wire_mon 16) 0 (w_enc w_init)
            [(c20_dev_in 1 0 0 1, 0); (c20_dev_in 1 1 105 1, c20_dev_out 1 90 4)] = Some 1.
Proof. vm_compute. reflexivity. Qed.
