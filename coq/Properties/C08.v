(* C08 -- Address and configuration change only when their request completes.

   Interface-event level (Model/C08_AddrCfg.v): one `ev` per usb-domain cycle carrying SetupPacket.received/type/request/value,
   TokenDetectorInterface.new_token (a token for ANY endpoint of this device), the control endpoint's status_requested
   strobe, handshakes_in.ack (broadcast to all endpoints) and the reset sequencer's bus_reset.
   Specification: the four-field machine sp_next (pending request with its wValue, armed = status stage answered and no
   token since, address, configuration).  Model: request-handler FSM + expecting_ack registers + device registers. *)
From Coq Require Import NArith List Bool. Import ListNotations.
From LunaLib Require Import Machine.
From LunaModel Require Import C08_AddrCfg C08_AddrCfg_proofs.
Open Scope N_scope.

(* The code-shaped model shows, in every cycle of every event history (any length) in which the setup decoder's fields
   change only together with `received`, exactly the registers of the specification. *)
Theorem C08_model_meets_spec : forall tr, setup_stable ev0 tr = true ->
  ev_run m_step m_init tr = ev_run sp_step sp_init tr.
Proof. exact model_meets_spec. Qed.
Print Assumptions C08_model_meets_spec.

(* A bus reset returns the device to address 0 and configuration 0 (from any state). *)
Theorem C08_bus_reset : forall s e, e_reset e = true -> sp_addr (sp_next s e) = 0 /\ sp_cfg (sp_next s e) = 0.
Proof. exact spec_bus_reset. Qed.
Print Assumptions C08_bus_reset.

(* Only on completion: if the event after history tr changes the address (k = true) or configuration (k = false) and is
   not a bus reset, then it carries an ACK and no setup packet, and tr = pre ++ es :: mid1 ++ ez :: mid2 where es is the
   setup packet of a standard SET_ADDRESS / SET_CONFIGURATION request with wValue v, no setup packet follows es, ez is a
   cycle in which the status stage was answered, no token follows ez -- and the new register value is v mod 128 / v mod 256. *)
Theorem C08_change_only_on_completion : forall k tr e,
  let s := sp_run_state sp_init tr in
  e_reset e = false -> reg_of k (sp_next s e) <> reg_of k s ->
  e_ack e = true /\ e_recv e = false /\
  exists v, armed_hist tr k v /\ reg_of k (sp_next s e) = val_of k v.
Proof. exact spec_change_only_on_completion. Qed.
Print Assumptions C08_change_only_on_completion.

(* Handshakes of other endpoints' transactions: an ACK that follows a token (for whatever endpoint) since which the
   control endpoint has not answered a status stage changes neither register. *)
Theorem C08_foreign_handshake : forall s etok mid e,
  e_tok etok = true -> Forall (fun x => e_status x = false) (etok :: mid) -> e_reset e = false ->
  let s' := sp_run_state s (etok :: mid) in
  sp_addr (sp_next s' e) = sp_addr s' /\ sp_cfg (sp_next s' e) = sp_cfg s'.
Proof. exact spec_foreign_handshake. Qed.
Print Assumptions C08_foreign_handshake.

(* Takes effect: setup packet (SET_x, v); then anything but a setup packet or a status-stage answer (tokens and ACKs of
   other endpoints' transfers, bus resets, ...); the status stage is answered; no token and no ACK (a lost handshake is
   followed by a token); the ACK arrives: the register holds v (truncated), and the request is no longer pending. *)
Theorem C08_takes_effect : forall k v s es mid1 ez mid2 ea,
  e_recv es = true -> classify es = Some (k, v) ->
  Forall (fun x => e_recv x = false /\ e_status x = false) mid1 ->
  e_recv ez = false -> e_status ez = true ->
  Forall (fun x => e_recv x = false /\ e_tok x = false /\ e_ack x = false) mid2 ->
  e_ack ea = true -> e_recv ea = false -> e_reset ea = false ->
  let s' := sp_run_state s (es :: mid1 ++ ez :: mid2 ++ [ea]) in
  reg_of k s' = val_of k v /\ sp_pend s' = None.
Proof. exact spec_takes_effect. Qed.
Print Assumptions C08_takes_effect.

(* Exactly once: after the completing ACK only a bus reset changes the registers until the next setup packet. *)
Theorem C08_exactly_once : forall s e c mid e2, sp_commit s e = Some c -> Forall norecv mid ->
  e_recv e2 = false -> e_reset e2 = false ->
  let s' := sp_run_state (sp_next s e) mid in
  sp_addr (sp_next s' e2) = sp_addr s' /\ sp_cfg (sp_next s' e2) = sp_cfg s'.
Proof. exact spec_exactly_once. Qed.
Print Assumptions C08_exactly_once.

(* Non-vacuity / concrete run.  SET_ADDRESS(0x1B1) setup; a token and an ACK of another endpoint's IN transfer (ignored);
   token for the status stage; status answered; ACK: address = 0x31 from the next cycle on.  Then SET_CONFIGURATION(2)
   whose status-stage ACK is lost (a token follows instead), a stray ACK (ignored), and a bus reset. *)
Definition ex_setup (req v : N) := mkEv true 0 req v false false false false.
Definition ex_hold (req v : N) (tok st ack rst : bool) := mkEv false 0 req v tok st ack rst.
Definition ex_trace : list ev :=
  [ ex_setup 5 433; ex_hold 5 433 true false false false; ex_hold 5 433 false false true false;
    ex_hold 5 433 true false false false; ex_hold 5 433 false true false false; ex_hold 5 433 false false true false;
    ex_hold 5 433 false false false false;
    ex_setup 9 2; ex_hold 9 2 true false false false; ex_hold 9 2 false true false false;
    ex_hold 9 2 true false false false; ex_hold 9 2 false false true false; ex_hold 9 2 false false false true;
    ex_hold 9 2 false false false false ].
Example C08_example_env : setup_stable ev0 ex_trace = true.
Proof. reflexivity. Qed.
Example C08_example_run :
  ev_run m_step m_init ex_trace = [0; 0; 0; 0; 0; 0; 49; 49; 49; 49; 49; 49; 49; 0].
Proof. reflexivity. Qed.
Example C08_example_spec :
  ev_run sp_step sp_init ex_trace = [0; 0; 0; 0; 0; 0; 49; 49; 49; 49; 49; 49; 49; 0].
Proof. reflexivity. Qed.
(* the hypotheses of C08_takes_effect are satisfiable: it applies to the first six events above *)
Example C08_example_takes_effect :
  reg_of true (sp_run_state sp_init (firstn 6 ex_trace)) = 49.
Proof. reflexivity. Qed.
