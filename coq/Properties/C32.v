(* C32 -- Receive CTC removes exactly the SKP symbols and nothing else.
   Model: LunaModel.SkipRemover (CTCSkipRemover of luna/gateware/usb/usb3/physical/ctc.py), parametric in the
   number W >= 1 of symbols per stream word (LUNA: W = 4; buffer of 2W symbols; fill counter with its real
   width).  A symbol is data + 256*ctrl; SKP = 256 + 0x3C.  One list element = one clock cycle.

   Specification (sp_step): an unbounded FIFO of symbols -- each cycle, if at least W symbols are queued the
   oldest W leave as one word, then the non-SKP symbols of a valid input word are appended.

   Hypothesis of every theorem: source.ready = 1 in every cycle (as wired in the physical layer); input
   words, their validity and the SKP positions are arbitrary.  Trace length is unbounded. *)
From Coq Require Import NArith List Bool. Import ListNotations.
From LunaLib Require Import Netlist Machine SymWord.
From LunaModel Require Import SkipRemover SkipRemover_proofs.

(* (1) cycle-exact: the shift-register model and the FIFO specification produce the same output
   (word or nothing) in every cycle *)
Theorem C32_ctc_refines_fifo : forall W, (1 <= W)%nat -> forall ins,
  Forall (fun i => ir i = true /\ length (isyms i) = W) ins ->
  trun (ctc_step W) (ctc_init W) ins = trun (sp_step W) [] ins.
Proof. exact ctc_refines_fifo. Qed.
Print Assumptions C32_ctc_refines_fifo.

(* (2) the stream property: output symbols, in order, followed by the fewer-than-2W symbols still buffered,
   are exactly the input symbols (of valid words) with every SKP removed -- no loss, no duplication, no
   reordering; every output word carries exactly W symbols *)
Theorem C32_ctc_stream : forall W, (1 <= W)%nat -> forall ins,
  Forall (fun i => ir i = true /\ length (isyms i) = W) ins ->
  let outs := trun (ctc_step W) (ctc_init W) ins in
  exists pending, (length pending < 2 * W)%nat /\
    out_stream outs ++ pending = keep (in_stream ins) /\
    Forall (fun o => match o with Some w => length w = W | None => True end) outs.
Proof. exact ctc_stream. Qed.
Print Assumptions C32_ctc_stream.

(* (3),(4) the same two statements for the packed machine ctc_mstep (inputs data[8W] ctrl[W] valid ready,
   outputs data[8W] ctrl[W] valid) -- this is the machine the lock-step obligations prove equal to the
   netlist regenerated from /repo *)
Theorem C32_ctc_packed_refines : forall W, (1 <= W)%nat -> forall tr,
  Forall (fun i => N.testbit i (9 * N.of_nat W + 1) = true) tr ->
  run (ctc_mstep W) (ctc_init W) tr = map (ctc_eout W) (trun (sp_step W) [] (map (ctc_din W) tr)).
Proof. exact ctc_packed_refines. Qed.
Print Assumptions C32_ctc_packed_refines.

Theorem C32_ctc_packed_stream : forall W, (1 <= W)%nat -> forall tr,
  Forall (fun i => N.testbit i (9 * N.of_nat W + 1) = true) tr ->
  exists pending, (length pending < 2 * W)%nat /\
    out_stream (map (ctc_dout W) (run (ctc_mstep W) (ctc_init W) tr)) ++ pending
    = keep (in_stream (map (ctc_din W) tr)).
Proof. exact ctc_packed_stream. Qed.
Print Assumptions C32_ctc_packed_stream.

(* the specification never emits a SKP *)
Theorem C32_no_skp_survives : forall l, ~ In SKP (keep l).
Proof. exact keep_no_skp. Qed.
Print Assumptions C32_no_skp_survives.

(* Non-vacuity / sanity: the stimulus of the repository's test_dual_skip_removal (W = 4, always valid and
   ready): AABBCCDD, then a word with SKPs in its two low bytes, then two K-symbols in the high bytes. *)
Definition C32_word (data ctrl : N) : N := (data + N.shiftl ctrl 32 + N.shiftl 3 36)%N.
Example C32_example :
  map (ctc_dout 4) (run (ctc_mstep 4) (ctc_init 4)
       [C32_word 0xAABBCCDD 0; C32_word 0x71BA3C3C 3; C32_word 0x11223344 12; C32_word 0 0; C32_word 0 0])
  = [None; Some [0xDD; 0xCC; 0xBB; 0xAA]%N; None; Some [0xBA; 0x71; 0x44; 0x33]%N;
     Some [0x122; 0x111; 0; 0]%N].
Proof. vm_compute. reflexivity. Qed.
Example C32_example_hyp :
  Forall (fun i => N.testbit i (9 * N.of_nat 4 + 1) = true)
         [C32_word 0xAABBCCDD 0; C32_word 0x71BA3C3C 3; C32_word 0x11223344 12].
Proof. repeat constructor. Qed.
