(* C24 -- ULPI control registers always converge to the requested UTMI settings
   (luna/gateware/interface/ulpi.py: ULPIControlTranslator + ULPIRegisterWindow; model, PHY and specification in
   Model/UlpiCtl.v.  The model is the property-satisfying behaviour: see findings/C24-ulpi-control.diff and the
   replays next to it for the histories on which the unchanged /repo fails).

   The statements quantify over EVERY history tr of input words (bus_idle, DIR, NXT, all control inputs): nothing is
   assumed about the PHY's timing; it may delay NXT arbitrarily and abort a write by raising DIR in any cycle.
   The PHY (Model/UlpiCtl.v: phy_step) is the ULPI register-write protocol read off the pins: command byte taken in a
   cycle with NXT (DIR low, not a turn-around cycle), data byte in the next cycle with NXT, write committed at STP.

   C24_writes_correct   a write the PHY commits is the most recently accepted request: its address is Function
                        Control (0x04) or OTG Control (0x0A) and its data is the value that was requested for THAT
                        register in the cycle the request was accepted (C24_request_value)
   C24_only_ctrl_regs   no other PHY register is ever written
   C24_converged        whenever the translator is quiescent (window idle, nothing to report, nothing to ask for) the
                        PHY's Function Control and OTG Control registers equal the requested settings
   C24_starts_write     if the settings differ from the shadow and the bus is available a write starts at once
   C24_write_latency    an undisturbed write (DIR low, PHY acknowledging at once) is committed 5 cycles after it
                        started and reported done; with C24_starts_write and C24_converged this bounds the time to
                        convergence by 2 x 7 cycles per change on a quiet bus                                        *)
From Coq Require Import NArith List Bool. Import ListNotations.
From LunaLib Require Import Netlist Machine.
From LunaModel Require Import UlpiCtl UlpiCtl_proofs.
Open Scope N_scope.

Theorem C24_writes_correct : forall tr i a d,
  let '(s, p, gq) := gsys_run tr in
  phy_commit p (ki_dir i) (w_stop s) = Some (a, d) ->
  (a = FUNC_CTRL \/ a = OTG_CTRL) /\ gq = Some (a, d).
Proof. exact cw_writes_correct. Qed.
Print Assumptions C24_writes_correct.

Theorem C24_request_value : forall s i a v, accepts_request s i = Some (a, v) -> requested_of a i = Some v.
Proof. exact accepts_value. Qed.
Print Assumptions C24_request_value.

Theorem C24_only_ctrl_regs : forall tr, q_other (snd (sys_run sys_init tr)) = false.
Proof. exact cw_only_ctrl_regs. Qed.
Print Assumptions C24_only_ctrl_regs.

Theorem C24_converged : forall tr i,
  let (s, p) := sys_run sys_init tr in
  quiescent s i = true -> q_r4 p = ki_func i /\ q_r10 p = ki_otg i.
Proof. exact cw_converged. Qed.
Print Assumptions C24_converged.

Theorem C24_starts_write : forall s i, w_fsm s = W_IDLE -> w_done s = false -> ki_idle i = true ->
  cw_select s (ki_func i) (ki_otg i) <> None -> w_fsm (fst (cw_step s i)) = W_START.
Proof. exact cw_starts_write. Qed.
Print Assumptions C24_starts_write.

Theorem C24_write_latency : forall s p gq i1 i2 i3 i4 i5, sys_inv s p gq -> w_fsm s = W_START ->
  ki_dir i1 = false -> ki_dir i2 = false -> ki_dir i3 = false -> ki_dir i4 = false -> ki_dir i5 = false ->
  ki_nxt i2 = false -> ki_nxt i3 = true -> ki_nxt i4 = true ->
  let (s', p') := sys_run (s, p) [i1; i2; i3; i4; i5] in
  w_fsm s' = W_IDLE /\ w_done s' = true /\
  (w_caddr s = FUNC_CTRL -> q_r4 p' = w_cwrite s) /\ (w_caddr s = OTG_CTRL -> q_r10 p' = w_cwrite s).
Proof. exact cw_write_latency. Qed.
Print Assumptions C24_write_latency.

(* Example.  Input word = bus_idle + 2*dir + 4*nxt + 8*xcvr_select + 32*term_select + 64*op_mode + 256*suspend
   + 512*id_pullup + 1024*dp_pulldown + 2048*dm_pulldown + 4096*chrg + 8192*dischrg + 16384*use_external_vbus.
   Settings = reset values (xcvr 1, pull-downs) except term_select = 1 from cycle 0, and in the middle of the
   Function Control write the OTG settings change as well (use_external_vbus_indicator): two writes follow, each
   with the value of its own register; afterwards the translator is quiescent and the PHY holds both. *)
Definition ex_base : N := 1 + 8 + 32 + 1024 + 2048.          (* bus idle, xcvr=1, term_select=1, dp/dm pulldown *)
Definition ex_trace : list N :=
  [ex_base; ex_base; ex_base; ex_base + 16384 + 4; ex_base + 16384 + 4; ex_base + 16384; ex_base + 16384;
   ex_base + 16384; ex_base + 16384; ex_base + 16384 + 4; ex_base + 16384 + 4; ex_base + 16384; ex_base + 16384;
   ex_base + 16384].
Example C24_example :
  let (s, p) := sys_run sys_init ex_trace in
  quiescent s (ex_base + 16384) = true /\ q_r4 p = 69 /\ q_r10 p = 134 /\
  ki_func (ex_base + 16384) = 69 /\ ki_otg (ex_base + 16384) = 134.
Proof. vm_compute. repeat split. Qed.
