(* C41 -- the LTSSM reaches U0 only through training and honours resets and time-outs
   (luna/gateware/usb/usb3/link/ltssm.py: LTSSMController).

   Model and specification: Model/Ltssm.v.  The specification is the ghost-history monitor gh_next / gh_ok
   over the input and output words of every cycle (it never looks at the FSM state):
     V1 link_ready only if, since the last cycle with in_usb_reset, a partner was detected during receiver
        detection, then polling LFPS (or TS1 when loosened) was received while polling, then TS1/TS2 while sending
        TS1, then a TS2 burst was completed after TS2 was received; and, since the last training entry (first
        cycle of sending TS1 / of request_hot_reset), the TS2 exchange and then the idle handshake completed;
     V2 no link_ready in the cycle after a cycle with in_usb_reset (removed within one cycle, never in U0 while
        the reset lasts);
     V3 runs of send_ts1_burst / perform_idle_handshake / send_lfps_polling / quiet last at most T12+1 / T2+1 /
        T360+1 / T12+1 cycles (a state entered in cycle t is left by cycle t+T);
     V4 in U0, enable_scrambling = neither disable_scrambling (sampled at the training entry) nor
        no_scrambling_requested (received since) asked otherwise.
   c : lt_cfg = time-outs T12, T2, T360 in cycles, counter width cw, loosen_requirements. *)
From Coq Require Import NArith List Bool Lia. Import ListNotations.
From LunaLib Require Import Netlist Machine.
From LunaModel Require Import Ltssm Ltssm_proofs.
Open Scope N_scope.

(* for every configuration whose time-outs fit the counter, and EVERY input history: the model's trace is accepted *)
Theorem C41_ltssm_meets_spec : forall c, T12 c < 2 ^ cw c -> T2 c < 2 ^ cw c -> T360 c < 2 ^ cw c ->
  forall ins, gh_accepts c gh_init (lt_trace c lt_init ins) = true.
Proof. exact lt_meets_spec. Qed.
Print Assumptions C41_ltssm_meets_spec.

(* the same for the packed (word-level) machine used by the tie *)
Theorem C41_ltssm_meets_spec_words : forall c, T12 c < 2 ^ cw c -> T2 c < 2 ^ cw c -> T360 c < 2 ^ cw c ->
  forall tr, gh_accepts_w c gh_init tr (run (lt_step c) lt_init tr) = true.
Proof. exact lt_meets_spec_w. Qed.
Print Assumptions C41_ltssm_meets_spec_words.

(* a reset cycle is always followed by Rx.Detect.Reset, whatever else happens in that cycle *)
Theorem C41_reset_honoured : forall c s i, i_reset i = true ->
  o_ready (lt_outputs (lt_next c s i) i) = false /\ st (lt_next c s i) = RxDetReset.
Proof. exact lt_reset_honoured. Qed.
Print Assumptions C41_reset_honoured.

(* time-outs at the level of FSM states (covers the TS2 phases, which the outputs do not distinguish): a state with
   time-out T (st_timeout: 12 ms for Rx.Detect.Quiet, Polling.Active/Configuration, Hot Reset.Active,
   Recovery.Active/Configuration, SS.Inactive.Quiet; 2 ms for Polling.Idle, Hot Reset.Exit, Recovery.Idle; 360 ms for
   Polling.LFPS) is never occupied for more than T+1 consecutive cycles *)
Theorem C41_timeouts : forall c, T12 c < 2 ^ cw c -> T2 c < 2 ^ cw c -> T360 c < 2 ^ cw c ->
  forall pre mid f T, st_timeout c f = Some T ->
  (forall j, (j <= length mid)%nat -> st (lt_run c (lt_run c lt_init pre) (firstn j mid)) = f) ->
  N.of_nat (length mid) <= T.
Proof. exact lt_dwell. Qed.
Print Assumptions C41_timeouts.

(* ---- sanity / non-vacuity ---- *)
Definition c25 : lt_cfg := {| T12 := 1; T2 := 1; T360 := 9; cw := 4; loosen := true |}.
(* a bring-up: phy_ready, partner, LFPS (16 sent), 20 sent, TSEQ burst, TS1 burst, TS1 seen, TS2 seen, TS2 burst,
   TS2 burst, idle handshake -> link_ready (bit 0 of the output word) in the last cycle *)
Example C41_bringup :
  map N.odd (run (lt_step c25) lt_init
    [ev 2; ev 4; sentw 16 + ev 6; sentw 20; ev 13; ev 13; ev 7; ev 9; ev 13; ev 13; ev 14; 0])
  = [false; false; false; false; false; false; false; false; false; false; false; true].
Proof. vm_compute. reflexivity. Qed.
(* the monitor is not trivially true: link_ready out of the blue is rejected *)
Example C41_monitor_rejects : gh_accepts_w c25 gh_init [0] [1] = false.
Proof. vm_compute. reflexivity. Qed.
(* ... and so is link_ready in the cycle after a reset, even with all training flags set *)
Example C41_monitor_rejects_reset :
  gh_ok c25 {| g_det := true; g_pol := true; g_t1x := true; g_t2x := true; g_ts2s := true; g_c2x := true;
               g_idl := true; g_pts1 := false; g_phot := false; g_preset := true; g_pdis := false; g_gl := false;
               g_gp := false; g_n1 := 0; g_ni := 0; g_nq := 0; g_np := 0 |}
        (lt_decode_in 0) (lt_decode_out 5) = false.
Proof. vm_compute. reflexivity. Qed.
