(* C10 -- Unsupported or unclaimed control requests are STALLed, never answered.

   Machine: the control-endpoint model of Model/CtlXfer.v (USBControlEndpoint stage FSM + StandardRequestHandler +
   request-handler multiplexer + StallOnlyRequestHandler fallback; the property-satisfying behaviour, see C07).
   Specification (Model/CtlStall.v): `unsupported skip f` = the request of SETUP word f is not claimed by the standard
   handler (not a standard request, or skiplisted) or is a standard request outside
   {GET_STATUS, SET_ADDRESS, GET_DESCRIPTOR, GET_CONFIGURATION, SET_CONFIGURATION, CLEAR_FEATURE(ENDPOINT_HALT) on an endpoint}.
   The observer c10_next watches every such request from the cycle after its SETUP packet is reported, for as long
   as its eight setup bytes are presented and no further SETUP packet is reported; in each watched cycle
   stall_cycle_ok demands: no transmit data, no data source started, no NAK, no address / configuration /
   endpoint-halt strobe, ACK only for the SETUP packet itself or a PING, and STALL requested exactly when the request
   handler is asked for data or status (claimed standard requests: the first time only). *)
From Coq Require Import NArith List Bool. Import ListNotations.
From LunaModel Require Import CtlXfer CtlXfer_proofs CtlStall CtlStall_proofs.
Open Scope N_scope.

(* For every endpoint number, packet size, skiplist (a predicate of the setup bytes), from EVERY state of the control
   endpoint and for EVERY input history (no environment hypothesis): all watched cycles are as demanded.  All 2^64
   setup packets and both data-stage directions are covered: `unsupported` is a predicate on the setup bytes. *)
Theorem C10_unsupported_requests_stalled : forall EP mps spw skip gate,
  (forall f i, same_fieldsb f i = true -> skip i = skip f) ->
  forall tr x, stalled_along EP skip st10_0 tr (xrun (cx_step EP mps spw skip gate) x tr) = true.
Proof. exact unsupported_requests_stalled. Qed.
Print Assumptions C10_unsupported_requests_stalled.

(* when the watched cycles occur: data / status requests are exactly the answer opportunities of the stage protocol *)
Theorem C10_opportunities_are_the_stage_protocols : forall EP mps spw skip gate tr, cx_env_trace cx_env0 tr = true ->
  holds_along EP sp0 tr (xrun (cx_step EP mps spw skip gate) cx_init tr).
Proof. exact stage_protocol. Qed.
Print Assumptions C10_opportunities_are_the_stage_protocols.

(* a standard request outside the supported set reaches the handler's UNHANDLED state *)
Theorem C10_dispatch_unsupported : forall i, supported_std i = false -> dispatch i = HUnhandled.
Proof. exact dispatch_unsupported. Qed.
Print Assumptions C10_dispatch_unsupported.

(* ---- concrete runs: the observer does watch, and STALL is what it sees ---------------------------------- *)
Definition tok_setup0 : N := 16.   Definition tok_in0 : N := 4.   Definition tok_out0 : N := 8.
Definition rcv : N := 2 ^ 10.      Definition rfr : N := 2.       Definition newtok : N := 1.
Definition hs_ack : N := 2 ^ 77.   Definition rx_rfr : N := 2 ^ 76.
(* CLEAR_FEATURE(DEVICE_REMOTE_WAKEUP) to the device: standard, selector 1, no data stage *)
Definition clear_wakeup : N := 1 * 2 ^ 19 + 1 * 2 ^ 27.
(* vendor request 0x42, device-to-host, wLength 4 *)
Definition vendor_in : N := 2 ^ 11 + 2 * 2 ^ 12 + 66 * 2 ^ 19 + 4 * 2 ^ 59.

Example C10_unsupported_examples :
  unsupported skip_none clear_wakeup = true /\ unclaimed skip_none clear_wakeup = false /\
  unsupported skip_none vendor_in = true /\ unclaimed skip_none vendor_in = true.
Proof. vm_compute. auto. Qed.

(* CLEAR_FEATURE(remote wakeup): status-stage IN answered with STALL (cycle 3); a later host ACK (cycle 4) changes
   nothing; a second IN is not answered at all (cycle 6) *)
Definition c10_trace1 : list N :=
  [ tok_setup0 + newtok; tok_setup0 + clear_wakeup + rcv; tok_in0 + clear_wakeup + newtok; tok_in0 + clear_wakeup + rfr;
    tok_in0 + clear_wakeup + hs_ack; tok_in0 + clear_wakeup + newtok; tok_in0 + clear_wakeup + rfr ].
Example C10_example1 :
  map (fun o => (o_sr o, o_stall o, o_txv o, o_halt o)) (xrun (cx_step 0 64 11 skip_none false) cx_init c10_trace1) =
  [ (false, false, false, 0); (false, false, false, 0); (false, false, false, 0); (true, true, false, 0);
    (false, false, false, 0); (false, false, false, 0); (true, false, false, 0) ].
Proof. vm_compute. reflexivity. Qed.

(* vendor IN request: the data-stage IN is STALLed (cycle 3), and again at the status stage (cycle 6: OUT data packet) *)
Definition c10_trace2 : list N :=
  [ tok_setup0 + newtok; tok_setup0 + vendor_in + rcv; tok_in0 + vendor_in + newtok; tok_in0 + vendor_in + rfr;
    tok_out0 + vendor_in + newtok; tok_out0 + vendor_in; tok_out0 + vendor_in + rx_rfr ].
Example C10_example2 :
  map (fun o => (o_dr o, o_sr o, o_stall o, o_txv o)) (xrun (cx_step 0 64 11 skip_none false) cx_init c10_trace2) =
  [ (false, false, false, false); (false, false, false, false); (false, false, false, false); (true, false, true, false);
    (false, false, false, false); (false, false, false, false); (false, true, true, false) ].
Proof. vm_compute. reflexivity. Qed.

(* the observer is watching from cycle 2 on in both runs (non-vacuity of the theorem on these histories) *)
Example C10_watching :
  t_cur (fold_left (fun s io => c10_next skip_none s (fst io) (snd io))
                   (combine c10_trace1 (xrun (cx_step 0 64 11 skip_none false) cx_init c10_trace1)) st10_0)
  = Some (tok_setup0 + clear_wakeup + rcv).
Proof. vm_compute. reflexivity. Qed.
