(* C49 -- UART transmitters produce exact 8N1 frames.

   Specification (Model/Uart.v): the state of the specification machine `us_step div` is the list of line
   samples still to be sent, one per clock cycle.  tx = head of that list (1 when it is empty), ready = at most
   one sample left, a byte offered while ready replaces the list by `frame_samples div byte` = start bit 0,
   eight data bits LSB first, stop bit 1, each repeated `div` times.  The multi-byte specification `ms_step`
   feeds that machine from a queue of bytes, `bytes_le bw word` (least significant byte first).

   Theorems 1 and 5 say that the code-shaped models of UARTTransmitter / UARTMultibyteTransmitter (FSM +
   baud counter + bit counter + shift register, as in uart.py) have exactly the outputs (tx, ready, idle,
   driving) of these specifications for every divisor >= 1, byte width >= 1 and every input history.
   Theorems 2-4 and 6 unfold what the specifications mean on traces. *)
From Coq Require Import NArith List Bool. Import ListNotations.
From LunaLib Require Import Netlist Bits Machine.
From LunaModel Require Import Uart Uart_proofs.
Open Scope N_scope.

(* 1. model = specification, all divisors, all valid/payload histories *)
Theorem C49_uart_refines : forall div, 1 <= div ->
  forall tr, run (u_step div) u_init tr = run (us_step div) us_init tr.
Proof. exact uart_from_reset. Qed.
Print Assumptions C49_uart_refines.

(* 2. a byte offered in a ready cycle is accepted and the following cycles carry exactly its frame, each bit
      for div cycles, with ready low (nothing else accepted) up to the frame's last cycle *)
Theorem C49_frame_exact : forall div, 1 <= div ->
  forall q i ins, us_ready q = true -> in_valid i = true -> (length ins < 10 * N.to_nat div)%nat ->
  run (us_step div) q (i :: ins) =
    us_out q :: map busy_out (firstn (length ins) (frame_samples div (in_payload 8 i))).
Proof. exact us_frame_exact. Qed.
Print Assumptions C49_frame_exact.

(* 3. in the last cycle of the stop bit exactly that one sample is left: the transmitter is ready again, so a
      byte accepted then is framed immediately after (back-to-back), otherwise the line returns to idle *)
Theorem C49_frame_end : forall div, 1 <= div ->
  forall q i ins, us_ready q = true -> in_valid i = true -> length ins = (10 * N.to_nat div - 1)%nat ->
  run_state (us_step div) q (i :: ins) = [true].
Proof. exact us_frame_end. Qed.
Print Assumptions C49_frame_end.

(* 4. the line idles high *)
Theorem C49_idle_high : forall div n,
  run (us_step div) us_init (repeat 0 n) = repeat (uart_pack true true true false) n.
Proof. exact us_idle_high. Qed.
Print Assumptions C49_idle_high.

(* 5. multi-byte model = specification, all byte widths, divisors and histories *)
Theorem C49_multi_refines : forall bw div, (1 <= bw)%nat -> 1 <= div ->
  forall tr, run (m_step bw div) m_init tr = run (ms_step bw div) ms_init tr.
Proof. exact multi_from_reset. Qed.
Print Assumptions C49_multi_refines.

(* 6. a word accepted from rest goes out as the frames of its bytes, least significant byte first, back to
      back (after the acceptance cycle and one hand-over cycle, both idle-high) *)
Theorem C49_multi_little_endian : forall bw div, 1 <= div ->
  forall i ins, (1 <= bw)%nat -> in_valid i = true -> Forall quiet ins ->
  length ins = (1 + 10 * N.to_nat div * bw)%nat ->
  map tx_of (run (ms_step bw div) ms_init (i :: ins)) =
    true :: true :: flat_map (frame_samples div) (bytes_le bw (in_payload (8 * N.of_nat bw) i)).
Proof. exact ms_word_little_endian. Qed.
Print Assumptions C49_multi_little_endian.

(* Non-vacuity / concrete runs.  Byte 0x53 = 01010011b at divisor 2: input word = valid + 2*payload = 167.
   Output words: bit0 tx, bit1 ready, bit2 idle, bit3 driving. *)
Example C49_frame_0x53 : frame_bits 83 = [false; true; true; false; false; true; false; true; false; true].
Proof. reflexivity. Qed.
Example C49_example_run :
  map tx_of (run (us_step 2) us_init (167 :: repeat 0 22)) =
  [true; false; false; true; true; true; true; false; false; false; false; true; true; false; false;
   true; true; false; false; true; true; true; true].
Proof. reflexivity. Qed.
Example C49_example_ready :
  map (fun o => N.testbit o 1) (run (us_step 2) us_init (167 :: repeat 0 22)) =
  [true; false; false; false; false; false; false; false; false; false; false; false; false; false; false;
   false; false; false; false; false; true; true; true].
Proof. reflexivity. Qed.
(* 16-bit word 0x1234 is sent as 0x34 then 0x12 *)
Example C49_example_le : bytes_le 2 4660 = [52; 18].
Proof. reflexivity. Qed.
