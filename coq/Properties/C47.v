(* C47 -- Isochronous timestamp packets are decoded in full.
   Model: Model/Itp.v (TimestampPacketReceiver, parametric in the declared widths wb/wd of the
   bus_interval_counter / delta registers).  One list element = one "ss" clock cycle; input word =
   header_sink.valid + 2 * header.dw0; output word = ready, update_received, counter, delta.

   C47_itp_decodes_in_full: for every register width that can hold the fields (wb >= 14, wd >= 13)
     and every input history, the outputs are exactly the specification spec_trace: ready = "a
     timestamp packet is offered", update = "the previous word was a timestamp packet", counter/
     delta = the full 14-/13-bit fields of the most recent timestamp packet.
   C47_itp_reported: the same in the words of the property: the cycle after ANY timestamp packet
     (anywhere in any history) update is high and the two reported numbers equal the packet's fields.
   C47_one_bit_registers_refuted: with 1-bit registers (what `Signal()` declares) the model does
     not meet the specification -- the width hypothesis is necessary, not decoration.            *)
From Coq Require Import NArith List Bool. Import ListNotations.
From LunaLib Require Import Netlist Machine.
From LunaModel Require Import Itp Itp_proofs.
Open Scope N_scope.

Theorem C47_itp_decodes_in_full : forall wb wd, 14 <= wb -> 13 <= wd ->
  forall ins, run (itp_step wb wd) itp_init ins = spec_trace [] ins.
Proof. exact itp_from_reset. Qed.
Print Assumptions C47_itp_decodes_in_full.

Theorem C47_itp_reported : forall wb wd, 14 <= wb -> 13 <= wd ->
  forall pre i i' post, is_itp i = true ->
  let outs := run (itp_step wb wd) itp_init (pre ++ i :: i' :: post) in
  exists o o', nth_error outs (length pre) = Some o /\ nth_error outs (S (length pre)) = Some o' /\
    o_ready o = true /\
    o_update o' = true /\ o_counter o' = f_counter i /\ o_delta o' = f_delta i.
Proof. exact itp_reported. Qed.
Print Assumptions C47_itp_reported.

Theorem C47_one_bit_registers_refuted : exists ins,
  run (itp_step 1 1) itp_init ins <> spec_trace [] ins.
Proof. exact itp_one_bit_refuted. Qed.
Print Assumptions C47_one_bit_registers_refuted.

(* non-vacuity / a concrete run: an ITP with counter 0x2ABC, delta 0x1234, then a transaction
   packet (type 4, ignored), then nothing.  Outputs: (ready,update,counter,delta). *)
Example C47_example :
  map (fun o => (o_ready o, o_update o, o_counter o, o_delta o))
      (run (itp_step 14 13) itp_init [mk_in true 12 10940 4660; mk_in true 4 1 1; 0])
  = [(true, false, 0, 0); (false, true, 10940, 4660); (false, false, 10940, 4660)].
Proof. vm_compute. reflexivity. Qed.
Example C47_example_is_itp : is_itp (mk_in true 12 10940 4660) = true /\ f_counter (mk_in true 12 10940 4660) = 10940.
Proof. vm_compute. split; reflexivity. Qed.
