(* C17 -- Status (signal) IN endpoints report the latched value consistently.
   Model and specification: Model/SignalIn.v (USBSignalInEndpoint of luna/gateware/usb/usb2/endpoints/status.py),
   parametric in the signal width W >= 1, the endianness `big` and the endpoint number ep.

   The specification ssp_step is a four-phase machine over byte LISTS (no counters, no indexing):
     P_IDLE          a poll (IN token for this endpoint + inter-packet delay elapsed, si_req) samples the
                     signal: v := signal of that cycle, and loads rest := to_bytes big nbytes v
     P_SEND v rest   tx.valid; tx.payload = head of rest; tx.first iff nothing handed over yet; tx.last iff
                     one byte left; each tx.ready cycle drops the head; after the last byte: P_WAIT v
     P_WAIT v        ACK: DATA toggle flips, status_read_complete strobes, back to P_IDLE (next poll samples
                     afresh);  new token without ACK: P_RETRY v
     P_RETRY v       the next poll re-sends to_bytes big nbytes v -- same value, toggle untouched
   Environment (si_env): an ACK strobe and a new_token strobe never coincide. *)
From Coq Require Import NArith List Bool. Import ListNotations.
From LunaLib Require Import Netlist Machine.
From LunaModel Require Import SignalIn SignalIn_proofs.
Open Scope N_scope.

(* (1) For every width, endianness, endpoint number and every input history that keeps the environment
   assumption, the module model (FSM + byte counter of its real width + latched register + Array-style byte
   select) produces exactly the outputs of the specification, cycle for cycle, all six output ports. *)
Theorem C17_sigin_refines : forall W big ep, 1 <= W -> forall tr, env_all W tr = true ->
  run (si_step W big ep) si_init tr = run (ssp_step W big ep) ssp_init tr.
Proof. exact sigin_from_reset. Qed.
Print Assumptions C17_sigin_refines.

(* (2) Serialisation: little-endian bytes denote the value (nothing lost for values that fit), big-endian is
   the reverse order, and there are exactly nbytes bytes. *)
Theorem C17_serialisation : forall n v,
  (v < 256 ^ N.of_nat n -> from_le (to_bytes false n v) = v) /\
  to_bytes true n v = rev (to_bytes false n v) /\
  length (to_bytes true n v) = n /\ length (to_bytes false n v) = n.
Proof.
  intros n v. split; [exact (from_le_bytes_le n v)|]. split; [reflexivity|].
  split; apply length_to_bytes.
Qed.
Print Assumptions C17_serialisation.

(* (3) Reading the specification: the toggle advances exactly on an ACK in P_WAIT ... *)
Theorem C17_toggle_only_on_ack : forall W big ep ph tog i,
  snd (fst (ssp_step W big ep (ph, tog) i))
  = xorb tog (match ph with P_WAIT _ => si_ack W i | _ => false end).
Proof. exact ssp_toggle. Qed.
Print Assumptions C17_toggle_only_on_ack.

(* ... the value being answered is given up only by that ACK (so a retry carries the same value) ... *)
Theorem C17_value_kept_until_ack : forall W big ep ph tog i v,
  phase_value ph = Some v ->
  phase_value (fst (fst (ssp_step W big ep (ph, tog) i))) = Some v \/
  (fst (fst (ssp_step W big ep (ph, tog) i)) = P_IDLE /\ exists w, ph = P_WAIT w /\ si_ack W i = true).
Proof. exact ssp_value_stable. Qed.
Print Assumptions C17_value_kept_until_ack.

(* ... and while sending, c tx.ready cycles (in any pattern) hand over exactly the first c bytes. *)
Theorem C17_send_progress : forall W big ep seg v rest tog, (count_ready W seg < length rest)%nat ->
  run_state (ssp_step W big ep) (P_SEND v rest, tog) seg = (P_SEND v (skipn (count_ready W seg) rest), tog).
Proof. exact ssp_send_progress. Qed.
Print Assumptions C17_send_progress.

(* ---- concrete runs (W = 12, endpoint 3): input word = signal + 2^12 endpoint + 2^16 is_in + 2^17 rfr
        + 2^18 new_token + 2^19 ack + 2^20 tx_ready; fields (valid, first, last, payload, toggle, complete) *)
Definition fields (o : N) := (N.odd o, N.testbit o 1, N.testbit o 2, (o / 8) mod 256, (o / 2048) mod 4, N.testbit o 13).
Definition poll (sig : N) : N := sig + 4096 * 3 + 65536 + 131072.
Definition c_newtok : N := 262144.
Definition c_ack : N := 524288.
Definition c_ready (sig : N) : N := sig + 1048576.

(* big endian: 0xABC is sent as 0A BC; no ACK but a new token: the retry carries 0A BC again (although the
   signal is 0x123 by then) with the same toggle; after the ACK the toggle is 1 and the next poll samples 0x123 *)
Example C17_example_retry_big :
  map fields (run (si_step 12 true 3) si_init
    [poll 0xABC; c_ready 0x123; 0x123; c_ready 0x123; c_newtok; poll 0x123; c_ready 0x123; c_ready 0x123; c_ack; poll 0x123; 0x123])
  = [(false, false, false, 0, 0, false);
     (true, true, false, 0x0A, 0, false); (true, false, true, 0xBC, 0, false); (true, false, true, 0xBC, 0, false);
     (false, false, false, 0, 0, false); (false, false, false, 0, 0, false);
     (true, true, false, 0x0A, 0, false); (true, false, true, 0xBC, 0, false);
     (false, false, false, 0, 0, true);
     (false, false, false, 0, 1, false); (true, true, false, 0x01, 1, false)].
Proof. vm_compute. reflexivity. Qed.
Example C17_example_little : to_bytes false 2 0xABC = [0xBC; 0x0A] /\ to_bytes true 2 0xABC = [0x0A; 0xBC].
Proof. split; reflexivity. Qed.
Example C17_env_nonvacuous :
  env_all 12 [poll 0xABC; c_ready 0; c_ready 0; c_ack; c_newtok] = true.
Proof. vm_compute. reflexivity. Qed.
