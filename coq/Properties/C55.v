(* C55 -- Strobe stretching holds the output for exactly the requested time.
   Parametric statement about the hand model (Model/Stretch.v), for every stretch length n >= 1,
   both delay modes and every strobe pattern: the output in each cycle is exactly
   "some strobe within the last n cycles" (window shifted by one cycle when delay is used). *)
From Coq Require Import NArith List Bool.
Import ListNotations.
From LunaModel Require Import Stretch Stretch_proofs.

Theorem C55_stretch_exact : forall n delay, (1 <= n)%nat -> forall ins,
  stretch_run n delay (sr_init n delay) ins = spec_trace n delay [] ins.
Proof. exact stretch_from_reset. Qed.
Print Assumptions C55_stretch_exact.

(* non-vacuity / sanity: a concrete run *)
Example C55_example :
  stretch_run 3 false (sr_init 3 false) [true; false; false; false; true; true; false; false; false; false]
  = [true; true; true; false; true; true; true; true; false; false].
Proof. reflexivity. Qed.
