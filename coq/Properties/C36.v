(* C36 -- Header and data packets are transmitted with correct framing and CRCs.
   Models: LunaModel.RawTx (RawPacketTransmitter of luna/gateware/usb/usb3/link/transmitter.py and
   RawHeaderPacketReceiver of link/receiver.py); data receiver: the specification of LunaModel.DataRx (C40).

   Reading guide.  A packet `p : rtx_pkt` is the header given to the transmitter (dw0 dw1 dw2 and the word `p_lf` of
   link-layer fields, of which bits 16..26 = sequence number, reserved, hub depth, delayed, deferred are sent and the
   CRC fields are computed) together with the beats (word, byte-valid mask) its data_sink producer will present
   (no beats = zero-length packet).  `rtx_pkt_ok p`: the header fields are 32-bit values and the beats obey the stream
   contract (full words, then one last word with 1..4 leading bytes valid).

   `wire crc16_hdr crc32_usb p` is the WIRE FORMAT SPECIFICATION (Model/RawTx.v, Section Wire): words (data, ctrl)
       SHP SHP SHP EPF | dw0 | dw1 | dw2 | crc16(dw0..dw2) + link control word bits 16..26 + their crc5
   and, for a data header (dw0[0:4] = 8):
       SDP SDP SDP EPF | the symbol stream  payload bytes ++ 4 bytes crc32(payload) ++ END END END EPF  cut into words
       of four symbols and zero-padded (ctrl bits exactly on the framing symbols)
   or, when the header is marked delayed:  SDP SDP SDP EPF | EDB EDB EDB EPF.

   `rtx_loop U p s0 beats true (r0 :: rdys)` is the closed loop: the transmitter model, the producer, `generate` pulsed
   in the first cycle, source.ready = the arbitrary pattern r0 :: rdys (one element per clock cycle).
   `wire_run ws rdys` is the source-side specification: the words ws are presented one after the other, each held until
   ready; `done` accompanies the acceptance of the last word; afterwards the unit is idle (valid = 0). *)
From Coq Require Import NArith List Bool. Import ListNotations.
From LunaLib Require Import Netlist Machine.
From LunaModel Require Import Crc DataRx DataRx_proofs RawTx RawTx_proofs.
Open Scope N_scope.

(* (1) framing, cycle-exact, for every header, payload and ready pattern: what the transmitter presents on `source`
   (valid, data, ctrl) and `done`, in every cycle, is the wire specification played against the ready pattern *)
Theorem C36_framing : forall p r0 rdys, rtx_pkt_ok p ->
  map rtx_obs_of (rtx_loop drx_real_units p (rtx_init drx_real_units) (p_beats p) true (r0 :: rdys))
  = rtx_idle_obs :: wire_run (wire crc16_hdr crc32_usb p) rdys.
Proof. exact rtx_real_frames. Qed.
Print Assumptions C36_framing.

(* ... which means: the accepted words (valid & ready) are a prefix of the wire, one more word per ready cycle, the
   whole wire once there were enough ready cycles; `done` is raised exactly once, when the last word is accepted *)
Theorem C36_accepted_words : forall ws rdys,
  obs_accepted rdys (wire_run ws rdys) = firstn (rtx_count_true rdys) ws.
Proof. exact (fun ws rdys => wire_run_accepted rdys ws). Qed.
Print Assumptions C36_accepted_words.

Theorem C36_done_once : forall ws rdys,
  obs_dones (wire_run ws rdys)
  = if (Nat.ltb 0 (length ws) && Nat.leb (length ws) (rtx_count_true rdys))%bool then 1%nat else 0%nat.
Proof. exact (fun ws rdys => wire_run_dones rdys ws). Qed.
Print Assumptions C36_done_once.

(* (2) the wire specification written word by word, as SEND_LAST_WORD / SEND_CRC / FINISH_DPP produce it
   (rtx_wire_x: last word = payload tail + first CRC bytes, then the rest of the CRC + END..., then what is left of
   END END END EPF), equals the declarative symbol-stream form above *)
Theorem C36_wire_word_by_word : forall p, beats_ok (p_beats p) = true ->
  wire crc16_hdr crc32_usb p = rtx_wire_x crc16_hdr crc32_usb p.
Proof. intros p H. exact (rtx_wire_explicit crc16_hdr crc32_usb p H drx_crc32_lt). Qed.
Print Assumptions C36_wire_word_by_word.

(* (3) round trip, header: feeding the five header words -- with any invalid words g0..g4 interleaved, then any word x --
   to RawHeaderPacketReceiver (waiting for a header, expecting this sequence number) makes it strobe new_packet with
   exactly the transmitted header (dw0 dw1 dw2 and the fourth word with good CRCs) *)
Theorem C36_header_roundtrip : forall p s g0 g1 g2 g3 g4 x,
  rf s = RWAIT ->
  Forall rhr_invalid g0 -> Forall rhr_invalid g1 -> Forall rhr_invalid g2 -> Forall rhr_invalid g3 -> Forall rhr_invalid g4 ->
  let d3 := rtx_dw3 (crc16_hdr [p_dw0 p; p_dw1 p; p_dw2 p]) (p_lf p) in
  let s' := rhr_state_after drx_real_units s (bits (p_lf p) 16 3)
              (g0 ++ [(true, RTX_HPSTART)] ++ g1 ++ [(true, (p_dw0 p, 0))] ++ g2 ++ [(true, (p_dw1 p, 0))] ++
               g3 ++ [(true, (p_dw2 p, 0))] ++ g4 ++ [(true, (d3, 0))] ++ [x]) in
  rf s' = RWAIT /\ rnew s' = true /\
  rout s' = p_dw0 p + 4294967296 * (p_dw1 p + 4294967296 * (p_dw2 p + 4294967296 * d3)).
Proof.
  intros p s g0 g1 g2 g3 g4 x Hs G0 G1 G2 G3 G4.
  apply (rhr_roundtrip drx_real_units crc16_hdr drx_reg16_of drx_real16_init drx_real16_adv drx_real16_out drx_crc16h_lt
           p (bits (p_lf p) 16 3) s g0 g1 g2 g3 g4 x Hs eq_refl G0 G1 G2 G3 G4).
Qed.
Print Assumptions C36_header_roundtrip.

(* (4) round trip, data: the specification of DataPacketReceiver (C40: events over the valid words; C40_events_are_spec
   makes this the behaviour of its model under any idle words) run over the transmitted words of a data packet whose
   data-length field equals the payload length yields payload beats carrying exactly the payload, then `good`
   (`more` = what is left of the end framing, here followed by arbitrary further traffic `rest`) *)
Theorem C36_data_roundtrip : forall lw p rest, rtx_pkt_ok p ->
  bits (p_dw0 p) 0 5 = DRX_TYPE_DATA -> p_delayed p = false ->
  bits (p_dw1 p) 16 lw = N.of_nat (length (p_payload p)) ->
  let ws := [p_dw0 p; p_dw1 p; p_dw2 p; rtx_dw3 (crc16_hdr [p_dw0 p; p_dw1 p; p_dw2 p]) (p_lf p)] in
  exists pay more,
    sp_run crc16_hdr crc32_usb lw SIdle (wire crc16_hdr crc32_usb p ++ rest)
    = sp_beats lw ws 0 pay ++ Report (sp_hdr ws) true :: sp_run crc16_hdr crc32_usb lw SIdle (more ++ rest) /\
    flat_map drx_beat_bytes (sp_beats lw ws 0 pay) = p_payload p.
Proof. exact rtx_data_roundtrip. Qed.
Print Assumptions C36_data_roundtrip.

(* ---- non-vacuity ------------------------------------------------------------------------------------------ *)
(* the 1-byte packet recorded in tests/test_usb3_data.py: header 0x32000008 0x00010000 0x08000000, link control word 0x001
   (bits 16..26 of 0xE801A822), payload FF *)
Definition C36_p1 : rtx_pkt :=
  {| p_dw0 := 838860808; p_dw1 := 65536; p_dw2 := 134217728; p_lf := 65536; p_beats := [(255, 1)] |}.
Example C36_wire_recorded_1B :
  wire crc16_hdr crc32_usb C36_p1
  = [(4160486395, 15); (838860808, 0); (65536, 0); (134217728, 0); (3892422690, 0);
     (4150025308, 15); (255, 0); (4261281279, 14); (247, 1)].
Proof. vm_compute. reflexivity. Qed.
Example C36_p1_ok : rtx_pkt_ok C36_p1 /\ bits (p_dw0 C36_p1) 0 5 = DRX_TYPE_DATA /\ p_delayed C36_p1 = false /\
                    bits (p_dw1 C36_p1) 16 11 = N.of_nat (length (p_payload C36_p1)).
Proof. unfold rtx_pkt_ok. vm_compute. repeat split; reflexivity. Qed.
(* a 6-byte packet against a stalling consumer: ready pattern 1 0 1 1 0 0 1 1 1 1 1 1 1 *)
Example C36_run_6B :
  let p := {| p_dw0 := 8; p_dw1 := 6 * 65536; p_dw2 := 0; p_lf := 0; p_beats := [(67305985, 15); (1541, 3)] |} in
  let rdys := [true; false; true; true; false; false; true; true; true; true; true; true; true] in
  obs_accepted rdys (tl (map rtx_obs_of (rtx_loop drx_real_units p (rtx_init drx_real_units) (p_beats p) true (true :: rdys))))
  = wire crc16_hdr crc32_usb p.
Proof. vm_compute. reflexivity. Qed.
