(* C05 -- Inter-packet response timing matches the selected bus speed.
   Model and specification: Model/IpTimer.v (USBInterpacketTimer of luna/gateware/usb/usb2/packet.py).

   Reading guide.  One list element = one clock cycle of the `usb` domain; an input word carries the
   `start` request of each attached interface and the 2-bit `speed`; an output word carries, for every
   interface, tx_allowed / tx_timeout / rx_timeout.  `elapsed nif h` is the number of start-free cycles
   at the end of history h (the whole of h if no start was ever requested: reset starts the timer).
   `ip_strobes tbl e speed` raises tx_allowed iff e = minimum gap, tx_timeout iff e = response limit,
   rx_timeout iff e = receive timeout, for the entry of `tbl` at `speed`.
   With a start request in cycle s and none in s+1 .. t-1, elapsed = t - s - 1 (elapsed_after_start):
   a delay of d cycles puts the strobe in cycle s + 1 + d, and nowhere else until the next start. *)
From Coq Require Import NArith List Bool Lia. Import ListNotations.
From LunaLib Require Import Netlist Machine.
From LunaModel Require Import IpTimer IpTimer_proofs.
Open Scope N_scope.

(* (1) Parametric in the number of interfaces, the delay table, the counter limit and the counter
   width: for every input history, the saturating w-bit counter machine produces exactly the outputs
   of the unbounded "elapsed time" specification. *)
Theorem C05_timer_refines : forall nif cmax w tbl, tbl_ok cmax tbl -> cmax + 1 < 2 ^ w ->
  forall tr, run (ip_step nif cmax w tbl) ip_init tr = run (sp_step nif tbl) sp_init tr.
Proof. exact iptimer_from_reset. Qed.
Print Assumptions C05_timer_refines.

(* (2) The same, cycle by cycle and in closed form. *)
Theorem C05_timer_exact : forall nif cmax w tbl, tbl_ok cmax tbl -> cmax + 1 < 2 ^ w ->
  forall tr t, (t < length tr)%nat ->
  nth t (run (ip_step nif cmax w tbl) ip_init tr) 0
  = rep nif (ip_strobes tbl (elapsed nif (firstn t tr)) (ip_speed nif (nth t tr 0))).
Proof. exact iptimer_exact. Qed.
Print Assumptions C05_timer_exact.

Theorem C05_elapsed_after_start : forall nif pre s quiet,
  ip_starts nif s = true -> Forall (fun i => ip_starts nif i = false) quiet ->
  elapsed nif (pre ++ s :: quiet) = N.of_nat (length quiet).
Proof. exact elapsed_after_start. Qed.
Print Assumptions C05_elapsed_after_start.

(* (3) LUNA's three configurations (60 MHz HS-capable, 60 MHz FS-only, 12 MHz FS-only) against the USB
   figures: for every history and every cycle in which `speed` is a USB speed (HIGH/FULL/LOW). *)
Theorem C05_luna_60MHz : forall nif fs_only tr t, (t < length tr)%nat ->
  ip_speed nif (nth t tr 0) <= 2 ->
  nth t (run (ip_step nif (cmax_of fs_only false) (ctr_width (cmax_of fs_only false)) (tbl_60 fs_only)) ip_init tr) 0
  = rep nif (ip_strobes (usb_delays 5 (negb fs_only)) (elapsed nif (firstn t tr)) (ip_speed nif (nth t tr 0))).
Proof.
  intros nif fs_only tr t Ht Hs.
  rewrite iptimer_exact; [| apply tbl_60_ok | destruct fs_only; vm_compute; reflexivity | exact Ht].
  f_equal. apply ip_strobes_ext. apply tbl_60_spec. exact Hs.
Qed.
Print Assumptions C05_luna_60MHz.

Theorem C05_luna_12MHz : forall nif tr t, (t < length tr)%nat ->
  ip_speed nif (nth t tr 0) <= 2 ->
  nth t (run (ip_step nif (cmax_of true true) (ctr_width (cmax_of true true)) tbl_12) ip_init tr) 0
  = rep nif (ip_strobes (usb_delays 1 false) (elapsed nif (firstn t tr)) (ip_speed nif (nth t tr 0))).
Proof.
  intros nif tr t Ht Hs.
  rewrite iptimer_exact; [| apply tbl_12_ok | vm_compute; reflexivity | exact Ht].
  f_equal. apply ip_strobes_ext. apply tbl_12_spec. exact Hs.
Qed.
Print Assumptions C05_luna_12MHz.

(* The specification table, spelled out. *)
Example C05_table_60 :
  usb_delays 5 true HIGH = Some (1, 24, 92) /\ usb_delays 5 true FULL = Some (10, 32, 80) /\
  usb_delays 5 true LOW = Some (80, 260, 640).
Proof. repeat split. Qed.
Example C05_table_12 : usb_delays 1 false FULL = Some (2, 7, 16).
Proof. reflexivity. Qed.

(* Non-vacuity / a concrete run, one interface (input word = start + 2 * speed):
   low speed, start in cycle 0: tx_allowed exactly in cycle 81 = 0 + 1 + 80 of the first 100 cycles. *)
Example C05_example_low_speed :
  let tr := (1 + 2 * LOW) :: repeat (2 * LOW) 99 in
  map (fun o => N.odd o) (run (ip_step 1 640 10 (tbl_60 false)) ip_init tr)
  = repeat false 81 ++ [true] ++ repeat false 18.
Proof. vm_compute. reflexivity. Qed.
(* high speed from reset: tx_allowed in cycle 1, tx_timeout in cycle 24, rx_timeout in cycle 92 *)
Example C05_example_high_speed :
  let out := run (ip_step 1 640 10 (tbl_60 false)) ip_init (repeat (2 * HIGH) 100) in
  (nth 1 out 0, nth 24 out 0, nth 92 out 0, nth 2 out 0, nth 81 out 0) = (1, 2, 4, 0, 0).
Proof. vm_compute. reflexivity. Qed.
