(* C50 -- the SPI device exchanges whole words for every word size.

   Specification (Model/SpiDev.v, `sp_step`): under chip select the sampled bits are collected into `s_acc`;
   the sample edge that brings the collection to word_size bits completes a word (collection restarts empty --
   for EVERY word of the transaction), the word is flagged on word_accepted in the next cycle and presented on
   word_in with a one-cycle word_complete strobe the cycle after.  On the transmit side the word latched from
   word_out (while unselected and at every word completion) is shifted out one bit per output edge, in the
   configured bit order.

   C50_spidev_refines: the code-shaped model with the bit counter restarting per word (`d_step true`) has
   exactly the specification's outputs for every word size >= 1, every clock polarity/phase, bit order,
   chip-select polarity and every input history (no environment assumption at all).
   C50_count / C50_report / C50_tx_in_order unfold the specification on traces.
   C50_asis_refuted: the behaviour of the code as it stands (`d_step false`: bit_count is a
   Signal(range(word_size)) that is only cleared by chip select and wraps at 2^width) does NOT satisfy the
   specification at word_size = 3: the second word of a transaction is lost. *)
From Coq Require Import NArith Arith List Bool. Import ListNotations.
From LunaLib Require Import Netlist Bits Machine.
From LunaModel Require Import SpiDev SpiDev_proofs.
Open Scope N_scope.

Theorem C50_spidev_refines : forall c, (1 <= ws c)%nat ->
  forall tr, run (d_step true c) (d_init c) tr = run (sp_step c) (sp_init c) tr.
Proof. exact spidev_from_reset. Qed.
Print Assumptions C50_spidev_refines.

(* every word_size-th sample edge under chip select completes a word, for every word of a transaction *)
Theorem C50_count : forall c, (1 <= ws c)%nat -> forall sp i, (length (s_acc sp) < ws c)%nat ->
  length (s_acc (sp_next c sp i)) =
    if negb (selected c i) then 0%nat
    else if sample_edge c (s_clk sp) i then (S (length (s_acc sp)) mod ws c)%nat
    else length (s_acc sp).
Proof. exact sp_count. Qed.
Print Assumptions C50_count.

(* a completed word is reported exactly once, two cycles later, with the bits in the configured order *)
Theorem C50_report : forall c sp i i1,
  let sp1 := sp_next c sp i in
  let sp2 := sp_next c sp1 i1 in
  is_some (s_pend sp1) = completes c sp i /\
  s_wc sp2 = completes c sp i /\
  (completes c sp i = true -> s_win sp2 = word_bits c (in_sdi i :: s_acc sp)) /\
  (completes c sp i = false -> s_win sp2 = s_win sp1).
Proof. exact sp_report. Qed.
Print Assumptions C50_report.

(* clock phase 1 (data changes on the leading edge): in a transaction entered with the clock at its idle level,
   at every sample edge sdo carries the next bit of the latched word in transmit order; with msb_first the
   k-th sampled bit of a word (k = 0, 1, ...) is bit ws-1-k of the word presented for transmission *)
Theorem C50_tx_in_order : forall c, (1 <= ws c)%nat -> cpha c = true ->
  forall ins sp i0, selected c i0 = false -> sclk c i0 = false -> Forall (fun i => selected c i = true) ins ->
  let sp' := run_state (sp_step c) sp (i0 :: ins) in
  forall i, selected c i = true -> sample_edge c (s_clk sp') i = true ->
  s_sdo sp' = tx_bit c (s_load sp') (length (s_acc sp')).
Proof. exact sp_tx_in_order. Qed.
Print Assumptions C50_tx_in_order.

Theorem C50_tx_msb_first : forall c, msb c = true -> forall w j, tx_bit c w j = nth (ws c - 1 - j) w false.
Proof. exact tx_bit_msb. Qed.
Print Assumptions C50_tx_msb_first.

(* ---- the code as it stands ---- *)
Definition c3 : spi_cfg := {| ws := 3; cpol := false; cpha := false; msb := true; csh := false |}.
(* chip select, then six clock pulses with sdi = 1 (input word = sck + 2*sdi + 4*cs), then three quiet cycles *)
Definition two_words : list N := [4; 7; 6; 7; 6; 7; 6; 7; 6; 7; 6; 7; 6; 6; 6; 6].
Definition strobes (c : spi_cfg) (outs : list N) : nat :=
  length (filter (fun o => N.testbit o (N.of_nat (ws c))) outs).

Theorem C50_asis_refuted :
  strobes c3 (run (sp_step c3) (sp_init c3) two_words) = 2%nat /\
  strobes c3 (run (d_step true c3) (d_init c3) two_words) = 2%nat /\
  strobes c3 (run (d_step false c3) (d_init c3) two_words) = 1%nat.
Proof. vm_compute. repeat split. Qed.
Print Assumptions C50_asis_refuted.

(* concrete run, word_size 3, mode 1 (cpha = 1), msb first: word_out = 5 = 101b is returned as 1,0,1 and the
   sampled bits 1,1,0 are reported as 6 = 110b.  Output word: word_in(3) | complete | accepted | sdo. *)
Definition c3m1 : spi_cfg := {| ws := 3; cpol := false; cpha := true; msb := true; csh := false |}.
Example C50_example_run :
  run (sp_step c3m1) (sp_init c3m1)
      [40; 44; 47; 46; 47; 46; 45; 44; 44; 44; 44] =
      [0;  0;  0;  32; 32; 0;  0;  32; 48; 46; 38].
Proof. vm_compute. reflexivity. Qed.
