From Coq Require Import NArith List Bool. Import ListNotations.
From LunaModel Require Import StreamOut.
