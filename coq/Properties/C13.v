(* C13 -- Bulk OUT endpoints ACK exactly the data they deliver.

   Objects (Model/StreamOut.v, Model/C16_OutTrack.v):
     so_run mps depth (so_init depth) ins   the code-shaped model of USBStreamOutEndpoint(max_packet_size = mps, buffer_size =
                                            depth): boundary-detector model (C28), the endpoint's registers (expected toggle,
                                            overflow, rx_cnt, transfer_active, next_active) and equations, pointer/memory FIFO
                                            model (C18); bytes are written one by one and rolled back on bad CRC / overflow
     ss_run mps depth ss_init ins           the packet-level specification machine: list queue, packet tracker, toggle,
                                            mid-transfer flag.  A packet's payload is appended to the queue in one step, framed
                                            (`first` iff it starts a transfer, `last` iff the packet is shorter than mps), when the
                                            packet has ended CRC-valid, addressed, with the expected toggle and without having
                                            lost a byte.  Responses: expected toggle -> ACK iff no byte was lost, else NAK;
                                            other toggle -> ACK, nothing stored; PING -> ACK iff mps entries are free.
                                            Toggle and mid-transfer flag advance exactly with an ACK for new data.
     ss_env_ok                              the environment assumption E0-E4 (StreamOut.v section 3), checked cycle by cycle
     so_transfers ins outs                  the entries handed to the consumer: cycles with stream.valid & stream.ready

   All statements hold for every max_packet_size >= 1, every buffer size and every input history of any length. *)
From Coq Require Import NArith List Bool Arith. Import ListNotations.
From LunaModel Require Import BoundaryDet TxFifo C16_OutTrack StreamOut StreamOut_proofs.
Open Scope nat_scope.

(* the model shows, cycle by cycle, ack, nak, stream.valid and (while valid) payload/first/last of the specification *)
Theorem C13_model_refines_spec : forall mps depth, 1 <= mps -> forall ins,
  ss_env_ok mps depth ss_init ins = true ->
  map so_norm (so_run mps depth (so_init depth) ins) = ss_run mps depth ss_init ins.
Proof. exact so_refines. Qed.
Print Assumptions C13_model_refines_spec.

(* what the model hands to the consumer, followed by what is still queued, is exactly the concatenation of the framed
   payloads of the packets accepted as new data: each exactly once, in order, whole; corrupted, NAKed (overflowed) and
   repeated-toggle packets contribute nothing *)
Theorem C13_stream_is_accepted_payloads : forall mps depth, 1 <= mps -> forall ins,
  ss_env_ok mps depth ss_init ins = true ->
  so_transfers ins (so_run mps depth (so_init depth) ins) ++ t_q (ss_run_state mps depth ss_init ins)
  = concat (ss_accepted_frames mps depth ss_init ins).
Proof. exact so_model_stream. Qed.
Print Assumptions C13_stream_is_accepted_payloads.

(* the model's handshakes are the specification's *)
Theorem C13_handshakes : forall mps depth, 1 <= mps -> forall ins,
  ss_env_ok mps depth ss_init ins = true ->
  map (fun o => (v_ack o, v_nak o)) (so_run mps depth (so_init depth) ins)
  = map (fun o => (v_ack o, v_nak o)) (ss_run mps depth ss_init ins).
Proof. exact so_model_handshakes. Qed.
Print Assumptions C13_handshakes.

(* reading of the specification's responses: when a response to a data packet is requested (no PING in the same
   cycle), a packet with the expected toggle is ACKed iff none of its bytes was lost -- the condition under which its
   payload is committed -- and NAKed otherwise; a packet with the other toggle is ACKed (and nothing of it was stored) *)
Theorem C13_response : forall mps depth s i, u_tgt i = true -> u_rfr i = true -> u_ping i = false ->
  let o := ss_outf mps depth s i in
  (ss_match s i = true -> v_ack o = negb (ss_lost_now depth s i || t_lost s) /\ v_nak o = (ss_lost_now depth s i || t_lost s)) /\
  (ss_match s i = false -> v_ack o = true /\ v_nak o = false).
Proof. exact ss_response. Qed.
Print Assumptions C13_response.

(* the expected toggle advances exactly with an ACK for new data *)
Theorem C13_toggle : forall mps depth s i, u_clr i = false ->
  t_tog (ss_next mps depth s i) = if u_tgt i && u_rfr i && ss_match s i && negb (ss_lost_now depth s i || t_lost s)
                                   then negb (t_tog s) else t_tog s.
Proof. exact ss_toggle. Qed.
Print Assumptions C13_toggle.

(* ---- non-vacuity: max_packet_size 2, buffer 3, consumer stalled.
   DATA0 [1;2] (full packet, ACK), DATA1 [3;4] finds one free entry: byte 4 is lost -> NAK eight cycles later (full-speed
   timing; the gateware as found ACKs here), nothing of it is delivered; the consumer drains; the retry DATA1 [3;4] is
   ACKed; DATA0 zero-length packet ends the transfer; DATA1 [9] starts a new one and is marked first. *)
Definition cy (tgt rfr rdy v n c i : bool) (tog p : N) : so_in :=
  {| u_tgt := tgt; u_ping := false; u_rfr := rfr; u_tog := tog; u_clr := false; u_rdy := rdy;
     u_rx := {| r_valid := v; r_next := n; r_cin := c; r_iin := i; r_pay := p |} |}.
Definition idle (rdy : bool) (tog : N) (k : nat) : list so_in := repeat (cy true false rdy false false false false tog 0%N) k.
Definition pkt (rdy : bool) (tog : N) (bs : list N) (delay : nat) : list so_in :=
  [cy true false rdy true false false false tog 0%N]
  ++ map (cy true false rdy true true false false tog) bs
  ++ [cy true false rdy false false true false tog 0%N]
  ++ idle rdy tog delay ++ [cy true true rdy false false false false tog 0%N] ++ idle rdy tog 3.
Definition C13_hist : list so_in :=
  pkt false 0 [1; 2]%N 7 ++ pkt false 1 [3; 4]%N 7 ++ idle true 1 4 ++ pkt true 1 [3; 4]%N 7
  ++ pkt true 0 [] 0 ++ pkt true 1 [9]%N 0 ++ idle true 1 4.

Example C13_hist_env : ss_env_ok 2 3 ss_init C13_hist = true.
Proof. reflexivity. Qed.

Definition acks (outs : list so_out) : list bool :=
  flat_map (fun o => if v_ack o then [true] else if v_nak o then [false] else []) outs.

Example C13_hist_run :
  acks (so_run 2 3 (so_init 3) C13_hist) = [true; false; true; true; true]
  /\ so_transfers C13_hist (so_run 2 3 (so_init 3) C13_hist)
     = frame true false [1; 2]%N ++ frame false false [3; 4]%N ++ frame true true [9]%N.
Proof. split; reflexivity. Qed.

(* the specification state survives the packing used by the runtime oracle *)
Example C13_oracle_packing :
  let s := ss_run_state 2 3 ss_init (firstn 20 C13_hist) in ss_dec 2 3 (ss_enc 2 3 s) = s.
Proof. reflexivity. Qed.
