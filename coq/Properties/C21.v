(* C21 -- Frame and microframe numbers track received SOFs.
   Model and specification: Model/FrameTrack.v (the "Frame/microframe state" block of USBDevice.elaborate,
   luna/gateware/usb/usb2/device.py), parametric in the frame-number width fw and the microframe-counter
   width mw (LUNA: 11, 3).  One list element = one `usb` cycle; an input word carries the token
   detector's new_frame strobe (`sof`) and frame value, an output word frame_number, microframe_number,
   new_frame, sof_detected.

   frames_after mw sofs = (frame_number, microframe_number) after the SOFs with frame numbers `sofs`
   (oldest first), starting from (0, 0) at reset, by the recurrence
        (fn, mf)  --SOF f-->  (f, if f = fn then (mf + 1) mod 2^mw else 0). *)
From Coq Require Import NArith List Bool. Import ListNotations.
From LunaLib Require Import Netlist Machine.
From LunaModel Require Import FrameTrack FrameTrack_proofs.
Open Scope N_scope.

(* In every cycle t of every history: frame_number and microframe_number are frames_after the SOFs
   delivered in cycles 0..t-1; new_frame is raised iff cycle t delivers a SOF whose number differs
   from frame_number; sof_detected iff cycle t delivers a SOF. *)
Theorem C21_frametrack_exact : forall fw mw tr t, (t < length tr)%nat ->
  nth t (run (ft_step fw mw) ft_init tr) 0 = ft_spec_out fw mw (firstn t tr) (nth t tr 0).
Proof. exact frametrack_exact. Qed.
Print Assumptions C21_frametrack_exact.

(* after each SOF the reported frame number is that SOF's frame number *)
Theorem C21_frame_is_last_sof : forall mw sofs f, fst (frames_after mw (sofs ++ [f])) = f.
Proof. intros. rewrite frame_is_last_sof. apply last_last. Qed.
Print Assumptions C21_frame_is_last_sof.

(* the microframe number is reset when the frame number changes, incremented (mod 2^mw) when it repeats *)
Theorem C21_microframe_recurrence : forall mw sofs f,
  snd (frames_after mw (sofs ++ [f]))
  = if f =? fst (frames_after mw sofs) then (snd (frames_after mw sofs) + 1) mod 2 ^ mw else 0.
Proof. exact microframe_recurrence. Qed.
Print Assumptions C21_microframe_recurrence.

(* a concrete run (fw = 11, mw = 3); input word = sof + 2 * frame:
   SOFs 7, 7, 7, 8, 8, 2047, 0 with idle cycles in between *)
Example C21_example :
  let sof f := 1 + 2 * f in
  let out := run (ft_step 11 3) ft_init [sof 7; 0; sof 7; sof 7; 0; sof 8; sof 8; sof 2047; sof 0; 0] in
  map (fun o => (o mod 2048, (o / 2048) mod 8, (o / 16384) mod 2)) out
  = [(0, 0, 1); (7, 0, 0); (7, 0, 0); (7, 1, 0); (7, 2, 0); (7, 2, 1); (8, 0, 0); (8, 1, 1); (2047, 0, 1); (0, 0, 0)].
Proof. vm_compute. reflexivity. Qed.
(* microframes wrap modulo 8 (nine SOFs of the same frame after the first one) *)
Example C21_example_wrap :
  frames_after 3 [5; 5; 5; 5; 5; 5; 5; 5; 5; 5] = (5, 1).
Proof. vm_compute. reflexivity. Qed.
(* end-to-end specification: the SOF packet A5 10 2F (frame 0x710, CRC5 0x05) over UTMI *)
Example C21_example_sof_packet : sof_of_packet [0xA5; 0x10; 0x2F] = Some 0x710.
Proof. vm_compute. reflexivity. Qed.
