(* C31 -- SuperSpeed scrambling uses the USB3 LFSR and descrambling inverts it.
   Statements about the hand model (Model/Scrambler.v) on top of the bit-serial LFSR reference;
   the LFSR equations of the code are re-proved against that reference on every run (props/C31.py). *)
From Coq Require Import NArith List Bool.
Import ListNotations.
From LunaLib Require Import Machine.
From LunaModel Require Import Crc Scrambler Scrambler_proofs.
Open Scope N_scope.

Theorem C31_descramble_scramble : forall init enable ws reg,
  Forall (fun w => fst w < 2 ^ 32) ws ->
  scramble_words init enable reg (scramble_words init enable reg ws) = ws.
Proof. exact descramble_scramble. Qed.
Print Assumptions C31_descramble_scramble.

Theorem C31_scrambler_cycles : forall init enable tr reg,
  forallb (cyc_env enable) tr = true ->
  handed_over tr (run (scr_step init) reg tr) = scramble_words init enable reg (offered tr).
Proof. exact scrambler_cycles. Qed.
Print Assumptions C31_scrambler_cycles.

(* the reference keystream starts FF 17 C0 14 (USB 3.2 Appendix B) *)
Example C31_keystream_start : ks_word (lfsr_init 65535) = 348133375.   (* 0x14C017FF *)
Proof. vm_compute. reflexivity. Qed.
(* the environment hypothesis is satisfiable on a non-trivial trace: a stalled data word, a held word, then COM handed over at once *)
Example C31_env_nonvacuous :
  forallb (cyc_env true) [2 + 8 * 305419896 + N.shiftl 1 39;                          (* valid, not ready *)
                          2 + 4 + 8 * 305419896 + N.shiftl 1 39 + N.shiftl 1 40;      (* valid, ready, hold *)
                          2 + 8 * 188 + N.shiftl 1 35 + N.shiftl 1 39 + N.shiftl 1 40] = true.
Proof. vm_compute. reflexivity. Qed.
