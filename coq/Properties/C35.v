(* C35 -- Link commands round-trip and corrupted commands are rejected.
   Models: LunaModel.LinkCommand (LinkCommandGenerator, LinkCommandDetector of luna/gateware/usb/usb3/link/command.py,
   compute_usb_crc5 of link/crc.py as its XOR equations `crc5_par`, and the bit-serial reference `crc5_ser`).
   One list element = one clock cycle; `stalled i` means source.ready = 0 in that cycle.  Trace lengths and
   stall lengths are unbounded; commands and subtypes range over all 4-bit values. *)
From Coq Require Import NArith List Bool. Import ListNotations.
From LunaLib Require Import Netlist Machine SymWord.
From LunaModel Require Import LinkCommand LinkCommand_proofs.
Open Scope N_scope.

(* (1) the CRC-5 equations of the code equal the bit-serial reference CRC-5 (x^5+x^2+1, preset ones, bits 0..10 in
   order, complemented, reversed) on all 2^11 protected-bit patterns *)
Theorem C35_crc5_is_reference : forall x, x < 2048 -> crc5_par x = crc5_ser x.
Proof. exact crc5_par_ser. Qed.
Print Assumptions C35_crc5_is_reference.

(* (2) wire format: the start word is SLC SLC SLC EPF; the command word is subtype | command<<7 with the reference
   CRC-5 in bits 11..15, sent as two identical 16-bit copies without control flags *)
Theorem C35_start_word : HDR_DATA = data_of [SLC; SLC; SLC; EPF] /\ HDR_CTRL = ctrl_of [SLC; SLC; SLC; EPF].
Proof. exact hdr_is_slc_slc_slc_epf. Qed.
Print Assumptions C35_start_word.

Theorem C35_command_word : forall c s, c < 16 -> s < 16 ->
  lc_word c s = (s + 128 * c) + 2048 * crc5_ser (s + 128 * c) /\
  lc_data c s = lc_word c s + 65536 * lc_word c s.
Proof. intros c s Hc Hs. split; [exact (lc_word_has_valid_crc c s Hc Hs) | reflexivity]. Qed.
Print Assumptions C35_command_word.

(* (3) generator, any stall pattern: request accepted in IDLE; start word held (valid) until a ready cycle; then
   the command word of the LATCHED pair held until the next ready cycle, `done` exactly there; then idle.
   Inputs other than `ready` are arbitrary after the request cycle. *)
Theorem C35_generator_transaction : forall st i0 pre1 x1 pre2 x2,
  gfsm st = G_IDLE -> g_generate i0 = true ->
  Forall stalled pre1 -> g_ready x1 = true -> Forall stalled pre2 -> g_ready x2 = true ->
  trun gen_step st (i0 :: pre1 ++ x1 :: pre2 ++ [x2])
  = gen_quiet :: repeat gen_hdr (length pre1) ++ gen_hdr
    :: repeat (gen_cmdw (g_cmd i0) (g_sub i0) false) (length pre2) ++ [gen_cmdw (g_cmd i0) (g_sub i0) true]
  /\ gfsm (tstate gen_step st (i0 :: pre1 ++ x1 :: pre2 ++ [x2])) = G_IDLE.
Proof. exact gen_transaction. Qed.
Print Assumptions C35_generator_transaction.

Theorem C35_generator_idle : forall st i, gfsm st = G_IDLE -> g_generate i = false -> gen_step st i = (st, gen_quiet).
Proof. exact gen_idle. Qed.
Print Assumptions C35_generator_idle.

(* (4) detector: new_command is raised (one cycle later) exactly for a valid word taken in PARSE_COMMAND that
   passes the acceptance test, and that test holds exactly for the well-formed words: ctrl = 0, two identical
   copies, CRC-5 field = CRC-5 of the 11 payload bits.  Any other word -- copies differ, CRC wrong, any control
   flag -- is not reported and leaves command/subtype unchanged; a report carries bits 7..10 and 0..3. *)
Theorem C35_detector_reports_iff : forall st i,
  dnew (fst (det_step st i)) = true <->
  dfsm st = D_PARSE /\ d_valid i = true /\ lc_accepts (d_data i) (d_ctrl i) = true.
Proof. exact det_reports_iff. Qed.
Print Assumptions C35_detector_reports_iff.

Theorem C35_accepts_iff_wellformed : forall data ctrl, data < 2 ^ 32 ->
  (lc_accepts data ctrl = true <->
   ctrl = 0 /\ exists p, p < 2048 /\ data = lc_word_of crc5_par p + 65536 * lc_word_of crc5_par p).
Proof. exact lc_accepts_iff_wellformed. Qed.
Print Assumptions C35_accepts_iff_wellformed.

Theorem C35_report_fields : forall st i, dnew (fst (det_step st i)) = true ->
  dcmd (fst (det_step st i)) = bits (d_data i) 7 4 /\ dsub (fst (det_step st i)) = bits (d_data i) 0 4.
Proof. exact det_report_fields. Qed.
Print Assumptions C35_report_fields.

Theorem C35_silent_keeps_registers : forall st i, dnew (fst (det_step st i)) = false ->
  dcmd (fst (det_step st i)) = dcmd st /\ dsub (fst (det_step st i)) = dsub st.
Proof. exact det_silent_keeps. Qed.
Print Assumptions C35_silent_keeps_registers.

(* (5) round trip through a link that transfers a word when valid & ready, for every command/subtype and every
   pair of stall lengths: the detector outputs its old registers with new_command = 0 in every cycle of the
   transaction and, in the cycle after the command word was taken, new_command = 1 with exactly (command, subtype) *)
Theorem C35_roundtrip : forall g d i0 pre1 x1 pre2 x2 x3,
  gfsm g = G_IDLE -> dfsm d = D_WAIT -> g_generate i0 = true -> g_cmd i0 < 16 -> g_sub i0 < 16 ->
  Forall stalled pre1 -> g_ready x1 = true -> Forall stalled pre2 -> g_ready x2 = true ->
  map fst (trun rt_step (g, d) (i0 :: pre1 ++ x1 :: pre2 ++ [x2; x3]))
  = det_regs d :: repeat (det_quiet d) (length pre1) ++ det_quiet d
    :: repeat (det_quiet d) (length pre2) ++ [det_quiet d; {| r_cmd := g_cmd i0; r_sub := g_sub i0; r_new := true |}].
Proof. exact roundtrip. Qed.
Print Assumptions C35_roundtrip.

(* Non-vacuity / sanity: LGOOD_3 (command 0b0000, subtype 3) ; a concrete packed run of the
   composite machine: request, one stall, ready, ready, idle. *)
Example C35_example_word : lc_word 0 3 = 0x5003 /\ lc_word 1 4 = 0x9884.
Proof. vm_compute. split; reflexivity. Qed.
Example C35_example_run :
  map (fun o => (bits o 0 4, bits o 4 4, bits o 8 1))
      (run rt_mstep (gen_init, det_init)
           [gen_pack 5 9 true false; gen_pack 0 0 false false; gen_pack 0 0 false true; gen_pack 1 1 true true;
            gen_pack 0 0 false false; gen_pack 0 0 false false])
  = [(0,0,0); (0,0,0); (0,0,0); (0,0,0); (5,9,1); (5,9,0)].
Proof. vm_compute. reflexivity. Qed.
