(* C45 -- Transaction packet requests produce the requested transaction packet.
   Model and specification: Model/TpGen.v (TransactionPacketGenerator).  One list element = one
   "ss" clock cycle; the input word carries the endpoint interface (endpoint number, retry flag,
   sequence number, four request strobes), the device address and header_source.ready; the output
   word carries interface.ready/done, header_source.valid and the 128-bit header.

   C45_tp_refines: for every input history the code-shaped model (FSM + four registers re-latched
     in every DISPATCH cycle) produces exactly the outputs of the specification machine whose only
     state is "the request being served, if any": ready and nothing offered while idle; while
     serving r: not ready, valid, header = encode r, done exactly in the cycle the queue is ready.
   C45_exactly_once: on every history, the headers taken by the header queue (valid & ready) are,
     in order, exactly the encodings of the requests made while the generator said ready -- at most
     the last request is still pending.  No loss, no duplicate, no spontaneous packet.
   C45_header_fields: encode r is a transaction packet (type 4) of r's subtype with route string 0,
     r's device address, r's endpoint number (low four bits) and, for ACK, r's retry flag and
     sequence number.  req_of takes these fields from the input word of the request cycle.
   C45_offers: while a request is pending it is offered in every cycle; done = valid & queue ready.
   Simultaneous strobes are resolved ERDY > NRDY > STALL > ACK (strobe_kind); with a single strobe
   the packet is that strobe's (C45_single_strobe).                                              *)
From Coq Require Import NArith List Bool. Import ListNotations.
From LunaLib Require Import Netlist Machine.
From LunaModel Require Import TpGen TpGen_proofs.
Open Scope N_scope.

Theorem C45_tp_refines : forall ins, run tp_step tp_init ins = run sp_step None ins.
Proof. exact tp_refines. Qed.
Print Assumptions C45_tp_refines.

Theorem C45_exactly_once : forall ins,
  let ios := combine ins (run tp_step tp_init ins) in
  exists rest, (length rest <= 1)%nat /\ map encode (requests_of ios) = packets_of ios ++ rest.
Proof. exact tp_exactly_once. Qed.
Print Assumptions C45_exactly_once.

Theorem C45_header_fields : forall k i, let r := req_of k i in
  h_type (encode r) = TP_TYPE /\ h_route (encode r) = 0 /\ h_addr (encode r) = i_addr i /\
  h_subtype (encode r) = subtype_code k /\ h_ep (encode r) = i_ep i mod 16 /\
  (k = ACK -> h_retry (encode r) = i_retry i /\ h_seq (encode r) = i_seq i).
Proof. intros k i. exact (header_fields (req_of k i) (req_of_wf k i)). Qed.
Print Assumptions C45_header_fields.

Theorem C45_offers : forall p i,
  o_valid (sp_out p i) = negb (o_ready (sp_out p i)) /\
  o_done (sp_out p i) = o_valid (sp_out p i) && i_hsready i /\
  (forall r, p = Some r -> o_header (sp_out p i) = encode r).
Proof. exact sp_offers. Qed.
Print Assumptions C45_offers.

Theorem C45_single_strobe : forall i,
  (i_ack i = true /\ i_stall i = false /\ i_nrdy i = false /\ i_erdy i = false -> strobe_kind i = Some ACK) /\
  (i_ack i = false /\ i_stall i = true /\ i_nrdy i = false /\ i_erdy i = false -> strobe_kind i = Some STALL) /\
  (i_ack i = false /\ i_stall i = false /\ i_nrdy i = true /\ i_erdy i = false -> strobe_kind i = Some NRDY) /\
  (i_ack i = false /\ i_stall i = false /\ i_nrdy i = false /\ i_erdy i = true -> strobe_kind i = Some ERDY) /\
  (i_ack i = false /\ i_stall i = false /\ i_nrdy i = false /\ i_erdy i = false -> strobe_kind i = None).
Proof. exact strobe_kind_single. Qed.
Print Assumptions C45_single_strobe.

(* non-vacuity / a concrete run: ERDY for endpoint 3 at address 42 (strobes = 8), the queue stalls
   two cycles; meanwhile the inputs change and an ACK strobe is ignored; then an ACK request with
   retry = 1, sequence 21, taken at once. *)
Definition ex_ins : list N :=
  [mk_in 3 false 0 8 42 false; mk_in 9 true 7 1 1 false; mk_in 0 false 0 0 0 false; mk_in 0 false 0 0 0 true;
   mk_in 3 true 21 1 42 true; mk_in 0 false 0 0 0 true; 0].
Example C45_example :
  let ios := combine ex_ins (run tp_step tp_init ex_ins) in
  requests_of ios = [ {| q_kind := ERDY; q_addr := 42; q_ep := 3; q_retry := false; q_seq := 0 |};
                      {| q_kind := ACK;  q_addr := 42; q_ep := 3; q_retry := true;  q_seq := 21 |} ] /\
  packets_of ios = map encode (requests_of ios) /\
  map (fun h => (h_subtype h, h_addr h, h_ep h, h_retry h, h_seq h)) (packets_of ios)
    = [(3, 42, 3, false, 0); (1, 42, 3, true, 21)].
Proof. vm_compute. repeat split. Qed.
