(* C14 -- Data toggles advance only on success and reset on CLEAR_FEATURE(ENDPOINT_HALT).

   Specifications: Model/DataToggle.v.
     IN endpoints   seq_next / c14i_mon: the toggle is cleared by a ClearFeature(ENDPOINT_HALT) strobe naming this IN endpoint,
                    flipped by a host ACK while a completed packet's handshake is outstanding, unchanged otherwise; every
                    transmission (tx.valid) carries it on tx_pid_toggle; a retry therefore repeats the PID.
     OUT endpoints  c14o_mon: the expected_data_toggle register is cleared by a strobe naming this OUT endpoint, flipped when the
                    device ACKs a data packet carrying the expected PID, unchanged otherwise; a repeated PID is ACKed.
     decode         c14d_mon: the strobe is (1, wIndex[7], wIndex[3:0]) exactly at a host ACK while the most recent SETUP packet is
                    a not yet completed CLEAR_FEATURE(ENDPOINT_HALT, recipient endpoint); all-zero otherwise.
   Proved here: the IN rule for the USBStreamInEndpoint model of Model/InXfer.v, for EVERY max_packet_size and endpoint number
   and every input history.  The OUT rule and the decode are proved against the netlists regenerated from /repo at the tie
   configurations of props/C14.py (kernel-checked reachability, any trace length) and checked on simulator traces at
   realistic sizes; they have no parametric model here. *)
From Coq Require Import NArith List Bool Lia. Import ListNotations.
From LunaLib Require Import Netlist Machine.
From LunaModel Require Import InXfer InXfer_proofs DataToggle DataToggle_proofs.

(* (1) The IN endpoint model never violates the IN toggle rule. *)
Theorem C14_in_toggle_rule_holds : forall mps ep ins,
  c14i_check ep tg_init (combine ins (ix_run true true mps ep (ix_init mps) ins)) = true.
Proof. exact in_toggle_refines. Qed.
Print Assumptions C14_in_toggle_rule_holds.

(* (2) The rule itself, spelled out: after any cycle the toggle is DATA0 if a matching clear-halt strobe arrived, flipped if
   the host ACKed the outstanding packet, and otherwise what it was. *)
Theorem C14_in_toggle_rule : forall ep s i,
  seq_next ep s i = if clr ep i then false else if g_wait s && i_ack i then negb (g_seq s) else g_seq s.
Proof. reflexivity. Qed.
Print Assumptions C14_in_toggle_rule.

(* (3) ... and exactly the endpoint named: the strobe is decoded as enable & direction(IN) & number = ep. *)
Theorem C14_in_clear_halt_decode : forall ep i,
  clr ep i = N.testbit (i_clr i) 0 && N.testbit (i_clr i) 1 && (bits (i_clr i) 2 4 =? ep)%N.
Proof. reflexivity. Qed.
Print Assumptions C14_in_clear_halt_decode.

(* (4) the packed form used by the netlist ties *)
Theorem C14_in_packed : forall mps ep ws,
  c14i_check ep tg_init
    (combine (map ix_in_of ws) (map ix_out_of (run (ix_mstep_t mps ep) (ix_init mps) ws))) = true.
Proof. exact in_toggle_packed_t. Qed.
Print Assumptions C14_in_packed.

(* ---- concrete runs, endpoint 1, mps = 2 (input words: InXfer.ix_word valid last flush is_in rfr new_token ack tx_ready
        rcv endpoint clear_halt payload; clear_halt word 7 = enable, direction IN, number 1; 5 = enable, OUT, number 1) *)
Definition b1 := ix_word true true false false false false false false false 1 0 0x11.   (* a one-byte transfer *)
Definition idle := ix_word false false false false false false false false false 1 0 0.
Definition tokn := ix_word false false false true false true false false false 1 0 0.
Definition rfr := ix_word false false false true true false false false false 1 0 0.
Definition rdy := ix_word false false false true false false false true true 1 0 0.
Definition ackw := ix_word false false false true false false true false false 1 0 0.
Definition clrw (c : N) := ix_word false false false false false false false false false 1 c 0.
Definition pids (ws : list N) : list (bool * N) :=
  map (fun o => (o_valid o, o_pid o)) (ix_run true true 2 1 (ix_init 2) (map ix_in_of ws)).

(* DATA0, (no ACK) retry DATA0, ACK, DATA1, ACK, clear-halt for IN endpoint 1, then DATA0 again *)
Example C14_in_sequence :
  filter fst (pids [b1; tokn; rfr; rdy; tokn; rfr; rdy; ackw; b1; tokn; rfr; rdy; ackw; clrw 7; b1; tokn; rfr; rdy])
  = [(true, 0); (true, 0); (true, 1); (true, 0)]%N.
Proof. vm_compute. reflexivity. Qed.
(* a strobe naming OUT endpoint 1 or IN endpoint 2 leaves the toggle alone: the third packet is DATA0 again only after ... *)
Example C14_in_other_endpoint_untouched :
  filter fst (pids [b1; tokn; rfr; rdy; ackw; clrw 5; clrw 11; b1; tokn; rfr; rdy])
  = [(true, 0); (true, 1)]%N.
Proof. vm_compute. reflexivity. Qed.

(* The code as found (fix_rst = false) violates the rule: a clear-halt strobe in the cycle in which a packet is queued
   (WAIT_FOR_DATA -> WAIT_TO_SEND) is undone by the swap's toggle; the next packet goes out as DATA1 (confirmed on the
   simulator, findings/C14-*.json). *)
Definition bad14 : list N :=
  [b1; tokn; rfr; rdy; ackw; idle; ix_word true true false false false false false false false 1 7 0x22; tokn; rfr; rdy].
Example C14_unfixed_violates :
  c14i_check 1 tg_init (combine (map ix_in_of bad14) (ix_run true false 2 1 (ix_init 2) (map ix_in_of bad14))) = false /\
  c14i_check 1 tg_init (combine (map ix_in_of bad14) (ix_run true true 2 1 (ix_init 2) (map ix_in_of bad14))) = true.
Proof. vm_compute. split; reflexivity. Qed.

(* the OUT rule on a hand-made I/O trace (endpoint 1): ACKed DATA0 flips the register to 1; a repeated DATA0 is ACKed and
   leaves it; a clear-halt strobe (enable, OUT, number 1 = word 5 at bit 15) returns it to 0 *)
Definition ow (is_out rx_rfr : bool) (pid clrh : N) : N := b2n is_out + 8 * b2n rx_rfr + 512 * pid + 2048 * 1 + 32768 * clrh.
Example C14_out_rule_example :
  first_bad (c14o_mon 1) 0 0 [(ow true true 0 0, 1); (ow true true 0 0, 1 + 4); (ow false false 0 5, 4); (ow false false 0 0, 0)]
  = None /\
  first_bad (c14o_mon 1) 0 0 [(ow true true 0 0, 1); (ow true true 0 0, 1)] = Some 1%N.
Proof. vm_compute. split; reflexivity. Qed.

(* the decode rule on a hand-made I/O trace: SETUP CLEAR_FEATURE(ENDPOINT_HALT) for endpoint 0x81, host ACK -> strobe
   (enable, IN, number 1) = 1 + 2 + 4; a second ACK finds nothing pending; a CLEAR_FEATURE with selector 1 never fires *)
Definition dw (received ack : bool) (value index : N) : N :=
  b2n received + 2 * b2n ack + 256 * 2 + 8192 * 1 + 2097152 * value + 137438953472 * index.
Example C14_decode_rule_example :
  first_bad c14d_mon 0 0 [(dw true false 0 0x81, 0); (dw false true 0 0x81, 7); (dw false true 0 0x81, 0);
                          (dw true false 1 0x81, 0); (dw false true 1 0x81, 0)] = None /\
  first_bad c14d_mon 0 0 [(dw true false 0 0x81, 0); (dw false true 0 0x81, 5)] = Some 1%N.
Proof. vm_compute. split; reflexivity. Qed.
